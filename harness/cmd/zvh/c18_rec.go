package main

import (
	"encoding/json"
	"fmt"
	"math"
	"strconv"
	"strings"
	"time"

	"go.uber.org/zap/buffer"
	"go.uber.org/zap/zapcore"
)

// A typed, ordered recording encoder: it implements zapcore.Encoder, so the REAL ioCore (With / Check / Write,
// encoder cloning) sits between the slog handler and the observation. Every Add* call is recorded with the
// method's type tag; OpenNamespace nests everything that follows (the zapcore.ObjectEncoder contract).

type tnode struct {
	K   string   `json:"k"`
	Ty  string   `json:"ty,omitempty"` // leaf: recorded type tag
	V   string   `json:"v,omitempty"`  // leaf: canonical text
	C   []*tnode `json:"c,omitempty"`  // group: children, in order
	Grp bool     `json:"-"`
}

// canonical JSON of a tree: leaves {"k","ty","v"}, groups {"k","c":[…]} (c always present for groups)
func (n *tnode) MarshalJSON() ([]byte, error) {
	if n.Grp {
		c := n.C
		if c == nil {
			c = []*tnode{}
		}
		return json.Marshal(struct {
			K string   `json:"k"`
			C []*tnode `json:"c"`
		}{n.K, c})
	}
	return json.Marshal(struct {
		K  string `json:"k"`
		Ty string `json:"ty"`
		V  string `json:"v"`
	}{n.K, n.Ty, n.V})
}

func (n *tnode) UnmarshalJSON(b []byte) error {
	var raw struct {
		K  string    `json:"k"`
		Ty string    `json:"ty"`
		V  string    `json:"v"`
		C  *[]*tnode `json:"c"`
	}
	if err := json.Unmarshal(b, &raw); err != nil {
		return err
	}
	n.K, n.Ty, n.V = raw.K, raw.Ty, raw.V
	if raw.C != nil {
		n.Grp, n.C = true, *raw.C
	}
	return nil
}

type recEnc struct {
	root *tnode
	cur  *tnode
}

func newRecEnc() *recEnc {
	r := &tnode{Grp: true}
	return &recEnc{root: r, cur: r}
}

var recPool = buffer.NewPool()

func copyTree(n *tnode, cur *tnode, newCur **tnode) *tnode {
	m := &tnode{K: n.K, Ty: n.Ty, V: n.V, Grp: n.Grp}
	if n == cur {
		*newCur = m
	}
	for _, c := range n.C {
		m.C = append(m.C, copyTree(c, cur, newCur))
	}
	return m
}

func (e *recEnc) clone() *recEnc {
	var nc *tnode
	r := copyTree(e.root, e.cur, &nc)
	return &recEnc{root: r, cur: nc}
}

func (e *recEnc) Clone() zapcore.Encoder { return e.clone() }

type recLine struct {
	Level  int      `json:"level"`
	Name   string   `json:"name"`
	Fields []*tnode `json:"fields"`
}

func (e *recEnc) EncodeEntry(ent zapcore.Entry, fields []zapcore.Field) (*buffer.Buffer, error) {
	f := e.clone()
	for i := range fields {
		fields[i].AddTo(f)
	}
	c := f.root.C
	if c == nil {
		c = []*tnode{}
	}
	b, err := json.Marshal(recLine{Level: int(ent.Level), Name: ent.LoggerName, Fields: c})
	if err != nil {
		return nil, err
	}
	buf := recPool.Get()
	buf.AppendString(string(b))
	buf.AppendByte('\n')
	return buf, nil
}

func (e *recEnc) leaf(k, ty, v string) { e.cur.C = append(e.cur.C, &tnode{K: k, Ty: ty, V: v}) }

func f64text(f float64) string { return fmt.Sprintf("%016x", math.Float64bits(f)) }

func timeText(t time.Time) string { return t.UTC().Format(time.RFC3339Nano) }

func (e *recEnc) AddArray(k string, m zapcore.ArrayMarshaler) error {
	a := &recArr{}
	err := m.MarshalLogArray(a)
	e.leaf(k, "array", "["+strings.Join(a.elems, " ")+"]")
	return err
}

func (e *recEnc) AddObject(k string, m zapcore.ObjectMarshaler) error {
	n := &tnode{K: k, Grp: true}
	e.cur.C = append(e.cur.C, n)
	sub := &recEnc{root: n, cur: n}
	return m.MarshalLogObject(sub)
}

func (e *recEnc) AddBinary(k string, v []byte)         { e.leaf(k, "binary", hx(v)) }
func (e *recEnc) AddByteString(k string, v []byte)     { e.leaf(k, "bytestr", string(v)) }
func (e *recEnc) AddBool(k string, v bool)             { e.leaf(k, "bool", strconv.FormatBool(v)) }
func (e *recEnc) AddComplex128(k string, v complex128) { e.leaf(k, "c128", fmt.Sprint(v)) }
func (e *recEnc) AddComplex64(k string, v complex64)   { e.leaf(k, "c64", fmt.Sprint(v)) }
func (e *recEnc) AddDuration(k string, v time.Duration) {
	e.leaf(k, "dur", strconv.FormatInt(int64(v), 10))
}
func (e *recEnc) AddFloat64(k string, v float64) { e.leaf(k, "f64", f64text(v)) }
func (e *recEnc) AddFloat32(k string, v float32) { e.leaf(k, "f32", f64text(float64(v))) }
func (e *recEnc) AddInt(k string, v int)         { e.leaf(k, "int", strconv.Itoa(v)) }
func (e *recEnc) AddInt64(k string, v int64)     { e.leaf(k, "i64", strconv.FormatInt(v, 10)) }
func (e *recEnc) AddInt32(k string, v int32)     { e.leaf(k, "i32", strconv.FormatInt(int64(v), 10)) }
func (e *recEnc) AddInt16(k string, v int16)     { e.leaf(k, "i16", strconv.FormatInt(int64(v), 10)) }
func (e *recEnc) AddInt8(k string, v int8)       { e.leaf(k, "i8", strconv.FormatInt(int64(v), 10)) }
func (e *recEnc) AddString(k, v string) {
	if strings.HasPrefix(v, "LogValue panicked\n") {
		v = "LogValue panicked" // the rest is the stack of the contained panic
	}
	e.leaf(k, "str", v)
}
func (e *recEnc) AddTime(k string, v time.Time) { e.leaf(k, "time", timeText(v)) }
func (e *recEnc) AddUint(k string, v uint)      { e.leaf(k, "uint", strconv.FormatUint(uint64(v), 10)) }
func (e *recEnc) AddUint64(k string, v uint64)  { e.leaf(k, "u64", strconv.FormatUint(v, 10)) }
func (e *recEnc) AddUint32(k string, v uint32)  { e.leaf(k, "u32", strconv.FormatUint(uint64(v), 10)) }
func (e *recEnc) AddUint16(k string, v uint16)  { e.leaf(k, "u16", strconv.FormatUint(uint64(v), 10)) }
func (e *recEnc) AddUint8(k string, v uint8)    { e.leaf(k, "u8", strconv.FormatUint(uint64(v), 10)) }
func (e *recEnc) AddUintptr(k string, v uintptr) {
	e.leaf(k, "uptr", strconv.FormatUint(uint64(v), 10))
}
func (e *recEnc) AddReflected(k string, v interface{}) error {
	e.leaf(k, "reflect", fmt.Sprint(v))
	return nil
}

func (e *recEnc) OpenNamespace(k string) {
	n := &tnode{K: k, Grp: true}
	e.cur.C = append(e.cur.C, n)
	e.cur = n
}

// recArr collects the elements of an array field as text.
type recArr struct{ elems []string }

func (a *recArr) add(v any)                           { a.elems = append(a.elems, fmt.Sprint(v)) }
func (a *recArr) AppendBool(v bool)                   { a.add(v) }
func (a *recArr) AppendByteString(v []byte)           { a.add(string(v)) }
func (a *recArr) AppendComplex128(v complex128)       { a.add(v) }
func (a *recArr) AppendComplex64(v complex64)         { a.add(v) }
func (a *recArr) AppendFloat64(v float64)             { a.add(v) }
func (a *recArr) AppendFloat32(v float32)             { a.add(v) }
func (a *recArr) AppendInt(v int)                     { a.add(v) }
func (a *recArr) AppendInt64(v int64)                 { a.add(v) }
func (a *recArr) AppendInt32(v int32)                 { a.add(v) }
func (a *recArr) AppendInt16(v int16)                 { a.add(v) }
func (a *recArr) AppendInt8(v int8)                   { a.add(v) }
func (a *recArr) AppendString(v string)               { a.add(v) }
func (a *recArr) AppendUint(v uint)                   { a.add(v) }
func (a *recArr) AppendUint64(v uint64)               { a.add(v) }
func (a *recArr) AppendUint32(v uint32)               { a.add(v) }
func (a *recArr) AppendUint16(v uint16)               { a.add(v) }
func (a *recArr) AppendUint8(v uint8)                 { a.add(v) }
func (a *recArr) AppendUintptr(v uintptr)             { a.add(v) }
func (a *recArr) AppendDuration(v time.Duration)      { a.add(int64(v)) }
func (a *recArr) AppendTime(v time.Time)              { a.add(timeText(v)) }
func (a *recArr) AppendReflected(v interface{}) error { a.add(v); return nil }
func (a *recArr) AppendArray(m zapcore.ArrayMarshaler) error {
	sub := &recArr{}
	err := m.MarshalLogArray(sub)
	a.elems = append(a.elems, "["+strings.Join(sub.elems, " ")+"]")
	return err
}
func (a *recArr) AppendObject(m zapcore.ObjectMarshaler) error {
	sub := newRecEnc()
	err := m.MarshalLogObject(sub)
	b, _ := json.Marshal(sub.root.C)
	a.elems = append(a.elems, string(b))
	return err
}
