package main

import (
	"bytes"
	"context"
	"encoding/json"
	"fmt"
	"io"
	"log/slog"
	"time"

	"go.uber.org/zap"
	"go.uber.org/zap/exp/zapslog"
	"go.uber.org/zap/zapcore"
)

// Reference implementation of the slog.Handler contract, independent of zap and of the Lean model:
// build the whole tree first (WithGroup opens a node, attributes are added where they stand, an empty-key
// group spills its members into the enclosing node, LogValuer layers are ignored because they resolve to
// the value they wrap), then prune: the empty Attr and every group that ends up without attributes vanish.

func c18RefTree(path []c18Step, rec []c18Attr) []*tnode {
	root := &tnode{Grp: true}
	cur := root
	for _, st := range path {
		switch st.T {
		case "g":
			if st.Name == "" {
				continue // "If the name is empty, WithGroup returns the receiver."
			}
			n := &tnode{K: st.Name, Grp: true}
			cur.C = append(cur.C, n)
			cur = n
		case "a":
			c18RefAdd(cur, st.Attrs)
		}
	}
	c18RefAdd(cur, rec)
	c18Prune(root)
	if root.C == nil {
		return []*tnode{}
	}
	return root.C
}

func c18RefAdd(dst *tnode, as []c18Attr) {
	for _, a := range as {
		switch a.A {
		case "leaf":
			dst.C = append(dst.C, &tnode{K: a.K, Ty: a.Ty, V: a.V})
		case "nil":
			if a.K != "" { // key and value both zero ⇒ the empty Attr ⇒ ignored
				dst.C = append(dst.C, &tnode{K: a.K, Ty: "any:nil", V: "<nil>"})
			}
		case "group":
			if a.K == "" {
				c18RefAdd(dst, a.M) // inline
				continue
			}
			n := &tnode{K: a.K, Grp: true}
			c18RefAdd(n, a.M)
			dst.C = append(dst.C, n)
		}
	}
}

func c18Prune(n *tnode) {
	kept := n.C[:0:0]
	for _, c := range n.C {
		if c.Grp {
			c18Prune(c)
			if len(c.C) == 0 {
				continue
			}
		}
		kept = append(kept, c)
	}
	n.C = kept
}

// typed comparison: expected leaves carry the slog kind, recorded leaves the ObjectEncoder method tag.
// The seven typed kinds must arrive through the method of the same type; Any-kind values are compared by text.
func c18SameTyped(exp, got []*tnode) bool {
	if len(exp) != len(got) {
		return false
	}
	for i := range exp {
		e, g := exp[i], got[i]
		if e.K != g.K || e.Grp != g.Grp {
			return false
		}
		if e.Grp {
			if !c18SameTyped(e.C, g.C) {
				return false
			}
			continue
		}
		if e.V != g.V {
			return false
		}
		if len(e.Ty) < 4 || e.Ty[:4] != "any:" {
			if e.Ty != g.Ty {
				return false
			}
		}
	}
	return true
}

func c18SameShape(a, b []*tnode) bool {
	if len(a) != len(b) {
		return false
	}
	for i := range a {
		if a[i].K != b[i].K || a[i].Grp != b[i].Grp || (a[i].Grp && !c18SameShape(a[i].C, b[i].C)) {
			return false
		}
	}
	return true
}

func c18HasEmptyGroup(t []*tnode) bool {
	for _, n := range t {
		if n.Grp && (len(n.C) == 0 || c18HasEmptyGroup(n.C)) {
			return true
		}
	}
	return false
}

func c18HasNamelessGroup(t []*tnode) bool {
	for _, n := range t {
		if n.Grp && (n.K == "" || c18HasNamelessGroup(n.C)) {
			return true
		}
	}
	return false
}

// ---- ordered JSON objects (encoding/json token stream; member order and duplicate keys preserved)

type jmember struct {
	k   string
	obj []jmember // non-nil (possibly empty) iff the value is an object
	isO bool
}

func c18ParseObject(b []byte) ([]jmember, error) {
	dec := json.NewDecoder(bytes.NewReader(b))
	dec.UseNumber()
	t, err := dec.Token()
	if err != nil {
		return nil, err
	}
	if d, ok := t.(json.Delim); !ok || d != '{' {
		return nil, fmt.Errorf("not an object")
	}
	return c18ParseMembers(dec)
}

func c18ParseMembers(dec *json.Decoder) ([]jmember, error) {
	ms := []jmember{}
	for {
		t, err := dec.Token()
		if err != nil {
			return nil, err
		}
		if d, ok := t.(json.Delim); ok && d == '}' {
			return ms, nil
		}
		k, ok := t.(string)
		if !ok {
			return nil, fmt.Errorf("bad key token %v", t)
		}
		m := jmember{k: k}
		t, err = dec.Token()
		if err != nil {
			return nil, err
		}
		if d, ok := t.(json.Delim); ok {
			switch d {
			case '{':
				m.isO = true
				if m.obj, err = c18ParseMembers(dec); err != nil {
					return nil, err
				}
			case '[':
				if err = c18SkipArray(dec); err != nil {
					return nil, err
				}
			}
		}
		ms = append(ms, m)
	}
}

func c18SkipArray(dec *json.Decoder) error {
	depth := 1
	for depth > 0 {
		t, err := dec.Token()
		if err != nil {
			return err
		}
		if d, ok := t.(json.Delim); ok {
			if d == '[' || d == '{' {
				depth++
			} else {
				depth--
			}
		}
	}
	return nil
}

// c18JSONMatches: does the JSON object have exactly the tree's keys, order and group nesting?
// (a leaf may be rendered as any JSON value, a reflected struct for instance is an object)
func c18JSONMatches(t []*tnode, ms []jmember) bool {
	if len(t) != len(ms) {
		return false
	}
	for i := range t {
		if t[i].K != ms[i].k {
			return false
		}
		if t[i].Grp && (!ms[i].isO || !c18JSONMatches(t[i].C, ms[i].obj)) {
			return false
		}
	}
	return true
}

// c18Stdlib runs the same derivation and record through log/slog's own JSONHandler (driven through slog.Logger, the
// way log/slog documents its use) and renders the attribute part of its output. It is a second opinion that is
// quoted in failure details only: the verdict never depends on it (its handlers do not filter WithGroup("") or
// all-empty records themselves).
func c18Stdlib(path []c18Step, st c18Step) string {
	var buf bytes.Buffer
	l := slog.New(slog.NewJSONHandler(&buf, &slog.HandlerOptions{Level: slog.Level(-1000)}))
	for _, p := range path {
		if p.T == "g" {
			l = l.WithGroup(p.Name)
		} else {
			args := []any{}
			for _, a := range c18BuildAll(p.Attrs) {
				args = append(args, a)
			}
			l = l.With(args...)
		}
	}
	l.LogAttrs(context.Background(), slog.Level(st.Lvl), "m", c18BuildAll(st.Attrs)...)
	i := bytes.Index(buf.Bytes(), []byte(`"msg":"m"`))
	if i < 0 {
		return "?"
	}
	return "{" + string(bytes.TrimPrefix(bytes.TrimSpace(buf.Bytes()[i+len(`"msg":"m"`):]), []byte(",")))
}

// c18Linear replays one derivation path on a fresh, unshared handler chain.
func c18Linear(op c18Op, path []c18Step, st c18Step) []*tnode {
	var buf bytes.Buffer
	core := zapcore.NewCore(newRecEnc(), zapcore.AddSync(&buf), zap.LevelEnablerFunc(func(zapcore.Level) bool { return true }))
	var h slog.Handler = zapslog.NewHandler(core, zapslog.AddStacktraceAt(slog.Level(1000)))
	for _, p := range path {
		if p.T == "g" {
			h = h.WithGroup(p.Name)
		} else {
			h = h.WithAttrs(c18BuildAll(p.Attrs))
		}
	}
	r := slog.NewRecord(time.Time{}, slog.Level(st.Lvl), "m", 0)
	r.AddAttrs(c18BuildAll(st.Attrs)...)
	_ = h.Handle(context.Background(), r)
	var line recLine
	if json.Unmarshal(buf.Bytes(), &line) != nil {
		return nil
	}
	return line.Fields
}

func c18Render(t []*tnode) string {
	b, _ := json.Marshal(t)
	return string(b)
}

// c18Judge is the property oracle for one written entry.
func c18Judge(op c18Op, path []c18Step, st c18Step, exp, got []*tnode, zapJSON []byte) Oracle {
	if got == nil {
		got = []*tnode{}
	}
	// the entry as the real JSON encoder wrote it must have the recorded keys and nesting
	zj, err := c18ParseObject(bytes.TrimRight(zapJSON, "\n"))
	if err != nil && err != io.EOF {
		return bad("C18:json-invalid", "JSON core output does not parse: %v: %q", err, zapJSON)
	}
	if c18SameTyped(exp, got) {
		if !c18JSONMatches(got, zj) {
			return bad("C18:json-differs-from-fields", "JSON entry %s does not nest like the emitted fields %s", zapJSON, c18Render(got))
		}
		return ok()
	}
	if c18SameShape(exp, got) {
		return bad("C18:value-or-type-changed", "keys and nesting agree but a value or its type differs: want %s got %s", c18Render(exp), c18Render(got))
	}
	detail := fmt.Sprintf("contract: %s  emitted: %s  (for comparison, log/slog's JSONHandler: %s)", c18Render(exp), c18Render(got), c18Stdlib(path, st))
	if lin := c18Linear(op, path, st); lin != nil && c18SameTyped(exp, lin) {
		return bad("C18:derive-not-isolated", "the same derivation on an unshared handler chain is correct; after deriving siblings: %s", detail)
	}
	if c18HasEmptyGroup(got) {
		return bad("C18:empty-group-emitted", "a group without attributes is emitted: %s", detail)
	}
	hasG0 := false
	for _, p := range path {
		if p.T == "g" && p.Name == "" {
			hasG0 = true
		}
	}
	if hasG0 && c18HasNamelessGroup(got) && !c18HasNamelessGroup(exp) {
		return bad("C18:empty-group-name-opens-group", "WithGroup(\"\") opened a group: %s", detail)
	}
	return bad("C18:tree-mismatch", "%s", detail)
}
