package main

import (
	"bytes"
	"encoding/json"
	"errors"
	"fmt"
	"io"
	"log"
	"net/url"
	"os"
	"path/filepath"
	"regexp"
	"runtime"
	"sort"
	"strconv"
	"strings"
	"time"

	"go.uber.org/zap"
	"go.uber.org/zap/zapcore"
	"go.uber.org/zap/zaptest/observer"
)

// C19 — Open, Config.Build and std-log redirection are all-or-nothing; URLs validated.
//
// ops (path kinds: "ok" counting sink, "fail" counting factory that errors, "nosink" unregistered scheme,
//      "badurl" unparsable, "file" real file in the sandbox, "filefail" file in a missing directory, "stdout")
//   {"k":"open","paths":[kind…]}
//     → {"err","opened":[i…],"closed":[i…],"fds":n,"delivered":[i…],"closed_after":[i…],"fds_after":n}
//   {"k":"build","enc":"json|console|empty|unknown|notime|ctorerr","level":bool,"outs":[kind…],"errs":[kind…]}
//     → {"err","opened_out","opened_err","closed_out","closed_err","fds","delivered_out","delivered_err"}
//   {"k":"redirect","how":"std|at|new","level":l,"flags":f,"prefix":p}
//     → {"err","flags_after","prefix_after","out_after":"same|zap|other","delivered":bool|null,
//        "flags_restored","prefix_restored"}
//   {"k":"url","raw":s,"abs":bool,"parsed":{scheme,user,fragment,rawquery,port,hostname,path}|null,"fs":bool}
//     ("/T" stands for the sandbox root) → {"err","opened":[location…]}
//   {"k":"reg","what":"sink|enc","names":[hex…],"probes":[hex…]}   ("~" / "^" in a name = a lower / upper case
//     token that is fresh in this process, because both registries are process-global)
//     → {"errs":[bool…],"hits":[index of the registration that answers the probe, or −1…]}

type c19Parsed struct {
	Scheme   string `json:"scheme"`
	User     bool   `json:"user"`
	Fragment string `json:"fragment"`
	RawQuery string `json:"rawquery"`
	Port     string `json:"port"`
	Hostname string `json:"hostname"`
	Path     string `json:"path"`
}

type c19Op struct {
	K      string     `json:"k"`
	Paths  []string   `json:"paths,omitempty"`
	Enc    string     `json:"enc,omitempty"`
	Level  bool       `json:"level"`
	Outs   []string   `json:"outs,omitempty"`
	Errs   []string   `json:"errs,omitempty"`
	How    string     `json:"how,omitempty"`
	Lvl    int        `json:"lvl"`
	Flags  int        `json:"flags"`
	Prefix string     `json:"prefix"`
	Raw    string     `json:"raw"`
	Abs    bool       `json:"abs"`
	Parsed *c19Parsed `json:"parsed"`
	FS     bool       `json:"fs"`
	What   string     `json:"what,omitempty"`
	Names  []string   `json:"names,omitempty"`
	Probes []string   `json:"probes,omitempty"`
}

func init() {
	props["C19"] = &Prop{Gen: c19Gen, Exec: c19ExecConfirmed}
}

// ---------------------------------------------------------------- sandbox and process-global state

var (
	c19Root    string // sandbox root ("/T" in ops); removed when the process ends its last op (and recreated lazily)
	c19Counter int
)

func c19Token() string {
	c19Counter++
	return "zv" + strconv.FormatInt(int64(os.Getpid()), 36) + "x" + strconv.Itoa(c19Counter) + "q"
}

// c19Sandbox (re)creates an empty sandbox: <root>/{d/, cwd/, cwd/d/} and makes cwd the working directory.
func c19Sandbox() {
	if c19Root == "" {
		d, err := os.MkdirTemp("", "zvc19-")
		must(err)
		c19Root = d
	}
	must(os.Chdir("/"))
	must(os.RemoveAll(c19Root))
	for _, d := range []string{"d", "cwd", "cwd/d"} {
		must(os.MkdirAll(filepath.Join(c19Root, d), 0o755))
	}
	must(os.Chdir(filepath.Join(c19Root, "cwd")))
}

func c19Cleanup() {
	_ = os.Chdir("/")
	if c19Root != "" {
		_ = os.RemoveAll(c19Root)
	}
}

// c19Delta: descriptors opened since `base`. A negative difference (the finalizer of a file leaked by an earlier
// op ran in between) is not this op's doing.
func c19Delta(base int) int {
	if d := c19FDs() - base; d > 0 {
		return d
	}
	return 0
}

func c19FDs() int {
	es, err := os.ReadDir("/proc/self/fd")
	if err != nil {
		return -1
	}
	return len(es)
}

// counting sink: records what happened to it
type c19Sink struct {
	pos        int
	writes     [][]byte
	closed     int
	failWrites bool
}

func (s *c19Sink) Write(p []byte) (int, error) {
	if s.failWrites {
		return 0, errors.New("sink write failed")
	}
	s.writes = append(s.writes, append([]byte(nil), p...))
	return len(p), nil
}
func (s *c19Sink) Sync() error  { return nil }
func (s *c19Sink) Close() error { s.closed++; return nil }

type c19Factory struct {
	scheme string
	sinks  map[string]*c19Sink // by "<list><pos>"
	calls  int
}

func c19NewFactory() *c19Factory {
	f := &c19Factory{scheme: c19Token(), sinks: map[string]*c19Sink{}}
	must(zap.RegisterSink(f.scheme, func(u *url.URL) (zap.Sink, error) {
		f.calls++
		if u.Path == "/fail" {
			return nil, errors.New("factory refused")
		}
		s := &c19Sink{}
		f.sinks[u.Host] = s
		return s, nil
	}))
	return f
}

var c19FailKinds = map[string]bool{"fail": true, "nosink": true, "badurl": true, "filefail": true}

// c19Path renders one path of kind `kind` at position `pos` of list `list` ("o", "e" or "p")
func (f *c19Factory) path(list string, pos int, kind string) string {
	id := list + strconv.Itoa(pos)
	switch kind {
	case "ok":
		return f.scheme + "://" + id + "/ok"
	case "fail":
		return strings.ToUpper(f.scheme) + "://" + id + "/fail"
	case "nosink":
		return "none" + f.scheme + "://" + id
	case "badurl":
		return "bad%zz" + id
	case "file":
		if pos%2 == 0 {
			return filepath.Join(c19Root, id+".log")
		}
		return "file://localhost" + filepath.Join(c19Root, id+".log")
	case "filefail":
		return filepath.Join(c19Root, "missing", id+".log")
	case "stdout":
		return "stdout"
	}
	panic("unknown path kind " + kind)
}

// with os.Stdout/os.Stderr pointing into the sandbox while fn runs (zap's "stdout" sink reads the variables)
func c19WithStd(fn func()) {
	so, se := os.Stdout, os.Stderr
	fo, err := os.OpenFile(filepath.Join(c19Root, "STDOUT"), os.O_WRONLY|os.O_APPEND|os.O_CREATE, 0o644)
	must(err)
	fe, err := os.OpenFile(filepath.Join(c19Root, "STDERR"), os.O_WRONLY|os.O_APPEND|os.O_CREATE, 0o644)
	must(err)
	os.Stdout, os.Stderr = fo, fe
	defer func() {
		os.Stdout, os.Stderr = so, se
		fo.Close()
		fe.Close()
	}()
	fn()
}

func c19FileHas(name string, payload []byte) bool {
	b, err := os.ReadFile(filepath.Join(c19Root, name))
	return err == nil && bytes.Contains(b, payload)
}

// delivered: did destination (list,pos,kind) receive exactly one copy of payload?
func (f *c19Factory) delivered(list string, pos int, kind string, payload []byte) bool {
	id := list + strconv.Itoa(pos)
	switch kind {
	case "ok":
		s := f.sinks[id]
		n := 0
		if s != nil {
			for _, w := range s.writes {
				if bytes.Equal(w, payload) {
					n++
				}
			}
		}
		return n == 1
	case "file":
		b, err := os.ReadFile(filepath.Join(c19Root, id+".log"))
		return err == nil && bytes.Count(b, payload) == 1
	case "stdout":
		b, err := os.ReadFile(filepath.Join(c19Root, "STDOUT"))
		return err == nil && bytes.Count(b, payload) >= 1
	}
	return false
}

func c19Strs(xs []string) []string {
	if xs == nil {
		return []string{}
	}
	return xs
}

// ---------------------------------------------------------------- executor

// c19ExecConfirmed: the number of open file descriptors of the process is also touched by the Go runtime and its libraries
// (pollers, zone data, finalizers); a descriptor leak of zap is deterministic. A leak verdict is therefore kept only when the
// same op leaks again on a second and a third execution (the reported result is the last one).
func c19ExecConfirmed(raw json.RawMessage) Result {
	leaky := func(r Result) bool {
		if !r.Oracle.OK && strings.HasSuffix(r.Oracle.Sig, ":file") {
			return true
		}
		if m, ok := r.Impl.(map[string]any); ok {
			failed, _ := m["err"].(bool)
			if n, ok := m["fds"].(int); ok && n > 0 && failed { // descriptors open although the call failed
				return true
			}
			if n, ok := m["fds_after"].(int); ok && n > 0 { // descriptors open after the close function ran
				return true
			}
		}
		return false
	}
	res := c19Exec(raw)
	for i := 0; i < 2 && leaky(res); i++ {
		runtime.GC()
		time.Sleep(2 * time.Millisecond)
		res = c19Exec(raw)
	}
	return res
}

func c19Exec(raw json.RawMessage) Result {
	var op c19Op
	unmarshal(raw, &op)
	c19Sandbox()
	defer c19Cleanup()
	switch op.K {
	case "open":
		return c19Open(op)
	case "build":
		return c19Build(op)
	case "redirect":
		return c19Redirect(op)
	case "url":
		return c19URL(op)
	case "reg":
		return c19Reg(op)
	}
	panic("unknown op kind " + op.K)
}

func c19AnyFail(kinds []string) bool {
	for _, k := range kinds {
		if c19FailKinds[k] {
			return true
		}
	}
	return false
}

func c19Open(op c19Op) Result {
	f := c19NewFactory()
	paths := make([]string, len(op.Paths))
	for i, k := range op.Paths {
		paths[i] = f.path("p", i, k)
	}
	var impl map[string]any
	o := ok()
	c19WithStd(func() {
		base := c19FDs()
		ws, closeAll, err := zap.Open(paths...)
		fds := c19Delta(base)
		opened, closed, multi := []int{}, []int{}, false
		for i, k := range op.Paths {
			if s := f.sinks["p"+strconv.Itoa(i)]; s != nil && (k == "ok") {
				opened = append(opened, i)
				if s.closed >= 1 {
					closed = append(closed, i)
				}
				if s.closed > 1 {
					multi = true
				}
			}
		}
		delivered, closedAfter, fdsAfter := []int{}, []int{}, 0
		wantFail := c19AnyFail(op.Paths)
		switch {
		case (err != nil) != wantFail && wantFail:
			o = bad("C19:open-error-swallowed", "a path failed to open but Open returned no error (paths %v)", op.Paths)
		case (err != nil) != wantFail:
			o = bad("C19:open-unexpected-error", "every path opens but Open returned %v", err)
		case err != nil && (ws != nil || closeAll != nil):
			o = bad("C19:open-error-with-writer", "Open returned an error together with a writer or close function")
		case err != nil && len(closed) != len(opened):
			o = bad("C19:open-leak", "Open failed; sinks opened %v, closed %v", opened, closed)
		case err != nil && multi:
			o = bad("C19:open-double-close", "Open failed and closed a sink more than once")
		case err != nil && fds != 0:
			o = bad("C19:open-leak:file", "Open failed and left %d file descriptors open", fds)
		case err == nil && len(closed) != 0:
			o = bad("C19:open-closed-on-success", "Open succeeded but closed %v", closed)
		}
		if err == nil {
			payload := []byte("payload-" + f.scheme + "\n")
			_, werr := ws.Write(payload)
			for i, k := range op.Paths {
				if f.delivered("p", i, k, payload) {
					delivered = append(delivered, i)
				}
			}
			closeAll()
			for i := range op.Paths {
				if s := f.sinks["p"+strconv.Itoa(i)]; s != nil && s.closed == 1 {
					closedAfter = append(closedAfter, i)
				}
			}
			fdsAfter = c19Delta(base)
			if o.OK {
				switch {
				case werr != nil || len(delivered) != len(op.Paths):
					o = bad("C19:open-destination-missed", "write through the returned writer: err=%v, reached %v of %d destinations", werr, delivered, len(op.Paths))
				case len(closedAfter) != len(opened):
					o = bad("C19:open-close-incomplete", "the returned close function closed %v of %v exactly once", closedAfter, opened)
				case fdsAfter != 0:
					o = bad("C19:open-close-incomplete:file", "%d file descriptors still open after the close function", fdsAfter)
				}
			}
		}
		impl = map[string]any{"err": err != nil, "opened": opened, "closed": closed, "fds": fds,
			"delivered": delivered, "closed_after": closedAfter, "fds_after": fdsAfter}
	})
	nf := 0
	for _, k := range op.Paths {
		if c19FailKinds[k] {
			nf++
		}
	}
	return Result{Impl: impl, Oracle: o, Nontrivial: len(op.Paths) >= 2 && nf >= 1 && nf < len(op.Paths),
		Shape: fmt.Sprintf("open/k%d/f%d", bucket(len(op.Paths)), bucket(nf))}
}

func c19Build(op c19Op) Result {
	f := c19NewFactory()
	cfg := zap.Config{
		Encoding:      op.Enc,
		EncoderConfig: zapcore.EncoderConfig{MessageKey: "m", LevelKey: "l", EncodeLevel: zapcore.LowercaseLevelEncoder},
	}
	if op.Level {
		cfg.Level = zap.NewAtomicLevel()
	}
	switch op.Enc {
	case "empty":
		cfg.Encoding = ""
	case "unknown":
		cfg.Encoding = "nope" + f.scheme
	case "notime":
		cfg.Encoding = "json"
		cfg.EncoderConfig.TimeKey = "t"
	case "ctorerr":
		cfg.Encoding = "failing" + f.scheme
		must(zap.RegisterEncoder(cfg.Encoding, func(zapcore.EncoderConfig) (zapcore.Encoder, error) {
			return nil, errors.New("constructor refused")
		}))
	}
	for i, k := range op.Outs {
		cfg.OutputPaths = append(cfg.OutputPaths, f.path("o", i, k))
	}
	for i, k := range op.Errs {
		cfg.ErrorOutputPaths = append(cfg.ErrorOutputPaths, f.path("e", i, k))
	}
	var impl map[string]any
	o := ok()
	wantFail := (op.Enc != "json" && op.Enc != "console") || !op.Level || c19AnyFail(op.Outs) || c19AnyFail(op.Errs)
	c19WithStd(func() {
		base := c19FDs()
		logger, err := cfg.Build()
		fds := c19Delta(base)
		collect := func(list string, kinds []string) (opened, closed []int, multi bool) {
			opened, closed = []int{}, []int{}
			for i, k := range kinds {
				if s := f.sinks[list+strconv.Itoa(i)]; s != nil && k == "ok" {
					opened = append(opened, i)
					if s.closed >= 1 {
						closed = append(closed, i)
					}
					if s.closed > 1 {
						multi = true
					}
				}
			}
			return
		}
		oo, co, m1 := collect("o", op.Outs)
		oe, ce, m2 := collect("e", op.Errs)
		switch {
		case err == nil && wantFail:
			o = bad("C19:build-error-swallowed", "the configuration is bad (enc=%s level=%v outs=%v errs=%v) but Build returned a logger", op.Enc, op.Level, op.Outs, op.Errs)
		case err != nil && !wantFail:
			o = bad("C19:build-unexpected-error", "the configuration is good but Build returned %v", err)
		case err != nil && logger != nil:
			o = bad("C19:build-error-with-logger", "Build returned an error together with a logger")
		case err != nil && (len(co) != len(oo) || len(ce) != len(oe)):
			o = bad("C19:build-leak", "Build failed with %q; output sinks opened %v closed %v; error sinks opened %v closed %v", err, oo, co, oe, ce)
		case err != nil && (m1 || m2):
			o = bad("C19:build-double-close", "Build failed and closed a sink more than once")
		case err != nil && fds != 0:
			o = bad("C19:build-leak:file", "Build failed with %q and left %d file descriptors open", err, fds)
		case err == nil && (len(co) != 0 || len(ce) != 0):
			o = bad("C19:build-closed-on-success", "Build succeeded but closed sinks %v %v", co, ce)
		}
		dOut, dErr := []int{}, []int{}
		if err == nil {
			logger.Info("hello-" + f.scheme)
			want := []byte(`{"l":"info","m":"hello-` + f.scheme + `"}` + "\n")
			if op.Enc == "console" {
				want = []byte("info\thello-" + f.scheme + "\n")
			}
			for i, k := range op.Outs {
				if f.delivered("o", i, k, want) {
					dOut = append(dOut, i)
				}
			}
			// make the outputs fail: the logger must report the write error to every error output
			nOK := 0
			for i, k := range op.Outs {
				if s := f.sinks["o"+strconv.Itoa(i)]; s != nil && k == "ok" {
					s.failWrites = true
					nOK++
				}
			}
			if nOK > 0 {
				logger.Info("again")
				for i, k := range op.Errs {
					switch k {
					case "ok":
						if s := f.sinks["e"+strconv.Itoa(i)]; s != nil && len(s.writes) == 1 && bytes.Contains(s.writes[0], []byte("write error")) {
							dErr = append(dErr, i)
						}
					case "file":
						if c19FileHas("e"+strconv.Itoa(i)+".log", []byte("write error")) {
							dErr = append(dErr, i)
						}
					case "stdout":
						if c19FileHas("STDOUT", []byte("write error")) {
							dErr = append(dErr, i)
						}
					}
				}
			}
			if o.OK {
				switch {
				case len(dOut) != len(op.Outs):
					o = bad("C19:build-destination-missed", "an entry reached %v of %d outputs", dOut, len(op.Outs))
				case nOK > 0 && len(dErr) != len(op.Errs):
					o = bad("C19:build-error-destination-missed", "an internal error reached %v of %d error outputs", dErr, len(op.Errs))
				}
			}
		}
		impl = map[string]any{"err": err != nil, "opened_out": oo, "opened_err": oe, "closed_out": co, "closed_err": ce,
			"fds": fds, "delivered_out": dOut, "delivered_err": dErr}
	})
	stage := "done"
	switch {
	case op.Enc != "json" && op.Enc != "console":
		stage = "encoder"
	case !op.Level:
		stage = "level"
	case c19AnyFail(op.Outs):
		stage = "out"
	case c19AnyFail(op.Errs):
		stage = "errout"
	}
	return Result{Impl: impl, Oracle: o, Nontrivial: len(op.Outs)+len(op.Errs) >= 1,
		Shape: fmt.Sprintf("build/%s/o%d/e%d", stage, bucket(len(op.Outs)), bucket(len(op.Errs)))}
}

type c19Sentinel struct{ bytes.Buffer }

func c19Redirect(op c19Op) Result {
	f0, p0, w0 := log.Flags(), log.Prefix(), log.Writer()
	defer func() {
		log.SetFlags(f0)
		log.SetPrefix(p0)
		log.SetOutput(w0)
	}()
	sentinel := &c19Sentinel{}
	log.SetFlags(op.Flags)
	log.SetPrefix(op.Prefix)
	log.SetOutput(sentinel)
	core, logs := observer.New(zapcore.DebugLevel)
	logger := zap.New(core)
	var restore func()
	var err error
	var std *log.Logger
	switch op.How {
	case "std":
		restore = zap.RedirectStdLog(logger)
	case "at":
		restore, err = zap.RedirectStdLogAt(logger, zapcore.Level(op.Lvl))
	case "new":
		std, err = zap.NewStdLogAt(logger, zapcore.Level(op.Lvl))
	default:
		panic("unknown redirect form " + op.How)
	}
	level := op.Lvl
	if op.How == "std" {
		level = 0
	}
	valid := level >= -1 && level <= 5
	fa, pa := log.Flags(), log.Prefix()
	outAfter := "other"
	if log.Writer() == io.Writer(sentinel) {
		outAfter = "same"
	}
	var delivered any
	if err == nil && level <= 3 {
		switch op.How {
		case "new":
			std.Print("redirected")
		default:
			log.Print("redirected")
		}
		es := logs.TakeAll()
		d := len(es) == 1 && es[0].Message == "redirected" && int(es[0].Level) == level && sentinel.Len() == 0
		delivered = d
		if d && op.How != "new" {
			outAfter = "zap"
		}
	} else if err == nil && op.How != "new" && outAfter == "other" {
		outAfter = "zap" // Panic/Fatal levels: printing would terminate; the writer changed
	}
	fr, pr := fa, pa
	if restore != nil {
		restore()
		fr, pr = log.Flags(), log.Prefix()
	}
	o := ok()
	switch {
	case (err != nil) != !valid && valid:
		o = bad("C19:redirect-unexpected-error", "level %d is a zap level but redirection failed: %v", level, err)
	case (err != nil) != !valid:
		o = bad("C19:redirect-error-swallowed", "level %d is not a zap level but redirection succeeded", level)
	case err != nil && (fa != op.Flags || pa != op.Prefix || outAfter != "same"):
		o = bad("C19:redirect-error-changed-stdlog", "redirection failed (%v) but the standard logger changed: flags %d→%d prefix %q→%q writer %s", err, op.Flags, fa, op.Prefix, pa, outAfter)
	case op.How == "new" && (fa != op.Flags || pa != op.Prefix || outAfter != "same"):
		o = bad("C19:newstdlog-touched-global", "NewStdLogAt changed the package-level logger")
	case err == nil && delivered == false:
		o = bad("C19:redirect-not-delivered", "a std-log message did not arrive in the zap logger at level %d", level)
	case err == nil && op.How != "new" && (fr != op.Flags || pr != op.Prefix):
		o = bad("C19:redirect-restore", "restore did not bring back flags/prefix: %d/%q, want %d/%q", fr, pr, op.Flags, op.Prefix)
	}
	impl := map[string]any{"err": err != nil, "flags_after": fa, "prefix_after": pa, "out_after": outAfter,
		"delivered": delivered, "flags_restored": fr, "prefix_restored": pr}
	return Result{Impl: impl, Oracle: o, Nontrivial: op.Flags != 0 || op.Prefix != "",
		Shape: fmt.Sprintf("redirect/%s/valid=%v", op.How, valid)}
}

// c19Real maps the "/T" root of an op string to the sandbox
func c19Real(s string) string { return strings.ReplaceAll(s, "/T/", c19Root+"/") }

func c19URL(op c19Op) Result {
	raw := c19Real(op.Raw)
	var impl map[string]any
	o := ok()
	c19WithStd(func() {
		token := []byte("token-" + c19Token() + "\n")
		ws, closeAll, err := zap.Open(raw)
		if err == nil {
			_, _ = ws.Write(token)
			closeAll()
		}
		// where did the token go?
		opened := []string{}
		_ = filepath.Walk(c19Root, func(p string, info os.FileInfo, werr error) error {
			if werr != nil || info.IsDir() {
				return nil
			}
			b, rerr := os.ReadFile(p)
			rel, _ := filepath.Rel(c19Root, p)
			if rerr == nil && bytes.Contains(b, token) {
				switch rel {
				case "STDOUT":
					rel = "<stdout>"
				case "STDERR":
					rel = "<stderr>"
				}
				opened = append(opened, rel)
			} else if rerr == nil && rel != "STDOUT" && rel != "STDERR" {
				opened = append(opened, "created:"+rel) // a file appeared although nothing was written to it
			}
			return nil
		})
		sort.Strings(opened)
		impl = map[string]any{"err": err != nil, "opened": opened}
		// ---- oracle: re-read the URL with net/url and apply the rule of the property
		u, perr := url.Parse(raw)
		switch {
		case err != nil && len(opened) != 0:
			o = bad("C19:url-error-but-opened", "Open(%q) failed (%v) yet touched %v", op.Raw, err, opened)
		case err == nil && len(opened) != 1:
			o = bad("C19:url-ok-but-not-one-destination", "Open(%q) succeeded; the write arrived in %v", op.Raw, opened)
		case err == nil:
			var want string
			if filepath.IsAbs(raw) {
				want = raw
			} else {
				why := ""
				switch {
				case perr != nil:
					why = "unparsable"
				case u.Scheme != "" && u.Scheme != "file":
					why = "scheme " + u.Scheme
				case u.User != nil:
					why = "user-info"
				case u.Port() != "":
					why = "port"
				case u.RawQuery != "":
					why = "query"
				case u.Fragment != "":
					why = "fragment"
				case u.Hostname() != "" && !strings.EqualFold(u.Hostname(), "localhost"):
					why = "host"
				}
				if why != "" {
					o = bad("C19:file-url-opened-despite:"+strings.Fields(why)[0], "Open(%q) wrote to %v although the URL has %s", op.Raw, opened, why)
					return
				}
				want = u.Path
			}
			loc := ""
			switch want {
			case "stdout":
				loc = "<stdout>"
			case "stderr":
				loc = "<stderr>"
			default:
				if !filepath.IsAbs(want) {
					want = filepath.Join(c19Root, "cwd", want)
				}
				loc, _ = filepath.Rel(c19Root, filepath.Clean(want))
			}
			if opened[0] != loc {
				o = bad("C19:file-url-wrong-path", "Open(%q) wrote to %q, the URL's path is %q (%s)", op.Raw, opened[0], u.Path, loc)
			}
		}
	})
	shape := "url/abs"
	if !op.Abs {
		switch {
		case op.Parsed == nil:
			shape = "url/unparsable"
		default:
			fl := ""
			for _, x := range []struct {
				n string
				b bool
			}{{"u", op.Parsed.User}, {"f", op.Parsed.Fragment != ""}, {"q", op.Parsed.RawQuery != ""}, {"p", op.Parsed.Port != ""}, {"h", op.Parsed.Hostname != ""}} {
				if x.b {
					fl += x.n
				}
			}
			shape = fmt.Sprintf("url/%s/%s", strings.ToLower(op.Parsed.Scheme), fl)
		}
	}
	return Result{Impl: impl, Oracle: o, Nontrivial: !op.Abs && op.Parsed != nil, Shape: shape + fmt.Sprintf("/fs=%v", op.FS)}
}

var c19SchemeRE = regexp.MustCompile(`^[A-Za-z][A-Za-z0-9+.\-]*$`)

func c19Subst(hexName, tok string) string {
	s := string(unhx(hexName))
	s = strings.ReplaceAll(s, "~", tok)
	return strings.ReplaceAll(s, "^", strings.ToUpper(tok))
}

func c19Reg(op c19Op) Result {
	tok := c19Token()
	hit := -1
	errs := []bool{}
	names := make([]string, len(op.Names))
	for i, hn := range op.Names {
		names[i] = c19Subst(hn, tok)
		i := i
		var err error
		if op.What == "sink" {
			err = zap.RegisterSink(names[i], func(*url.URL) (zap.Sink, error) { hit = i; return nil, errors.New("probe") })
		} else {
			err = zap.RegisterEncoder(names[i], func(zapcore.EncoderConfig) (zapcore.Encoder, error) { hit = i; return nil, errors.New("probe") })
		}
		errs = append(errs, err != nil)
	}
	hits := []int{}
	probes := make([]string, len(op.Probes))
	for i, hp := range op.Probes {
		probes[i] = c19Subst(hp, tok)
		hit = -1
		if op.What == "sink" {
			_, _, _ = zap.Open(probes[i] + "://h")
		} else {
			_, _ = zap.Config{Encoding: probes[i], Level: zap.NewAtomicLevel()}.Build()
		}
		hits = append(hits, hit)
	}
	// ---- oracle: a plain map-based registry with the naming rule of the property
	o := ok()
	ref := map[string]int{}
	key := func(s string) string {
		if op.What == "sink" {
			return strings.ToLower(s)
		}
		return s
	}
	if op.What == "sink" {
		ref["file"] = -1
	} else {
		ref["json"], ref["console"] = -1, -1
	}
	nrej := 0
	for i, n := range names {
		valid := n != "" && (op.What != "sink" || c19SchemeRE.MatchString(n))
		_, dup := ref[key(n)]
		wantErr := !valid || dup
		switch {
		case !o.OK: // keep the first failure: later ones may be its consequences
		case !errs[i] && !valid:
			o = bad("C19:malformed-name-registered", "Register%s(%q) succeeded although the name is empty or not a valid scheme", op.What, n)
		case !errs[i] && dup:
			o = bad("C19:duplicate-name-registered", "Register%s(%q) succeeded although %q is already registered", op.What, n, key(n))
		case errs[i] && !wantErr:
			o = bad("C19:valid-name-rejected", "Register%s(%q) failed although the name is valid and new", op.What, n)
		}
		if wantErr {
			nrej++
		} else {
			ref[key(n)] = i
		}
	}
	if o.OK {
		for i, p := range probes {
			want, okk := ref[key(p)]
			if !okk {
				want = -1
			}
			if hits[i] != want {
				o = bad("C19:registry-lookup", "after registering %q: %q resolves to registration %d, want %d (case-insensitive for sinks; rejected calls must not change the registry)", names, p, hits[i], want)
				break
			}
		}
	}
	return Result{Impl: map[string]any{"errs": errs, "hits": hits}, Oracle: o, Nontrivial: len(names) >= 2 && nrej >= 1 && nrej < len(names),
		Shape: fmt.Sprintf("reg/%s/n%d/rej%d", op.What, bucket(len(names)), bucket(nrej))}
}

// ---------------------------------------------------------------- generator

func c19ParseForOp(raw string) (bool, *c19Parsed) {
	if filepath.IsAbs(raw) {
		return true, nil
	}
	u, err := url.Parse(raw)
	if err != nil {
		return false, nil
	}
	return false, &c19Parsed{Scheme: u.Scheme, User: u.User != nil, Fragment: u.Fragment, RawQuery: u.RawQuery,
		Port: u.Port(), Hostname: u.Hostname(), Path: u.Path}
}

var c19CleanSeg = regexp.MustCompile(`^[^/\x00]+$`)

// c19Openable: would the OS open (creating) the file at path p, given the sandbox layout (dirs: /T/d, /T/cwd, /T/cwd/d)?
// Only clean paths qualify; everything else is generated as "the OS refuses" only when that is certain.
func c19Openable(p string) (openable, certain bool) {
	if p == "stdout" || p == "stderr" {
		return true, true
	}
	if p == "" || strings.Contains(p, "\x00") || strings.HasSuffix(p, "/") {
		return false, true
	}
	rel := p
	if strings.HasPrefix(p, "/T/") {
		rel = p[3:]
	} else if strings.HasPrefix(p, "/") {
		return false, false // outside the sandbox: never generated
	} else {
		rel = "cwd/" + p
	}
	segs := strings.Split(rel, "/")
	for _, s := range segs {
		if !c19CleanSeg.MatchString(s) || s == "." || s == ".." {
			return false, false
		}
	}
	dir := strings.Join(segs[:len(segs)-1], "/")
	full := strings.Join(segs, "/")
	dirs := map[string]bool{"": true, "d": true, "cwd": true, "cwd/d": true}
	if dirs[full] {
		return false, true // it is a directory
	}
	return dirs[dir], true
}

func c19GenURL(r *Rand) (string, bool) {
	if r.Chance(1, 10) { // absolute path, opened literally
		return "/T/" + Pick(r, []string{"a.log", "d/a.log", "x?y#z", "a%41b", "missing/a.log", "d", "sp ace"}), true
	}
	// a valid file URL …
	scheme := Pick(r, []string{"", "file", "file", "FILE", "File", "fIlE"})
	user, port, query, frag := "", "", "", ""
	host := Pick(r, []string{"", "", "localhost"})
	path := Pick(r, []string{"/T/a.log", "/T/a.log", "/T/d/b.log", "/T/a%20b.log", "/T/%41.log", "/T/d%2Fc.log", "/T/ü.log", "/T/a;b.log",
		"/T/a+b.log", "/T/a:b.log", "/T/stdout", "rel.log", "d/rel.log", "stdout", "stderr"})
	// … with 0–2 hostile components (half of the URLs stay valid)
	for i, n := 0, Pick(r, []int{0, 0, 0, 1, 1, 2}); i < n; i++ {
		switch r.Intn(7) {
		case 0:
			scheme = Pick(r, []string{"http", "zvunregistered", "1x", "fi le", "files"})
		case 1:
			user = Pick(r, []string{"u@", "u:p@", "@", ":@"})
		case 2:
			host = Pick(r, []string{"LOCALHOST", "localhost.", "example.com", "127.0.0.1", "[::1]", "local%68ost", "localhos", "localhostx"})
		case 3:
			port = Pick(r, []string{":", ":80", ":0"})
		case 4:
			query = Pick(r, []string{"?", "?a=b", "?%zz"})
		case 5:
			frag = Pick(r, []string{"#", "#frag", "#%41"})
		case 6:
			path = Pick(r, []string{"/T/missing/a.log", "/T/d", "/T/", "", "/stdout", "/T/a%zz", "/T/a%00b", "missing/x.log"})
		}
	}
	var sb strings.Builder
	if scheme != "" {
		sb.WriteString(scheme)
		sb.WriteString(":")
	}
	authority := user + host + port
	relative := !strings.HasPrefix(path, "/")
	switch {
	case authority != "":
		sb.WriteString("//")
		sb.WriteString(authority)
		if relative && path != "" {
			sb.WriteString("/T/cwd/") // a URL with an authority has no relative path
		}
	case scheme != "" && !relative && r.Chance(3, 4):
		sb.WriteString("//")
	case scheme != "" && relative && r.Chance(1, 2):
		// "file:rel.log" is an opaque URL; "file:///T/cwd/rel.log" is the way to name that file
		sb.WriteString("///T/cwd/")
	}
	sb.WriteString(path)
	sb.WriteString(query)
	sb.WriteString(frag)
	return sb.String(), false
}

func c19URLOp(raw string) (c19Op, bool) {
	abs, parsed := c19ParseForOp(raw)
	op := c19Op{K: "url", Raw: raw, Abs: abs, Parsed: parsed}
	p := raw
	if !abs {
		if parsed == nil {
			return op, true
		}
		p = parsed.Path
	}
	openable, certain := c19Openable(p)
	op.FS = openable
	return op, certain
}

var c19NamePool = []string{"~", "~", "~a", "~A", "a~", "A~", "~+x.y-z", "~+X.Y-Z", "^", "^a", "~9", "Z~",
	"", "file", "FILE", "File", "1~", "+~", "-~", ".~", "~_x", "~ x", "~/x", "~:x", "~\x00", "~\xff", "~é", "~K", "K~", "~İ", "İ~", "~%41"}

var c19EncPool = []string{"~", "~", "~a", "~A", "^", "", "json", "console", "^json", "~ x", "~\xff", "~K", "~/"}

// c19Safe makes sure a name that could be accepted carries the per-process token (the registries are global):
// names without a token must be ones that are rejected every time.
func c19Safe(what, s string) string {
	if strings.ContainsAny(s, "~^") || s == "" {
		return s
	}
	if what == "sink" && strings.EqualFold(s, "file") {
		return s
	}
	if what == "enc" && (s == "json" || s == "console") {
		return s
	}
	return "~" + s
}

func c19GenReg(r *Rand, what string) c19Op {
	pool := c19NamePool
	if what == "enc" {
		pool = c19EncPool
	}
	n := 1 + r.Intn(6)
	op := c19Op{K: "reg", What: what}
	var raw []string
	for i := 0; i < n; i++ {
		s := Pick(r, pool)
		if len(raw) > 0 && r.Chance(1, 3) { // a case variant or a repeat of an earlier name
			s = raw[r.Intn(len(raw))]
			switch r.Intn(3) {
			case 0:
				s = strings.Map(c19Swap, s)
			case 1:
				s = strings.Map(c19Up, s)
			}
		}
		s = c19Safe(what, s)
		raw = append(raw, s)
		op.Names = append(op.Names, hx([]byte(s)))
	}
	// probes: valid-looking spellings only (a probe is turned into a URL scheme / an encoding name)
	seen := map[string]bool{}
	for _, s := range raw {
		for _, v := range []string{s, strings.Map(c19Swap, s), strings.Map(c19Up, s), strings.Map(c19Down, s)} {
			t := strings.NewReplacer("~", "a", "^", "A").Replace(v)
			if (what == "sink" && !c19SchemeRE.MatchString(t)) || v == "" || seen[v] {
				continue
			}
			seen[v] = true
			op.Probes = append(op.Probes, hx([]byte(v)))
		}
	}
	if op.Probes == nil {
		op.Probes = []string{}
	}
	return op
}

// ASCII-only case maps that leave the token placeholders alone
func c19Swap(c rune) rune {
	switch {
	case 'a' <= c && c <= 'z':
		return c - 32
	case 'A' <= c && c <= 'Z':
		return c + 32
	case c == '~':
		return '^'
	case c == '^':
		return '~'
	}
	return c
}
func c19Up(c rune) rune {
	if 'a' <= c && c <= 'z' {
		return c - 32
	}
	if c == '~' {
		return '^'
	}
	return c
}
func c19Down(c rune) rune {
	if 'A' <= c && c <= 'Z' {
		return c + 32
	}
	if c == '^' {
		return '~'
	}
	return c
}

func c19Gen(r *Rand, tier string, emit func(op any)) {
	thorough := tier == "thorough"
	// ---- open: every subset of failing positions
	maxK := 4
	if thorough {
		maxK = 6
	}
	for k := 0; k <= maxK; k++ {
		for mask := 0; mask < 1<<k; mask++ {
			ps := make([]string, k)
			for i := range ps {
				ps[i] = "ok"
				if mask>>i&1 == 1 {
					ps[i] = "fail"
				}
			}
			emit(map[string]any{"k": "open", "paths": ps})
		}
	}
	kinds := []string{"ok", "ok", "ok", "fail", "nosink", "badurl", "file", "file", "filefail", "stdout"}
	n := 1000
	if thorough {
		n = 20000
	}
	for i := 0; i < n; i++ {
		k := r.Intn(9)
		ps := make([]string, k)
		allOK := r.Chance(1, 3)
		for j := range ps {
			ps[j] = Pick(r, kinds)
			if allOK && c19FailKinds[ps[j]] {
				ps[j] = "ok"
			}
		}
		emit(map[string]any{"k": "open", "paths": ps})
	}
	// ---- build: every error path × small sink vectors
	encs := []string{"json", "console", "empty", "unknown", "notime", "ctorerr"}
	var vecs [][]string
	maxV := 2
	if thorough {
		maxV = 3
	}
	for k := 0; k <= maxV; k++ {
		for mask := 0; mask < 1<<k; mask++ {
			v := make([]string, k)
			for i := range v {
				v[i] = "ok"
				if mask>>i&1 == 1 {
					v[i] = "fail"
				}
			}
			vecs = append(vecs, v)
		}
	}
	for _, e := range encs {
		for _, lv := range []bool{true, false} {
			for _, o := range vecs {
				for _, er := range vecs {
					emit(map[string]any{"k": "build", "enc": e, "level": lv, "outs": o, "errs": er})
				}
			}
		}
	}
	n = 1000
	if thorough {
		n = 20000
	}
	bkinds := []string{"ok", "ok", "ok", "fail", "nosink", "badurl", "filefail", "stdout"}
	for i := 0; i < n; i++ {
		op := c19Op{K: "build", Enc: Pick(r, []string{"json", "json", "json", "console", "empty", "unknown", "notime", "ctorerr"}), Level: r.Chance(3, 4)}
		for j, m := 0, r.Intn(5); j < m; j++ {
			op.Outs = append(op.Outs, Pick(r, bkinds))
		}
		for j, m := 0, r.Intn(4); j < m; j++ {
			op.Errs = append(op.Errs, Pick(r, bkinds))
		}
		// real files only in configurations that must fail (a successful Build keeps its files open for good)
		if (op.Enc != "json" && op.Enc != "console") || !op.Level || c19AnyFail(op.Outs) || c19AnyFail(op.Errs) {
			if r.Chance(1, 2) {
				op.Outs = append(op.Outs, "file")
			}
			if r.Chance(1, 3) {
				op.Errs = append([]string{"file"}, op.Errs...)
			}
		}
		emit(map[string]any{"k": "build", "enc": op.Enc, "level": op.Level, "outs": c19Strs(op.Outs), "errs": c19Strs(op.Errs)})
	}
	// ---- std-log redirection
	levels := []int{-128, -3, -2, -1, 0, 1, 2, 3, 4, 5, 6, 7, 42, 99, 127}
	for _, how := range []string{"std", "at", "new"} {
		for _, l := range levels {
			reps := 2
			if thorough {
				reps = 20
			}
			for i := 0; i < reps; i++ {
				emit(map[string]any{"k": "redirect", "how": how, "lvl": l, "flags": r.Intn(256), "prefix": Pick(r, []string{"", "p: ", "[x] ", "ü", "a\tb"})})
			}
			emit(map[string]any{"k": "redirect", "how": how, "lvl": l, "flags": 0, "prefix": ""})
		}
	}
	// ---- URLs
	fixed := []string{"/T/a.log", "file:///T/a.log", "file://localhost/T/a.log", "FILE:///T/a.log", "file://LOCALHOST/T/a.log", "stdout", "stderr",
		"file:stdout", "file:///stdout", "file://u@localhost/T/a.log", "file://localhost:80/T/a.log", "file://localhost:/T/a.log",
		"file:///T/a.log?x=1", "file:///T/a.log#f", "file:///T/a.log?", "file:///T/a.log#", "file://example.com/T/a.log", "http://localhost/T/a.log",
		"rel.log", "d/rel.log", "file:rel.log", "file:/T/a.log", "//localhost/T/a.log", "///T/a.log", "file://%6cocalhost/T/a.log", ":", "%zz", "file:///T/%zz", ""}
	emitURL := func(raw string) {
		if op, certain := c19URLOp(raw); certain {
			emit(map[string]any{"k": "url", "raw": op.Raw, "abs": op.Abs, "parsed": op.Parsed, "fs": op.FS})
		}
	}
	for _, s := range fixed {
		emitURL(s)
	}
	n = 5000
	if thorough {
		n = 100000
	}
	for i := 0; i < n; i++ {
		s, _ := c19GenURL(r)
		emitURL(s)
	}
	// ---- registries
	for _, s := range c19NamePool {
		emit(map[string]any{"k": "reg", "what": "sink", "names": []string{hx([]byte(s))}, "probes": []string{}})
	}
	// exhaustive over single bytes: every byte value after, before and between token letters (the scheme grammar is
	// decided per byte; '~' and '^' are the token placeholders themselves)
	for b := 0; b < 256; b++ {
		if b == '~' || b == '^' {
			continue
		}
		// "z"+b+token: the byte under test is the SECOND byte of the name (the token itself starts with two letters, so
		// the other shapes never put a non-letter there; mutant sink.go#47 validated from the third byte on)
		for _, s := range []string{"~" + string([]byte{byte(b)}), string([]byte{byte(b)}) + "~", "~" + string([]byte{byte(b)}) + "x", "z" + string([]byte{byte(b)}) + "~"} {
			emit(map[string]any{"k": "reg", "what": "sink", "names": []string{hx([]byte(s))}, "probes": []string{}})
		}
	}
	n = 1000
	if thorough {
		n = 20000
	}
	for i := 0; i < n; i++ {
		for _, what := range []string{"sink", "enc"} {
			if what == "sink" || i%2 == 0 {
				op := c19GenReg(r, what)
				emit(map[string]any{"k": "reg", "what": what, "names": op.Names, "probes": op.Probes})
			}
		}
	}
}
