package main

import (
	"bytes"
	"encoding/json"
	"flag"
	"fmt"
	"io"
	"net/http"
	"net/http/httptest"
	"net/url"
	"strings"
	"unicode/utf8"

	"go.uber.org/zap"
	"go.uber.org/zap/zapcore"
	"gopkg.in/yaml.v3"
)

// C20 — level names and the level HTTP endpoint.
//
// ops
//   {"k":"text","t":"<hex>","lo":"<hex bytes.ToLower(t)>","cur":L}  → {"ok":bool,"after":L}
//   {"k":"round","l":L}                                             → {"s":"<hex>","c":"<hex>","m":"<hex>","ps":L|null,"pc":L|null}
//   {"k":"http","init":L,"reqs":[{"method","ctype","body":"<hex>","query","dec":{…}}]}
//        dec (computed with the standard library only, never with zap):
//          {"r":"form","t":"<hex>","lo":"<hex>"} | {"r":"json","vals":[{"null":true}|{"bad":true}|{"t","lo"}]} | {"r":"malformed"}
//        → {"steps":[{"status":…,"after":L,"resp":L|null}]}

type c20Val struct {
	Null bool   `json:"null,omitempty"`
	Bad  bool   `json:"bad,omitempty"`
	T    string `json:"t"`
	Lo   string `json:"lo"`
}

type c20Dec struct {
	R    string   `json:"r"`
	T    string   `json:"t"`
	Lo   string   `json:"lo"`
	Vals []c20Val `json:"vals"`
}

type c20Req struct {
	Method string `json:"method"`
	CType  string `json:"ctype"`
	Body   string `json:"body"`
	// Pre: the level is changed directly (SetLevel, or the text path when the level is a named one) just before this request;
	// the endpoint must report and act on the level in force, however it got there
	Pre   *int   `json:"pre,omitempty"`
	Query string `json:"query"`
	Dec   c20Dec `json:"dec"`
}

type c20Op struct {
	K    string   `json:"k"`
	T    string   `json:"t"`
	Lo   string   `json:"lo"`
	Cur  int      `json:"cur"`
	L    int      `json:"l"`
	Init int      `json:"init"`
	Reqs []c20Req `json:"reqs,omitempty"`
}

func init() {
	props["C20"] = &Prop{Gen: c20Gen, Exec: c20Exec}
	dumps["LevelText"] = c20Dump
}

var c20Names = []string{"debug", "info", "warn", "warning", "error", "dpanic", "panic", "fatal", ""}

func c20Texts(r *Rand, n int) [][]byte {
	var out [][]byte
	for _, nm := range c20Names {
		out = append(out, []byte(nm), []byte(strings.ToUpper(nm)), []byte(strings.Title(nm)))
		for i := 0; i < 4; i++ { // random case variants
			b := []byte(nm)
			for j := range b {
				if r.Bool() {
					b[j] = byte(strings.ToUpper(string(b[j]))[0])
				}
			}
			out = append(out, b)
		}
		out = append(out, []byte(nm+" "), []byte(" "+nm), []byte(nm+"\n"), []byte(nm+"level"), []byte(nm+"\x00"))
	}
	out = append(out, []byte("İNFO"), []byte("ınfo"), []byte("WARNİNG"), []byte("ＩNFO"), []byte("\xff"), []byte("Level(3)"),
		[]byte("LEVEL(-5)"), []byte("trace"), []byte("fatal "), []byte("0"), []byte("-1"), []byte("null"), []byte("ERROR\xff"), []byte("DEBUGK"), []byte("K"), []byte("ḋebug"))
	for i := 0; i < n; i++ {
		switch r.Intn(3) {
		case 0:
			out = append(out, r.Bytes(8))
		case 1: // near miss: one edit from a name
			b := []byte(Pick(r, c20Names[:8]))
			if len(b) > 0 {
				switch r.Intn(3) {
				case 0:
					b[r.Intn(len(b))] = byte(r.Intn(256))
				case 1:
					b = b[:len(b)-1]
				default:
					b = append(b, byte(r.Intn(256)))
				}
			}
			out = append(out, b)
		default:
			b := []byte(Pick(r, c20Names))
			for j := range b {
				if r.Bool() {
					b[j] = byte(strings.ToUpper(string(b[j]))[0])
				}
			}
			out = append(out, b)
		}
	}
	return out
}

// refDecode mirrors what net/http and encoding/json hand to the level parser, using only the standard library.
func refDecode(method, ctype string, body []byte, query string) c20Dec {
	if ctype == "application/x-www-form-urlencoded" {
		form, _ := url.ParseQuery(string(body))
		q, _ := url.ParseQuery(query)
		v := ""
		if vs := form["level"]; len(vs) > 0 {
			v = vs[0]
		} else if vs := q["level"]; len(vs) > 0 {
			v = vs[0]
		}
		return c20Dec{R: "form", T: hx([]byte(v)), Lo: hx(bytes.ToLower([]byte(v)))}
	}
	dec := json.NewDecoder(bytes.NewReader(body))
	var rawv json.RawMessage
	if err := dec.Decode(&rawv); err != nil {
		return c20Dec{R: "malformed"}
	}
	trim := bytes.TrimSpace(rawv)
	if string(trim) == "null" {
		return c20Dec{R: "json", Vals: []c20Val{}}
	}
	if len(trim) == 0 || trim[0] != '{' {
		return c20Dec{R: "malformed"}
	}
	d2 := json.NewDecoder(bytes.NewReader(trim))
	if _, err := d2.Token(); err != nil {
		return c20Dec{R: "malformed"}
	}
	vals := []c20Val{}
	for d2.More() {
		kt, err := d2.Token()
		if err != nil {
			return c20Dec{R: "malformed"}
		}
		key := kt.(string)
		var v json.RawMessage
		if err := d2.Decode(&v); err != nil {
			return c20Dec{R: "malformed"}
		}
		if !jsonKeyMatches(key) {
			continue
		}
		vt := bytes.TrimSpace(v)
		switch {
		case string(vt) == "null":
			vals = append(vals, c20Val{Null: true})
		case vt[0] == '"':
			var s string
			if err := json.Unmarshal(vt, &s); err != nil {
				vals = append(vals, c20Val{Bad: true})
			} else {
				vals = append(vals, c20Val{T: hx([]byte(s)), Lo: hx(bytes.ToLower([]byte(s)))})
			}
		default:
			vals = append(vals, c20Val{Bad: true})
		}
	}
	return c20Dec{R: "json", Vals: vals}
}

// encoding/json matches struct field names exactly or under its ASCII/"simple" case folding.
func jsonKeyMatches(key string) bool {
	if key == "level" {
		return true
	}
	if !utf8.ValidString(key) {
		return false
	}
	var b strings.Builder
	for _, c := range key { // json.foldName: ASCII upper + two special runes
		switch {
		case c == 'ſ':
			c = 'S'
		case c == 'K':
			c = 'K'
		case 'a' <= c && c <= 'z':
			c -= 'a' - 'A'
		}
		b.WriteRune(c)
	}
	return b.String() == "LEVEL"
}

func c20Gen(r *Rand, tier string, emit func(op any)) {
	nText, nHTTP := 1500, 1200
	if tier == "thorough" {
		nText, nHTTP = 150000, 100000
	}
	for l := -128; l <= 127; l++ {
		emit(c20Op{K: "round", L: l})
	}
	for _, t := range c20Texts(r, nText) {
		emit(c20Op{K: "text", T: hx(t), Lo: hx(bytes.ToLower(t)), Cur: Pick(r, []int{-1, 0, 1, 2, 3, 4, 5, 6, -128, 127, 42})})
	}
	methods := []string{"GET", "PUT", "PUT", "PUT", "PUT", "POST", "DELETE", "PATCH", "HEAD", "OPTIONS", "put", "BREW"}
	ctypes := []string{"application/x-www-form-urlencoded", "application/x-www-form-urlencoded", "application/json", "application/json", "", "text/plain", "application/x-www-form-urlencoded; charset=utf-8", "APPLICATION/X-WWW-FORM-URLENCODED"}
	texts := c20Texts(r, 30)
	for i := 0; i < nHTTP; i++ {
		k := 1 + r.Intn(4)
		reqs := make([]c20Req, k)
		for j := range reqs {
			m := Pick(r, methods)
			ct := Pick(r, ctypes)
			t := string(Pick(r, texts))
			if r.Chance(1, 2) {
				t = Pick(r, c20Names)
			}
			var body []byte
			query := ""
			if ct == "application/x-www-form-urlencoded" {
				switch r.Intn(10) {
				case 7, 8, 9:
					// large bodies (around and well beyond 1 KiB … 64 KiB) with the level before or after the padding, and
					// a query that may disagree: the body's value wins, whatever the size
					pad := strings.Repeat("x", Pick(r, []int{900, 1010, 1024, 1100, 4096, 70000}))
					if r.Chance(1, 2) {
						body = []byte("level=" + url.QueryEscape(t) + "&pad=" + pad)
					} else {
						body = []byte("pad=" + pad + "&level=" + url.QueryEscape(t))
					}
					if r.Chance(2, 3) {
						query = "level=" + url.QueryEscape(Pick(r, c20Names))
					}
				case 0:
					body = []byte("level=" + url.QueryEscape(t))
				case 1:
					query = "level=" + url.QueryEscape(t)
				case 2:
					body = []byte("level=" + url.QueryEscape(t))
					query = "level=" + url.QueryEscape(string(Pick(r, texts)))
				case 3:
					body = []byte("lvl=" + url.QueryEscape(t))
				case 4:
					body = []byte("level=" + t) // unescaped
				case 5:
					body = []byte("x=1&level=" + url.QueryEscape(t) + "&level=debug")
				default:
				}
			} else {
				q, _ := json.Marshal(strings.ToValidUTF8(t, "�"))
				key := Pick(r, []string{"level", "level", "level", "Level", "LEVEL", "lvl", "levels", "leveL"})
				switch r.Intn(14) {
				case 12, 13:
					pad := strings.Repeat("y", Pick(r, []int{900, 1010, 1024, 1100, 4096, 70000}))
					if r.Chance(1, 2) {
						body = []byte(`{"pad":"` + pad + `","` + key + `":` + string(q) + `}`)
					} else {
						body = []byte(`{"` + key + `":` + string(q) + `,"pad":"` + pad + `"}`)
					}
				case 0:
					body = []byte(`{"` + key + `":` + string(q) + `}`)
				case 1:
					body = []byte(`{"` + key + `":` + string(q) + `} trailing`)
				case 2:
					body = []byte(`{"` + key + `":` + string(q))
				case 3:
					body = []byte(`{"` + key + `":null}`)
				case 4:
					body = []byte(`{"` + key + `":` + fmt.Sprint(r.Intn(9)-2) + `}`)
				case 5:
					body = []byte(`{}`)
				case 6:
					body = []byte(string(q))
				case 7:
					body = []byte(`{"other":[1,{"level":"debug"}],"` + key + `":` + string(q) + `}`)
				case 8:
					body = []byte(`{"level":` + string(q) + `,"` + key + `":` + Pick(r, []string{`"debug"`, `null`, `"nope"`, `7`}) + `}`)
				case 9:
					body = []byte(`null`)
				case 10:
					body = r.Bytes(10)
				default:
					body = []byte(`{"` + key + `":` + string(q) + `}`)
				}
			}
			reqs[j] = c20Req{Method: m, CType: ct, Body: hx(body), Query: query, Dec: refDecode(m, ct, body, query)}
			if r.Chance(1, 4) {
				pre := Pick(r, []int{-1, 0, 1, 2, 3, 4, 5})
				reqs[j].Pre = &pre
			}
		}
		emit(c20Op{K: "http", Init: Pick(r, []int{-1, 0, 1, 2, 3, 4, 5}), Reqs: reqs})
	}
}

func validLevel(l int) bool { return l >= -1 && l <= 5 }

func c20Exec(raw json.RawMessage) Result {
	var op c20Op
	unmarshal(raw, &op)
	switch op.K {
	case "round":
		l := zapcore.Level(op.L)
		s, c := l.String(), l.CapitalString()
		m, merr := l.MarshalText()
		parse := func(t string) any {
			var x zapcore.Level = 42
			if err := x.UnmarshalText([]byte(t)); err != nil {
				return nil
			}
			return int(x)
		}
		ps, pc := parse(s), parse(c)
		o := ok()
		if validLevel(op.L) {
			if ps != any(op.L) || pc != any(op.L) || merr != nil || string(m) != s {
				o = bad(fmt.Sprintf("C20:roundtrip:%d", op.L), "level %d: String=%q→%v CapitalString=%q→%v MarshalText=%q,%v", op.L, s, ps, c, pc, m, merr)
			}
			// the other text forms: JSON, YAML, flag, ParseLevel, AtomicLevel
			var j zapcore.Level = 42
			jb, _ := json.Marshal(l)
			if err := json.Unmarshal(jb, &j); err != nil || j != l {
				o = bad(fmt.Sprintf("C20:roundtrip-json:%d", op.L), "JSON %s → %v,%v", jb, j, err)
			}
			var y zapcore.Level = 42
			if err := yaml.Unmarshal([]byte(s), &y); err != nil || y != l {
				o = bad(fmt.Sprintf("C20:roundtrip-yaml:%d", op.L), "YAML %s → %v,%v", s, y, err)
			}
			fs := flag.NewFlagSet("x", flag.ContinueOnError)
			fs.SetOutput(io.Discard)
			var f zapcore.Level = 42
			fs.Var(&f, "level", "")
			if err := fs.Parse([]string{"-level", c}); err != nil || f != l {
				o = bad(fmt.Sprintf("C20:roundtrip-flag:%d", op.L), "flag %s → %v,%v", c, f, err)
			}
			if pl, err := zapcore.ParseLevel(c); err != nil || pl != l {
				o = bad(fmt.Sprintf("C20:roundtrip-parse:%d", op.L), "ParseLevel %s → %v,%v", c, pl, err)
			}
			if al, err := zap.ParseAtomicLevel(s); err != nil || al.Level() != l {
				o = bad(fmt.Sprintf("C20:roundtrip-atomic:%d", op.L), "ParseAtomicLevel %s → %v,%v", s, al, err)
			}
		}
		return Result{Impl: map[string]any{"s": hx([]byte(s)), "c": hx([]byte(c)), "m": hx(m), "ps": ps, "pc": pc}, Oracle: o,
			Nontrivial: true, Shape: fmt.Sprintf("round/valid=%v", validLevel(op.L))}
	case "text":
		t := unhx(op.T)
		l := zapcore.Level(op.Cur)
		err := l.UnmarshalText(t)
		o := ok()
		if err != nil && int(l) != op.Cur {
			o = bad("C20:reject-modified", "rejected text %q changed the target from %d to %d", t, op.Cur, l)
		}
		// every other text entry point must agree with UnmarshalText
		al := zap.NewAtomicLevelAt(zapcore.Level(op.Cur))
		// an AtomicLevel that is already in use: a copy handed out earlier (copies share the level) and a core built from it
		inUse := al
		usedCore := zapcore.NewCore(zapcore.NewJSONEncoder(zapcore.EncoderConfig{}), zapcore.AddSync(io.Discard), inUse)
		aerr := al.UnmarshalText(t)
		if (aerr == nil) != (err == nil) || int(al.Level()) != int(l) {
			o = bad("C20:atomic-disagrees", "AtomicLevel.UnmarshalText(%q) = %v,%v but Level gives %v,%v", t, al.Level(), aerr, l, err)
		}
		if inUse.Level() != al.Level() {
			o = bad("C20:atomic-text-not-shared", "AtomicLevel.UnmarshalText(%q) set %v, but a copy of the AtomicLevel taken before reports %v: loggers built from it keep the old level",
				t, al.Level(), inUse.Level())
		}
		for q := zapcore.DebugLevel; q <= zapcore.FatalLevel; q++ {
			if usedCore.Enabled(q) != (q >= al.Level()) {
				o = bad("C20:atomic-text-not-shared", "after AtomicLevel.UnmarshalText(%q) = %v a core built from the AtomicLevel answers Enabled(%v)=%v", t, al.Level(), q, usedCore.Enabled(q))
			}
		}
		pl, perr := zapcore.ParseLevel(string(t))
		if (perr == nil) != (err == nil) || (err == nil && pl != l) {
			o = bad("C20:parselevel-disagrees", "ParseLevel(%q) = %v,%v but UnmarshalText gives %v,%v", t, pl, perr, l, err)
		}
		if pal, palerr := zap.ParseAtomicLevel(string(t)); (palerr == nil) != (err == nil) || (err == nil && pal.Level() != l) {
			o = bad("C20:parseatomic-disagrees", "zap.ParseAtomicLevel(%q) = %v,%v but UnmarshalText gives %v,%v", t, pal.Level(), palerr, l, err)
		}
		fl := zapcore.Level(op.Cur)
		ferr := fl.Set(string(t))
		if (ferr == nil) != (err == nil) || fl != l {
			o = bad("C20:flag-disagrees", "Set(%q) = %v,%v but UnmarshalText gives %v,%v", t, fl, ferr, l, err)
		}
		// zap.LevelFlag: a flag on the process's flag set whose default is the current level; rejected text must leave it alone
		c20FlagSeq++
		fname := fmt.Sprintf("zvlevel%d", c20FlagSeq)
		if op.Cur >= -1 && op.Cur <= 5 {
			lf := zap.LevelFlag(fname, zapcore.Level(op.Cur), "level")
			lferr := flag.Set(fname, string(t))
			if (lferr == nil) != (err == nil) || *lf != l {
				o = bad("C20:levelflag-disagrees", "zap.LevelFlag (default %d) set to %q = %v,%v but UnmarshalText gives %v,%v", op.Cur, t, *lf, lferr, l, err)
			}
		}
		if utf8.Valid(t) {
			jl := zapcore.Level(op.Cur)
			q, _ := json.Marshal(string(t))
			jerr := json.Unmarshal(q, &jl)
			if (jerr == nil) != (err == nil) || jl != l {
				o = bad("C20:json-disagrees", "JSON %s = %v,%v but UnmarshalText gives %v,%v", q, jl, jerr, l, err)
			}
		}
		if err == nil && bytes.Equal(t, []byte("")) && l != zapcore.InfoLevel {
			o = bad("C20:empty-not-info", "empty text parsed as %v", l)
		}
		isName := false
		for _, n := range c20Names {
			if strings.EqualFold(n, string(t)) {
				isName = true
			}
		}
		return Result{Impl: map[string]any{"ok": err == nil, "after": int(l)}, Oracle: o,
			Nontrivial: len(t) > 0, Shape: fmt.Sprintf("text/ok=%v/name=%v", err == nil, isName)}
	case "http":
		lvl := zap.NewAtomicLevelAt(zapcore.Level(op.Init))
		logger := zap.New(zapcore.NewNopCore()).WithOptions(zap.WrapCore(func(zapcore.Core) zapcore.Core {
			return zapcore.NewCore(zapcore.NewJSONEncoder(zap.NewProductionEncoderConfig()), zapcore.AddSync(io.Discard), lvl)
		})).With(zap.Int("k", 1))
		// two shadow levels receive the same requests: `silenced` starts above Fatal and has a logger built from a zap.Config
		// at that moment (the endpoint must be able to switch that logger on); `deaf` answers through a ResponseWriter whose
		// Write fails (a client that went away must not undo or prevent the change)
		silenced := zap.NewAtomicLevelAt(zapcore.FatalLevel + 1)
		cfgLogger, cfgErr := zap.Config{Level: silenced, Encoding: "json", EncoderConfig: zap.NewProductionEncoderConfig(),
			OutputPaths: []string{}, ErrorOutputPaths: []string{}}.Build()
		must(cfgErr)
		cfgChild := cfgLogger.With(zap.Int("k", 2))
		// the same level drives a DEVELOPMENT-mode logger, a sampled one and one narrowed by IncreaseLevel(the level itself)
		devLogger, devErr := zap.Config{Level: silenced, Development: true, Encoding: "console", EncoderConfig: zap.NewDevelopmentEncoderConfig(),
			OutputPaths: []string{}, ErrorOutputPaths: []string{}}.Build()
		must(devErr)
		sampLogger, sampErr := zap.Config{Level: silenced, Encoding: "json", EncoderConfig: zap.NewProductionEncoderConfig(),
			Sampling: &zap.SamplingConfig{Initial: 2, Thereafter: 3}, OutputPaths: []string{}, ErrorOutputPaths: []string{}}.Build()
		must(sampErr)
		incrBase := zap.New(zapcore.NewCore(zapcore.NewJSONEncoder(zap.NewProductionEncoderConfig()), zapcore.AddSync(io.Discard), zapcore.DebugLevel))
		incrLogger := incrBase.WithOptions(zap.IncreaseLevel(silenced)).Named("n")
		deaf := zap.NewAtomicLevelAt(zapcore.Level(op.Init))
		steps := []map[string]any{}
		o := ok()
		shape := ""
		changed := false
		for i, rq := range op.Reqs {
			if rq.Pre != nil {
				for _, al := range []zap.AtomicLevel{lvl, silenced, deaf} {
					if *rq.Pre >= -1 && *rq.Pre <= 5 && i%2 == 1 {
						must(al.UnmarshalText([]byte(zapcore.Level(*rq.Pre).String())))
					} else {
						al.SetLevel(zapcore.Level(*rq.Pre))
					}
				}
			}
			before := lvl.Level()
			body := unhx(rq.Body)
			target := "/log/level"
			if rq.Query != "" {
				target += "?" + rq.Query
			}
			req, err := http.NewRequest(rq.Method, "http://localhost"+target, bytes.NewReader(body))
			must(err)
			if rq.CType != "" {
				req.Header.Set("Content-Type", rq.CType)
			}
			rec := httptest.NewRecorder()
			lvl.ServeHTTP(rec, req)
			after := lvl.Level()
			var resp struct {
				Level *string `json:"level"`
				Error *string `json:"error"`
			}
			_ = json.Unmarshal(rec.Body.Bytes(), &resp)
			var respLevel any
			if resp.Level != nil {
				var rl zapcore.Level
				if rl.UnmarshalText([]byte(*resp.Level)) == nil {
					respLevel = int(rl)
				}
			}
			steps = append(steps, map[string]any{"status": rec.Code, "after": int(after), "resp": respLevel})
			// oracle, straight from the property statement
			if after != before {
				changed = true
				if rq.Method != "PUT" {
					o = bad("C20:http-changed-non-put", "req %d: method %s changed the level %v→%v", i, rq.Method, before, after)
				}
				if rec.Code != 200 {
					o = bad("C20:http-changed-on-error", "req %d: status %d but level changed %v→%v", i, rec.Code, before, after)
				}
			}
			if rec.Code == 200 && (respLevel == nil || respLevel != any(int(after))) {
				o = bad("C20:http-report", "req %d: 200 response reports %v, level in force %v", i, respLevel, after)
			}
			if rq.Method != "GET" && rq.Method != "PUT" && (rec.Code < 400 || rec.Code > 499) {
				o = bad("C20:http-method-status", "req %d: method %s answered %d", i, rq.Method, rec.Code)
			}
			if rec.Code >= 500 {
				o = bad("C20:http-5xx", "req %d: status %d", i, rec.Code)
			}
			for l := -1; l <= 5; l++ {
				if logger.Core().Enabled(zapcore.Level(l)) != (zapcore.Level(l) >= after) {
					o = bad("C20:http-logger-stale", "req %d: derived logger does not honour level %v", i, after)
				}
			}
			replay := func(al zap.AtomicLevel, w http.ResponseWriter) {
				rq2, err := http.NewRequest(rq.Method, "http://localhost"+target, bytes.NewReader(body))
				must(err)
				if rq.CType != "" {
					rq2.Header.Set("Content-Type", rq.CType)
				}
				al.ServeHTTP(w, rq2)
			}
			replay(silenced, httptest.NewRecorder())
			if rec.Code == 200 && rq.Method == "PUT" && silenced.Level() != after {
				o = bad("C20:http-shadow-level", "req %d: the same PUT on a level that started above fatal gives %v, want %v", i, silenced.Level(), after)
			}
			for l := -1; l <= 5; l++ {
				want := zapcore.Level(l) >= silenced.Level()
				for name, lg := range map[string]*zap.Logger{"development": devLogger, "sampled": sampLogger, "increase-level": incrLogger} {
					// (a sampled logger may decline an enabled entry: only Enabled is compared there)
					if lg.Core().Enabled(zapcore.Level(l)) != want || (name != "sampled" && (lg.Check(zapcore.Level(l), "m") != nil) != (want || l >= 4 || (l == 3 && name == "development"))) {
						o = bad("C20:http-logger-stale:"+name, "req %d: the %s logger driven by the level answers Enabled(%d)=%v, Check≠nil=%v after the endpoint set %v",
							i, name, l, lg.Core().Enabled(zapcore.Level(l)), lg.Check(zapcore.Level(l), "m") != nil, silenced.Level())
					}
				}
				if cfgLogger.Core().Enabled(zapcore.Level(l)) != want || cfgChild.Core().Enabled(zapcore.Level(l)) != want {
					o = bad("C20:http-logger-stale:config-built", "req %d: the logger built by Config.Build while the level was above fatal answers Enabled(%d)=%v after the endpoint set %v",
						i, l, cfgLogger.Core().Enabled(zapcore.Level(l)), silenced.Level())
				}
			}
			replay(deaf, &c20DeafWriter{h: http.Header{}})
			if deaf.Level() != after {
				o = bad("C20:http-failing-response-writer", "req %d: with a ResponseWriter whose Write fails the level is %v afterwards, with a working one %v", i, deaf.Level(), after)
			}
			shape += fmt.Sprintf("%s:%d ", rq.Method, rec.Code)
		}
		return Result{Impl: map[string]any{"steps": steps}, Oracle: o, Nontrivial: changed, Shape: "http/" + strings.TrimSpace(shapeCap(shape))}
	}
	panic("unknown op kind " + op.K)
}

// c20DeafWriter: the client went away — headers are accepted, every Write fails
type c20DeafWriter struct{ h http.Header }

func (w *c20DeafWriter) Header() http.Header       { return w.h }
func (w *c20DeafWriter) WriteHeader(int)           {}
func (w *c20DeafWriter) Write([]byte) (int, error) { return 0, io.ErrClosedPipe }

var c20FlagSeq int

func shapeCap(s string) string {
	if len(s) > 24 {
		return s[:24]
	}
	return s
}

// c20Dump writes the dynamic level-text table consumed by Gen/LevelText.lean:
// one line per level value: "<l> <hex String> <hex CapitalString> <hex MarshalText|!>".
func c20Dump() {
	for l := -128; l <= 127; l++ {
		lv := zapcore.Level(l)
		m, err := lv.MarshalText()
		ms := hx(m)
		if err != nil {
			ms = "!"
		}
		fmt.Fprintf(dumpOut, "%d %s %s %s\n", l, orDash(hx([]byte(lv.String()))), orDash(hx([]byte(lv.CapitalString()))), orDash(ms))
	}
}

func orDash(s string) string {
	if s == "" {
		return "-"
	}
	return s
}
