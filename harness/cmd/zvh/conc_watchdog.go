package main

import (
	"bytes"
	"encoding/json"
	"os"
	"os/exec"
	"runtime"
	"time"
)

// Watchdog shared by the concurrency properties (C04, C08, C09).
//
// A generated program normally finishes in milliseconds. The limit is ≥ 30× the longest duration observed so far in
// this process (10 s before anything was observed, never below 3 s); a program that exceeds it is re-run ALONE in a
// fresh process before a deadlock is reported (DESIGN §7). After 3 timeouts in one process the remaining programs are
// skipped (reported as such, not compared): a real deadlock has been reported by then and every further instance
// would only cost its full timeout.
type concWatchdog struct {
	maxSeen   time.Duration
	timeouts  int
	confirmed bool // a timeout was already reproduced alone in this process
}

var concWD concWatchdog

func (w *concWatchdog) limit() time.Duration {
	if os.Getenv("ZVH_ALONE") != "" {
		return 10 * time.Second
	}
	if w.maxSeen == 0 {
		return 10 * time.Second
	}
	l := 30 * w.maxSeen
	if l < 3*time.Second {
		l = 3 * time.Second
	}
	if l > 30*time.Second {
		l = 30 * time.Second
	}
	return l
}

func (w *concWatchdog) exhausted() bool { return w.timeouts >= 3 }

// watched runs f on its own goroutine; returns timedOut (+ a dump of all goroutines) when it does not finish in time.
// A timed-out f keeps its goroutines (they are blocked); the process goes on.
func (w *concWatchdog) watched(f func()) (timedOut bool, dump string) {
	done := make(chan struct{})
	t0 := time.Now()
	go func() { defer close(done); f() }()
	select {
	case <-done:
		if d := time.Since(t0); d > w.maxSeen {
			w.maxSeen = d
		}
		return false, ""
	case <-time.After(w.limit()):
		w.timeouts++
		buf := make([]byte, 1<<20)
		return true, string(buf[:runtime.Stack(buf, true)])
	}
}

// rerunAlone executes one op in a fresh harness process; returns the child's impl when it finished without timeout.
func concRerunAlone(prop string, raw json.RawMessage) (map[string]any, bool) {
	if os.Getenv("ZVH_ALONE") != "" || concWD.confirmed {
		return nil, false
	}
	cmd := exec.Command(os.Args[0], "exec", prop)
	cmd.Env = append(os.Environ(), "ZVH_ALONE=1")
	cmd.Stdin = bytes.NewReader(append(append([]byte(nil), raw...), '\n'))
	var out bytes.Buffer
	cmd.Stdout = &out
	if err := cmd.Start(); err != nil {
		return nil, false
	}
	t := time.AfterFunc(30*time.Second, func() { _ = cmd.Process.Kill() })
	err := cmd.Wait()
	t.Stop()
	var child struct {
		Impl map[string]any `json:"impl"`
	}
	if err != nil || json.Unmarshal(bytes.TrimSpace(out.Bytes()), &child) != nil || child.Impl == nil || child.Impl["timeout"] != false {
		concWD.confirmed = true
		return nil, false
	}
	for k, v := range child.Impl {
		if f, isF := v.(float64); isF {
			child.Impl[k] = int(f)
		}
	}
	return child.Impl, true
}

func concSkipped(shape string) Result {
	return Result{Impl: map[string]any{"skipped": "after 3 timeouts in this process"}, Oracle: ok(), NoModel: true, Shape: shape + "/skipped"}
}
