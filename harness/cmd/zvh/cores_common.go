package main

// Shared machinery of C05 / C06 / C07: building real zapcore trees from a JSON description, spies that record what the
// cores do (marshal calls, sampler decisions, sink writes and syncs, entry hooks, terminal actions), the registry of
// front ends (every exported log method, found by reflection), and the independent path-product specification.

import (
	"bytes"
	"encoding/json"
	"fmt"
	"io"
	"reflect"
	"regexp"
	"sort"
	"strconv"
	"strings"
	"sync"
	"time"

	"go.uber.org/zap"
	"go.uber.org/zap/zapcore"
	"go.uber.org/zap/zapgrpc"
	"go.uber.org/zap/zaptest/observer"
)

// ---------------------------------------------------------------- op vocabulary

type enabJ struct {
	K    string `json:"k"`              // fn | lvl | atomic
	Mask int    `json:"mask,omitempty"` // fn: bit (l+1) for l in -1..5
	Lo   bool   `json:"lo,omitempty"`   // fn: value for l < -1
	Hi   bool   `json:"hi,omitempty"`   // fn: value for l > 5
	T    int    `json:"t,omitempty"`    // lvl: static zapcore.Level threshold
	I    int    `json:"i,omitempty"`    // atomic: index
}

type fldJ struct {
	Kind int `json:"kind,omitempty"` // 0 spy object marshaler · 1 namespace · 2 int · 3 string
	Key  int `json:"key"`
	Ref  int `json:"ref"`           // -1: constant; else index of the mutable cell read when marshaled (kind 0)
	Val  int `json:"val,omitempty"` // value of an int / string field
}

type nodeJ struct {
	T    string  `json:"t"` // leaf nop tee incr hook samp lazy with
	ID   int     `json:"id,omitempty"`
	IO   bool    `json:"io,omitempty"`
	En   *enabJ  `json:"en,omitempty"`
	Cs   []nodeJ `json:"cs,omitempty"`
	C    *nodeJ  `json:"c,omitempty"`
	Pass bool    `json:"pass,omitempty"`
	Fs   []fldJ  `json:"fs,omitempty"`
	// Sh > 0: structurally identical subtrees carrying the same Sh are built ONCE and the one core object is shared by all
	// their parents (siblings derived from one parent core). Model and oracle see separate copies, which is the same thing
	// as long as deriving from a core does not touch it (only used for hook chains over a leaf).
	Sh int `json:"sh,omitempty"`
}

func kf(keys ...int) []fldJ {
	out := []fldJ{}
	for _, k := range keys {
		out = append(out, fldJ{Key: k, Ref: -1})
	}
	return out
}

// ---------------------------------------------------------------- spies

type recorder struct {
	mu  sync.Mutex
	evs []string
	out io.Writer // when set, every event is also written through immediately (child processes)
}

func (r *recorder) add(s string) {
	r.mu.Lock()
	r.evs = append(r.evs, s)
	if r.out != nil {
		_, _ = io.WriteString(r.out, s+"\n")
	}
	r.mu.Unlock()
}

func (r *recorder) take() []string {
	r.mu.Lock()
	defer r.mu.Unlock()
	out := r.evs
	r.evs = nil
	if out == nil {
		out = []string{}
	}
	return out
}

// spyObj is a field value whose marshaling is observable; with a cell it is a mutable marshaler.
type spyObj struct {
	key  int
	rec  *recorder
	cell *int
	ref  int
}

func (s *spyObj) MarshalLogObject(enc zapcore.ObjectEncoder) error {
	s.rec.add("m" + strconv.Itoa(s.key))
	if s.cell != nil {
		enc.AddInt("v", *s.cell)
	}
	return nil
}

type spySink struct {
	id      int
	rec     *recorder
	inner   zapcore.WriteSyncer // optional real destination
	console bool                // lines are console-encoded: [name TAB] m [TAB {context}] NL
}

// parseLine: (logger name, field descriptors) of one emitted line; an unreadable line is reported as such.
func (s *spySink) parseLine(p []byte) (name string, fs []string) {
	defer func() {
		if e := recover(); e != nil {
			name, fs = "", []string{"!unreadable line " + strconv.Quote(string(p))}
		}
	}()
	if !s.console {
		return flattenLine(p)
	}
	cols := strings.Split(strings.TrimSuffix(string(p), "\n"), "\t")
	ctx := ""
	if last := cols[len(cols)-1]; strings.HasPrefix(last, "{") {
		ctx, cols = last, cols[:len(cols)-1]
	}
	switch {
	case len(cols) == 2 && cols[1] == "m":
		name = cols[0]
	case len(cols) == 1 && cols[0] == "m":
	default:
		panic("unexpected console columns")
	}
	if ctx != "" {
		_, fs = flattenLine([]byte(ctx))
	} else {
		fs = []string{}
	}
	return name, fs
}

func (s *spySink) Write(p []byte) (int, error) {
	name, fs := s.parseLine(p)
	s.rec.add(fmt.Sprintf("w%d:%s|%s", s.id, name, strings.Join(fs, ",")))
	if s.inner != nil {
		return s.inner.Write(p)
	}
	return len(p), nil
}

func (s *spySink) Sync() error {
	s.rec.add("y" + strconv.Itoa(s.id))
	if s.inner != nil {
		return s.inner.Sync()
	}
	return nil
}

type spyTerm struct {
	name string
	rec  *recorder
}

func (s spyTerm) OnWrite(*zapcore.CheckedEntry, []zapcore.Field) { s.rec.add("t:" + s.name) }

// flattenLine turns one JSON line of an io leaf into (logger name, field descriptors in emission order):
//
//	k<id>{}            → "k<id>"          spy object (constant)
//	k<id>{"v":n}       → "k<id>=n"        mutable marshaler, value at marshal time
//	n<id>{ … }         → "n<id>{" …       namespace: everything after it is nested
var c07Pad = strings.Repeat("~", 1500)

func flattenLine(p []byte) (string, []string) {
	name, out := flattenLineRaw(p)
	for i := range out {
		out[i] = strings.Replace(out[i], c07Pad, "", 1)
	}
	return name, out
}

func flattenLineRaw(p []byte) (string, []string) {
	dec := json.NewDecoder(bytes.NewReader(p))
	dec.UseNumber()
	name := ""
	out := []string{}
	var obj func(top bool)
	obj = func(top bool) {
		for dec.More() {
			kt, err := dec.Token()
			must(err)
			key := kt.(string)
			vt, err := dec.Token()
			must(err)
			if d, ok := vt.(json.Delim); ok && d == '{' {
				if strings.HasPrefix(key, "n") {
					out = append(out, key+"{")
					obj(false)
				} else {
					inner := ""
					for dec.More() {
						_, err := dec.Token()
						must(err)
						v, err := dec.Token()
						must(err)
						inner = "=" + fmt.Sprint(v)
					}
					out = append(out, key+inner)
				}
				_, err := dec.Token() // closing brace
				must(err)
				if strings.HasPrefix(key, "n") && dec.More() {
					// a namespace stays open to the end of the line: members AFTER its closing brace mean it was closed early
					out = append(out, "}")
				}
				continue
			}
			switch {
			case top && key == "msg":
			case top && key == "logger":
				name = fmt.Sprint(vt)
			default:
				out = append(out, key+"="+fmt.Sprint(vt))
			}
		}
	}
	t, err := dec.Token()
	must(err)
	if d, ok := t.(json.Delim); !ok || d != '{' {
		panic("not an object line")
	}
	obj(true)
	return name, out
}

// fixedStringer: a Stringer with a constant text (see world.field, kind 3).
type fixedStringer string

func (s fixedStringer) String() string { return string(s) }

// describeFields renders zap fields as an observer holds them (references are not resolved).
func describeFields(fs []zapcore.Field) []string {
	out := []string{}
	for _, f := range fs {
		switch f.Type {
		case zapcore.ObjectMarshalerType:
			if s, ok := f.Interface.(*spyObj); ok {
				if s.cell != nil {
					out = append(out, fmt.Sprintf("%s@%d", f.Key, s.ref))
				} else {
					out = append(out, f.Key)
				}
				continue
			}
			out = append(out, f.Key+"?")
		case zapcore.SkipType:
			// a no-op field: retained by observers, encodes nothing, carries no information
		case zapcore.NamespaceType:
			out = append(out, f.Key+"{")
		case zapcore.Int64Type:
			out = append(out, fmt.Sprintf("%s=%d", f.Key, f.Integer))
		case zapcore.StringType:
			out = append(out, f.Key+"="+strings.Replace(f.String, c07Pad, "", 1))
		case zapcore.StringerType:
			if fs, ok := f.Interface.(fixedStringer); ok {
				out = append(out, f.Key+"="+string(fs))
				continue
			}
			out = append(out, f.Key+"?stringer")
		default:
			out = append(out, fmt.Sprintf("%s?%d", f.Key, f.Type))
		}
	}
	return out
}

// ---------------------------------------------------------------- the world of one op

type world struct {
	rec      *recorder
	atomics  []zap.AtomicLevel
	cells    []*int
	obs      map[int]*observer.ObservedLogs
	rejected []int                            // ids of IncreaseLevel wrappers that NewIncreaseLevelCore refused
	sinkFor  func(id int) zapcore.WriteSyncer // optional real destination behind an io leaf's spy sink
	// bufferOdd: io leaves with an odd id get a BufferedWriteSyncer (tiny buffer: every entry is larger than it)
	// BETWEEN the core and the spy, so that the spy observes what actually reaches the destination
	bufferOdd bool
	buffered  []*zapcore.BufferedWriteSyncer
	// consoleMod4: io leaves whose id ≡ 3 (mod 4) encode with the console encoder instead of the JSON encoder
	consoleMod4 bool
	shared      map[int]zapcore.Core // cores built once for subtrees with the same Sh
	// kept: every entry an observer recorded, with the description taken when it was drained (C07 re-checks them)
	kept []keptEntry
}

func newWorld(atomics []int, cells []int) *world {
	w := &world{rec: &recorder{}, obs: map[int]*observer.ObservedLogs{}, rejected: []int{}}
	for _, t := range atomics {
		w.atomics = append(w.atomics, zap.NewAtomicLevelAt(zapcore.Level(t)))
	}
	for _, v := range cells {
		v := v
		w.cells = append(w.cells, &v)
	}
	return w
}

func (w *world) enabler(e *enabJ) zapcore.LevelEnabler {
	switch e.K {
	case "fn":
		e := *e
		return zap.LevelEnablerFunc(func(l zapcore.Level) bool { return fnOn(&e, int(l)) })
	case "lvl":
		return zapcore.Level(e.T)
	case "atomic":
		return w.atomics[e.I]
	}
	panic("enabler kind " + e.K)
}

func fnOn(e *enabJ, l int) bool {
	switch {
	case l < -1:
		return e.Lo
	case l > 5:
		return e.Hi
	}
	return e.Mask>>(uint(l+1))&1 == 1
}

func (w *world) field(f fldJ) zapcore.Field {
	switch f.Kind {
	case 1:
		return zap.Namespace("n" + strconv.Itoa(f.Key))
	case 2:
		return zap.Int("i"+strconv.Itoa(f.Key), f.Val)
	case 3:
		// values ≥ 1000 stand for LONG strings (1.5 KiB of padding): contexts that outgrow the 1 KiB pooled buffers. The padding
		// is stripped again wherever a value is described (c07Pad), so model and oracle see "v<val>".
		if f.Val >= 1000 {
			return zap.String("s"+strconv.Itoa(f.Key), "v"+strconv.Itoa(f.Val)+c07Pad)
		}
		if f.Val%2 == 1 {
			// every other short string travels as a zap.Stringer: the same text at the encoder, but a field the cores must
			// leave as it is in the caller's slice (C07:caller-slice-modified) — String() is called again on every use
			return zap.Stringer("s"+strconv.Itoa(f.Key), fixedStringer("v"+strconv.Itoa(f.Val)))
		}
		return zap.String("s"+strconv.Itoa(f.Key), "v"+strconv.Itoa(f.Val))
	}
	s := &spyObj{key: f.Key, rec: w.rec, ref: f.Ref}
	if f.Ref >= 0 {
		s.cell = w.cells[f.Ref]
	}
	return zap.Object("k"+strconv.Itoa(f.Key), s)
}

func (w *world) fields(fs []fldJ) []zapcore.Field {
	out := make([]zapcore.Field, 0, len(fs))
	for _, f := range fs {
		out = append(out, w.field(f))
	}
	return out
}

func jsonEnc() zapcore.Encoder {
	return zapcore.NewJSONEncoder(zapcore.EncoderConfig{MessageKey: "msg", NameKey: "logger", LineEnding: "\n"})
}

func (w *world) build(n *nodeJ) zapcore.Core {
	if n.Sh > 0 {
		if c, ok := w.shared[n.Sh]; ok {
			return c
		}
		m := *n
		m.Sh = 0
		c := w.build(&m)
		if w.shared == nil {
			w.shared = map[int]zapcore.Core{}
		}
		w.shared[n.Sh] = c
		return c
	}
	switch n.T {
	case "leaf":
		if n.IO {
			sink := &spySink{id: n.ID, rec: w.rec}
			if w.sinkFor != nil {
				sink.inner = w.sinkFor(n.ID)
			}
			if w.consoleMod4 && n.ID%4 == 3 {
				sink.console = true
				return zapcore.NewCore(zapcore.NewConsoleEncoder(zapcore.EncoderConfig{MessageKey: "msg", NameKey: "logger", LineEnding: "\n",
					EncodeName: zapcore.FullNameEncoder}), sink, w.enabler(n.En))
			}
			if w.bufferOdd && n.ID%2 == 1 {
				b := &zapcore.BufferedWriteSyncer{WS: sink, Size: 2, FlushInterval: time.Hour}
				w.buffered = append(w.buffered, b)
				return zapcore.NewCore(jsonEnc(), b, w.enabler(n.En))
			}
			return zapcore.NewCore(jsonEnc(), sink, w.enabler(n.En))
		}
		c, logs := observer.New(w.enabler(n.En))
		w.obs[n.ID] = logs
		return c
	case "nop":
		return zapcore.NewNopCore()
	case "tee":
		cs := make([]zapcore.Core, len(n.Cs))
		for i := range n.Cs {
			cs[i] = w.build(&n.Cs[i])
		}
		return zapcore.NewTee(cs...)
	case "incr":
		inner := w.build(n.C)
		c, err := zapcore.NewIncreaseLevelCore(inner, w.enabler(n.En))
		if err != nil {
			w.rejected = append(w.rejected, n.ID)
			return inner
		}
		return c
	case "hook":
		id := n.ID
		return zapcore.RegisterHooks(w.build(n.C), func(zapcore.Entry) error { w.rec.add("h" + strconv.Itoa(id)); return nil })
	case "samp":
		id := n.ID
		first := 0
		if n.Pass {
			first = 1 << 30
		}
		return zapcore.NewSamplerWithOptions(w.build(n.C), time.Hour, first, 0, zapcore.SamplerHook(func(_ zapcore.Entry, d zapcore.SamplingDecision) {
			if d&zapcore.LogSampled != 0 {
				w.rec.add("s" + strconv.Itoa(id) + "+")
			} else {
				w.rec.add("s" + strconv.Itoa(id) + "-")
			}
		}))
	case "lazy":
		return zapcore.NewLazyWith(w.build(n.C), w.fields(n.Fs))
	case "with":
		return w.build(n.C).With(w.fields(n.Fs))
	}
	panic("node type " + n.T)
}

// drainObs collects what the observer leaves recorded since the last drain: ["o<id>", "<logger>|<fields>"] sorted by id.
type keptEntry struct {
	leaf  int
	entry observer.LoggedEntry
	desc  string
}

// recheckKept: entries recorded earlier must still read the same (a later call must not overwrite them).
func (w *world) recheckKept() (leaf int, was, now string, ok bool) {
	for _, k := range w.kept {
		d := k.entry.LoggerName + "|" + strings.Join(describeFields(k.entry.Context), ",")
		if d != k.desc {
			return k.leaf, k.desc, d, false
		}
	}
	return 0, "", "", true
}

func (w *world) drainObs() [][]string {
	ids := make([]int, 0, len(w.obs))
	for id := range w.obs {
		ids = append(ids, id)
	}
	sort.Ints(ids)
	out := [][]string{}
	for _, id := range ids {
		for _, e := range w.obs[id].TakeAll() {
			d := e.LoggerName + "|" + strings.Join(describeFields(e.Context), ",")
			out = append(out, []string{"o" + strconv.Itoa(id), d})
			w.kept = append(w.kept, keptEntry{leaf: id, entry: e, desc: d})
		}
	}
	return out
}

// ---------------------------------------------------------------- front ends

type feSpec struct {
	recv, name string
	level      int  // fixed level; 99 = parameter
	fields     bool // can carry structured fields
	call       func(lg *zap.Logger, lvl zapcore.Level, msg string, fs []zap.Field)
}

func (f feSpec) key() string { return f.recv + "." + f.name }

var levelPrefix = []struct {
	p string
	l int
}{{"Debug", -1}, {"Info", 0}, {"Warning", 1}, {"Warn", 1}, {"Error", 2}, {"DPanic", 3}, {"Panic", 4}, {"Fatal", 5}, {"Print", 0}, {"Log", 99}, {"Check", 99}}

func prefixLevel(name string) int {
	for _, p := range levelPrefix {
		if strings.HasPrefix(name, p.p) {
			return p.l
		}
	}
	panic("no level prefix: " + name)
}

var (
	reLogger = regexp.MustCompile(`^(Debug|Info|Warn|Error|DPanic|Panic|Fatal|Log|Check)$`)
	reSugar  = regexp.MustCompile(`^(Debug|Info|Warn|Error|DPanic|Panic|Fatal|Log)(f|w|ln)?$`)
	reGrpc   = regexp.MustCompile(`^(Info|Warning|Error|Fatal|Print)(f|ln)?$`)
)

func methodNames(t reflect.Type, re *regexp.Regexp) []string {
	var out []string
	for i := 0; i < t.NumMethod(); i++ {
		if n := t.Method(i).Name; re.MatchString(n) {
			out = append(out, n)
		}
	}
	sort.Strings(out)
	return out
}

func reflectCall(obj any, name string, lvl *zapcore.Level, msg string, fs []zap.Field) []reflect.Value {
	m := reflect.ValueOf(obj).MethodByName(name)
	var args []reflect.Value
	if lvl != nil {
		args = append(args, reflect.ValueOf(*lvl))
	}
	args = append(args, reflect.ValueOf(msg))
	for _, f := range fs {
		args = append(args, reflect.ValueOf(f))
	}
	return m.Call(args)
}

var frontEndsOnce sync.Once
var frontEndList []feSpec
var frontEndMap = map[string]feSpec{}

// betweenCheckAndWrite, when set, runs after Logger.Check has returned a CheckedEntry and before its Write (the Check front
// end only): what was decided at Check must be written whatever happens to the levels in between.
var betweenCheckAndWrite func()

// allFrontEnds enumerates every exported log method of Logger, SugaredLogger, zapgrpc.Logger (by reflection) and
// the std-log bridge.
func allFrontEnds() []feSpec {
	frontEndsOnce.Do(func() {
		var out []feSpec
		for _, n := range methodNames(reflect.TypeOf(&zap.Logger{}), reLogger) {
			n := n
			lv := prefixLevel(n)
			out = append(out, feSpec{recv: "Logger", name: n, level: lv, fields: true, call: func(lg *zap.Logger, lvl zapcore.Level, msg string, fs []zap.Field) {
				var lp *zapcore.Level
				if lv == 99 {
					lp = &lvl
				}
				if n == "Check" {
					res := reflectCall(lg, n, lp, msg, nil)
					if ce := res[0].Interface().(*zapcore.CheckedEntry); ce != nil {
						if betweenCheckAndWrite != nil {
							betweenCheckAndWrite()
						}
						ce.Write(fs...)
					}
					return
				}
				reflectCall(lg, n, lp, msg, fs)
			}})
		}
		for _, n := range methodNames(reflect.TypeOf(&zap.SugaredLogger{}), reSugar) {
			n := n
			lv := prefixLevel(n)
			carries := strings.HasSuffix(n, "w")
			out = append(out, feSpec{recv: "SugaredLogger", name: n, level: lv, fields: carries, call: func(lg *zap.Logger, lvl zapcore.Level, msg string, fs []zap.Field) {
				var lp *zapcore.Level
				if lv == 99 {
					lp = &lvl
				}
				if !carries {
					fs = nil
				}
				reflectCall(lg.Sugar(), n, lp, msg, fs)
			}})
		}
		for _, variant := range []string{"", "WithDebug"} {
			for _, n := range methodNames(reflect.TypeOf(&zapgrpc.Logger{}), reGrpc) {
				n, variant := n, variant
				lv := prefixLevel(n)
				name := n
				if variant != "" {
					if !strings.HasPrefix(n, "Print") {
						continue
					}
					name, lv = n+"["+variant+"]", -1
				}
				out = append(out, feSpec{recv: "zapgrpc.Logger", name: name, level: lv, call: func(lg *zap.Logger, _ zapcore.Level, msg string, _ []zap.Field) {
					var opts []zapgrpc.Option
					if variant == "WithDebug" {
						opts = append(opts, zapgrpc.WithDebug())
					}
					reflectCall(zapgrpc.NewLogger(lg, opts...), n, nil, msg, nil)
				}})
			}
		}
		out = append(out, feSpec{recv: "stdlog", name: "NewStdLog", level: 0, call: func(lg *zap.Logger, _ zapcore.Level, msg string, _ []zap.Field) {
			zap.NewStdLog(lg).Print(msg)
		}})
		for _, l := range []struct {
			n string
			l zapcore.Level
		}{{"DebugLevel", -1}, {"InfoLevel", 0}, {"WarnLevel", 1}, {"ErrorLevel", 2}, {"DPanicLevel", 3}, {"PanicLevel", 4}, {"FatalLevel", 5}} {
			l := l
			out = append(out, feSpec{recv: "stdlog", name: "NewStdLogAt(" + l.n + ")", level: int(l.l), call: func(lg *zap.Logger, _ zapcore.Level, msg string, _ []zap.Field) {
				sl, err := zap.NewStdLogAt(lg, l.l)
				must(err)
				sl.Print(msg)
			}})
		}
		frontEndList = out
		for _, f := range out {
			frontEndMap[f.key()] = f
		}
	})
	return frontEndList
}

// ---------------------------------------------------------------- independent specification: path products

type specStore struct {
	atomics []int
}

func (s *specStore) on(e *enabJ, l int) bool {
	switch e.K {
	case "fn":
		return fnOn(e, l)
	case "lvl":
		return l >= e.T
	case "atomic":
		return l >= s.atomics[e.I]
	}
	panic("enabler kind")
}

type specPath struct {
	leaf   int
	io     bool
	levels []*enabJ // level filters on the path (own enabler and every effective IncreaseLevel)
	incrs  []int    // ids of the IncreaseLevel wrappers on the path
	drops  bool     // a dropping sampler lies on the path
	hooks  []int    // entry hooks whose wrapped core contains the leaf
	hookNs []*nodeJ // the hook NODES (two nodes may carry one id when a shared parent core is wrapped by siblings)
	samps  []int
	lazies []int
}

// specPaths lists every leaf with what lies on its path; rejected IncreaseLevel wrappers are transparent.
func specPaths(n *nodeJ, rejected map[int]bool) []specPath {
	switch n.T {
	case "leaf":
		return []specPath{{leaf: n.ID, io: n.IO, levels: []*enabJ{n.En}}}
	case "nop":
		return nil
	case "tee":
		var out []specPath
		for i := range n.Cs {
			out = append(out, specPaths(&n.Cs[i], rejected)...)
		}
		return out
	}
	ps := specPaths(n.C, rejected)
	for i := range ps {
		switch n.T {
		case "incr":
			if !rejected[n.ID] {
				ps[i].levels = append([]*enabJ{n.En}, ps[i].levels...)
				ps[i].incrs = append(ps[i].incrs, n.ID)
			}
		case "hook":
			ps[i].hooks = append(ps[i].hooks, n.ID)
			ps[i].hookNs = append(ps[i].hookNs, n)
		case "samp":
			ps[i].samps = append(ps[i].samps, n.ID)
			if !n.Pass {
				ps[i].drops = true
			}
		case "lazy":
			ps[i].lazies = append(ps[i].lazies, n.ID)
		}
	}
	return ps
}

func (s *specStore) levelOpen(p *specPath, l int) bool {
	for _, e := range p.levels {
		if !s.on(e, l) {
			return false
		}
	}
	return true
}

func treeStats(n *nodeJ) (depth int, kinds map[string]bool) {
	kinds = map[string]bool{}
	var rec func(n *nodeJ) int
	rec = func(n *nodeJ) int {
		kinds[n.T] = true
		d := 0
		if n.C != nil {
			d = rec(n.C)
		}
		for i := range n.Cs {
			if x := rec(&n.Cs[i]); x > d {
				d = x
			}
		}
		return d + 1
	}
	return rec(n), kinds
}

func kindsString(k map[string]bool) string {
	var ks []string
	for x := range k {
		if x != "leaf" {
			ks = append(ks, x)
		}
	}
	sort.Strings(ks)
	return strings.Join(ks, "+")
}
