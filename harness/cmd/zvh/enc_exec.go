package main

import (
	"bytes"
	"encoding/json"
	"errors"
	"fmt"
	"io"
	"math"
	"strconv"
	"time"

	"go.uber.org/zap"
	"go.uber.org/zap/zapcore"
)

// ---- scripted user types -------------------------------------------------------------------------------

type scriptObj struct {
	calls []encCall
	err   *string
}

type scriptArr struct {
	calls []encCall
	err   *string
}

func retErr(e *string) error {
	if e == nil {
		return nil
	}
	return errors.New(string(unhx(*e)))
}

var unencodable = make(chan int)

// nilSafeObj: an "optional" object (protobuf style): a nil pointer marshals as {"nil":"yes"}
type nilSafeObj struct{ v int }

func (o *nilSafeObj) MarshalLogObject(enc zapcore.ObjectEncoder) error {
	if o == nil {
		enc.AddString("nil", "yes")
		return nil
	}
	enc.AddInt("v", o.v)
	return nil
}

// isNilSafeObj recognises the obj field the generator emits for it: exactly one call add("nil","yes") and no error
func isNilSafeObj(f encField) bool {
	if f.Err != nil || len(f.Calls) != 1 {
		return false
	}
	c := f.Calls[0]
	return c.M == "add" && c.Key == hx([]byte("nil")) && c.P != nil && c.P.S != nil && *c.P.S == hx([]byte("yes"))
}

// reflValue builds the Go value handed to zap.Reflect / AddReflected for a reflected leaf. Healthy and failing values
// deliberately SHARE static types ([]interface{}, map[string]interface{}): whether a value encodes depends on what is
// behind the interfaces, never on the static type of the container.
//
// The choice is a function of the leaf (no shared counter: ops are replayed concurrently by C08). reflRawOnly is set by the
// MapObjectEncoder comparison only (single-threaded): the map encoder stores reflected values as they are, so a container
// there would be indistinguishable from a nested object.
var reflRawOnly bool

func reflValue(j *string, salt int) any {
	if j == nil {
		if reflRawOnly {
			return unencodable
		}
		switch salt % 3 {
		case 1:
			return []interface{}{unencodable}
		case 2:
			return map[string]interface{}{"c": unencodable}
		}
		return unencodable
	}
	raw := json.RawMessage(unhx(*j))
	if reflRawOnly || (len(raw)+salt)%2 == 0 {
		return raw
	}
	// the same JSON as a container of raw members — only when encoding/json reproduces the text byte for byte
	var out any
	switch {
	case len(raw) > 1 && raw[0] == '[':
		var elems []json.RawMessage
		if json.Unmarshal(raw, &elems) != nil {
			return raw
		}
		xs := make([]interface{}, len(elems))
		for i, e := range elems {
			xs[i] = e
		}
		out = xs
	case len(raw) > 1 && raw[0] == '{':
		var m map[string]json.RawMessage
		if json.Unmarshal(raw, &m) != nil {
			return raw
		}
		mm := make(map[string]interface{}, len(m))
		for k, v := range m {
			mm[k] = v
		}
		out = mm
	default:
		return raw
	}
	var buf bytes.Buffer
	enc := json.NewEncoder(&buf)
	enc.SetEscapeHTML(false)
	if enc.Encode(out) != nil || !bytes.Equal(bytes.TrimSuffix(buf.Bytes(), []byte("\n")), raw) {
		return raw
	}
	return out
}

func pInt(s string) int64        { v, err := strconv.ParseInt(s, 10, 64); must(err); return v }
func pUint(s string) uint64      { v, err := strconv.ParseUint(s, 10, 64); must(err); return v }
func (f *encFloat) f64() float64 { return math.Float64frombits(pUint(f.Bits)) }
func (f *encFloat) f32() float32 { return math.Float32frombits(uint32(pUint(f.Bits))) }
func (c *encComplex) c128() complex128 {
	return complex(math.Float64frombits(pUint(c.RBits)), math.Float64frombits(pUint(c.IBits)))
}

func (o scriptObj) MarshalLogObject(enc zapcore.ObjectEncoder) error {
	for _, c := range o.calls {
		key := string(unhx(c.Key))
		switch c.M {
		case "add":
			p := c.P
			switch {
			case p.S != nil:
				enc.AddString(key, string(unhx(*p.S)))
			case p.BS != nil:
				enc.AddByteString(key, unhx(*p.BS))
			case p.I != nil:
				enc.AddInt64(key, pInt(*p.I))
			case p.U != nil:
				enc.AddUint64(key, pUint(*p.U))
			case p.B != nil:
				enc.AddBool(key, *p.B)
			case p.F != nil && p.F.Size == 64:
				enc.AddFloat64(key, p.F.f64())
			case p.F != nil:
				enc.AddFloat32(key, p.F.f32())
			case p.C != nil && p.C.Size == 128:
				enc.AddComplex128(key, p.C.c128())
			case p.C != nil:
				enc.AddComplex64(key, complex64(p.C.c128()))
			case p.T != nil:
				enc.AddTime(key, p.T.goTime())
			case p.D != nil:
				enc.AddDuration(key, time.Duration(pInt(p.D.Nanos)))
			case p.J != nil:
				_ = enc.AddReflected(key, json.RawMessage(unhx(*p.J)))
			}
		case "obj":
			_ = enc.AddObject(key, scriptObj{calls: c.Calls})
		case "arr":
			_ = enc.AddArray(key, scriptArr{calls: c.Calls})
		case "ns":
			enc.OpenNamespace(key)
		case "refl":
			_ = enc.AddReflected(key, reflValue(c.J, len(key)))
		}
	}
	return retErr(o.err)
}

func (a scriptArr) MarshalLogArray(enc zapcore.ArrayEncoder) error {
	for _, c := range a.calls {
		switch c.M {
		case "app":
			p := c.P
			switch {
			case p.S != nil:
				enc.AppendString(string(unhx(*p.S)))
			case p.BS != nil:
				enc.AppendByteString(unhx(*p.BS))
			case p.I != nil:
				enc.AppendInt64(pInt(*p.I))
			case p.U != nil:
				enc.AppendUint64(pUint(*p.U))
			case p.B != nil:
				enc.AppendBool(*p.B)
			case p.F != nil && p.F.Size == 64:
				enc.AppendFloat64(p.F.f64())
			case p.F != nil:
				enc.AppendFloat32(p.F.f32())
			case p.C != nil && p.C.Size == 128:
				enc.AppendComplex128(p.C.c128())
			case p.C != nil:
				enc.AppendComplex64(complex64(p.C.c128()))
			case p.T != nil:
				enc.AppendTime(p.T.goTime())
			case p.D != nil:
				enc.AppendDuration(time.Duration(pInt(p.D.Nanos)))
			case p.J != nil:
				_ = enc.AppendReflected(json.RawMessage(unhx(*p.J)))
			}
		case "obj":
			_ = enc.AppendObject(scriptObj{calls: c.Calls})
		case "arr":
			_ = enc.AppendArray(scriptArr{calls: c.Calls})
		case "refl":
			_ = enc.AppendReflected(reflValue(c.J, 1))
		}
	}
	return retErr(a.err)
}

// Stringers / errors with scripted outcomes.
type okStringer string

func (s okStringer) String() string { return string(s) }

type ptrStringer struct{ s string }

func (p *ptrStringer) String() string { return p.s } // nil receiver ⇒ nil dereference

type panicStringer string

func (p panicStringer) String() string { panic(string(p)) }

type scriptErr struct {
	msg string
}

func (e scriptErr) Error() string { return e.msg }

type ptrErr struct{ s string }

func (p *ptrErr) Error() string { return p.s }

type panicErr string

func (p panicErr) Error() string { panic(string(p)) }

type verboseErr struct {
	msg, verbose string
}

func (e verboseErr) Error() string { return e.msg }
func (e verboseErr) Format(f fmt.State, _ rune) {
	_, _ = f.Write([]byte(e.verbose))
}

type groupErr struct {
	msg    string
	causes []error
}

func (e groupErr) Error() string   { return e.msg }
func (e groupErr) Errors() []error { return e.causes }

// verbose + group: errorGroup wins in encodeError
type groupVerboseErr struct {
	groupErr
	verbose string
}

func (e groupVerboseErr) Format(f fmt.State, _ rune) { _, _ = f.Write([]byte(e.verbose)) }

func buildErr(e encErrV) error {
	switch {
	case e.O.Nil:
		return (*ptrErr)(nil)
	case e.O.Panic != nil:
		return panicErr(unhx(*e.O.Panic))
	}
	msg := string(unhx(*e.O.OK))
	if e.Group {
		g := groupErr{msg: msg}
		for _, c := range e.Causes {
			g.causes = append(g.causes, buildErr(c))
		}
		if e.Verbose != nil {
			return groupVerboseErr{g, string(unhx(*e.Verbose))}
		}
		return g
	}
	if e.Verbose != nil {
		return verboseErr{msg, string(unhx(*e.Verbose))}
	}
	return scriptErr{msg}
}

const nilIfaceStringerPanic = "interface conversion: interface is nil, not fmt.Stringer"

func buildStringer(o encOutcome) fmt.Stringer {
	switch {
	case o.Nil:
		return (*ptrStringer)(nil)
	case o.Panic != nil:
		return panicStringer(unhx(*o.Panic))
	}
	return okStringer(unhx(*o.OK))
}

func buildField(f encField) zapcore.Field {
	key := string(unhx(f.Key))
	switch f.F {
	case "prim":
		p := f.P
		switch {
		case f.Bin != nil:
			return zap.Binary(key, unhx(*f.Bin))
		case p.S != nil:
			return zap.String(key, string(unhx(*p.S)))
		case p.BS != nil:
			return zap.ByteString(key, unhx(*p.BS))
		case p.I != nil:
			return zap.Int64(key, pInt(*p.I))
		case p.U != nil:
			return zap.Uint64(key, pUint(*p.U))
		case p.B != nil:
			return zap.Bool(key, *p.B)
		case p.F != nil && p.F.Size == 64:
			return zap.Float64(key, p.F.f64())
		case p.F != nil:
			return zap.Float32(key, p.F.f32())
		case p.C != nil && p.C.Size == 128:
			return zap.Complex128(key, p.C.c128())
		case p.C != nil:
			return zap.Complex64(key, complex64(p.C.c128()))
		case p.T != nil:
			return zap.Time(key, p.T.goTime())
		case p.D != nil:
			return zap.Duration(key, time.Duration(pInt(p.D.Nanos)))
		case p.J != nil:
			return zap.Reflect(key, json.RawMessage(unhx(*p.J)))
		}
	case "obj":
		if isNilSafeObj(f) {
			// a typed nil pointer whose MarshalLogObject tolerates the nil receiver: the marshaler must still be CALLED
			return zap.Object(key, (*nilSafeObj)(nil))
		}
		return zap.Object(key, scriptObj{f.Calls, f.Err})
	case "arr":
		return zap.Array(key, scriptArr{f.Calls, f.Err})
	case "inline":
		return zap.Inline(scriptObj{f.Calls, f.Err})
	case "dict":
		fs := make([]zapcore.Field, len(f.Fields))
		for i := range f.Fields {
			fs[i] = buildField(f.Fields[i])
		}
		return zap.Dict(key, fs...)
	case "errors":
		es := make([]error, len(f.Errs))
		for i := range f.Errs {
			es[i] = buildErr(f.Errs[i])
		}
		return zap.Errors(key, es)
	case "refl":
		return zap.Reflect(key, reflValue(f.J, len(key)))
	case "stringer":
		if f.O.Panic != nil && string(unhx(*f.O.Panic)) == nilIfaceStringerPanic {
			// the nil INTERFACE value as a Stringer field: the type assertion inside zap panics with exactly this text, so for
			// the model it is one more panicking Stringer
			return zap.Stringer(key, nil)
		}
		return zap.Stringer(key, buildStringer(*f.O))
	case "error":
		return zap.NamedError(key, buildErr(*f.E))
	case "ns":
		return zap.Namespace(key)
	case "skip":
		return zap.Skip()
	}
	panic("bad field " + f.F)
}

func buildFields(fs []encField) []zapcore.Field {
	out := make([]zapcore.Field, len(fs))
	for i := range fs {
		out[i] = buildField(fs[i])
	}
	return out
}

func buildEntry(e encEnt) zapcore.Entry {
	return zapcore.Entry{Level: zapcore.Level(e.Level), Time: e.Time.goTime(), LoggerName: string(unhx(e.Name)),
		Message: string(unhx(e.Msg)), Caller: e.Caller.goCaller(), Stack: string(unhx(e.Stack))}
}

type captureSink struct {
	writes [][]byte
	before func() // called on entry to Write, before p is looked at
}

func (c *captureSink) Write(p []byte) (int, error) {
	if c.before != nil {
		c.before()
	}
	c.writes = append(c.writes, append([]byte(nil), p...))
	return len(p), nil
}
func (c *captureSink) Sync() error { return nil }

// encRun pushes the op through the real code path: NewCore(encoder, sink).With(ctx…).Write(entry, fields).
// A panic escaping the log call is returned as panicMsg.
func encRun(op *encOp) (line []byte, nWrites int, panicMsg string) {
	cfg := buildConfig(op.Cfg)
	var enc zapcore.Encoder
	if op.Console {
		enc = zapcore.NewConsoleEncoder(cfg)
	} else {
		enc = zapcore.NewJSONEncoder(cfg)
	}
	sink := &captureSink{}
	defer func() {
		if e := recover(); e != nil {
			panicMsg = "panic: " + fmt.Sprint(e)
		}
	}()
	if op.Reentrant {
		// a sink that itself logs (through another core sharing the encoder and buffer pools) before it consumes
		// its argument: the line handed to the sink must not be disturbed by that
		inner := zapcore.NewCore(zapcore.NewJSONEncoder(zap.NewProductionEncoderConfig()), zapcore.AddSync(io.Discard), zapcore.Level(-128))
		sink.before = func() {
			for i := 0; i < 3; i++ {
				_ = inner.Write(zapcore.Entry{Message: "diagnostic from inside the sink, long enough to overwrite a recycled buffer ........................................"},
					[]zapcore.Field{zap.String("k", "vvvvvvvvvvvvvvvvvvvvvvvvvvvvvvvvvvvvvvvvvvvvvvvvvvvvvvvvvvvvvvvvvvvvvvvvvvvvvvvvvvvvvv"), zap.Int("n", i)})
			}
		}
	}
	core := zapcore.NewCore(enc, sink, zapcore.Level(-128))
	for _, c := range op.Ctx {
		core = core.With(buildFields(c))
	}
	_ = core.Write(buildEntry(op.Ent), buildFields(op.Fields))
	for _, w := range sink.writes {
		line = append(line, w...)
	}
	return line, len(sink.writes), ""
}
