package main

import (
	"bytes"
	"encoding/base64"
	"encoding/json"
	"fmt"
	"math"
	"strconv"
	"time"

	"go.uber.org/zap/zapcore"
)

// ---- runtime view of a generated encoder configuration -------------------------------------------------

func noopLevel(zapcore.Level, zapcore.PrimitiveArrayEncoder)        {}
func noopTime(time.Time, zapcore.PrimitiveArrayEncoder)             {}
func noopDur(time.Duration, zapcore.PrimitiveArrayEncoder)          {}
func noopCaller(zapcore.EntryCaller, zapcore.PrimitiveArrayEncoder) {}
func noopName(string, zapcore.PrimitiveArrayEncoder)                {}

func buildConfig(c encCfg) zapcore.EncoderConfig {
	cfg := zapcore.EncoderConfig{
		MessageKey: string(unhx(c.MK)), LevelKey: string(unhx(c.LK)), TimeKey: string(unhx(c.TK)), NameKey: string(unhx(c.NK)),
		CallerKey: string(unhx(c.CK)), FunctionKey: string(unhx(c.FK)), StacktraceKey: string(unhx(c.SK)),
		LineEnding: string(unhx(c.LE)), SkipLineEnding: c.SkipLE, ConsoleSeparator: string(unhx(c.Sep)),
	}
	switch c.LvlEnc {
	case "noop":
		cfg.EncodeLevel = noopLevel
	case "lower":
		cfg.EncodeLevel = zapcore.LowercaseLevelEncoder
	case "capital":
		cfg.EncodeLevel = zapcore.CapitalLevelEncoder
	case "color":
		cfg.EncodeLevel = zapcore.LowercaseColorLevelEncoder
	case "capitalColor":
		cfg.EncodeLevel = zapcore.CapitalColorLevelEncoder
	}
	switch c.TimeEnc {
	case "noop":
		cfg.EncodeTime = noopTime
	case "epoch":
		cfg.EncodeTime = zapcore.EpochTimeEncoder
	case "millis":
		cfg.EncodeTime = zapcore.EpochMillisTimeEncoder
	case "nanos":
		cfg.EncodeTime = zapcore.EpochNanosTimeEncoder
	case "iso8601":
		cfg.EncodeTime = zapcore.ISO8601TimeEncoder
	case "rfc3339":
		cfg.EncodeTime = zapcore.RFC3339TimeEncoder
	case "rfc3339nano":
		cfg.EncodeTime = zapcore.RFC3339NanoTimeEncoder
	case "layout":
		cfg.EncodeTime = zapcore.TimeEncoderOfLayout(string(unhx(c.Layout)))
	}
	switch c.DurEnc {
	case "noop":
		cfg.EncodeDuration = noopDur
	case "secs":
		cfg.EncodeDuration = zapcore.SecondsDurationEncoder
	case "nanos":
		cfg.EncodeDuration = zapcore.NanosDurationEncoder
	case "millis":
		cfg.EncodeDuration = zapcore.MillisDurationEncoder
	case "string":
		cfg.EncodeDuration = zapcore.StringDurationEncoder
	}
	switch c.CallerEnc {
	case "noop":
		cfg.EncodeCaller = noopCaller
	case "full":
		cfg.EncodeCaller = zapcore.FullCallerEncoder
	case "short":
		cfg.EncodeCaller = zapcore.ShortCallerEncoder
	}
	switch c.NameEnc {
	case "noop":
		cfg.EncodeName = noopName
	case "full":
		cfg.EncodeName = zapcore.FullNameEncoder
	}
	return cfg
}

// subRec records what a sub-encoder function appended.
type subRec struct {
	prims []*encPrim
	raw   []any
}

func (r *subRec) add(p *encPrim, raw any)       { r.prims = append(r.prims, p); r.raw = append(r.raw, raw) }
func (r *subRec) AppendBool(v bool)             { r.add(&encPrim{B: &v}, v) }
func (r *subRec) AppendByteString(v []byte)     { s := hx(v); r.add(&encPrim{BS: &s}, v) }
func (r *subRec) AppendComplex128(v complex128) { r.add(mkComplex(v, 128), v) }
func (r *subRec) AppendComplex64(v complex64)   { r.add(mkComplex(complex128(v), 64), v) }
func (r *subRec) AppendFloat64(v float64)       { r.add(mkFloat64(v), v) }
func (r *subRec) AppendFloat32(v float32)       { r.add(mkFloat32(v), v) }
func (r *subRec) AppendInt(v int)               { r.add(mkInt(int64(v)), v) }
func (r *subRec) AppendInt64(v int64)           { r.add(mkInt(v), v) }
func (r *subRec) AppendInt32(v int32)           { r.add(mkInt(int64(v)), v) }
func (r *subRec) AppendInt16(v int16)           { r.add(mkInt(int64(v)), v) }
func (r *subRec) AppendInt8(v int8)             { r.add(mkInt(int64(v)), v) }
func (r *subRec) AppendString(v string)         { s := hx([]byte(v)); r.add(&encPrim{S: &s}, v) }
func (r *subRec) AppendUint(v uint)             { r.add(mkUint(uint64(v)), v) }
func (r *subRec) AppendUint64(v uint64)         { r.add(mkUint(v), v) }
func (r *subRec) AppendUint32(v uint32)         { r.add(mkUint(uint64(v)), v) }
func (r *subRec) AppendUint16(v uint16)         { r.add(mkUint(uint64(v)), v) }
func (r *subRec) AppendUint8(v uint8)           { r.add(mkUint(uint64(v)), v) }
func (r *subRec) AppendUintptr(v uintptr)       { r.add(mkUint(uint64(v)), v) }

func (r *subRec) one() (*encPrim, *string) {
	if len(r.prims) == 0 {
		return nil, nil
	}
	if len(r.prims) > 1 {
		panic("a built-in sub-encoder made more than one append")
	}
	c := hx([]byte(fmt.Sprint(r.raw[0])))
	return r.prims[0], &c
}

func mkInt(v int64) *encPrim   { s := strconv.FormatInt(v, 10); return &encPrim{I: &s} }
func mkUint(v uint64) *encPrim { s := strconv.FormatUint(v, 10); return &encPrim{U: &s} }
func mkStr(b []byte) *encPrim  { s := hx(b); return &encPrim{S: &s} }

func floatTxt(v float64, size int) string { return hx(strconv.AppendFloat(nil, v, 'f', -1, size)) }

func mkFloat64(v float64) *encPrim {
	f := &encFloat{NaN: math.IsNaN(v), Txt: floatTxt(v, 64), Bits: strconv.FormatUint(math.Float64bits(v), 10), Size: 64}
	if math.IsInf(v, 1) {
		f.Inf = 1
	} else if math.IsInf(v, -1) {
		f.Inf = -1
	}
	return &encPrim{F: f}
}

func mkFloat32(v float32) *encPrim {
	f := &encFloat{NaN: v != v, Txt: floatTxt(float64(v), 32), Bits: strconv.FormatUint(uint64(math.Float32bits(v)), 10), Size: 32}
	if math.IsInf(float64(v), 1) {
		f.Inf = 1
	} else if math.IsInf(float64(v), -1) {
		f.Inf = -1
	}
	return &encPrim{F: f}
}

func mkComplex(v complex128, size int) *encPrim {
	prec := 64
	if size == 64 {
		prec = 32
	}
	r, i := real(v), imag(v)
	return &encPrim{C: &encComplex{Re: floatTxt(r, prec), Im: floatTxt(i, prec), Plus: i >= 0,
		RBits: strconv.FormatUint(math.Float64bits(r), 10), IBits: strconv.FormatUint(math.Float64bits(i), 10), Size: size}}
}

func (t encTime) goTime() time.Time {
	if t.Zero {
		return time.Time{}
	}
	sec, _ := strconv.ParseInt(t.Sec, 10, 64)
	tm := time.Unix(sec, int64(t.Nsec))
	if t.Zoff == 0 && t.Zname == "" {
		return tm.UTC()
	}
	name := "Z"
	if t.Zname != "" {
		name = string(unhx(t.Zname))
	}
	return tm.In(time.FixedZone(name, t.Zoff))
}

// ---- generator -----------------------------------------------------------------------------------------

type encGen struct {
	r       *Rand
	cfg     encCfg
	rt      zapcore.EncoderConfig
	hostile bool // keys/strings from the hostile alphabet
	faults  int  // per-mille probability of injecting a failure at a position
	depth   int
}

var hostileStrs = [][]byte{{}, []byte(`"`), []byte(`\`), []byte("\n"), []byte("\r\n\t"), {0}, {0x1f}, {0x7f}, {0xff}, {0xc0, 0x80}, {0xed, 0xa0, 0x80},
	{0xf4, 0x90, 0x80, 0x80}, {0xe2, 0x82}, []byte("é"), []byte("€"), []byte("𝄞"), []byte(" "), []byte(`</script>&`), []byte(`a"b\c`), []byte("{[:, "),
	[]byte("}"), []byte("]"), []byte(","), []byte(":"), []byte(" "), []byte("null"), []byte("\x1b[31m"), {0xef, 0xbf, 0xbd}, {0xf0, 0x9f}, []byte("\\u0000")}

func (g *encGen) str() []byte {
	r := g.r
	if g.hostile && r.Chance(1, 2) {
		b := append([]byte(nil), Pick(r, hostileStrs)...)
		if r.Chance(1, 3) {
			b = append(b, Pick(r, hostileStrs)...)
		}
		if r.Chance(1, 4) {
			b = append(r.Bytes(4), b...)
		}
		return b
	}
	switch r.Intn(8) {
	case 0:
		return []byte{}
	case 1:
		return r.Bytes(10)
	default:
		n := 1 + r.Intn(8)
		b := make([]byte, n)
		for i := range b {
			b[i] = byte('a' + r.Intn(26))
		}
		return b
	}
}

func (g *encGen) key() string {
	r := g.r
	if r.Chance(1, 12) {
		return "" // empty key
	}
	if r.Chance(1, 6) {
		return hx([]byte(Pick(r, []string{"k", "a", "msg", "level", "ts", "error", "dup"}))) // duplicates / clashes with metadata keys
	}
	return hx(g.str())
}

var boundaryInts = []int64{0, 1, -1, math.MaxInt64, math.MinInt64, math.MaxInt32, math.MinInt32, 1 << 53, -(1 << 53), 9007199254740993, 127, -128, 255, 65535, 1e18}
var boundaryFloats = []float64{0, math.Copysign(0, -1), 1, -1, 0.1, 1e21, 1e-7, 1e300, 5e-324, math.MaxFloat64, math.SmallestNonzeroFloat64, math.Pi, 1 << 53, 123456789.125,
	math.NaN(), math.Inf(1), math.Inf(-1), math.Float64frombits(0x7ff8000000000001), math.Float64frombits(0xfff0000000000001)}

func (g *encGen) timeVal() *encTime {
	r := g.r
	var t time.Time
	switch r.Intn(10) {
	case 0:
		t = time.Unix(0, 0)
	case 1:
		t = time.Unix(0, math.MaxInt64)
	case 2:
		t = time.Unix(0, math.MinInt64)
	case 3:
		t = time.Date(1, 1, 1, 0, 0, 0, 1, time.UTC) // just after the zero time
	case 4:
		t = time.Date(9999, 12, 31, 23, 59, 59, 999999999, time.UTC)
	case 5:
		t = time.Unix(int64(r.Intn(1<<31))-(1<<30), int64(r.Intn(1e9))) // around and before the epoch
	case 6:
		t = time.Date(2500+r.Intn(300), 1, 1, 0, 0, 0, 0, time.UTC) // beyond the int64-nanosecond range
	default:
		t = time.Unix(1500000000+int64(r.Intn(3e8)), int64(r.Intn(1e9)))
	}
	zoff := Pick(r, []int{0, 0, 0, 3600, -5 * 3600, 19800, 45 * 60, -12 * 3600})
	et := &encTime{Nanos: strconv.FormatInt(t.UnixNano(), 10), Sec: strconv.FormatInt(t.Unix(), 10), Nsec: t.Nanosecond(), Zoff: zoff}
	if r.Chance(1, 4) { // zone abbreviations are arbitrary strings and are copied verbatim by the MST layout verb
		et.Zname = hx(Pick(r, [][]byte{[]byte("CET"), []byte("A\"B"), []byte("x\\y"), []byte("L\nF"), {0xff, 'Z'}, []byte("é"), []byte("\x01")}))
	}
	if g.rt.EncodeTime != nil {
		rec := &subRec{}
		g.rt.EncodeTime(et.goTime(), rec)
		et.V, _ = rec.one()
	}
	return et
}

// boundaryDurs: every unit boundary of time.Duration.String (ns/µs/ms/s, minutes, hours, the largest hour count), the
// truncation boundaries of MillisDurationEncoder on both sides of zero, trailing-zero trimming, and the int64 extremes.
var boundaryDurs = []int64{0, 1, -1, 9, 10, 999, 1000, 1001, 1010, 1100, 999999, 1000000, 1000001, 1500000, 999999999, 1000000000, 1000000001,
	1500 * 1e6, 1e9 + 1e8, 59999999999, 60 * 1e9, 60*1e9 + 1, 61 * 1e9, 3599999999999, 3600 * 1e9, 3600*1e9 + 1, 3661 * 1e9, 86400 * 1e9,
	2540400 * 3600 * 1e9, 2540400*3600*1e9 + 10*60*1e9 + 10*1e9, math.MaxInt64, math.MaxInt64 - 1, math.MinInt64, math.MinInt64 + 1,
	-999, -1000, -999999, -1000000, -1000001, -1500000, -1999999, -2000000, -499999, -500000, -500001, 499999, 500000, 500001, 1999999, 2000000,
	-1e9, -999999999, -60 * 1e9, -3600 * 1e9, -3661*1e9 - 1, 100 * 1e9, 120 * 1e9, 1e9 + 1e6, 1e9 + 1e3, 7200 * 1e9, 1e6 + 1e3, 1e6 + 100, 1e3 + 100,
	123456789, 12345678, 1234567, 123456, 12345, 1234, 123456789012, 100000000, 10000000, 1e18, -1e18}

func (g *encGen) durOf(d int64) *encDur {
	ed := &encDur{Nanos: strconv.FormatInt(d, 10)}
	if g.rt.EncodeDuration != nil {
		rec := &subRec{}
		g.rt.EncodeDuration(time.Duration(d), rec)
		ed.V, _ = rec.one()
	}
	return ed
}

func (g *encGen) durVal() *encDur {
	r := g.r
	var d int64
	switch r.Intn(4) {
	case 0:
		d = Pick(r, boundaryDurs)
	case 1: // a boundary ± a small offset
		d = Pick(r, boundaryDurs)
		off := int64(r.Intn(5)) - 2
		if (off > 0 && d <= math.MaxInt64-off) || (off < 0 && d >= math.MinInt64-off) {
			d += off
		}
	default: // every magnitude: random bit length, random sign
		d = int64(r.U64() >> uint(1+r.Intn(63)))
		if r.Bool() {
			d = -d
		}
	}
	return g.durOf(d)
}

// jsonValue draws a random reflect-encodable value and returns its encoding/json text.
func (g *encGen) jsonValue() []byte {
	r := g.r
	var mk func(d int) any
	mk = func(d int) any {
		switch r.Intn(9) {
		case 0:
			return nil
		case 1:
			return r.Bool()
		case 2:
			return Pick(r, boundaryInts)
		case 3:
			f := Pick(r, boundaryFloats)
			if math.IsNaN(f) || math.IsInf(f, 0) {
				f = 1.5
			}
			return f
		case 4:
			return string(g.str())
		case 5:
			if d <= 0 {
				return []any{}
			}
			n := r.Intn(3)
			a := make([]any, n)
			for i := range a {
				a[i] = mk(d - 1)
			}
			return a
		case 6:
			if d <= 0 {
				return map[string]any{}
			}
			m := map[string]any{}
			for i := r.Intn(3); i > 0; i-- {
				m[string(g.str())] = mk(d - 1)
			}
			return m
		case 7:
			return struct {
				A int    `json:"a"`
				B string `json:"b,omitempty"`
			}{r.Intn(100), string(g.str())}
		default:
			return string(g.str())
		}
	}
	var buf bytes.Buffer
	enc := json.NewEncoder(&buf)
	enc.SetEscapeHTML(false)
	must(enc.Encode(mk(2)))
	return bytes.TrimSuffix(buf.Bytes(), []byte("\n"))
}

func (g *encGen) prim() *encPrim {
	r := g.r
	switch r.Intn(16) {
	case 0, 1, 2:
		return mkStr(g.str())
	case 3:
		s := hx(g.str())
		return &encPrim{BS: &s}
	case 4, 5:
		if r.Chance(1, 2) {
			return mkInt(Pick(r, boundaryInts))
		}
		return mkInt(int64(r.U64()))
	case 6:
		if r.Chance(1, 2) {
			return mkUint(Pick(r, []uint64{0, 1, math.MaxUint64, 1 << 63, math.MaxUint32, 1<<53 + 1}))
		}
		return mkUint(r.U64())
	case 7:
		b := r.Bool()
		return &encPrim{B: &b}
	case 8, 9:
		if r.Chance(2, 3) {
			return mkFloat64(Pick(r, boundaryFloats))
		}
		return mkFloat64(math.Float64frombits(r.U64()))
	case 10:
		if r.Chance(1, 2) {
			return mkFloat32(float32(Pick(r, boundaryFloats)))
		}
		return mkFloat32(math.Float32frombits(uint32(r.U64())))
	case 11:
		re, im := Pick(r, boundaryFloats), Pick(r, boundaryFloats)
		if r.Bool() {
			return mkComplex(complex(re, im), 128)
		}
		return mkComplex(complex128(complex64(complex(re, im))), 64)
	case 12:
		return &encPrim{T: g.timeVal()}
	case 13:
		return &encPrim{D: g.durVal()}
	case 14:
		j := hx(g.jsonValue())
		return &encPrim{J: &j}
	default:
		return mkStr(g.str())
	}
}

var unencodableErr = func() string {
	_, err := json.Marshal(make(chan int))
	return err.Error()
}()

func (g *encGen) fault() bool { return g.faults > 0 && g.r.Intn(1000) < g.faults }

func (g *encGen) ocalls(d int) []encCall {
	r := g.r
	n := r.Intn(4)
	if d <= 0 {
		n = r.Intn(3)
	}
	out := []encCall{}
	for i := 0; i < n; i++ {
		switch k := r.Intn(10); {
		case k < 5 || d <= 0:
			out = append(out, encCall{M: "add", Key: g.key(), P: g.prim(), Calls: []encCall{}})
		case k == 5:
			out = append(out, encCall{M: "obj", Key: g.key(), Calls: g.ocalls(d - 1)})
		case k == 6:
			out = append(out, encCall{M: "arr", Key: g.key(), Calls: g.acalls(d - 1)})
		case k == 7:
			out = append(out, encCall{M: "ns", Key: g.key(), Calls: []encCall{}})
		case k == 8:
			c := encCall{M: "refl", Key: g.key(), Calls: []encCall{}}
			if !g.fault() && r.Chance(2, 3) {
				j := hx(g.jsonValue())
				c.J = &j
			}
			out = append(out, c)
		default:
			out = append(out, encCall{M: "add", Key: g.key(), P: g.prim(), Calls: []encCall{}})
		}
	}
	return out
}

func (g *encGen) acalls(d int) []encCall {
	r := g.r
	n := r.Intn(4)
	out := []encCall{}
	for i := 0; i < n; i++ {
		switch k := r.Intn(9); {
		case k < 5 || d <= 0:
			out = append(out, encCall{M: "app", P: g.prim(), Calls: []encCall{}})
		case k == 5:
			out = append(out, encCall{M: "obj", Calls: g.ocalls(d - 1)})
		case k == 6:
			out = append(out, encCall{M: "arr", Calls: g.acalls(d - 1)})
		case k == 7:
			c := encCall{M: "refl", Calls: []encCall{}}
			if !g.fault() && r.Chance(2, 3) {
				j := hx(g.jsonValue())
				c.J = &j
			}
			out = append(out, c)
		default:
			out = append(out, encCall{M: "app", P: g.prim(), Calls: []encCall{}})
		}
	}
	return out
}

func (g *encGen) outcome() encOutcome {
	r := g.r
	if g.fault() || r.Chance(1, 12) {
		if r.Chance(1, 4) {
			s := hx([]byte(nilIfaceStringerPanic)) // as a Stringer FIELD this becomes zap.Stringer(k, nil), see buildField
			return encOutcome{Panic: &s}
		}
		if r.Bool() {
			return encOutcome{Nil: true}
		}
		s := hx(g.str())
		return encOutcome{Panic: &s}
	}
	s := hx(g.str())
	return encOutcome{OK: &s}
}

func (g *encGen) errv(d int) encErrV {
	r := g.r
	e := encErrV{O: g.outcome(), Causes: []encErrV{}}
	if r.Chance(1, 3) {
		v := hx(g.str())
		if r.Chance(1, 4) && e.O.OK != nil {
			v = *e.O.OK // verbose == basic: no Verbose member
		}
		e.Verbose = &v
	}
	if d > 0 && r.Chance(1, 4) {
		e.Group = true
		for i := r.Intn(3); i > 0; i-- {
			e.Causes = append(e.Causes, g.errv(d-1))
		}
	}
	return e
}

func (g *encGen) optErr() *string {
	if g.fault() || g.r.Chance(1, 15) {
		s := hx(g.str())
		return &s
	}
	return nil
}

func (g *encGen) field(d int) encField {
	r := g.r
	switch k := r.Intn(20); {
	case k < 8:
		f := encField{F: "prim", Key: g.key(), P: g.prim(), Calls: []encCall{}}
		if f.P.S != nil && r.Chance(1, 4) { // zap.Binary: the string is the base64 text of the payload
			raw := g.str()
			if r.Chance(1, 3) {
				// long payloads, at and around multiples of 3, powers of two and plausible chunk sizes of an encoder
				raw = exactBytes(r, Pick(r, []int{47, 48, 49, 57, 63, 64, 65, 66, 96, 127, 128, 129, 192, 193, 255, 256, 257, 511, 513, 1000, 1023, 1025, 3071, 3072, 3073, 4097}))
			}
			b64 := hx([]byte(base64.StdEncoding.EncodeToString(raw)))
			rh := hx(raw)
			f.P.S, f.Bin = &b64, &rh
		}
		return f
	case k == 8 || k == 9:
		if g.r.Chance(1, 10) {
			yes := hx([]byte("yes"))
			return encField{F: "obj", Key: g.key(), Calls: []encCall{{M: "add", Key: hx([]byte("nil")), P: &encPrim{S: &yes}, Calls: []encCall{}}}}
		}
		return encField{F: "obj", Key: g.key(), Calls: g.ocalls(d), Err: g.optErr()}
	case k == 10:
		return encField{F: "arr", Key: g.key(), Calls: g.acalls(d), Err: g.optErr()}
	case k == 11:
		return encField{F: "inline", Key: "", Calls: g.ocalls(d), Err: g.optErr()}
	case k == 12:
		fs := []encField{}
		if d > 0 {
			for i := r.Intn(3); i > 0; i-- {
				fs = append(fs, g.field(d-1))
			}
		}
		return encField{F: "dict", Key: g.key(), Calls: []encCall{}, Fields: fs}
	case k == 13:
		f := encField{F: "refl", Key: g.key(), Calls: []encCall{}}
		if g.fault() || r.Chance(1, 6) {
			e := hx([]byte(unencodableErr))
			f.Err = &e
		} else {
			j := hx(g.jsonValue())
			f.J = &j
		}
		return f
	case k == 14:
		o := g.outcome()
		return encField{F: "stringer", Key: g.key(), Calls: []encCall{}, O: &o}
	case k == 15 || k == 16:
		e := g.errv(2)
		return encField{F: "error", Key: g.key(), Calls: []encCall{}, E: &e}
	case k == 17 && r.Chance(1, 2):
		es := []encErrV{}
		for i := r.Intn(4); i > 0; i-- {
			es = append(es, g.errv(1))
		}
		return encField{F: "errors", Key: g.key(), Calls: []encCall{}, Errs: es}
	case k == 17:
		return encField{F: "ns", Key: g.key(), Calls: []encCall{}}
	case k == 18:
		return encField{F: "skip", Calls: []encCall{}}
	default:
		return encField{F: "prim", Key: g.key(), P: g.prim(), Calls: []encCall{}}
	}
}

func (g *encGen) fields(max int) []encField {
	n := g.r.Intn(max + 1)
	out := make([]encField, 0, n)
	for i := 0; i < n; i++ {
		out = append(out, g.field(g.depth))
	}
	return out
}

func (g *encGen) metaKey(def string) string {
	r := g.r
	switch r.Intn(10) {
	case 0, 1:
		return ""
	case 2:
		if g.hostile {
			return hx(Pick(r, hostileStrs[1:]))
		}
		return hx([]byte(def))
	case 3:
		return hx([]byte("dup")) // several metadata parts under one key
	default:
		return hx([]byte(def))
	}
}

var timeLayouts = []string{"2006-01-02", time.Kitchen, time.RFC1123Z, time.RFC1123, time.UnixDate, "MST", "15:04 MST", "", "Jan _2 15:04:05.000", "2006\"01\\02", "15h04m\n", "\t2006\x01", "2006 é €", "\"", "Monday, 02-Jan-06 15:04:05 MST"}

func (g *encGen) config(console bool) {
	r := g.r
	c := encCfg{MK: g.metaKey("msg"), LK: g.metaKey("level"), TK: g.metaKey("ts"), NK: g.metaKey("logger"), CK: g.metaKey("caller"),
		FK: g.metaKey("func"), SK: g.metaKey("stacktrace")}
	if r.Chance(1, 3) {
		c.FK = ""
	}
	c.LE = hx([]byte(Pick(r, []string{"", "", "", "\n", "\r\n", "\n\n", "END", " "})))
	c.SkipLE = r.Chance(1, 10)
	c.LvlEnc = Pick(r, []string{"nil", "noop", "lower", "lower", "capital", "color", "capitalColor"})
	c.TimeEnc = Pick(r, []string{"nil", "noop", "epoch", "epoch", "millis", "nanos", "iso8601", "rfc3339", "rfc3339nano", "layout", "layout"})
	if c.TimeEnc == "layout" {
		c.Layout = hx([]byte(Pick(r, timeLayouts)))
	}
	c.DurEnc = Pick(r, []string{"nil", "noop", "secs", "secs", "nanos", "millis", "string"})
	c.CallerEnc = Pick(r, []string{"nil", "noop", "full", "short", "short"})
	c.NameEnc = Pick(r, []string{"nil", "noop", "full"})
	if console {
		c.Sep = hx([]byte(Pick(r, []string{"", "", "\t", " ", " | ", "--", "\n", "{"})))
	}
	g.cfg = c
	g.rt = buildConfig(c)
}

func (g *encGen) entry() encEnt {
	r := g.r
	e := encEnt{Level: Pick(r, []int{-1, 0, 1, 2, 3, 4, 5, 0, 0, 6, -2, 127, -128, 42})}
	if r.Chance(1, 3) {
		e.Level = r.Intn(256) - 128 // any int8, known or not
	}
	if r.Chance(1, 6) {
		e.Time = encTime{Zero: true, Nanos: "0"}
	} else {
		e.Time = *g.timeVal()
	}
	if r.Chance(2, 3) {
		e.Name = hx(g.str())
		if r.Chance(1, 2) {
			e.Name = hx([]byte("svc.sub"))
		}
	}
	e.Msg = hx(g.str())
	if r.Chance(1, 3) {
		e.Stack = hx([]byte("main.f\n\t/src/main.go:10\nmain.main\n\t/src/main.go:3"))
		if g.hostile {
			e.Stack = hx(g.str())
		}
	}
	if r.Chance(2, 3) {
		file := Pick(r, callerFiles)
		line := Pick(r, callerLines)
		fn := Pick(r, []string{"pkg.Func", "", "pkg.(*T).M.func1", "weird\"fn\n"})
		e.Caller = encCaller{Defined: true, File: hx([]byte(file)), Line: line, Fn: hx([]byte(fn)), Str: hx([]byte(file + ":" + strconv.Itoa(line)))}
	} else {
		e.Caller = encCaller{Str: hx([]byte("undefined"))}
		if r.Chance(1, 3) { // an undefined caller may still carry a position: it must not be shown
			e.Caller.File, e.Caller.Line = hx([]byte(Pick(r, callerFiles))), Pick(r, callerLines)
		}
	}
	g.observe(&e)
	return e
}

// callerFiles: 0, 1, 2 and many '/'-separated elements, empty elements, Windows-style separators (TrimmedPath splits on
// '/' only), text needing JSON escapes.
var callerFiles = []string{"/home/u/go/src/pkg/sub/file.go", "file.go", "", "a/b.go", "/x\"y/z\n.go", "/a.go", "/", "//", "a/", "a//b.go", "/a/b.go",
	"a/b/c.go", "x/y/z/w/v.go", "C:\\Users\\u\\go\\src\\pkg\\file.go", "C:/Users/u/go/src/pkg/file.go", "dir\\sub/file.go", "a/b\\c/d.go", "/a/b/", "é/ü/ß.go", ":", "a:1/b:2/c:3"}
var callerLines = []int{0, 1, 42, 1 << 20, -1, 9, 10, 99, 100, -10, math.MaxInt32, math.MinInt32, math.MaxInt64, math.MinInt64}

// observe records what the configured sub-encoders append for this entry (by running the exported functions on a
// recorder). The model computes the exact built-ins itself and ignores these; they remain the parameters for nil,
// no-op, float and layout encoders.
func (g *encGen) observe(ep *encEnt) {
	e := *ep
	defer func() { *ep = e }()
	if g.rt.EncodeLevel != nil {
		rec := &subRec{}
		g.rt.EncodeLevel(zapcore.Level(e.Level), rec)
		e.Lvl, e.LvlC = rec.one()
	}
	if !e.Time.Zero && g.rt.EncodeTime != nil {
		rec := &subRec{}
		g.rt.EncodeTime(e.Time.goTime(), rec)
		_, e.TimeC = rec.one()
	}
	{
		ne := g.rt.EncodeName
		if ne == nil {
			ne = zapcore.FullNameEncoder
		}
		rec := &subRec{}
		ne(string(unhx(e.Name)), rec)
		e.NameV, e.NameC = rec.one()
	}
	if e.Caller.Defined && g.rt.EncodeCaller != nil {
		rec := &subRec{}
		g.rt.EncodeCaller(e.Caller.goCaller(), rec)
		e.Caller.V, e.CallerC = rec.one()
	}
}

func (c encCaller) goCaller() zapcore.EntryCaller {
	return zapcore.EntryCaller{Defined: c.Defined, File: string(unhx(c.File)), Line: c.Line, Function: string(unhx(c.Fn))}
}

// ---- systematic sub-encoder sweep -------------------------------------------------------------------------
//
// Emitted once per generation run, before the random ops: every int8 level under every level encoder (and the no-op /
// nil fall-backs), every boundary duration under every duration encoder (as fields and as array elements), boundary
// times under the integer time encoder, every caller shape × line under every caller encoder.

var sweepDone = map[bool]bool{}

func plainCfg() encCfg {
	return encCfg{MK: hx([]byte("msg")), LK: hx([]byte("level")), TK: hx([]byte("ts")), NK: hx([]byte("logger")), CK: hx([]byte("caller")),
		FK: "", SK: "", LvlEnc: "nil", TimeEnc: "nil", DurEnc: "nil", CallerEnc: "nil", NameEnc: "nil"}
}

func encSweep(r *Rand, console bool, emit func(op any)) {
	mk := func(c encCfg, fill func(g *encGen, op *encOp)) {
		g := &encGen{r: r, cfg: c, rt: buildConfig(c), depth: 1}
		op := encOp{K: "entry", Console: console, Cfg: c, Ctx: [][]encField{}, Fields: []encField{}}
		op.Ent = encEnt{Time: encTime{Zero: true, Nanos: "0"}, Msg: hx([]byte("m")), Caller: encCaller{Str: hx([]byte("undefined"))}}
		fill(g, &op)
		g.observe(&op.Ent)
		emit(op)
	}
	// levels
	for _, le := range []string{"lower", "capital", "color", "capitalColor", "noop", "nil"} {
		for l := -128; l <= 127; l++ {
			if (le == "noop" || le == "nil") && l%8 != 0 && (l < -3 || l > 7) {
				continue
			}
			c := plainCfg()
			c.LvlEnc = le
			mk(c, func(g *encGen, op *encOp) { op.Ent.Level = l })
		}
	}
	// deep namespace chains (around 2^8 and beyond): as With-context, as call-site fields, and opened inside an object
	// marshaler (which closes them itself), each followed by a plain field
	for _, depth := range []int{3, 255, 256, 257, 300, 513} {
		for where := 0; where < 3; where++ {
			depth, where := depth, where
			mk(plainCfg(), func(g *encGen, op *encOp) {
				last := encField{F: "prim", Key: hx([]byte("z")), P: g.prim(), Calls: []encCall{}}
				switch where {
				case 0:
					for i := 0; i < depth; i++ {
						op.Ctx = append(op.Ctx, []encField{{F: "ns", Key: hx([]byte("n" + strconv.Itoa(i%7))), Calls: []encCall{}}})
					}
					op.Fields = append(op.Fields, last)
				case 1:
					for i := 0; i < depth; i++ {
						op.Fields = append(op.Fields, encField{F: "ns", Key: hx([]byte("n" + strconv.Itoa(i%7))), Calls: []encCall{}})
					}
					op.Fields = append(op.Fields, last)
				default:
					o := encField{F: "obj", Key: hx([]byte("o")), Calls: []encCall{}}
					for i := 0; i < depth; i++ {
						o.Calls = append(o.Calls, encCall{M: "ns", Key: hx([]byte("n" + strconv.Itoa(i%7))), Calls: []encCall{}})
					}
					op.Fields = append(op.Fields, o, last)
				}
			})
		}
	}
	// durations: all boundaries in one op per encoder, once as fields and once as elements of an array
	for _, de := range []string{"nanos", "millis", "string", "secs", "noop", "nil"} {
		c := plainCfg()
		c.DurEnc = de
		mk(c, func(g *encGen, op *encOp) {
			arr := encField{F: "arr", Key: hx([]byte("all")), Calls: []encCall{}}
			for i, d := range boundaryDurs {
				op.Fields = append(op.Fields, encField{F: "prim", Key: hx([]byte("d" + strconv.Itoa(i))), P: &encPrim{D: g.durOf(d)}, Calls: []encCall{}})
				arr.Calls = append(arr.Calls, encCall{M: "app", P: &encPrim{D: g.durOf(d)}, Calls: []encCall{}})
			}
			op.Fields = append(op.Fields, arr)
		})
	}
	// integer time encoder on boundary instants, as the entry time and as fields
	for i := 0; i < 24; i++ {
		c := plainCfg()
		c.TimeEnc = "nanos"
		mk(c, func(g *encGen, op *encOp) {
			op.Ent.Time = *g.timeVal()
			for j := 0; j < 4; j++ {
				op.Fields = append(op.Fields, encField{F: "prim", Key: hx([]byte("t" + strconv.Itoa(j))), P: &encPrim{T: g.timeVal()}, Calls: []encCall{}})
			}
		})
	}
	// callers
	for _, ce := range []string{"full", "short", "noop"} {
		for _, file := range callerFiles {
			for _, line := range callerLines {
				c := plainCfg()
				c.CallerEnc = ce
				mk(c, func(g *encGen, op *encOp) {
					op.Ent.Caller = encCaller{Defined: true, File: hx([]byte(file)), Line: line, Fn: hx([]byte("pkg.F")), Str: hx([]byte(file + ":" + strconv.Itoa(line)))}
				})
			}
		}
		c := plainCfg()
		c.CallerEnc = ce
		mk(c, func(g *encGen, op *encOp) {
			op.Ent.Caller = encCaller{Defined: false, File: hx([]byte("a/b/c.go")), Line: 7, Str: hx([]byte("undefined"))}
		})
	}
	// names
	for _, ne := range []string{"full", "nil", "noop"} {
		for _, name := range []string{"svc", "svc.sub", "a\"b", "\xff"} {
			c := plainCfg()
			c.NameEnc = ne
			mk(c, func(g *encGen, op *encOp) { op.Ent.Name = hx([]byte(name)) })
		}
	}
}

// genEncOps emits n entry ops.
func genEncOps(r *Rand, n int, console bool, hostilePct, faults, depth, maxFields int, emit func(op any)) {
	if !sweepDone[console] && faults < 250 { // (C10's fault-injection streams do not need the sweep)
		sweepDone[console] = true
		encSweep(r, console, emit)
	}
	for i := 0; i < n; i++ {
		g := &encGen{r: r, hostile: r.Intn(100) < hostilePct, faults: faults, depth: depth}
		g.config(console)
		op := encOp{K: "entry", Console: console, Cfg: g.cfg, Ctx: [][]encField{}, Reentrant: r.Chance(1, 5)}
		op.Ent = g.entry()
		for j := r.Intn(4); j > 0; j-- {
			op.Ctx = append(op.Ctx, g.fields(3))
		}
		op.Fields = g.fields(maxFields)
		emit(op)
	}
}

// exactBytes: exactly n arbitrary bytes.
func exactBytes(r *Rand, n int) []byte {
	b := make([]byte, n)
	for i := range b {
		b[i] = byte(r.Intn(256))
	}
	return b
}
