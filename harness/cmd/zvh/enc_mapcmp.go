package main

import (
	"fmt"
	"math"
	"sort"
	"strconv"

	"go.uber.org/zap/zapcore"
)

func metaCount(op *encOp) (n int, stack bool) {
	c, e := op.Cfg, op.Ent
	if c.LK != "" && c.LvlEnc != "nil" {
		n++
	}
	if c.TK != "" && !e.Time.Zero {
		n++
	}
	if e.Name != "" && c.NK != "" {
		n++
	}
	if e.Caller.Defined {
		if c.CK != "" && c.CallerEnc != "nil" {
			n++
		}
		if c.FK != "" {
			n++
		}
	}
	if c.MK != "" {
		n++
	}
	return n, e.Stack != "" && c.SK != ""
}

func hasReflFailure(op *encOp) bool {
	var inCalls func(cs []encCall) bool
	inCalls = func(cs []encCall) bool {
		for _, c := range cs {
			if c.M == "refl" && c.J == nil {
				return true
			}
			if inCalls(c.Calls) {
				return true
			}
		}
		return false
	}
	var inField func(f encField) bool
	inField = func(f encField) bool {
		if f.F == "refl" && f.J == nil {
			return true
		}
		if inCalls(f.Calls) {
			return true
		}
		for _, s := range f.Fields {
			if inField(s) {
				return true
			}
		}
		return false
	}
	for _, c := range op.Ctx {
		for _, f := range c {
			if inField(f) {
				return true
			}
		}
	}
	for _, f := range op.Fields {
		if inField(f) {
			return true
		}
	}
	return false
}

// mapEncoderAgrees: the nesting the JSON line decodes to is the nesting zapcore.MapObjectEncoder records for the
// same fields (duplicate keys: last wins on both sides; values compared where the map encoder keeps a comparable
// scalar; reflected / time / duration / complex / binary payloads are stored raw by the map encoder and skipped).
func mapEncoderAgrees(op *encOp, got node) error {
	if hasReflFailure(op) {
		return nil // the map encoder never fails on reflected values (DESIGN §6.1)
	}
	nMeta, stack := metaCount(op)
	if got.kind != 'o' || len(got.keys) < nMeta {
		return nil // already reported by the tree comparison
	}
	fieldsPart := node{kind: 'o', keys: got.keys[nMeta:], elems: got.elems[nMeta:]}
	if stack && len(fieldsPart.keys) > 0 {
		fieldsPart.keys = fieldsPart.keys[:len(fieldsPart.keys)-1]
		fieldsPart.elems = fieldsPart.elems[:len(fieldsPart.elems)-1]
	}
	reflRawOnly = true
	defer func() { reflRawOnly = false }()
	m := zapcore.NewMapObjectEncoder()
	for _, c := range op.Ctx {
		for _, f := range buildFields(c) {
			f.AddTo(m)
		}
	}
	for _, f := range buildFields(op.Fields) {
		f.AddTo(m)
	}
	return sameShape("$", fieldsPart, m.Fields)
}

func sameShape(path string, j node, v any) error {
	switch x := v.(type) {
	case map[string]interface{}:
		if j.kind != 'o' {
			return fmt.Errorf("%s: map encoder has an object, JSON has kind %c", path, j.kind)
		}
		last := map[string]node{}
		for i, k := range j.keys {
			last[k] = j.elems[i]
		}
		sk := map[string]bool{}
		for k := range x {
			sk[sanitize([]byte(k))] = true
		}
		if len(sk) != len(x) {
			return nil // distinct raw keys that collide once invalid bytes become U+FFFD: order in the Go map is unknowable
		}
		if len(last) != len(x) {
			return fmt.Errorf("%s: JSON keys %q, map encoder has %d keys", path, j.keys, len(x))
		}
		for k, mv := range x {
			jn, ok := last[sanitize([]byte(k))]
			if !ok {
				return fmt.Errorf("%s: key %q missing in JSON", path, k)
			}
			if err := sameShape(path+"."+k, jn, mv); err != nil {
				return err
			}
		}
	case []interface{}:
		if j.kind != 'a' || len(j.elems) != len(x) {
			return fmt.Errorf("%s: map encoder has an array of %d, JSON has kind %c len %d", path, len(x), j.kind, len(j.elems))
		}
		for i := range x {
			if err := sameShape(fmt.Sprintf("%s[%d]", path, i), j.elems[i], x[i]); err != nil {
				return err
			}
		}
	case string:
		if j.kind != 's' || j.s != sanitize([]byte(x)) {
			return fmt.Errorf("%s: map encoder has string %q, JSON has %c %q", path, x, j.kind, j.s)
		}
	case int64:
		if j.kind != 't' || j.s != strconv.FormatInt(x, 10) {
			return fmt.Errorf("%s: map encoder has %d, JSON has %q", path, x, j.s)
		}
	case uint64:
		if j.kind != 't' || j.s != strconv.FormatUint(x, 10) {
			return fmt.Errorf("%s: map encoder has %d, JSON has %q", path, x, j.s)
		}
	case bool:
		if j.kind != 't' || j.s != strconv.FormatBool(x) {
			return fmt.Errorf("%s: map encoder has %v, JSON has %q", path, x, j.s)
		}
	case float64:
		if math.IsNaN(x) || math.IsInf(x, 0) {
			if j.kind != 's' {
				return fmt.Errorf("%s: non-finite float must be a string in JSON", path)
			}
			return nil
		}
		return xFloatBits(math.Float64bits(x), 64).match(j)
	case float32:
		if x != x || math.IsInf(float64(x), 0) {
			if j.kind != 's' {
				return fmt.Errorf("%s: non-finite float must be a string in JSON", path)
			}
			return nil
		}
		return xFloatBits(uint64(math.Float32bits(x)), 32).match(j)
	}
	return nil // payload kept raw by the map encoder: not comparable here
}

// mapSkeleton: the nesting zapcore.MapObjectEncoder records for the op's context and call-site fields — keys (hex,
// sorted), objects, arrays; leaf payloads are left out (they are Go values the map keeps raw).
func mapSkeleton(op *encOp) any {
	reflRawOnly = true
	defer func() { reflRawOnly = false }()
	m := zapcore.NewMapObjectEncoder()
	for _, c := range op.Ctx {
		for _, f := range buildFields(c) {
			f.AddTo(m)
		}
	}
	for _, f := range buildFields(op.Fields) {
		f.AddTo(m)
	}
	return skelOf(m.Fields)
}

func skelOf(v any) any {
	switch x := v.(type) {
	case map[string]interface{}:
		keys := make([]string, 0, len(x))
		for k := range x {
			keys = append(keys, hx([]byte(k)))
		}
		sort.Strings(keys)
		ms := make([]any, 0, len(keys))
		for _, hk := range keys {
			ms = append(ms, []any{hk, skelOf(x[string(unhx(hk))])})
		}
		return map[string]any{"o": ms}
	case []interface{}:
		es := make([]any, 0, len(x))
		for _, e := range x {
			es = append(es, skelOf(e))
		}
		return map[string]any{"a": es}
	}
	return "l"
}
