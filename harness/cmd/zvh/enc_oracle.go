package main

import (
	"bytes"
	"encoding/json"
	"fmt"
	"io"
	"math"
	"strconv"
	"strings"
	"time"
	"unicode/utf8"
)

// Independent reference for the encoder family: decoding with encoding/json's token stream (order and duplicates
// preserved) and an expected tree built from the op by the rules the property states. Nothing here uses the Lean
// model or zap's encoder.

type node struct {
	kind  byte // 's' string, 't' token (number / true / false / null), 'a' array, 'o' object
	s     string
	elems []node
	keys  []string
	// expectation-only: matcher for scalar leaves (nil ⇒ exact kind+s equality)
	match func(actual node) error
	desc  string
}

func decodeTree(b []byte) (node, error) {
	dec := json.NewDecoder(bytes.NewReader(b))
	dec.UseNumber()
	n, err := decodeValue(dec)
	if err != nil {
		return node{}, err
	}
	if _, err := dec.Token(); err != io.EOF {
		return node{}, fmt.Errorf("trailing data after the first JSON value")
	}
	return n, nil
}

func decodeValue(dec *json.Decoder) (node, error) {
	t, err := dec.Token()
	if err != nil {
		return node{}, err
	}
	switch v := t.(type) {
	case json.Delim:
		switch v {
		case '{':
			n := node{kind: 'o'}
			for dec.More() {
				kt, err := dec.Token()
				if err != nil {
					return node{}, err
				}
				k, ok := kt.(string)
				if !ok {
					return node{}, fmt.Errorf("non-string key")
				}
				c, err := decodeValue(dec)
				if err != nil {
					return node{}, err
				}
				n.keys = append(n.keys, k)
				n.elems = append(n.elems, c)
			}
			_, err := dec.Token()
			return n, err
		case '[':
			n := node{kind: 'a'}
			for dec.More() {
				c, err := decodeValue(dec)
				if err != nil {
					return node{}, err
				}
				n.elems = append(n.elems, c)
			}
			_, err := dec.Token()
			return n, err
		}
		return node{}, fmt.Errorf("unexpected delimiter %v", v)
	case string:
		return node{kind: 's', s: v}, nil
	case json.Number:
		return node{kind: 't', s: string(v)}, nil
	case bool:
		return node{kind: 't', s: strconv.FormatBool(v)}, nil
	case nil:
		return node{kind: 't', s: "null"}, nil
	}
	return node{}, fmt.Errorf("unexpected token %T", t)
}

// sanitize replaces each invalid UTF-8 byte by U+FFFD (one per byte).
func sanitize(b []byte) string {
	var sb strings.Builder
	for len(b) > 0 {
		r, size := utf8.DecodeRune(b)
		if r == utf8.RuneError && size == 1 {
			sb.WriteRune(utf8.RuneError)
		} else {
			sb.Write(b[:size])
		}
		b = b[size:]
	}
	return sb.String()
}

func xStr(b []byte) node { return node{kind: 's', s: sanitize(b)} }
func xTok(s string) node { return node{kind: 't', s: s} }

func xFloatBits(bits uint64, size int) node {
	return node{kind: 't', desc: fmt.Sprintf("float%d bits %#x", size, bits), match: func(a node) error {
		if a.kind != 't' {
			return fmt.Errorf("want a number, got kind %c %q", a.kind, a.s)
		}
		v, err := strconv.ParseFloat(a.s, size)
		if err != nil {
			return fmt.Errorf("number %q: %v", a.s, err)
		}
		got := math.Float64bits(v)
		if size == 32 {
			got = uint64(math.Float32bits(float32(v)))
		}
		if got != bits {
			return fmt.Errorf("number %q decodes to bits %#x, want %#x", a.s, got, bits)
		}
		return nil
	}}
}

func xFloatVal(want float64) node { return xFloatBits(math.Float64bits(want), 64) }

type refCtx struct{ cfg encCfg }

func (rc refCtx) scalar(p *encPrim) node {
	switch {
	case p.S != nil:
		return xStr(unhx(*p.S))
	case p.BS != nil:
		return xStr(unhx(*p.BS))
	case p.I != nil:
		return xTok(*p.I)
	case p.U != nil:
		return xTok(*p.U)
	case p.B != nil:
		return xTok(strconv.FormatBool(*p.B))
	case p.F != nil:
		switch {
		case p.F.NaN:
			return xStr([]byte("NaN"))
		case p.F.Inf > 0:
			return xStr([]byte("+Inf"))
		case p.F.Inf < 0:
			return xStr([]byte("-Inf"))
		}
		return xFloatBits(pUint(p.F.Bits), p.F.Size)
	case p.C != nil:
		c := p.C.c128()
		prec := 64
		if p.C.Size == 64 {
			prec = 32
		}
		s := strconv.FormatFloat(real(c), 'f', -1, prec)
		if imag(c) >= 0 {
			s += "+"
		}
		s += strconv.FormatFloat(imag(c), 'f', -1, prec) + "i"
		return xStr([]byte(s))
	}
	panic("not a scalar")
}

func (rc refCtx) timeNode(t *encTime) node {
	tm := t.goTime()
	switch rc.cfg.TimeEnc {
	case "epoch":
		return xFloatVal(float64(tm.UnixNano()) / float64(time.Second))
	case "millis":
		return xFloatVal(float64(tm.UnixNano()) / float64(time.Millisecond))
	case "iso8601":
		return xStr([]byte(tm.Format("2006-01-02T15:04:05.000Z0700")))
	case "rfc3339":
		return xStr([]byte(tm.Format(time.RFC3339)))
	case "rfc3339nano":
		return xStr([]byte(tm.Format(time.RFC3339Nano)))
	case "layout":
		return xStr([]byte(tm.Format(string(unhx(rc.cfg.Layout)))))
	}
	return xTok(strconv.FormatInt(tm.UnixNano(), 10)) // nanos, and the documented fall-back for nil / no-op
}

func (rc refCtx) durNode(d *encDur) node {
	n := pInt(d.Nanos)
	switch rc.cfg.DurEnc {
	case "secs":
		return xFloatVal(float64(n) / float64(time.Second))
	case "millis":
		return xTok(strconv.FormatInt(n/1e6, 10))
	case "string":
		return xStr([]byte(time.Duration(n).String()))
	}
	return xTok(strconv.FormatInt(n, 10))
}

func (rc refCtx) prim(p *encPrim) node {
	switch {
	case p.T != nil:
		return rc.timeNode(p.T)
	case p.D != nil:
		return rc.durNode(p.D)
	case p.J != nil:
		n, err := decodeTree(unhx(*p.J))
		must(err)
		return n
	}
	return rc.scalar(p)
}

// members builds the members of an object from object-context calls; a namespace nests the rest.
func (rc refCtx) ocalls(calls []encCall) (keys []string, vals []node) {
	for i, c := range calls {
		key := sanitize(unhx(c.Key))
		switch c.M {
		case "add":
			keys, vals = append(keys, key), append(vals, rc.prim(c.P))
		case "obj":
			k, v := rc.ocalls(c.Calls)
			keys, vals = append(keys, key), append(vals, node{kind: 'o', keys: k, elems: v})
		case "arr":
			keys, vals = append(keys, key), append(vals, node{kind: 'a', elems: rc.acalls(c.Calls)})
		case "refl":
			if c.J != nil {
				n, err := decodeTree(unhx(*c.J))
				must(err)
				keys, vals = append(keys, key), append(vals, n)
			}
		case "ns":
			k, v := rc.ocalls(calls[i+1:])
			return append(keys, key), append(vals, node{kind: 'o', keys: k, elems: v})
		}
	}
	return keys, vals
}

func (rc refCtx) acalls(calls []encCall) []node {
	out := []node{}
	for _, c := range calls {
		switch c.M {
		case "app":
			out = append(out, rc.prim(c.P))
		case "obj":
			k, v := rc.ocalls(c.Calls)
			out = append(out, node{kind: 'o', keys: k, elems: v})
		case "arr":
			out = append(out, node{kind: 'a', elems: rc.acalls(c.Calls)})
		case "refl":
			if c.J != nil {
				n, err := decodeTree(unhx(*c.J))
				must(err)
				out = append(out, n)
			}
		}
	}
	return out
}

// member is one expected (key, value) or a namespace opener.
type member struct {
	key string
	val node
	ns  bool
}

func outcomeMembers(key string, o encOutcome, errKey string) []member {
	switch {
	case o.Nil:
		return []member{{key: key, val: xStr([]byte("<nil>"))}}
	case o.Panic != nil:
		return []member{{key: errKey, val: xStr(append([]byte("PANIC="), unhx(*o.Panic)...))}}
	}
	return []member{{key: key, val: xStr(unhx(*o.OK))}}
}

// errMembers: what an error value contributes under `key`; retErr = message of the error encodeError returns.
func (rc refCtx) errMembers(key string, e encErrV) (ms []member, retErr *string) {
	switch {
	case e.O.Nil:
		return []member{{key: key, val: xStr([]byte("<nil>"))}}, nil
	case e.O.Panic != nil:
		s := "PANIC=" + string(unhx(*e.O.Panic))
		return nil, &s
	}
	basic := unhx(*e.O.OK)
	ms = append(ms, member{key: key, val: xStr(basic)})
	if e.Group {
		arr := node{kind: 'a', elems: []node{}}
		for _, c := range e.Causes {
			cm, cerr := rc.errMembers("error", c)
			o := node{kind: 'o'}
			for _, m := range cm {
				o.keys, o.elems = append(o.keys, m.key), append(o.elems, m.val)
			}
			arr.elems = append(arr.elems, o)
			if cerr != nil { // the array stops at the first cause whose encoding failed, and reports it
				retErr = cerr
				break
			}
		}
		ms = append(ms, member{key: key + "Causes", val: arr})
		return ms, retErr
	}
	if e.Verbose != nil && !bytes.Equal(unhx(*e.Verbose), basic) {
		ms = append(ms, member{key: key + "Verbose", val: xStr(unhx(*e.Verbose))})
	}
	return ms, nil
}

func (rc refCtx) fieldMembers(f encField) []member {
	key := sanitize(unhx(f.Key))
	errMember := func() []member {
		if f.Err == nil {
			return nil
		}
		return []member{{key: key + "Error", val: xStr(unhx(*f.Err))}}
	}
	switch f.F {
	case "prim":
		return []member{{key: key, val: rc.prim(f.P)}}
	case "obj":
		k, v := rc.ocalls(f.Calls)
		return append([]member{{key: key, val: node{kind: 'o', keys: k, elems: v}}}, errMember()...)
	case "arr":
		return append([]member{{key: key, val: node{kind: 'a', elems: rc.acalls(f.Calls)}}}, errMember()...)
	case "dict":
		sub := rc.nest(rc.fieldsMembers(f.Fields))
		return []member{{key: key, val: sub}}
	case "inline":
		// inlined calls may open namespaces that swallow what follows: expand into members
		ms := rc.callMembers(f.Calls)
		return append(ms, errMember()...)
	case "refl":
		if f.J != nil {
			n, err := decodeTree(unhx(*f.J))
			must(err)
			return []member{{key: key, val: n}}
		}
		return errMember()
	case "stringer":
		return outcomeMembers(key, *f.O, key+"Error")
	case "error":
		ms, rerr := rc.errMembers(key, *f.E)
		if rerr != nil {
			ms = append(ms, member{key: key + "Error", val: xStr([]byte(*rerr))})
		}
		return ms
	case "errors":
		arr := node{kind: 'a', elems: []node{}}
		for _, e := range f.Errs {
			ms, rerr := rc.errMembers("error", e)
			if rerr != nil { // each element is a field of its own object: it reports its failure there
				ms = append(ms, member{key: "errorError", val: xStr([]byte(*rerr))})
			}
			o := node{kind: 'o'}
			for _, m := range ms {
				o.keys, o.elems = append(o.keys, m.key), append(o.elems, m.val)
			}
			arr.elems = append(arr.elems, o)
		}
		return []member{{key: key, val: arr}}
	case "ns":
		return []member{{key: key, ns: true}}
	case "skip":
		return nil
	}
	panic("bad field")
}

// callMembers flattens top-level object calls into members (namespaces kept as openers).
func (rc refCtx) callMembers(calls []encCall) []member {
	var ms []member
	for _, c := range calls {
		key := sanitize(unhx(c.Key))
		switch c.M {
		case "ns":
			ms = append(ms, member{key: key, ns: true})
		case "refl":
			if c.J != nil {
				k, v := rc.ocalls([]encCall{c})
				ms = append(ms, member{key: k[0], val: v[0]})
			}
		default:
			k, v := rc.ocalls([]encCall{c})
			ms = append(ms, member{key: k[0], val: v[0]})
		}
	}
	return ms
}

func (rc refCtx) fieldsMembers(fs []encField) []member {
	var ms []member
	for _, f := range fs {
		ms = append(ms, rc.fieldMembers(f)...)
	}
	return ms
}

// nest turns a member list into an object: a namespace opener takes everything after it.
func (rc refCtx) nest(ms []member) node {
	o := node{kind: 'o'}
	for i, m := range ms {
		if m.ns {
			o.keys, o.elems = append(o.keys, m.key), append(o.elems, rc.nest(ms[i+1:]))
			return o
		}
		o.keys, o.elems = append(o.keys, m.key), append(o.elems, m.val)
	}
	return o
}

var levelNames = map[int]string{-1: "debug", 0: "info", 1: "warn", 2: "error", 3: "dpanic", 4: "panic", 5: "fatal"}

func levelString(l int) string {
	if s, ok := levelNames[l]; ok {
		return s
	}
	return fmt.Sprintf("Level(%d)", l)
}

// ---- independent reference of the built-in sub-encoders (documented behaviour, written without zap) --------------

// ANSI colours documented for the colour level encoders: debug magenta, info blue, warn yellow, error and above red;
// levels without a colour of their own are red.
var refLevelColor = map[int]int{-1: 35, 0: 34, 1: 33, 2: 31, 3: 31, 4: 31, 5: 31}

// refLevelText: what the built-in level encoder `kind` appends for level l ("" , false: not a built-in kind).
func refLevelText(kind string, l int) (string, bool) {
	txt := levelString(l)
	switch kind {
	case "lower":
		return txt, true
	case "capital":
		return strings.ToUpper(txt), true
	case "color", "capitalColor":
		if kind == "capitalColor" {
			txt = strings.ToUpper(txt)
		}
		col, ok := refLevelColor[l]
		if !ok {
			col = 31
		}
		return "\x1b[" + strconv.Itoa(col) + "m" + txt + "\x1b[0m", true
	}
	return "", false
}

// refCallerText: FullCallerEncoder → "file:line"; ShortCallerEncoder → the last two '/'-separated elements of the file.
func refCallerText(kind string, cl encCaller) (string, bool) {
	if kind != "full" && kind != "short" {
		return "", false
	}
	if !cl.Defined {
		return "undefined", true
	}
	file := string(unhx(cl.File))
	if kind == "short" {
		if parts := strings.Split(file, "/"); len(parts) > 2 {
			file = parts[len(parts)-2] + "/" + parts[len(parts)-1]
		}
	}
	return file + ":" + strconv.FormatInt(int64(cl.Line), 10), true
}

// refCols replaces the observed console column texts of the built-in exact encoders by the reference texts.
func refCols(c encCfg, e encEnt) encEnt {
	set := func(s string) *string { h := hx([]byte(s)); return &h }
	if s, ok := refLevelText(c.LvlEnc, e.Level); ok {
		e.LvlC = set(s)
	}
	if c.TimeEnc == "nanos" && !e.Time.Zero {
		e.TimeC = set(e.Time.Nanos)
	}
	if c.NameEnc == "nil" || c.NameEnc == "full" {
		e.NameC = set(string(unhx(e.Name)))
	}
	if s, ok := refCallerText(c.CallerEnc, e.Caller); ok && e.Caller.Defined {
		e.CallerC = set(s)
	}
	return e
}

// expectedTree is the object the property says an emitted JSON line must decode to.
func expectedTree(op *encOp) node {
	rc := refCtx{op.Cfg}
	c, e := op.Cfg, op.Ent
	var ms []member
	subOr := func(v *encPrim, fallback string) node {
		if v != nil {
			return rc.scalar(v)
		}
		return xStr([]byte(fallback))
	}
	k := func(h string) string { return sanitize(unhx(h)) }
	if c.LK != "" && c.LvlEnc != "nil" {
		if s, ok := refLevelText(c.LvlEnc, e.Level); ok {
			ms = append(ms, member{key: k(c.LK), val: xStr([]byte(s))})
		} else {
			ms = append(ms, member{key: k(c.LK), val: subOr(e.Lvl, levelString(e.Level))})
		}
	}
	if c.TK != "" && !e.Time.Zero {
		ms = append(ms, member{key: k(c.TK), val: rc.timeNode(&e.Time)})
	}
	if e.Name != "" && c.NK != "" {
		if c.NameEnc == "noop" { // fall-back: the name itself
			ms = append(ms, member{key: k(c.NK), val: subOr(e.NameV, string(unhx(e.Name)))})
		} else { // FullNameEncoder, also substituted for nil
			ms = append(ms, member{key: k(c.NK), val: xStr(unhx(e.Name))})
		}
	}
	if e.Caller.Defined {
		if c.CK != "" && c.CallerEnc != "nil" {
			if s, ok := refCallerText(c.CallerEnc, e.Caller); ok {
				ms = append(ms, member{key: k(c.CK), val: xStr([]byte(s))})
			} else {
				ms = append(ms, member{key: k(c.CK), val: subOr(e.Caller.V, string(unhx(e.Caller.Str)))})
			}
		}
		if c.FK != "" {
			ms = append(ms, member{key: k(c.FK), val: xStr(unhx(e.Caller.Fn))})
		}
	}
	if c.MK != "" {
		ms = append(ms, member{key: k(c.MK), val: xStr(unhx(e.Msg))})
	}
	for _, cf := range op.Ctx {
		ms = append(ms, rc.fieldsMembers(cf)...)
	}
	ms = append(ms, rc.fieldsMembers(op.Fields)...)
	top := rc.nest(ms)
	if e.Stack != "" && c.SK != "" { // after every open namespace has been closed: a top-level member
		top.keys, top.elems = append(top.keys, k(c.SK)), append(top.elems, xStr(unhx(e.Stack)))
	}
	return top
}

// fieldsTree: only context + call-site fields (what the console context must hold).
func fieldsTree(op *encOp) node {
	rc := refCtx{op.Cfg}
	var ms []member
	for _, cf := range op.Ctx {
		ms = append(ms, rc.fieldsMembers(cf)...)
	}
	ms = append(ms, rc.fieldsMembers(op.Fields)...)
	return rc.nest(ms)
}

func compareTree(path string, want, got node) error {
	if want.match != nil {
		if err := want.match(got); err != nil {
			return fmt.Errorf("%s: %v", path, err)
		}
		return nil
	}
	if want.kind != got.kind {
		return fmt.Errorf("%s: want kind %c (%q), got kind %c (%q)", path, want.kind, want.s, got.kind, got.s)
	}
	switch want.kind {
	case 's', 't':
		if want.s != got.s {
			return fmt.Errorf("%s: want %q, got %q", path, want.s, got.s)
		}
	case 'a':
		if len(want.elems) != len(got.elems) {
			return fmt.Errorf("%s: want %d elements, got %d", path, len(want.elems), len(got.elems))
		}
		for i := range want.elems {
			if err := compareTree(fmt.Sprintf("%s[%d]", path, i), want.elems[i], got.elems[i]); err != nil {
				return err
			}
		}
	case 'o':
		if len(want.keys) != len(got.keys) {
			return fmt.Errorf("%s: want members %q, got %q", path, want.keys, got.keys)
		}
		for i := range want.keys {
			if want.keys[i] != got.keys[i] {
				return fmt.Errorf("%s: member %d: want key %q, got %q (all: want %q got %q)", path, i, want.keys[i], got.keys[i], want.keys, got.keys)
			}
			if err := compareTree(path+"."+want.keys[i], want.elems[i], got.elems[i]); err != nil {
				return err
			}
		}
	}
	return nil
}

// resolvedEnding: SkipLineEnding wins; an empty LineEnding means "\n".
func resolvedEnding(c encCfg) []byte {
	if c.SkipLE {
		return nil
	}
	if c.LE == "" {
		return []byte("\n")
	}
	return unhx(c.LE)
}

// wellFormedLine is C01's oracle: exactly one JSON object, then the configured ending, nothing raw below 0x20.
func wellFormedLine(line []byte, c encCfg) (body []byte, err error) {
	end := resolvedEnding(c)
	if !bytes.HasSuffix(line, end) {
		return nil, fmt.Errorf("line does not end with the configured line ending %q", end)
	}
	body = line[:len(line)-len(end)]
	if len(body) == 0 || body[0] != '{' || body[len(body)-1] != '}' {
		return body, fmt.Errorf("output is not delimited as one object: %q", trunc(body))
	}
	for i, b := range body {
		if b < 0x20 {
			return body, fmt.Errorf("raw control byte %#x at offset %d", b, i)
		}
	}
	if !json.Valid(body) {
		return body, fmt.Errorf("not valid JSON: %q", trunc(body))
	}
	dec := json.NewDecoder(bytes.NewReader(body))
	var v map[string]json.RawMessage
	if err := dec.Decode(&v); err != nil {
		return body, fmt.Errorf("does not decode as one object: %v", err)
	}
	if dec.More() {
		return body, fmt.Errorf("more than one JSON value")
	}
	return body, nil
}

func countFaults(op *encOp) (n int) {
	var walkF func(f encField)
	walkF = func(f encField) {
		if f.Err != nil {
			n++
		}
		if f.O != nil && (f.O.Nil || f.O.Panic != nil) {
			n++
		}
		if f.E != nil && (f.E.O.Nil || f.E.O.Panic != nil) {
			n++
		}
		for _, s := range f.Fields {
			walkF(s)
		}
		for _, e := range f.Errs {
			if e.O.Nil || e.O.Panic != nil {
				n++
			}
		}
	}
	for _, c := range op.Ctx {
		for _, f := range c {
			walkF(f)
		}
	}
	for _, f := range op.Fields {
		walkF(f)
	}
	return n
}
