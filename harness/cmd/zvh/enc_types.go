package main

// Op format of the encoder family (C01, C02, C10, C16); mirrored by lean/ZapVerif/Drv/EncOp.lean.
// All byte strings are hex; integers that may exceed 2^53 are decimal strings.

type encCfg struct {
	MK        string `json:"mk"` // MessageKey … (hex; "" = omitted)
	LK        string `json:"lk"`
	TK        string `json:"tk"`
	NK        string `json:"nk"`
	CK        string `json:"ck"`
	FK        string `json:"fk"`
	SK        string `json:"sk"`
	LE        string `json:"le"`
	SkipLE    bool   `json:"skipLE"`
	LvlEnc    string `json:"lvlEnc"`    // nil|noop|lower|capital|color|capitalColor
	TimeEnc   string `json:"timeEnc"`   // nil|noop|epoch|millis|nanos|iso8601|rfc3339|rfc3339nano|layout
	Layout    string `json:"layout"`    // hex, for timeEnc=layout
	DurEnc    string `json:"durEnc"`    // nil|noop|secs|nanos|millis|string
	CallerEnc string `json:"callerEnc"` // nil|noop|full|short
	NameEnc   string `json:"nameEnc"`   // nil|noop|full
	Sep       string `json:"sep"`       // ConsoleSeparator (hex)
}

type encFloat struct {
	NaN  bool   `json:"nan"`
	Inf  int    `json:"inf"`
	Txt  string `json:"txt"`  // strconv.AppendFloat(v,'f',-1,size), hex
	Bits string `json:"bits"` // decimal of the IEEE bits (exec only)
	Size int    `json:"size"` // 32|64
}

type encComplex struct {
	Re    string `json:"re"` // hex text of the real part
	Im    string `json:"im"`
	Plus  bool   `json:"plus"`
	RBits string `json:"rbits"`
	IBits string `json:"ibits"`
	Size  int    `json:"size"` // 64|128
}

type encTime struct {
	Zero  bool     `json:"zero"`
	Nanos string   `json:"nanos"` // t.UnixNano(), decimal
	Sec   string   `json:"sec"`   // exec only: t.Unix()
	Nsec  int      `json:"nsec"`  // exec only
	Zoff  int      `json:"zoff"`  // zone offset seconds (0 = UTC)
	Zname string   `json:"zname"` // exec only: zone abbreviation (hex); "" = "Z"
	V     *encPrim `json:"v"`     // what the configured EncodeTime appended (null: nil or no-op)
}

type encDur struct {
	Nanos string   `json:"nanos"`
	V     *encPrim `json:"v"`
}

// encPrim is one value handed to an AppendX/AddX call (exactly one member set).
type encPrim struct {
	S  *string     `json:"s,omitempty"`
	BS *string     `json:"bs,omitempty"`
	I  *string     `json:"i,omitempty"`
	U  *string     `json:"u,omitempty"`
	B  *bool       `json:"b,omitempty"`
	F  *encFloat   `json:"f,omitempty"`
	C  *encComplex `json:"c,omitempty"`
	T  *encTime    `json:"t,omitempty"`
	D  *encDur     `json:"d,omitempty"`
	J  *string     `json:"j,omitempty"` // reflected JSON (hex) – exec passes json.RawMessage
}

type encCall struct {
	M     string    `json:"m"` // object ctx: add|obj|arr|ns|refl ; array ctx: app|obj|arr|refl
	Key   string    `json:"key"`
	P     *encPrim  `json:"p,omitempty"`
	Calls []encCall `json:"calls"`
	J     *string   `json:"j"` // refl: hex json, null = unencodable value
}

type encOutcome struct {
	OK    *string `json:"ok,omitempty"`
	Nil   bool    `json:"nil,omitempty"`
	Panic *string `json:"panic,omitempty"`
}

type encErrV struct {
	O       encOutcome `json:"o"`
	Verbose *string    `json:"verbose"`
	Group   bool       `json:"group"`
	Causes  []encErrV  `json:"causes"`
}

type encField struct {
	F      string      `json:"f"` // prim|obj|arr|inline|dict|refl|stringer|error|ns|skip
	Key    string      `json:"key"`
	P      *encPrim    `json:"p,omitempty"`
	Bin    *string     `json:"bin,omitempty"` // exec only: zap.Binary payload (p.s is its base64 text)
	Calls  []encCall   `json:"calls"`
	Fields []encField  `json:"fields,omitempty"` // dict
	Errs   []encErrV   `json:"errs,omitempty"`   // errors: zap.Errors(key, errs)
	Err    *string     `json:"err"`              // error returned by the marshaler / reflection error text
	J      *string     `json:"j"`
	O      *encOutcome `json:"o,omitempty"`
	E      *encErrV    `json:"e,omitempty"`
}

type encCaller struct {
	Defined bool     `json:"defined"`
	V       *encPrim `json:"v"`   // what EncodeCaller appended
	Str     string   `json:"str"` // "file:line" (hex)
	File    string   `json:"file"`
	Line    int      `json:"line"`
	Fn      string   `json:"fn"`
}

type encEnt struct {
	Level   int       `json:"level"`
	Lvl     *encPrim  `json:"lvl"`
	Time    encTime   `json:"time"`
	Name    string    `json:"name"`
	NameV   *encPrim  `json:"nameV"`
	Caller  encCaller `json:"caller"`
	Msg     string    `json:"msg"`
	Stack   string    `json:"stack"`
	TimeC   *string   `json:"timeC"` // console: fmt.Sprint of what the sub-encoder appended (null: nothing)
	LvlC    *string   `json:"lvlC"`
	NameC   *string   `json:"nameC"`
	CallerC *string   `json:"callerC"`
}

type encOp struct {
	K         string       `json:"k"`
	Console   bool         `json:"console"`
	Cfg       encCfg       `json:"cfg"`
	Ent       encEnt       `json:"ent"`
	Reentrant bool         `json:"reentrant"` // exec only: the sink logs another entry (same encoder pools) before it reads its argument
	Ctx       [][]encField `json:"ctx"`
	Fields    []encField   `json:"fields"`
}
