// Command zvh is the implementation side of the correspondence check.
//
//	zvh gen  Cxx --seed S --tier quick|thorough      op lines (JSON, one per line) on stdout
//	zvh exec Cxx                                     reads op lines on stdin, runs each on the REAL zap,
//	                                                 prints {"op":…,"impl":…,"oracle":{…},"nontrivial":…,"shape":…}
//	zvh dump <table>                                 dynamic tables for the Lean Gen files
//
// Every random choice derives from one splitmix64 state seeded by --seed.
package main

import (
	"bufio"
	"encoding/json"
	"flag"
	"fmt"
	"os"
	"runtime/debug"
	"sort"
)

// Oracle is the verdict of the property oracle, which is independent of the Lean model.
type Oracle struct {
	OK     bool   `json:"ok"`
	Sig    string `json:"sig,omitempty"`    // narrow signature class:minimal-input, matched against known_findings.json
	Detail string `json:"detail,omitempty"` // human-readable
}

// Result is one executed case.
type Result struct {
	Op         json.RawMessage `json:"op"`
	Impl       any             `json:"impl"`
	Oracle     Oracle          `json:"oracle"`
	Nontrivial bool            `json:"nontrivial"`
	Shape      string          `json:"shape"`
	NoModel    bool            `json:"nomodel,omitempty"` // oracle-only case (no model comparison)
}

// Prop is one property's generator and executor.
type Prop struct {
	Gen  func(r *Rand, tier string, emit func(op any))
	Exec func(op json.RawMessage) Result
}

var props = map[string]*Prop{}

var dumps = map[string]func(){}

func ok() Oracle { return Oracle{OK: true} }

func bad(sig, format string, a ...any) Oracle {
	return Oracle{OK: false, Sig: sig, Detail: fmt.Sprintf(format, a...)}
}

func main() {
	if len(os.Args) < 3 {
		fmt.Fprintln(os.Stderr, "usage: zvh gen|exec|dump <id> [flags]")
		os.Exit(2)
	}
	cmd, id := os.Args[1], os.Args[2]
	fs := flag.NewFlagSet("zvh", flag.ExitOnError)
	seed := fs.Uint64("seed", 1, "PRNG seed")
	tier := fs.String("tier", "quick", "quick|thorough")
	_ = fs.Parse(os.Args[3:])
	out := bufio.NewWriterSize(os.Stdout, 1<<20)
	defer out.Flush()
	if cmd == "dump" {
		d, okd := dumps[id]
		if !okd {
			var names []string
			for k := range dumps {
				names = append(names, k)
			}
			sort.Strings(names)
			fmt.Fprintln(os.Stderr, "unknown dump; have", names)
			os.Exit(2)
		}
		dumpOut = out
		d()
		return
	}
	p, okp := props[id]
	if !okp {
		fmt.Fprintln(os.Stderr, "unknown property", id)
		os.Exit(2)
	}
	switch cmd {
	case "gen":
		r := NewRand(*seed)
		enc := json.NewEncoder(out)
		enc.SetEscapeHTML(false)
		p.Gen(r, *tier, func(op any) {
			if err := enc.Encode(op); err != nil {
				panic(err)
			}
		})
	case "exec":
		sc := bufio.NewScanner(os.Stdin)
		sc.Buffer(make([]byte, 1<<20), 1<<28)
		enc := json.NewEncoder(out)
		enc.SetEscapeHTML(false)
		for sc.Scan() {
			line := append([]byte(nil), sc.Bytes()...)
			if len(line) == 0 {
				continue
			}
			res := safeExec(p, line)
			res.Op = line
			if err := enc.Encode(res); err != nil {
				panic(err)
			}
			out.Flush()
		}
	default:
		fmt.Fprintln(os.Stderr, "unknown command", cmd)
		os.Exit(2)
	}
}

// safeExec turns a panic escaping the harness into a reported result instead of killing the run.
func safeExec(p *Prop, line []byte) (res Result) {
	defer func() {
		if e := recover(); e != nil {
			res = Result{
				Impl:   map[string]any{"harness_panic": fmt.Sprint(e)},
				Oracle: bad("harness-panic", "panic escaped exec: %v\n%s", e, debug.Stack()),
			}
		}
	}()
	return p.Exec(line)
}

var dumpOut *bufio.Writer

func must(err error) {
	if err != nil {
		panic(err)
	}
}

func unmarshal(raw json.RawMessage, v any) {
	must(json.Unmarshal(raw, v))
}
