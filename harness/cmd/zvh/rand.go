package main

import "encoding/hex"

// Rand is splitmix64; the only source of randomness in the harness.
type Rand struct{ s uint64 }

// NewRand hashes the seed into the initial state (the splitmix64 finalizer applied twice): with state = seed·G + c the stream
// of seed s+1 would be the stream of seed s shifted by one draw, and consecutive VERIF_SEED values would explore almost the
// same cases.
func NewRand(seed uint64) *Rand {
	r := &Rand{s: seed*0x9E3779B97F4A7C15 + 0x1234567}
	a := r.U64()
	b := r.U64()
	return &Rand{s: a ^ (b<<32 | b>>32) ^ (seed * 0xD6E8FEB86659FD93)}
}

func (r *Rand) U64() uint64 {
	r.s += 0x9E3779B97F4A7C15
	z := r.s
	z = (z ^ (z >> 30)) * 0xBF58476D1CE4E5B9
	z = (z ^ (z >> 27)) * 0x94D049BB133111EB
	return z ^ (z >> 31)
}

// Intn returns a value in [0,n).
func (r *Rand) Intn(n int) int {
	if n <= 0 {
		return 0
	}
	return int(r.U64() % uint64(n))
}

func (r *Rand) Bool() bool { return r.U64()&1 == 1 }

// Chance is true with probability num/den.
func (r *Rand) Chance(num, den int) bool { return r.Intn(den) < num }

func Pick[T any](r *Rand, xs []T) T { return xs[r.Intn(len(xs))] }

// Bytes draws a byte string of length < maxLen from a hostile-ish alphabet.
func (r *Rand) Bytes(maxLen int) []byte {
	n := r.Intn(maxLen + 1)
	b := make([]byte, n)
	for i := range b {
		switch r.Intn(10) {
		case 0:
			b[i] = '\n'
		case 1:
			b[i] = byte(r.Intn(256))
		case 2:
			b[i] = ' '
		default:
			b[i] = byte('a' + r.Intn(26))
		}
	}
	return b
}

func hx(b []byte) string { return hex.EncodeToString(b) }

func unhx(s string) []byte {
	b, err := hex.DecodeString(s)
	must(err)
	return b
}
