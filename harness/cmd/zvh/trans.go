package main

// trans.go — CTR: differential test of the Go→GoMini translator and of the GoMini interpreter.
//
// An op names a generated table and a translated function and carries arguments and receiver fields:
//
//	{"t":"TransProbe","f":"probeU32","args":[{"i":"7"},{"i":"4294967295"}],"flds":[],"fuel":100000}
//	→ {"res":[…],"flds":[…]}  |  {"panic":"index"|"slice"|"divide"}
//
// `zvh exec CTR` runs the REAL Go function on these inputs (the probe functions of trans_probe.go directly, the
// unexported zap functions through go:linkname — nothing in /repo is touched); `zvdrv CTR` runs the term zvgen
// generated from the same source in the interpreter.  Any difference is a defect of the translator, of GoMini's
// semantics, or of an intrinsic's assumed meaning.  There is no property oracle here: the verdict is always ok and a
// disagreement surfaces as a broken correspondence.
//
// values: {"i":"<decimal>"} | {"b":bool} | {"x":"<hex>"} | {"l":[value…]}

import (
	"encoding/json"
	"fmt"
	"math"
	"reflect"
	"strconv"
	"strings"
)

type TV struct {
	I *string `json:"i,omitempty"`
	B *bool   `json:"b,omitempty"`
	X *string `json:"x,omitempty"`
	L *[]TV   `json:"l,omitempty"`
}

type trFld struct {
	N string `json:"n"`
	V TV     `json:"v"`
}

type trOp struct {
	T    string  `json:"t"`
	F    string  `json:"f"`
	Args []TV    `json:"args"`
	Flds []trFld `json:"flds"`
	Fuel int     `json:"fuel"`
	// names of recorded calls the Go side cannot observe; zvdrv drops them from the field `ev` before comparing
	Hide []string `json:"hide,omitempty"`
	// receiver fields that are not compared (zvdrv drops them from its answer, the adapter does not report them)
	Drop []string `json:"drop,omitempty"`
	// result positions holding a closure value [source text, captured…]: the text is not observable; zvdrv blanks it
	Blank []int `json:"blank,omitempty"`
}

func tvInt(v int64) TV    { s := strconv.FormatInt(v, 10); return TV{I: &s} }
func tvUint(v uint64) TV  { s := strconv.FormatUint(v, 10); return TV{I: &s} }
func tvBool(b bool) TV    { return TV{B: &b} }
func tvBytes(b []byte) TV { s := hx(b); return TV{X: &s} }
func tvList(l []TV) TV {
	if l == nil {
		l = []TV{}
	}
	return TV{L: &l}
}
func (v TV) bytes() []byte  { return unhx(*v.X) }
func (v TV) int64() int64   { n, err := strconv.ParseInt(*v.I, 10, 64); must(err); return n }
func (v TV) uint64() uint64 { n, err := strconv.ParseUint(*v.I, 10, 64); must(err); return n }

// trFn is one translated function as the Go side runs it.
type trFn struct {
	table, name string
	gen         func(r *Rand) ([]TV, []trFld)
	run         func(args []TV, flds []trFld) ([]TV, []trFld)
	hide        []string
	drop        []string
	blank       []int
}

var trFns []trFn

func trFind(t, f string) *trFn {
	for i := range trFns {
		if trFns[i].table == t && trFns[i].name == f {
			return &trFns[i]
		}
	}
	return nil
}

func init() {
	props["CTR"] = &Prop{Gen: genCTR, Exec: execCTR}
	for name, fn := range probes {
		registerProbe(name, fn)
	}
}

func genCTR(r *Rand, tier string, emit func(op any)) {
	per := 60
	if tier == "thorough" {
		per = 1500
	}
	// deterministic order: registration order is map-dependent for probes, so sort by (table, name)
	fns := append([]trFn(nil), trFns...)
	for i := 1; i < len(fns); i++ {
		for j := i; j > 0 && fns[j-1].table+"."+fns[j-1].name > fns[j].table+"."+fns[j].name; j-- {
			fns[j-1], fns[j] = fns[j], fns[j-1]
		}
	}
	for _, f := range fns {
		for i := 0; i < per; i++ {
			args, flds := f.gen(r)
			if args == nil {
				args = []TV{}
			}
			if flds == nil {
				flds = []trFld{}
			}
			emit(trOp{T: f.table, F: f.name, Args: args, Flds: flds, Fuel: 100000, Hide: f.hide, Drop: f.drop, Blank: f.blank})
		}
	}
}

func panicKind(e any) string {
	s := fmt.Sprint(e)
	switch {
	case strings.Contains(s, "index out of range"):
		return "index"
	case strings.Contains(s, "slice bounds out of range"):
		return "slice"
	case strings.Contains(s, "integer divide by zero"):
		return "divide"
	}
	return "other: " + s
}

func execCTR(raw json.RawMessage) (res Result) {
	var op trOp
	unmarshal(raw, &op)
	f := trFind(op.T, op.F)
	if f == nil {
		return Result{Impl: map[string]any{"unknown": op.T + "." + op.F}, Oracle: ok(), Shape: "unknown"}
	}
	res = Result{Oracle: ok(), Nontrivial: true, Shape: op.T + "." + op.F}
	defer func() {
		if e := recover(); e != nil {
			res.Impl = map[string]any{"panic": panicKind(e)}
			res.Shape += "/panic"
		}
	}()
	rs, fl := f.run(op.Args, op.Flds)
	if rs == nil {
		rs = []TV{}
	}
	if fl == nil {
		fl = []trFld{}
	}
	res.Impl = map[string]any{"res": rs, "flds": fl}
	return res
}

// ---------------------------------------------------------------- probes (reflection-driven)

var probes = map[string]any{
	"probeU32": probeU32, "probeU8": probeU8, "probeU64": probeU64, "probeInt": probeInt, "probeI64": probeI64,
	"probeDiv": probeDiv, "probeDivU": probeDivU, "probeConv": probeConv, "probeSlice": probeSlice,
	"probeSliceLo": probeSliceLo, "probeSliceHi": probeSliceHi, "probeIndex": probeIndex, "probeShort": probeShort,
	"probeSwap": probeSwap, "probeLoop": probeLoop, "probeSwitch": probeSwitch, "probeRange": probeRange,
	"probeMinMax": probeMinMax, "probeNamed": probeNamed, "probeAppend": probeAppend, "probeIndexByte": probeIndexByte,
	"probeShadow": probeShadow, "probeWhile": probeWhile,
	"probeTwo": probeTwo, "probeStruct": probeStruct, "probeForward": probeForward,
}

func randInt64(r *Rand) int64 {
	switch r.Intn(8) {
	case 0:
		return Pick(r, []int64{0, 1, -1, 2, -2, math.MaxInt64, math.MinInt64, math.MaxInt64 - 1, math.MinInt64 + 1, 1 << 32, -(1 << 32), 1<<31 - 1, 255, 256})
	case 1, 2, 3:
		return int64(r.Intn(21)) - 10
	}
	return int64(r.U64())
}

func randUint64(r *Rand, bits int) uint64 {
	mask := uint64(math.MaxUint64)
	if bits < 64 {
		mask = 1<<uint(bits) - 1
	}
	switch r.Intn(6) {
	case 0:
		return Pick(r, []uint64{0, 1, 2, mask, mask - 1, mask >> 1, mask>>1 + 1, 16777619, 2166136261}) & mask
	case 1, 2:
		return uint64(r.Intn(40)) & mask
	}
	return r.U64() & mask
}

func probeBytes(r *Rand) []byte {
	n := r.Intn(9)
	b := make([]byte, n)
	for i := range b {
		b[i] = Pick(r, []byte{0, 1, 7, 9, 255, 'a', 'b', 'c', 'd', 'e', '\n', '/', 3, 200})
	}
	return b
}

func registerProbe(name string, fn any) {
	v := reflect.ValueOf(fn)
	t := v.Type()
	gen := func(r *Rand) ([]TV, []trFld) {
		var args []TV
		for i := 0; i < t.NumIn(); i++ {
			switch t.In(i).Kind() {
			case reflect.Int, reflect.Int64:
				if strings.Contains(name, "Slice") || strings.Contains(name, "Index") || strings.Contains(name, "Short") || name == "probeSwap" {
					args = append(args, tvInt(int64(r.Intn(9))-1)) // around the valid index range
				} else {
					args = append(args, tvInt(randInt64(r)))
				}
			case reflect.Uint8:
				args = append(args, tvUint(randUint64(r, 8)))
			case reflect.Uint32:
				args = append(args, tvUint(randUint64(r, 32)))
			case reflect.Uint64:
				args = append(args, tvUint(randUint64(r, 64)))
			case reflect.Slice, reflect.String:
				args = append(args, tvBytes(probeBytes(r)))
			default:
				panic("probe parameter kind " + t.In(i).Kind().String())
			}
		}
		return args, nil
	}
	run := func(args []TV, _ []trFld) ([]TV, []trFld) {
		in := make([]reflect.Value, t.NumIn())
		for i := range in {
			pt := t.In(i)
			switch pt.Kind() {
			case reflect.Int, reflect.Int64:
				in[i] = reflect.ValueOf(args[i].int64()).Convert(pt)
			case reflect.Uint8, reflect.Uint32, reflect.Uint64:
				in[i] = reflect.ValueOf(args[i].uint64()).Convert(pt)
			case reflect.Slice:
				in[i] = reflect.ValueOf(args[i].bytes())
			case reflect.String:
				in[i] = reflect.ValueOf(string(args[i].bytes()))
			}
		}
		var out []TV
		for _, o := range v.Call(in) {
			switch o.Kind() {
			case reflect.Int, reflect.Int64:
				out = append(out, tvInt(o.Int()))
			case reflect.Uint8, reflect.Uint32, reflect.Uint64:
				out = append(out, tvUint(o.Uint()))
			case reflect.Bool:
				out = append(out, tvBool(o.Bool()))
			case reflect.Slice:
				out = append(out, tvBytes(o.Bytes()))
			case reflect.String:
				out = append(out, tvBytes([]byte(o.String())))
			default:
				panic("probe result kind " + o.Kind().String())
			}
		}
		return out, nil
	}
	trFns = append(trFns, trFn{table: "TransProbe", name: name, gen: gen, run: run})
}

// ---------------------------------------------------------------- round-2 probes with hand-written adapters

func probeRecOf(flds []trFld) *probeRec {
	r := &probeRec{n: int(fldOf(flds, "n").int64())}
	tag := func(v TV) probeTag {
		if len(*v.L) == 0 {
			return nil
		}
		return probeID((*v.L)[0].int64())
	}
	r.link, r.other = tag(fldOf(flds, "link")), tag(fldOf(flds, "other"))
	if s := *fldOf(flds, "sub").L; len(s) > 0 {
		r.sub = &probePair{a: int(s[0].int64()), b: s[1].bytes()}
	}
	for _, k := range *fldOf(flds, "fns").L {
		k := k
		r.fns = append(r.fns, func(x int) int {
			r.ev = append(r.ev, tvList([]TV{tvBytes([]byte("ProbeFn")), k, tvInt(int64(x))}))
			return int(k.int64())*x + 1
		})
	}
	return r
}

func (r *probeRec) fields(flds []trFld) []trFld {
	var out []trFld
	for _, f := range flds {
		switch f.N {
		case "n":
			f.V = tvInt(int64(r.n))
		case "ev":
			f.V = tvList(append(append([]TV{}, *f.V.L...), r.ev...))
		}
		out = append(out, f)
	}
	return out
}

func genProbeRec(r *Rand) []trFld {
	tag := func() TV {
		if r.Chance(1, 3) {
			return tvList(nil)
		}
		return tvList([]TV{tvInt(int64(r.Intn(3)))})
	}
	sub := tvList(nil)
	if r.Bool() {
		sub = tvList([]TV{tvInt(int64(r.Intn(100)) - 50), tvBytes(probeBytes(r))})
	}
	var fns []TV
	for i, k := 0, r.Intn(4); i < k; i++ {
		fns = append(fns, tvInt(int64(r.Intn(7))-3))
	}
	return []trFld{{"n", tvInt(int64(r.Intn(10)))}, {"link", tag()}, {"other", tag()}, {"sub", sub}, {"fns", tvList(fns)}, {"ev", tvList(nil)}}
}

func init() {
	small := func(r *Rand) TV { return tvInt(int64(r.Intn(21)) - 10) }
	trFns = append(trFns,
		trFn{table: "TransProbe", name: "probeVariadic",
			gen: func(r *Rand) ([]TV, []trFld) {
				var xs []TV
				for i, k := 0, r.Intn(5); i < k; i++ {
					xs = append(xs, tvInt(randInt64(r)))
				}
				return []TV{tvInt(randInt64(r)), tvList(xs)}, nil
			},
			run: func(args []TV, _ []trFld) ([]TV, []trFld) {
				var xs []int
				for _, v := range *args[1].L {
					xs = append(xs, int(v.int64()))
				}
				return []TV{tvInt(int64(probeVariadic(int(args[0].int64()), xs...)))}, nil
			}},
		trFn{table: "TransProbe", name: "probeDefer",
			gen: func(r *Rand) ([]TV, []trFld) { return []TV{small(r), small(r)}, genProbeRec(r) },
			run: func(args []TV, flds []trFld) ([]TV, []trFld) {
				p := probeRecOf(flds)
				v := p.probeDefer(int(args[0].int64()), int(args[1].int64()))
				return []TV{tvInt(int64(v))}, p.fields(flds)
			}},
		trFn{table: "TransProbe", name: "probeNilable",
			gen: func(r *Rand) ([]TV, []trFld) { return nil, genProbeRec(r) },
			run: func(_ []TV, flds []trFld) ([]TV, []trFld) {
				p := probeRecOf(flds)
				a, b, c, d := p.probeNilable()
				return []TV{tvBool(a), tvBool(b), tvBool(c), tvInt(int64(d))}, p.fields(flds)
			}},
		trFn{table: "TransProbe", name: "probeFnValues",
			gen: func(r *Rand) ([]TV, []trFld) { return []TV{small(r)}, genProbeRec(r) },
			run: func(args []TV, flds []trFld) ([]TV, []trFld) {
				p := probeRecOf(flds)
				v := p.probeFnValues(int(args[0].int64()))
				return []TV{tvInt(int64(v))}, p.fields(flds)
			}},
	)
}
