package main

// trans_capture.go — CTR adapter for the table TransCapture: the REAL internal/stacktrace.Capture (go:linkname; the
// package is internal to zap, so its *Stack is read through a mirror struct) on REAL goroutine stacks.
//
// The call is made at the bottom of a fresh goroutine below `d` non-inlined recursion frames, so the stack is the same
// whenever the same binary makes the same call: `zvh gen` makes the call once to OBSERVE the stack (runtime.Callers
// from the calling frame) and puts it in the op as the pseudo-field `#st`; `zvh exec` makes it again and reports what
// Capture stored in stack.pcs.  Seen from inside Capture the stack is [runtime.Callers, Capture, caller@pc, outer…]:
// the first three entries cannot be observed from outside (placeholders -1, -2, -3), so skip ≥ 1 is used, for which
// the result lies in `outer`.  The Stack is never returned to the pool, so the slab is always the 64 entries of a
// fresh one.  Not compared (op field "drop"): `storage` (Go aliases it with pcs; only lengths are claimed) and
// `frames` (a *runtime.Frames).

import (
	"runtime"
	"unsafe"
)

//go:linkname zapStackCapture go.uber.org/zap/internal/stacktrace.Capture
func zapStackCapture(skip int, depth int) unsafe.Pointer

type trStackMirror struct {
	pcs     []uintptr
	frames  *runtime.Frames
	storage []uintptr
}

//go:noinline
func trCaptureDeep(d, skip, depth int, pcs, outer *[]uintptr) int {
	if d > 0 {
		return trCaptureDeep(d-1, skip, depth, pcs, outer) + 1
	}
	buf := make([]uintptr, 1024)
	n := runtime.Callers(0, buf) // [runtime.Callers, this frame, outer…]
	*outer = append([]uintptr{}, buf[2:n]...)
	st := (*trStackMirror)(zapStackCapture(skip, depth))
	*pcs = append([]uintptr{}, st.pcs...)
	return 0
}

func trCaptureRun(d, skip, depth int) (pcs, outer []uintptr) {
	done := make(chan struct{})
	go func() {
		defer close(done)
		trCaptureDeep(d, skip, depth, &pcs, &outer)
	}()
	<-done
	return
}

func pcList(pcs []uintptr) TV {
	out := []TV{}
	for _, p := range pcs {
		out = append(out, tvUint(uint64(p)))
	}
	return tvList(out)
}

func init() {
	trFns = append(trFns, trFn{table: "TransCapture", name: "Capture", drop: []string{"storage", "frames"},
		gen: func(r *Rand) ([]TV, []trFld) {
			d := Pick(r, []int{0, 1, 5, 30, 58, 59, 60, 61, 62, 63, 64, 65, 100, 124, 125, 126, 127, 128, 129, 200, 300})
			skip := 1 + r.Intn(4)
			if r.Chance(1, 6) {
				skip = max(1, d+r.Intn(8)) // around and beyond the bottom of the stack (never 0: see above)
			}
			depth := r.Intn(2)
			_, outer := trCaptureRun(d, skip, depth)
			st := append([]TV{tvInt(-1), tvInt(-2), tvInt(-3)}, *pcList(outer).L...)
			zeros := make([]TV, 64)
			for i := range zeros {
				zeros[i] = tvInt(0)
			}
			return []TV{tvInt(int64(skip)), tvInt(int64(depth))},
				[]trFld{{"pcs", tvList(nil)}, {"storage", tvList(zeros)}, {"frames", tvList(nil)}, {"self", tvList(nil)},
					{"#st", tvList(st)}, {"#d", tvInt(int64(d))}}
		},
		run: func(args []TV, flds []trFld) ([]TV, []trFld) {
			pcs, _ := trCaptureRun(int(fldOf(flds, "#d").int64()), int(args[0].int64()), int(args[1].int64()))
			var out []trFld
			for _, f := range flds {
				switch f.N {
				case "storage", "frames":
					continue
				case "pcs":
					f.V = pcList(pcs)
				}
				out = append(out, f)
			}
			return []TV{fldOf(flds, "self")}, out
		}})
}
