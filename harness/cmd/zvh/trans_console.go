package main

// trans_console.go — CTR adapter for the table TransConsole: the REAL consoleEncoder.EncodeEntry (which runs the real
// writeContext and addSeparatorIfNecessary) over scripted sub-encoders and fields, with the logger's accumulated
// context preset in the embedded JSON encoder.  Same scripting as trans_jsonenc.go; the Lean side is `consolePar` in
// Drv/CTR.lean.  Compared: the returned line, and that the logger's own encoder (o.*) is unchanged.

import (
	"reflect"
	"time"

	"go.uber.org/zap/buffer"
	"go.uber.org/zap/zapcore"
)

func genConsoleFlds(r *Rand) []trFld {
	key := func(n string) trFld {
		if r.Chance(1, 4) {
			return trFld{n, tvBytes(nil)}
		}
		return trFld{n, tvBytes([]byte(n[:1]))}
	}
	fn := func(n string, codes int) trFld {
		if r.Chance(1, 3) {
			return trFld{n, tvList(nil)}
		}
		c := int64(r.Intn(codes))
		if n == "encName" { // code 0 is reserved for the nil fall-back FullNameEncoder: 1 = no-op, 2 = "N"
			c = 1 + int64(r.Intn(2))
		}
		return trFld{n, tvList([]TV{tvInt(c)})}
	}
	obuf := []byte{}
	ons := int64(0)
	if r.Chance(2, 3) {
		obuf = []byte(`"c": 1`)
		if r.Chance(1, 3) {
			obuf, ons = []byte(`"n": {"c": 1`), 1
		}
	}
	le := []byte("\n")
	if r.Chance(1, 4) {
		le = []byte("\r\n")
	}
	sep := []byte("\t")
	if r.Chance(1, 3) {
		sep = []byte(" | ")
	}
	return []trFld{key("timeKey"), key("levelKey"), key("nameKey"), key("callerKey"), key("functionKey"), key("messageKey"),
		key("stacktraceKey"), {"lineEnding", tvBytes(le)}, {"consoleSep", tvBytes(sep)},
		fn("encTime", 2), fn("encLevel", 2), fn("encName", 3), fn("encCaller", 2),
		{"buf", tvBytes(nil)}, {"spaced", tvBool(true)}, {"openNs", tvInt(0)}, {"rbuf", tvList(nil)}, {"renc", tvList(nil)},
		{"o.buf", tvBytes(obuf)}, {"o.spaced", tvBool(true)}, {"o.openNs", tvInt(ons)}, {"self", tvList(nil)}, {"ev", tvList(nil)}}
}

func init() {
	trFns = append(trFns, trFn{table: "TransConsole", name: "EncodeEntry",
		hide: []string{"bufferpool.Get", "getSliceEncoder", "putSliceEncoder", "jsonEncoder.Clone", "Buffer.Free", "putJSONEncoder"},
		drop: []string{"buf", "spaced", "openNs", "rbuf", "renc", "ev"},
		gen: func(r *Rand) ([]TV, []trFld) {
			name := []byte{}
			if r.Bool() {
				name = []byte("lg")
			}
			stack := []byte{}
			if r.Chance(1, 3) {
				stack = []byte("st")
			}
			ent := tvList([]TV{tvInt(int64(r.Intn(7)) - 1), tvInt(int64(r.Intn(3)) * 1000), tvBytes(name), tvBytes([]byte("m")),
				tvList([]TV{tvBool(r.Bool()), tvBytes([]byte("fn")), tvList(nil)}), tvBytes(stack)})
			var ops []TV
			for i, k := 0, r.Intn(3); i < k; i++ {
				switch r.Intn(4) {
				case 0, 1:
					ops = append(ops, tvList([]TV{tvInt(0), genJeKey(r), tvBytes(r.Bytes(3))}))
				case 2:
					ops = append(ops, tvList([]TV{tvInt(1), genJeKey(r)}))
				default:
					m := genJeMarsh(r, true, 1)
					(*m.L)[1] = tvList(nil)
					ops = append(ops, tvList([]TV{tvInt(3), genJeKey(r), m}))
				}
			}
			return []TV{ent, tvList(ops)}, genConsoleFlds(r)
		},
		run: func(args []TV, flds []trFld) ([]TV, []trFld) {
			cfg := jeEntryCfg(flds)
			cfg.ConsoleSeparator = string(fldOf(flds, "consoleSep").bytes())
			// the column encoders append to the slice encoder: the same scripted functions serve
			_ = time.Now
			enc := zapcore.NewConsoleEncoder(cfg)
			v := reflect.ValueOf(enc)
			cv := reflect.New(v.Type()).Elem()
			cv.Set(v)
			je := unexported(cv.Addr(), "jsonEncoder") // the embedded *jsonEncoder
			b := unexported(je, "buf").Interface().(*buffer.Buffer)
			_, _ = b.Write(fldOf(flds, "o.buf").bytes())
			unexported(je, "openNamespaces").SetInt(fldOf(flds, "o.openNs").int64())
			out, err := enc.EncodeEntry(jeEntry(args[0]), jeFieldsOf(args[1]))
			var fl []trFld
			for _, f := range flds {
				switch f.N {
				case "buf", "spaced", "openNs", "rbuf", "renc", "ev":
					continue
				case "o.buf":
					f.V = tvBytes(append([]byte{}, b.Bytes()...))
				case "o.openNs":
					f.V = tvInt(unexported(je, "openNamespaces").Int())
				case "o.spaced":
					f.V = tvBool(unexported(je, "spaced").Bool())
				}
				fl = append(fl, f)
			}
			return []TV{tvBytes(append([]byte{}, out.Bytes()...)), jeErrIDs(err)}, fl
		}})
}
