package main

// trans_cores.go — CTR adapters for the tables TransCores and TransCEAdd: the REAL core algebra of zapcore
// (ioCore through NewCore, hooked through RegisterHooks, levelFilterCore through NewIncreaseLevelCore, multiCore's
// methods through go:linkname, CheckedEntry.AddCore/After/Should directly) over scripted encoders, sinks, sub-cores and
// hook functions that record every call.  The parameters of the Lean context (`Par`) are fixed functions of the
// scripted values, the same on both sides (Drv/CTR.lean):
//
//	receiver's level enabler  en l        = l is listed in the pseudo-field "#en"
//	sub-core.Enabled          cen c l     = (id(c) + l) even
//	sub-core.Check            chk c e ce  = cen c level(e) ? ce.AddCore(c) : ce

import (
	"errors"
	"reflect"
	"strconv"
	_ "unsafe"

	"go.uber.org/multierr"
	"go.uber.org/zap/buffer"
	"go.uber.org/zap/zapcore"
)

//go:linkname zapMultiCoreWrite go.uber.org/zap/zapcore.multiCore.Write
func zapMultiCoreWrite(mc []zapcore.Core, ent zapcore.Entry, fields []zapcore.Field) error

//go:linkname zapMultiCoreSync go.uber.org/zap/zapcore.multiCore.Sync
func zapMultiCoreSync(mc []zapcore.Core) error

//go:linkname zapMultiCoreCheck go.uber.org/zap/zapcore.multiCore.Check
func zapMultiCoreCheck(mc []zapcore.Core, ent zapcore.Entry, ce *zapcore.CheckedEntry) *zapcore.CheckedEntry

//go:linkname zapMultiCoreEnabled go.uber.org/zap/zapcore.multiCore.Enabled
func zapMultiCoreEnabled(mc []zapcore.Core, lvl zapcore.Level) bool

type trCoresState struct {
	ev      []TV
	ent, fs TV
}

func (s *trCoresState) rec(name string, vs ...TV) {
	s.ev = append(s.ev, tvList(append([]TV{tvBytes([]byte(name))}, vs...)))
}

func idsErr(ids TV) error {
	l := *ids.L
	if len(l) == 0 {
		return nil
	}
	e := trCEErr{}
	for _, id := range l {
		e.ids = append(e.ids, id.int64())
	}
	return e
}

func errIDs(err error) TV {
	var out []TV
	for _, e := range multierr.Errors(err) {
		var ce trCEErr
		if !errors.As(e, &ce) {
			panic("foreign error " + e.Error())
		}
		for _, id := range ce.ids {
			out = append(out, tvInt(id))
		}
	}
	return tvList(out)
}

// trSub is a scripted sub-core [id, writeErrs, syncErrs] (or any opaque value when only its identity matters).
type trSub struct {
	v  TV
	st *trCoresState
}

func (c *trSub) id() int64 {
	if c.v.L != nil && len(*c.v.L) > 0 && (*c.v.L)[0].I != nil {
		return (*c.v.L)[0].int64()
	}
	return 0
}
func trCen(id int64, l int64) bool                 { return (((id+l)%2)+2)%2 == 0 }
func (c *trSub) Enabled(l zapcore.Level) bool      { return trCen(c.id(), int64(l)) }
func (c *trSub) With([]zapcore.Field) zapcore.Core { return c }
func (c *trSub) Check(e zapcore.Entry, ce *zapcore.CheckedEntry) *zapcore.CheckedEntry {
	if c.Enabled(e.Level) {
		return ce.AddCore(e, c)
	}
	return ce
}
func (c *trSub) Write(zapcore.Entry, []zapcore.Field) error {
	c.st.rec("Core.Write", c.v, c.st.ent, c.st.fs)
	return idsErr((*c.v.L)[1])
}
func (c *trSub) Sync() error {
	c.st.rec("Core.Sync", c.v)
	return idsErr((*c.v.L)[2])
}

// a CheckedEntry value: nil = [] / [[cores…]]
func buildCE(v TV, ent zapcore.Entry, st *trCoresState) *zapcore.CheckedEntry {
	l := *v.L
	if len(l) == 0 {
		return nil
	}
	var ce *zapcore.CheckedEntry
	ce = ce.After(ent, nil)
	for _, c := range *l[0].L {
		ce = ce.AddCore(ent, &trSub{v: c, st: st})
	}
	return ce
}

func readCE(ce *zapcore.CheckedEntry, self zapcore.Core, selfV TV) TV {
	if ce == nil {
		return tvList(nil)
	}
	cores := unexported(reflect.ValueOf(ce), "cores")
	var out []TV
	for i := 0; i < cores.Len(); i++ {
		c := cores.Index(i).Interface().(zapcore.Core)
		if s, ok := c.(*trSub); ok {
			out = append(out, s.v)
		} else if c == self {
			out = append(out, selfV)
		} else {
			panic("unknown core in CheckedEntry")
		}
	}
	return tvList([]TV{tvList(out)})
}

// scripted encoder [bytes, errs] and sink [n, writeErrs, syncErrs]
type trEnc struct {
	zapcore.Encoder
	v  TV
	st *trCoresState
}

func (e *trEnc) Clone() zapcore.Encoder { return e }
func (e *trEnc) EncodeEntry(zapcore.Entry, []zapcore.Field) (*buffer.Buffer, error) {
	e.st.rec("Encoder.EncodeEntry", e.v, e.st.ent, e.st.fs)
	if err := idsErr((*e.v.L)[1]); err != nil {
		return nil, err
	}
	b := buffer.NewPool().Get()
	b.AppendBytes((*e.v.L)[0].bytes())
	return b, nil
}

type trOut struct {
	v  TV
	st *trCoresState
}

func (o *trOut) Write(p []byte) (int, error) {
	o.st.rec("WriteSyncer.Write", o.v, tvBytes(p))
	return int((*o.v.L)[0].int64()), idsErr((*o.v.L)[1])
}
func (o *trOut) Sync() error {
	o.st.rec("WriteSyncer.Sync", o.v)
	return idsErr((*o.v.L)[2])
}

func genErrIDs(r *Rand, base int) TV {
	var ids []TV
	if r.Chance(1, 3) {
		for j, m := 0, 1+r.Intn(2); j < m; j++ {
			ids = append(ids, tvInt(int64(base+j)))
		}
	}
	return tvList(ids)
}
func genSubs(r *Rand) TV {
	var l []TV
	for i, k := 0, r.Intn(5); i < k; i++ {
		l = append(l, tvList([]TV{tvInt(int64(r.Intn(7))), genErrIDs(r, 10*i), genErrIDs(r, 10*i+5)}))
	}
	return tvList(l)
}
func genCEVal(r *Rand) TV {
	if r.Chance(1, 3) {
		return tvList(nil)
	}
	return tvList([]TV{genSubs(r)})
}
func genEnt(r *Rand) TV { return tvList([]TV{tvInt(int64(r.Intn(9)) - 2)}) }
func genEn(r *Rand) TV {
	var l []TV
	for lv := int64(-2); lv <= 7; lv++ {
		if r.Bool() {
			l = append(l, tvInt(lv))
		}
	}
	return tvList(l)
}
func enabler(flds []trFld) zapcore.LevelEnabler {
	set := map[int64]bool{}
	for _, l := range *fldOf(flds, "#en").L {
		set[l.int64()] = true
	}
	return zapLevelFn(func(l zapcore.Level) bool { return set[int64(l)] })
}

type zapLevelFn func(zapcore.Level) bool

func (f zapLevelFn) Enabled(l zapcore.Level) bool { return f(l) }

func entOf(v TV) zapcore.Entry { return zapcore.Entry{Level: zapcore.Level((*v.L)[0].int64())} }

func setEv(flds []trFld, ev []TV) []trFld {
	out := append([]trFld{}, flds...)
	for i := range out {
		if out[i].N == "ev" {
			out[i].V = tvList(append(append([]TV{}, *out[i].V.L...), ev...))
		}
	}
	return out
}

func init() {
	ioGen := func(withFs bool) func(r *Rand) ([]TV, []trFld) {
		return func(r *Rand) ([]TV, []trFld) {
			flds := []trFld{
				{"enc", tvList([]TV{tvBytes(r.Bytes(4)), genErrIDs(r, 100)})},
				{"out", tvList([]TV{tvInt(int64(r.Intn(5))), genErrIDs(r, 200), genErrIDs(r, 300)})},
				{"self", tvInt(-1)}, {"ev", tvList(nil)}, {"#en", genEn(r)}}
			if withFs {
				return []TV{genEnt(r), tvList([]TV{tvInt(int64(r.Intn(3)))})}, flds
			}
			return []TV{genEnt(r), genCEVal(r)}, flds
		}
	}
	mkIO := func(flds []trFld, st *trCoresState) zapcore.Core {
		return zapcore.NewCore(&trEnc{Encoder: zapcore.NewJSONEncoder(zapcore.EncoderConfig{}), v: fldOf(flds, "enc"), st: st},
			&trOut{v: fldOf(flds, "out"), st: st}, enabler(flds))
	}
	subs := func(v TV, st *trCoresState) []zapcore.Core {
		var out []zapcore.Core
		for _, c := range *v.L {
			out = append(out, &trSub{v: c, st: st})
		}
		return out
	}
	mcFlds := func(r *Rand) []trFld { return []trFld{{"mc", genSubs(r)}, {"ev", tvList(nil)}} }
	hkGen := func(withFs bool) func(r *Rand) ([]TV, []trFld) {
		return func(r *Rand) ([]TV, []trFld) {
			var fns []TV
			for i, k := 0, r.Intn(4); i < k; i++ {
				fns = append(fns, tvList([]TV{tvInt(int64(i)), genErrIDs(r, 10*i)}))
			}
			flds := []trFld{{"core", tvList([]TV{tvInt(int64(r.Intn(7))), tvList(nil), tvList(nil)})}, {"funcs", tvList(fns)},
				{"self", tvInt(-1)}, {"ev", tvList(nil)}}
			if withFs {
				return []TV{genEnt(r), tvList([]TV{tvInt(int64(r.Intn(3)))})}, flds
			}
			return []TV{genEnt(r), genCEVal(r)}, flds
		}
	}
	mkHooked := func(flds []trFld, st *trCoresState) zapcore.Core {
		var fns []func(zapcore.Entry) error
		for _, f := range *fldOf(flds, "funcs").L {
			f := f
			fns = append(fns, func(zapcore.Entry) error {
				st.rec("HookFn", f, st.ent)
				return idsErr((*f.L)[1])
			})
		}
		return zapcore.RegisterHooks(&trSub{v: fldOf(flds, "core"), st: st}, fns...)
	}
	lfFlds := func(r *Rand) []trFld {
		return []trFld{{"core", tvList([]TV{tvInt(int64(r.Intn(7))), tvList(nil), tvList(nil)})}, {"level", tvInt(0)},
			{"self", tvInt(-1)}, {"ev", tvList(nil)}, {"#en", genEn(r)}}
	}
	mkLF := func(flds []trFld, st *trCoresState) zapcore.Core {
		inner := &trSub{v: fldOf(flds, "core"), st: st}
		c, err := zapcore.NewIncreaseLevelCore(allEnabled{inner}, enabler(flds))
		if err != nil {
			panic(err)
		}
		// the constructor wants an inner core that enables everything; the scripted one replaces it afterwards
		unexported(reflect.ValueOf(c), "core").Set(reflect.ValueOf(zapcore.Core(inner)))
		return c
	}
	trFns = append(trFns,
		trFn{table: "TransCores", name: "ioCore_Write", gen: ioGen(true),
			run: func(args []TV, flds []trFld) ([]TV, []trFld) {
				st := &trCoresState{ent: args[0], fs: args[1]}
				err := mkIO(flds, st).Write(entOf(args[0]), nil)
				return []TV{errIDs(err)}, setEv(flds, st.ev)
			}},
		trFn{table: "TransCores", name: "ioCore_Sync",
			gen: func(r *Rand) ([]TV, []trFld) { _, f := ioGen(true)(r); return nil, f },
			run: func(_ []TV, flds []trFld) ([]TV, []trFld) {
				st := &trCoresState{}
				err := mkIO(flds, st).Sync()
				return []TV{errIDs(err)}, setEv(flds, st.ev)
			}},
		trFn{table: "TransCores", name: "ioCore_Check", gen: ioGen(false),
			run: func(args []TV, flds []trFld) ([]TV, []trFld) {
				st := &trCoresState{ent: args[0]}
				c := mkIO(flds, st)
				ce := c.Check(entOf(args[0]), buildCE(args[1], entOf(args[0]), st))
				return []TV{readCE(ce, c, fldOf(flds, "self"))}, flds
			}},
		trFn{table: "TransCores", name: "multiCore_Write",
			gen: func(r *Rand) ([]TV, []trFld) {
				return []TV{genEnt(r), tvList([]TV{tvInt(int64(r.Intn(3)))})}, mcFlds(r)
			},
			run: func(args []TV, flds []trFld) ([]TV, []trFld) {
				st := &trCoresState{ent: args[0], fs: args[1]}
				err := zapMultiCoreWrite(subs(fldOf(flds, "mc"), st), entOf(args[0]), nil)
				return []TV{errIDs(err)}, setEv(flds, st.ev)
			}},
		trFn{table: "TransCores", name: "multiCore_Sync",
			gen: func(r *Rand) ([]TV, []trFld) { return nil, mcFlds(r) },
			run: func(_ []TV, flds []trFld) ([]TV, []trFld) {
				st := &trCoresState{}
				err := zapMultiCoreSync(subs(fldOf(flds, "mc"), st))
				return []TV{errIDs(err)}, setEv(flds, st.ev)
			}},
		trFn{table: "TransCores", name: "multiCore_Check",
			gen: func(r *Rand) ([]TV, []trFld) { return []TV{genEnt(r), genCEVal(r)}, mcFlds(r) },
			run: func(args []TV, flds []trFld) ([]TV, []trFld) {
				st := &trCoresState{ent: args[0]}
				mc := subs(fldOf(flds, "mc"), st)
				// the cores added must be reported by VALUE: map the instances back
				ce := zapMultiCoreCheck(mc, entOf(args[0]), buildCE(args[1], entOf(args[0]), st))
				return []TV{readCE(ce, nil, TV{})}, flds
			}},
		trFn{table: "TransCores", name: "multiCore_Enabled",
			gen: func(r *Rand) ([]TV, []trFld) { return []TV{tvInt(int64(r.Intn(9)) - 2)}, mcFlds(r) },
			run: func(args []TV, flds []trFld) ([]TV, []trFld) {
				st := &trCoresState{}
				return []TV{tvBool(zapMultiCoreEnabled(subs(fldOf(flds, "mc"), st), zapcore.Level(args[0].int64())))}, flds
			}},
		trFn{table: "TransCores", name: "hooked_Check", gen: hkGen(false),
			run: func(args []TV, flds []trFld) ([]TV, []trFld) {
				st := &trCoresState{ent: args[0]}
				h := mkHooked(flds, st)
				ce := h.Check(entOf(args[0]), buildCE(args[1], entOf(args[0]), st))
				return []TV{readCE(ce, h, fldOf(flds, "self"))}, flds
			}},
		trFn{table: "TransCores", name: "hooked_Write", gen: hkGen(true),
			run: func(args []TV, flds []trFld) ([]TV, []trFld) {
				st := &trCoresState{ent: args[0], fs: args[1]}
				err := mkHooked(flds, st).Write(entOf(args[0]), nil)
				return []TV{errIDs(err)}, setEv(flds, st.ev)
			}},
		trFn{table: "TransCores", name: "levelFilterCore_Enabled",
			gen: func(r *Rand) ([]TV, []trFld) { return []TV{tvInt(int64(r.Intn(9)) - 2)}, lfFlds(r) },
			run: func(args []TV, flds []trFld) ([]TV, []trFld) {
				st := &trCoresState{}
				return []TV{tvBool(mkLF(flds, st).Enabled(zapcore.Level(args[0].int64())))}, flds
			}},
		trFn{table: "TransCores", name: "levelFilterCore_Check",
			gen: func(r *Rand) ([]TV, []trFld) { return []TV{genEnt(r), genCEVal(r)}, lfFlds(r) },
			run: func(args []TV, flds []trFld) ([]TV, []trFld) {
				st := &trCoresState{ent: args[0]}
				c := mkLF(flds, st)
				ce := c.Check(entOf(args[0]), buildCE(args[1], entOf(args[0]), st))
				return []TV{readCE(ce, c, fldOf(flds, "self"))}, flds
			}},
	)

	// ---- TransCEAdd: AddCore / After / Should on a real *CheckedEntry whose state is set and read with reflect
	type ceState struct {
		isnil, dirty bool
	}
	ceGen := func(hookArg bool) func(r *Rand) ([]TV, []trFld) {
		return func(r *Rand) ([]TV, []trFld) {
			opt := func() TV {
				if r.Bool() {
					return tvList([]TV{tvInt(int64(r.Intn(9)))})
				}
				return tvList(nil)
			}
			var cores []TV
			for i, k := 0, r.Intn(4); i < k; i++ {
				cores = append(cores, tvInt(int64(r.Intn(50))))
			}
			flds := []trFld{{"isnil", tvBool(r.Chance(1, 3))}, {"dirty", tvBool(r.Chance(1, 4))}, {"eo", opt()}, {"after", opt()},
				{"cores", tvList(cores)}, {"entry", tvInt(int64(r.Intn(100)))}, {"self", tvInt(-1)}}
			second := tvInt(int64(100 + r.Intn(50)))
			if hookArg {
				second = opt()
			}
			return []TV{tvInt(int64(200 + r.Intn(100))), second}, flds
		}
	}
	entMsg := func(v TV) zapcore.Entry { return zapcore.Entry{Message: *v.I} }
	hookOf := func(v TV) zapcore.CheckWriteHook {
		if l := *v.L; len(l) > 0 {
			return trIDHook{l[0].int64()}
		}
		return nil
	}
	build := func(flds []trFld) *zapcore.CheckedEntry {
		if *fldOf(flds, "isnil").B {
			return nil
		}
		var ce *zapcore.CheckedEntry
		ce = ce.After(entMsg(fldOf(flds, "entry")), hookOf(fldOf(flds, "after")))
		for _, c := range *fldOf(flds, "cores").L {
			ce = ce.AddCore(entMsg(fldOf(flds, "entry")), trIDCore{c.int64()})
		}
		if l := *fldOf(flds, "eo").L; len(l) > 0 {
			ce.ErrorOutput = trIDOut{l[0].int64()}
		}
		unexported(reflect.ValueOf(ce), "dirty").SetBool(*fldOf(flds, "dirty").B)
		return ce
	}
	read := func(ce *zapcore.CheckedEntry, flds []trFld) []trFld {
		v := reflect.ValueOf(ce)
		var cores []TV
		cs := unexported(v, "cores")
		for i := 0; i < cs.Len(); i++ {
			cores = append(cores, tvInt(cs.Index(i).Interface().(trIDCore).id))
		}
		eo, after := tvList(nil), tvList(nil)
		if o, ok := ce.ErrorOutput.(trIDOut); ok {
			eo = tvList([]TV{tvInt(o.id)})
		}
		if h := unexported(v, "after"); !h.IsNil() {
			after = tvList([]TV{tvInt(h.Interface().(trIDHook).id)})
		}
		n, _ := strconv.ParseInt(ce.Message, 10, 64)
		return []trFld{{"isnil", tvBool(false)}, {"dirty", tvBool(unexported(v, "dirty").Bool())}, {"eo", eo}, {"after", after},
			{"cores", tvList(cores)}, {"entry", tvInt(n)}, {"self", fldOf(flds, "self")}}
	}
	trFns = append(trFns,
		trFn{table: "TransCEAdd", name: "AddCore", gen: ceGen(false),
			run: func(args []TV, flds []trFld) ([]TV, []trFld) {
				ce := build(flds).AddCore(entMsg(args[0]), trIDCore{args[1].int64()})
				return []TV{fldOf(flds, "self")}, read(ce, flds)
			}},
		trFn{table: "TransCEAdd", name: "After", gen: ceGen(true),
			run: func(args []TV, flds []trFld) ([]TV, []trFld) {
				ce := build(flds).After(entMsg(args[0]), hookOf(args[1]))
				return []TV{fldOf(flds, "self")}, read(ce, flds)
			}},
		trFn{table: "TransCEAdd", name: "Should", gen: ceGen(true),
			run: func(args []TV, flds []trFld) ([]TV, []trFld) {
				var ce *zapcore.CheckedEntry
				if h := hookOf(args[1]); h != nil {
					ce = build(flds).After(entMsg(args[0]), h) // Should takes a CheckWriteAction; After is what it calls
				} else {
					ce = build(flds).After(entMsg(args[0]), nil)
				}
				return []TV{fldOf(flds, "self")}, read(ce, flds)
			}},
	)
}

type allEnabled struct{ zapcore.Core }

func (allEnabled) Enabled(zapcore.Level) bool { return true }

type trIDCore struct{ id int64 }

func (trIDCore) Enabled(zapcore.Level) bool                                         { return true }
func (c trIDCore) With([]zapcore.Field) zapcore.Core                                { return c }
func (c trIDCore) Check(zapcore.Entry, *zapcore.CheckedEntry) *zapcore.CheckedEntry { return nil }
func (trIDCore) Write(zapcore.Entry, []zapcore.Field) error                         { return nil }
func (trIDCore) Sync() error                                                        { return nil }

type trIDOut struct{ id int64 }

func (trIDOut) Write(p []byte) (int, error) { return len(p), nil }
func (trIDOut) Sync() error                 { return nil }

type trIDHook struct{ id int64 }

func (trIDHook) OnWrite(*zapcore.CheckedEntry, []zapcore.Field) {}
