package main

// trans_ctor.go — CTR adapters for the table TransCtor (round 4): the REAL NewIncreaseLevelCore, NewTee,
// multiCore.Level (go:linkname) and levelFilterCore.Level (through the leveled core NewIncreaseLevelCore returns).
//
// A core / an enabler is the value [kind, level, enabled levels] of trans_level.go (kind 1 knows its level); `LevelOf` of
// such a value is the REAL zapcore.LevelOf on the Go side and the scan proved about it (`levelOfSpec`) on the Lean side.
// Results are observed with reflect (the wrapped core and enabler ARE the arguments) and re-encoded as the records the
// translated functions build; the error of NewIncreaseLevelCore is matched against its text for each level.

import (
	"fmt"
	"reflect"
	_ "unsafe"

	"go.uber.org/zap/zapcore"
)

//go:linkname zapMultiCoreLevel go.uber.org/zap/zapcore.multiCore.Level
func zapMultiCoreLevel(mc []zapcore.Core) zapcore.Level

type trLvCore struct {
	zapcore.LevelEnabler
	v TV
}

func (c *trLvCore) With([]zapcore.Field) zapcore.Core { return c }
func (c *trLvCore) Sync() error                       { return nil }
func (c *trLvCore) Check(e zapcore.Entry, ce *zapcore.CheckedEntry) *zapcore.CheckedEntry {
	return ce
}
func (c *trLvCore) Write(zapcore.Entry, []zapcore.Field) error { return nil }

type trLvCoreLeveled struct {
	*trLvCore
	lvl zapcore.Level
}

func (c trLvCoreLeveled) Level() zapcore.Level { return c.lvl }

func trEnabOf(v TV) zapcore.LevelEnabler {
	e := *v.L
	te := trEnab{enabled: map[zapcore.Level]bool{}}
	for _, l := range *e[2].L {
		te.enabled[zapcore.Level(l.int64())] = true
	}
	if e[0].int64() == 1 {
		return trLeveled{te, zapcore.Level(e[1].int64())}
	}
	return te
}

func trCoreOf(v TV) zapcore.Core {
	c := &trLvCore{LevelEnabler: trEnabOf(v), v: v}
	if (*v.L)[0].int64() == 1 {
		return trLvCoreLeveled{c, zapcore.Level((*v.L)[1].int64())}
	}
	return c
}

func trCoreVal(c zapcore.Core) TV {
	switch t := c.(type) {
	case *trLvCore:
		return t.v
	case trLvCoreLeveled:
		return t.v
	}
	panic(fmt.Sprintf("foreign core %T", c))
}

func genEnabVal(r *Rand) TV {
	var en []TV
	for l := -2; l <= 7; l++ {
		if r.Chance(1, 3) {
			en = append(en, tvInt(int64(l)))
		}
	}
	kind := int64(0)
	if r.Chance(1, 4) {
		kind = 1
	}
	return tvList([]TV{tvInt(kind), tvInt(int64(r.Intn(10)) - 2), tvList(en)})
}

func init() {
	const incrFmt = "invalid increase level, as level %q is allowed by increased level, but not by existing core"
	trFns = append(trFns,
		trFn{table: "TransCtor", name: "NewIncreaseLevelCore",
			gen: func(r *Rand) ([]TV, []trFld) {
				c := genEnabVal(r)
				if r.Bool() { // often valid: the filter enables a subset
					var sub []TV
					for _, l := range *(*c.L)[2].L {
						if r.Bool() {
							sub = append(sub, l)
						}
					}
					return []TV{c, tvList([]TV{tvInt(0), tvInt(0), tvList(sub)})}, nil
				}
				return []TV{c, genEnabVal(r)}, nil
			},
			run: func(args []TV, _ []trFld) ([]TV, []trFld) {
				core, level := trCoreOf(args[0]), trEnabOf(args[1])
				res, err := zapcore.NewIncreaseLevelCore(core, level)
				if err != nil {
					if res != nil {
						panic("core and error")
					}
					for l := 5; l >= -1; l-- {
						if err.Error() == fmt.Sprintf(incrFmt, zapcore.Level(l)) {
							return []TV{tvList(nil), tvList([]TV{tvList([]TV{tvBytes([]byte("fmt.Errorf")), tvBytes([]byte(incrFmt)), tvInt(int64(l))})})}, nil
						}
					}
					return []TV{tvList(nil), tvList([]TV{tvBytes([]byte(err.Error()))})}, nil
				}
				rv := reflect.ValueOf(res).Elem()
				if unexported(rv.Addr(), "core").Interface().(zapcore.Core) != core || !reflect.DeepEqual(unexported(rv.Addr(), "level").Interface(), level) {
					panic("the filter does not hold the arguments")
				}
				return []TV{tvList([]TV{tvList([]TV{args[0], args[1]})}), tvList(nil)}, nil
			}},
		trFn{table: "TransCtor", name: "levelFilterCore_Level",
			gen: func(r *Rand) ([]TV, []trFld) {
				return nil, []trFld{{"core", tvList([]TV{tvInt(0), tvInt(0), tvList([]TV{tvInt(-1), tvInt(0), tvInt(1), tvInt(2), tvInt(3), tvInt(4), tvInt(5)})})},
					{"level", genEnabVal(r)}}
			},
			run: func(_ []TV, flds []trFld) ([]TV, []trFld) {
				res, err := zapcore.NewIncreaseLevelCore(trCoreOf(fldOf(flds, "core")), trEnabOf(fldOf(flds, "level")))
				if err != nil { // not constructible: the level of the filter's enabler, as the method would report it
					return []TV{tvInt(int64(zapcore.LevelOf(trEnabOf(fldOf(flds, "level")))))}, flds
				}
				return []TV{tvInt(int64(res.(interface{ Level() zapcore.Level }).Level()))}, flds
			}},
		trFn{table: "TransCtor", name: "NewTee",
			gen: func(r *Rand) ([]TV, []trFld) {
				var cs []TV
				for i, k := 0, Pick(r, []int{0, 1, 1, 2, 3}); i < k; i++ {
					cs = append(cs, genEnabVal(r))
				}
				return []TV{tvList(cs)}, nil
			},
			run: func(args []TV, _ []trFld) ([]TV, []trFld) {
				var cs []zapcore.Core
				for _, v := range *args[0].L {
					cs = append(cs, trCoreOf(v))
				}
				res := zapcore.NewTee(cs...)
				switch {
				case len(cs) == 0:
					if fmt.Sprintf("%T", res) != "zapcore.nopCore" {
						panic("not the no-op core")
					}
					return []TV{tvList([]TV{tvBytes([]byte("nop"))})}, nil
				case len(cs) == 1:
					return []TV{trCoreVal(res)}, nil
				}
				rv := reflect.ValueOf(res)
				var out []TV
				for i := 0; i < rv.Len(); i++ {
					out = append(out, trCoreVal(rv.Index(i).Interface().(zapcore.Core)))
				}
				return []TV{tvList([]TV{tvList(out)})}, nil
			}},
		trFn{table: "TransCtor", name: "multiCore_Level",
			gen: func(r *Rand) ([]TV, []trFld) {
				var cs []TV
				for i, k := 0, r.Intn(4); i < k; i++ {
					cs = append(cs, genEnabVal(r))
				}
				return nil, []trFld{{"mc", tvList(cs)}}
			},
			run: func(_ []TV, flds []trFld) ([]TV, []trFld) {
				var cs []zapcore.Core
				for _, v := range *fldOf(flds, "mc").L {
					cs = append(cs, trCoreOf(v))
				}
				return []TV{tvInt(int64(zapMultiCoreLevel(cs)))}, flds
			}},
	)
}
