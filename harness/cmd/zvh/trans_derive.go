package main

// trans_derive.go — CTR adapters for the table TransDerive (round 4): the REAL (*Logger).clone (go:linkname), Named,
// With, WithOptions, WithLazy; ioCore.clone / With (through zapcore.NewCore), multiCore.With (go:linkname), sampler /
// hooked / levelFilterCore / contextObserver With (through their constructors) and the lazyWithCore methods (through
// zapcore.NewLazyWith; initOnce by go:linkname).
//
//   - a core is the value it is given; `With(fields)` of a scripted core is ["with", core, fields]; a field is [k] (an Int
//     field with key k); Enabled(l) is l ≥ 0; Check adds the core to the entry; Write / Sync are recorded and succeed.
//   - a Logger: `core`, `name`, `development`, `addCaller`, `callerSkip` are set with reflect and read back; the five other
//     fields are compared by identity with the receiver's (the value `[]` stands for "the receiver's"; anything else is
//     reported as `[1]`).  Options: [0, v] AddCallerSkip(v), [1, 0] Development(), [2, v] WrapCore(c ↦ ["wrap", c, v]).
//     The core `WithLazy` installs is read back from the real *lazyWithCore as ["lazy", core, fields].
//   - the derived cores are read back with reflect; parts that must be THE receiver's are compared by identity.
//   - an encoder is the value it is given; Clone is ["clone", enc]; the fields added to it are collected: ["add", enc, fields].

import (
	"reflect"
	"strconv"
	"time"
	"unsafe"

	"go.uber.org/zap"
	"go.uber.org/zap/zapcore"
	"go.uber.org/zap/zaptest/observer"
)

//go:linkname zapLoggerClone go.uber.org/zap.(*Logger).clone
func zapLoggerClone(l *zap.Logger) *zap.Logger

//go:linkname zapIoCoreClone go.uber.org/zap/zapcore.(*ioCore).clone
func zapIoCoreClone(c unsafe.Pointer) unsafe.Pointer

//go:linkname zapMultiCoreWith go.uber.org/zap/zapcore.multiCore.With
func zapMultiCoreWith(mc []zapcore.Core, fields []zapcore.Field) zapcore.Core

//go:linkname zapLazyInitOnce go.uber.org/zap/zapcore.(*lazyWithCore).initOnce
func zapLazyInitOnce(d unsafe.Pointer)

type trDState struct{ ev []TV }

type trDCore struct {
	v  TV
	st *trDState
}

func (c *trDCore) Enabled(l zapcore.Level) bool { return l >= 0 }
func (c *trDCore) With(fs []zapcore.Field) zapcore.Core {
	return &trDCore{v: named("with", c.v, trDFieldsTV(fs)), st: c.st}
}
func (c *trDCore) Check(e zapcore.Entry, ce *zapcore.CheckedEntry) *zapcore.CheckedEntry {
	return ce.AddCore(e, c)
}
func (c *trDCore) Write(e zapcore.Entry, fs []zapcore.Field) error {
	c.st.ev = append(c.st.ev, named("Core.Write", c.v, tvList([]TV{tvInt(int64(e.Level)), tvList(nil)}), trDFieldsTV(fs)))
	return nil
}
func (c *trDCore) Sync() error {
	c.st.ev = append(c.st.ev, named("Core.Sync", c.v))
	return nil
}

func trDFields(v TV) []zapcore.Field {
	var out []zapcore.Field
	for _, f := range *v.L {
		out = append(out, zap.Int(strconv.FormatInt((*f.L)[0].int64(), 10), 0))
	}
	return out
}

func trDFieldsTV(fs []zapcore.Field) TV {
	var out []TV
	for _, f := range fs {
		k, err := strconv.ParseInt(f.Key, 10, 64)
		must(err)
		out = append(out, tvList([]TV{tvInt(k)}))
	}
	return tvList(out)
}

func genDFields(r *Rand) TV {
	var out []TV
	for i, k := 0, Pick(r, []int{0, 1, 1, 2, 3}); i < k; i++ {
		out = append(out, tvList([]TV{tvInt(int64(r.Intn(9)))}))
	}
	return tvList(out)
}

// the value of any core the real code can hand back
func trDCoreTV(c zapcore.Core) TV {
	if c == nil {
		return tvList(nil)
	}
	if d, ok := c.(*trDCore); ok {
		return d.v
	}
	rv := reflect.ValueOf(c)
	if rv.Kind() == reflect.Ptr && rv.Elem().Type().String() == "zapcore.lazyWithCore" {
		orig := unexported(rv, "originalCore").Interface().(zapcore.Core)
		fs := unexported(rv, "fields").Interface().([]zapcore.Field)
		return named("lazy", trDCoreTV(orig), trDFieldsTV(fs))
	}
	panic("foreign core " + rv.Type().String())
}

var lgOpaque = []string{"onPanic", "onFatal", "errorOutput", "addStack", "clock"}
var lgAll = []string{"core", "development", "addCaller", "onPanic", "onFatal", "name", "errorOutput", "addStack", "callerSkip", "clock"}

func genLgFlds(r *Rand, prefix string) []trFld {
	name := []byte{}
	if r.Bool() {
		name = []byte(Pick(r, []string{"a", "svc", "a.b"}))
	}
	vals := map[string]TV{"core": tvList([]TV{tvInt(int64(r.Intn(5)))}), "development": tvBool(r.Bool()), "addCaller": tvBool(r.Bool()),
		"name": tvBytes(name), "callerSkip": tvInt(int64(r.Intn(4)))}
	var out []trFld
	for _, n := range lgAll {
		v, ok := vals[n]
		if !ok {
			v = tvList(nil)
		}
		out = append(out, trFld{prefix + n, v})
	}
	return out
}

func genLgEnv(r *Rand) []trFld {
	out := genLgFlds(r, "")
	out = append(out, trFld{"self", tvList([]TV{tvInt(100)})})
	out = append(out, genLgFlds(r, "o.")...)
	return append(out, trFld{"o.self", tvList([]TV{tvInt(200)})}, trFld{"ev", tvList(nil)})
}

func mkDLogger(flds []trFld, prefix string, st *trDState) *zap.Logger {
	lg := zap.New(&trDCore{v: fldOf(flds, prefix+"core"), st: st})
	rv := reflect.ValueOf(lg)
	unexported(rv, "name").SetString(string(fldOf(flds, prefix+"name").bytes()))
	unexported(rv, "development").SetBool(*fldOf(flds, prefix+"development").B)
	unexported(rv, "addCaller").SetBool(*fldOf(flds, prefix+"addCaller").B)
	unexported(rv, "callerSkip").SetInt(fldOf(flds, prefix+"callerSkip").int64())
	return lg
}

// the ten fields of `res` as values, the opaque ones relative to `recv`
func lgFieldTVs(res, recv *zap.Logger) map[string]TV {
	rv, rr := reflect.ValueOf(res), reflect.ValueOf(recv)
	out := map[string]TV{
		"core":        trDCoreTV(res.Core()),
		"development": tvBool(unexported(rv, "development").Bool()),
		"addCaller":   tvBool(unexported(rv, "addCaller").Bool()),
		"name":        tvBytes([]byte(res.Name())),
		"callerSkip":  tvInt(unexported(rv, "callerSkip").Int()),
	}
	for _, n := range lgOpaque {
		a, b := unexported(rv, n).Interface(), unexported(rr, n).Interface()
		if reflect.DeepEqual(a, b) {
			out[n] = tvList(nil)
		} else {
			out[n] = tvList([]TV{tvInt(1)})
		}
	}
	return out
}

func setLg(flds []trFld, prefix string, vals map[string]TV) []trFld {
	out := append([]trFld(nil), flds...)
	for i := range out {
		for _, n := range lgAll {
			if out[i].N == prefix+n {
				out[i].V = vals[n]
			}
		}
	}
	return out
}

func trDOption(v TV) zap.Option {
	l := *v.L
	switch l[0].int64() {
	case 0:
		return zap.AddCallerSkip(int(l[1].int64()))
	case 1:
		return zap.Development()
	}
	return zap.WrapCore(func(c zapcore.Core) zapcore.Core {
		d := c.(*trDCore)
		return &trDCore{v: named("wrap", d.v, l[1]), st: d.st}
	})
}

// derived(lg, res): the result value and the environment afterwards, for the methods whose clone is the SECOND object
func lgDerived(flds []trFld, lg, res *zap.Logger) ([]TV, []trFld) {
	if res == lg {
		return []TV{fldOf(flds, "self")}, flds
	}
	return []TV{fldOf(flds, "o.self")}, setLg(flds, "o.", lgFieldTVs(res, lg))
}

type trDEnc struct {
	zapcore.Encoder
	v     TV
	added []TV
}

func (e *trDEnc) Clone() zapcore.Encoder { return &trDEnc{v: named("clone", e.v)} }
func (e *trDEnc) AddInt64(k string, _ int64) {
	n, err := strconv.ParseInt(k, 10, 64)
	must(err)
	e.added = append(e.added, tvList([]TV{tvInt(n)}))
}
func (e *trDEnc) tv() TV { return named("add", e.v, tvList(e.added)) }

type trDSink struct{ id int }

func (s *trDSink) Write(p []byte) (int, error) { return len(p), nil }
func (s *trDSink) Sync() error                 { return nil }

func same(a, b TV, eq bool) TV {
	if eq {
		return a
	}
	return tvList([]TV{tvInt(-1), b})
}

func init() {
	lgFn := func(name string, gen func(r *Rand) []TV, run func(lg *zap.Logger, args []TV) *zap.Logger) trFn {
		return trFn{table: "TransDerive", name: name,
			gen: func(r *Rand) ([]TV, []trFld) { return gen(r), genLgEnv(r) },
			run: func(args []TV, flds []trFld) ([]TV, []trFld) {
				lg := mkDLogger(flds, "", &trDState{})
				return lgDerived(flds, lg, run(lg, args))
			}}
	}
	seg := func(r *Rand) []TV { return []TV{tvBytes([]byte(Pick(r, []string{"", "", "x", "sub", "a.b"})))} }
	fieldsArg := func(r *Rand) []TV { return []TV{genDFields(r)} }
	trFns = append(trFns,
		lgFn("Logger_clone", func(r *Rand) []TV { return nil }, func(lg *zap.Logger, _ []TV) *zap.Logger { return zapLoggerClone(lg) }),
		lgFn("Logger_Named", seg, func(lg *zap.Logger, a []TV) *zap.Logger { return lg.Named(string(a[0].bytes())) }),
		lgFn("Logger_With", fieldsArg, func(lg *zap.Logger, a []TV) *zap.Logger { return lg.With(trDFields(a[0])...) }),
		trFn{table: "TransDerive", name: "Logger_WithOptions",
			gen: func(r *Rand) ([]TV, []trFld) {
				var opts []TV
				for i, k := 0, r.Intn(4); i < k; i++ {
					opts = append(opts, tvList([]TV{tvInt(int64(r.Intn(3))), tvInt(int64(r.Intn(3)))}))
				}
				return []TV{tvList(opts)}, genLgEnv(r)
			},
			run: func(args []TV, flds []trFld) ([]TV, []trFld) {
				lg := mkDLogger(flds, "o.", &trDState{}) // the receiver is read through the SECOND object here
				var opts []zap.Option
				for _, o := range *args[0].L {
					opts = append(opts, trDOption(o))
				}
				res := lg.WithOptions(opts...)
				if res == lg {
					panic("WithOptions returned the receiver")
				}
				return []TV{fldOf(flds, "self")}, setLg(flds, "", lgFieldTVs(res, lg))
			}},
		trFn{table: "TransDerive", name: "Logger_WithLazy",
			gen: func(r *Rand) ([]TV, []trFld) { return fieldsArg(r), genLgEnv(r) },
			run: func(args []TV, flds []trFld) ([]TV, []trFld) {
				lg := mkDLogger(flds, "", &trDState{})
				res := lg.WithLazy(trDFields(args[0])...)
				if res == lg {
					return []TV{fldOf(flds, "self")}, flds
				}
				vals := lgFieldTVs(res, lg)
				var out []TV
				for _, n := range lgAll {
					out = append(out, vals[n])
				}
				return []TV{tvList(out)}, flds
			}},
	)

	// ---- the cores
	en := tvList([]TV{tvInt(7)})
	ioEnv := func(r *Rand) []trFld {
		return []trFld{{"en", en}, {"enc", tvList([]TV{tvInt(int64(r.Intn(5)))})}, {"out", tvList([]TV{tvInt(9)})}, {"ev", tvList(nil)}}
	}
	mkIo := func(flds []trFld) (zapcore.Core, *trDEnc, *trDSink, zapcore.LevelEnabler) {
		enc, sink, lv := &trDEnc{v: fldOf(flds, "enc")}, &trDSink{}, zapcore.LevelEnabler(zapcore.WarnLevel)
		return zapcore.NewCore(enc, sink, lv), enc, sink, lv
	}
	ioTV := func(flds []trFld, c reflect.Value, sink *trDSink, lv zapcore.LevelEnabler, withAdded bool) TV {
		e := unexported(c, "enc").Interface().(*trDEnc)
		etv := e.v
		if withAdded {
			etv = e.tv()
		}
		return tvList([]TV{
			same(fldOf(flds, "en"), tvInt(0), unexported(c, "LevelEnabler").Interface() == lv), etv,
			same(fldOf(flds, "out"), tvInt(0), unexported(c, "out").Interface() == zapcore.WriteSyncer(sink))})
	}
	trFns = append(trFns,
		trFn{table: "TransDerive", name: "ioCore_clone",
			gen: func(r *Rand) ([]TV, []trFld) { return nil, ioEnv(r) },
			run: func(_ []TV, flds []trFld) ([]TV, []trFld) {
				c, _, sink, lv := mkIo(flds)
				rc := reflect.ValueOf(c)
				cl := reflect.NewAt(rc.Type().Elem(), zapIoCoreClone(rc.UnsafePointer()))
				return []TV{ioTV(flds, cl, sink, lv, false)}, flds
			}},
		trFn{table: "TransDerive", name: "ioCore_With",
			gen: func(r *Rand) ([]TV, []trFld) { return fieldsArg(r), ioEnv(r) },
			run: func(args []TV, flds []trFld) ([]TV, []trFld) {
				c, enc, sink, lv := mkIo(flds)
				res := c.With(trDFields(args[0]))
				if len(enc.added) != 0 {
					panic("the receiver's encoder was written")
				}
				return []TV{tvList([]TV{ioTV(flds, reflect.ValueOf(res), sink, lv, true)})}, flds
			}},
		trFn{table: "TransDerive", name: "multiCore_With",
			gen: func(r *Rand) ([]TV, []trFld) {
				var cs []TV
				for i, k := 0, r.Intn(4); i < k; i++ {
					cs = append(cs, tvList([]TV{tvInt(int64(i))}))
				}
				return fieldsArg(r), []trFld{{"mc", tvList(cs)}, {"ev", tvList(nil)}}
			},
			run: func(args []TV, flds []trFld) ([]TV, []trFld) {
				st := &trDState{}
				var cs []zapcore.Core
				for _, v := range *fldOf(flds, "mc").L {
					cs = append(cs, &trDCore{v: v, st: st})
				}
				rv := reflect.ValueOf(zapMultiCoreWith(cs, trDFields(args[0])))
				var out []TV
				for i := 0; i < rv.Len(); i++ {
					out = append(out, trDCoreTV(rv.Index(i).Interface().(zapcore.Core)))
				}
				return []TV{tvList([]TV{tvList(out)})}, flds
			}},
		trFn{table: "TransDerive", name: "sampler_With",
			gen: func(r *Rand) ([]TV, []trFld) {
				return fieldsArg(r), []trFld{{"core", tvList([]TV{tvInt(int64(r.Intn(5)))})}, {"counts", tvList([]TV{tvInt(1)})}, {"tick", tvList([]TV{tvInt(2)})},
					{"first", tvList([]TV{tvInt(3)})}, {"thereafter", tvList([]TV{tvInt(4)})}, {"hook", tvList([]TV{tvInt(5)})}, {"ev", tvList(nil)}}
			},
			run: func(args []TV, flds []trFld) ([]TV, []trFld) {
				s := zapcore.NewSamplerWithOptions(&trDCore{v: fldOf(flds, "core"), st: &trDState{}}, time.Second, 3, 7)
				a, b := reflect.ValueOf(s), reflect.ValueOf(s.With(trDFields(args[0])))
				eq := func(n string) TV {
					x, y := unexported(a, n), unexported(b, n)
					ok := false
					switch x.Kind() {
					case reflect.Func, reflect.Ptr:
						ok = x.Pointer() == y.Pointer()
					default:
						ok = reflect.DeepEqual(x.Interface(), y.Interface())
					}
					return same(fldOf(flds, n), tvInt(0), ok)
				}
				return []TV{tvList([]TV{tvList([]TV{trDCoreTV(unexported(b, "Core").Interface().(zapcore.Core)), eq("counts"), eq("tick"), eq("first"),
					eq("thereafter"), eq("hook")})})}, flds
			}},
		trFn{table: "TransDerive", name: "hooked_With",
			gen: func(r *Rand) ([]TV, []trFld) {
				return fieldsArg(r), []trFld{{"core", tvList([]TV{tvInt(int64(r.Intn(5)))})}, {"funcs", tvList([]TV{tvInt(1)})}, {"ev", tvList(nil)}}
			},
			run: func(args []TV, flds []trFld) ([]TV, []trFld) {
				h := zapcore.RegisterHooks(&trDCore{v: fldOf(flds, "core"), st: &trDState{}}, func(zapcore.Entry) error { return nil })
				a, b := reflect.ValueOf(h), reflect.ValueOf(h.With(trDFields(args[0])))
				fa, fb := unexported(a, "funcs"), unexported(b, "funcs")
				ok := fa.Len() == fb.Len() && fa.Pointer() == fb.Pointer()
				return []TV{tvList([]TV{tvList([]TV{trDCoreTV(unexported(b, "Core").Interface().(zapcore.Core)), same(fldOf(flds, "funcs"), tvInt(0), ok)})})}, flds
			}},
		trFn{table: "TransDerive", name: "levelFilterCore_With",
			gen: func(r *Rand) ([]TV, []trFld) {
				return fieldsArg(r), []trFld{{"core", tvList([]TV{tvInt(int64(r.Intn(5)))})}, {"level", tvList([]TV{tvInt(1)})}, {"ev", tvList(nil)}}
			},
			run: func(args []TV, flds []trFld) ([]TV, []trFld) {
				lv := zapcore.LevelEnabler(zapcore.ErrorLevel)
				c, err := zapcore.NewIncreaseLevelCore(&trDCore{v: fldOf(flds, "core"), st: &trDState{}}, lv)
				must(err)
				b := reflect.ValueOf(c.With(trDFields(args[0])))
				return []TV{tvList([]TV{tvList([]TV{trDCoreTV(unexported(b, "core").Interface().(zapcore.Core)),
					same(fldOf(flds, "level"), tvInt(0), unexported(b, "level").Interface() == lv)})})}, flds
			}},
		trFn{table: "TransDerive", name: "contextObserver_With",
			gen: func(r *Rand) ([]TV, []trFld) {
				return fieldsArg(r), []trFld{{"en", en}, {"logs", tvList([]TV{tvInt(1)})}, {"context", genDFields(r)}, {"ev", tvList(nil)}}
			},
			run: func(args []TV, flds []trFld) ([]TV, []trFld) {
				lv := zapcore.LevelEnabler(zapcore.InfoLevel)
				root, logs := observer.New(lv)
				recv := root.With(trDFields(fldOf(flds, "context")))
				// spare capacity behind the receiver's context: an uncapped append would be visible in a sibling
				rc := unexported(reflect.ValueOf(recv), "context")
				grown := make([]zapcore.Field, rc.Len(), rc.Len()+4)
				reflect.Copy(reflect.ValueOf(grown), rc)
				rc.Set(reflect.ValueOf(grown))
				sib := recv.With([]zapcore.Field{zap.Int("77", 0)})
				b := reflect.ValueOf(recv.With(trDFields(args[0])))
				sibCtx := unexported(reflect.ValueOf(sib), "context").Interface().([]zapcore.Field)
				if len(sibCtx) != rc.Len()+1 || sibCtx[len(sibCtx)-1].Key != "77" {
					panic("a sibling's context was overwritten")
				}
				return []TV{tvList([]TV{tvList([]TV{same(fldOf(flds, "en"), tvInt(0), unexported(b, "LevelEnabler").Interface() == lv),
					same(fldOf(flds, "logs"), tvInt(0), unexported(b, "logs").Interface() == logs),
					trDFieldsTV(unexported(b, "context").Interface().([]zapcore.Field))})})}, flds
			}},
	)

	// ---- lazyWithCore
	lzEnv := func(r *Rand) []trFld {
		done := r.Chance(1, 3)
		core := tvList(nil)
		if done {
			core = tvList([]TV{tvInt(50 + int64(r.Intn(3)))})
		}
		return []trFld{{"core", core}, {"orig", tvList([]TV{tvInt(int64(r.Intn(5)))})}, {"done", tvBool(done)}, {"fields", genDFields(r)}, {"ev", tvList(nil)}}
	}
	mkLazy := func(flds []trFld) (zapcore.Core, reflect.Value, *trDState) {
		st := &trDState{}
		l := zapcore.NewLazyWith(&trDCore{v: fldOf(flds, "orig"), st: st}, trDFields(fldOf(flds, "fields")))
		rv := reflect.ValueOf(l)
		if *fldOf(flds, "done").B {
			zapLazyInitOnce(rv.UnsafePointer())
			unexported(rv, "core").Set(reflect.ValueOf(zapcore.Core(&trDCore{v: fldOf(flds, "core"), st: st})))
		}
		return l, rv, st
	}
	lzOut := func(flds []trFld, rv reflect.Value, st *trDState) []trFld {
		out := setEv(flds, st.ev)
		c, _ := unexported(rv, "core").Interface().(zapcore.Core)
		for i := range out {
			switch out[i].N {
			case "core":
				out[i].V = trDCoreTV(c)
			case "done":
				out[i].V = tvBool(c != nil)
			}
		}
		return out
	}
	entTV := func(r *Rand) TV { return tvList([]TV{tvInt(int64(r.Intn(5)) - 2), tvList(nil)}) }
	trFns = append(trFns,
		trFn{table: "TransDerive", name: "lazyWithCore_initOnce",
			gen: func(r *Rand) ([]TV, []trFld) { return nil, lzEnv(r) },
			run: func(_ []TV, flds []trFld) ([]TV, []trFld) {
				_, rv, st := mkLazy(flds)
				zapLazyInitOnce(rv.UnsafePointer())
				return nil, lzOut(flds, rv, st)
			}},
		trFn{table: "TransDerive", name: "lazyWithCore_With",
			gen: func(r *Rand) ([]TV, []trFld) { return fieldsArg(r), lzEnv(r) },
			run: func(args []TV, flds []trFld) ([]TV, []trFld) {
				l, rv, st := mkLazy(flds)
				res := l.With(trDFields(args[0]))
				return []TV{trDCoreTV(res)}, lzOut(flds, rv, st)
			}},
		trFn{table: "TransDerive", name: "lazyWithCore_Check",
			gen: func(r *Rand) ([]TV, []trFld) { return []TV{entTV(r), tvList(nil)}, lzEnv(r) },
			run: func(args []TV, flds []trFld) ([]TV, []trFld) {
				l, rv, st := mkLazy(flds)
				ce := l.Check(zapcore.Entry{Level: zapcore.Level((*args[0].L)[0].int64())}, nil)
				res := tvList(nil)
				if ce != nil {
					cs := unexported(reflect.ValueOf(ce), "cores")
					var out []TV
					for i := 0; i < cs.Len(); i++ {
						out = append(out, trDCoreTV(cs.Index(i).Interface().(zapcore.Core)))
					}
					res = tvList([]TV{tvList(out)})
				}
				return []TV{res}, lzOut(flds, rv, st)
			}},
		trFn{table: "TransDerive", name: "lazyWithCore_Enabled",
			gen: func(r *Rand) ([]TV, []trFld) { return []TV{tvInt(int64(r.Intn(5)) - 2)}, lzEnv(r) },
			run: func(args []TV, flds []trFld) ([]TV, []trFld) {
				l, rv, st := mkLazy(flds)
				return []TV{tvBool(l.Enabled(zapcore.Level(args[0].int64())))}, lzOut(flds, rv, st)
			}},
		trFn{table: "TransDerive", name: "lazyWithCore_Write",
			gen: func(r *Rand) ([]TV, []trFld) { return []TV{entTV(r), genDFields(r)}, lzEnv(r) },
			run: func(args []TV, flds []trFld) ([]TV, []trFld) {
				l, rv, st := mkLazy(flds)
				err := l.Write(zapcore.Entry{Level: zapcore.Level((*args[0].L)[0].int64())}, trDFields(args[1]))
				must(err)
				return []TV{tvList(nil)}, lzOut(flds, rv, st)
			}},
		trFn{table: "TransDerive", name: "lazyWithCore_Sync",
			gen: func(r *Rand) ([]TV, []trFld) { return nil, lzEnv(r) },
			run: func(_ []TV, flds []trFld) ([]TV, []trFld) {
				l, rv, st := mkLazy(flds)
				must(l.Sync())
				return []TV{tvList(nil)}, lzOut(flds, rv, st)
			}},
	)
}
