package main

// trans_grpc.go — CTR adapters for the table TransGrpc (round 4): the REAL zapgrpc sprintln (go:linkname), the printer
// methods (through Logger.Print / Printf / Println of a logger built with or without WithDebug: printer level Info or
// Debug) and Logger.Infoln / Warningln / Errorln.
//
// The delegate's calls are observed at the core (level and message of the entry written) and re-encoded as the recorded
// call when they are exactly what that call would log (`fmt` computed here); the core enables the levels in #en; what
// `fmt.Sprintln` makes of the arguments is handed to both sides (#sprintln).

import (
	"fmt"
	_ "unsafe"

	"go.uber.org/zap"
	"go.uber.org/zap/zapcore"
	"go.uber.org/zap/zapgrpc"
)

//go:linkname zapgrpcSprintln go.uber.org/zap/zapgrpc.sprintln
func zapgrpcSprintln(args []interface{}) string

type trGrpcCore struct {
	en  map[zapcore.Level]bool
	got *[][2]string
}

func (c trGrpcCore) Enabled(l zapcore.Level) bool      { return c.en[l] }
func (c trGrpcCore) With([]zapcore.Field) zapcore.Core { return c }
func (c trGrpcCore) Sync() error                       { return nil }
func (c trGrpcCore) Check(e zapcore.Entry, ce *zapcore.CheckedEntry) *zapcore.CheckedEntry {
	if c.en[e.Level] {
		return ce.AddCore(e, c)
	}
	return ce
}
func (c trGrpcCore) Write(e zapcore.Entry, _ []zapcore.Field) error {
	*c.got = append(*c.got, [2]string{e.Level.String(), e.Message})
	return nil
}

func init() {
	enFld := func(r *Rand) trFld {
		var en []TV
		for l := -1; l <= 2; l++ {
			if r.Bool() {
				en = append(en, tvInt(int64(l)))
			}
		}
		return trFld{"#en", tvList(en)}
	}
	build := func(flds []trFld, debug bool) (*zapgrpc.Logger, *[][2]string) {
		got := &[][2]string{}
		core := trGrpcCore{en: map[zapcore.Level]bool{}, got: got}
		for _, l := range *fldOf(flds, "#en").L {
			core.en[zapcore.Level(l.int64())] = true
		}
		if debug {
			return zapgrpc.NewLogger(zap.New(core), zapgrpc.WithDebug()), got
		}
		return zapgrpc.NewLogger(zap.New(core)), got
	}
	// the record of ONE delegate call, if the core saw exactly the entry that call logs (nothing when the level is disabled)
	observed := func(flds []trFld, got [][2]string, lvl zapcore.Level, want string, rec TV) []trFld {
		enabled := false
		for _, l := range *fldOf(flds, "#en").L {
			enabled = enabled || zapcore.Level(l.int64()) == lvl
		}
		switch {
		case !enabled && len(got) == 0:
			// the delegate was called or not: not observable; the caller decides what the source says
			return nil
		case enabled && len(got) == 1 && got[0] == [2]string{lvl.String(), want}:
			return setEv(flds, []TV{rec})
		}
		return setEv(flds, []TV{tvBytes([]byte(fmt.Sprint("unexpected ", got)))})
	}
	pFlds := func(r *Rand, args TV) []trFld {
		return []trFld{{"ev", tvList(nil)}, {"enab", tvList(nil)}, {"level", tvInt(int64(r.Intn(2)) - 1)}, {"print", tvList([]TV{tvInt(1)})},
			{"printf", tvList([]TV{tvInt(2)})}, enFld(r), {"#sprintln", tvBytes([]byte(fmt.Sprintln(trMsgArgs(args)...)))}}
	}
	lvlOf := func(flds []trFld) zapcore.Level { return zapcore.Level(fldOf(flds, "level").int64()) }
	trFns = append(trFns,
		trFn{table: "TransGrpc", name: "sprintln",
			gen: func(r *Rand) ([]TV, []trFld) {
				a := genMsgArgs(r)
				return []TV{a}, []trFld{{"#sprintln", tvBytes([]byte(fmt.Sprintln(trMsgArgs(a)...)))}}
			},
			run: func(args []TV, flds []trFld) ([]TV, []trFld) {
				return []TV{tvBytes([]byte(zapgrpcSprintln(trMsgArgs(args[0]))))}, flds
			}},
		trFn{table: "TransGrpc", name: "printer_Print",
			gen: func(r *Rand) ([]TV, []trFld) { a := genMsgArgs(r); return []TV{a}, pFlds(r, a) },
			run: func(args []TV, flds []trFld) ([]TV, []trFld) {
				lg, got := build(flds, lvlOf(flds) == zapcore.DebugLevel)
				in := trMsgArgs(args[0])
				lg.Print(in...)
				rec := named("PrintFn.call", fldOf(flds, "print"), args[0])
				if out := observed(flds, *got, lvlOf(flds), zapGetMessage("", in), rec); out != nil {
					return nil, out
				}
				return nil, setEv(flds, []TV{rec}) // Print has no guard of its own: the delegate is always called
			}},
		trFn{table: "TransGrpc", name: "printer_Printf",
			gen: func(r *Rand) ([]TV, []trFld) {
				a := genMsgArgs(r)
				return []TV{tvBytes([]byte(Pick(r, []string{"t", "n=%v", "%v %v"}))), a}, pFlds(r, a)
			},
			run: func(args []TV, flds []trFld) ([]TV, []trFld) {
				lg, got := build(flds, lvlOf(flds) == zapcore.DebugLevel)
				in := trMsgArgs(args[1])
				lg.Printf(string(args[0].bytes()), in...)
				rec := named("PrintfFn.call", fldOf(flds, "printf"), args[0], args[1])
				if out := observed(flds, *got, lvlOf(flds), zapGetMessage(string(args[0].bytes()), in), rec); out != nil {
					return nil, out
				}
				return nil, setEv(flds, []TV{rec})
			}},
		trFn{table: "TransGrpc", name: "printer_Println",
			gen: func(r *Rand) ([]TV, []trFld) { a := genMsgArgs(r); return []TV{a}, pFlds(r, a) },
			run: func(args []TV, flds []trFld) ([]TV, []trFld) {
				lg, got := build(flds, lvlOf(flds) == zapcore.DebugLevel)
				in := trMsgArgs(args[0])
				lg.Println(in...)
				s := fmt.Sprintln(in...)
				rec := named("PrintFn.call", fldOf(flds, "print"), tvBytes([]byte(s[:len(s)-1])))
				if out := observed(flds, *got, lvlOf(flds), s[:len(s)-1], rec); out != nil {
					return nil, out
				}
				return nil, flds // disabled: Println's own guard skips the delegate
			}},
	)
	ln := func(name string, lvl zapcore.Level, recName string, call func(*zapgrpc.Logger, []interface{})) trFn {
		return trFn{table: "TransGrpc", name: name,
			gen: func(r *Rand) ([]TV, []trFld) {
				a := genMsgArgs(r)
				return []TV{a}, []trFld{{"ev", tvList(nil)}, {"delegate", tvList([]TV{tvInt(1)})}, {"levelEnabler", tvList(nil)}, enFld(r),
					{"#sprintln", tvBytes([]byte(fmt.Sprintln(trMsgArgs(a)...)))}}
			},
			run: func(args []TV, flds []trFld) ([]TV, []trFld) {
				lg, got := build(flds, false)
				in := trMsgArgs(args[0])
				call(lg, in)
				s := fmt.Sprintln(in...)
				rec := named(recName, fldOf(flds, "delegate"), tvBytes([]byte(s[:len(s)-1])))
				if out := observed(flds, *got, lvl, s[:len(s)-1], rec); out != nil {
					return nil, out
				}
				return nil, flds
			}}
	}
	trFns = append(trFns,
		ln("Logger_Infoln", zapcore.InfoLevel, "Sugar.Info", func(l *zapgrpc.Logger, a []interface{}) { l.Infoln(a...) }),
		ln("Logger_Warningln", zapcore.WarnLevel, "Sugar.Warn", func(l *zapgrpc.Logger, a []interface{}) { l.Warningln(a...) }),
		ln("Logger_Errorln", zapcore.ErrorLevel, "Sugar.Error", func(l *zapgrpc.Logger, a []interface{}) { l.Errorln(a...) }),
	)
}
