package main

// trans_jsonenc.go — CTR adapters for the table TransJsonEnc: the REAL structural methods of *jsonEncoder
// (AppendObject, AppendArray, AddObject, AddArray, OpenNamespace, AppendReflected, AddReflected, truncate, EncodeEntry)
// over scripted marshalers, fields and sub-encoders.  A marshaler is [ops, errIds]; see `jeOps` in Drv/CTR.lean for the
// op codes.  The scripted marshaler calls the REAL leaf methods (AddString, AppendString, …) of the real encoder, so
// nesting exercises the real recursion; the Lean side interprets the same ops with the model's leaf functions.
// Not observable: the buffer-pool and encoder-pool calls (hidden from `ev`), the encoder after EncodeEntry (it went
// back to the pool: its fields are dropped from the comparison).

import (
	"encoding/json"
	"errors"
	"reflect"
	"time"
	"unsafe"

	"go.uber.org/zap/buffer"
	"go.uber.org/zap/zapcore"
)

//go:linkname zapJSONTruncate go.uber.org/zap/zapcore.(*jsonEncoder).truncate
func zapJSONTruncate(enc unsafe.Pointer)

type trMarsh struct {
	ops []TV
	err error
}

func jeReflVal(v TV) interface{} {
	l := *v.L
	switch {
	case len(l) == 0:
		return nil
	case l[0].I != nil:
		return int(l[0].int64())
	}
	return make(chan int)
}

func jeMarsh(v TV) trMarsh {
	l := *v.L
	return trMarsh{ops: *l[0].L, err: idsErr(l[1])}
}

func jeRunOps(o zapcore.ObjectEncoder, a zapcore.ArrayEncoder, ops []TV) {
	for _, op := range ops {
		f := *op.L
		switch f[0].int64() {
		case 0:
			o.AddString(string(f[1].bytes()), string(f[2].bytes()))
		case 1:
			o.OpenNamespace(string(f[1].bytes()))
		case 2:
			a.AppendString(string(f[1].bytes()))
		case 3:
			_ = o.AddObject(string(f[1].bytes()), jeMarsh(f[2]))
		case 4:
			_ = a.AppendObject(jeMarsh(f[1]))
		case 5:
			_ = o.AddArray(string(f[1].bytes()), jeMarsh(f[2]))
		case 6:
			_ = o.AddReflected(string(f[1].bytes()), jeReflVal(f[2]))
		case 7:
			_ = a.AppendReflected(jeReflVal(f[1]))
		}
	}
}

func (m trMarsh) MarshalLogObject(enc zapcore.ObjectEncoder) error {
	jeRunOps(enc, nil, m.ops)
	return m.err
}
func (m trMarsh) MarshalLogArray(enc zapcore.ArrayEncoder) error {
	jeRunOps(nil, enc, m.ops)
	return m.err
}

func jeErrIDs(err error) TV {
	if err == nil {
		return tvList(nil)
	}
	var ute *json.UnsupportedTypeError
	if errors.As(err, &ute) {
		return tvList([]TV{tvInt(1)})
	}
	return errIDs(err)
}

// jeEnc builds a real *jsonEncoder in the state of the op's fields
func jeEnc(flds []trFld) *trJSONEnc {
	j := newJSONEnc(flds)
	if len(*fldOf(flds, "rbuf").L) > 0 { // a scratch buffer that was used before
		sp := unexported(j.v, "spaced").Bool()
		ns := unexported(j.v, "openNamespaces").Int()
		keep := append([]byte{}, j.buf.Bytes()...)
		_ = j.v.Interface().(zapcore.ArrayEncoder).AppendReflected(5)
		j.buf.Reset()
		_, _ = j.buf.Write(keep)
		unexported(j.v, "spaced").SetBool(sp)
		unexported(j.v, "openNamespaces").SetInt(ns)
	}
	return j
}

func (j *trJSONEnc) jeFields(flds []trFld) []trFld {
	rb := unexported(j.v, "reflectBuf").Interface().(*buffer.Buffer)
	var out []trFld
	for _, f := range flds {
		switch f.N {
		case "buf":
			f.V = tvBytes(append([]byte{}, j.buf.Bytes()...))
		case "spaced":
			f.V = tvBool(unexported(j.v, "spaced").Bool())
		case "openNs":
			f.V = tvInt(unexported(j.v, "openNamespaces").Int())
		case "rbuf":
			if rb == nil {
				f.V = tvList(nil)
			} else {
				f.V = tvList([]TV{tvBytes(append([]byte{}, rb.Bytes()...))})
			}
		case "renc":
			if unexported(j.v, "reflectEnc").IsNil() {
				f.V = tvList(nil)
			} else {
				f.V = tvList([]TV{tvInt(1)})
			}
		}
		out = append(out, f)
	}
	return out
}

func genJeFlds(r *Rand) []trFld {
	fl := genJSONFlds(r)
	rb, re := tvList(nil), tvList(nil)
	if r.Chance(1, 3) {
		rb, re = tvList([]TV{tvBytes([]byte("5"))}), tvList([]TV{tvInt(1)})
	}
	return append(fl, trFld{"rbuf", rb}, trFld{"renc", re}, trFld{"newRefl", tvList(nil)}, trFld{"self", tvList(nil)},
		trFld{"ev", tvList(nil)})
}

func genJeKey(r *Rand) TV { return tvBytes([]byte{byte('a' + r.Intn(4))}) }

func genJeRefl(r *Rand, allowErr bool) TV {
	switch r.Intn(4) {
	case 0:
		return tvList(nil)
	case 1:
		if allowErr {
			return tvList([]TV{tvBytes([]byte("chan"))})
		}
	}
	return tvList([]TV{tvInt(int64(r.Intn(2000)) - 1000)})
}

func genJeMarsh(r *Rand, object bool, depth int) TV {
	var ops []TV
	for i, k := 0, r.Intn(4); i < k; i++ {
		c := r.Intn(5)
		if depth <= 0 && c >= 2 && c <= 3 {
			c = 0
		}
		if object {
			switch c {
			case 0:
				ops = append(ops, tvList([]TV{tvInt(0), genJeKey(r), tvBytes(r.Bytes(3))}))
			case 1:
				ops = append(ops, tvList([]TV{tvInt(1), genJeKey(r)}))
			case 2:
				ops = append(ops, tvList([]TV{tvInt(3), genJeKey(r), genJeMarsh(r, true, depth-1)}))
			case 3:
				ops = append(ops, tvList([]TV{tvInt(5), genJeKey(r), genJeMarsh(r, false, depth-1)}))
			default:
				ops = append(ops, tvList([]TV{tvInt(6), genJeKey(r), genJeRefl(r, true)}))
			}
		} else {
			switch c {
			case 0, 1:
				ops = append(ops, tvList([]TV{tvInt(2), tvBytes(r.Bytes(3))}))
			case 2, 3:
				ops = append(ops, tvList([]TV{tvInt(4), genJeMarsh(r, true, depth-1)}))
			default:
				ops = append(ops, tvList([]TV{tvInt(7), genJeRefl(r, true)}))
			}
		}
	}
	errs := tvList(nil)
	if r.Chance(1, 4) {
		errs = tvList([]TV{tvInt(int64(7 + r.Intn(3)))})
	}
	return tvList([]TV{tvList(ops), errs})
}

var jeHide = []string{"bufferpool.GetPtr", "bufferpool.Get", "jsonPool.Get", "jsonPool.Put", "Buffer.Free", "jsonEncoder.clone", "putJSONEncoder"}

func jeFn(name string, gen func(r *Rand) []TV, call func(j *trJSONEnc, args []TV) []TV) trFn {
	return trFn{table: "TransJsonEnc", name: name, hide: jeHide,
		gen: func(r *Rand) ([]TV, []trFld) { return gen(r), genJeFlds(r) },
		run: func(args []TV, flds []trFld) ([]TV, []trFld) {
			j := jeEnc(flds)
			res := call(j, args)
			return res, j.jeFields(flds)
		}}
}

// ---- EncodeEntry

type jeSubCfg struct{ level, tm, name, caller TV }

func jeEntryCfg(flds []trFld) zapcore.EncoderConfig {
	s := func(n string) string { return string(fldOf(flds, n).bytes()) }
	cfg := zapcore.EncoderConfig{LevelKey: s("levelKey"), TimeKey: s("timeKey"), NameKey: s("nameKey"), CallerKey: s("callerKey"),
		FunctionKey: s("functionKey"), MessageKey: s("messageKey"), StacktraceKey: s("stacktraceKey"), LineEnding: s("lineEnding")}
	code := func(n string) int64 {
		l := *fldOf(flds, n).L
		if len(l) == 0 {
			return -1
		}
		return l[0].int64()
	}
	if c := code("encLevel"); c >= 0 {
		cfg.EncodeLevel = func(_ zapcore.Level, enc zapcore.PrimitiveArrayEncoder) {
			if c == 1 {
				enc.AppendString("L")
			}
		}
	}
	if c := code("encTime"); c >= 0 {
		cfg.EncodeTime = func(_ time.Time, enc zapcore.PrimitiveArrayEncoder) {
			if c == 1 {
				enc.AppendString("T")
			}
		}
	}
	if c := code("encName"); c >= 0 {
		cfg.EncodeName = func(_ string, enc zapcore.PrimitiveArrayEncoder) {
			if c == 2 {
				enc.AppendString("N")
			}
		}
	}
	if c := code("encCaller"); c >= 0 {
		cfg.EncodeCaller = func(_ zapcore.EntryCaller, enc zapcore.PrimitiveArrayEncoder) {
			if c == 1 {
				enc.AppendString("C")
			}
		}
	}
	return cfg
}

func jeEntry(v TV) zapcore.Entry {
	l := *v.L
	c := *l[4].L
	e := zapcore.Entry{Level: zapcore.Level(l[0].int64()), LoggerName: string(l[2].bytes()), Message: string(l[3].bytes()),
		Caller: zapcore.EntryCaller{Defined: *c[0].B, File: "f.go", Line: 7, Function: string(c[1].bytes())}, Stack: string(l[5].bytes())}
	if n := l[1].int64(); n != 0 {
		e.Time = time.Unix(0, n).UTC()
	}
	return e
}

func jeFieldsOf(v TV) []zapcore.Field {
	var out []zapcore.Field
	for _, op := range *v.L {
		f := *op.L
		switch f[0].int64() {
		case 0:
			out = append(out, zapcore.Field{Key: string(f[1].bytes()), Type: zapcore.StringType, String: string(f[2].bytes())})
		case 1:
			out = append(out, zapcore.Field{Key: string(f[1].bytes()), Type: zapcore.NamespaceType})
		case 3:
			out = append(out, zapcore.Field{Key: string(f[1].bytes()), Type: zapcore.ObjectMarshalerType, Interface: jeMarsh(f[2])})
		case 6:
			out = append(out, zapcore.Field{Key: string(f[1].bytes()), Type: zapcore.ReflectType, Interface: jeReflVal(f[2])})
		}
	}
	return out
}

func genJeEntryFlds(r *Rand) []trFld {
	key := func(n string) trFld {
		if r.Chance(1, 4) {
			return trFld{n, tvBytes(nil)}
		}
		return trFld{n, tvBytes([]byte(n[:1]))}
	}
	fn := func(n string, codes int) trFld {
		if r.Chance(1, 3) {
			return trFld{n, tvList(nil)}
		}
		c := int64(r.Intn(codes))
		if n == "encName" { // code 0 is reserved for the nil fall-back FullNameEncoder: 1 = no-op, 2 = "N"
			c = 1 + int64(r.Intn(2))
		}
		return trFld{n, tvList([]TV{tvInt(c)})}
	}
	obuf := []byte{}
	if r.Chance(2, 3) {
		obuf = []byte(`"c":1`)
		if r.Chance(1, 3) {
			obuf = []byte(`"n":{"c":1`)
		}
	}
	ons := int64(0)
	if len(obuf) > 6 {
		ons = 1
	}
	le := []byte("\n")
	if r.Chance(1, 4) {
		le = []byte("\r\n")
	}
	return []trFld{{"buf", tvBytes(nil)}, {"spaced", tvBool(false)}, {"openNs", tvInt(0)}, {"rbuf", tvList(nil)}, {"renc", tvList(nil)},
		key("levelKey"), key("timeKey"), key("nameKey"), key("callerKey"), key("functionKey"), key("messageKey"), key("stacktraceKey"),
		{"lineEnding", tvBytes(le)}, fn("encLevel", 2), fn("encTime", 2), fn("encName", 3), fn("encCaller", 2),
		{"o.buf", tvBytes(obuf)}, {"o.spaced", tvBool(false)}, {"o.openNs", tvInt(ons)}, {"self", tvList(nil)}, {"ev", tvList(nil)}}
}

func init() {
	mar := func(object bool) func(r *Rand) []TV {
		return func(r *Rand) []TV { return []TV{genJeMarsh(r, object, 2)} }
	}
	kmar := func(object bool) func(r *Rand) []TV {
		return func(r *Rand) []TV { return []TV{genJeKey(r), genJeMarsh(r, object, 2)} }
	}
	obj := func(j *trJSONEnc) zapcore.ObjectEncoder { return j.v.Interface().(zapcore.ObjectEncoder) }
	arr := func(j *trJSONEnc) zapcore.ArrayEncoder { return j.v.Interface().(zapcore.ArrayEncoder) }
	trFns = append(trFns,
		jeFn("AppendObject", mar(true), func(j *trJSONEnc, a []TV) []TV { return []TV{jeErrIDs(arr(j).AppendObject(jeMarsh(a[0])))} }),
		jeFn("AppendArray", mar(false), func(j *trJSONEnc, a []TV) []TV { return []TV{jeErrIDs(arr(j).AppendArray(jeMarsh(a[0])))} }),
		jeFn("AddObject", kmar(true), func(j *trJSONEnc, a []TV) []TV {
			return []TV{jeErrIDs(obj(j).AddObject(string(a[0].bytes()), jeMarsh(a[1])))}
		}),
		jeFn("AddArray", kmar(false), func(j *trJSONEnc, a []TV) []TV {
			return []TV{jeErrIDs(obj(j).AddArray(string(a[0].bytes()), jeMarsh(a[1])))}
		}),
		jeFn("OpenNamespace", func(r *Rand) []TV { return []TV{genJeKey(r)} }, func(j *trJSONEnc, a []TV) []TV {
			obj(j).OpenNamespace(string(a[0].bytes()))
			return nil
		}),
		jeFn("AppendReflected", func(r *Rand) []TV { return []TV{genJeRefl(r, true)} }, func(j *trJSONEnc, a []TV) []TV {
			return []TV{jeErrIDs(arr(j).AppendReflected(jeReflVal(a[0])))}
		}),
		jeFn("AddReflected", func(r *Rand) []TV { return []TV{genJeKey(r), genJeRefl(r, true)} }, func(j *trJSONEnc, a []TV) []TV {
			return []TV{jeErrIDs(obj(j).AddReflected(string(a[0].bytes()), jeReflVal(a[1])))}
		}),
		jeFn("truncate", func(r *Rand) []TV { return nil }, func(j *trJSONEnc, a []TV) []TV { zapJSONTruncate(j.ptr); return nil }),
		trFn{table: "TransJsonEnc", name: "EncodeEntry", hide: jeHide, drop: []string{"buf", "spaced", "openNs", "rbuf", "renc", "ev"},
			gen: func(r *Rand) ([]TV, []trFld) {
				name := []byte{}
				if r.Bool() {
					name = []byte("lg")
				}
				stack := []byte{}
				if r.Chance(1, 3) {
					stack = []byte("st")
				}
				ent := tvList([]TV{tvInt(int64(r.Intn(7)) - 1), tvInt(int64(r.Intn(3)) * 1000), tvBytes(name), tvBytes([]byte("m")),
					tvList([]TV{tvBool(r.Bool()), tvBytes([]byte("fn")), tvList(nil)}), tvBytes(stack)})
				var ops []TV
				for i, k := 0, r.Intn(4); i < k; i++ {
					switch r.Intn(4) {
					case 0, 1:
						ops = append(ops, tvList([]TV{tvInt(0), genJeKey(r), tvBytes(r.Bytes(3))}))
					case 2:
						ops = append(ops, tvList([]TV{tvInt(1), genJeKey(r)}))
					default:
						m := genJeMarsh(r, true, 1)
						(*m.L)[1] = tvList(nil) // fields whose marshaler fails add a <key>Error member: not scripted here
						ops = append(ops, tvList([]TV{tvInt(3), genJeKey(r), m}))
					}
				}
				return []TV{ent, tvList(ops)}, genJeEntryFlds(r)
			},
			run: func(args []TV, flds []trFld) ([]TV, []trFld) {
				enc := zapcore.NewJSONEncoder(jeEntryCfg(flds))
				v := reflect.ValueOf(enc)
				b := unexported(v, "buf").Interface().(*buffer.Buffer)
				_, _ = b.Write(fldOf(flds, "o.buf").bytes())
				unexported(v, "openNamespaces").SetInt(fldOf(flds, "o.openNs").int64())
				out, err := enc.EncodeEntry(jeEntry(args[0]), jeFieldsOf(args[1]))
				var fl []trFld
				for _, f := range flds {
					switch f.N {
					case "buf", "spaced", "openNs", "rbuf", "renc", "ev":
						continue
					}
					fl = append(fl, f)
				}
				return []TV{tvBytes(append([]byte{}, out.Bytes()...)), jeErrIDs(err)}, fl
			}},
	)
}
