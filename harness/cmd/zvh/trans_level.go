package main

// trans_level.go — CTR adapters for the table TransLevel (round 4): the REAL (*Level).unmarshalText (go:linkname),
// UnmarshalText, ParseLevel, Level.String, CapitalString and LevelOf of package zapcore.
//
//   - texts are ASCII (names, aliases, case variants, near-misses): on ASCII `bytes.ToLower` is the byte-wise lowering the
//     Lean side uses; the error of UnmarshalText / ParseLevel is re-encoded from its text as the constructor value of
//     Model/TransLevelX.lean (`fmt.Errorf("unrecognized level: %q", text)`), after checking that the text is exactly that.
//   - LevelOf: an enabler is the value [kind, level, enabled levels]; kind 1 has a Level() method.
//
// The http_handler.go functions of the same table are not run here: C20's own correspondence (`corr:http`) runs the
// real handler against the hand model `Level.serve`, and `serveHTTP_is_serve` ties the translation to that model.

import (
	"fmt"
	_ "unsafe"

	"go.uber.org/zap/zapcore"
)

//go:linkname zapLevelUnmarshalText go.uber.org/zap/zapcore.(*Level).unmarshalText
func zapLevelUnmarshalText(l *zapcore.Level, text []byte) bool

type trEnab struct {
	enabled map[zapcore.Level]bool
}

func (e trEnab) Enabled(l zapcore.Level) bool { return e.enabled[l] }

type trLeveled struct {
	trEnab
	lvl zapcore.Level
}

func (e trLeveled) Level() zapcore.Level { return e.lvl }

func trLevelText(r *Rand) []byte {
	names := []string{"debug", "info", "", "warn", "warning", "error", "dpanic", "panic", "fatal", "DEBUG", "Info", "WARNING", "wArN",
		"Error", "DPANIC", "Panic", "FATAL", "trace", "warnin", "infoo", " info", "fatal ", "0", "level", "Level(3)", "ERRor"}
	if r.Chance(1, 6) {
		b := make([]byte, r.Intn(8))
		for i := range b {
			b[i] = Pick(r, []byte("abdefgilnoprtuwABDEFGILNOPRTUW 1"))
		}
		return b
	}
	return []byte(Pick(r, names))
}

func trLevelErr(err error, text []byte) TV {
	if err == nil {
		return tvList(nil)
	}
	if want := fmt.Sprintf("unrecognized level: %q", text); err.Error() != want {
		return tvList([]TV{tvBytes([]byte(err.Error()))})
	}
	return tvList([]TV{tvList([]TV{tvBytes([]byte("fmt.Errorf")), tvBytes([]byte("unrecognized level: %q")), tvBytes(text)})})
}

func init() {
	lvlFlds := func(r *Rand) []trFld {
		return []trFld{{"lvl", tvInt(int64(r.Intn(9)) - 2)}, {"isnil", tvBool(false)}}
	}
	setLvl := func(flds []trFld, l zapcore.Level) []trFld {
		out := append([]trFld(nil), flds...)
		for i := range out {
			if out[i].N == "lvl" {
				out[i].V = tvInt(int64(l))
			}
		}
		return out
	}
	anyLevel := func(r *Rand) int64 {
		if r.Chance(1, 3) {
			return int64(r.Intn(256)) - 128
		}
		return int64(r.Intn(10)) - 2
	}
	trFns = append(trFns,
		trFn{table: "TransLevel", name: "unmarshalText",
			gen: func(r *Rand) ([]TV, []trFld) { return []TV{tvBytes(trLevelText(r))}, lvlFlds(r)[:1] },
			run: func(args []TV, flds []trFld) ([]TV, []trFld) {
				l := zapcore.Level(fldOf(flds, "lvl").int64())
				ok := zapLevelUnmarshalText(&l, args[0].bytes())
				return []TV{tvBool(ok)}, setLvl(flds, l)
			}},
		trFn{table: "TransLevel", name: "UnmarshalText",
			gen: func(r *Rand) ([]TV, []trFld) { return []TV{tvBytes(trLevelText(r))}, lvlFlds(r) },
			run: func(args []TV, flds []trFld) ([]TV, []trFld) {
				l := zapcore.Level(fldOf(flds, "lvl").int64())
				err := l.UnmarshalText(args[0].bytes())
				return []TV{trLevelErr(err, args[0].bytes())}, setLvl(flds, l)
			}},
		trFn{table: "TransLevel", name: "ParseLevel",
			gen: func(r *Rand) ([]TV, []trFld) { return []TV{tvBytes(trLevelText(r))}, lvlFlds(r) },
			run: func(args []TV, flds []trFld) ([]TV, []trFld) {
				l, err := zapcore.ParseLevel(string(args[0].bytes()))
				return []TV{tvInt(int64(l)), trLevelErr(err, args[0].bytes())}, setLvl(flds, l)
			}},
		trFn{table: "TransLevel", name: "LevelString",
			gen: func(r *Rand) ([]TV, []trFld) { return nil, []trFld{{"lvl", tvInt(anyLevel(r))}} },
			run: func(_ []TV, flds []trFld) ([]TV, []trFld) {
				return []TV{tvBytes([]byte(zapcore.Level(fldOf(flds, "lvl").int64()).String()))}, flds
			}},
		trFn{table: "TransLevel", name: "LevelCapitalString",
			gen: func(r *Rand) ([]TV, []trFld) { return nil, []trFld{{"lvl", tvInt(anyLevel(r))}} },
			run: func(_ []TV, flds []trFld) ([]TV, []trFld) {
				return []TV{tvBytes([]byte(zapcore.Level(fldOf(flds, "lvl").int64()).CapitalString()))}, flds
			}},
		trFn{table: "TransLevel", name: "LevelEnabled",
			gen: func(r *Rand) ([]TV, []trFld) { return []TV{tvInt(anyLevel(r))}, []trFld{{"lvl", tvInt(anyLevel(r))}} },
			run: func(args []TV, flds []trFld) ([]TV, []trFld) {
				return []TV{tvBool(zapcore.Level(fldOf(flds, "lvl").int64()).Enabled(zapcore.Level(args[0].int64())))}, flds
			}},
		trFn{table: "TransLevel", name: "LevelMarshalText",
			gen: func(r *Rand) ([]TV, []trFld) { return nil, []trFld{{"lvl", tvInt(anyLevel(r))}} },
			run: func(_ []TV, flds []trFld) ([]TV, []trFld) {
				b, err := zapcore.Level(fldOf(flds, "lvl").int64()).MarshalText()
				if err != nil {
					panic(err)
				}
				return []TV{tvBytes(b), tvList(nil)}, flds
			}},
		trFn{table: "TransLevel", name: "LevelSet",
			gen: func(r *Rand) ([]TV, []trFld) { return []TV{tvBytes(trLevelText(r))}, lvlFlds(r) },
			run: func(args []TV, flds []trFld) ([]TV, []trFld) {
				l := zapcore.Level(fldOf(flds, "lvl").int64())
				err := l.Set(string(args[0].bytes()))
				return []TV{trLevelErr(err, args[0].bytes())}, setLvl(flds, l)
			}},
		trFn{table: "TransLevel", name: "LevelOf",
			gen: func(r *Rand) ([]TV, []trFld) {
				var en []TV
				for l := -2; l <= 7; l++ {
					if r.Chance(1, 4) {
						en = append(en, tvInt(int64(l)))
					}
				}
				kind := int64(0)
				if r.Chance(1, 3) {
					kind = 1
				}
				return []TV{tvList([]TV{tvInt(kind), tvInt(anyLevel(r)), tvList(en)})}, nil
			},
			run: func(args []TV, flds []trFld) ([]TV, []trFld) {
				e := *args[0].L
				te := trEnab{enabled: map[zapcore.Level]bool{}}
				for _, l := range *e[2].L {
					te.enabled[zapcore.Level(l.int64())] = true
				}
				var enab zapcore.LevelEnabler = te
				if e[0].int64() == 1 {
					enab = trLeveled{te, zapcore.Level(e[1].int64())}
				}
				return []TV{tvInt(int64(zapcore.LevelOf(enab)))}, flds
			}},
	)
}
