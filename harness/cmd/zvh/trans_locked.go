package main

// trans_locked.go — CTR adapters for the table TransLocked: the REAL lockedWriteSyncer.Write/Sync (through
// zapcore.Lock) and BufferedWriteSyncer.Write/Sync over a scripted sink.
//
// What is observable and what is not:
//   - sync.Mutex.Lock/Unlock leave no trace of their own.  The sink CHECKS, each time it is called, that the mutex of
//     the syncer is held (TryLock fails), and the adapter checks that it is free after the call returned; only then
//     are the records "Mutex.Lock" (first) and "Mutex.Unlock" (last) added.  A call outside the lock panics and is
//     reported as a disagreement.
//   - calls on the concrete *bufio.Writer cannot be intercepted: the op carries "hide":["bufio.Flush","bufio.Write"]
//     and zvdrv drops these records from `ev`.  Their EFFECT is compared instead: the writer value is
//     [size, buffered bytes, sink writes so far, sticky error, the sink's write error], read off the real
//     *bufio.Writer (unexported fields through reflect) and the sink, and computed by a small bufio model in
//     Drv/CTR.lean (`lockedPar`); the sink either takes everything or fails every write.

import (
	"bufio"
	"reflect"
	"sync"
	"time"

	"go.uber.org/zap/zapcore"
)

type trLkSink struct {
	v        TV // [n, writeErrIds, syncErrIds]
	n        int
	werr     error
	serr     error
	mu       *sync.Mutex
	ev       *[]TV
	writes   *[]TV
	buffered bool // under a bufio.Writer: take everything unless werr; record the bytes only
	setup    bool // building the initial state: take everything, record nothing
}

func (s *trLkSink) held() {
	if s.mu != nil && s.mu.TryLock() {
		s.mu.Unlock()
		panic("sink called without the syncer's mutex")
	}
}

func (s *trLkSink) Write(p []byte) (int, error) {
	if s.setup {
		return len(p), nil
	}
	s.held()
	if s.buffered {
		*s.writes = append(*s.writes, tvBytes(append([]byte{}, p...)))
		if s.werr != nil {
			return 0, s.werr
		}
		return len(p), nil
	}
	*s.ev = append(*s.ev, tvList([]TV{tvBytes([]byte("WriteSyncer.Write")), s.v, tvBytes(p)}))
	return s.n, s.werr
}

func (s *trLkSink) Sync() error {
	if s.setup {
		return nil
	}
	s.held()
	*s.ev = append(*s.ev, tvList([]TV{tvBytes([]byte("WriteSyncer.Sync")), s.v}))
	return s.serr
}

func newLkSink(v TV, ev *[]TV, writes *[]TV) *trLkSink {
	f := *v.L
	return &trLkSink{v: v, n: int(f[0].int64()), werr: idsErr(f[1]), serr: idsErr(f[2]), ev: ev, writes: writes}
}

func mustBeFree(mu *sync.Mutex) {
	if !mu.TryLock() {
		panic("the syncer's mutex is still held after the call")
	}
	mu.Unlock()
}

func genLkSink(r *Rand, buffered bool) TV {
	var w, s []TV
	if r.Chance(1, 3) {
		w = []TV{tvInt(int64(1 + r.Intn(3)))}
	}
	if r.Chance(1, 3) {
		s = []TV{tvInt(int64(5 + r.Intn(3)))}
	}
	n := int64(r.Intn(7))
	if buffered {
		n = 0
	}
	return tvList([]TV{tvInt(n), tvList(w), tvList(s)})
}

func lockedOf(flds []trFld, ev *[]TV) (zapcore.WriteSyncer, *sync.Mutex) {
	sink := newLkSink(fldOf(flds, "ws"), ev, nil)
	l := zapcore.Lock(sink)
	sink.mu = unexported(reflect.ValueOf(l), "Mutex").Addr().Interface().(*sync.Mutex)
	return l, sink.mu
}

func lkRec(name string, vs ...TV) TV { return tvList(append([]TV{tvBytes([]byte(name))}, vs...)) }

// ---- BufferedWriteSyncer

type trBws struct {
	s      *zapcore.BufferedWriteSyncer
	sink   *trLkSink
	mu     *sync.Mutex
	ev     []TV
	writes []TV
	flds   []trFld
}

func effBwsSize(size int64) int64 {
	switch {
	case size == 0:
		return 256 * 1024
	case size < 0:
		return 4096
	}
	return size
}

func newBws(flds []trFld) *trBws {
	b := &trBws{flds: flds}
	b.sink = newLkSink(fldOf(flds, "ws"), &b.ev, &b.writes)
	b.sink.buffered = true
	b.s = &zapcore.BufferedWriteSyncer{WS: b.sink, Size: int(fldOf(flds, "size").int64()), FlushInterval: time.Hour}
	b.mu = unexported(reflect.ValueOf(b.s), "mu").Addr().Interface().(*sync.Mutex)
	b.sink.mu = b.mu
	if *fldOf(flds, "initialized").B {
		w := *fldOf(flds, "writer").L
		b.sink.setup = true
		if _, err := b.s.Write(w[1].bytes()); err != nil {
			panic("setup write failed")
		}
		b.sink.setup = false
	}
	return b
}

func (b *trBws) writerVal() TV {
	bw := unexported(reflect.ValueOf(b.s), "writer").Interface().(*bufio.Writer)
	if bw == nil {
		return tvList(nil)
	}
	v := reflect.ValueOf(bw)
	buf := unexported(v, "buf").Bytes()
	n := int(unexported(v, "n").Int())
	var sticky error
	if e := unexported(v, "err").Interface(); e != nil {
		sticky = e.(error)
	}
	return tvList([]TV{tvInt(int64(bw.Size())), tvBytes(append([]byte{}, buf[:n]...)), tvList(b.writes), errIDs(sticky),
		(*b.sink.v.L)[1]})
}

// result: the fields in the order of the op, with the observed state
func (b *trBws) fields() []trFld {
	mustBeFree(b.mu)
	init := *unexported(reflect.ValueOf(b.s), "initialized").Addr().Interface().(*bool)
	wv := b.writerVal()
	mu := fldOf(b.flds, "mu")
	ev := append(append([]TV{lkRec("Mutex.Lock", mu)}, b.ev...), lkRec("Mutex.Unlock", mu))
	var out []trFld
	for _, f := range b.flds {
		switch f.N {
		case "initialized":
			f.V = tvBool(init)
		case "writer":
			f.V = wv
		case "ev":
			f.V = tvList(append(append([]TV{}, *f.V.L...), ev...))
		}
		out = append(out, f)
	}
	b.sink.setup = true // the shutdown flush is not part of the observation
	_ = b.s.Stop()
	return out
}

func genBwsFlds(r *Rand) []trFld {
	size := int64(1 + r.Intn(8))
	if r.Chance(1, 10) {
		size = int64(r.Intn(2)) - 1 // 0 or -1: the defaults
	}
	sink := genLkSink(r, true)
	init := r.Chance(3, 4)
	writer := tvList(nil)
	if init {
		k := r.Intn(int(min(effBwsSize(size), 8)) + 1)
		buf := make([]byte, k)
		for i := range buf {
			buf[i] = byte('a' + r.Intn(26))
		}
		writer = tvList([]TV{tvInt(effBwsSize(size)), tvBytes(buf), tvList(nil), tvList(nil), (*sink.L)[1]})
	}
	return []trFld{{"mu", tvList(nil)}, {"initialized", tvBool(init)}, {"writer", writer}, {"ws", sink},
		{"size", tvInt(size)}, {"ev", tvList(nil)}}
}

var bwsHide = []string{"bufio.Flush", "bufio.Write"}

func init() {
	trFns = append(trFns,
		trFn{table: "TransLocked", name: "lockedWriteSyncer_Write",
			gen: func(r *Rand) ([]TV, []trFld) {
				return []TV{tvBytes(r.Bytes(6))}, []trFld{{"ws", genLkSink(r, false)}, {"ev", tvList(nil)}}
			},
			run: func(args []TV, flds []trFld) ([]TV, []trFld) {
				var ev []TV
				l, mu := lockedOf(flds, &ev)
				n, err := l.Write(args[0].bytes())
				mustBeFree(mu)
				ev = append(append([]TV{lkRec("Mutex.Lock")}, ev...), lkRec("Mutex.Unlock"))
				return []TV{tvInt(int64(n)), errIDs(err)}, setEv(flds, ev)
			}},
		trFn{table: "TransLocked", name: "lockedWriteSyncer_Sync",
			gen: func(r *Rand) ([]TV, []trFld) {
				return nil, []trFld{{"ws", genLkSink(r, false)}, {"ev", tvList(nil)}}
			},
			run: func(_ []TV, flds []trFld) ([]TV, []trFld) {
				var ev []TV
				l, mu := lockedOf(flds, &ev)
				err := l.Sync()
				mustBeFree(mu)
				ev = append(append([]TV{lkRec("Mutex.Lock")}, ev...), lkRec("Mutex.Unlock"))
				return []TV{errIDs(err)}, setEv(flds, ev)
			}},
		trFn{table: "TransLocked", name: "BufferedWriteSyncer_Write", hide: bwsHide,
			gen: func(r *Rand) ([]TV, []trFld) {
				bs := make([]byte, r.Intn(13))
				for i := range bs {
					bs[i] = byte('A' + r.Intn(26))
				}
				return []TV{tvBytes(bs)}, genBwsFlds(r)
			},
			run: func(args []TV, flds []trFld) ([]TV, []trFld) {
				b := newBws(flds)
				n, err := b.s.Write(args[0].bytes())
				return []TV{tvInt(int64(n)), errIDs(err)}, b.fields()
			}},
		trFn{table: "TransLocked", name: "BufferedWriteSyncer_Sync", hide: bwsHide,
			gen: func(r *Rand) ([]TV, []trFld) { return nil, genBwsFlds(r) },
			run: func(_ []TV, flds []trFld) ([]TV, []trFld) {
				b := newBws(flds)
				err := b.s.Sync()
				return []TV{errIDs(err)}, b.fields()
			}},
	)
}
