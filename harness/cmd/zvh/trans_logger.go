package main

// trans_logger.go — CTR adapters for the table TransLogger: the REAL terminalHookOverride (go:linkname), Logger.check
// (through Logger.Check) and the guards of SugaredLogger.log / logln (go:linkname) over a scripted core and clock.
// Parameters of the Lean context, the same on both sides (Drv/CTR.lean): cen c l = (id(c)+l) even; chk c ent = the
// core accepts iff it enables the entry's level; now clock = the clock value; ann = identity (the annotation tail only
// sets ErrorOutput here: no caller, no stack).  The records "Logger.annotate" / "Sugar.formatCheckWrite" stand for
// the untranslated tails and are synthesised from what is observable (the entry was accepted / the core was asked).

import (
	"reflect"
	"time"
	_ "unsafe"

	"go.uber.org/zap"
	"go.uber.org/zap/zapcore"
)

//go:linkname zapTerminalHookOverride go.uber.org/zap.terminalHookOverride
func zapTerminalHookOverride(defaultHook, override zapcore.CheckWriteHook) zapcore.CheckWriteHook

//go:linkname zapSugarLog go.uber.org/zap.(*SugaredLogger).log
func zapSugarLog(s *zap.SugaredLogger, lvl zapcore.Level, template string, fmtArgs []interface{}, context []interface{})

//go:linkname zapSugarLogln go.uber.org/zap.(*SugaredLogger).logln
func zapSugarLogln(s *zap.SugaredLogger, lvl zapcore.Level, fmtArgs []interface{}, context []interface{})

func hookFromVal(v TV) zapcore.CheckWriteHook {
	l := *v.L
	if len(l) == 0 {
		return nil
	}
	if c := l[0].int64(); c >= 0 && c <= 3 {
		return zapcore.CheckWriteAction(c)
	}
	return trIDHook{l[0].int64()}
}

func hookToVal(h zapcore.CheckWriteHook) TV {
	switch t := h.(type) {
	case nil:
		return tvList(nil)
	case zapcore.CheckWriteAction:
		return tvList([]TV{tvInt(int64(t))})
	case trIDHook:
		return tvList([]TV{tvInt(t.id)})
	}
	panic("unknown hook")
}

func genHookVal(r *Rand) TV {
	switch r.Intn(4) {
	case 0:
		return tvList(nil)
	case 1:
		return tvList([]TV{tvInt(int64(r.Intn(4)))})
	}
	return tvList([]TV{tvInt(int64(10 + r.Intn(5)))})
}

type trLogState struct {
	ev     []TV
	coreV  TV
	name   string
	asked  bool
	lastCE bool
}

type trLogCore struct{ st *trLogState }

func (c *trLogCore) id() int64                                  { return (*c.st.coreV.L)[0].int64() }
func (c *trLogCore) Enabled(l zapcore.Level) bool               { return trCen(c.id(), int64(l)) }
func (c *trLogCore) With([]zapcore.Field) zapcore.Core          { return c }
func (c *trLogCore) Write(zapcore.Entry, []zapcore.Field) error { return nil }
func (c *trLogCore) Sync() error                                { return nil }
func (c *trLogCore) Check(e zapcore.Entry, ce *zapcore.CheckedEntry) *zapcore.CheckedEntry {
	c.st.asked = true
	ent := tvList([]TV{tvBytes([]byte(e.LoggerName)), tvInt(e.Time.UnixNano()), tvInt(int64(e.Level)), tvBytes([]byte(e.Message))})
	c.st.ev = append(c.st.ev, tvList([]TV{tvBytes([]byte("Core.Check")), c.st.coreV, ent, tvList(nil)}))
	if c.Enabled(e.Level) {
		return ce.AddCore(e, c)
	}
	return ce
}

type trClock struct {
	st *trLogState
	v  TV
}

func (c trClock) Now() time.Time {
	c.st.ev = append(c.st.ev, tvList([]TV{tvBytes([]byte("Clock.Now")), c.v}))
	return time.Unix(0, c.v.int64())
}
func (c trClock) NewTicker(d time.Duration) *time.Ticker { return time.NewTicker(d) }

func mkLogger(flds []trFld, st *trLogState) *zap.Logger {
	st.coreV = fldOf(flds, "core")
	opts := []zap.Option{zap.WithClock(trClock{st, fldOf(flds, "clock")})}
	if *fldOf(flds, "dev").B {
		opts = append(opts, zap.Development())
	}
	if h := hookFromVal(fldOf(flds, "onPanic")); h != nil {
		opts = append(opts, zap.WithPanicHook(h))
	}
	if h := hookFromVal(fldOf(flds, "onFatal")); h != nil {
		opts = append(opts, zap.WithFatalHook(h))
	}
	lg := zap.New(&trLogCore{st}, opts...)
	if n := string(fldOf(flds, "name").bytes()); n != "" {
		lg = lg.Named(n)
	}
	return lg
}

func genLogFlds(r *Rand) []trFld {
	name := []byte{}
	if r.Bool() {
		name = []byte("n")
	}
	return []trFld{{"core", tvList([]TV{tvInt(int64(r.Intn(7)))})}, {"name", tvBytes(name)}, {"clock", tvInt(int64(r.Intn(1000)))},
		{"dev", tvBool(r.Bool())}, {"onPanic", genHookVal(r)}, {"onFatal", genHookVal(r)}, {"ev", tvList(nil)}}
}

func init() {
	trFns = append(trFns,
		trFn{table: "TransLogger", name: "terminalHookOverride",
			gen: func(r *Rand) ([]TV, []trFld) { return []TV{genHookVal(r), genHookVal(r)}, nil },
			run: func(args []TV, _ []trFld) ([]TV, []trFld) {
				return []TV{hookToVal(zapTerminalHookOverride(hookFromVal(args[0]), hookFromVal(args[1])))}, nil
			}},
		trFn{table: "TransLogger", name: "Logger_check",
			gen: func(r *Rand) ([]TV, []trFld) {
				return []TV{tvInt(int64(r.Intn(9)) - 2), tvBytes(r.Bytes(3))}, genLogFlds(r)
			},
			run: func(args []TV, flds []trFld) ([]TV, []trFld) {
				st := &trLogState{}
				ce := mkLogger(flds, st).Check(zapcore.Level(args[0].int64()), string(args[1].bytes()))
				res := tvList(nil)
				if ce != nil {
					var cores []TV
					cs := unexported(reflect.ValueOf(ce), "cores")
					for i := 0; i < cs.Len(); i++ {
						cores = append(cores, st.coreV)
					}
					var after zapcore.CheckWriteHook
					if h := unexported(reflect.ValueOf(ce), "after"); !h.IsNil() {
						after = h.Interface().(zapcore.CheckWriteHook)
					}
					res = tvList([]TV{tvList(cores), hookToVal(after)})
					if len(cores) > 0 { // the annotation tail ran (it is the identity on what is observed here)
						ent := tvList([]TV{tvBytes([]byte(ce.LoggerName)), tvInt(ce.Time.UnixNano()), tvInt(int64(ce.Level)), tvBytes([]byte(ce.Message))})
						st.ev = append(st.ev, tvList([]TV{tvBytes([]byte("Logger.annotate")), res, ent}))
					}
				}
				return []TV{res}, setEv(flds, st.ev)
			}},
	)
	sugar := func(name string, ln bool) trFn {
		return trFn{table: "TransLogger", name: name,
			gen: func(r *Rand) ([]TV, []trFld) {
				args := []TV{tvInt(int64(r.Intn(9)) - 2)}
				if !ln {
					args = append(args, tvBytes([]byte("t")))
				}
				args = append(args, tvList(nil), tvList(nil))
				return args, []trFld{{"ev", tvList(nil)}, {"#core", tvList([]TV{tvInt(int64(r.Intn(7)))})}}
			},
			run: func(args []TV, flds []trFld) ([]TV, []trFld) {
				st := &trLogState{coreV: fldOf(flds, "#core")}
				lg := zap.New(&trLogCore{st}, zap.WithPanicHook(trIDHook{99}), zap.WithFatalHook(trIDHook{99})).Sugar()
				lvl := zapcore.Level(args[0].int64())
				if ln {
					zapSugarLogln(lg, lvl, nil, nil)
				} else {
					zapSugarLog(lg, lvl, "t", nil, nil)
				}
				var ev []TV
				if st.asked { // the rest of the function ran: it asked the core
					ev = []TV{tvList([]TV{tvBytes([]byte("Sugar.formatCheckWrite")), args[0]})}
				}
				return nil, setEv(flds, ev)
			}}
	}
	trFns = append(trFns, sugar("Sugar_log", false), sugar("Sugar_logln", true))
}
