package main

// trans_message.go — CTR adapters for the table TransMessage (round 4): the REAL getMessage / getMessageln (go:linkname)
// and the whole of (*SugaredLogger).log / logln over a base logger whose core records what it is asked and handed.
//
//   - arguments use the encoding of trans_sweeten.go; what fmt.Sprint / Sprintf / Sprintln make of THE argument list is
//     computed by the generator with the real fmt and handed to both sides as pseudo-fields (#sprint, #sprintf, #sprintln):
//     each is called at most once, on exactly that list, so the decision structure is what is compared.
//   - log / logln: levels Debug … DPanic (Panic / Fatal would end the process); the core enables the levels in #en; the
//     base logger's Check is observed at the core's Check (the message it carries), ce.Write at the core's Write (the
//     fields, decoded back).  The context is well-formed (fields and string-keyed pairs), so sweetenFields issues no
//     diagnostics; its record (not observable) is synthesised when the entry was written.

import (
	"fmt"
	_ "unsafe"

	"go.uber.org/zap"
	"go.uber.org/zap/zapcore"
)

//go:linkname zapGetMessage go.uber.org/zap.getMessage
func zapGetMessage(template string, fmtArgs []interface{}) string

//go:linkname zapGetMessageln go.uber.org/zap.getMessageln
func zapGetMessageln(fmtArgs []interface{}) string

func trMsgArgs(v TV) []interface{} {
	var in []interface{}
	for _, a := range *v.L {
		in = append(in, trDecArg(a))
	}
	return in
}

func genMsgArgs(r *Rand) TV {
	var out []TV
	for i, k := 0, Pick(r, []int{0, 0, 1, 1, 1, 2, 3}); i < k; i++ {
		switch r.Intn(6) {
		case 0, 1, 2:
			out = append(out, tvList([]TV{tvInt(2), tvBytes([]byte(Pick(r, []string{"", "a", "%d", "x y"})))}))
		case 3:
			out = append(out, tvList([]TV{tvInt(3), tvInt(int64(r.Intn(50)))}))
		case 4:
			out = append(out, tvList([]TV{tvInt(4)}))
		default:
			out = append(out, tvList([]TV{tvInt(1), tvInt(int64(i))}))
		}
	}
	return tvList(out)
}

func msgFlds(template string, args TV) []trFld {
	in := trMsgArgs(args)
	return []trFld{{"#sprint", tvBytes([]byte(fmt.Sprint(in...)))}, {"#sprintf", tvBytes([]byte(fmt.Sprintf(template, in...)))},
		{"#sprintln", tvBytes([]byte(fmt.Sprintln(in...)))}}
}

type trMsgCore struct {
	en map[zapcore.Level]bool
	ev *[]TV
}

func (c trMsgCore) Enabled(l zapcore.Level) bool      { return c.en[l] }
func (c trMsgCore) With([]zapcore.Field) zapcore.Core { return c }
func (c trMsgCore) Sync() error                       { return nil }
func (c trMsgCore) Check(e zapcore.Entry, ce *zapcore.CheckedEntry) *zapcore.CheckedEntry {
	*c.ev = append(*c.ev, named("Logger.Check", tvList(nil), tvInt(int64(e.Level)), tvBytes([]byte(e.Message))))
	if c.en[e.Level] {
		return ce.AddCore(e, c)
	}
	return ce
}
func (c trMsgCore) Write(e zapcore.Entry, fs []zapcore.Field) error {
	var out []TV
	for _, f := range fs {
		out = append(out, trEncField(f))
	}
	*c.ev = append(*c.ev, named("CE.Write", tvList([]TV{tvInt(1)}), tvList(out)))
	return nil
}

func genMsgContext(r *Rand) TV {
	var out []TV
	for i, k := 0, r.Intn(4); i < k; i++ {
		if r.Bool() {
			out = append(out, tvList([]TV{tvInt(0), tvBytes([]byte{byte('f' + i)})}))
		} else {
			out = append(out, tvList([]TV{tvInt(2), tvBytes([]byte{byte('k' + i)})}), tvList([]TV{tvInt(3), tvInt(int64(i))}))
		}
	}
	return tvList(out)
}

func init() {
	templates := []string{"", "", "t", "n=%d", "%v %v"}
	trFns = append(trFns,
		trFn{table: "TransMessage", name: "getMessage",
			gen: func(r *Rand) ([]TV, []trFld) {
				t, a := Pick(r, templates), genMsgArgs(r)
				return []TV{tvBytes([]byte(t)), a}, msgFlds(t, a)
			},
			run: func(args []TV, flds []trFld) ([]TV, []trFld) {
				return []TV{tvBytes([]byte(zapGetMessage(string(args[0].bytes()), trMsgArgs(args[1]))))}, flds
			}},
		trFn{table: "TransMessage", name: "getMessageln",
			gen: func(r *Rand) ([]TV, []trFld) { a := genMsgArgs(r); return []TV{a}, msgFlds("", a) },
			run: func(args []TV, flds []trFld) ([]TV, []trFld) {
				return []TV{tvBytes([]byte(zapGetMessageln(trMsgArgs(args[0]))))}, flds
			}},
	)
	sugar := func(name string, ln bool) trFn {
		return trFn{table: "TransMessage", name: name,
			gen: func(r *Rand) ([]TV, []trFld) {
				t, a := Pick(r, templates), genMsgArgs(r)
				var en []TV
				for l := -1; l <= 3; l++ {
					if r.Bool() {
						en = append(en, tvInt(int64(l)))
					}
				}
				args := []TV{tvInt(int64(r.Intn(5)) - 1)}
				if !ln {
					args = append(args, tvBytes([]byte(t)))
				} else {
					t = ""
				}
				args = append(args, a, genMsgContext(r))
				return args, append([]trFld{{"ev", tvList(nil)}, {"base", tvList(nil)}, {"#en", tvList(en)}}, msgFlds(t, a)...)
			},
			run: func(args []TV, flds []trFld) ([]TV, []trFld) {
				var ev []TV
				core := trMsgCore{en: map[zapcore.Level]bool{}, ev: &ev}
				for _, l := range *fldOf(flds, "#en").L {
					core.en[zapcore.Level(l.int64())] = true
				}
				lg := zap.New(core).Sugar()
				lvl := zapcore.Level(args[0].int64())
				var ctx TV
				if ln {
					ctx = args[2]
					zapSugarLogln(lg, lvl, trMsgArgs(args[1]), trMsgArgs(args[2]))
				} else {
					ctx = args[3]
					zapSugarLog(lg, lvl, string(args[1].bytes()), trMsgArgs(args[2]), trMsgArgs(args[3]))
				}
				// the sweetening of the context leaves no trace of its own: its record is put before the Write it fed
				var out []TV
				for _, e := range ev {
					if string((*e.L)[0].bytes()) == "CE.Write" {
						out = append(out, named("Sugar.sweetenFields", ctx, tvInt(1)))
					}
					out = append(out, e)
				}
				return nil, setEv(flds, out)
			}}
	}
	trFns = append(trFns, sugar("Sugar_log", false), sugar("Sugar_logln", true))
}
