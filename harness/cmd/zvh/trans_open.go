package main

// trans_open.go — CTR adapters for the table TransOpen: the REAL normalizeScheme (go:linkname), CombineWriteSyncers
// and Open of package zap.
//
//   - normalizeScheme: the error is re-encoded from its text as the constructor value of Model/TransOpenX.lean.
//   - CombineWriteSyncers: the argument is a list of sink ids; the result is OBSERVED by a probe write — the sinks that
//     received it, in order — and re-encoded as the constructor value (`zapcore.AddSync(io.Discard)` when nothing
//     received it and nothing was passed, `zapcore.Lock(zapcore.NewMultiWriteSyncer(…))` otherwise).
//   - Open: paths are "zvo://<n>" (a registered factory that succeeds with a recording sink named by the path) and
//     "zvf://<n>" (a registered factory that fails).  Recorded: every factory call (the Lean side's
//     `sinkRegistry.newSink` record: with registered schemes the registry calls the factory exactly once per path) and
//     every Close.  The writer is observed by a probe write; the close function by a SECOND run of the same call whose
//     result is invoked (the sinks closed, in order); the error from multierr.Errors and the message texts.  The text
//     of the closure (`blank`) is not observable.

import (
	"errors"
	"fmt"
	"net/url"
	"strings"
	"sync"
	_ "unsafe"

	"go.uber.org/multierr"
	"go.uber.org/zap"
	"go.uber.org/zap/zapcore"
)

//go:linkname zapNormalizeScheme go.uber.org/zap.normalizeScheme
func zapNormalizeScheme(s string) (string, error)

type trOpenRec struct {
	ev       []TV
	received []TV
}

var trOpenCur *trOpenRec
var trOpenOnce sync.Once

type trOpenSink struct {
	id  TV
	rec *trOpenRec
}

func (s trOpenSink) Write(p []byte) (int, error) {
	s.rec.received = append(s.rec.received, s.id)
	return len(p), nil
}
func (s trOpenSink) Sync() error { return nil }
func (s trOpenSink) Close() error {
	s.rec.ev = append(s.rec.ev, tvList([]TV{tvBytes([]byte("Sink.Close")), s.id}))
	return nil
}

func trOpenPath(u *url.URL) []byte { return []byte(u.Scheme + "://" + u.Host) }

func trOpenRegister() {
	trOpenOnce.Do(func() {
		must(zap.RegisterSink("zvo", func(u *url.URL) (zap.Sink, error) {
			p := tvBytes(trOpenPath(u))
			trOpenCur.ev = append(trOpenCur.ev, tvList([]TV{tvBytes([]byte("sinkRegistry.newSink")), p}))
			return trOpenSink{id: tvList([]TV{p}), rec: trOpenCur}, nil
		}))
		must(zap.RegisterSink("zvf", func(u *url.URL) (zap.Sink, error) {
			p := tvBytes(trOpenPath(u))
			trOpenCur.ev = append(trOpenCur.ev, tvList([]TV{tvBytes([]byte("sinkRegistry.newSink")), p}))
			return nil, errors.New("fail " + string(trOpenPath(u)))
		}))
	})
}

func trCon(name string, args ...TV) TV {
	return tvList(append([]TV{tvBytes([]byte(name))}, args...))
}

// the combined writer as the constructor value, from what a probe write reached
func trObserveWriter(ws zapcore.WriteSyncer, rec *trOpenRec, nothingPassed bool) TV {
	rec.received = nil
	_, _ = ws.Write([]byte("probe"))
	if len(rec.received) == 0 && nothingPassed {
		return tvList([]TV{trCon("zapcore.AddSync", tvList([]TV{tvInt(0)}))})
	}
	return tvList([]TV{trCon("zapcore.Lock", tvList([]TV{trCon("zapcore.NewMultiWriteSyncer", tvList(rec.received))}))})
}

func trOpenPaths(args []TV) []string {
	var ps []string
	for _, p := range *args[0].L {
		ps = append(ps, string(p.bytes()))
	}
	return ps
}

func init() {
	trFns = append(trFns,
		trFn{table: "TransOpen", name: "normalizeScheme",
			gen: func(r *Rand) ([]TV, []trFld) {
				n := r.Intn(6)
				if r.Chance(1, 12) {
					n = 0
				}
				b := make([]byte, n)
				for i := range b {
					b[i] = Pick(r, []byte{'a', 'z', 'A', 'Z', 'k', 'Q', '0', '9', '.', '+', '-', '_', ':', ' ', 0xE2, 0x84, 0xAA, '@', '[', '`', '{', '/'})
				}
				return []TV{tvBytes(b)}, []trFld{{"ev", tvList(nil)}}
			},
			run: func(args []TV, flds []trFld) ([]TV, []trFld) {
				s, err := zapNormalizeScheme(string(args[0].bytes()))
				e := tvList(nil)
				if err != nil {
					msg := err.Error()
					switch {
					case msg == "must start with a letter":
						e = tvList([]TV{trCon("errors.New", tvBytes([]byte(msg)))})
					case strings.HasPrefix(msg, "may not contain "):
						// %q of a byte: a quoted rune literal; recover the byte from the input (the first one the message fits)
						in := args[0].bytes()
						for _, c := range in[1:] {
							if fmt.Sprintf("may not contain %q", c) == msg {
								e = tvList([]TV{trCon("fmt.Errorf", tvBytes([]byte("may not contain %q")), tvInt(int64(c)))})
								break
							}
						}
					}
				}
				return []TV{tvBytes([]byte(s)), e}, flds
			}},
		trFn{table: "TransOpen", name: "CombineWriteSyncers",
			gen: func(r *Rand) ([]TV, []trFld) {
				var ws []TV
				for i, k := 0, r.Intn(4); i < k; i++ {
					ws = append(ws, tvList([]TV{tvInt(int64(i + 1))}))
				}
				return []TV{tvList(ws)}, []trFld{{"ev", tvList(nil)}}
			},
			run: func(args []TV, flds []trFld) ([]TV, []trFld) {
				rec := &trOpenRec{}
				var ws []zapcore.WriteSyncer
				for _, id := range *args[0].L {
					ws = append(ws, trOpenSink{id: id, rec: rec})
				}
				return []TV{trObserveWriter(zap.CombineWriteSyncers(ws...), rec, len(ws) == 0)}, flds
			}},
		trFn{table: "TransOpen", name: "Open", blank: []int{1},
			gen: func(r *Rand) ([]TV, []trFld) {
				var ps []TV
				for i, k := 0, r.Intn(5); i < k; i++ {
					sch := "zvo"
					if r.Chance(1, 3) {
						sch = "zvf"
					}
					ps = append(ps, tvBytes([]byte(fmt.Sprintf("%s://%d", sch, i))))
				}
				return []TV{tvList(ps)}, []trFld{{"ev", tvList(nil)}}
			},
			run: func(args []TV, flds []trFld) ([]TV, []trFld) {
				trOpenRegister()
				paths := trOpenPaths(args)
				rec := &trOpenRec{}
				trOpenCur = rec
				ws, closeFn, err := zap.Open(paths...)
				ev := append([]TV(nil), rec.ev...)
				if err != nil {
					var es []TV
					for i, e := range multierr.Errors(err) {
						// "open sink \"<path>\": fail <path>": which path, and the factory's own error
						msg := e.Error()
						var path string
						for _, p := range paths {
							if msg == fmt.Sprintf("open sink %q: fail %s", p, p) {
								path = p
							}
						}
						if path == "" {
							es = append(es, tvBytes([]byte(fmt.Sprintf("?%d:%s", i, msg))))
							continue
						}
						es = append(es, trCon("fmt.Errorf", tvBytes([]byte("open sink %q: %w")), tvBytes([]byte(path)),
							tvList([]TV{tvBytes([]byte(path))})))
					}
					if ws != nil || closeFn != nil {
						es = append(es, tvBytes([]byte("non-nil results with an error")))
					}
					return []TV{tvList(nil), tvList(nil), tvList(es)}, []trFld{{"ev", tvList(ev)}}
				}
				w := trObserveWriter(ws, rec, len(paths) == 0)
				// the close function: a second run, whose result is invoked
				rec2 := &trOpenRec{}
				trOpenCur = rec2
				_, closeFn2, err2 := zap.Open(paths...)
				must(err2)
				rec2.ev = nil
				closeFn2()
				var closed []TV
				for _, e := range rec2.ev {
					closed = append(closed, (*e.L)[1])
				}
				return []TV{w, tvList([]TV{tvBytes(nil), tvList(closed)}), tvList(nil)}, []trFld{{"ev", tvList(ev)}}
			}},
	)
}
