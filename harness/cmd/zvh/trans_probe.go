package main

// trans_probe.go — probe functions for the CTR differential test of the Go→GoMini translator.
//
// These functions are NOT part of zap.  zvgen translates them (gen/trans_specs.go, table TransProbe) exactly like the
// whitelisted zap functions; `zvh exec CTR` runs them compiled by the real Go compiler, `zvdrv CTR` runs the generated
// terms in the GoMini interpreter, and the results are diffed.  They cover the constructs of the subset whose meaning
// is easy to get wrong: fixed-width wrap-around, truncating division, conversions, shifts, slicing and indexing
// panics, short-circuit evaluation, parallel assignment, switch/break/continue, range, named results, shadowing.

import (
	"bytes"
	"strings"
)

func probeU32(a, b uint32) (uint32, uint32, uint32, uint32, uint32, uint32, uint32, uint32) {
	return a + b, a - b, a * b, a ^ b, a & b, a | b, a << (b & 31), a >> (b & 31)
}

func probeU8(c, d uint8) (uint8, uint8, uint8, uint8, uint8, uint8, uint32, int) {
	return c + d, c - d, c * d, c >> 4, c & 0xF, c << 1, uint32(c)<<8 | uint32(d), int(c) - int(d)
}

func probeU64(u, v uint64) (uint64, uint64, uint64, uint64, uint64, bool, bool) {
	return u + v, u - v, u * v, u ^ v, u >> (v & 63), u < v, u == v
}

func probeInt(i, j int) (int, int, int, int, bool, bool, bool) {
	return i + j, i - j, i * j, -i, i < j, i <= j, i != j
}

func probeI64(x, y int64) (int64, int64, int64, int64) {
	return x + y, x - y, x * y, -x
}

func probeDiv(i, j int) (int, int) {
	return i / j, i % j
}

func probeDivU(u, v uint64) (uint64, uint64) {
	return u / v, u % v
}

func probeConv(i int, u uint64, a uint32, x int64) (uint32, uint8, uint64, int, int64, int, uint64, uint8) {
	return uint32(i), uint8(i), uint64(i), int(u), int64(u), int(a), uint64(x), uint8(a)
}

func probeSlice(s []byte, lo, hi int) []byte {
	return s[lo:hi]
}

func probeSliceLo(s string, lo int) string {
	return s[lo:]
}

func probeSliceHi(s []byte, hi int) []byte {
	return s[:hi]
}

func probeIndex(s string, i int) uint8 {
	return s[i]
}

func probeShort(s []byte, i int) bool {
	return i >= 0 && i < len(s) && s[i] == 1 || i < 0 && -i < len(s) && s[-i] != 1
}

func probeSwap(a, b uint32, n int) (uint32, uint32) {
	for i := 0; i < n; i++ {
		a, b = b, a+b
	}
	return a, b
}

func probeLoop(s []byte) (int, int, int) {
	sum, skipped := 0, 0
	i := 0
	for ; i < len(s); i++ {
		if s[i] == 0 {
			skipped++
			continue
		}
		if s[i] == 255 {
			break
		}
		sum += int(s[i])
	}
	return sum, skipped, i
}

func probeSwitch(s []byte) (int, int) {
	x, y := 0, 0
	for i := 0; i < len(s); i++ {
		switch s[i] {
		case 'a', 'b':
			x++
		case 'c':
			if i%2 == 0 {
				break // leaves the switch, not the loop
			}
			x += 10
		case 'd':
			continue // continues the loop: y is not incremented
		default:
			x += 100
		}
		y++
	}
	return x, y
}

func probeRange(xs []byte) (int, int, int) {
	last, sum, n := -1, 0, 0
	for i, b := range xs {
		if b == 7 {
			continue
		}
		if b == 9 {
			break
		}
		last = i
		sum += int(b)
		n++
	}
	return last, sum, n
}

func probeMinMax(i, j int) (int, int) {
	return min(i, j), max(i, j)
}

func probeNamed(s []byte) (n int, rest []byte) {
	if len(s) == 0 {
		return
	}
	n = int(s[0])
	if n > len(s)-1 {
		n = len(s) - 1
	}
	rest = s[1+n:]
	return
}

func probeAppend(s []byte, t string, c byte) []byte {
	var out []byte
	out = append(out, s...)
	out = append(out, c)
	out = append(out, t...)
	out = append(out, '!')
	return out
}

func probeIndexByte(s []byte, t string, c byte) (int, int) {
	return bytes.IndexByte(s, c), strings.LastIndexByte(t, c)
}

func probeShadow(a int) (int, int) {
	x := a
	y := 0
	if a > 0 {
		x := a * 2
		y = x
	}
	for i := 0; i < 2; i++ {
		x := x + i
		y += x
	}
	return x, y
}

func probeWhile(n uint32) (uint32, int) {
	steps := 0
	for n != 1 && steps < 64 {
		if n%2 == 0 {
			n /= 2
		} else {
			n = 3*n + 1
		}
		steps++
	}
	return n, steps
}

// ---------------------------------------------------------------- round 2: struct values, nil-able values, defer,
// forwarded results, variadic parameters, recorded calls in argument position, calls through function values

type probePair struct {
	a int
	b []byte
}

// probeTag is an interface whose values may be nil; probeID is its only implementation
type probeTag interface{ tag() int }
type probeID int

func (p probeID) tag() int { return int(p) }

type probeFn func(int) int

// probeRec: note / done / the function values are INTRINSICS of the whitelist (recorded in ev), not translated
type probeRec struct {
	n           int
	link, other probeTag
	sub         *probePair
	fns         []probeFn
	ev          []TV
}

func (r *probeRec) note(x int) int {
	r.ev = append(r.ev, tvList([]TV{tvBytes([]byte("probe.note")), tvInt(int64(x))}))
	return x + 1
}

func (r *probeRec) done() { r.ev = append(r.ev, tvList([]TV{tvBytes([]byte("probe.done"))})) }

func probeTwo(x int) (int, int) { return x + 1, x - 1 }

func probeStruct(x int, p []byte) (int, int, int) {
	q := probePair{a: x, b: p}
	z := probePair{a: x + 1}
	return q.a, len(q.b), z.a + len(z.b)
}

func probeForward(x int) (int, int) { return probeTwo(x) }

func probeVariadic(base int, xs ...int) int {
	for _, v := range xs {
		base += v
	}
	return base + len(xs)
}

func (r *probeRec) probeDefer(a, b int) int {
	r.n++
	defer r.done()
	if a < 0 {
		return r.note(a)
	}
	return max(r.note(a), r.note(b))
}

func (r *probeRec) probeNilable() (bool, bool, bool, int) {
	s := r.sub
	if s == nil {
		return r.link == nil, r.link == r.other, false, 0
	}
	return r.link != nil, r.link != r.other, true, s.a
}

func (r *probeRec) probeFnValues(x int) int {
	t := 0
	for i := range r.fns {
		v := r.fns[i](x)
		t += v
	}
	return t
}
