package main

// trans_probe4.go — CTR probe functions for the constructs translator round 4 added (docs/TRANSLATOR.md §1c).  They are
// translated like any whitelisted function (table TransProbe) and run here compiled by the Go compiler.

import (
	"bytes"
	"sync"
)

// ---- constants read from the source: iota expressions, typed constants, references to other constants
type probeLvl int8

const (
	probeLo probeLvl = iota - 1
	probeMid
	probeHi

	probeMin = probeLo
	probeMax = probeHi
	probeInv = probeMax + 1
)

// ---- *recv of a pointer receiver whose pointee the entry maps; `if A && B` with statement-level calls on both sides
func (l *probeLvl) set(t []byte) bool {
	switch string(t) {
	case "lo":
		*l = probeLo
	case "mid", "":
		*l = probeMid
	case "hi":
		*l = probeHi
	default:
		return false
	}
	return true
}

func (l *probeLvl) setFolded(t []byte) int {
	if l == nil {
		return -1
	}
	if !l.set(t) && !l.set(bytes.ToLower(t)) {
		return int(*l) + 100
	}
	return int(*l)
}

// ---- a translated pointer-receiver method called on an addressable local (Go takes its address)
func probeParse(t []byte) (probeLvl, int) {
	var v probeLvl
	r := v.setFolded(t)
	return v, r
}

// ---- a counted loop over typed source constants with a return inside
func probeScan(mask int) probeLvl {
	for l := probeMin; l <= probeMax; l++ {
		if mask%2 == 1 && l == probeLo || (mask/2)%2 == 1 && l == probeMid || (mask/4)%2 == 1 && l == probeHi {
			return l
		}
	}
	return probeInv
}

// ---- local struct types, an anonymous struct variable, &v handed to an intrinsic that writes through it, *p of a
// nil-able pointer to an integer
func probeFill(k int, p *struct{ L *int }) bool {
	if k%2 == 0 {
		v := k * 3
		p.L = &v
	}
	return k%3 == 0
}

func probeDecode(k int) (int, bool, bool) {
	type out struct {
		V  int
		OK bool
	}
	var pld struct{ L *int }
	bad := probeFill(k, &pld)
	if pld.L == nil {
		r0 := out{OK: bad}
		return r0.V, r0.OK && false, bad
	}
	r := out{V: *pld.L, OK: true}
	return r.V, r.OK, bad
}

// ---- a variadic translated callee
func probeCallVariadic(a, b int) int { return probeVariadic(a, b, a, b) + probeVariadic(b) }

// ---- the full-capacity slice idiom: the appended-to slice is not written
func probeCapped(xs []byte, y byte) ([]byte, []byte) {
	a := append(xs[:len(xs):len(xs)], y)
	return a, xs
}

// ---- sync.Once: the body runs at the first call only
type probeOnceT struct {
	once sync.Once
	v    int
}

func (p *probeOnceT) get(k int) int {
	p.once.Do(func() {
		p.v = k * 2
	})
	return p.v
}

func (p *probeOnceT) getTwice(a, b int) (int, int) {
	x := p.get(a)
	y := p.get(b)
	return x, y
}

// ---- a type switch
func probeTypeSwitch(x interface{}) int {
	switch v := x.(type) {
	case int:
		return v + 1
	case string:
		return len(v)
	default:
		return -1
	}
}

// ---- &T{…} of a declared struct (a record), a field of a local record handed to an intrinsic that writes through it
type probeBox struct {
	buf *bytes.Buffer
	n   int
}

func probeNewBuf() *bytes.Buffer { return new(bytes.Buffer) }

func probeWrite(b *bytes.Buffer, s []byte) { b.Write(s) }

func probeBoxed(n int, s []byte) ([]byte, int) {
	b := &probeBox{buf: probeNewBuf(), n: n}
	probeWrite(b.buf, s)
	probeWrite(b.buf, s)
	return b.buf.Bytes(), b.n
}

// ---------------------------------------------------------------- adapters

func init() {
	lvlTexts := []string{"lo", "mid", "", "hi", "LO", "Mid", "HI", "x", "low", "hi "}
	text := func(r *Rand) TV { return tvBytes([]byte(Pick(r, lvlTexts))) }
	lvlFlds := func(r *Rand) []trFld { return []trFld{{"lvl", tvInt(int64(r.Intn(5)) - 2)}, {"isnil", tvBool(false)}} }
	withLvl := func(flds []trFld, l probeLvl) []trFld {
		out := append([]trFld(nil), flds...)
		for i := range out {
			if out[i].N == "lvl" {
				out[i].V = tvInt(int64(l))
			}
		}
		return out
	}
	small := func(r *Rand) TV { return tvInt(int64(r.Intn(41)) - 20) }
	onceOf := func(flds []trFld) *probeOnceT {
		p := &probeOnceT{v: int(fldOf(flds, "v").int64())}
		if *fldOf(flds, "done").B {
			p.once.Do(func() {})
		}
		return p
	}
	onceFlds := func(r *Rand) []trFld {
		return []trFld{{"done", tvBool(r.Chance(1, 3))}, {"v", tvInt(int64(r.Intn(9)))}}
	}
	onceOut := func(p *probeOnceT) []trFld { return []trFld{{"done", tvBool(true)}, {"v", tvInt(int64(p.v))}} }
	trFns = append(trFns,
		trFn{table: "TransProbe", name: "probeSet",
			gen: func(r *Rand) ([]TV, []trFld) { return []TV{text(r)}, lvlFlds(r)[:1] },
			run: func(args []TV, flds []trFld) ([]TV, []trFld) {
				l := probeLvl(fldOf(flds, "lvl").int64())
				ok := l.set(args[0].bytes())
				return []TV{tvBool(ok)}, withLvl(flds, l)
			}},
		trFn{table: "TransProbe", name: "probeSetFolded",
			gen: func(r *Rand) ([]TV, []trFld) {
				f := lvlFlds(r)
				if r.Chance(1, 6) {
					f[1].V = tvBool(true)
				}
				return []TV{text(r)}, f
			},
			run: func(args []TV, flds []trFld) ([]TV, []trFld) {
				if *fldOf(flds, "isnil").B {
					var l *probeLvl
					return []TV{tvInt(int64(l.setFolded(args[0].bytes())))}, flds
				}
				l := probeLvl(fldOf(flds, "lvl").int64())
				r := l.setFolded(args[0].bytes())
				return []TV{tvInt(int64(r))}, withLvl(flds, l)
			}},
		trFn{table: "TransProbe", name: "probeParse",
			gen: func(r *Rand) ([]TV, []trFld) { return []TV{text(r)}, lvlFlds(r) },
			run: func(args []TV, flds []trFld) ([]TV, []trFld) {
				l, r := probeParse(args[0].bytes())
				return []TV{tvInt(int64(l)), tvInt(int64(r))}, withLvl(flds, l)
			}},
		trFn{table: "TransProbe", name: "probeScan",
			gen: func(r *Rand) ([]TV, []trFld) { return []TV{tvInt(int64(r.Intn(12)) - 2)}, nil },
			run: func(args []TV, _ []trFld) ([]TV, []trFld) {
				return []TV{tvInt(int64(probeScan(int(args[0].int64()))))}, nil
			}},
		trFn{table: "TransProbe", name: "probeDecode",
			gen: func(r *Rand) ([]TV, []trFld) { return []TV{small(r)}, nil },
			run: func(args []TV, _ []trFld) ([]TV, []trFld) {
				v, ok, bad := probeDecode(int(args[0].int64()))
				return []TV{tvInt(int64(v)), tvBool(ok), tvBool(bad)}, nil
			}},
		trFn{table: "TransProbe", name: "probeCallVariadic",
			gen: func(r *Rand) ([]TV, []trFld) { return []TV{small(r), small(r)}, nil },
			run: func(args []TV, _ []trFld) ([]TV, []trFld) {
				return []TV{tvInt(int64(probeCallVariadic(int(args[0].int64()), int(args[1].int64()))))}, nil
			}},
		trFn{table: "TransProbe", name: "probeCapped",
			gen: func(r *Rand) ([]TV, []trFld) { return []TV{tvBytes(probeBytes(r)), tvUint(randUint64(r, 8))}, nil },
			run: func(args []TV, _ []trFld) ([]TV, []trFld) {
				xs := append(make([]byte, 0, 32), args[0].bytes()...) // spare capacity: an uncapped append WOULD write into it
				a, b := probeCapped(xs, byte(args[1].uint64()))
				c := append(xs, 0xEE) // … which this append then overwrites
				_ = c
				return []TV{tvBytes(a), tvBytes(b)}, nil
			}},
		trFn{table: "TransProbe", name: "probeOnceGet",
			gen: func(r *Rand) ([]TV, []trFld) { return []TV{small(r)}, onceFlds(r) },
			run: func(args []TV, flds []trFld) ([]TV, []trFld) {
				p := onceOf(flds)
				v := p.get(int(args[0].int64()))
				return []TV{tvInt(int64(v))}, onceOut(p)
			}},
		trFn{table: "TransProbe", name: "probeOnceTwice",
			gen: func(r *Rand) ([]TV, []trFld) { return []TV{small(r), small(r)}, onceFlds(r) },
			run: func(args []TV, flds []trFld) ([]TV, []trFld) {
				p := onceOf(flds)
				a, b := p.getTwice(int(args[0].int64()), int(args[1].int64()))
				return []TV{tvInt(int64(a)), tvInt(int64(b))}, onceOut(p)
			}},
		trFn{table: "TransProbe", name: "probeTypeSwitch",
			gen: func(r *Rand) ([]TV, []trFld) {
				switch r.Intn(3) {
				case 0:
					return []TV{tvList([]TV{tvInt(0), small(r)})}, nil
				case 1:
					return []TV{tvList([]TV{tvInt(1), tvBytes(probeBytes(r))})}, nil
				}
				return []TV{tvList([]TV{tvInt(2)})}, nil
			},
			run: func(args []TV, _ []trFld) ([]TV, []trFld) {
				var x interface{}
				switch l := *args[0].L; l[0].int64() {
				case 0:
					x = int(l[1].int64())
				case 1:
					x = string(l[1].bytes())
				default:
					x = struct{}{}
				}
				return []TV{tvInt(int64(probeTypeSwitch(x)))}, nil
			}},
		trFn{table: "TransProbe", name: "probeBoxed",
			gen: func(r *Rand) ([]TV, []trFld) { return []TV{small(r), tvBytes(probeBytes(r))}, nil },
			run: func(args []TV, _ []trFld) ([]TV, []trFld) {
				b, n := probeBoxed(int(args[0].int64()), args[1].bytes())
				return []TV{tvBytes(b), tvInt(int64(n))}, nil
			}},
	)
}
