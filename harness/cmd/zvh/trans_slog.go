package main

// trans_slog.go — CTR adapters for the table TransSlog: the REAL convertSlogLevel, hasContent, convertAttrToField
// (go:linkname), WithGroup and WithAttrs of exp/zapslog on attributes decoded from the encoding of
// Model/TransSlogX.lean: an Attr is [key, value]; a value is [0, lv, [kind, ty, text]] (scalar / any), [1, lv] (the zero
// Value) or [2, lv, members]; lv = number of LogValuer layers (real slog.LogValuer wrappers here).  Scalars are
// canonical: kind 1 "bool" true/false, 4 "int64" decimal, 5 "string", 0 "any:struct" {}.  The zap fields that come back
// are decoded to the constructor values of `convV`.  `Handle` is not run here (what it hands to the untranslated
// attribute iteration is not observable as a value).

import (
	"context"
	"log/slog"
	"reflect"
	"strconv"
	_ "unsafe"

	"go.uber.org/zap/exp/zapslog"
	"go.uber.org/zap/zapcore"
)

//go:linkname zapslogConvertLevel go.uber.org/zap/exp/zapslog.convertSlogLevel
func zapslogConvertLevel(l slog.Level) zapcore.Level

//go:linkname zapslogHasContent go.uber.org/zap/exp/zapslog.hasContent
func zapslogHasContent(attr slog.Attr) bool

//go:linkname zapslogConvertAttr go.uber.org/zap/exp/zapslog.convertAttrToField
func zapslogConvertAttr(attr slog.Attr) zapcore.Field

type trLV struct{ v slog.Value }

func (l trLV) LogValue() slog.Value { return l.v }

type trAnyStruct struct{}

func slogValue(v TV) slog.Value {
	l := *v.L
	var out slog.Value
	switch l[0].int64() {
	case 0:
		p := *l[2].L
		txt := string(p[2].bytes())
		switch p[0].int64() {
		case 1:
			out = slog.BoolValue(txt == "true")
		case 4:
			n, _ := strconv.ParseInt(txt, 10, 64)
			out = slog.Int64Value(n)
		case 5:
			out = slog.StringValue(txt)
		default:
			out = slog.AnyValue(trAnyStruct{})
		}
	case 1:
		out = slog.Value{}
	default:
		var ms []slog.Attr
		for _, m := range *l[2].L {
			ms = append(ms, slogAttr(m))
		}
		out = slog.GroupValue(ms...)
	}
	for i := int64(0); i < l[1].int64(); i++ {
		out = slog.AnyValue(trLV{out})
	}
	return out
}

func slogAttr(v TV) slog.Attr {
	l := *v.L
	return slog.Attr{Key: string(l[0].bytes()), Value: slogValue(l[1])}
}

func encSlogValue(v slog.Value) TV {
	lv := int64(0)
	for v.Kind() == slog.KindLogValuer {
		v = v.LogValuer().(trLV).v
		lv++
	}
	leaf := func(kind int64, ty, txt string) TV {
		return tvList([]TV{tvInt(0), tvInt(lv), tvList([]TV{tvInt(kind), tvBytes([]byte(ty)), tvBytes([]byte(txt))})})
	}
	switch v.Kind() {
	case slog.KindBool:
		return leaf(1, "bool", strconv.FormatBool(v.Bool()))
	case slog.KindInt64:
		return leaf(4, "int64", strconv.FormatInt(v.Int64(), 10))
	case slog.KindString:
		return leaf(5, "string", v.String())
	case slog.KindGroup:
		var ms []TV
		for _, a := range v.Group() {
			ms = append(ms, encSlogAttr(a))
		}
		return tvList([]TV{tvInt(2), tvInt(lv), tvList(ms)})
	}
	if v.Any() == nil {
		return tvList([]TV{tvInt(1), tvInt(lv)})
	}
	return leaf(0, "any:struct", "{}")
}

func encSlogAttr(a slog.Attr) TV { return tvList([]TV{tvBytes([]byte(a.Key)), encSlogValue(a.Value)}) }

// the payload of a scalar as `leafV` encodes it
func slogPayload(kind int64, ty, txt string) TV {
	return tvList([]TV{tvInt(kind), tvBytes([]byte(ty)), tvBytes([]byte(txt))})
}

func encSlogField(f zapcore.Field) TV {
	k := tvBytes([]byte(f.Key))
	switch f.Type {
	case zapcore.SkipType:
		return named("zap.Skip")
	case zapcore.BoolType:
		return named("zap.Bool", k, slogPayload(1, "bool", strconv.FormatBool(f.Integer == 1)))
	case zapcore.Int64Type:
		return named("zap.Int64", k, slogPayload(4, "int64", strconv.FormatInt(f.Integer, 10)))
	case zapcore.StringType:
		return named("zap.String", k, slogPayload(5, "string", f.String))
	case zapcore.NamespaceType:
		return named("zap.Namespace", k)
	case zapcore.ReflectType:
		if f.Interface == nil {
			return named("zap.Any", k, slogPayload(0, "any:nil", "<nil>"))
		}
		return named("zap.Any", k, slogPayload(0, "any:struct", "{}"))
	case zapcore.ObjectMarshalerType, zapcore.InlineMarshalerType:
		gs := reflect.ValueOf(f.Interface) // groupObject = []slog.Attr
		var ms []TV
		for i := 0; i < gs.Len(); i++ {
			ms = append(ms, encSlogAttr(gs.Index(i).Interface().(slog.Attr)))
		}
		if f.Type == zapcore.InlineMarshalerType {
			return named("zap.Inline", tvList(ms))
		}
		return named("zap.Object", k, tvList(ms))
	}
	panic("unexpected field type from convertAttrToField")
}

// slog.GroupValue itself drops members that are empty groups (without LogValuer layers), so such members are not generated
func genSlogAttr(r *Rand, depth int) TV { return genSlogAttrIn(r, depth, false) }

func genSlogAttrIn(r *Rand, depth int, inGroup bool) TV {
	key := []byte{}
	if r.Chance(3, 4) {
		key = []byte{byte('a' + r.Intn(3))}
	}
	lv := int64(0)
	if r.Chance(1, 4) {
		lv = int64(1 + r.Intn(2))
	}
	var val TV
	c := r.Intn(7)
	if depth <= 0 && c >= 5 {
		c = r.Intn(5)
	}
	switch c {
	case 0:
		val = tvList([]TV{tvInt(0), tvInt(lv), slogPayload(1, "bool", strconv.FormatBool(r.Bool()))})
	case 1:
		val = tvList([]TV{tvInt(0), tvInt(lv), slogPayload(4, "int64", strconv.Itoa(r.Intn(100)-50))})
	case 2:
		val = tvList([]TV{tvInt(0), tvInt(lv), slogPayload(5, "string", string(rune('x'+r.Intn(3))))})
	case 3:
		val = tvList([]TV{tvInt(0), tvInt(lv), slogPayload(0, "any:struct", "{}")})
	case 4:
		val = tvList([]TV{tvInt(1), tvInt(lv)})
	default:
		var ms []TV
		k := r.Intn(3)
		if inGroup && lv == 0 && k == 0 {
			k = 1
		}
		for i := 0; i < k; i++ {
			ms = append(ms, genSlogAttrIn(r, depth-1, true))
		}
		val = tvList([]TV{tvInt(2), tvInt(lv), tvList(ms)})
	}
	return tvList([]TV{tvBytes(key), val})
}

// a scripted core: With(fields) is the pair [core, fields]
type trSlogCore struct{ v TV }

func (c trSlogCore) Enabled(zapcore.Level) bool { return true }
func (c trSlogCore) With(fs []zapcore.Field) zapcore.Core {
	var l []TV
	for _, f := range fs {
		l = append(l, encSlogField(f))
	}
	return trSlogCore{tvList([]TV{c.v, tvList(l)})}
}
func (c trSlogCore) Check(e zapcore.Entry, ce *zapcore.CheckedEntry) *zapcore.CheckedEntry { return ce }
func (c trSlogCore) Write(zapcore.Entry, []zapcore.Field) error                            { return nil }
func (c trSlogCore) Sync() error                                                           { return nil }

func slogHandlerOf(flds []trFld) *zapslog.Handler {
	h := zapslog.NewHandler(trSlogCore{fldOf(flds, "core")}, zapslog.WithName(string(fldOf(flds, "name").bytes())),
		zapslog.WithCaller(*fldOf(flds, "addCaller").B), zapslog.AddStacktraceAt(slog.Level(fldOf(flds, "addStackAt").int64())),
		zapslog.WithCallerSkip(int(fldOf(flds, "callerSkip").int64())))
	var cur slog.Handler = h
	for _, g := range *fldOf(flds, "groups").L {
		cur = cur.WithGroup(string(g.bytes()))
	}
	return cur.(*zapslog.Handler)
}

func slogHandlerFlds(flds []trFld, nh *zapslog.Handler) []trFld {
	v := reflect.ValueOf(nh)
	var gs []TV
	g := unexported(v, "groups")
	for i := 0; i < g.Len(); i++ {
		gs = append(gs, tvBytes([]byte(g.Index(i).String())))
	}
	var out []trFld
	for _, f := range flds {
		switch f.N {
		case "o.core":
			f.V = unexported(v, "core").Interface().(trSlogCore).v
		case "o.name":
			f.V = tvBytes([]byte(unexported(v, "name").String()))
		case "o.addCaller":
			f.V = tvBool(unexported(v, "addCaller").Bool())
		case "o.addStackAt":
			f.V = tvInt(unexported(v, "addStackAt").Int())
		case "o.callerSkip":
			f.V = tvInt(unexported(v, "callerSkip").Int())
		case "o.groups":
			f.V = tvList(gs)
		}
		out = append(out, f)
	}
	return out
}

func genSlogHandlerFlds(r *Rand) []trFld {
	var gs []TV
	for i, k := 0, r.Intn(3); i < k; i++ {
		gs = append(gs, tvBytes([]byte{byte('g' + i)}))
	}
	name := []byte{}
	if r.Bool() {
		name = []byte("n")
	}
	return []trFld{{"core", tvList([]TV{tvInt(int64(r.Intn(5)))})}, {"name", tvBytes(name)}, {"addCaller", tvBool(r.Bool())},
		{"addStackAt", tvInt(int64(r.Intn(17)) - 4)}, {"callerSkip", tvInt(int64(r.Intn(3)))}, {"groups", tvList(gs)}, {"self", tvList(nil)},
		{"o.core", tvList(nil)}, {"o.name", tvBytes(nil)}, {"o.addCaller", tvBool(false)}, {"o.addStackAt", tvInt(0)},
		{"o.callerSkip", tvInt(0)}, {"o.groups", tvList(nil)}, {"o.self", tvList(nil)}, {"ev", tvList(nil)}}
}

func init() {
	_ = context.Background
	trFns = append(trFns,
		trFn{table: "TransSlog", name: "convertSlogLevel",
			gen: func(r *Rand) ([]TV, []trFld) {
				if r.Chance(1, 5) {
					return []TV{tvInt(randInt64(r))}, nil
				}
				return []TV{tvInt(int64(r.Intn(30)) - 12)}, nil
			},
			run: func(args []TV, _ []trFld) ([]TV, []trFld) {
				return []TV{tvInt(int64(zapslogConvertLevel(slog.Level(args[0].int64()))))}, nil
			}},
		trFn{table: "TransSlog", name: "hasContent",
			gen: func(r *Rand) ([]TV, []trFld) { return []TV{genSlogAttr(r, 3)}, nil },
			run: func(args []TV, _ []trFld) ([]TV, []trFld) {
				return []TV{tvBool(zapslogHasContent(slogAttr(args[0])))}, nil
			}},
		trFn{table: "TransSlog", name: "convertAttrToField",
			gen: func(r *Rand) ([]TV, []trFld) { return []TV{genSlogAttr(r, 3)}, nil },
			run: func(args []TV, _ []trFld) ([]TV, []trFld) {
				return []TV{encSlogField(zapslogConvertAttr(slogAttr(args[0])))}, nil
			}},
		trFn{table: "TransSlog", name: "WithGroup",
			gen: func(r *Rand) ([]TV, []trFld) {
				g := []byte{}
				if r.Chance(3, 4) {
					g = []byte("w")
				}
				return []TV{tvBytes(g)}, genSlogHandlerFlds(r)
			},
			run: func(args []TV, flds []trFld) ([]TV, []trFld) {
				h := slogHandlerOf(flds)
				nh := h.WithGroup(string(args[0].bytes())).(*zapslog.Handler)
				if nh == h {
					return []TV{fldOf(flds, "self")}, flds
				}
				return []TV{fldOf(flds, "o.self")}, slogHandlerFlds(flds, nh)
			}},
		trFn{table: "TransSlog", name: "WithAttrs",
			gen: func(r *Rand) ([]TV, []trFld) {
				var as []TV
				for i, k := 0, r.Intn(4); i < k; i++ {
					as = append(as, genSlogAttr(r, 2))
				}
				return []TV{tvList(as)}, genSlogHandlerFlds(r)
			},
			run: func(args []TV, flds []trFld) ([]TV, []trFld) {
				h := slogHandlerOf(flds)
				var as []slog.Attr
				for _, a := range *args[0].L {
					as = append(as, slogAttr(a))
				}
				nh := h.WithAttrs(as).(*zapslog.Handler)
				return []TV{fldOf(flds, "o.self")}, slogHandlerFlds(flds, nh)
			}},
	)
}
