package main

// trans_stackfmt.go — CTR adapter for the table TransStackFmt (round 4): the REAL (*stacktrace.Formatter).FormatFrame
// (go:linkname; the Formatter is built through a mirror struct).  FormatStack is not run here: it needs a real *Stack whose
// frames the Lean side would have to be told (C15's own correspondence compares the stack text of real log calls).

import (
	"runtime"
	"unsafe"

	"go.uber.org/zap/buffer"
)

//go:linkname zapFormatFrame go.uber.org/zap/internal/stacktrace.(*Formatter).FormatFrame
func zapFormatFrame(sf unsafe.Pointer, frame runtime.Frame)

type trFormatterMirror struct {
	b        *buffer.Buffer
	nonEmpty bool
}

var trFmtPool = buffer.NewPool()

func init() {
	trFns = append(trFns, trFn{table: "TransStackFmt", name: "FormatFrame",
		gen: func(r *Rand) ([]TV, []trFld) {
			fr := tvList([]TV{tvBytes([]byte(Pick(r, []string{"main.f", "pkg.(*T).M", ""}))), tvBytes([]byte(Pick(r, []string{"/a/b.go", "c.go", ""}))),
				tvInt(int64(Pick(r, []int{0, 1, 7, 42, 1000, 123456789})))})
			return []TV{fr}, []trFld{{"b", tvBytes(probeBytes(r))}, {"nonEmpty", tvBool(r.Bool())}}
		},
		run: func(args []TV, flds []trFld) ([]TV, []trFld) {
			buf := trFmtPool.Get()
			defer buf.Free()
			_, _ = buf.Write(fldOf(flds, "b").bytes())
			sf := &trFormatterMirror{b: buf, nonEmpty: *fldOf(flds, "nonEmpty").B}
			f := *args[0].L
			zapFormatFrame(unsafe.Pointer(sf), runtime.Frame{Function: string(f[0].bytes()), File: string(f[1].bytes()), Line: int(f[2].int64())})
			return nil, []trFld{{"b", tvBytes(append([]byte(nil), buf.Bytes()...))}, {"nonEmpty", tvBool(sf.nonEmpty)}}
		}})
}
