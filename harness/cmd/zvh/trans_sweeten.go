package main

// trans_sweeten.go — CTR adapter for the table TransSweeten: the REAL (*SugaredLogger).sweetenFields (go:linkname)
// on argument lists built from encoded values, over a base logger whose core records the diagnostics.
//
//	argument encoding (the same on the Lean side, `sweetenPar` in Drv/CTR.lean):
//	  [0, key] a zap.Field   [1, id] an error   [2, s] a string   [3, n] an int   [4] untyped nil   [5, id] any other value
//	outputs: a passed Field is its own encoding; Error(e) = ["Error", enc e]; Any(k, v) = ["Any", k, enc v];
//	Array(k, pairs) = ["Array", k, [[pos, enc key, enc val]…]] — decoded from the real zap.Field values.
//
// AddCallerSkip(skip) is not observable here (no caller annotation is requested); `cap` is not observable at all —
// the Lean side uses cap = len, any function with cap s = 0 → s = [] gives the same results.

import (
	"reflect"
	_ "unsafe"

	"go.uber.org/zap"
	"go.uber.org/zap/zapcore"
)

//go:linkname zapSweeten go.uber.org/zap.(*SugaredLogger).sweetenFields
func zapSweeten(s *zap.SugaredLogger, args []interface{}, skip int) []zap.Field

type trArgErr struct{ id int64 }

func (e trArgErr) Error() string { return "arg error" }

type trArgVal struct{ id int64 }

const trPassed = "\x00passed"

func trDecArg(v TV) interface{} {
	l := *v.L
	switch l[0].int64() {
	case 0:
		return zap.String(string(l[1].bytes()), trPassed)
	case 1:
		return trArgErr{l[1].int64()}
	case 2:
		return string(l[1].bytes())
	case 3:
		return int(l[1].int64())
	case 4:
		return nil
	}
	return trArgVal{l[1].int64()}
}

func trEncArg(x interface{}) TV {
	switch t := x.(type) {
	case nil:
		return tvList([]TV{tvInt(4)})
	case zap.Field:
		if t.Type != zapcore.StringType || t.String != trPassed {
			panic("not a passed field")
		}
		return tvList([]TV{tvInt(0), tvBytes([]byte(t.Key))})
	case trArgErr:
		return tvList([]TV{tvInt(1), tvInt(t.id)})
	case string:
		return tvList([]TV{tvInt(2), tvBytes([]byte(t))})
	case int:
		return tvList([]TV{tvInt(3), tvInt(int64(t))})
	case trArgVal:
		return tvList([]TV{tvInt(5), tvInt(t.id)})
	}
	panic("unknown argument value")
}

func named(name string, vs ...TV) TV { return tvList(append([]TV{tvBytes([]byte(name))}, vs...)) }

// trEncField reads a zap.Field back: which constructor built it and from what
func trEncField(f zap.Field) TV {
	switch f.Type {
	case zapcore.StringType:
		if f.String == trPassed {
			return trEncArg(f)
		}
		return named("Any", tvBytes([]byte(f.Key)), trEncArg(f.String))
	case zapcore.Int64Type:
		return named("Any", tvBytes([]byte(f.Key)), trEncArg(int(f.Integer)))
	case zapcore.ErrorType:
		if f.Key == "error" {
			return named("Error", trEncArg(f.Interface))
		}
		return named("Any", tvBytes([]byte(f.Key)), trEncArg(f.Interface))
	case zapcore.ReflectType:
		return named("Any", tvBytes([]byte(f.Key)), trEncArg(f.Interface))
	case zapcore.ArrayMarshalerType:
		ps := reflect.ValueOf(f.Interface) // invalidPairs: []struct{position int; key, value interface{}}
		cp := reflect.New(ps.Type()).Elem()
		cp.Set(ps)
		var out []TV
		for i := 0; i < cp.Len(); i++ {
			e := cp.Index(i).Addr()
			out = append(out, tvList([]TV{tvInt(unexported(e, "position").Int()),
				trEncArg(unexported(e, "key").Interface()), trEncArg(unexported(e, "value").Interface())}))
		}
		return named("Array", tvBytes([]byte(f.Key)), tvList(out))
	}
	panic("unexpected field type")
}

type trDiagCore struct{ ev *[]TV }

func (c trDiagCore) Enabled(zapcore.Level) bool        { return true }
func (c trDiagCore) With([]zapcore.Field) zapcore.Core { return c }
func (c trDiagCore) Sync() error                       { return nil }
func (c trDiagCore) Check(e zapcore.Entry, ce *zapcore.CheckedEntry) *zapcore.CheckedEntry {
	return ce.AddCore(e, c)
}
func (c trDiagCore) Write(e zapcore.Entry, fs []zapcore.Field) error {
	if e.Level != zapcore.ErrorLevel || len(fs) != 1 {
		panic("unexpected diagnostic")
	}
	*c.ev = append(*c.ev, named("diag.Error", tvBytes([]byte(e.Message)), trEncField(fs[0])))
	return nil
}

func genSweetenArgs(r *Rand) TV {
	var out []TV
	for i, k := 0, r.Intn(8); i < k; i++ {
		switch r.Intn(9) {
		case 0, 1:
			out = append(out, tvList([]TV{tvInt(0), tvBytes([]byte{byte('f' + i)})}))
		case 2:
			out = append(out, tvList([]TV{tvInt(1), tvInt(int64(i))}))
		case 3, 4, 5:
			out = append(out, tvList([]TV{tvInt(2), tvBytes([]byte{byte('k' + i)})}))
		case 6:
			out = append(out, tvList([]TV{tvInt(3), tvInt(int64(i))}))
		case 7:
			out = append(out, tvList([]TV{tvInt(4)}))
		default:
			out = append(out, tvList([]TV{tvInt(5), tvInt(int64(i))}))
		}
	}
	return tvList(out)
}

func init() {
	trFns = append(trFns, trFn{table: "TransSweeten", name: "sweetenFields",
		gen: func(r *Rand) ([]TV, []trFld) {
			return []TV{genSweetenArgs(r), tvInt(int64(r.Intn(3)))}, []trFld{{"ev", tvList(nil)}}
		},
		run: func(args []TV, flds []trFld) ([]TV, []trFld) {
			var ev []TV
			s := zap.New(trDiagCore{&ev}).Sugar()
			var in []interface{}
			for _, a := range *args[0].L {
				in = append(in, trDecArg(a))
			}
			var out []TV
			for _, f := range zapSweeten(s, in, int(args[1].int64())) {
				out = append(out, trEncField(f))
			}
			return []TV{tvList(out)}, setEv(flds, ev)
		}})
}
