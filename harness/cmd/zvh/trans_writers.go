package main

// trans_writers.go — CTR adapters for the table TransWriters (round 4): the REAL std-log bridge writer
// (zap.NewStdLog(l).Writer() is the *loggerWriter), zaptest.TestingWriter.Write, zapcore.AddSync, the Sync of the wrapper
// AddSync builds, zapcore.Lock and zapcore.NewMultiWriteSyncer.
//
//   - payloads are ASCII: bytes.TrimSpace / TrimRight are the byte-wise trims the Lean side uses;
//   - the bridge's log function is observed at the core's Write (message of the entry); testing.TB is a recorder;
//   - writers are [kind, id]: kind 0 a plain io.Writer, 1 a WriteSyncer, 2 a syncer that zapcore.Lock already wrapped;
//     results are observed by identity / dynamic type and re-encoded as the records the translated functions build.

import (
	"fmt"
	"reflect"

	"go.uber.org/zap"
	"go.uber.org/zap/zapcore"
	"go.uber.org/zap/zaptest"
)

type trBridgeCore struct{ ev *[]TV }

func (c trBridgeCore) Enabled(zapcore.Level) bool        { return true }
func (c trBridgeCore) With([]zapcore.Field) zapcore.Core { return c }
func (c trBridgeCore) Sync() error                       { return nil }
func (c trBridgeCore) Check(e zapcore.Entry, ce *zapcore.CheckedEntry) *zapcore.CheckedEntry {
	return ce.AddCore(e, c)
}
func (c trBridgeCore) Write(e zapcore.Entry, fs []zapcore.Field) error {
	*c.ev = append(*c.ev, named("LogFunc.call", tvList(nil), tvBytes([]byte(e.Message))))
	return nil
}

type trTB struct{ ev *[]TV }

func (t trTB) Logf(f string, a ...interface{}) {
	if len(a) != 1 {
		panic("Logf arity")
	}
	*t.ev = append(*t.ev, named("TB.Logf", tvList(nil), tvBytes([]byte(f)), tvBytes(a[0].([]byte))))
}
func (t trTB) Errorf(string, ...interface{}) { panic("Errorf") }
func (t trTB) Fail()                         { *t.ev = append(*t.ev, named("TB.Fail", tvList(nil))) }
func (t trTB) Failed() bool                  { return false }
func (t trTB) Name() string                  { return "tr" }
func (t trTB) FailNow()                      { panic("FailNow") }

type trPlainW struct{ id int64 }

func (w *trPlainW) Write(p []byte) (int, error) { return len(p), nil }

type trSyncW struct{ id int64 }

func (w *trSyncW) Write(p []byte) (int, error) { return len(p), nil }
func (w *trSyncW) Sync() error                 { return nil }

var trWriterCache = map[string]interface{}{}

// trWriterOf: the SAME Go value for the same encoding within one case (identity is what is observed)
func trWriterOf(v TV, cache map[string]interface{}) interface{} {
	k := fmt.Sprint(*(*v.L)[0].I, "/", *(*v.L)[1].I)
	if w, ok := cache[k]; ok {
		return w
	}
	var w interface{}
	switch (*v.L)[0].int64() {
	case 0:
		w = &trPlainW{(*v.L)[1].int64()}
	case 1:
		w = &trSyncW{(*v.L)[1].int64()}
	default:
		w = zapcore.Lock(&trSyncW{(*v.L)[1].int64()})
	}
	cache[k] = w
	return w
}

func genWriterVal(r *Rand) TV { return tvList([]TV{tvInt(int64(r.Intn(3))), tvInt(int64(r.Intn(4)))}) }

func asciiPayload(r *Rand) []byte {
	b := make([]byte, r.Intn(10))
	for i := range b {
		b[i] = Pick(r, []byte(" \t\n\r\v\fabz\n\n  "))
	}
	return b
}

func init() {
	trFns = append(trFns,
		trFn{table: "TransWriters", name: "loggerWriter_Write",
			gen: func(r *Rand) ([]TV, []trFld) {
				return []TV{tvBytes(asciiPayload(r))}, []trFld{{"ev", tvList(nil)}, {"logFunc", tvList(nil)}}
			},
			run: func(args []TV, flds []trFld) ([]TV, []trFld) {
				var ev []TV
				w := zap.NewStdLog(zap.New(trBridgeCore{&ev})).Writer()
				n, err := w.Write(args[0].bytes())
				if err != nil {
					panic(err)
				}
				return []TV{tvInt(int64(n)), tvList(nil)}, setEv(flds, ev)
			}},
		trFn{table: "TransWriters", name: "TestingWriter_Write",
			gen: func(r *Rand) ([]TV, []trFld) {
				return []TV{tvBytes(asciiPayload(r))}, []trFld{{"ev", tvList(nil)}, {"t", tvList(nil)}, {"markFailed", tvBool(r.Bool())}}
			},
			run: func(args []TV, flds []trFld) ([]TV, []trFld) {
				var ev []TV
				w := zaptest.NewTestingWriter(trTB{&ev}).WithMarkFailed(*fldOf(flds, "markFailed").B)
				n, err := w.Write(args[0].bytes())
				if err != nil {
					panic(err)
				}
				return []TV{tvInt(int64(n)), tvList(nil)}, setEv(flds, ev)
			}},
		trFn{table: "TransWriters", name: "AddSync",
			gen: func(r *Rand) ([]TV, []trFld) { return []TV{genWriterVal(r)}, nil },
			run: func(args []TV, flds []trFld) ([]TV, []trFld) {
				w := trWriterOf(args[0], map[string]interface{}{})
				res := zapcore.AddSync(w.(interface{ Write([]byte) (int, error) }))
				if interface{}(res) == w {
					return []TV{args[0]}, flds
				}
				rv := reflect.ValueOf(res)
				if rv.Type().String() != "zapcore.writerWrapper" || rv.Field(0).Interface() != w {
					panic("not a wrapper of the argument")
				}
				if res.Sync() != nil {
					panic("wrapper Sync")
				}
				return []TV{tvList([]TV{tvList([]TV{args[0]})})}, flds
			}},
		trFn{table: "TransWriters", name: "writerWrapper_Sync",
			gen: func(r *Rand) ([]TV, []trFld) {
				return nil, []trFld{{"w", tvList([]TV{tvInt(0), tvInt(int64(r.Intn(4)))})}}
			},
			run: func(_ []TV, flds []trFld) ([]TV, []trFld) {
				err := zapcore.AddSync(trWriterOf(fldOf(flds, "w"), map[string]interface{}{}).(*trPlainW)).Sync()
				if err != nil {
					panic(err)
				}
				return []TV{tvList(nil)}, flds
			}},
		trFn{table: "TransWriters", name: "Lock",
			gen: func(r *Rand) ([]TV, []trFld) {
				return []TV{tvList([]TV{tvInt(int64(1 + r.Intn(2))), tvInt(int64(r.Intn(4)))})}, nil
			},
			run: func(args []TV, flds []trFld) ([]TV, []trFld) {
				ws := trWriterOf(args[0], map[string]interface{}{}).(zapcore.WriteSyncer)
				res := zapcore.Lock(ws)
				if res == ws {
					return []TV{args[0]}, flds
				}
				rv := reflect.ValueOf(res).Elem()
				if rv.Type().String() != "zapcore.lockedWriteSyncer" || unexported(rv.Addr(), "ws").Interface() != interface{}(ws) {
					panic("not a lock around the argument")
				}
				return []TV{tvList([]TV{tvList([]TV{tvList(nil), args[0]})})}, flds
			}},
		trFn{table: "TransWriters", name: "NewMultiWriteSyncer",
			gen: func(r *Rand) ([]TV, []trFld) {
				var ws []TV
				for i, k := 0, Pick(r, []int{0, 1, 1, 2, 3}); i < k; i++ {
					ws = append(ws, tvList([]TV{tvInt(1), tvInt(int64(i))}))
				}
				return []TV{tvList(ws)}, nil
			},
			run: func(args []TV, flds []trFld) ([]TV, []trFld) {
				cache := map[string]interface{}{}
				var ws []zapcore.WriteSyncer
				for _, v := range *args[0].L {
					ws = append(ws, trWriterOf(v, cache).(zapcore.WriteSyncer))
				}
				res := zapcore.NewMultiWriteSyncer(ws...)
				if len(ws) == 1 {
					if res != ws[0] {
						panic("one syncer is not returned itself")
					}
					return []TV{(*args[0].L)[0]}, flds
				}
				rv := reflect.ValueOf(res)
				if rv.Kind() != reflect.Slice || rv.Len() != len(ws) {
					panic("not a multi syncer over the arguments")
				}
				for i := range ws {
					if rv.Index(i).Interface() != interface{}(ws[i]) {
						panic("multi syncer element")
					}
				}
				return []TV{tvList([]TV{args[0]})}, flds
			}},
	)
}
