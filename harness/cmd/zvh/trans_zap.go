package main

// trans_zap.go — the REAL unexported zap functions of the translator's whitelist, reached with go:linkname
// (no hook in /repo; a renamed or removed function is a link error, i.e. a broken `corr:build`).

import (
	"bytes"
	"fmt"
	"reflect"
	"regexp"
	"strconv"
	"strings"
	"sync/atomic"
	"time"
	"unsafe"

	"go.uber.org/multierr"
	"go.uber.org/zap"
	"go.uber.org/zap/buffer"
	"go.uber.org/zap/zapcore"
	"go.uber.org/zap/zapio"
	"go.uber.org/zap/zaptest/observer"
)

//go:linkname zapJSONSep go.uber.org/zap/zapcore.(*jsonEncoder).addElementSeparator
func zapJSONSep(enc unsafe.Pointer)

//go:linkname zapJSONAddKey go.uber.org/zap/zapcore.(*jsonEncoder).addKey
func zapJSONAddKey(enc unsafe.Pointer, key string)

//go:linkname zapJSONClose go.uber.org/zap/zapcore.(*jsonEncoder).closeOpenNamespaces
func zapJSONClose(enc unsafe.Pointer)

// unexported returns an addressable, settable view of an unexported struct field.
func unexported(structPtr reflect.Value, name string) reflect.Value {
	f := structPtr.Elem().FieldByName(name)
	if !f.IsValid() {
		panic("zap struct has no field " + name)
	}
	return reflect.NewAt(f.Type(), unsafe.Pointer(f.UnsafeAddr())).Elem()
}

// trJSONEnc builds a real *jsonEncoder in the given state and returns it with accessors.
type trJSONEnc struct {
	v   reflect.Value
	ptr unsafe.Pointer
	buf *buffer.Buffer
}

func newJSONEnc(flds []trFld) *trJSONEnc {
	e := zapcore.NewJSONEncoder(zapcore.EncoderConfig{})
	v := reflect.ValueOf(e)
	j := &trJSONEnc{v: v, ptr: v.UnsafePointer()}
	j.buf = unexported(v, "buf").Interface().(*buffer.Buffer)
	j.buf.Reset()
	for _, f := range flds {
		switch f.N {
		case "buf":
			_, _ = j.buf.Write(f.V.bytes())
		case "spaced":
			unexported(v, "spaced").SetBool(*f.V.B)
		case "openNs":
			unexported(v, "openNamespaces").SetInt(f.V.int64())
		}
	}
	return j
}

func (j *trJSONEnc) fields() []trFld {
	return []trFld{
		{"buf", tvBytes(append([]byte{}, j.buf.Bytes()...))},
		{"spaced", tvBool(unexported(j.v, "spaced").Bool())},
		{"openNs", tvInt(unexported(j.v, "openNamespaces").Int())},
	}
}

func genJSONFlds(r *Rand) []trFld {
	b := r.Bytes(6)
	if r.Chance(3, 4) {
		b = append(b, Pick(r, []byte{'{', '[', ':', ',', ' ', '"', '}', ']', '1', 'e', 0, 255}))
	}
	return []trFld{{"buf", tvBytes(b)}, {"spaced", tvBool(r.Bool())}, {"openNs", tvInt(int64(r.Intn(5)))}}
}

func init() {
	trFns = append(trFns,
		trFn{table: "TransJsonSep", name: "addElementSeparator",
			gen: func(r *Rand) ([]TV, []trFld) { return nil, genJSONFlds(r) },
			run: func(_ []TV, flds []trFld) ([]TV, []trFld) {
				j := newJSONEnc(flds)
				zapJSONSep(j.ptr)
				return nil, j.fields()
			}},
		trFn{table: "TransJsonSep", name: "addKey",
			gen: func(r *Rand) ([]TV, []trFld) { return []TV{tvBytes(r.Bytes(5))}, genJSONFlds(r) },
			run: func(args []TV, flds []trFld) ([]TV, []trFld) {
				j := newJSONEnc(flds)
				zapJSONAddKey(j.ptr, string(args[0].bytes()))
				return nil, j.fields()
			}},
		trFn{table: "TransJsonSep", name: "closeOpenNamespaces",
			gen: func(r *Rand) ([]TV, []trFld) { return nil, genJSONFlds(r) },
			run: func(_ []TV, flds []trFld) ([]TV, []trFld) {
				j := newJSONEnc(flds)
				zapJSONClose(j.ptr)
				return nil, j.fields()
			}},
	)
}

// ---------------------------------------------------------------- TransSampler

//go:linkname zapFnv32a go.uber.org/zap/zapcore.fnv32a
func zapFnv32a(s string) uint32

//go:linkname zapIncCheckReset go.uber.org/zap/zapcore.(*counter).IncCheckReset
func zapIncCheckReset(c unsafe.Pointer, t time.Time, tick time.Duration) uint64

// trCore is the wrapped core of the sampler under test: a level set, and a record of what was forwarded.
type trCore struct {
	enabled map[zapcore.Level]bool
	fwd     []TV
}

func (c *trCore) Enabled(l zapcore.Level) bool               { return c.enabled[l] }
func (c *trCore) With([]zapcore.Field) zapcore.Core          { return c }
func (c *trCore) Write(zapcore.Entry, []zapcore.Field) error { return nil }
func (c *trCore) Sync() error                                { return nil }
func (c *trCore) Check(e zapcore.Entry, ce *zapcore.CheckedEntry) *zapcore.CheckedEntry {
	c.fwd = append(c.fwd, trEntry(e))
	return ce.AddCore(e, c)
}

func trEntry(e zapcore.Entry) TV {
	return tvList([]TV{tvInt(int64(e.Level)), tvBytes([]byte(e.Message)), tvInt(e.Time.UnixNano())})
}

// samplerCells visits every counter cell of a real *sampler: (resetAt *atomic.Int64, counter *atomic.Uint64).
func samplerCells(s zapcore.Core, f func(ra *atomic.Int64, n *atomic.Uint64)) {
	counts := unexported(reflect.ValueOf(s), "counts").Elem() // [levels][buckets]counter
	for i := 0; i < counts.Len(); i++ {
		row := counts.Index(i)
		for j := 0; j < row.Len(); j++ {
			cell := row.Index(j).Addr()
			ra := unexported(cell, "resetAt").Addr().Interface().(*atomic.Int64)
			n := unexported(cell, "counter").Addr().Interface().(*atomic.Uint64)
			f(ra, n)
		}
	}
}

func fldOf(flds []trFld, name string) TV {
	for _, f := range flds {
		if f.N == name {
			return f.V
		}
	}
	panic("missing field " + name)
}

func init() {
	trFns = append(trFns,
		trFn{table: "TransSampler", name: "fnv32a",
			gen: func(r *Rand) ([]TV, []trFld) { return []TV{tvBytes(r.Bytes(12))}, nil },
			run: func(args []TV, _ []trFld) ([]TV, []trFld) {
				return []TV{tvUint(uint64(zapFnv32a(string(args[0].bytes()))))}, nil
			}},
		trFn{table: "TransSampler", name: "IncCheckReset",
			gen: func(r *Rand) ([]TV, []trFld) {
				t := int64(r.Intn(2000)) - 500
				tick := Pick(r, []int64{0, 1, 10, 100, -5, 1 << 40})
				ra := t + int64(r.Intn(7)) - 3
				n := Pick(r, []uint64{0, 1, 2, 7, 1<<64 - 2})
				return []TV{tvInt(t), tvInt(tick)}, []trFld{{"resetAt", tvInt(ra)}, {"counter", tvUint(n)}}
			},
			run: func(args []TV, flds []trFld) ([]TV, []trFld) {
				s := zapcore.NewSamplerWithOptions(&trCore{}, time.Second, 1, 1)
				var got []TV
				var out []trFld
				first := true
				samplerCells(s, func(ra *atomic.Int64, n *atomic.Uint64) {
					if !first {
						return
					}
					first = false
					ra.Store(fldOf(flds, "resetAt").int64())
					n.Store(fldOf(flds, "counter").uint64())
					cell := unsafe.Pointer(ra) // resetAt is the first field of counter
					r := zapIncCheckReset(cell, time.Unix(0, args[0].int64()), time.Duration(args[1].int64()))
					got = []TV{tvUint(r)}
					out = []trFld{{"resetAt", tvInt(ra.Load())}, {"counter", tvUint(n.Load())}}
				})
				return got, out
			}},
		trFn{table: "TransSampler", name: "Check",
			gen: func(r *Rand) ([]TV, []trFld) {
				t := int64(r.Intn(2000)) - 500
				tick := Pick(r, []int64{0, 1, 10, 100, -5, 1 << 40})
				ra := t + int64(r.Intn(7)) - 3
				n := uint64(r.Intn(9))
				lvl := int64(r.Intn(10)) - 3
				var en []TV
				for l := int64(-3); l <= 7; l++ {
					if r.Chance(4, 5) {
						en = append(en, tvInt(l))
					}
				}
				ent := tvList([]TV{tvInt(lvl), tvBytes(r.Bytes(4)), tvInt(t)})
				return []TV{ent, tvList(nil)}, []trFld{
					{"resetAt", tvInt(ra)}, {"counter", tvUint(n)},
					{"first", tvUint(uint64(r.Intn(4)))}, {"thereafter", tvUint(uint64(r.Intn(4)))}, {"tick", tvInt(tick)},
					{"counts", tvList(nil)}, {"hooks", tvList(nil)}, {"core", tvList(nil)}, {"#enabled", tvList(en)}}
			},
			run: func(args []TV, flds []trFld) ([]TV, []trFld) {
				core := &trCore{enabled: map[zapcore.Level]bool{}}
				for _, l := range *fldOf(flds, "#enabled").L {
					core.enabled[zapcore.Level(l.int64())] = true
				}
				var hooks []TV
				first, thereafter := fldOf(flds, "first"), fldOf(flds, "thereafter")
				s := zapcore.NewSamplerWithOptions(core, time.Duration(fldOf(flds, "tick").int64()),
					int(first.uint64()), int(thereafter.uint64()),
					zapcore.SamplerHook(func(_ zapcore.Entry, d zapcore.SamplingDecision) { hooks = append(hooks, tvUint(uint64(d))) }))
				ra0, n0 := fldOf(flds, "resetAt").int64(), fldOf(flds, "counter").uint64()
				samplerCells(s, func(ra *atomic.Int64, n *atomic.Uint64) { ra.Store(ra0); n.Store(n0) })
				e := *args[0].L
				ent := zapcore.Entry{Level: zapcore.Level(e[0].int64()), Message: string(e[1].bytes()), Time: time.Unix(0, e[2].int64())}
				ce := s.Check(ent, nil)
				ra1, n1 := ra0, n0
				samplerCells(s, func(ra *atomic.Int64, n *atomic.Uint64) {
					if ra.Load() != ra0 || n.Load() != n0 {
						ra1, n1 = ra.Load(), n.Load()
					}
				})
				res := args[1]
				if ce != nil {
					res = tvList([]TV{args[1]})
				}
				return []TV{res}, []trFld{
					{"resetAt", tvInt(ra1)}, {"counter", tvUint(n1)}, {"first", first}, {"thereafter", thereafter},
					{"tick", fldOf(flds, "tick")}, {"counts", tvList(nil)}, {"hooks", tvList(hooks)}, {"core", tvList(core.fwd)},
					{"#enabled", fldOf(flds, "#enabled")}}
			}},
	)
}

// ---------------------------------------------------------------- TransMultiWS

//go:linkname zapMultiWrite go.uber.org/zap/zapcore.multiWriteSyncer.Write
func zapMultiWrite(ws []zapcore.WriteSyncer, p []byte) (int, error)

//go:linkname zapMultiSync go.uber.org/zap/zapcore.multiWriteSyncer.Sync
func zapMultiSync(ws []zapcore.WriteSyncer) error

// trSink scripts its outcomes: the value [n, writeErrIds, syncErrIds] of the GoMini side.
type trSink struct {
	v      TV
	n      int
	werr   error
	serr   error
	writes *[]TV
}

type trErr struct{ id int64 }

func (e trErr) Error() string { return "sink error" }

func trErrOf(ids TV) error {
	l := *ids.L
	if len(l) == 0 {
		return nil
	}
	return trErr{l[0].int64()}
}

func (s *trSink) Write(p []byte) (int, error) {
	*s.writes = append(*s.writes, tvList([]TV{tvBytes([]byte("sink.Write")), s.v, tvBytes(p)}))
	return s.n, s.werr
}
func (s *trSink) Sync() error { return s.serr }

func trSinks(ws TV, writes *[]TV) []zapcore.WriteSyncer {
	var out []zapcore.WriteSyncer
	for _, v := range *ws.L {
		f := *v.L
		out = append(out, &trSink{v: v, n: int(f[0].int64()), werr: trErrOf(f[1]), serr: trErrOf(f[2]), writes: writes})
	}
	return out
}

func trErrIds(err error) TV {
	var ids []TV
	for _, e := range multierr.Errors(err) {
		ids = append(ids, tvInt(e.(trErr).id))
	}
	return tvList(ids)
}

func genSinks(r *Rand, sync bool) TV {
	var l []TV
	k := r.Intn(6)
	for i := 0; i < k; i++ {
		var w, s []TV
		if r.Chance(1, 3) {
			if sync {
				s = []TV{tvInt(int64(i))}
			} else {
				w = []TV{tvInt(int64(i))}
			}
		}
		n := int64(r.Intn(6))
		if sync {
			n = 0
		}
		l = append(l, tvList([]TV{tvInt(n), tvList(w), tvList(s)}))
	}
	return tvList(l)
}

func init() {
	trFns = append(trFns,
		trFn{table: "TransMultiWS", name: "Write",
			gen: func(r *Rand) ([]TV, []trFld) {
				return []TV{tvBytes(r.Bytes(5))}, []trFld{{"ws", genSinks(r, false)}, {"writes", tvList(nil)}}
			},
			run: func(args []TV, flds []trFld) ([]TV, []trFld) {
				var writes []TV
				ws := fldOf(flds, "ws")
				n, err := zapMultiWrite(trSinks(ws, &writes), args[0].bytes())
				return []TV{tvInt(int64(n)), trErrIds(err)}, []trFld{{"ws", ws}, {"writes", tvList(writes)}}
			}},
		trFn{table: "TransMultiWS", name: "Sync",
			gen: func(r *Rand) ([]TV, []trFld) { return nil, []trFld{{"ws", genSinks(r, true)}} },
			run: func(_ []TV, flds []trFld) ([]TV, []trFld) {
				var writes []TV
				ws := fldOf(flds, "ws")
				err := zapMultiSync(trSinks(ws, &writes))
				return []TV{trErrIds(err)}, []trFld{{"ws", ws}}
			}},
	)
}

// ---------------------------------------------------------------- TransZio

//go:linkname zapZioWriteLine go.uber.org/zap/zapio.(*Writer).writeLine
func zapZioWriteLine(w *zapio.Writer, line []byte) []byte

//go:linkname zapZioFlush go.uber.org/zap/zapio.(*Writer).flush
func zapZioFlush(w *zapio.Writer, allowEmpty bool)

// newZio builds a real *zapio.Writer in the given state; the returned func reads the fields back.
func newZio(flds []trFld) (*zapio.Writer, func() []trFld) {
	en := *fldOf(flds, "#en").B
	lvl := zapcore.Level(fldOf(flds, "level").int64())
	core, logs := observer.New(zap.LevelEnablerFunc(func(l zapcore.Level) bool { return en }))
	w := &zapio.Writer{Log: zap.New(core), Level: lvl}
	buff := unexported(reflect.ValueOf(w), "buff").Addr().Interface().(*bytes.Buffer)
	buff.Write(fldOf(flds, "buff").bytes())
	out0 := *fldOf(flds, "out").L
	return w, func() []trFld {
		out := append([]TV{}, out0...)
		for _, e := range logs.All() {
			out = append(out, tvBytes([]byte(e.Message)))
		}
		return []trFld{{"buff", tvBytes(append([]byte{}, buff.Bytes()...))}, {"level", fldOf(flds, "level")},
			{"out", tvList(out)}, {"#en", fldOf(flds, "#en")}}
	}
}

func genZioFlds(r *Rand) []trFld {
	buff := []byte{}
	if r.Bool() {
		for _, c := range r.Bytes(4) {
			if c != '\n' {
				buff = append(buff, c)
			}
		}
	}
	return []trFld{{"buff", tvBytes(buff)}, {"level", tvInt(int64(r.Intn(4)) - 1)}, {"out", tvList(nil)}, {"#en", tvBool(r.Chance(4, 5))}}
}

func init() {
	trFns = append(trFns,
		trFn{table: "TransZio", name: "Write",
			gen: func(r *Rand) ([]TV, []trFld) { return []TV{tvBytes(r.Bytes(10))}, genZioFlds(r) },
			run: func(args []TV, flds []trFld) ([]TV, []trFld) {
				w, read := newZio(flds)
				n, err := w.Write(args[0].bytes())
				if err != nil {
					panic("zapio.Writer.Write returned an error")
				}
				return []TV{tvInt(int64(n)), tvList(nil)}, read()
			}},
		trFn{table: "TransZio", name: "Sync",
			gen: func(r *Rand) ([]TV, []trFld) { return nil, genZioFlds(r) },
			run: func(_ []TV, flds []trFld) ([]TV, []trFld) {
				w, read := newZio(flds)
				if err := w.Sync(); err != nil {
					panic("zapio.Writer.Sync returned an error")
				}
				return []TV{tvList(nil)}, read()
			}},
		trFn{table: "TransZio", name: "writeLine",
			gen: func(r *Rand) ([]TV, []trFld) { return []TV{tvBytes(r.Bytes(8))}, genZioFlds(r) },
			run: func(args []TV, flds []trFld) ([]TV, []trFld) {
				w, read := newZio(flds)
				rem := zapZioWriteLine(w, args[0].bytes())
				return []TV{tvBytes(rem)}, read()
			}},
		trFn{table: "TransZio", name: "flush",
			gen: func(r *Rand) ([]TV, []trFld) { return []TV{tvBool(r.Bool())}, genZioFlds(r) },
			run: func(args []TV, flds []trFld) ([]TV, []trFld) {
				w, read := newZio(flds)
				zapZioFlush(w, *args[0].B)
				return nil, read()
			}},
	)
}

// ---------------------------------------------------------------- TransCaller (public API)

func callerOf(flds []trFld) zapcore.EntryCaller {
	return zapcore.EntryCaller{Defined: *fldOf(flds, "defined").B, File: string(fldOf(flds, "file").bytes()), Line: int(fldOf(flds, "line").int64())}
}

func genCallerFlds(r *Rand) []trFld {
	var file []byte
	for i, k := 0, r.Intn(5); i < k; i++ {
		if i > 0 || r.Bool() {
			file = append(file, '/')
		}
		for j, m := 0, r.Intn(4); j < m; j++ {
			file = append(file, byte('a'+r.Intn(3)))
		}
	}
	return []trFld{{"defined", tvBool(r.Chance(5, 6))}, {"file", tvBytes(file)}, {"line", tvInt(int64(r.Intn(100000)))}}
}

func init() {
	trFns = append(trFns,
		trFn{table: "TransCaller", name: "FullPath",
			gen: func(r *Rand) ([]TV, []trFld) { return nil, genCallerFlds(r) },
			run: func(_ []TV, flds []trFld) ([]TV, []trFld) {
				return []TV{tvBytes([]byte(callerOf(flds).FullPath()))}, flds
			}},
		trFn{table: "TransCaller", name: "TrimmedPath",
			gen: func(r *Rand) ([]TV, []trFld) { return nil, genCallerFlds(r) },
			run: func(_ []TV, flds []trFld) ([]TV, []trFld) {
				return []TV{tvBytes([]byte(callerOf(flds).TrimmedPath()))}, flds
			}},
	)
}

// ---------------------------------------------------------------- TransEscape

//go:linkname zapJSONSafeAddString go.uber.org/zap/zapcore.(*jsonEncoder).safeAddString
func zapJSONSafeAddString(enc unsafe.Pointer, s string)

func genHostileString(r *Rand) []byte {
	n := r.Intn(10)
	var b []byte
	for i := 0; i < n; i++ {
		switch r.Intn(8) {
		case 0:
			b = append(b, Pick(r, []byte{'"', '\\', '\n', '\r', '\t', 0, 1, 0x1f, 0x7f, ' '}))
		case 1:
			b = append(b, []byte(Pick(r, []string{"é", "€", "😀", "�", " "}))...)
		case 2:
			b = append(b, Pick(r, []byte{0x80, 0xbf, 0xc0, 0xc2, 0xe0, 0xed, 0xef, 0xf0, 0xf4, 0xf5, 0xff, 0xa0, 0x9f, 0x90, 0x8f}))
		default:
			b = append(b, byte('a'+r.Intn(26)))
		}
	}
	return b
}

func init() {
	trFns = append(trFns,
		// args: appendTo, decodeRune (function values: opaque), buf, s — the real call is (*jsonEncoder).safeAddString(s)
		trFn{table: "TransEscape", name: "safeAppendStringLike",
			gen: func(r *Rand) ([]TV, []trFld) {
				return []TV{tvList(nil), tvList(nil), tvBytes(r.Bytes(3)), tvBytes(genHostileString(r))}, nil
			},
			run: func(args []TV, _ []trFld) ([]TV, []trFld) {
				j := newJSONEnc([]trFld{{"buf", args[2]}})
				zapJSONSafeAddString(j.ptr, string(args[3].bytes()))
				return []TV{tvBytes(append([]byte{}, j.buf.Bytes()...))}, nil
			}},
	)
}

// ---------------------------------------------------------------- TransCE ((*CheckedEntry).Write through the public API)

// trCECore scripts the error its Write returns and records the call.
type trCECore struct {
	v   TV
	err error
	st  *trCEState
}

type trCEState struct {
	ev        []TV
	entry, fs TV
	eo        TV
	time      TV
	self      TV
}

func (c *trCECore) Enabled(zapcore.Level) bool        { return true }
func (c *trCECore) With([]zapcore.Field) zapcore.Core { return c }
func (c *trCECore) Sync() error                       { return nil }
func (c *trCECore) Check(e zapcore.Entry, ce *zapcore.CheckedEntry) *zapcore.CheckedEntry {
	return ce.AddCore(e, c)
}
func (c *trCECore) Write(zapcore.Entry, []zapcore.Field) error {
	c.st.ev = append(c.st.ev, tvList([]TV{tvBytes([]byte("Core.Write")), c.v, c.st.entry, c.st.fs}))
	return c.err
}

type trCEErr struct{ ids []int64 }

func (e trCEErr) Error() string {
	var sb strings.Builder
	for _, i := range e.ids {
		fmt.Fprintf(&sb, "<E%d>", i)
	}
	return sb.String()
}

var trCEErrRe = regexp.MustCompile(`<E(-?\d+)>`)

// trCEOut is the ErrorOutput: it recognises which of the two reports was printed and records the call.
type trCEOut struct{ st *trCEState }

func (o *trCEOut) Write(p []byte) (int, error) {
	s := string(p)
	switch {
	case strings.Contains(s, "write error:"):
		var errs []TV
		for _, m := range trCEErrRe.FindAllStringSubmatch(s, -1) {
			n, _ := strconv.ParseInt(m[1], 10, 64)
			errs = append(errs, tvInt(n))
		}
		o.st.ev = append(o.st.ev, tvList([]TV{tvBytes([]byte("fmt.Fprintf")), o.st.eo, tvBytes([]byte("%v write error: %v\n")), o.st.time, tvList(errs)}))
	case strings.Contains(s, "Unsafe CheckedEntry re-use"):
		o.st.ev = append(o.st.ev, tvList([]TV{tvBytes([]byte("fmt.Fprintf")), o.st.eo, tvBytes([]byte("%v Unsafe CheckedEntry re-use near Entry %+v.\n")), o.st.time, o.st.entry}))
	default:
		panic("unexpected ErrorOutput text " + s)
	}
	return len(p), nil
}
func (o *trCEOut) Sync() error {
	o.st.ev = append(o.st.ev, tvList([]TV{tvBytes([]byte("ErrorOutput.Sync")), o.st.eo}))
	return nil
}

type trCEHook struct {
	st *trCEState
	v  TV
}

func (h trCEHook) OnWrite(*zapcore.CheckedEntry, []zapcore.Field) {
	h.st.ev = append(h.st.ev, tvList([]TV{tvBytes([]byte("hook.OnWrite")), h.v, h.st.self, h.st.fs}))
}

func init() {
	trFns = append(trFns, trFn{table: "TransCE", name: "Write",
		gen: func(r *Rand) ([]TV, []trFld) {
			var cores []TV
			for i, k := 0, r.Intn(5); i < k; i++ {
				var errs []TV
				for j, m := 0, r.Intn(3); j < m && r.Bool(); j++ {
					errs = append(errs, tvInt(int64(10*i+j)))
				}
				cores = append(cores, tvList([]TV{tvInt(int64(i)), tvList(errs)}))
			}
			opt := func() TV {
				if r.Chance(2, 3) {
					return tvList([]TV{tvInt(int64(r.Intn(9)))})
				}
				return tvList(nil)
			}
			return []TV{tvList([]TV{tvInt(int64(r.Intn(5)))})}, []trFld{
				{"isnil", tvBool(r.Chance(1, 12))}, {"dirty", tvBool(r.Chance(1, 8))}, {"eo", opt()}, {"after", opt()},
				{"cores", tvList(cores)}, {"time", tvInt(int64(r.Intn(1000)))}, {"entry", tvInt(int64(r.Intn(100)))},
				{"self", tvList(nil)}, {"ev", tvList(nil)}}
		},
		run: func(args []TV, flds []trFld) ([]TV, []trFld) {
			st := &trCEState{entry: fldOf(flds, "entry"), fs: args[0], eo: fldOf(flds, "eo"), time: fldOf(flds, "time"), self: fldOf(flds, "self")}
			isnil, dirty := *fldOf(flds, "isnil").B, *fldOf(flds, "dirty").B
			var ce *zapcore.CheckedEntry
			ent := zapcore.Entry{Time: time.Unix(0, st.time.int64())}
			if !isnil {
				var hook zapcore.CheckWriteHook
				if a := *fldOf(flds, "after").L; len(a) > 0 {
					hook = trCEHook{st, fldOf(flds, "after")}
				}
				if dirty { // a dirty entry is one that has been written (and pooled) already
					ce = ce.After(ent, nil)
					ce.Write()
					st.ev = nil
				}
				// (re)build the state: AddCore/After on the same pointer
				if ce == nil {
					ce = ce.After(ent, hook)
				} else {
					ce = ce.After(ent, hook)
				}
				for _, c := range *fldOf(flds, "cores").L {
					core := &trCECore{v: c, st: st}
					if ids := *(*c.L)[1].L; len(ids) > 0 {
						e := trCEErr{}
						for _, id := range ids {
							e.ids = append(e.ids, id.int64())
						}
						core.err = e
					}
					ce = ce.AddCore(ent, core)
				}
				if len(*st.eo.L) > 0 {
					ce.ErrorOutput = &trCEOut{st}
				}
			}
			ce.Write()
			if !isnil && !dirty {
				// the pool put is not observable from outside: recorded as the model says, after everything else
				st.ev = append(st.ev, tvList([]TV{tvBytes([]byte("putCheckedEntry")), st.self}))
			}
			out := append([]trFld{}, flds...)
			for i := range out {
				switch out[i].N {
				case "dirty":
					out[i].V = tvBool(dirty || !isnil)
				case "ev":
					out[i].V = tvList(st.ev)
				}
			}
			return nil, out
		}})
}
