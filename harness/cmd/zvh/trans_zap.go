package main

// trans_zap.go — the REAL unexported zap functions of the translator's whitelist, reached with go:linkname
// (no hook in /repo; a renamed or removed function is a link error, i.e. a broken `corr:build`).

import (
	"reflect"
	"unsafe"

	"go.uber.org/zap/buffer"
	"go.uber.org/zap/zapcore"
)

//go:linkname zapJSONSep go.uber.org/zap/zapcore.(*jsonEncoder).addElementSeparator
func zapJSONSep(enc unsafe.Pointer)

//go:linkname zapJSONAddKey go.uber.org/zap/zapcore.(*jsonEncoder).addKey
func zapJSONAddKey(enc unsafe.Pointer, key string)

//go:linkname zapJSONClose go.uber.org/zap/zapcore.(*jsonEncoder).closeOpenNamespaces
func zapJSONClose(enc unsafe.Pointer)

// unexported returns an addressable, settable view of an unexported struct field.
func unexported(structPtr reflect.Value, name string) reflect.Value {
	f := structPtr.Elem().FieldByName(name)
	if !f.IsValid() {
		panic("zap struct has no field " + name)
	}
	return reflect.NewAt(f.Type(), unsafe.Pointer(f.UnsafeAddr())).Elem()
}

// trJSONEnc builds a real *jsonEncoder in the given state and returns it with accessors.
type trJSONEnc struct {
	v   reflect.Value
	ptr unsafe.Pointer
	buf *buffer.Buffer
}

func newJSONEnc(flds []trFld) *trJSONEnc {
	e := zapcore.NewJSONEncoder(zapcore.EncoderConfig{})
	v := reflect.ValueOf(e)
	j := &trJSONEnc{v: v, ptr: v.UnsafePointer()}
	j.buf = unexported(v, "buf").Interface().(*buffer.Buffer)
	j.buf.Reset()
	for _, f := range flds {
		switch f.N {
		case "buf":
			_, _ = j.buf.Write(f.V.bytes())
		case "spaced":
			unexported(v, "spaced").SetBool(*f.V.B)
		case "openNs":
			unexported(v, "openNamespaces").SetInt(f.V.int64())
		}
	}
	return j
}

func (j *trJSONEnc) fields() []trFld {
	return []trFld{
		{"buf", tvBytes(append([]byte{}, j.buf.Bytes()...))},
		{"spaced", tvBool(unexported(j.v, "spaced").Bool())},
		{"openNs", tvInt(unexported(j.v, "openNamespaces").Int())},
	}
}

func genJSONFlds(r *Rand) []trFld {
	b := r.Bytes(6)
	if r.Chance(3, 4) {
		b = append(b, Pick(r, []byte{'{', '[', ':', ',', ' ', '"', '}', ']', '1', 'e', 0, 255}))
	}
	return []trFld{{"buf", tvBytes(b)}, {"spaced", tvBool(r.Bool())}, {"openNs", tvInt(int64(r.Intn(5)))}}
}

func init() {
	trFns = append(trFns,
		trFn{table: "TransJsonSep", name: "addElementSeparator",
			gen: func(r *Rand) ([]TV, []trFld) { return nil, genJSONFlds(r) },
			run: func(_ []TV, flds []trFld) ([]TV, []trFld) {
				j := newJSONEnc(flds)
				zapJSONSep(j.ptr)
				return nil, j.fields()
			}},
		trFn{table: "TransJsonSep", name: "addKey",
			gen: func(r *Rand) ([]TV, []trFld) { return []TV{tvBytes(r.Bytes(5))}, genJSONFlds(r) },
			run: func(args []TV, flds []trFld) ([]TV, []trFld) {
				j := newJSONEnc(flds)
				zapJSONAddKey(j.ptr, string(args[0].bytes()))
				return nil, j.fields()
			}},
		trFn{table: "TransJsonSep", name: "closeOpenNamespaces",
			gen: func(r *Rand) ([]TV, []trFld) { return nil, genJSONFlds(r) },
			run: func(_ []TV, flds []trFld) ([]TV, []trFld) {
				j := newJSONEnc(flds)
				zapJSONClose(j.ptr)
				return nil, j.fields()
			}},
	)
}
