import ZapVerif.Drv.Util
import ZapVerif.Drv.C13
import ZapVerif.Drv.C17
import ZapVerif.Drv.C20
/-! `zvdrv Cxx`: reads one op (JSON) per line on stdin, prints the model's canonical result per line. -/
open Lean ZapVerif.Drv

def handlers : List (String × (Json → R Json)) := [
  ("C13", ZapVerif.Drv.C13.handle),
  ("C17", ZapVerif.Drv.C17.handle),
  ("C20", ZapVerif.Drv.C20.handle)
]

partial def loop (h : IO.FS.Stream) (out : IO.FS.Stream) (f : Json → R Json) : IO Unit := do
  let line ← h.getLine
  if line.isEmpty then return ()
  let res := match Json.parse line with
    | .error e => obj [("bad_op", Json.str s!"parse: {e}")]
    | .ok j => match f j with
      | .ok r => r
      | .error e => obj [("bad_op", Json.str e)]
  out.putStrLn res.compress
  loop h out f

def main (args : List String) : IO UInt32 := do
  match args with
  | [p] =>
    match handlers.lookup p with
    | some f =>
      loop (← IO.getStdin) (← IO.getStdout) f
      return 0
    | none => IO.eprintln s!"unknown property {p}"; return 2
  | _ => IO.eprintln "usage: zvdrv Cxx < ops"; return 2
