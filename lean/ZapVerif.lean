import ZapVerif.Model.Bytes
import ZapVerif.Model.Zio
