import ZapVerif.Drv.EncOp
namespace ZapVerif.Drv.C01
def handle := ZapVerif.Drv.EncOp.handle
end ZapVerif.Drv.C01
