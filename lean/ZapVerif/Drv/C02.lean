import ZapVerif.Drv.EncOp
namespace ZapVerif.Drv.C02
def handle := ZapVerif.Drv.EncOp.handle
end ZapVerif.Drv.C02
