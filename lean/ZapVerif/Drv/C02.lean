import ZapVerif.Drv.EncOp
namespace ZapVerif.Drv.C02
open Lean ZapVerif.Drv

/-- C02 also compares the nesting `zapcore.MapObjectEncoder` records with the model of memory_encoder.go -/
def handle (op : Json) : R Json := do
  let r ← EncOp.handle op
  let m ← EncOp.mapSkeleton op
  match r with
  | Json.obj _ => return r.setObjVal! "map" m
  | _ => return r

end ZapVerif.Drv.C02
