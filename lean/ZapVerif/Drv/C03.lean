import ZapVerif.Drv.Util
import ZapVerif.Model.Field
import ZapVerif.Gen.Fields
import ZapVerif.Gen.AddTo
import ZapVerif.Gen.Any
import ZapVerif.Gen.Equals
/-! Model driver for C03: evaluates the *regenerated* definitions (`Gen.ctors`, `Gen.addTo`, `Gen.anySwitch`,
`Gen.equalsArm`) on the ops produced by `zvh gen C03`. -/
namespace ZapVerif.Drv.C03
open Lean ZapVerif ZapVerif.Drv ZapVerif.Field

def decInt (s : String) : R Int :=
  match s.toInt? with
  | some v => pure v
  | none => throw s!"bad integer {s}"

/-- the Go types among `Any`'s concrete cases that also implement fmt.Stringer -/
def stringerTypes : List String := ["time.Time", "*time.Time", "time.Duration", "*time.Duration"]

/-- a pool value: its attributes come with the op; `asErr` selects `Error()` over `String()` as its text -/
def parseBox (x : Json) (asErr : Bool) : R Box := do
  let impl ← (arrD x "impl").toList.mapM (fun j => j.getStr?)
  let text := if asErr then hexFldD x "etxt" else hexFldD x "text"
  return { dyn := ← str x "dyn", impl := impl, id := natD x "i" 0, tok := natD x "tok" 0, cmp := boolD x "cmp" true,
           refl := boolD x "refl" true, text := text }

def parseTime (j : Json) : R Time := do
  return ⟨← decInt (← str j "ns"), natD j "loc" 0⟩

/-- one argument of kind `k` -/
def parseVal (k : VK) (asErr : Bool) (a : Json) : R k.T :=
  match k with
  | .num _ => do
    if has a "n" then decInt (← str a "n")
    else if has a "x" then decInt (← str (← fld a "x") "num")
    else throw "numeric argument expected"
  | .bool => do (← fld a "b").getBool?
  | .str => hexFld a "s"
  | .time => do parseTime (← fld a "t")
  | .box => do
    if boolD a "nil" false then return Payload.nil
    if has a "x" then return Payload.box (← parseBox (← fld a "x") asErr)
    -- a scalar handed to an interface-typed constructor (only reachable when `Any` falls back to Reflect)
    return Payload.box { dyn := "scalar" }

def parseOpt (k : VK) (asErr : Bool) (a : Json) : R (Option k.T) := do
  if boolD a "nil" false then return none
  return some (← parseVal k asErr (← fld a "p"))

def parseList (k : VK) (asErr : Bool) (a : Json) : R (List k.T) := do
  (arrD a "l").toList.mapM (parseVal k asErr)

def findCtor (full : String) : R Ctor := do
  let (pkg, name) := match full.splitOn "." with
    | [p, n] => (p, n)
    | _ => ("zap", full)
  let name := String.ofList (name.toList.filter (· != (Char.ofNat 42)))
  match Gen.ctors.find? (fun c => c.pkg == pkg && c.name == name) with
  | some c => pure c
  | none => throw s!"constructor {full} is not in Gen.ctors"

/-- nil and empty slices are different values for `reflect.DeepEqual`: a nil slice gets equality class 1 -/
def markNil (lnil : Bool) (f : Fld) : Fld :=
  if lnil then
    match f.iface with
    | .box b => { f with iface := .box { b with tok := 1 } }
    | _ => f
  else f

/-- apply a constructor of the regenerated table to an argument -/
def build (c : Ctor) (key : Bytes) (a : Json) : R Fld := do
  let asErr := c.etype == "error"
  match c.fn with
  | .k0 f => pure f
  | .k1 g => pure (g key)
  | .v1 k g => do pure (g (← parseVal k asErr a))
  | .kv k g => do pure (g key (← parseVal k asErr a))
  | .kp k g => do pure (g key (← parseOpt k asErr a))
  | .ks k g => do pure (markNil (boolD a "lnil" false) (g key (← parseList k asErr a)))
  | .opaque => throw s!"{c.name} is not modelled"

def jdec (v : Int) : Json := Json.str (toString v)

def jTime (t : Time) : Json := obj [("t", obj [("ns", jdec t.ns), ("loc", jnat t.loc)])]

def jElem (c : ACall) : Json :=
  let m := (reprStr c.m).replace "ZapVerif.Field.AM." ""
  let v := match c.v with
    | .int v => obj [("n", jdec v)]
    | .bool b => obj [("b", jbool b)]
    | .str s => obj [("s", jhex s)]
    | .time t => jTime t
    | .tok n => obj [("x", jnat n)]
  obj [("m", Json.str m), ("v", v)]

def isWrapper (dyn : String) : Bool := Gen.arrayWrappers.any (·.name == dyn)

def jVal : CVal → Json
  | .int v => obj [("n", jdec v)]
  | .bool b => obj [("b", jbool b)]
  | .str s => obj [("s", jhex s)]
  | .time t => jTime t
  | .none => obj []
  | .pay .nil => obj [("nil", jbool true)]
  | .pay (.box b) =>
    if isWrapper b.dyn then obj [("arr", jarr jElem b.elems), ("dyn", Json.str b.dyn)]
    else obj [("x", jnat b.id), ("dyn", Json.str b.dyn)]
  | .pay (.loc l) => obj [("loc", jnat l)]
  | .pay (.time t) => jTime t

def jCall (c : Call) : Json :=
  let m := (reprStr c.m).replace "ZapVerif.Field.Meth." ""
  obj [("m", Json.str m), ("k", jhex c.key), ("v", jVal c.v)]

def jResult (r : Except String (List Call)) : Json :=
  match r with
  | .ok cs => obj [("calls", jarr jCall cs), ("panic", jbool false)]
  | .error _ => obj [("calls", Json.arr #[]), ("panic", jbool true)]

def jEq : EqR → Json
  | .tt => Json.str "tt"
  | .ff => Json.str "ff"
  | .panic => Json.str "panic"

/-- `zap.Any`: the first case of the regenerated switch that matches the dynamic type, else the default arm -/
def anyDispatch (dyn : String) (impl : List String) (isNil : Bool) : String × String × String :=
  let hit := if isNil then none else Gen.anySwitch.find? fun e =>
    if e.1 ∈ ifaceTypes then e.1 ∈ impl else e.1 == dyn
  match hit with
  | some e => e
  | none => ("any", Gen.anyDefault.1, Gen.anyDefault.2)

def handle (op : Json) : R Json := do
  let k ← str op "k"
  match k with
  | "ctor" =>
    let c ← findCtor (← str op "c")
    let f ← build c (← hexFld op "key") (fldD op "a" (obj []))
    return jResult (Gen.addTo f none)
  | "any" =>
    let t ← str op "t"
    let a := fldD op "a" (obj [])
    let isNil := t == "pool" && boolD a "nil" false
    let (dyn, impl) ← (do
      if t == "pool" then
        if isNil then pure ("nil", ([] : List String))
        else
          let x ← fld a "x"
          pure (← str x "dyn", ← (arrD x "impl").toList.mapM (fun j => j.getStr?))
      else pure (t, if t ∈ stringerTypes then ["fmt.Stringer"] else []))
    let (caseT, targ, cname) := anyDispatch dyn impl isNil
    if caseT != targ then
      -- `v, _ := val.(T)` with T ≠ the case type yields the zero value: not what the caller passed
      return obj [("calls", Json.arr #[]), ("panic", jbool false), ("type_argument_mismatch", Json.str targ)]
    let c ← findCtor ("zap." ++ cname)
    let f ← build { c with etype := if caseT == "error" then "error" else c.etype } (← hexFld op "key") a
    return jResult (Gen.addTo f none)
  | "eq" =>
    let side (j : Json) : R Fld := do
      let nm ← str j "c"
      let c ← findCtor nm
      let f ← build c (← hexFld j "key") (fldD j "a" (obj []))
      -- "zap.Objects*" is the SAME generic constructor instantiated at a pointer type: its payload has another dynamic type
      -- (objects[*T] vs objects[T]), which Go's == / reflect.DeepEqual tell apart even when both slices are nil or empty
      if nm.endsWith "*" then
        match f.iface with
        | .box b => pure { f with iface := .box { b with dyn := b.dyn ++ "*" } }
        | _ => pure f
      else pure f
    let f ← side (← fld op "f")
    let g ← side (← fld op "g")
    let e := equalsWith Gen.equalsArm
    return obj [("fg", jEq (e f g)), ("gf", jEq (e g f)), ("ff", jEq (e f f)), ("gg", jEq (e g g))]
  | _ => throw s!"unknown op {k}"

end ZapVerif.Drv.C03
