import ZapVerif.Drv.Util
import ZapVerif.Model.TeeBws
/-! driver for C04.
    `hist`: a recorded (or synthetic) sink history — the per-goroutine expected lines and the Write calls the sink
            received — judged by the executable predicates the theorems of Props/C04 are about: `validMerge` on the byte
            stream (mode stream), `validCalls` (mode calls: BufferedWriteSyncer sinks, whole lines per sink write),
            `validLines` (mode lines: Lock(sink), one line per sink write).
    `prog`: what a concurrent program must produce by `sink_final_is_merge` / `tee_each_branch_full` /
            `bws_final_validCalls`: no panic, no timeout, and per recording sink of every tee branch a valid history with
            exactly one line per entry the branch accepts (level ≥ the branch minimum; a direct `Core.Write` is not
            level-checked); with a sampler the count is schedule dependent and not compared. -/
namespace ZapVerif.Drv.C04
open Lean ZapVerif ZapVerif.Drv ZapVerif.Tee ZapVerif.TeeBws

def hexList (a : Array Json) : R (List Bytes) :=
  a.toList.mapM fun j => do hexOf (← j.getStr?)

/-- number of recording sinks behind a branch of the given kind -/
def sinksOf (kind : String) : Nat := if kind == "open2" || kind == "combine" then 2 else 1

/-- entries branch `min` accepts from the goroutines g ≡ k (mod K) (K = 1: all goroutines) -/
def accepted (min : Int) (gs : Array Json) (k K : Nat) : Nat :=
  (gs.toList.zipIdx).foldl (fun n (g, gi) =>
    if gi % K != k then n else
    ((g.getArr?).toOption.getD #[]).foldl (fun n a =>
      if strD a "a" "" == "log" && (strD a "fe" "" == "corewrite" || intD a "lvl" 0 ≥ min) then n + 1 else n) n) 0

def handle (op : Json) : R Json := do
  let k ← str op "k"
  match k with
  | "hist" =>
    let per ← (← arr op "per").toList.mapM fun g => do hexList (← g.getArr?)
    let calls ← hexList (← arr op "calls")
    let mode := strD op "mode" "stream"
    let v := match mode with
      | "calls" => validCalls per calls
      | "lines" => validLines per calls
      | _ => validMerge per calls.flatten
    return obj [("valid", jbool v)]
  | "prog" =>
    let cfg ← fld op "cfg"
    let sampler := boolD cfg "sampler" false
    let gs := arrD op "gs"
    -- loggers > 1: goroutine g logs through logger g % loggers; shared: all loggers are tees over the same cores and
    -- sinks; otherwise every logger has its own sinks (destination index k·branches + b); via "config": one branch
    let loggers := max 1 (natD cfg "loggers" 1)
    let shared := boolD cfg "share" false
    let viaCfg := strD cfg "via" "" == "config"
    let brs0 := (arrD cfg "br").toList
    let brs := if viaCfg then [brs0.headD (obj [("sink", Json.str "reopen"), ("min", jint (-1))])] else brs0
    let groups : List (Nat × Nat) := if shared then [(0, 1)] else (List.range loggers).map fun k => (k, loggers)
    let (_, _, sinks) := groups.foldl (fun (acc : Nat × Nat × List Json) kK =>
      brs.foldl (fun (acc : Nat × Nat × List Json) br =>
        let (b, j, out) := acc
        let n : Int := if sampler then -1 else (accepted (intD br "min" 0) gs kK.1 kK.2 : Nat)
        let mk (j : Nat) := obj [("b", jnat b), ("j", jnat j), ("n", jint n), ("ok", jbool true), ("lean", jbool true)]
        let cnt := if viaCfg then 1 else sinksOf (strD br "sink" "lock")
        let new := (List.range cnt).map fun i => mk (j + i)
        (b + 1, j + new.length, out ++ new)) acc) (0, 0, [])
    return obj [("panics", jnat 0), ("timeout", jbool false), ("sinks", Json.arr sinks.toArray)]
  | _ => throw s!"unknown op {k}"

end ZapVerif.Drv.C04
