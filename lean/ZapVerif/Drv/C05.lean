import ZapVerif.Drv.CoreIO
namespace ZapVerif.Drv.C05
open Lean ZapVerif ZapVerif.Drv ZapVerif.Cores ZapVerif.Drv.CoreIO

def bitmap (σ : Store) (c : Core) : Bytes :=
  (List.range 32).map fun b =>
    UInt8.ofNat ((List.range 8).foldl (fun acc i =>
      if enabled σ c (((b * 8 + i : Nat) : Int) - 128) then acc + 2 ^ i else acc) 0)

def grpcV (σ : Store) (c : Core) (v : Int) : Bool := enabled σ c ((Gen.grpcLevels.lookup v).getD 0)

def handle (op : Json) : R Json := do
  let ts ← (arrD op "atomics").toList.mapM (fun j => j.getInt?)
  let μ : Val := fun _ => 0
  let mut σ := storeOf ts
  let (core, w0, rej) ← build σ μ (← fld op "tree") {} []
  let buildEvs := seqOf "" w0.evs
  let lg : Logger := { core := core, dev := boolD op "dev" false, onPanic := .custom 1, onFatal := .custom 2 }
  let mut w : W := { w0 with evs := [] }
  let mut out : Array Json := #[]
  for call in arrD op "calls" do
    let c ← str call "c"
    match c with
    | "set" =>
      σ := setStore σ (natD call "i" 0) (intD call "t" 0)
      out := out.push (obj [("c", "set")])
    | "q" =>
      let lo := levelOf σ core
      out := out.push (obj [("c", "q"), ("levelOf", jint lo), ("level", jint lo), ("slevel", jint lo),
        ("enabled", jhex (bitmap σ core)), ("V", jarr jbool ([-1, 0, 1, 2, 3, 4].map (grpcV σ core)))])
    | "log" =>
      let fe ← findFE (← str call "fe")
      let l := match fe.level with | some k => k | none => intD call "l" 0
      let fs ← parseFlds call "fs"
      let w' := fe.run σ μ lg l fs w
      let evs := w'.evs
      out := out.push (obj [("c", "log"), ("en", jbool (enabled σ core l)), ("seq", jarr Json.str (seqOf "" evs)),
        ("obs", obsOf "" evs)])
      w := { w' with evs := [] }
    | "sync" =>
      let w' := syncEv μ lg.core w
      out := out.push (obj [("c", "sync"), ("seq", jarr Json.str (seqOf "" w'.evs))])
      w := { w' with evs := [] }
    | _ => throw s!"call kind {c}"
  return obj [("build", jarr Json.str buildEvs), ("rej", jarr jnat rej), ("calls", Json.arr out)]

end ZapVerif.Drv.C05
