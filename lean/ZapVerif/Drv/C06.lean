import ZapVerif.Drv.CoreIO
import ZapVerif.Drv.DeliverOp
namespace ZapVerif.Drv.C06
open Lean ZapVerif ZapVerif.Drv ZapVerif.Cores ZapVerif.Drv.CoreIO

def parseHook (s : String) (k : Nat) : R HookCfg :=
  match s with
  | "unset" => pure .unset
  | "noop" => pure .noop
  | "goexit" => pure (.act .goexit)
  | "panic" => pure (.act .panic)
  | "fatal" => pure (.act .fatal)
  | "custom" => pure (.custom k)
  | _ => throw s!"hook {s}"

def countById (ids : List Nat) : List (Nat × Nat) :=
  let sorted := ids.foldl (fun acc x => insertById (x, "") acc) []
  sorted.foldl (fun acc p => match acc.getLast? with
    | some (i, n) => if i = p.1 then acc.dropLast ++ [(i, n + 1)] else acc ++ [(p.1, 1)]
    | none => [(p.1, 1)]) []

/-- op "failterm": a terminal-level call over cores whose sinks fail (Model/Deliver.ceWrite) -/
def handleFail (op : Json) : R Json := do
  let c ← ZapVerif.Drv.DeliverOp.parseCore (← fld op "core")
  let l := intD op "l" 0
  let after := l == 4 || l == 5 || (l == 3 && boolD op "dev" false)
  let evs := Deliver.ceWrite c after
  let wrote := evs.filterMap fun | .wrote i => some i | _ => none
  let errLines := (evs.filter (· == .errLine)).length
  let term := evs.getLast? == some Deliver.DEv.term
  return obj [("delivered", jarr jnat wrote), ("errorLines", jnat errLines), ("terminal", jbool term),
              ("deliveredAtTerminal", jarr jnat (if term then wrote else [])),
              ("syncedAtTerminal", jarr jnat (if term then Deliver.syncedAtTerminal c else []))]

def handle (op : Json) : R Json := do
  if strD op "k" "" == "failterm" then return ← handleFail op
  let ts ← (arrD op "atomics").toList.mapM (fun j => j.getInt?)
  let μ : Val := fun _ => 0
  let σ := storeOf ts
  let (core, w0, _) ← build σ μ (← fld op "tree") {} []
  let lg : Logger := { core := core, dev := boolD op "dev" false,
                       onPanic := ← parseHook (← str op "onPanic") 1, onFatal := ← parseHook (← str op "onFatal") 2 }
  let fe ← findFE (← str op "fe")
  let l := match fe.level with | some k => k | none => intD op "l" 0
  let fs ← parseFlds op "fs"
  let w' := fe.run σ μ lg l fs { w0 with evs := [] }
  let evs := w'.evs
  let base := [("seq", jarr Json.str (seqOf "" evs)), ("obs", obsOf "" evs)]
  if (← str op "mode") == "sub" then
    let exit : Nat := match evs.getLast? with
      | some (.term .fatal) => 1
      | some (.term .panic) => 2
      | _ => 0
    let files := countById (evs.filterMap fun | .write id true _ => some id | _ => none)
    return obj (base ++ [("exit", jnat exit), ("files", jarr (fun (p : Nat × Nat) => jarr jnat [p.1, p.2]) files)])
  else return obj base

end ZapVerif.Drv.C06
