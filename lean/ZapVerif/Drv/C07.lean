import ZapVerif.Drv.CoreIO
import ZapVerif.Model.Derive
namespace ZapVerif.Drv.C07
open Lean ZapVerif ZapVerif.Drv ZapVerif.Cores ZapVerif.Derive ZapVerif.Drv.CoreIO

def parseStep (j : Json) : R Step := do
  let s ← str j "s"
  let p := natD j "p" 0
  let fs ← parseFlds j "fs"
  match s with
  | "with" => return .withF p fs
  | "fields" => return .fieldsOpt p fs
  | "lazy" => return .lazyF p fs
  | "named" => return .named p (Bytes.ofString (strD j "n" ""))
  | "sugar" => return .clone p
  | "desugar" => return .clone p
  | "log" => return .log p (intD j "l" 0) fs
  | "mut" => return .mut (natD j "key" 0) (natD j "val" 0)
  | "shandler" => return .shandler p
  | "sattrs" => return .sattrs p fs
  | "sgroup" => return .sgroup p (natD j "g" 0)
  | "slog" => return .slog p (intD j "l" 0) fs
  | _ => throw s!"step {s}"

def handle (op : Json) : R Json := do
  let ts ← (arrD op "atomics").toList.mapM (fun j => j.getInt?)
  let cells ← (arrD op "cells").toList.mapM (fun j => j.getNat?)
  let μ0 : Val := fun k => cells.getD k 0
  let σ := storeOf ts
  let (core, w0, _) ← build σ μ0 (← fld op "tree") {} []
  let root : Logger := { core := core, onPanic := .custom 1, onFatal := .custom 2 }
  let mut s : St := { nodes := #[{ lg := root }], w := { w0 with evs := [] }, μ := μ0 }
  let mut out : Array Json := #[]
  for sj in arrD op "steps" do
    let st ← parseStep sj
    let name := match st with
      | .log p _ _ => nameStr (s.node p).lg.name
      | _ => ""
    let s' := step σ s st
    let evs := s'.w.evs
    out := out.push (obj [("seq", jarr Json.str (seqOf name evs)), ("obs", obsOf name evs)])
    s := { s' with w := { s'.w with evs := [] } }
  return obj [("steps", Json.arr out)]

end ZapVerif.Drv.C07
