import ZapVerif.Drv.EncOp
import ZapVerif.Model.Pools
/-! C08 driver.  The model's claim (`C08.history_independent`) is that the observed line is a function of the observed
    operation alone, so the driver ignores the history and computes the line twice from the observed op:
    * with the pure encoder model (`Entry.jsonLine` / `Console.consoleLine`, the functions of C01/C02/C16), and
    * with the C08 heap machine (`Pools.run`) on a history that first fills every pool with used objects — the same
      operation three times, the first two delivered, the third left in flight — under the LIFO oracle (what sync.Pool
      does on one pinned goroutine), i.e. through recycled jsonEncoder, slice encoder and buffers.
    A disagreement between the two is reported as `{"model_disagrees": …}` and so shows up as a broken correspondence. -/
namespace ZapVerif.Drv.C08
open Lean ZapVerif ZapVerif.Drv ZapVerif.Json ZapVerif.Enc ZapVerif.Entry ZapVerif.Pools

mutual
/-- the call tree with every leaf routed through the reflection buffer that can be: a leaf whose rendering is what
    `encoding/json` would have produced is indistinguishable, for the machine, from a reflected one -/
partial def liftO (refl : Bool) : List OC → List RO
  | [] => []
  | OC.prim k v :: r => (if refl then RO.refl k v else RO.prim k v) :: liftO (!refl) r
  | OC.obj k b :: r => RO.obj k (liftO refl b) :: liftO refl r
  | OC.arr k b :: r => RO.arr k (liftA refl b) :: liftO refl r
  | OC.ns k :: r => RO.ns k :: liftO refl r
partial def liftA (refl : Bool) : List AC → List RA
  | [] => []
  | AC.prim v :: r => (if refl then RA.refl v else RA.prim v) :: liftA (!refl) r
  | AC.obj b :: r => RA.obj (liftO refl b) :: liftA refl r
  | AC.arr b :: r => RA.arr (liftA refl b) :: liftA refl r
end

def lifo : Orc := fun _ => some 0

def machineLine (o : EncOp.Op) : Option Bytes :=
  if o.console then
    let ctx := ctxEnc true o.ctx
    let p : Parent := ⟨1, true, ctx.buf, ctx.openNs⟩
    let j : CJob := ⟨Console.columns o.cfg o.ent o.cols, if o.consoleSep.isEmpty then [9] else o.consoleSep,
      if !o.cfg.messageKey.isEmpty then some o.ent.message else none, liftO true (addFields o.fields),
      if !o.ent.stack.isEmpty && !o.cfg.stacktraceKey.isEmpty then some o.ent.stack else none, o.cfg.ending⟩
    let h := run Code.real lifo H.empty [.encConsole p j, .deliver 0, .ctxPanic p j, .encConsole p j, .deliver 0, .encConsole p j, .scratch [1, 2, 3], .deliver 0]
    match h.out with
    | Out.line b :: _ => if h.fault then none else some b
    | _ => none
  else
    let ctx := ctxEnc false o.ctx
    let p : Parent := ⟨1, false, ctx.buf, ctx.openNs⟩
    let j : Job := ⟨liftO false (metaCalls o.cfg o.ent), liftO true (addFields o.fields), liftO false (stackCalls o.cfg o.ent), o.cfg.ending⟩
    let h := run Code.real lifo H.empty [.encJson p j, .deliver 0, .encJson p j, .deliver 0, .encJson p j, .scratch [1, 2, 3], .deliver 0]
    match h.out with
    | Out.line b :: _ => if h.fault then none else some b
    | _ => none

def handle (op : Json) : R Json := do
  let k ← str op "k"
  if k != "hist" then return obj [("skip", Json.bool true)]
  let obs ← fld op "obs"
  let t ← str obs "t"
  if t != "enc" then return obj [("skip", Json.bool true)]
  let eop ← fld obs "op"
  let o ← EncOp.parseOp eop
  let pure := if o.console then Console.consoleLine o.cfg o.consoleSep o.ent o.cols o.ctx o.fields
              else jsonLine o.cfg o.ent o.ctx o.fields
  match machineLine o with
  | some m =>
    if m == pure then return obj [("line", jhex pure)]
    else return obj [("model_disagrees", obj [("pure", jhex pure), ("machine", jhex m)])]
  | none => return obj [("model_disagrees", obj [("pure", jhex pure), ("machine", Json.null)])]

end ZapVerif.Drv.C08
