import ZapVerif.Drv.Util
/-! driver for C09: what a generated concurrent program must produce when the API is race-, deadlock- and
    panic-free: no unexpected panic, no timeout, and every `log` action at a level accepted by the observer branch
    delivered exactly once (the count is schedule independent; with a sampler in the chain it is not, and is not
    compared). -/
namespace ZapVerif.Drv.C09
open Lean ZapVerif ZapVerif.Drv

def countLogs (min : Int) (acts : Array Json) : Nat :=
  acts.foldl (fun n a => if strD a "a" "" == "log" && intD a "lvl" 0 ≥ min then n + 1 else n) 0

def handle (op : Json) : R Json := do
  let k ← str op "k"
  match k with
  | "prog" =>
    let cfg ← fld op "cfg"
    let wraps := (arrD cfg "wrap").toList.map fun j => (j.getStr?).toOption.getD ""
    let sampler := wraps.contains "sampler"
    let min : Int := if wraps.contains "incr" then max (-1) (intD cfg "incr" 0) else -1
    let gs := arrD op "gs"
    let total := gs.foldl (fun n g => n + countLogs min ((g.getArr?).toOption.getD #[])) 0
    let delivered : Int := if sampler then -1 else total
    return obj [("panics", jnat 0), ("timeout", jbool false), ("delivered", jint delivered)]
  | _ => throw s!"unknown op {k}"

end ZapVerif.Drv.C09
