import ZapVerif.Drv.EncOp
import ZapVerif.Model.Deliver
import ZapVerif.Drv.DeliverOp
namespace ZapVerif.Drv.C10
open Lean ZapVerif ZapVerif.Drv ZapVerif.Deliver ZapVerif.Entry ZapVerif.Drv.DeliverOp

def handle (op : Json) : R Json := do
  let k ← str op "k"
  match k with
  | "entry" => EncOp.handle op
  | "deliver" =>
    let c ← parseCore (← fld op "core")
    let o := logOnce c
    return obj [("delivered", jarr jnat o.delivered), ("reported", jarr jnat o.reported), ("errorLines", jnat o.errorLines)]
  | "stringers" =>
    let os ← (arrD op "elems").toList.mapM EncOp.parseOutcome
    let f := stringersField (hexFldD op "key") os
    let cfg : Cfg := ⟨[], [], [], [], [], [], [], [], false⟩
    let ent : Ent := ⟨0, .nilEnc, none, [], .noop, false, .nilEnc, [], [], [], []⟩
    return obj [("line", jhex (jsonLine cfg ent [] [f]))]
  | _ => throw s!"unknown op {k}"

end ZapVerif.Drv.C10
