import ZapVerif.Drv.EncOp
import ZapVerif.Model.Deliver
namespace ZapVerif.Drv.C10
open Lean ZapVerif ZapVerif.Drv ZapVerif.Deliver ZapVerif.Entry

partial def parseCore (j : Json) : R Core := do
  let t ← str j "t"
  match t with
  | "io" =>
    let sinks ← (arrD j "sinks").toList.mapM (fun s => do
      pure (⟨natD s "id" 0, boolD s "werr" false, boolD s "serr" false⟩ : Sink))
    return .io (boolD j "enabled" false) sinks
  | "tee" => return .tee (← (arrD j "cs").toList.mapM parseCore)
  | "wrap" => return .wrap (← parseCore (← fld j "c"))
  | _ => throw s!"bad core {t}"

def handle (op : Json) : R Json := do
  let k ← str op "k"
  match k with
  | "entry" => EncOp.handle op
  | "deliver" =>
    let c ← parseCore (← fld op "core")
    let o := logOnce c
    return obj [("delivered", jarr jnat o.delivered), ("reported", jarr jnat o.reported), ("errorLines", jnat o.errorLines)]
  | "stringers" =>
    let os ← (arrD op "elems").toList.mapM EncOp.parseOutcome
    let f := stringersField (hexFldD op "key") os
    let cfg : Cfg := ⟨[], [], [], [], [], [], [], [], false⟩
    let ent : Ent := ⟨0, .nilEnc, none, [], .noop, false, .nilEnc, [], [], [], []⟩
    return obj [("line", jhex (jsonLine cfg ent [] [f]))]
  | _ => throw s!"unknown op {k}"

end ZapVerif.Drv.C10
