import ZapVerif.Drv.EncOp
namespace ZapVerif.Drv.C10
def handle := ZapVerif.Drv.EncOp.handle
end ZapVerif.Drv.C10
