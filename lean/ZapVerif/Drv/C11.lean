import ZapVerif.Drv.Util
import ZapVerif.Model.Sampler
namespace ZapVerif.Drv.C11
open Lean ZapVerif ZapVerif.Drv ZapVerif.Sampler

structure E where
  e : Entry
  core : Nat

def parseEntry (j : Json) : R E := do
  return ⟨⟨← int j "l", ← hexFld j "m", ← int j "t"⟩, natD j "c" 0⟩

def jdec : Decision → Json
  | .sampled => Json.str "S"
  | .dropped => Json.str "D"

/-- cores[i] = new root when `with[i]` is not an earlier index, else `cores[with[i]].With(i)` -/
def buildCores (cfg : Cfg) (withs : List Int) : World × List Samp :=
  let step := fun (acc : World × List Samp × Nat) (p : Int) =>
    let (w, cores, i) := acc
    if 0 ≤ p ∧ p.toNat < i then
      (w, cores ++ [(cores.getD p.toNat default).with i], i + 1)
    else
      let (w', s) := w.newSampler cfg 1
      (w', cores ++ [s], i + 1)
  let (w, cores, _) := withs.foldl step (World.empty, [], 0)
  (w, cores)

def runSeq (w : World) (cores : List Samp) (en : Int → Bool) (hook : Bool) (fctx : Bool) (es : List E) : List Json :=
  let step := fun (acc : World × List Json) (x : E) =>
    let s := cores.getD x.core default
    let (w', o) := acc.1.check s en x.e
    let h := if hook then jarr jdec o.hook else Json.arr #[]
    let f := if fctx then (if o.forwarded then jarr jnat s.ctx else Json.null) else jbool o.forwarded
    (w', acc.2 ++ [obj [("h", h), ("f", f)]])
  (es.foldl step (w, [])).2

def handle (op : Json) : R Json := do
  let k ← str op "k"
  match k with
  | "seq" =>
    let cfg : Cfg := ⟨natD op "N" 0, natD op "M" 0, intD op "tick" 0⟩
    let levels ← (arrD op "en").toList.mapM (fun j => j.getInt?)
    let withs ← (arrD op "with").toList.mapM (fun j => j.getInt?)
    let es ← (arrD op "es").toList.mapM parseEntry
    let (w, cores) := buildCores cfg withs
    return obj [("out", Json.arr (runSeq w cores (fun l => levels.contains l) (boolD op "hook" false) true es).toArray)]
  | "cfg" =>
    let lvl := intD op "lvl" 0
    let sampling := boolD op "sampling" true
    let withs ← (arrD op "with").toList.mapM (fun j => j.getInt?)
    let es ← (arrD op "es").toList.mapM parseEntry
    if sampling then
      -- config.go: NewSamplerWithOptions(core, time.Second, Initial, Thereafter, hook); one root, Logger.With derives
      let cfg : Cfg := ⟨natD op "N" 0, natD op "M" 0, 1000000000⟩
      let (w0, s) := World.empty.newSampler cfg 1
      let cores := withs.map fun _ => s
      return obj [("out", Json.arr (runSeq w0 cores (fun l => decide (lvl ≤ l)) (boolD op "hook" false) false es).toArray)]
    else
      -- Sampling == nil: no sampler in the chain
      return obj [("out", jarr (fun (x : E) => obj [("h", Json.arr #[]), ("f", jbool (decide (lvl ≤ x.e.level)))]) es)]
  | "collide" =>
    let a ← hexFld op "a"
    let b ← hexFld op "b"
    let ea : Entry := ⟨intD op "la" 0, a, 0⟩
    let eb : Entry := ⟨intD op "lb" 0, b, 0⟩
    return obj [("same", jbool (decide (ea.key = eb.key))), ("ha", jnat (fnv32a a).toNat), ("hb", jnat (fnv32a b).toNat)]
  | "conc" =>
    -- inside the open window the count let through by any interleaving is the sequential one (open_window_exact)
    let N := natD op "N" 0
    let M := natD op "M" 0
    let tick := intD op "tick" 0
    let t0 := intD op "t0" 0
    let pre := natD op "pre" 0
    let k := natD op "g" 0 * natD op "per" 0
    let c := cellAfter {} tick (List.replicate (pre + 1) t0)
    let ns := cellRun c tick (List.replicate k t0)
    let kept := ns.countP (allows N M)
    return obj [("kept", jnat kept), ("dropped", jnat (k - kept)), ("bad", jnat 0)]
  | _ => throw s!"unknown op {k}"

end ZapVerif.Drv.C11
