import ZapVerif.Drv.Util
import ZapVerif.Model.Bws
namespace ZapVerif.Drv.C12
open Lean ZapVerif ZapVerif.Drv ZapVerif.Bws

def jek : EK → Json
  | .sink => Json.str "sink"
  | .short => Json.str "short"
  | .sync => Json.str "sync"

def jev : Ev → Json
  | .write p k => Json.str s!"w:{p.toHex}:{k}"
  | .sync => Json.str "s"

def jret : Ret → Json
  | .wrote n e => obj [("n", jnat n), ("e", match e with | none => Json.str "" | some k => jek k)]
  | .errs es => obj [("e", jarr jek es)]
  | .nothing => obj []

inductive BOp where
  | w (bs : Bytes)
  | f

def parseWO (j : Json) : R WOut := do
  let a ← j.getArr?
  let n ← (a[0]!).getInt?
  let e ← (a[1]!).getInt?
  return ⟨n.toNat, e != 0⟩

def parseOp (j : Json) : R Op := do
  if has j "w" then return .write (← hexFld j "w")
  match strD j "o" "" with
  | "s" => return .sync
  | "t" => return .tick
  | "x" => return .stop
  | o => throw s!"unknown step {o}"

def parseBOp (j : Json) : R BOp := do
  if has j "w" then return .w (← hexFld j "w")
  return .f

/-- run the history, reporting per step the return value and the new sink events -/
def runSeq (s : St) : List Op → List Json
  | [] => []
  | o :: os =>
    let r := step s o
    obj [("r", jret r.2), ("ev", jarr jev (r.1.sink.drop s.sink.length))] :: runSeq r.1 os

def runBufio (s : St) : List BOp → List Json
  | [] => []
  | .w bs :: os =>
    let r := bufioWrite s bs
    obj [("r", jret (.wrote r.2.1 r.2.2)), ("ev", jarr jev (r.1.sink.drop s.sink.length)), ("buf", jnat r.1.buf.length)]
      :: runBufio r.1 os
  | .f :: os =>
    let r := flush s
    obj [("r", obj [("e", match r.2 with | none => Json.str "" | some k => jek k)]),
         ("ev", jarr jev (r.1.sink.drop s.sink.length)), ("buf", jnat r.1.buf.length)] :: runBufio r.1 os

/-- length of the record a concurrent program step "w<n>" writes -/
def progLen (s : String) : Nat :=
  if s.startsWith "w" then
    let n := (s.drop 1).toNat!
    if n = 0 then 0 else if n < 6 then 6 else n
  else 0

def handle (op : Json) : R Json := do
  let k ← str op "k"
  match k with
  | "seq" =>
    let wo ← (arrD op "wo").toList.mapM parseWO
    let so ← (arrD op "so").toList.mapM (fun j => do let n ← j.getInt?; pure (n != 0))
    let ops ← (arrD op "ops").toList.mapM parseOp
    let s := mk (intD op "size" 0) wo so
    return obj [("steps", Json.arr (runSeq s (ops ++ [.stop, .sync])).toArray)]
  | "bufio" =>
    let wo ← (arrD op "wo").toList.mapM parseWO
    let ops ← (arrD op "ops").toList.mapM parseBOp
    let s : St := { size := (intD op "size" 1).toNat, init := true, wscript := wo }
    return obj [("steps", Json.arr (runBufio s ops).toArray)]
  | "conc" =>
    -- mutual exclusion (mutex_excl) makes every concurrent run a sequential history of the same Writes;
    -- stream_inv + stop_flushes + sync_flushes: after the final Stop and Sync the sink holds all of them
    let progs := (arrD op "progs").toList.map fun p => (p.getArr?.toOption.getD #[]).toList.map fun j => j.getStr?.toOption.getD ""
    let lens := progs.flatten.map progLen
    return obj [("bytes", jnat lens.sum), ("records", jnat (lens.filter (· > 0)).length)]
  | _ => throw s!"unknown op {k}"

end ZapVerif.Drv.C12
