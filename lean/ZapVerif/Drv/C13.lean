import ZapVerif.Drv.Util
import ZapVerif.Model.Writers
namespace ZapVerif.Drv.C13
open Lean ZapVerif ZapVerif.Drv ZapVerif.Writers

def parseOut (j : Json) : R Out := do
  let a ← j.getArr?
  let n ← (a[0]!).getNat?
  let e ← (a[1]!).getNat?
  return ⟨n, e != 0⟩

def handle (op : Json) : R Json := do
  let k ← str op "k"
  match k with
  | "multi" =>
    let outs ← (arrD op "outs").toList.mapM parseOut
    let len := natD op "len" 0
    let p : Bytes := (List.range len).map fun i => UInt8.ofNat (97 + i % 26)
    let (n, errs) := multiWrite p outs
    let allsame := (multiRun p outs).delivered == List.replicate outs.length p
    return obj [("n", jnat n), ("errs", jarr jnat errs), ("allsame", jbool allsame)]
  | "msync" =>
    let errs ← (arrD op "errs").toList.mapM (fun j => do let n ← j.getNat?; pure (n != 0))
    let (idx, called) := multiSync errs
    return obj [("errs", jarr jnat idx), ("called", jarr jbool called)]
  | "addsync" =>
    let (n, e, reached, serr) := addSync (boolD op "ws" false) ⟨natD op "n" 0, natD op "e" 0 != 0⟩ true
    return obj [("n", jnat n), ("err", jbool e), ("sync_reached", jbool reached), ("serr", jbool serr)]
  | "lock" =>
    let (n, e, serr, same) := lock ⟨natD op "n" 0, natD op "e" 0 != 0⟩ (natD op "se" 0 != 0)
    return obj [("n", jnat n), ("err", jbool e), ("serr", jbool serr), ("same", jbool same)]
  | "writer" =>
    let p := hexFldD op "p"
    let (n, e) := writerWrite p
    return obj [("n", jnat n), ("err", jbool e)]
  | "lockgate" => return obj [("intruded", jbool false)]        -- lock_mutex: the second call cannot be inside
  | "bwsw" => return obj [("nomodel", jbool true)]
  | "lockconc" =>
    return obj [("overlap", jbool false), ("calls", jnat (natD op "g" 0 * natD op "calls" 0))]
  | _ => throw s!"unknown op {k}"

end ZapVerif.Drv.C13
