import ZapVerif.Drv.Util
import ZapVerif.Model.Sugar
import ZapVerif.Gen.Callers
namespace ZapVerif.Drv.C14
open Lean ZapVerif ZapVerif.Drv ZapVerif.Sugar

def parseVK : String → R VK
  | "bool" => pure .bool | "f64" => pure .f64 | "dur" => pure .dur | "strs" => pure .strs | "stringer" => pure .stringer
  | "obj" => pure .obj | "pint" => pure .pint | "pnil" => pure .pnil | "bytes" => pure .bytes | "time" => pure .time
  | "strukt" => pure .strukt | "u8" => pure .u8
  | s => throw s!"unknown value kind {s}"

def parseArg (j : Json) : R Arg := do
  let t ← str j "t"
  let tok := hexFldD j "tok"
  match t with
  | "f" => return .field (strD j "ty" "") (hexFldD j "key") tok
  | "e" => return .err tok
  | "s" => return .str tok
  | "i" => return .int tok
  | "z" => return .nil
  | "v" => return .val (← parseVK (strD j "vk" "")) tok
  | _ => throw s!"unknown arg kind {t}"

def jfield : FieldD → Json
  | .f ty k t => Json.arr #[Json.str ty, jhex k, jhex t]
  | .invalid ps => Json.arr #[Json.str FT.arrayMarshaler.name, jhex (Bytes.ofString "invalid"),
      jarr (fun (p : Nat × Tok × Tok) => Json.arr #[jnat p.1, jhex p.2.1, jhex p.2.2]) ps]

def jentry (e : Entry) : Json := obj [("l", jint e.lvl), ("m", jhex e.msg), ("f", jarr jfield e.fields)]

def natBytes (n : Nat) : Bytes := Bytes.ofString (toString n)

def ctxFields (n : Nat) : List FieldD :=
  (List.range n).map fun i => .f FT.int64.name (Bytes.ofString s!"c{i}") (natBytes (900 + i))

/-- a parameter of an exported method, as the harness passes it -/
inductive Param where
  | lvl
  | bytes (b : Bytes)
  | args (a : List Arg)

def routeBytes (ps : List Param) : Gen.Callers.Route → Bytes
  | .param i => match ps[i]? with | some (.bytes b) => b | _ => []
  | _ => []

def routeArgs (ps : List Param) : Gen.Callers.Route → List Arg
  | .param i => match ps[i]? with | some (.args a) => a | _ => []
  | _ => []

/-- run an exported logging method the way sugar.go routes its parameters (regenerated table) -/
def runMethod (c : Cfg) (ctx : List FieldD) (F : Fmt) (m : Gen.Callers.SugarMethod) (lvl : Int) (ps : List Param) : Run :=
  let l := m.level.getD lvl
  let ps := if m.level.isNone then Param.lvl :: ps else ps
  let fmtArgs := routeArgs ps m.fmtArgs
  let context := routeArgs ps m.context
  let msg := if m.ln then getMessageln F fmtArgs else getMessage F (routeBytes ps m.template) fmtArgs
  logMsg c ctx l msg context

def asciiOf (b : Bytes) : String := String.ofList (b.map fun c => Char.ofNat c.toNat)

def compactField : FieldD → String
  | .f ty k t => s!"{ty}:{asciiOf k}={asciiOf t}"
  | .invalid ps => s!"{FT.arrayMarshaler.name}:invalid=[" ++
      " ".intercalate (ps.map fun p => s!"{p.1}:{asciiOf p.2.1}:{asciiOf p.2.2}") ++ "]"

def compactFields (fs : List FieldD) : String := ",".intercalate (fs.map compactField)

def msgClass (m : Bytes) : String :=
  if m = msgMultiple then "M" else if m = msgOdd then "D" else if m = msgNonString then "I" else "?" ++ m.toHex

def compact (fields : List FieldD) (diags : List Entry) : String :=
  compactFields fields ++ "|" ++ ";".intercalate (diags.map fun e => s!"{msgClass e.msg}{e.lvl}({compactFields e.fields})")

def shapeArgs (s : String) : R (List Arg) :=
  (s.toList.zipIdx).mapM fun (c, i) =>
    match c with
    | 'F' => pure (Arg.field FT.int64.name (Bytes.ofString s!"f{i}") (natBytes (300 + i)))
    | 'E' => pure (Arg.err (Bytes.ofString s!"e{i}"))
    | 'S' => pure (Arg.str (Bytes.ofString s!"k{i}"))
    | 'N' => pure (Arg.int (natBytes (100 + i)))
    | 'Z' => pure Arg.nil
    | 'V' => pure (Arg.val .strukt (natBytes (200 + i)))
    | _ => throw s!"bad shape letter {c}"

def handle (op : Json) : R Json := do
  let k ← str op "k"
  match k with
  | "swx" =>
    let shapes ← (arrD op "shapes").toList.mapM (fun j => j.getStr?)
    let rs ← shapes.mapM fun s => do
      let args ← shapeArgs s
      let (diags, child) := withArgs ⟨-128, false⟩ [] args
      pure (compact child diags)
    return obj [("r", jarr Json.str rs)]
  | "sw" | "msg" =>
    let m0 ← str op "m"
    -- the println-style methods of zapgrpc hand `Sprintln(args)` minus its newline to the SugaredLogger: same entries as Xln
    let m := match m0 with
      | "grpc.Infoln" => "Infoln" | "grpc.Warningln" => "Warnln" | "grpc.Errorln" => "Errorln" | x => x
    let c : Cfg := ⟨intD op "min" (-1), boolD op "dev" false⟩
    let ctx := ctxFields (natD op "ctx" 0)
    let args ← (arrD op "args").toList.mapM parseArg
    let lvl := intD op "lvl" 0
    if m == "With" || m == "WithLazy" then
      let (ents, child) := withArgs c ctx args
      return obj [("panic", jbool false), ("entries", jarr jentry ents), ("child", jarr jfield child)]
    match Gen.Callers.sugarMethods.find? (·.name == m) with
    | none => throw s!"unknown method {m}"
    | some sm =>
      let F : Fmt := ⟨fun _ => hexFldD op "sprint", fun _ _ => hexFldD op "sprintf", fun _ => hexFldD op "sprintln"⟩
      let ps : List Param :=
        if k == "sw" then [.bytes (hexFldD op "msg"), .args args]
        else if m.endsWith "f" then [.bytes (hexFldD op "tpl"), .args args]
        else [.args args]
      let r := runMethod c ctx F sm lvl ps
      return obj [("panic", jbool r.panicked), ("entries", jarr jentry r.entries), ("child", jarr jfield [])]
  | _ => throw s!"unknown op {k}"

end ZapVerif.Drv.C14
