import ZapVerif.Drv.Util
import ZapVerif.Model.Callers
import ZapVerif.Model.Sugar
namespace ZapVerif.Drv.C15
open Lean ZapVerif ZapVerif.Drv ZapVerif.Callers ZapVerif.Gen.Callers

/-- frames as integers: user-side frame i ↦ i ≥ 0 (0 = the function that called the front end); anything else < 0 -/
abbrev Fr := Int

def userSide (n : Nat) : List Fr := (List.range n).map Int.ofNat

def parseDeriv (j : Json) : R Deriv := do
  let d ← str j "d"
  match d with
  | "sugar" => pure .sugar
  | "desugar" => pure .desugar
  | "with" => pure .with_
  | "withlazy" => pure .withLazy
  | "named" => pure .named
  | "opts" => do
    let ks ← (arrD j "ks").toList.mapM (fun k => k.getInt?)
    pure (.withOptions ks)
  | _ => throw s!"unknown derivation {d}"

def after (pfx s : String) : Option String :=
  if s.startsWith pfx then some (s.drop pfx.length).toString else none

/-- front end and the zap level it logs at (`lvl` = the op's level parameter) -/
def frontEnd (fe : String) (lvl : Int) : R (FrontEnd × Int) :=
  match after "L." fe with
  | some m =>
    match loggerMethods.find? (·.1 == m) with
    | some (_, l) => pure (.logger m, l.getD lvl)
    | none => throw s!"Logger.{m} does not call check directly"
  | none =>
  match after "S." fe with
  | some m =>
    match sugarMethods.find? (·.name == m) with
    | some sm => pure (.sugar m, sm.level.getD lvl)
    | none => throw s!"SugaredLogger.{m} is not a logging method"
  | none =>
  if ["std.Panic", "std.Panicf", "redir.Panic", "redir.Output"].contains fe then pure (.stdlogDeep, 0)
  else if fe.startsWith "std." || fe.startsWith "redir." then pure (.stdlog, 0)
  else if fe.startsWith "stdat." || fe.startsWith "redirat." then pure (.stdlog, lvl)
  else throw s!"unknown front end {fe}"

def jannot (n : Nat) (lvl : Int) (a : Annot Fr) : Json :=
  let caller := match a.caller with
    | none => Json.null
    | some f => if f ≥ 0 then jint f else jint (-1)
  let stack := match a.stack with
    | none | some [] => Json.null
    | some (f :: rest) =>
      if f ≥ 0 then obj [("start", jint f), ("dropped", jint (Int.ofNat n - f - Int.ofNat (rest.length + 1)))]
      else obj [("start", jint (-1)), ("dropped", jint (-1))]
  obj [("l", jint lvl), ("caller", caller), ("stack", stack)]

open ZapVerif.Sugar in
def badArgs : String → List Arg
  | "dangling" => [.str [107], .int [49], .str [100]]
  | "invalid" => [.str [107], .int [49], .int [50], .int [51]]
  | "multi" => [.err [49], .str [107], .int [49], .err [50]]
  | "all" => [.err [49], .err [50], .int [55], .int [56], .err [51], .str [100]]
  | _ => [.str [107], .int [49]]

def slab : Nat := slabSize

def handle (op : Json) : R Json := do
  let k ← str op "k"
  match k with
  | "trim" =>
    let file ← hexFld op "file"
    let line := natD op "line" 0
    let d := boolD op "defined" true
    return obj [("trimmed", jhex (trimmedPath d file line)), ("full", jhex (fullPath d file line)),
                ("enc_short", jhex (trimmedPath d file line)), ("enc_full", jhex (fullPath d file line))]
  | "site" | "diag" =>
    let fe ← str op "fe"
    let lvlP := intD op "lvl" 0
    let min := intD op "min" (-1)
    let depth := natD op "depth" 0
    let stackLv ← (arrD op "stack").toList.mapM (fun j => j.getInt?)
    let addCaller := !(boolD op "nocaller" false)
    let chain ← (arrD op "chain").toList.mapM parseDeriv
    -- user-side frames below the call site: the harness stack is tall, except when the wrapper chain is a goroutine's entry
    -- (closure, `depth` wrappers, the entry function, runtime.goexit)
    let n := if boolD op "goentry" false then depth + 3 else depth + 64
    let pre : List Fr := [-1, -2, -3]
    match run chain {} with
    | none => throw "ill-typed derivation chain"
    | some l =>
      let cfg : LevelCfg := ⟨min, fun x => stackLv.contains x⟩
      let via (f : FrontEnd) (lv : Int) : Option Json :=
        (checkAnnot cfg lv (l.callerSkip + f.extraSkip) addCaller slab
          (stackOf pre (List.replicate f.zapFrames (-10)) (userSide n))).map (jannot n lv)
      let isWith := fe == "S.With" || fe == "S.WithLazy"
      if isWith then
        let nd := ((Sugar.sweeten (badArgs (strD op "bad" ""))).diagEntries []).length
        let ds := (List.replicate nd (via .diagWith 2)).filterMap id
        return obj [("panic", jbool false), ("entries", Json.arr ds.toArray)]
      let (f, lv) ← frontEnd fe lvlP
      if f.onSugared != l.sugared then throw s!"front end {fe} does not exist on the derived logger"
      let main := (via f lv).toList
      let reached := decide (min ≤ lv)
      let ds := if k == "diag" && reached then
          let nd := ((Sugar.sweeten (badArgs (strD op "bad" ""))).diagEntries []).length
          (List.replicate nd (via .diagLog 2)).filterMap id
        else []
      let terminal := match f with
        | .stdlog | .stdlogDeep => lv == 4 || lv == 5 || (fe.splitOn ".Panic").length > 1
        | _ => lv == 4 || lv == 5
      return obj [("panic", jbool terminal), ("entries", Json.arr (ds ++ main).toArray)]
  | "slog" =>
    let min := intD op "min" (-1)
    let lv := intD op "lvl" 0
    let depth := natD op "depth" 0
    let n := depth + 64
    let skip := natD op "skip" 0
    let addCaller := !(boolD op "nocaller" false)
    let addStack := decide (intD op "sth" 0 ≤ intD op "slvl" 0)
    if min ≤ lv then
      let a := slogHandle skip addCaller addStack (some 0) slab
        (stackOf ([-1, -2, -3, -4] : List Fr) (List.replicate stdlibSlogFrames (-10)) (userSide n))
      return obj [("panic", jbool false), ("entries", Json.arr #[jannot n lv a])]
    else
      return obj [("panic", jbool false), ("entries", Json.arr #[])]
  | _ => throw s!"unknown op {k}"

end ZapVerif.Drv.C15
