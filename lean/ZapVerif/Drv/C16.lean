import ZapVerif.Drv.EncOp
namespace ZapVerif.Drv.C16
def handle := ZapVerif.Drv.EncOp.handle
end ZapVerif.Drv.C16
