import ZapVerif.Drv.Util
import ZapVerif.Model.Zio
namespace ZapVerif.Drv.C17
open Lean ZapVerif ZapVerif.Drv ZapVerif.Zio

def parseStep (j : Json) : R Step := do
  if has j "w" then return .write (← hexFld j "w")
  if has j "e" then return .enable (boolD j "e" true)
  return .sync

def handle (op : Json) : R Json := do
  let steps ← (arrD op "steps").toList.mapM parseStep
  let (ms, rs) := session steps
  return obj [("rets", jarr (fun r => jnat r.1) rs), ("errs", jarr (fun r => jbool r.2) rs), ("msgs", jarr jhex ms)]

end ZapVerif.Drv.C17
