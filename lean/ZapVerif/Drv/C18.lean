import ZapVerif.Drv.Util
import ZapVerif.Model.Slog
namespace ZapVerif.Drv.C18
open Lean ZapVerif ZapVerif.Drv ZapVerif.Slog

partial def parseAttr (j : Json) : R SAttr := do
  let k := strD j "k" ""
  let lv := natD j "lv" 0
  match ← str j "a" with
  | "leaf" => return .leaf k lv ⟨strD j "ty" "", strD j "v" ""⟩
  | "nil" => return .nilv k lv
  | "group" => return .group k lv (← (arrD j "m").toList.mapM parseAttr)
  | a => throw s!"unknown attr form {a}"

def parseAttrs (j : Json) (k : String) : R (List SAttr) := (arrD j k).toList.mapM parseAttr

partial def jtree : T → Json
  | .leaf k l => obj [("k", Json.str k), ("ty", Json.str (fieldTag l.ty)), ("v", Json.str l.v)]
  | .node k cs => obj [("k", Json.str k), ("c", Json.arr (cs.map jtree).toArray)]

def handle (op : Json) : R Json := do
  match ← str op "k" with
  | "levels" =>
    return obj [("table", jarr (fun (p : Int × Int) => Json.arr #[jint p.1, jint p.2]) Gen.slogLevels)]
  | "prog" =>
    let enabL ← (arrD op "enab").toList.mapM (fun j => j.getInt?)
    let enab : Int → Bool := fun z => enabL.contains z
    let mut hs : List H := [root]
    let mut outs : Array Json := #[]
    for st in (arrD op "steps").toList do
      let on := natD st "on" 0
      match hs[on]? with
      | none => pure ()
      | some h =>
        match ← str st "t" with
        | "g" => hs := runProg hs [⟨on, .withGroup (strD st "name" "")⟩]
        | "a" => hs := runProg hs [⟨on, .withAttrs (← parseAttrs st "attrs")⟩]
        | "h" =>
          let l := intD st "lvl" 0
          let R ← parseAttrs st "attrs"
          match enabledAt enab l, handleRecord enab h l R with
          | some en, some (some (z, t)) =>
            outs := outs.push (obj [("enabled", jbool en), ("written", jbool true), ("level", jint z),
              ("tree", Json.arr (t.map jtree).toArray)])
          | some en, some none =>
            outs := outs.push (obj [("enabled", jbool en), ("written", jbool false), ("level", Json.null), ("tree", Json.null)])
          | _, _ => throw s!"slog level {l} is outside the regenerated table"
        | t => throw s!"unknown step {t}"
    return obj [("out", Json.arr outs)]
  | k => throw s!"unknown op {k}"

end ZapVerif.Drv.C18
