import ZapVerif.Drv.Util
import ZapVerif.Model.OpenBuild
namespace ZapVerif.Drv.C19
open Lean ZapVerif ZapVerif.Drv ZapVerif.OpenBuild

def kindsOf (op : Json) (k : String) : R (List String) := (arrD op k).toList.mapM (fun j => j.getStr?)

def opens (kind : String) : Bool := kind == "ok" || kind == "file" || kind == "stdout"

/-- positions of `idx` whose path kind is `kind` -/
def ofKind (kinds : List String) (kind : String) (idx : List Nat) : List Nat :=
  idx.filter fun i => kinds[i]? == some kind

def parseEnc : String → R Enc
  | "json" => pure .ok
  | "console" => pure .ok
  | "empty" => pure .noName
  | "unknown" => pure .unknown
  | "notime" => pure .missingTime
  | "ctorerr" => pure .ctorErr
  | e => throw s!"unknown encoder case {e}"

def subst (b : Bytes) : Bytes :=
  b.flatMap fun c => if c == 0x7E then [0x7A, 0x76, 0x74] else if c == 0x5E then [0x5A, 0x56, 0x54] else [c]

def locOf : Target → String
  | .stdout => "<stdout>"
  | .stderr => "<stderr>"
  | .file p => if p.startsWith "/T/" then (p.drop 3).toString else "cwd/" ++ p

def jhit (o : Option Nat) : Json :=
  match o with
  | some i => if i < 1000 then jnat i else jint (-1)
  | none => jint (-1)

def handle (op : Json) : R Json := do
  match ← str op "k" with
  | "open" =>
    let kinds ← kindsOf op "paths"
    let r := openAll (kinds.map opens)
    let nfiles := (ofKind kinds "file" r.returned).length
    return obj [("err", jbool r.err), ("opened", jarr jnat (ofKind kinds "ok" r.opened)),
      ("closed", jarr jnat (ofKind kinds "ok" r.closed)), ("fds", jnat nfiles),
      ("delivered", jarr jnat r.returned), ("closed_after", jarr jnat (ofKind kinds "ok" r.returned)),
      ("fds_after", jnat 0)]
  | "build" =>
    let outs ← kindsOf op "outs"
    let errs ← kindsOf op "errs"
    let enc ← parseEnc (← str op "enc")
    let r := build ⟨enc, boolD op "level" false, outs.map opens, errs.map opens⟩
    let done := r.stage == .done
    let leaked (kinds : List String) (o c : List Nat) := ((ofKind kinds "file" o).filter (fun i => !c.contains i)).length
    let okOuts := (outs.filter (· == "ok")).length
    return obj [("err", jbool (!done)),
      ("opened_out", jarr jnat (ofKind outs "ok" r.openedOut)), ("opened_err", jarr jnat (ofKind errs "ok" r.openedErr)),
      ("closed_out", jarr jnat (ofKind outs "ok" r.closedOut)), ("closed_err", jarr jnat (ofKind errs "ok" r.closedErr)),
      ("fds", jnat (leaked outs r.openedOut r.closedOut + leaked errs r.openedErr r.closedErr)),
      ("delivered_out", jarr jnat (if done then r.openedOut else [])),
      ("delivered_err", jarr jnat (if done && okOuts > 0 then r.openedErr else []))]
  | "redirect" =>
    let s : StdLog := ⟨intD op "flags" 0, strD op "prefix" "", .prev⟩
    let how ← str op "how"
    let l := if how == "std" then 0 else intD op "lvl" 0
    let (err, s', restore) ←
      match how with
      | "std" | "at" => pure (redirectAt s l)
      | "new" => let (e, s') := newStdLogAt s l; pure (e, s', none)
      | h => throw s!"unknown redirect form {h}"
    let outAfter := match s'.out with | .prev => "same" | .zap _ => "zap" | .stderr => "other"
    let delivered := if err then Json.null else if l ≤ 3 then jbool true else Json.null
    let restored := restore.getD s'
    return obj [("err", jbool err), ("flags_after", jint s'.flags), ("prefix_after", Json.str s'.pref),
      ("out_after", Json.str outAfter), ("delivered", delivered),
      ("flags_restored", jint restored.flags), ("prefix_restored", Json.str restored.pref)]
  | "url" =>
    let raw ← str op "raw"
    let pj := fldD op "parsed" Json.null
    let parsed : Option (String × URL) :=
      if pj.isNull then none
      else some (strD pj "scheme" "", ⟨boolD pj "user" false, strD pj "fragment" "", strD pj "rawquery" "",
        strD pj "port" "", strD pj "hostname" "", strD pj "path" ""⟩)
    match newSink (boolD op "abs" false) raw parsed (fun _ => false) with
    | .target t =>
      if boolD op "fs" false then return obj [("err", jbool false), ("opened", jarr Json.str [locOf t])]
      else return obj [("err", jbool true), ("opened", jarr Json.str [])]
    | _ => return obj [("err", jbool true), ("opened", jarr Json.str [])]
  | "reg" =>
    let names ← (arrD op "names").toList.mapM (fun j => do hexOf (← j.getStr?))
    let probes ← (arrD op "probes").toList.mapM (fun j => do hexOf (← j.getStr?))
    let names := names.map subst
    let probes := probes.map subst
    match ← str op "what" with
    | "sink" =>
      let (errs, reg) := registerAll registerSink [(Bytes.ofString "file", 1000)] 0 names
      return obj [("errs", jarr jbool errs), ("hits", Json.arr (probes.map (fun p => jhit (resolveSink reg p))).toArray)]
    | "enc" =>
      let (errs, reg) := registerAll registerEncoder [(Bytes.ofString "console", 1000), (Bytes.ofString "json", 1001)] 0 names
      return obj [("errs", jarr jbool errs), ("hits", Json.arr (probes.map (fun p => jhit (resolveEncoder reg p))).toArray)]
    | w => throw s!"unknown registry {w}"
  | k => throw s!"unknown op {k}"

end ZapVerif.Drv.C19
