import ZapVerif.Drv.Util
import ZapVerif.Model.Level
namespace ZapVerif.Drv.C20
open Lean ZapVerif ZapVerif.Drv ZapVerif.Level

def parseVal (j : Json) : R JVal := do
  if boolD j "null" false then return .null
  if boolD j "bad" false then return .bad
  return .text (← hexFld j "t") (← hexFld j "lo")

def parseReq (j : Json) : R Req := do
  let d ← fld j "dec"
  let r ← str d "r"
  let dec ← match r with
    | "form" => pure (Decoded.form (← hexFld d "t") (← hexFld d "lo"))
    | "json" => pure (Decoded.json (← (arrD d "vals").toList.mapM parseVal))
    | _ => pure Decoded.malformed
  return ⟨← str j "method", dec⟩

/-- requests with an optional direct change of the level (SetLevel / text path, outside the handler) just before each -/
def serveAllPre (cur : Lvl) : List (Option Lvl × Req) → List (Nat × Lvl × Option Lvl)
  | [] => []
  | (pre, r) :: rs => let x := serve (pre.getD cur) r; x :: serveAllPre x.2.1 rs

def handle (op : Json) : R Json := do
  let k ← str op "k"
  match k with
  | "round" =>
    let l ← int op "l"
    let lower : Bytes → Bytes := fun b => b.map fun c => if 65 ≤ c ∧ c ≤ 90 then c + 32 else c
    return obj [("s", jhex (stringOf l)), ("c", jhex (capitalOf l)), ("m", jopt jhex (marshalOf l)),
                ("ps", jopt jint (parse lower (stringOf l))), ("pc", jopt jint (parse lower (capitalOf l)))]
  | "text" =>
    let t ← hexFld op "t"
    let lo ← hexFld op "lo"
    let (okk, after) := unmarshalInto (fun _ => lo) (← int op "cur") t
    return obj [("ok", jbool okk), ("after", jint after)]
  | "http" =>
    let reqs ← (arrD op "reqs").toList.mapM (fun j => do
      let pre : Option Lvl := if has j "pre" then some (intD j "pre" 0) else none
      pure (pre, ← parseReq j))
    let steps := serveAllPre (← int op "init") reqs
    return obj [("steps", jarr (fun (s : Nat × Lvl × Option Lvl) =>
      obj [("status", jnat s.1), ("after", jint s.2.1), ("resp", jopt jint s.2.2)]) steps)]
  | _ => throw s!"unknown op {k}"

end ZapVerif.Drv.C20
