import ZapVerif.Drv.Util
import ZapVerif.Model.GoMini
import ZapVerif.Model.TransJsonSepX
import ZapVerif.Model.TransSamplerX
import ZapVerif.Model.TransMultiWSX
import ZapVerif.Model.TransZioX
import ZapVerif.Model.TransCallerX
import ZapVerif.Model.TransEscapeX
import ZapVerif.Model.TransCEX
import ZapVerif.Model.TransCEAddX
import ZapVerif.Model.TransCoresX
import ZapVerif.Model.TransLoggerX
import ZapVerif.Model.TransLockedX
import ZapVerif.Model.TransSweetenX
import ZapVerif.Model.TransCaptureX
import ZapVerif.Model.TransJsonEncX
import ZapVerif.Model.TransConsoleX
import ZapVerif.Model.TransSlogX
import ZapVerif.Model.TransOpenX
import ZapVerif.Model.TransLevelX
import ZapVerif.Model.TransMessageX
import ZapVerif.Model.TransDeriveX
import ZapVerif.Model.TransCtorX
import ZapVerif.Model.TransWritersX
import ZapVerif.Model.TransStackFmtX
import ZapVerif.Model.TransGrpcX
import ZapVerif.Model.Entry
import ZapVerif.Gen.TransProbe
/-! `zvdrv CTR`: the interpreter side of the translator's differential test.  An op names a generated table and a
    function, gives arguments and receiver fields; the handler runs the GENERATED term in the GoMini interpreter
    and prints results / fields / panic kind in the same canonical JSON the Go side prints after running the REAL
    Go function (harness/cmd/zvh/trans.go).

    values:  {"i":"<decimal>"} | {"b":bool} | {"x":"<hex>"} | {"l":[value…]} -/
namespace ZapVerif.Drv.CTR
open Lean ZapVerif ZapVerif.Drv ZapVerif.GoMini

partial def parseVal (j : Json) : R Val := do
  if has j "i" then
    match (← str j "i").toInt? with
    | some v => return .int v
    | none => throw "bad int"
  else if has j "b" then return .bool (boolD j "b" false)
  else if has j "x" then return .bytes (← hexFld j "x")
  else if has j "l" then return .list (← (arrD j "l").toList.mapM parseVal)
  else throw "bad value"

partial def jval : Val → Json
  | .int v => obj [("i", Json.str (toString v))]
  | .bool b => obj [("b", jbool b)]
  | .bytes bs => obj [("x", jhex bs)]
  | .list vs => obj [("l", Json.arr (vs.map jval).toArray)]

def jenv (e : Env) : Json := Json.arr (e.map fun (k, v) => obj [("n", Json.str k), ("v", jval v)]).toArray

def parseEnv (j : Json) (k : String) : R Env :=
  (arrD j k).toList.mapM fun e => do return (← str e "n", ← parseVal (← fld e "v"))

/-- pseudo-field `#enabled`: the levels the wrapped core of a sampler enables (a parameter of the context) -/
def enabledOf (flds : Env) : Int → Bool :=
  match (match flds.get "#enabled" with | some v => some v | none => flds.get "#en") with
  | some (.list ls) => fun l => ls.any fun | .int x => x == l | _ => false
  | _ => fun _ => true

/-- the parameters of the core-algebra context as fixed functions of the scripted values (the same on the Go side,
    harness/cmd/zvh/trans_cores.go): `en` = the levels listed in `#en`, `cen c l` = (id c + l) even,
    `chk c e ce` = a leaf: the sub-core adds itself iff it enables the entry's level -/
def coreId : Val → Int
  | .list (.int i :: _) => i
  | _ => 0

def coresPar (e : Env) : ZapVerif.TransCores.Par :=
  let cen : Val → Int → Bool := fun c l => (coreId c + l) % 2 == 0
  { en := enabledOf e,
    cen := cen,
    chk := fun c ent ce =>
      match ent with
      | .list (.int l :: _) => if cen c l then ZapVerif.TransCores.addCore ce c else ce
      | _ => ce }

/-- the parameters of the logger context (harness/cmd/zvh/trans_logger.go): the core of the sugar guards is the
    pseudo-field `#core` -/
def loggerPar (e : Env) : ZapVerif.TransLogger.Par :=
  let cen : Val → Int → Bool := fun c l => (coreId c + l) % 2 == 0
  let sugarCore : Val := (e.get "#core").getD (.list [])
  { cen := fun c l => match c with | .list [] => cen sugarCore l | _ => cen c l,
    chk := fun c ent => match ent with
      | .list [_, _, .int l, _] => if cen c l then some [c] else none
      | _ => none,
    now := fun c => c,
    ann := fun ce _ => ce }

/-- a small bufio.Writer over a sink that either takes everything or fails every write with `werrs`
    (harness/cmd/zvh/trans_locked.go reads the same five components off the real `*bufio.Writer` and its sink):
    `[size, buffered bytes, sink writes so far, sticky error, the sink's write error]` -/
structure BW where
  size : Int
  buf : Bytes
  writes : List Val
  err : List Val
  werrs : List Val

def BW.ofVal : Val → BW
  | .list [.int size, .bytes buf, .list writes, .list err, .list werrs] => ⟨size, buf, writes, err, werrs⟩
  | _ => ⟨0, [], [], [], []⟩

def BW.toVal (w : BW) : Val := .list [.int w.size, .bytes w.buf, .list w.writes, .list w.err, .list w.werrs]

def BW.sinkWrite (w : BW) (p : Bytes) : BW × Nat × List Val :=
  ({ w with writes := w.writes ++ [.bytes p] }, if w.werrs.isEmpty then p.length else 0, w.werrs)

/-- `bufio.Writer.Flush` -/
def BW.flush (w : BW) : BW × List Val :=
  if !w.err.isEmpty then (w, w.err)
  else if w.buf.isEmpty then (w, [])
  else
    let r := w.sinkWrite w.buf
    if r.2.2.isEmpty then ({ r.1 with buf := [] }, []) else ({ r.1 with err := r.2.2 }, r.2.2)

/-- `bufio.Writer.Write` -/
def BW.write : Nat → BW → Bytes → Nat → BW × Nat × List Val
  | 0, w, _, nn => (w, nn, w.err)
  | f + 1, w, p, nn =>
    if (p.length : Int) > w.size - w.buf.length ∧ w.err.isEmpty then
      if w.buf.isEmpty then
        let r := w.sinkWrite p
        BW.write f { r.1 with err := r.2.2 } (p.drop r.2.1) (nn + r.2.1)
      else
        let n := (w.size - w.buf.length).toNat
        BW.write f (BW.flush { w with buf := w.buf ++ p.take n }).1 (p.drop n) (nn + n)
    else if !w.err.isEmpty then (w, nn, w.err)
    else ({ w with buf := w.buf ++ p }, nn + p.length, [])

def lockedPar : ZapVerif.TransLocked.Par :=
  { avail := fun w => let b := BW.ofVal w; b.size - b.buf.length,
    buffered := fun w => (BW.ofVal w).buf.length,
    flush := fun w => let r := (BW.ofVal w).flush; (r.1.toVal, r.2),
    bwrite := fun w p => let r := BW.write (p.length + 3) (BW.ofVal w) p 0; (r.1.toVal, r.2.1, r.2.2),
    init := fun _ ws size =>
      let werrs := match ws with | .list [_, .list e, _] => e | _ => []
      BW.toVal ⟨if size = 0 then 262144 else if size < 0 then 4096 else size, [], [], [], werrs⟩ }

/-- `"hide"`: names of recorded calls the Go side cannot observe (calls on a concrete `*bufio.Writer`); they are
    dropped from the `ev` field before the comparison -/
def hideEv (names : List Bytes) (e : Env) : Env :=
  e.map fun (k, v) =>
    match k == "ev", v with
    | true, .list l => (k, .list (l.filter fun r => match r with | .list (.bytes n :: _) => !names.contains n | _ => true))
    | _, _ => (k, v)

/-- the intrinsics of the round-2 probes (harness/cmd/zvh/trans_probe.go: `probeRec.note`, `.done`, function values
    `k ↦ fun x => k*x + 1`); arguments stay small, so no wrap-around is involved -/
def probeExt : String → List Val → Option (List Val)
  | "probe.note", [.int x] => some [.int (x + 1)]
  | "probe.done", [] => some []
  | "ProbeFn", [.int k, .int x] => some [.int (k * x + 1)]
  -- round 4 (harness/cmd/zvh/trans_probe4.go)
  | "bytes.ToLower", [.bytes t] => some [.bytes (ZapVerif.OpenBuild.lowerBytes t)]
  | "probe.fill", [.int k, _] =>
      some [.list [if k % 2 = 0 then .list [.int (k * 3)] else .list []], .bool (decide (Int.tmod k 3 = 0))]
  | "probe.asInt", [.list [.int 0, .int n]] => some [.int n, .bool true]
  | "probe.asInt", [_] => some [.int 0, .bool false]
  | "probe.asString", [.list [.int 1, .bytes s]] => some [.bytes s, .bool true]
  | "probe.asString", [_] => some [.bytes [], .bool false]
  | "probe.write", [.bytes b, .bytes s] => some [.bytes (b ++ s)]
  | _, _ => none

/-- the argument encoding of harness/cmd/zvh/trans_sweeten.go: `[0, key]` Field, `[1, id]` error, `[2, s]` string, anything
    else another value; `cap` is not observable (any function with `cap s = 0 → s = []` gives the same results) -/
def sweetenPar : ZapVerif.TransSweeten.Par :=
  { asField := fun v => match v with | .list (.int 0 :: _) => some v | _ => none,
    asErr := fun v => match v with | .list (.int 1 :: _) => some v | _ => none,
    asStr := fun v => match v with | .list [.int 2, .bytes s] => some s | _ => none,
    cap := fun v => match v with | .list l => l.length | _ => 0 }

/-! the scripted marshalers / fields of harness/cmd/zvh/trans_jsonenc.go: a marshaler is `[ops, errIds]`; an op is
    `[0,k,v]` AddString, `[1,k]` OpenNamespace, `[2,v]` AppendString, `[3,k,m]` AddObject(k, m), `[4,m]` AppendObject(m),
    `[5,k,m]` AddArray(k, m), `[6,k,r]` AddReflected(k, r), `[7,r]` AppendReflected(r).  A reflected value `r` is `[]`
    (nil), `[n]` (an int: the default reflected encoder writes its decimal text and a newline) or `[bytes]` (a value
    encoding/json refuses: error id 1).  The leaf calls are the model's (`Enc.addKey`, `appendString`); the structural
    ones are the clauses proved about the source. -/
section jsonenc
open ZapVerif.Enc ZapVerif.TransJsonEnc

def jeReflect (re : List Val) (obj : Val) : Bytes × List Val :=
  match re, obj with
  | _, .list [.int n] => (ZapVerif.Entry.fmtInt n ++ [10], [])
  | _, _ => ([], [.int 1])

def jeRefl (sp : Bool) (key : Option Bytes) (r : List Val) (s : St) : St :=
  if r.isEmpty then
    { s with buf := (match key with | some k => Enc.addKey sp s.buf k | none => sep sp s.buf) ++ [110, 117, 108, 108] }
  else
    let renc := if s.rbuf.isEmpty then [Val.int 1] else s.renc
    let out := jeReflect renc (.list r)
    if out.2.isEmpty then
      { buf := (match key with | some k => Enc.addKey sp s.buf k | none => sep sp s.buf) ++ trimNewline out.1,
        ns := s.ns, rbuf := [.bytes (trimNewline out.1)], renc := renc }
    else { s with rbuf := [.bytes out.1], renc := renc }

partial def jeOps (sp : Bool) : List Val → St → St
  | [], s => s
  | .list [.int 0, .bytes k, .bytes v] :: r, s => jeOps sp r { s with buf := appendString sp (Enc.addKey sp s.buf k) v }
  | .list [.int 1, .bytes k] :: r, s => jeOps sp r { s with buf := Enc.addKey sp s.buf k ++ [123], ns := s.ns + 1 }
  | .list [.int 2, .bytes v] :: r, s => jeOps sp r { s with buf := appendString sp s.buf v }
  | .list [.int 3, .bytes k, .list [.list ops, _]] :: r, s =>
      let s1 := jeOps sp ops { s with buf := sep sp (Enc.addKey sp s.buf k) ++ [123], ns := 0 }
      jeOps sp r { s1 with buf := closeNs (s1.buf ++ [125]) s1.ns, ns := s.ns }
  | .list [.int 4, .list [.list ops, _]] :: r, s =>
      let s1 := jeOps sp ops { s with buf := sep sp s.buf ++ [123], ns := 0 }
      jeOps sp r { s1 with buf := closeNs (s1.buf ++ [125]) s1.ns, ns := s.ns }
  | .list [.int 5, .bytes k, .list [.list ops, _]] :: r, s =>
      let s1 := jeOps sp ops { s with buf := sep sp (Enc.addKey sp s.buf k) ++ [91] }
      jeOps sp r { s1 with buf := s1.buf ++ [93] }
  | .list [.int 6, .bytes k, .list v] :: r, s => jeOps sp r (jeRefl sp (some k) v s)
  | .list [.int 7, .list v] :: r, s => jeOps sp r (jeRefl sp none v s)
  | _ :: r, s => jeOps sp r s

def jeMarshal (m : Val) (sp : Bool) (s : St) : St × List Val :=
  match m with
  | .list [.list ops, .list errs] => (jeOps sp ops s, errs)
  | _ => (s, [])

def jeSub (f : List Val) (txt : Bytes) (sp : Bool) (b : Bytes) : Bytes :=
  match f with
  | [.int 1] => appendString sp b txt
  | _ => b

def jsonEncPar : ZapVerif.TransJsonEnc.Par :=
  { mo := jeMarshal, ma := jeMarshal,
    addFields := fun fs sp s => match fs with | .list ops => jeOps sp ops s | _ => s,
    newRefl := fun _ _ => [.int 1],
    reflEncode := jeReflect,
    subLevel := fun f _ => jeSub f [76],
    subCaller := fun f _ => jeSub f [67],
    subName := fun f n b => match f, n with
      | [.int 0], .bytes nm => appendString false b nm      -- FullNameEncoder
      | [.int 2], _ => appendString false b [78]
      | _, _ => b,
    addTime := fun te sp b k t => match te, t with
      | [.int 1], _ => appendString sp (Enc.addKey sp b k) [84]
      | _, .int n => sep sp (Enc.addKey sp b k) ++ ZapVerif.Entry.fmtInt n
      | _, _ => b,
    timeIsZero := fun t => match t with | .int 0 => true | _ => false,
    levelString := ZapVerif.Level.stringOf,
    callerString := fun _ => [102, 46, 103, 111, 58, 55] }   -- "f.go:7"

def conCol (f : List Val) (txt : Bytes) (es : List Val) : List Val :=
  match f with
  | [.int 1] => es ++ [.bytes txt]
  | _ => es

def consolePar : ZapVerif.TransConsole.Par :=
  { colTime := fun f _ => conCol f [84], colLevel := fun f _ => conCol f [76], colCaller := fun f _ => conCol f [67],
    colName := fun f n es => match f, n with
      | [.int 0], .bytes nm => es ++ [.bytes nm]
      | [.int 2], _ => es ++ [.bytes [78]]
      | _, _ => es,
    text := fun v => match v with | .bytes t => t | _ => [],
    timeIsZero := fun t => match t with | .int 0 => true | _ => false,
    addFields := fun fs sp s => match fs with | .list ops => jeOps sp ops s | _ => s }
end jsonenc

/-- the scripted registry of harness/cmd/zvh/trans_open.go: "zvo://…" opens a sink named by its path, "zvf://…" fails
    with an error named by its path; `strings.ToLower` on ASCII -/
def openPar : ZapVerif.TransOpen.Par :=
  { newSink := fun p => match p with
      | .bytes (122 :: 118 :: 111 :: _) => ([p], [])
      | .bytes (122 :: 118 :: 102 :: _) => ([], [p])
      | _ => ([], [.int 0]),
    openFile := fun _ => ([], []), isAbs := fun _ => false, parse := fun _ => (.list [], []), port := fun _ => [],
    hostname := fun _ => [], lookup := fun _ _ => (.list [], false), factory := fun _ _ => ([], []), levelOK := fun _ => true,
    newEncoder := fun _ _ => ([], []), keys := fun _ => [], mapGet := fun _ _ => .list [], sort := id,
    toLower := ZapVerif.OpenBuild.lowerBytes }

/-- the parameters of the level context (harness/cmd/zvh/trans_level.go): ASCII texts, so `bytes.ToLower` is byte-wise
    lowering; `fmt.Sprintf(f, l)` puts the decimal text of `l` where `f` has `%d`; an enabler is
    `[kind, level, enabled levels]`, kind 1 knows its level -/
def levelPar : ZapVerif.TransLevel.Par :=
  { lower := ZapVerif.OpenBuild.lowerBytes,
    sprintf := fun f l => f.takeWhile (· != 37) ++ ZapVerif.Entry.fmtInt l ++ (f.dropWhile (· != 37)).drop 2,
    asLeveled := fun e => match e with | .list (.int 1 :: _) => some e | _ => none,
    leveledLevel := fun e => match e with | .list [_, .int l, _] => l | _ => 0,
    enabled := fun e l => match e with
      | .list [_, _, .list ls] => ls.any (fun v => match v with | .int x => x == l | _ => false)
      | _ => false,
    formValue := fun _ _ => [], headerGet := fun _ _ => [], jsonDecode := fun _ => ([], []), errText := fun _ => [],
    encodeErr := fun _ _ => [] }

/-- the parameters of the message context (harness/cmd/zvh/trans_message.go): what `fmt` makes of THE argument list is
    handed over in pseudo-fields; `.(string)` answers the encoding `[2, s]`; the core enables the levels in `#en`; `Check`
    answers the entry `[1]` iff the level is enabled; the context is sweetened by the sweep proved about `sweetenFields` -/
def messagePar (e : Env) : ZapVerif.TransMessage.Par :=
  let b : String → Bytes := fun k => match e.get k with | some (.bytes x) => x | _ => []
  { sprint := fun _ => b "#sprint", sprintf := fun _ _ => b "#sprintf", sprintln := fun _ => b "#sprintln",
    asStr := fun v => match v with | .list [.int 2, .bytes s] => some s | _ => none,
    cen := enabledOf e,
    check := fun _ l _ => if enabledOf e l then [.int 1] else [],
    sweeten := fun c => (ZapVerif.TransSweeten.sweepV sweetenPar 0 false c).fields }

/-- the parameters of the constructor context (harness/cmd/zvh/trans_ctor.go): cores and enablers are the values
    `[kind, level, enabled levels]` of `levelPar`; `LevelOf` is the scan proved about the source -/
def ctorPar : ZapVerif.TransCtor.Par :=
  { cen := levelPar.enabled, en := levelPar.enabled,
    levelOf := fun e => match levelPar.asLeveled e with
      | some lv => levelPar.leveledLevel lv
      | none => (([-1, 0, 1, 2, 3, 4, 5] : List Int).find? (levelPar.enabled e)).getD 6,
    nop := .list [.bytes "nop".toUTF8.toList] }

/-- the parameters of the writers context (harness/cmd/zvh/trans_writers.go): ASCII payloads, so the trims are byte-wise;
    a writer is `[kind, id]`: 0 a plain writer, 1 a WriteSyncer, 2 an already locked syncer -/
def isAsciiSpace (b : UInt8) : Bool := b == 9 || b == 10 || b == 11 || b == 12 || b == 13 || b == 32
def writersPar : ZapVerif.TransWriters.Par :=
  { trimSpace := fun p => ((p.dropWhile isAsciiSpace).reverse.dropWhile isAsciiSpace).reverse,
    trimRight := fun p cut => (p.reverse.dropWhile fun b => cut.contains b).reverse,
    asWS := fun w => match w with | .list [.int 0, _] => none | _ => some w,
    isLocked := fun w => match w with | .list [.int 2, _] => true | _ => false }

/-- the parameters of the derivation context (harness/cmd/zvh/trans_derive.go): `With(fields)` of a scripted core is
    `["with", core, fields]`; options are `[0, v]` AddCallerSkip, `[1, _]` Development, `[2, v]` WrapCore(c ↦ ["wrap", c, v]) and
    the `WrapCore(closure)` of `WithLazy`, whose core is read back as `["lazy", core, fields]`; `Enabled(l)` is `l ≥ 0`;
    `Check` adds the core; `Write` / `Sync` succeed -/
def dnm (s : String) : Val := .bytes s.toUTF8.toList
def derivePar : ZapVerif.TransDerive.Par :=
  { coreWith := fun c fs => .list [dnm "with", c, fs],
    applyOpt := fun opt st => match opt with
      | .list [.int 0, .int v] => { st with callerSkip := match st.callerSkip with | .int n => .int (n + v) | x => x }
      | .list [.int 1, _] => { st with development := .bool true }
      | .list [.int 2, v] => { st with core := .list [dnm "wrap", st.core, v] }
      | .list [.bytes _, .list [_, fields]] => { st with core := .list [dnm "lazy", st.core, fields] }
      | _ => st,
    encClone := fun e => .list [dnm "clone", e],
    addFields := fun e fs => .list [dnm "add", e, fs],
    cen := fun _ l => decide (l ≥ 0),
    chk := fun c _ _ => .list [.list [c]],
    werr := fun _ _ _ => [], serr := fun _ => [] }

def tables : List (String × (Env → Ctx)) := [
  ("TransGrpc", fun e => ZapVerif.TransGrpc.X
      { sprintln := fun _ => (match e.get "#sprintln" with | some (.bytes x) => x | _ => []), en := fun _ l => enabledOf e l }),
  ("TransStackFmt", fun _ => ZapVerif.TransStackFmt.X),
  ("TransDerive", fun _ => ZapVerif.TransDerive.X derivePar),
  ("TransWriters", fun _ => ZapVerif.TransWriters.X writersPar),
  ("TransCtor", fun _ => ZapVerif.TransCtor.X ctorPar),
  ("TransMessage", fun e => ZapVerif.TransMessage.X (messagePar e)),
  ("TransLevel", fun _ => ZapVerif.TransLevel.X levelPar),
  ("TransProbe", fun _ => { ext := probeExt, funs := ZapVerif.Gen.TransProbe.funs }),
  ("TransJsonSep", fun _ => ZapVerif.TransJsonSep.X),
  ("TransSampler", fun e => ZapVerif.TransSampler.X (enabledOf e)),
  ("TransMultiWS", fun _ => ZapVerif.TransMultiWS.X),
  ("TransCaller", fun _ => ZapVerif.TransCaller.X),
  ("TransEscape", fun _ => ZapVerif.TransEscape.X),
  ("TransCE", fun _ => ZapVerif.TransCE.X),
  ("TransCEAdd", fun _ => ZapVerif.TransCEAdd.X),
  ("TransCapture", fun e => ZapVerif.TransCapture.X ⟨match e.get "#st" with | some (.list l) => l | _ => []⟩),
  ("TransSlog", fun _ => ZapVerif.TransSlog.X
      { coreWith := fun c fs => .list [c, fs], check := fun _ _ => .list [], frame := fun _ => (.list [], false), take := fun _ => [] }),
  ("TransConsole", fun _ => ZapVerif.TransConsole.X consolePar),
  ("TransOpen", fun _ => ZapVerif.TransOpen.X openPar),
  ("TransJsonEnc", fun _ => ZapVerif.TransJsonEnc.X jsonEncPar),
  ("TransSweeten", fun _ => ZapVerif.TransSweeten.X sweetenPar),
  ("TransLocked", fun _ => ZapVerif.TransLocked.X lockedPar),
  ("TransLogger", fun e => ZapVerif.TransLogger.X (loggerPar e)),
  ("TransCores", fun e => ZapVerif.TransCores.X (coresPar e)),
  ("TransZio", fun e => ZapVerif.TransZio.X (match e.get "#en" with | some (.bool b) => b | _ => true))
]

def panicName : Panic → String
  | .index => "index"
  | .slice => "slice"
  | .divide => "divide"

def handle (op : Json) : R Json := do
  let t ← str op "t"
  let f ← str op "f"
  let some mk := tables.lookup t | throw s!"unknown table {t}"
  let args ← (arrD op "args").toList.mapM parseVal
  let flds ← parseEnv op "flds"
  let X := mk flds
  match run X (natD op "fuel" 100000) f args flds with
  | .done rs fl =>
    let hide := (arrD op "hide").toList.filterMap fun j => (j.getStr?.toOption).map fun s => s.toUTF8.toList
    let drop := (arrD op "drop").toList.filterMap fun j => j.getStr?.toOption
    let blank := (arrD op "blank").toList.filterMap fun j => j.getNat?.toOption
    let rs := rs.zipIdx.map fun (v, i) =>
      if blank.contains i then (match v with | .list (.bytes _ :: r) => .list (.bytes [] :: r) | v => v) else v
    return obj [("res", Json.arr (rs.map jval).toArray), ("flds", jenv ((hideEv hide fl).filter fun p => !drop.contains p.1))]
  | .panic p => return obj [("panic", Json.str (panicName p))]
  | .stuck w => return obj [("stuck", Json.str w)]
  | .oof => return obj [("oof", jbool true)]

end ZapVerif.Drv.CTR
