import ZapVerif.Drv.Util
import ZapVerif.Model.Core
import ZapVerif.Gen.FrontEnds
/-! parsing of core trees / rendering of events shared by the C05, C06 and C07 drivers -/
namespace ZapVerif.Drv.CoreIO
open Lean ZapVerif ZapVerif.Drv ZapVerif.Cores

def parseEnab (j : Json) : R Enab := do
  let k ← str j "k"
  match k with
  | "fn" =>
    let mask := natD j "mask" 0
    let lo := boolD j "lo" false
    let hi := boolD j "hi" false
    return .fn fun l => if l < -1 then lo else if l > 5 then hi else mask.testBit (l + 1).toNat
  | "lvl" => let t := intD j "t" 0; return .fn fun l => decide (t ≤ l)
  | "atomic" => return .atomic (natD j "i" 0)
  | _ => throw s!"enabler kind {k}"

def parseFld (j : Json) : R Fld := do
  let kind := natD j "kind" 0
  let r := intD j "ref" (-1)
  let v := natD j "val" 0
  return { kind := kind, key := natD j "key" 0, ref := if r < 0 then none else some r.toNat,
           val := if kind = 2 ∨ kind = 3 then some v else none }

def parseFlds (j : Json) (k : String) : R (List Fld) := (arrD j k).toList.mapM parseFld

/-- builds the core bottom-up exactly as the harness does (`with` nodes call `Core.With` at build time) -/
partial def build (σ : Store) (μ : Val) (j : Json) (w : W) (rej : List Nat) : R (Core × W × List Nat) := do
  let t ← str j "t"
  let id := natD j "id" 0
  match t with
  | "leaf" => return (.leaf id (← parseEnab (← fld j "en")) (boolD j "io" false) [], w, rej)
  | "nop" => return (.nop, w, rej)
  | "tee" =>
    let mut cs : List Core := []
    let mut w := w
    let mut rej := rej
    for cj in arrD j "cs" do
      let (c, w', rej') ← build σ μ cj w rej
      cs := cs ++ [c]; w := w'; rej := rej'
    return (mkTee cs, w, rej)
  | "incr" =>
    let (c, w, rej) ← build σ μ (← fld j "c") w rej
    let en ← parseEnab (← fld j "en")
    if incrValid σ c en then return (.incr c en, w, rej) else return (c, w, rej ++ [id])
  | "hook" => let (c, w, rej) ← build σ μ (← fld j "c") w rej; return (.hooked c id, w, rej)
  | "samp" => let (c, w, rej) ← build σ μ (← fld j "c") w rej; return (.sampler c id (boolD j "pass" false), w, rej)
  | "lazy" => let (c, w, rej) ← build σ μ (← fld j "c") w rej; return (.lazy id c (← parseFlds j "fs"), w, rej)
  | "with" =>
    let (c, w, rej) ← build σ μ (← fld j "c") w rej
    let (c', w') := coreWith μ c (← parseFlds j "fs") w
    return (c', w', rej)
  | _ => throw s!"node type {t}"

def descr (f : Fld) : String :=
  match f.kind with
  | 1 => s!"n{f.key}\{"
  | 2 => s!"i{f.key}={f.val.getD 0}"
  | 3 => s!"s{f.key}=v{f.val.getD 0}"
  | _ => match f.val, f.ref with
    | some v, _ => s!"k{f.key}={v}"
    | none, some r => s!"k{f.key}@{r}"
    | none, none => s!"k{f.key}"

def descrs (fs : List Fld) : String := ",".intercalate (fs.map descr)

def actionName : Action → String
  | .panic => "PANIC" | .fatal => "FATAL" | .goexit => "GOEXIT"
  | .custom 1 => "panic" | .custom 2 => "fatal" | .custom k => s!"custom{k}"

/-- the spy-visible events, in order (observer writes are reported separately) -/
def seqOf (name : String) (evs : List Ev) : List String :=
  evs.filterMap fun
    | .marshal _ f => if f.kind = 0 then some s!"m{f.key}" else none
    | .samp s b => some (s!"s{s}" ++ if b then "+" else "-")
    | .write id true fs => some s!"w{id}:{name}|{descrs fs}"
    | .write _ false _ => none
    | .sync id => some s!"y{id}"
    | .hook h => some s!"h{h}"
    | .term a => some ("t:" ++ actionName a)

def insertById (x : Nat × String) : List (Nat × String) → List (Nat × String)
  | [] => [x]
  | y :: r => if x.1 < y.1 then x :: y :: r else y :: insertById x r

def obsOf (name : String) (evs : List Ev) : Json :=
  let xs := evs.filterMap fun
    | .write id false fs => some (id, s!"{name}|{descrs fs}")
    | _ => none
  let sorted := xs.foldl (fun acc x => insertById x acc) []
  jarr (fun (p : Nat × String) => jarr Json.str [s!"o{p.1}", p.2]) sorted

def findFE (key : String) : R FrontEnd :=
  match Gen.frontEnds.find? (fun fe => fe.recv ++ "." ++ fe.name == key) with
  | some fe => pure fe
  | none => throw s!"front end {key} is not in Gen.frontEnds"

def setStore (σ : Store) (i : Nat) (t : Int) : Store := fun j => if j = i then t else σ j

def storeOf (ts : List Int) : Store := fun i => ts.getD i 0

def nameStr (n : List UInt8) : String := String.ofList (n.map fun b => Char.ofNat b.toNat)

end ZapVerif.Drv.CoreIO
