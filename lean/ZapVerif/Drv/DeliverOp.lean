import ZapVerif.Drv.Util
import ZapVerif.Model.Deliver
/-! parser of the core trees of the delivery ops (C10 `deliver`, C06 `failterm`) -/
namespace ZapVerif.Drv.DeliverOp
open Lean ZapVerif ZapVerif.Drv ZapVerif.Deliver

partial def parseCore (j : Json) : R Core := do
  let t ← str j "t"
  match t with
  | "io" =>
    let sinks ← (arrD j "sinks").toList.mapM (fun s => do
      pure (⟨natD s "id" 0, boolD s "werr" false, boolD s "serr" false⟩ : Sink))
    return .io (boolD j "enabled" false) sinks
  | "tee" => return .tee (← (arrD j "cs").toList.mapM parseCore)
  | "wrap" => return .wrap (← parseCore (← fld j "c"))
  | _ => throw s!"bad core {t}"

end ZapVerif.Drv.DeliverOp
