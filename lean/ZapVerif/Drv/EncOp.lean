import ZapVerif.Drv.Util
import ZapVerif.Model.Entry
import ZapVerif.Model.Console
import ZapVerif.Model.MapEnc
import ZapVerif.Model.Binary
import ZapVerif.Model.SubEnc
/-! parser of the encoder-family op format (shared by C01, C02, C10, C16) -/
namespace ZapVerif.Drv.EncOp
open Lean ZapVerif ZapVerif.Drv ZapVerif.Json ZapVerif.Enc ZapVerif.Entry

def decInt (j : Json) (k : String) : R Int := do
  let s ← str j k
  match s.toInt? with
  | some i => pure i
  | none => throw s!"bad int {s}"

def isNull (j : Json) (k : String) : Bool :=
  match j.getObjVal? k with
  | .ok Json.null => true
  | .ok _ => false
  | .error _ => true

def parseJsonLeaf (b : Bytes) : R J :=
  match parseV (b.length + 1) b with
  | some (j, []) => pure j
  | _ => throw s!"reflected leaf is not one JSON value: {b.toHex}"

def parseScalar (j : Json) : R Scalar := do
  if has j "s" then return .str (← hexFld j "s")
  if has j "bs" then return .str (← hexFld j "bs")
  if has j "i" then return .int (← decInt j "i")
  if has j "u" then return .uint (← decInt j "u").toNat
  if has j "b" then return .bool (boolD j "b" false)
  if has j "f" then
    let f ← fld j "f"
    return .float (boolD f "nan" false) (intD f "inf" 0) (hexFldD f "txt")
  if has j "c" then
    let c ← fld j "c"
    return .complex (hexFldD c "re") (hexFldD c "im") (boolD c "plus" false)
  throw s!"bad scalar {j.compress}"

def parseSub (j : Json) (encKind : String) (k : String) : R SubRes := do
  if encKind == "nil" then return .nilEnc
  if isNull j k then return .noop
  return .val (← parseScalar (← fld j k))

structure Kinds where
  timeEnc : String
  durEnc : String
  mapView : Bool := false   -- parse for the map encoder: a failed reflection is still a member there
  hasATL : Bool := true     -- the encoder handed to EncodeTime implements AppendTimeLayout (jsonEncoder: yes; console's slice encoder: no)

/-! The built-in sub-encoders whose output is integer/text-exact are COMPUTED by the model (`Model/SubEnc.lean`) from
    the raw values of the op; what the harness observed for them (`lvl`, `v`, `nameV`, `timeC`, …) is ignored.  The float
    encoders, the `time.Format` text and user functions stay parameters. -/

def lvlKind : String → Option SubEnc.LvlEnc
  | "lower" => some .lower
  | "capital" => some .capital
  | "color" => some .color
  | "capitalColor" => some .capitalColor
  | _ => none

def durKind : String → Option SubEnc.DurEnc
  | "nanos" => some .nanos
  | "millis" => some .millis
  | "string" => some .string
  | _ => none

def callerKind : String → Option SubEnc.CallerEnc
  | "full" => some .full
  | "short" => some .short
  | _ => none

def isLayoutKind (k : String) : Bool := k == "iso8601" || k == "rfc3339" || k == "rfc3339nano" || k == "layout"

/-- the observed parameter, parsed only when the kind is not computed -/
def observedSub (exact : Bool) (j : Json) (encKind k : String) : R SubRes :=
  if exact then pure .noop else parseSub j encKind k

def parseTimeV (ks : Kinds) (j : Json) : R TimeV := do
  let nanos ← decInt j "nanos"
  let exact := ks.timeEnc == "nanos"
  let observed ← observedSub exact j ks.timeEnc "v"
  -- layout-based encoders: `encodeTimeLayout` dispatches on the encoder; the formatted text is the parameter
  let observed := match isLayoutKind ks.timeEnc, observed with
    | true, .val (.str f) => (SubEnc.encodeTimeLayout ks.hasATL f).res
    | _, o => o
  return ⟨nanos, SubEnc.timeRes exact observed nanos⟩

def parsePrim (ks : Kinds) (j : Json) : R Prim := do
  if has j "t" then return .time (← parseTimeV ks (← fld j "t"))
  if has j "d" then
    let d ← fld j "d"
    let nanos ← decInt d "nanos"
    let k := durKind ks.durEnc
    return .dur ⟨nanos, SubEnc.durRes k (← observedSub k.isSome d ks.durEnc "v") nanos⟩
  if has j "j" then return .json (← parseJsonLeaf (← hexFld j "j"))
  return .scalar (← parseScalar j)

mutual
partial def parseOC (ks : Kinds) (j : Json) : R (List OC) := do
  let m ← str j "m"
  match m with
  | "add" => return [OC.prim (hexFldD j "key") (primJ (← parsePrim ks (← fld j "p")))]
  | "obj" => return [OC.obj (hexFldD j "key") (← parseOCs ks (arrD j "calls"))]
  | "arr" => return [OC.arr (hexFldD j "key") (← parseACs ks (arrD j "calls"))]
  | "ns" => return [OC.ns (hexFldD j "key")]
  | "refl" =>
    if isNull j "j" then return (if ks.mapView then [OC.prim (hexFldD j "key") (J.atom [])] else [])
    return [OC.prim (hexFldD j "key") (← parseJsonLeaf (← hexFld j "j"))]
  | _ => throw s!"bad call {m}"
partial def parseOCs (ks : Kinds) (a : Array Json) : R (List OC) := do
  let mut out := []
  for x in a do out := out ++ (← parseOC ks x)
  return out
partial def parseAC (ks : Kinds) (j : Json) : R (List AC) := do
  let m ← str j "m"
  match m with
  | "app" => return [AC.prim (primJ (← parsePrim ks (← fld j "p")))]
  | "obj" => return [AC.obj (← parseOCs ks (arrD j "calls"))]
  | "arr" => return [AC.arr (← parseACs ks (arrD j "calls"))]
  | "refl" =>
    if isNull j "j" then return (if ks.mapView then [AC.prim (J.atom [])] else [])
    return [AC.prim (← parseJsonLeaf (← hexFld j "j"))]
  | _ => throw s!"bad array call {m}"
partial def parseACs (ks : Kinds) (a : Array Json) : R (List AC) := do
  let mut out := []
  for x in a do out := out ++ (← parseAC ks x)
  return out
end

def optHex (j : Json) (k : String) : R (Option Bytes) := do
  if isNull j k then return none
  return some (← hexFld j k)

def parseOutcome (j : Json) : R Outcome := do
  if has j "ok" then return .ok (← hexFld j "ok")
  if has j "panic" then return .panic (← hexFld j "panic")
  return .nilRecv

partial def parseErrV (j : Json) : R ErrV := do
  let o ← parseOutcome (← fld j "o")
  let causes ← (arrD j "causes").toList.mapM parseErrV
  return .mk o (← optHex j "verbose") (boolD j "group" false) causes

partial def parseField (ks : Kinds) (j : Json) : R Field := do
  let f ← str j "f"
  let k := hexFldD j "key"
  match f with
  | "prim" =>
    -- zap.Binary: the model computes the base64 text from the raw payload (`bin`); the generator's own text (p.s) is ignored
    if has j "bin" then return binaryField k (← hexFld j "bin")
    return .prim k (← parsePrim ks (← fld j "p"))
  | "obj" => return .obj k (← parseOCs ks (arrD j "calls")) (← optHex j "err")
  | "arr" => return .arr k (← parseACs ks (arrD j "calls")) (← optHex j "err")
  | "inline" => return .inline k (← parseOCs ks (arrD j "calls")) (← optHex j "err")
  | "refl" =>
    if isNull j "j" then return .refl k none (hexFldD j "err")
    return .refl k (some (← parseJsonLeaf (← hexFld j "j"))) []
  | "stringer" => return .stringer k (← parseOutcome (← fld j "o"))
  | "error" => return .error k (← parseErrV (← fld j "e"))
  | "ns" => return .ns k
  | "skip" => return .skip
  | "errors" => return errorsField k (← (arrD j "errs").toList.mapM parseErrV)
  | "dict" =>
    let fs ← (arrD j "fields").toList.mapM (parseField ks)
    -- zap.Dict = Object(key, marshaler that AddTo's each field)
    return .obj k (if ks.mapView then fs.flatMap MapEnc.addToMap else addFields fs) none
  | _ => throw s!"bad field {f}"

structure Op where
  cfg : Cfg
  ent : Ent
  ctx : List (List Field)
  fields : List Field
  console : Bool
  consoleSep : Bytes
  cols : Console.Cols

def parseOp (op : Json) : R Op := do
  let c ← fld op "cfg"
  let console := boolD op "console" false
  let ks : Kinds := ⟨strD c "timeEnc" "nil", strD c "durEnc" "nil", false, !console⟩
  let cfg : Cfg := { messageKey := hexFldD c "mk", levelKey := hexFldD c "lk", timeKey := hexFldD c "tk",
                     nameKey := hexFldD c "nk", callerKey := hexFldD c "ck", functionKey := hexFldD c "fk",
                     stacktraceKey := hexFldD c "sk", lineEnding := hexFldD c "le", skipLineEnding := boolD c "skipLE" false }
  let e ← fld op "ent"
  let tj ← fld e "time"
  let time ← if boolD tj "zero" false then pure none else (do pure (some (← parseTimeV ks tj)))
  let cj ← fld e "caller"
  let level := intD e "level" 0
  let name := hexFldD e "name"
  let lk := lvlKind (strD c "lvlEnc" "nil")
  let ck := callerKind (strD c "callerEnc" "nil")
  let nameFull := strD c "nameEnc" "nil" == "nil" || strD c "nameEnc" "nil" == "full"
  let defined := boolD cj "defined" false
  let file := hexFldD cj "file"
  let line := intD cj "line" 0
  let lvlRes := SubEnc.lvlRes lk (← observedSub lk.isSome e (strD c "lvlEnc" "nil") "lvl") level
  let nameRes := SubEnc.nameRes nameFull (← observedSub nameFull e "x" "nameV") name
  let callerRes := SubEnc.callerRes ck (← observedSub ck.isSome cj (strD c "callerEnc" "nil") "v") defined file line
  let ent : Ent := { level := level, lvlRes := lvlRes, time := time, name := name, nameRes := nameRes,
                     callerDefined := defined, callerRes := callerRes,
                     callerStr := SubEnc.callerFull defined file line, function := hexFldD cj "fn",
                     message := hexFldD e "msg", stack := hexFldD e "stack" }
  let ctx ← (arrD op "ctx").toList.mapM (fun l => do
    let a ← l.getArr?
    a.toList.mapM (parseField ks))
  let fields ← (arrD op "fields").toList.mapM (parseField ks)
  -- console columns: fmt.Fprint of what the function appended — computed for the exact kinds
  let oTimeC ← optHex e "timeC"
  let oLvlC ← optHex e "lvlC"
  let oNameC ← optHex e "nameC"
  let oCallerC ← optHex e "callerC"
  let timeC := match time with
    | some t => if ks.timeEnc == "nanos" then SubEnc.colOf t.res none else oTimeC
    | none => none
  let lvlC := if lk.isSome then SubEnc.colOf lvlRes none else oLvlC
  let nameC := if nameFull then SubEnc.colOf nameRes none else oNameC
  let callerC := if ck.isSome then SubEnc.colOf callerRes none else oCallerC
  return { cfg, ent, ctx, fields, console := console, consoleSep := hexFldD c "sep",
           cols := ⟨timeC, lvlC, nameC, callerC⟩ }

/-- skeleton of the map `zapcore.MapObjectEncoder` builds for the op's context + call-site fields -/
partial def jskel : MapEnc.MV → Json
  | .leaf => Json.str "l"
  | .arr xs => obj [("a", Json.arr (xs.map jskel).toArray)]
  | .obj kvs =>
    let sorted := (kvs.map fun (k, v) => (k.toHex, jskel v)).toArray.qsort (fun a b => a.1 < b.1)
    obj [("o", Json.arr (sorted.map fun (k, v) => Json.arr #[Json.str k, v]))]

def mapSkeleton (op : Json) : R Json := do
  let c ← fld op "cfg"
  let ks : Kinds := { timeEnc := strD c "timeEnc" "nil", durEnc := strD c "durEnc" "nil", mapView := true }
  let ctx ← (arrD op "ctx").toList.mapM (fun l => do
    let a ← l.getArr?
    a.toList.mapM (parseField ks))
  let fields ← (arrD op "fields").toList.mapM (parseField ks)
  let calls := (ctx.flatten ++ fields).flatMap MapEnc.addToMap
  return jskel (.obj (MapEnc.mapFrom id [] calls))

def handle (op : Json) : R Json := do
  let o ← parseOp op
  if o.console then
    return obj [("line", jhex (Console.consoleLine o.cfg o.consoleSep o.ent o.cols o.ctx o.fields))]
  return obj [("line", jhex (jsonLine o.cfg o.ent o.ctx o.fields))]

end ZapVerif.Drv.EncOp
