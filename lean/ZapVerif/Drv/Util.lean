import Lean.Data.Json
import ZapVerif.Model.Bytes
/-! line-protocol helpers for the model driver (core-only) -/
namespace ZapVerif.Drv
open Lean

abbrev R := Except String

def fld (j : Json) (k : String) : R Json := j.getObjVal? k
def fldD (j : Json) (k : String) (d : Json) : Json := (j.getObjVal? k).toOption.getD d
def str (j : Json) (k : String) : R String := do (← fld j k).getStr?
def strD (j : Json) (k : String) (d : String) : String :=
  match (j.getObjVal? k) with | .ok v => (v.getStr?).toOption.getD d | _ => d
def nat (j : Json) (k : String) : R Nat := do (← fld j k).getNat?
def natD (j : Json) (k : String) (d : Nat) : Nat :=
  match (j.getObjVal? k) with | .ok v => (v.getNat?).toOption.getD d | _ => d
def int (j : Json) (k : String) : R Int := do (← fld j k).getInt?
def intD (j : Json) (k : String) (d : Int) : Int :=
  match (j.getObjVal? k) with | .ok v => (v.getInt?).toOption.getD d | _ => d
def boolD (j : Json) (k : String) (d : Bool) : Bool :=
  match (j.getObjVal? k) with | .ok v => (v.getBool?).toOption.getD d | _ => d
def arr (j : Json) (k : String) : R (Array Json) := do (← fld j k).getArr?
def arrD (j : Json) (k : String) : Array Json :=
  match (j.getObjVal? k) with | .ok v => (v.getArr?).toOption.getD #[] | _ => #[]
def has (j : Json) (k : String) : Bool := (j.getObjVal? k).toOption.isSome

def hexOf (s : String) : R Bytes :=
  match Bytes.ofHex s with | some b => pure b | none => throw s!"bad hex {s}"
def hexFld (j : Json) (k : String) : R Bytes := do hexOf (← str j k)
def hexFldD (j : Json) (k : String) : Bytes :=
  match str j k with | .ok s => (Bytes.ofHex s).getD [] | _ => []

def jhex (b : Bytes) : Json := Json.str b.toHex
def jnat (n : Nat) : Json := Json.num (JsonNumber.fromNat n)
def jint (n : Int) : Json := Json.num (JsonNumber.fromInt n)
def jbool (b : Bool) : Json := Json.bool b
def jarr {α} (f : α → Json) (xs : List α) : Json := Json.arr (xs.map f).toArray
def jopt {α} (f : α → Json) : Option α → Json | none => Json.null | some a => f a
def obj (kvs : List (String × Json)) : Json := Json.mkObj kvs

end ZapVerif.Drv
