import ZapVerif.Model.Bytes
/-! base64.StdEncoding (RFC 4648 §4, with `=` padding) as used by `jsonEncoder.AddBinary`
    (`enc.AddString(key, base64.StdEncoding.EncodeToString(val))`, zapcore/json_encoder.go) and the console/JSON
    array encoders.  Executable and core-only: the driver computes the text of a `zap.Binary` field from the raw
    payload with `b64enc`, so the correspondence check compares it with Go's encoding/base64 on every binary field. -/
namespace ZapVerif.B64
open ZapVerif

/-- the alphabet: value (< 64) → character -/
def chr (n : Nat) : UInt8 :=
  if n < 26 then UInt8.ofNat (65 + n)
  else if n < 52 then UInt8.ofNat (71 + n)       -- 'a' = 97 = 71 + 26
  else if n < 62 then UInt8.ofNat (n - 4)        -- '0' = 48 = 52 - 4
  else if n = 62 then 43 else 47

/-- character → value -/
def val (c : UInt8) : Option Nat :=
  let n := c.toNat
  if 65 ≤ n ∧ n ≤ 90 then some (n - 65)
  else if 97 ≤ n ∧ n ≤ 122 then some (n - 71)
  else if 48 ≤ n ∧ n ≤ 57 then some (n + 4)
  else if n = 43 then some 62
  else if n = 47 then some 63
  else none

def pad : UInt8 := 61

/-- `EncodeToString` -/
def b64enc : Bytes → Bytes
  | [] => []
  | [a] => [chr (a.toNat / 4), chr (a.toNat % 4 * 16), pad, pad]
  | [a, b] => [chr (a.toNat / 4), chr (a.toNat % 4 * 16 + b.toNat / 16), chr (b.toNat % 16 * 4), pad]
  | a :: b :: c :: r =>
    chr (a.toNat / 4) :: chr (a.toNat % 4 * 16 + b.toNat / 16) :: chr (b.toNat % 16 * 4 + c.toNat / 64)
      :: chr (c.toNat % 64) :: b64enc r

/-- `DecodeString` restricted to canonical input: whole quads, padding only in the last quad. Anything else is an
    error (`none`), never a default. -/
def b64dec : Bytes → Option Bytes
  | [] => some []
  | w :: x :: y :: z :: r =>
    if z = pad then
      if r ≠ [] then none
      else if y = pad then
        match val w, val x with
        | some p, some q => some [UInt8.ofNat (p * 4 + q / 16)]
        | _, _ => none
      else
        match val w, val x, val y with
        | some p, some q, some s => some [UInt8.ofNat (p * 4 + q / 16), UInt8.ofNat (q % 16 * 16 + s / 4)]
        | _, _, _ => none
    else
      match val w, val x, val y, val z, b64dec r with
      | some p, some q, some s, some t, some rest =>
        some (UInt8.ofNat (p * 4 + q / 16) :: UInt8.ofNat (q % 16 * 16 + s / 4) :: UInt8.ofNat (s % 4 * 64 + t) :: rest)
      | _, _, _, _, _ => none
  | _ => none

end ZapVerif.B64
