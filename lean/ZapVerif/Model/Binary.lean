import ZapVerif.Model.Entry
import ZapVerif.Model.Base64
/-! `zap.Binary` / `AddBinary`: the payload is logged as the string `base64.StdEncoding.EncodeToString(val)`
    (jsonEncoder.AddBinary → AddString). The base64 text is COMPUTED by the model from the raw payload. -/
namespace ZapVerif.Entry
open ZapVerif

def binaryPrim (raw : Bytes) : Prim := .scalar (.str (B64.b64enc raw))
def binaryField (k raw : Bytes) : Field := .prim k (binaryPrim raw)

end ZapVerif.Entry
