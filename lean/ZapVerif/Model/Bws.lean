import ZapVerif.Model.Bytes
/-! M9: `bufio.Writer` (Go standard library, src/bufio/bufio.go: `Write`, `Flush`, `Available`, `Buffered`, the sticky
error, short writes) and `zapcore.BufferedWriteSyncer` on top of it (zapcore/buffered_write_syncer.go).

The wrapped WriteSyncer is scripted: every `WS.Write` call consumes one `WOut` of `wscript` (exhausted ⇒ the call
takes everything and returns nil), every `WS.Sync` one Bool of `sscript` (exhausted ⇒ nil).  The sink records every
call it receives: `Ev.write p took` (the slice it was handed, how many bytes it reported) and `Ev.sync`.

Assumption on sinks (io.Writer contract): a `Write` of a non-empty slice never returns `(0, nil)` — the scripted
outcome is normalised to `(0, err)` on both sides; with such a sink the real `bufio.Writer.Write` would spin forever. -/
namespace ZapVerif.Bws

/-- error kinds a caller can see -/
inductive EK where
  | sink      -- the error returned by WS.Write
  | short     -- io.ErrShortWrite (WS.Write took fewer bytes and returned nil)
  | sync      -- the error returned by WS.Sync
deriving DecidableEq, Repr

/-- scripted result of one WS.Write call: take `min n len` bytes, return an error iff `err` -/
structure WOut where
  n : Nat
  err : Bool
deriving DecidableEq, Repr

inductive Ev where
  | write (p : Bytes) (took : Nat)
  | sync
deriving DecidableEq, Repr

structure St where
  size : Nat                  -- len(b.buf) of the bufio.Writer
  init : Bool := false        -- BufferedWriteSyncer.initialized
  stopped : Bool := false     -- BufferedWriteSyncer.stopped
  buf : Bytes := []           -- b.buf[:b.n]
  err : Option EK := none     -- b.err (sticky)
  sink : List Ev := []        -- calls received by WS, oldest first
  wscript : List WOut := []
  sscript : List Bool := []

/-- `Size`: 0 ⇒ `_defaultBufferSize` (256 kB); negative ⇒ bufio's `defaultBufSize` (4096) -/
def effSize (size : Int) : Nat := if size = 0 then 262144 else if size < 0 then 4096 else size.toNat

/-- `b.Available()` -/
def St.avail (s : St) : Nat := s.size - s.buf.length

/-- one `WS.Write(p)`: the new state, the count and whether an error is returned -/
def sinkWrite (s : St) (p : Bytes) : St × Nat × Bool :=
  let o := s.wscript.headD ⟨p.length, false⟩
  let took := min o.n p.length
  let e := o.err || (took == 0 && decide (p.length > 0))
  ({ s with sink := s.sink ++ [.write p took], wscript := s.wscript.tail }, took, e)

/-- `bufio.Writer.Flush` -/
def flush (s : St) : St × Option EK :=
  match s.err with
  | some e => (s, some e)                                   -- `if b.err != nil { return b.err }`
  | none =>
    if s.buf.isEmpty then (s, none)                         -- `if b.n == 0 { return nil }`
    else
      let r := sinkWrite s s.buf                            -- `n, err := b.wr.Write(b.buf[0:b.n])`
      let err : Option EK :=
        if r.2.2 then some .sink
        else if r.2.1 < s.buf.length then some .short       -- `if n < b.n && err == nil { err = io.ErrShortWrite }`
        else none
      match err with
      | some k => ({ r.1 with buf := s.buf.drop r.2.1, err := some k }, some k)   -- keep the unwritten tail, stick
      | none => ({ r.1 with buf := [] }, none)

/-- one pass through the body of the loop of `bufio.Writer.Write` (entered with `len(p) > b.Available()` and
    `b.err == nil`): the new state and the number `n` of bytes of `p` consumed -/
def loopBody (s : St) (p : Bytes) : St × Nat :=
  if s.buf.isEmpty then
    -- large write, empty buffer: `n, b.err = b.wr.Write(p)`
    let r := sinkWrite s p
    ({ r.1 with err := if r.2.2 then some .sink else none }, r.2.1)
  else
    -- `n = copy(b.buf[b.n:], p); b.n += n; b.Flush()`
    let n := s.avail
    ((flush { s with buf := s.buf ++ p.take n }).1, n)

/-- `bufio.Writer.Write`: the loop `for len(p) > b.Available() && b.err == nil`, with fuel; `nn` accumulates -/
def bwrite : Nat → St → Bytes → Nat → St × Nat × Option EK
  | 0, s, _, nn => (s, nn, s.err)
  | fuel + 1, s, p, nn =>
    if p.length > s.avail ∧ s.err = none then
      bwrite fuel (loopBody s p).1 (p.drop (loopBody s p).2) (nn + (loopBody s p).2)
    else
      match s.err with
      | some e => (s, nn, some e)                            -- `if b.err != nil { return nn, b.err }`
      | none => ({ s with buf := s.buf ++ p }, nn + p.length, none)

/-- enough fuel for any run of the loop -/
def fuelFor (p : Bytes) : Nat := p.length + 3

/-- `bufio.Writer.Write(p)` -/
def bufioWrite (s : St) (p : Bytes) : St × Nat × Option EK := bwrite (fuelFor p) s p 0

/-- `BufferedWriteSyncer.Write` -/
def write (s : St) (bs : Bytes) : St × Nat × Option EK :=
  let s0 := { s with init := true }                          -- `if !s.initialized { s.initialize() }`
  if bs.length > s0.avail ∧ s0.buf.length > 0 then
    match flush s0 with                                      -- flush first so that no write is split
    | (s1, some e) => (s1, 0, some e)
    | (s1, none) => bufioWrite s1 bs
  else bufioWrite s0 bs

/-- one `WS.Sync()` -/
def wsSync (s : St) : St × Bool :=
  ({ s with sink := s.sink ++ [.sync], sscript := s.sscript.tail }, s.sscript.headD false)

/-- `BufferedWriteSyncer.Sync`: `multierr.Append(flushErr, s.WS.Sync())` as its two parts
    (the error of `s.writer.Flush()`, whether `s.WS.Sync()` failed) -/
def sync (s : St) : St × Option EK × Bool :=
  let r := if s.init then flush s else (s, none)
  let r2 := wsSync r.1
  (r2.1, r.2, r2.2)

/-- the errors inside a `multierr` value, in order -/
def errList (e : Option EK × Bool) : List EK := e.1.toList ++ (if e.2 then [.sync] else [])

/-- a tick received by `flushLoop`: `_ = s.Sync()`; there is no loop before initialisation or after Stop -/
def tick (s : St) : St := if s.init && !s.stopped then (sync s).1 else s

/-- `BufferedWriteSyncer.Stop` (sequentially): nothing when not initialised or already stopped;
    otherwise mark stopped, end the loop, and `return s.Sync()` -/
def stop (s : St) : St × Option EK × Bool :=
  if !s.init || s.stopped then (s, none, false) else sync { s with stopped := true }

/-- the operations of a history -/
inductive Op where
  | write (bs : Bytes)
  | sync
  | tick
  | stop
deriving DecidableEq, Repr

/-- what the caller gets back -/
inductive Ret where
  | wrote (n : Nat) (e : Option EK)
  | errs (es : List EK)
  | nothing
deriving DecidableEq, Repr

def step (s : St) : Op → St × Ret
  | .write bs => let r := write s bs; (r.1, .wrote r.2.1 r.2.2)
  | .sync => let r := sync s; (r.1, .errs (errList r.2))
  | .tick => (tick s, .nothing)
  | .stop => let r := stop s; (r.1, .errs (errList r.2))

def run (s : St) : List Op → St
  | [] => s
  | o :: os => run (step s o).1 os

def runRets (s : St) : List Op → List Ret
  | [] => []
  | o :: os => (step s o).2 :: runRets (step s o).1 os

/-! ## observations -/

/-- the bytes the sink actually took, in order -/
def taken : List Ev → Bytes
  | [] => []
  | .write p k :: r => p.take k ++ taken r
  | .sync :: r => taken r

/-- the slices handed to `WS.Write`, in order -/
def sinkWrites : List Ev → List Bytes
  | [] => []
  | .write p _ :: r => p :: sinkWrites r
  | .sync :: r => sinkWrites r

/-- the caller writes of a history, in order -/
def writesOf : List Op → List Bytes
  | [] => []
  | .write bs :: r => bs :: writesOf r
  | _ :: r => writesOf r

/-- the bytes the caller was told were accepted (the first `n` bytes of every `Write` that returned `n`), in order -/
def accepted (s : St) : List Op → Bytes
  | [] => []
  | .write bs :: os => bs.take (write s bs).2.1 ++ accepted (write s bs).1 os
  | .sync :: os => accepted (sync s).1 os
  | .tick :: os => accepted (tick s) os
  | .stop :: os => accepted (stop s).1 os

/-- a freshly constructed `&BufferedWriteSyncer{WS: ws, Size: size}` over a sink with these scripts -/
def mk (size : Int) (ws : List WOut) (ss : List Bool) : St :=
  { size := effSize size, wscript := ws, sscript := ss }

end ZapVerif.Bws
