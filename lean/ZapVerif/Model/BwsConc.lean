/-! M9 (thread machine): the goroutines around one `zapcore.BufferedWriteSyncer` — any number of clients calling
`Write`, `Sync` and `Stop`, the flush goroutine (`flushLoop`), the ticker — as an interleaving machine over the
synchronisation objects of zapcore/buffered_write_syncer.go: `s.mu`, the `stop`, `done` and `flushed` channels,
the flags `initialized` / `stopped`.  One step = one synchronisation action (lock, unlock together with the
critical section it ends, channel close / receive).  The buffer itself is abstracted to three ghost counters
(`acc` = writes accepted, `flushed` = value of `acc` at the last completed flush, `accAtStop` = value of `acc` when
the shutdown was signalled); the byte-level behaviour inside a critical section is `ZapVerif.Bws`.

Two switches select the earlier shapes of `Stop` the theorems are sensitive to:
* `lockedWait` — wait for `done` while still holding `s.mu` (zap before the fix of issue 1428);
* `waitFlushed = false` — a `Stop` that finds the syncer already stopped returns at once instead of waiting for the
  `flushed` channel (zap before the repair of F11). -/
namespace ZapVerif.BwsConc

/-- where a client goroutine is inside one call -/
inductive CPc where
  | idle                    -- not in a call
  | wantW | inW             -- Write: `s.mu.Lock()` / the critical section (initialize on first use, buffer, deferred Unlock)
  | wantS | inS             -- Sync: `s.mu.Lock()` / flush + `WS.Sync()` under the lock
  | wantT | inT             -- Stop: `s.mu.Lock()` / the critical section (`stopped = true; ticker.Stop(); close(s.stop)`)
  | waitFlushed             -- Stop that found `stopped` set: `<-flushed` (after `s.mu.Unlock()`)
  | waitDone                -- Stop that shuts down: `<-s.done` after `s.mu.Unlock()`
  | inTwait                 -- variant `lockedWait`: `<-s.done` while still holding `s.mu`
  | wantF | inF             -- … its final `s.Sync()`
  | closeF                  -- … its deferred `close(s.flushed)`
  | retT                    -- Stop returns
deriving DecidableEq, Repr

/-- the flush goroutine -/
inductive LPc where
  | none_                   -- not started (not initialised)
  | select                  -- blocked in `select { case <-s.ticker.C: …; case <-s.stop: … }`
  | wantS | inS             -- its `s.Sync()`
  | finished                -- returned; `done` is closed (deferred `close(s.done)`)
deriving DecidableEq, Repr

/-- who holds `s.mu` -/
inductive Holder where
  | free
  | loop
  | client (i : Nat)
deriving DecidableEq, Repr

structure Cfg where
  n : Nat                   -- client goroutines 0 … n-1
  lockedWait : Bool := false
  waitFlushed : Bool := true
deriving Repr

structure St where
  cl : Nat → CPc
  loop : LPc := .none_
  mu : Holder := .free
  init : Bool := false            -- `s.initialized`
  stopped : Bool := false         -- `s.stopped`
  stopClosed : Bool := false      -- `s.stop` is closed
  flushedClosed : Bool := false   -- `s.flushed` is closed
  panicked : Bool := false        -- a `close` ran on a closed channel
  acc : Nat := 0                  -- ghost: number of completed `Write` critical sections
  flushed : Nat := 0              -- ghost: `acc` at the last completed flush
  accAtStop : Nat := 0            -- ghost: `acc` when `stopped` was set

def upd (f : Nat → CPc) (i : Nat) (v : CPc) : Nat → CPc := fun j => if j = i then v else f j

def init : St := { cl := fun _ => .idle }

/-- the next step of client `i` inside its current call; `none` = blocked (or idle) -/
def cstep (cfg : Cfg) (s : St) (i : Nat) : Option St :=
  match s.cl i with
  | .idle => none
  | .wantW => if s.mu = .free then some { s with cl := upd s.cl i .inW, mu := .client i } else none
  | .inW =>
    some { s with cl := upd s.cl i .idle, mu := .free, init := true,
                  loop := if s.init then s.loop else .select,     -- `go s.flushLoop()` in initialize()
                  acc := s.acc + 1 }
  | .wantS => if s.mu = .free then some { s with cl := upd s.cl i .inS, mu := .client i } else none
  | .inS => some { s with cl := upd s.cl i .idle, mu := .free, flushed := s.acc }
  | .wantT => if s.mu = .free then some { s with cl := upd s.cl i .inT, mu := .client i } else none
  | .inT =>
    if !s.init then
      some { s with cl := upd s.cl i .retT, mu := .free }         -- `return false`; `flushed` stays nil
    else if s.stopped then                                        -- `flushed = s.flushed; return false`
      some { s with cl := upd s.cl i (if cfg.waitFlushed then .waitFlushed else .retT), mu := .free }
    else if cfg.lockedWait then
      some { s with cl := upd s.cl i .inTwait, stopped := true, stopClosed := true,
                    panicked := s.panicked || s.stopClosed, accAtStop := s.acc }
    else
      some { s with cl := upd s.cl i .waitDone, mu := .free, stopped := true, stopClosed := true,
                    panicked := s.panicked || s.stopClosed, accAtStop := s.acc }
  | .waitFlushed => if s.flushedClosed then some { s with cl := upd s.cl i .retT } else none
  | .waitDone => if s.loop = .finished then some { s with cl := upd s.cl i .wantF } else none
  | .inTwait => if s.loop = .finished then some { s with cl := upd s.cl i .wantF, mu := .free } else none
  | .wantF => if s.mu = .free then some { s with cl := upd s.cl i .inF, mu := .client i } else none
  | .inF => some { s with cl := upd s.cl i .closeF, mu := .free, flushed := s.acc }
  | .closeF => some { s with cl := upd s.cl i .retT, flushedClosed := true, panicked := s.panicked || s.flushedClosed }
  | .retT => some { s with cl := upd s.cl i .idle }

/-- the next step of the flush goroutine that needs no tick -/
def lstep (s : St) : Option St :=
  match s.loop with
  | .select => if s.stopClosed then some { s with loop := .finished } else none
  | .wantS => if s.mu = .free then some { s with loop := .inS, mu := .loop } else none
  | .inS => some { s with loop := .select, mu := .free, flushed := s.acc }
  | _ => none

inductive Act where
  | write (i : Nat)         -- client i (idle) calls Write
  | sync (i : Nat)          -- … Sync
  | stop (i : Nat)          -- … Stop
  | client (i : Nat)        -- client i takes the next step of its call
  | tick                    -- the ticker fires and the `select` takes that case
  | loop                    -- the flush goroutine takes its next step
deriving DecidableEq, Repr

def start (cfg : Cfg) (s : St) (i : Nat) (pc : CPc) : Option St :=
  if s.cl i = .idle ∧ i < cfg.n then some { s with cl := upd s.cl i pc } else none

def step (cfg : Cfg) (s : St) : Act → Option St
  | .write i => start cfg s i .wantW
  | .sync i => start cfg s i .wantS
  | .stop i => start cfg s i .wantT
  | .client i => cstep cfg s i
  | .tick => if s.loop = .select then some { s with loop := .wantS } else none
  | .loop => lstep s

/-- the steps that need nothing from outside (no new call, no tick) -/
def Act.internal : Act → Bool
  | .client _ => true
  | .loop => true
  | _ => false

def runActs (cfg : Cfg) (s : St) : List Act → Option St
  | [] => some s
  | a :: as => match step cfg s a with
    | some s' => runActs cfg s' as
    | none => none

def Reach (cfg : Cfg) (s : St) : Prop := ∃ acts, runActs cfg init acts = some s

/-- holds `s.mu` as a client -/
def inCS : CPc → Bool
  | .inW | .inS | .inT | .inTwait | .inF => true
  | _ => false

/-- the `Stop` call that shuts the syncer down, between its critical section and its return -/
def shutting : CPc → Bool
  | .waitDone | .inTwait | .wantF | .inF | .closeF => true
  | _ => false

/-- nothing is in flight: every client is idle and the flush goroutine sits in its `select` (or does not exist) -/
def Quiescent (s : St) : Prop :=
  (∀ i, s.cl i = .idle) ∧ (s.loop = .none_ ∨ (s.loop = .select ∧ s.stopClosed = false) ∨ s.loop = .finished)

end ZapVerif.BwsConc
