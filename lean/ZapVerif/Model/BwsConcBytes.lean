import ZapVerif.Model.Bws
import ZapVerif.Model.BwsConc
/-! M9 (thread machine with bytes): the interleaving machine of `Model/BwsConc.lean` carrying the byte-level state of
`Model/Bws.lean` — the `bufio.Writer` buffer, its sticky error, the scripted sink and the list of calls the sink has
received.  Control (who is where, who holds `s.mu`, the channels and flags) is exactly `BwsConc.step`; on top of it
every critical section of `s.mu` executes its byte-level effect as ONE step at its end (deferred `Unlock`):

* `Write(bs)`            `Bws.write`     (initialise on first use, pre-flush, `bufio.Writer.Write`)
* `Sync()`               `Bws.sync`      (flush + `WS.Sync()`) — a client's `Sync`, the flush goroutine's tick-driven
                                         `s.Sync()`, and the final `s.Sync()` of the `Stop` that shuts down
* `Stop()` 1st section   `mark`          (`stopped = true` unless not initialised / already stopped)

That one step per critical section is justified by mutual exclusion (`C12.Conc.mutex_excl`) together with the extracted
skeleton (`C12.Conc.waits_outside_mu`, C09's lock-set table: every access to the buffer, the flags and the sink happens
under `s.mu`).  `Stop`'s final flush after `<-s.done` is a critical section of its own, as in the code, so other
goroutines' sections may come between the two halves of a `Stop`.

Ghost state records the linearization: `acqs` = operations in the order their critical sections ACQUIRED the mutex,
`hist` = the same list without the section currently in flight, `rets` = what each completed section returned. -/
namespace ZapVerif.BwsCB
open ZapVerif

/-- the operations of a linearized history: one per critical section of `s.mu` -/
inductive LOp where
  | write (bs : Bytes)
  | sync
  | mark
deriving DecidableEq, Repr

/-- first critical section of `Stop`: nothing when not initialised or already stopped, else `stopped = true`
    (and `ticker.Stop(); close(s.stop)`, which live in the control part) -/
def mark (s : Bws.St) : Bws.St := if !s.init || s.stopped then s else { s with stopped := true }

def lstep (s : Bws.St) : LOp → Bws.St × Bws.Ret
  | .write bs => ((Bws.write s bs).1, .wrote (Bws.write s bs).2.1 (Bws.write s bs).2.2)
  | .sync => ((Bws.sync s).1, .errs (Bws.errList (Bws.sync s).2))
  | .mark => (mark s, .nothing)

def lrun (s : Bws.St) : List LOp → Bws.St
  | [] => s
  | o :: os => lrun (lstep s o).1 os

def lrets (s : Bws.St) : List LOp → List Bws.Ret
  | [] => []
  | o :: os => (lstep s o).2 :: lrets (lstep s o).1 os

/-- the bytes the callers were told were accepted, in history order -/
def laccepted (s : Bws.St) : List LOp → Bytes
  | [] => []
  | .write bs :: os => bs.take (Bws.write s bs).2.1 ++ laccepted (Bws.write s bs).1 os
  | .sync :: os => laccepted (Bws.sync s).1 os
  | .mark :: os => laccepted (mark s) os

def lwritesOf : List LOp → List Bytes
  | [] => []
  | .write bs :: os => bs :: lwritesOf os
  | _ :: os => lwritesOf os

/-- a sequential history of `Model/Bws.lean` as a linearized one: a tick is the flush goroutine's `Sync` while it
    exists, `Stop` is its first section followed — when it shuts down — by the final `Sync` -/
def expand (s : Bws.St) : List Bws.Op → List LOp
  | [] => []
  | .write bs :: os => .write bs :: expand (Bws.write s bs).1 os
  | .sync :: os => .sync :: expand (Bws.sync s).1 os
  | .tick :: os => (if s.init && !s.stopped then [.sync] else []) ++ expand (Bws.tick s) os
  | .stop :: os => (if !s.init || s.stopped then [.mark] else [.mark, .sync]) ++ expand (Bws.stop s).1 os

/-! ## the machine -/

/-- who executed a critical section -/
inductive Who where
  | client (i : Nat)
  | loop
deriving DecidableEq, Repr

structure St where
  c : BwsConc.St                        -- control: pcs, mutex, channels, flags (and the counters of Part 2)
  d : Bws.St                            -- bytes: bufio buffer, sticky error, sink calls, sink scripts
  arg : Nat → Bytes                     -- the slice client i passed to the `Write` it is in
  acqs : List (Who × LOp) := []         -- ghost: sections in the order they acquired `s.mu`
  hist : List (Who × LOp) := []         -- ghost: completed sections (same order)
  rets : List Bws.Ret := []             -- ghost: what each completed section returned
  markLen : Nat := 0                    -- ghost: `hist.length` right after the section that set `stopped`
  finalSt : Option Bws.St := none       -- ghost: the byte state right after the shutting-down Stop's final Sync
  finalLen : Nat := 0                   -- ghost: `hist.length` at that moment

inductive Act where
  | write (i : Nat) (bs : Bytes)        -- client i (idle) calls Write(bs)
  | sync (i : Nat)
  | stop (i : Nat)
  | client (i : Nat)                    -- client i takes the next step of its call
  | tick
  | loop
deriving DecidableEq, Repr

def Act.ctl : Act → BwsConc.Act
  | .write i _ => .write i
  | .sync i => .sync i
  | .stop i => .stop i
  | .client i => .client i
  | .tick => .tick
  | .loop => .loop

def Act.internal (a : Act) : Bool := a.ctl.internal

/-- a section acquires the mutex -/
def acq (s : St) (c' : BwsConc.St) (w : Who) (o : LOp) : St :=
  { s with c := c', acqs := s.acqs ++ [(w, o)] }

/-- a section ends: its byte-level effect, atomically -/
def fin (s : St) (c' : BwsConc.St) (w : Who) (o : LOp) : St :=
  { s with c := c', d := (lstep s.d o).1, hist := s.hist ++ [(w, o)], rets := s.rets ++ [(lstep s.d o).2] }

/-- the byte-level part of a step whose control part led to `c'` -/
def effect (s : St) (c' : BwsConc.St) : Act → St
  | .write i bs => { s with c := c', arg := fun j => if j = i then bs else s.arg j }
  | .sync _ => { s with c := c' }
  | .stop _ => { s with c := c' }
  | .tick => { s with c := c' }
  | .client i =>
    match s.c.cl i with
    | .wantW => acq s c' (.client i) (.write (s.arg i))
    | .inW => fin s c' (.client i) (.write (s.arg i))
    | .wantS => acq s c' (.client i) .sync
    | .inS => fin s c' (.client i) .sync
    | .wantT => acq s c' (.client i) .mark
    | .inT => { fin s c' (.client i) .mark with
                markLen := if !s.d.init || s.d.stopped then s.markLen else s.hist.length + 1 }
    | .wantF => acq s c' (.client i) .sync
    | .inF => { fin s c' (.client i) .sync with finalSt := some (Bws.sync s.d).1, finalLen := s.hist.length + 1 }
    | _ => { s with c := c' }
  | .loop =>
    match s.c.loop with
    | .wantS => acq s c' .loop .sync
    | .inS => fin s c' .loop .sync
    | _ => { s with c := c' }

def step (cfg : BwsConc.Cfg) (s : St) (a : Act) : Option St :=
  match BwsConc.step cfg s.c a.ctl with
  | none => none
  | some c' => some (effect s c' a)

def init (d0 : Bws.St) : St := { c := BwsConc.init, d := d0, arg := fun _ => [] }

def runActs (cfg : BwsConc.Cfg) (s : St) : List Act → Option St
  | [] => some s
  | a :: as => match step cfg s a with
    | some s' => runActs cfg s' as
    | none => none

/-- reachable from a fresh `&BufferedWriteSyncer{WS: sink, Size: size}` over the scripted sink `d0` -/
def Reach (cfg : BwsConc.Cfg) (d0 : Bws.St) (s : St) : Prop := ∃ acts, runActs cfg (init d0) acts = some s

def ops (h : List (Who × LOp)) : List LOp := h.map (·.2)

/-- **the linearization of a schedule**: its critical sections in the order they acquired the mutex -/
def linearization (cfg : BwsConc.Cfg) (d0 : Bws.St) (acts : List Act) : List (Who × LOp) :=
  match runActs cfg (init d0) acts with
  | some s => s.acqs
  | none => []

/-- the operation a client executes in the critical section it is in -/
def opOf (pc : BwsConc.CPc) (arg : Bytes) : LOp :=
  match pc with
  | .inW => .write arg
  | .inT => .mark
  | _ => .sync

/-- the section in flight, if any -/
def inflight (s : St) : List (Who × LOp) :=
  match s.c.mu with
  | .free => []
  | .loop => [(.loop, .sync)]
  | .client i => [(.client i, opOf (s.c.cl i) (s.arg i))]

end ZapVerif.BwsCB
