/-! Lock-set reading of the synchronisation skeletons extracted by `gen/bwsfacts.go` (`Gen/BwsFacts.lean`):
    which mutexes a goroutine holds when it reaches each event of a method. -/
namespace ZapVerif.BwsSkel

abbrev Ev := String × String

/-- event kinds that open a block closed by a later `end` -/
def opens (k : String) : Bool :=
  k == "if" || k == "else" || k == "for" || k == "select" || k == "func-call" || k == "func-value" ||
  k == "defer" || k == "go-body" || k == "block"

/-- a function literal's body: deferred calls run when it ends -/
def isFunc (k : String) : Bool := k == "func-call" || k == "func-value" || k == "go-body"

structure Scope where
  func : Bool
  deferred : List String

/-- record a deferred unlock at the innermost enclosing function literal (method level: released at the end of
    the method, after every event of the skeleton) -/
def addDefer (x : String) : List Scope → List Scope
  | [] => []
  | sc :: r => if sc.func then { sc with deferred := x :: sc.deferred } :: r else sc :: addDefer x r

/-- each event together with the mutexes held when it executes (straight-line reading: a `return` inside a block
    ends that path, the events after the block belong to the paths that did not return) -/
def heldAt : List Ev → List String → List Scope → List (Ev × List String)
  | [], _, _ => []
  | (k, a) :: r, held, st =>
    ((k, a), held) ::
      (if k == "lock" then heldAt r (a :: held) st
       else if k == "unlock" then heldAt r (held.erase a) st
       else if k == "defer-unlock" then heldAt r held (addDefer a st)
       else if opens k then heldAt r held (⟨isFunc k, []⟩ :: st)
       else if k == "end" then
         match st with
         | [] => heldAt r held []
         | sc :: st' => heldAt r (held.filter fun x => !sc.deferred.contains x) st'
       else heldAt r held st)

/-- the lock sets under which event `e` occurs in the skeleton `sk` (one entry per occurrence) -/
def heldWhen (sk : List Ev) (e : Ev) : List (List String) :=
  ((heldAt sk [] []).filter (·.1 == e)).map (·.2)

end ZapVerif.BwsSkel
