/-! Shared byte-string vocabulary of the models (core-only). -/
namespace ZapVerif

abbrev Bytes := List UInt8

def hexDigit (n : Nat) : Char :=
  if n < 10 then Char.ofNat (48 + n) else Char.ofNat (87 + n)

def Bytes.toHex (bs : Bytes) : String :=
  String.ofList (bs.flatMap fun b => [hexDigit (b.toNat / 16), hexDigit (b.toNat % 16)])

def hexVal (c : Char) : Option Nat :=
  if '0' ≤ c ∧ c ≤ '9' then some (c.toNat - 48)
  else if 'a' ≤ c ∧ c ≤ 'f' then some (c.toNat - 87)
  else if 'A' ≤ c ∧ c ≤ 'F' then some (c.toNat - 55)
  else none

def hexDecodeAux : List Char → Option Bytes
  | [] => some []
  | [_] => none
  | a :: b :: r => do
    let x ← hexVal a
    let y ← hexVal b
    let rest ← hexDecodeAux r
    pure (UInt8.ofNat (x * 16 + y) :: rest)

def Bytes.ofHex (s : String) : Option Bytes := hexDecodeAux s.toList

def Bytes.ofString (s : String) : Bytes := s.toUTF8.toList

end ZapVerif
