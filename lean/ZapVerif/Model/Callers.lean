import ZapVerif.Gen.Callers
import ZapVerif.Model.Bytes
/-! # caller and stack annotation (logger.go:check, internal/stacktrace/stack.go, global.go, exp/zapslog) — core-only

A goroutine stack is a list of frames, innermost first, exactly as `runtime.Callers(0, …)` followed by
`runtime.CallersFrames` would enumerate it from inside `stacktrace.Capture`: `[runtime.Callers, Capture, check, …]`.
The frame type is a parameter: nothing here looks inside a frame. Every skip constant comes from `Gen.Callers`
(re-read from the source on each run); the two stdlib-internal depths are named constants of this file. -/
namespace ZapVerif.Callers
open ZapVerif.Gen.Callers

variable {F : Type}

/-- `runtime.Callers(skip, pcs)` with `len(pcs) = cap`: the frames written -/
def callers (st : List F) (skip cap : Nat) : List F := (st.drop skip).take cap

/-- the `for numFrames == len(pcs) { pcs = make(len*growFactor); … }` loop of `Capture(…, Full)`; `none` = fuel exhausted -/
def captureLoop (st : List F) (skip : Nat) : (fuel cap : Nat) → Option (List F)
  | 0, cap => if (callers st skip cap).length = cap then none else some (callers st skip cap)
  | fuel+1, cap =>
    if (callers st skip cap).length = cap then captureLoop st skip fuel (growFactor * cap)
    else some (callers st skip cap)

/-- `stacktrace.Capture(skip, depth)` seen from a stack whose head is `runtime.Callers`; `slab` = length of the pooled storage -/
def capture (st : List F) (skip : Nat) (full : Bool) (slab : Nat) : Option (List F) :=
  if full then captureLoop st (skip + captureCallersOffset) st.length slab
  else some (callers st (skip + captureCallersOffset) 1)

/-- `Formatter.FormatStack`: every remaining frame except the one for which `Next` reports `more = false` -/
def formatStack (frames : List F) : List F := frames.dropLast

/-- Logger.check: `FormatFrame(first)`, then `FormatStack` of the rest when there is more -/
def formatFrom (frames : List F) : List F :=
  match frames with
  | [] => []
  | f :: rest => f :: formatStack rest

structure Annot (F : Type) where
  caller : Option F := none
  stack : Option (List F) := none

/-- the annotation part of `Logger.check` for an entry that will be written -/
def annotate (callerSkip : Int) (addCaller addStack : Bool) (slab : Nat) (st : List F) : Annot F :=
  if ¬ addCaller ∧ ¬ addStack then {}
  else
    match capture st (callerSkip + callerSkipOffset).toNat addStack slab with
    | none => {}
    | some [] => {}          -- `stack.Count() == 0`: "failed to get caller"
    | some (f :: rest) =>
      { caller := if addCaller then some f else none,
        stack := if addStack then some (formatFrom (f :: rest)) else none }

/-! ## loggers and derivations -/

structure Logger where
  callerSkip : Int := 0
  sugared : Bool := false
deriving DecidableEq, Repr

inductive Deriv where
  | sugar | desugar
  | with_ | withLazy | named
  | withOptions (skips : List Int)   -- the AddCallerSkip options among the options applied
deriving DecidableEq, Repr

/-- `none`: the method does not exist on that logger type -/
def Deriv.apply (l : Logger) : Deriv → Option Logger
  | .sugar => if l.sugared then none else some { callerSkip := l.callerSkip + sugarDelta, sugared := true }
  | .desugar => if l.sugared then some { callerSkip := l.callerSkip - desugarDelta, sugared := false } else none
  | .with_ | .withLazy | .named => some l
  | .withOptions ks => some { l with callerSkip := l.callerSkip + ks.sum }

def run : List Deriv → Logger → Option Logger
  | [], l => some l
  | d :: ds, l => (d.apply l).bind (run ds)

def Deriv.skips : Deriv → Int
  | .withOptions ks => ks.sum
  | _ => 0

def sumSkips (ds : List Deriv) : Int := (ds.map Deriv.skips).sum

/-! ## front ends: the zap (and stdlib) frames between `Logger.check` and the frame that called the front end -/

/-- `log.(*Logger).output` and `log.(*Logger).Print*`/`log.Print*` (stdlib-internal; validated by Corr only) -/
def stdlibLogFrames : Nat := 2
/-- `slog.(*Logger).log` and `slog.(*Logger).<Level>`/`slog.<Level>` (stdlib-internal; validated by Corr only) -/
def stdlibSlogFrames : Nat := 2

inductive FrontEnd where
  | logger (m : String)      -- exported *Logger method calling check directly (incl. Check, whose CheckedEntry the user writes)
  | sugar (m : String)       -- exported *SugaredLogger logging method
  | stdlog                   -- log.Logger built by NewStdLog / NewStdLogAt / RedirectStdLog, through Print*/(*Logger).Output
  | stdlogDeep               -- the same through Panic*/Fatal*/package-level Output (one more frame of package log since Go 1.21)
  | diagWith                 -- a sweetenFields diagnostic issued under With / WithLazy
  | diagLog                  -- a sweetenFields diagnostic issued under a *w method
deriving DecidableEq, Repr

def FrontEnd.onSugared : FrontEnd → Bool
  | .logger _ | .stdlog | .stdlogDeep => false
  | _ => true

/-- is the method there at all (regenerated tables) -/
def FrontEnd.known : FrontEnd → Bool
  | .logger m => loggerMethods.any (·.1 == m)
  | .sugar m => sugarMethods.any (·.name == m)
  | _ => true

/-- frames strictly between `check` and the caller of the front end -/
def FrontEnd.zapFrames : FrontEnd → Nat
  | .logger _ => 1                                  -- the method itself
  | .sugar _ => 1 + sugarLogToCheck                 -- method → log/logln → Logger.Check
  | .stdlog => 1 + 1 + stdlibLogFrames              -- Logger.<Level>, loggerWriter.Write, log.output, log.Print
  | .stdlogDeep => 1 + 1 + stdlibLogFrames + 1      -- … log.output, log.(*Logger).Output, log.Panic
  | .diagWith => 1 + 1 + 1                          -- Logger.Error, sweetenFields, With
  | .diagLog => 1 + 1 + 1 + 1                       -- Logger.Error, sweetenFields, log/logln, the method

/-- the caller skip the front end adds on top of the logger's own -/
def FrontEnd.extraSkip : FrontEnd → Nat
  | .stdlog | .stdlogDeep => stdLogDefaultDepth + loggerWriterDepth
  | .diagWith => sweetenSkipWith
  | .diagLog => sweetenSkipLog
  | _ => 0

/-- the stack inside Capture: runtime.Callers, Capture, check, the front end's frames, then the caller's side -/
def stackOf (pre : List F) (zap : List F) (userSide : List F) : List F := pre ++ zap ++ userSide

/-- one logging call through a front end: `pre` = `[runtime.Callers, Capture, check]`, `zap` = the front end's frames -/
def logVia (l : Logger) (fe : FrontEnd) (addCaller addStack : Bool) (slab : Nat) (pre zap userSide : List F) : Annot F :=
  annotate (l.callerSkip + fe.extraSkip) addCaller addStack slab (stackOf pre zap userSide)

/-! ## slog handler: caller = the pc slog recorded; stack = `stacktrace.Take(slogTakeSkip + callerSkip)` -/

/-- `stacktrace.Take(skip)` seen from a stack whose head is `runtime.Callers`: `[runtime.Callers, Capture, Take, …]` -/
def take (st : List F) (skip : Nat) (slab : Nat) : Option (List F) :=
  (capture st (skip + takeOffset) true slab).map formatStack

def slogHandle (callerSkip : Nat) (addCaller addStack : Bool) (recorded : Option F) (slab : Nat) (st : List F) : Annot F :=
  { caller := if addCaller then recorded else none,
    stack := if addStack then take st (slogTakeSkip + callerSkip) slab else none }

/-! ## when annotations are attached (the level part of Logger.check) -/

structure LevelCfg where
  coreMin : Int               -- the core enables levels ≥ coreMin
  stackLevels : Int → Bool    -- the AddStacktrace enabler

/-- the entry is written -/
def LevelCfg.will (c : LevelCfg) (lvl : Int) : Bool := decide (c.coreMin ≤ lvl)

/-- `Logger.check` as far as annotations go: nothing for an entry that is not written; the stack is requested
    iff the AddStacktrace enabler accepts the level -/
def checkAnnot (c : LevelCfg) (lvl : Int) (callerSkip : Int) (addCaller : Bool) (slab : Nat) (st : List F) : Option (Annot F) :=
  if c.will lvl then some (annotate callerSkip addCaller (c.stackLevels lvl) slab st) else none

/-! ## zapcore.EntryCaller: FullPath / TrimmedPath -/

/-- `strings.LastIndexByte` -/
def lastIndexOf (b : UInt8) : Bytes → Option Nat
  | [] => none
  | c :: r =>
    match lastIndexOf b r with
    | some i => some (i + 1)
    | none => if c = b then some 0 else none

def itoa (n : Nat) : Bytes := Bytes.ofString (toString n)

def slash : UInt8 := 47

/-- the file part of TrimmedPath: everything after the penultimate '/', or the whole path when there are fewer than two -/
def trimmedFile (file : Bytes) : Bytes :=
  match lastIndexOf slash file with
  | none => file
  | some idx =>
    match lastIndexOf slash (file.take idx) with
    | none => file
    | some idx2 => file.drop (idx2 + 1)

def fullPath (defined : Bool) (file : Bytes) (line : Nat) : Bytes :=
  if defined then file ++ [58] ++ itoa line else Bytes.ofString "undefined"

def trimmedPath (defined : Bool) (file : Bytes) (line : Nat) : Bytes :=
  if defined then trimmedFile file ++ [58] ++ itoa line else Bytes.ofString "undefined"

end ZapVerif.Callers
