import ZapVerif.Model.Entry
/-! M6: the console encoder (zapcore/console_encoder.go): metadata columns printed raw with `fmt.Fprint`,
    joined by the separator, then the message, then the context as one spaced JSON object, then the stack. -/
namespace ZapVerif.Console
open ZapVerif ZapVerif.Json ZapVerif.Enc ZapVerif.Entry

/-- `fmt.Fprint` text of what each configured sub-encoder appended to the slice encoder
    (none = the function is nil or appended nothing) -/
structure Cols where
  time : Option Bytes
  level : Option Bytes
  name : Option Bytes
  caller : Option Bytes

def optL (o : Option Bytes) : List Bytes := match o with | some b => [b] | none => []

/-- the columns present, in the fixed order time, level, name, caller, function -/
def columns (c : Cfg) (e : Ent) (k : Cols) : List Bytes :=
  (if !c.timeKey.isEmpty && e.time.isSome then optL k.time else []) ++
  (if !c.levelKey.isEmpty then optL k.level else []) ++
  (if !e.name.isEmpty && !c.nameKey.isEmpty then optL k.name else []) ++
  (if e.callerDefined then
     (if !c.callerKey.isEmpty then optL k.caller else []) ++
     (if !c.functionKey.isEmpty then [e.function] else [])
   else [])

def joinSep (sepc : Bytes) : List Bytes → Bytes
  | [] => []
  | [x] => x
  | x :: y :: r => x ++ sepc ++ joinSep sepc (y :: r)

/-- `addSeparatorIfNecessary` -/
def sepIf (sepc line : Bytes) : Bytes := if line.isEmpty then line else line ++ sepc

/-- `writeContext`: the JSON object of context + call-site fields (spaced), empty when nothing was written -/
def contextBytes (ctx : List (List Field)) (fields : List Field) : Bytes :=
  let e := runO true (ctxEnc true ctx) (addFields fields)
  e.buf ++ List.replicate e.openNs 125

def consoleLine (c : Cfg) (sepRaw : Bytes) (e : Ent) (k : Cols) (ctx : List (List Field)) (fields : List Field) : Bytes :=
  let sepc := if sepRaw.isEmpty then [9] else sepRaw
  let l1 := joinSep sepc (columns c e k)
  let l2 := if !c.messageKey.isEmpty then sepIf sepc l1 ++ e.message else l1
  let cb := contextBytes ctx fields
  let l3 := if cb.isEmpty then l2 else sepIf sepc l2 ++ 123 :: (cb ++ [125])
  let l4 := if !e.stack.isEmpty && !c.stacktraceKey.isEmpty then l3 ++ 10 :: e.stack else l3
  l4 ++ c.ending

end ZapVerif.Console
