/-! M7: the zapcore core algebra, the Logger's `check` and the terminal-action logic (core-only).

mirrors  zapcore/core.go (ioCore, nopCore) · zapcore/tee.go · zapcore/hook.go · zapcore/increase_level.go ·
         zapcore/sampler.go (decision = oracle bit) · zapcore/lazy_with.go (REPAIRED shape: level check on the original
         core before `initOnce`) · zaptest/observer/observer.go · zapcore/level.go:LevelOf · zapcore/entry.go
         (CheckedEntry.AddCore/After/Write) · logger.go (check, terminalHookOverride) · options.go (With*Hook).

Conventions
* `Level = Int` (the code's int8; nothing here depends on the width), valid levels are −1 … 5, `InvalidLevel = 6`.
* an enabler is an arbitrary predicate (`fn`, covers `LevelEnablerFunc` and the static `zapcore.Level`) or a shared
  `AtomicLevel` cell `atomic i` read from the store `σ` at the moment of the call.
* a core is a tree; io/observer leaves carry their accumulated context; `Core.With` is the push-down `pushF`.
* `lazyWithCore` = `lazy cell c pfs`: the once-cell lives in the snapshot map `Snap` (cell ↦ the pending fields as
  they were resolved when the cell was first forced), because derived loggers *share* the cell. A forced lazy core
  behaves as `c.With(pfs)`; the model fuses `c.With(a).With(b)` into one push-down of `a ++ b` (`pend`).
* field values: a field either carries a constant or reads a mutable cell `ref k` when it is marshaled
  (`Fld.resolve μ`); io leaves store resolved fields (bytes are fixed at `With` time), observers keep the reference.
-/
namespace ZapVerif.Cores

abbrev Level := Int
abbrev Store := Nat → Level

def debugL : Level := -1
def errorL : Level := 2
def dpanicL : Level := 3
def panicL : Level := 4
def fatalL : Level := 5
def invalidL : Level := 6

/-- `_minLevel … _maxLevel` in scan order (zapcore/level.go:LevelOf) -/
def validLevels : List Level := [-1, 0, 1, 2, 3, 4, 5]

def inRange (l : Level) : Bool := decide (-1 ≤ l) && decide (l ≤ 5)

/-- the scan of `LevelOf` for enablers without a `Level()` method -/
def leastValid (p : Level → Bool) : Level := (validLevels.find? p).getD invalidL

inductive Enab where
  | fn (f : Level → Bool)
  | atomic (i : Nat)

def Enab.on (σ : Store) : Enab → Level → Bool
  | .fn f, l => f l
  | .atomic i, l => decide (σ i ≤ l)

/-- `LevelOf(enabler)`: AtomicLevel has `Level()`, anything else is scanned -/
def Enab.levelOf (σ : Store) : Enab → Level
  | .fn f => leastValid f
  | .atomic i => σ i

/-! ## fields -/

structure Fld where
  kind : Nat := 0              -- 0 object marshaler (observable marshaling) · 1 namespace · 2 int · 3 string
  key : Nat
  ref : Option Nat := none     -- some k: a mutable marshaler, reads cell k whenever it is marshaled
  val : Option Nat := none     -- the value an encoder saw (set by `resolve`), or the constant of an int/string field
deriving DecidableEq, Repr, Inhabited

/-- valuation of the mutable cells read by `ref` fields -/
abbrev Val := Nat → Nat

def Fld.resolve (μ : Val) (f : Fld) : Fld :=
  match f.ref with
  | some k => { f with ref := none, val := some (μ k) }
  | none => f

/-- a field as handed to `With`: what an observer stores (`raw`) and what an encoder serialises (`res`) -/
structure FldP where
  raw : Fld
  res : Fld
deriving DecidableEq, Repr

def FldP.pick (io : Bool) (p : FldP) : Fld := if io then p.res else p.raw

def FldP.now (μ : Val) (f : Fld) : FldP := ⟨f, f.resolve μ⟩

/-- once-cells of the lazy cores: `none` = not initialised, `some r` = the pending fields resolved at init time -/
abbrev Snap := Nat → Option (List Fld)

def Snap.set (s : Snap) (cell : Nat) (r : List Fld) : Snap := fun j => if j = cell then some r else s j

def cellPairs (sn : Snap) (cell : Nat) (pfs : List Fld) : List FldP :=
  match sn cell with
  | some r => List.zipWith FldP.mk pfs r
  | none => pfs.map fun f => ⟨f, f⟩        -- unreachable: every reader forces the cell first (`Forced`)

/-! ## cores -/

inductive Core where
  | leaf (id : Nat) (en : Enab) (io : Bool) (ctx : List Fld)   -- ioCore (io) / contextObserver
  | nop
  | tee (cs : List Core)
  | incr (c : Core) (en : Enab)                                -- levelFilterCore
  | hooked (c : Core) (h : Nat)
  | sampler (c : Core) (s : Nat) (pass : Bool)                 -- pass = the sampling decision for in-range levels
  | lazy (cell : Nat) (c : Core) (pfs : List Fld)

/-- an entry of `CheckedEntry.cores` -/
inductive Item where
  | leaf (id : Nat) (io : Bool) (ctx : List Fld)
  | hook (h : Nat)
deriving DecidableEq, Repr

inductive Action where
  | panic | fatal | goexit | custom (k : Nat)
deriving DecidableEq, Repr

inductive Ev where
  | marshal (leaf : Nat) (f : Fld)            -- Field.AddTo on an encoder (With, lazy init, or EncodeEntry)
  | samp (s : Nat) (sampled : Bool)           -- sampler decision callback
  | write (leaf : Nat) (io : Bool) (fields : List Fld)
  | sync (leaf : Nat)
  | hook (h : Nat)                            -- entry hook (zap.Hooks / RegisterHooks)
  | term (a : Action)                         -- CheckWriteHook.OnWrite: control is lost here
deriving DecidableEq, Repr

mutual
def enabled (σ : Store) : Core → Level → Bool
  | .leaf _ en _ _, l => en.on σ l
  | .nop, _ => false
  | .tee cs, l => enabledAny σ cs l
  | .incr _ en, l => en.on σ l
  | .hooked c _, l => enabled σ c l
  | .sampler c _ _, l => enabled σ c l
  | .lazy _ c _, l => enabled σ c l
def enabledAny (σ : Store) : List Core → Level → Bool
  | [], _ => false
  | c :: cs, l => enabled σ c l || enabledAny σ cs l
end

mutual
/-- `LevelOf(core)`; `multiCore.Level` is the REPAIRED one (starts from `InvalidLevel`) -/
def levelOf (σ : Store) : Core → Level
  | .leaf _ en _ _ => en.levelOf σ
  | .nop => invalidL                                    -- no Level(): scan finds nothing
  | .tee cs => levelOfAll σ cs
  | .incr _ en => en.levelOf σ
  | .hooked c _ => levelOf σ c
  | .sampler c _ _ => levelOf σ c
  | .lazy _ c _ => leastValid (enabled σ c)             -- no Level(): scan of Enabled
def levelOfAll (σ : Store) : List Core → Level
  | [] => invalidL
  | c :: cs => min (levelOf σ c) (levelOfAll σ cs)
end

/-- `NewIncreaseLevelCore`: refused (the caller keeps the inner core) when the new enabler enables a valid level that
    the core does not -/
def incrValid (σ : Store) (c : Core) (en : Enab) : Bool :=
  validLevels.all fun l => !(en.on σ l) || enabled σ c l

def mkIncr (σ : Store) (c : Core) (en : Enab) : Core := if incrValid σ c en then .incr c en else c

/-- `NewTee` -/
def mkTee : List Core → Core
  | [] => .nop
  | [c] => c
  | cs => .tee cs

/-- what the un-repaired `multiCore.Level` computes (starts from `_maxLevel`) -/
def levelOfAllOld (σ : Store) : List Core → Level
  | [] => fatalL
  | c :: cs => min (levelOf σ c) (levelOfAllOld σ cs)

mutual
/-- `Core.Check`: the accumulator is `CheckedEntry.cores` (nil ≙ []); `pend` = fields of forced lazy cores above
    that the leaves below have absorbed. `hooked` is the REPAIRED rule (core count grew). -/
def check (σ : Store) (sn : Snap) (l : Level) : Core → List FldP → List Item → List Item
  | .leaf id en io ctx, pend, ce =>
      if en.on σ l then ce ++ [.leaf id io (ctx ++ pend.map (·.pick io))] else ce
  | .nop, _, ce => ce
  | .tee cs, pend, ce => checkAll σ sn l cs pend ce
  | .incr c en, pend, ce => if en.on σ l then check σ sn l c pend ce else ce
  | .hooked c h, pend, ce =>
      let d := check σ sn l c pend ce
      if d.length > ce.length then d ++ [.hook h] else d
  | .sampler c _ pass, pend, ce =>
      if !enabled σ c l then ce
      else if inRange l && !pass then ce
      else check σ sn l c pend ce
  | .lazy cell c pfs, pend, ce =>
      if !enabled σ c l then ce
      else check σ sn l c (cellPairs sn cell pfs ++ pend) ce
def checkAll (σ : Store) (sn : Snap) (l : Level) : List Core → List FldP → List Item → List Item
  | [], _, ce => ce
  | c :: cs, pend, ce => checkAll σ sn l cs pend (check σ sn l c pend ce)
end

/-- the un-repaired `hooked.Check` (hook added whenever the downstream CheckedEntry is non-nil), for the F4 witness -/
def hookedOld (d ce : List Item) (h : Nat) : List Item := if d ≠ [] then d ++ [.hook h] else ce

/-! ## side effects: the world `W` = once-cells + event trace -/

structure W where
  snap : Snap := fun _ => none
  evs : List Ev := []

def W.emit (w : W) (es : List Ev) : W := { w with evs := w.evs ++ es }

mutual
/-- effects of `c.With(fs)` (`fs` already resolved): every lazy core below is forced, innermost first, and every io
    leaf marshals the fields. -/
def withEv (μ : Val) : Core → List Fld → W → W
  | .leaf id _ io _, fs, w => if io then w.emit (fs.map (Ev.marshal id)) else w
  | .nop, _, w => w
  | .tee cs, fs, w => withEvAll μ cs fs w
  | .incr c _, fs, w => withEv μ c fs w
  | .hooked c _, fs, w => withEv μ c fs w
  | .sampler c _ _, fs, w => withEv μ c fs w
  | .lazy cell c pfs, fs, w =>
      let w1 := match w.snap cell with
        | some _ => w
        | none =>
          let r := pfs.map (Fld.resolve μ)
          let w' := withEv μ c r w                       -- initOnce: originalCore.With(pending)
          { w' with snap := w'.snap.set cell r }
      withEv μ c fs w1                                   -- d.core.With(fs)
def withEvAll (μ : Val) : List Core → List Fld → W → W
  | [], _, w => w
  | c :: cs, fs, w => withEvAll μ cs fs (withEv μ c fs w)
end

/-- `initOnce` of a lazy core -/
def forceCell (μ : Val) (cell : Nat) (c : Core) (pfs : List Fld) (w : W) : W :=
  match w.snap cell with
  | some _ => w
  | none =>
    let r := pfs.map (Fld.resolve μ)
    let w' := withEv μ c r w
    { w' with snap := w'.snap.set cell r }

mutual
/-- side effects of `Core.Check` at level `l`: sampler decisions and lazy initialisation, in call order -/
def checkEv (σ : Store) (μ : Val) (l : Level) : Core → W → W
  | .leaf _ _ _ _, w => w
  | .nop, w => w
  | .tee cs, w => checkEvAll σ μ l cs w
  | .incr c en, w => if en.on σ l then checkEv σ μ l c w else w
  | .hooked c _, w => checkEv σ μ l c w
  | .sampler c s pass, w =>
      if !enabled σ c l then w
      else if inRange l then
        (if pass then checkEv σ μ l c (w.emit [.samp s true]) else w.emit [.samp s false])
      else checkEv σ μ l c w
  | .lazy cell c pfs, w =>
      if !enabled σ c l then w
      else checkEv σ μ l c (forceCell μ cell c pfs w)
def checkEvAll (σ : Store) (μ : Val) (l : Level) : List Core → W → W
  | [], w => w
  | c :: cs, w => checkEvAll σ μ l cs (checkEv σ μ l c w)
end

mutual
/-- effects of `Core.Sync()`: every wrapper relays it (tee to every branch, in order; `lazyWithCore.Sync` initialises the
    core first), every ioCore syncs its sink, observers and the nop core do nothing. -/
def syncEv (μ : Val) : Core → W → W
  | .leaf id _ io _, w => if io then w.emit [.sync id] else w
  | .nop, w => w
  | .tee cs, w => syncEvAll μ cs w
  | .incr c _, w => syncEv μ c w
  | .hooked c _, w => syncEv μ c w
  | .sampler c _ _, w => syncEv μ c w
  | .lazy cell c pfs, w => syncEv μ c (forceCell μ cell c pfs w)
def syncEvAll (μ : Val) : List Core → W → W
  | [], w => w
  | c :: cs, w => syncEvAll μ cs (syncEv μ c w)
end

mutual
/-- the io leaves of a core, in tree order -/
def ioLeaves : Core → List Nat
  | .leaf id _ io _ => if io then [id] else []
  | .nop => []
  | .tee cs => ioLeavesAll cs
  | .incr c _ => ioLeaves c
  | .hooked c _ => ioLeaves c
  | .sampler c _ _ => ioLeaves c
  | .lazy _ c _ => ioLeaves c
def ioLeavesAll : List Core → List Nat
  | [] => []
  | c :: cs => ioLeaves c ++ ioLeavesAll cs
end

mutual
/-- the core returned by `c.With(fs)` (pure part; read after `withEv` forced the cells) -/
def pushF (sn : Snap) : Core → List FldP → Core
  | .leaf id en io ctx, fs => .leaf id en io (ctx ++ fs.map (·.pick io))
  | .nop, _ => .nop
  | .tee cs, fs => .tee (pushFAll sn cs fs)
  | .incr c en, fs => .incr (pushF sn c fs) en
  | .hooked c h, fs => .hooked (pushF sn c fs) h
  | .sampler c s p, fs => .sampler (pushF sn c fs) s p
  | .lazy cell c pfs, fs => pushF sn c (cellPairs sn cell pfs ++ fs)     -- d.core.With(fs): no longer lazy
def pushFAll (sn : Snap) : List Core → List FldP → List Core
  | [], _ => []
  | c :: cs, fs => pushF sn c fs :: pushFAll sn cs fs
end

/-- `Core.With(fs)` at valuation `μ`: new core and the world after the call -/
def coreWith (μ : Val) (c : Core) (fs : List Fld) (w : W) : Core × W :=
  let w' := withEv μ c (fs.map (Fld.resolve μ)) w
  (pushF w'.snap c (fs.map (FldP.now μ)), w')

/-! ## Logger -/

/-- the `onPanic` / `onFatal` option values -/
inductive HookCfg where
  | unset                 -- nil
  | noop                  -- zapcore.WriteThenNoop
  | act (a : Action)      -- WriteThenGoexit / WriteThenPanic / WriteThenFatal
  | custom (k : Nat)      -- any other CheckWriteHook
deriving DecidableEq, Repr

/-- logger.go:terminalHookOverride -/
def override (dflt : Action) : HookCfg → Action
  | .unset => dflt
  | .noop => dflt
  | .act a => a
  | .custom k => .custom k

structure Logger where
  core : Core
  dev : Bool := false
  onPanic : HookCfg := .unset
  onFatal : HookCfg := .unset
  name : List UInt8 := []

structure CE where
  items : List Item
  after : Option Action
deriving DecidableEq, Repr

/-- the `switch ent.Level` of `Logger.check` -/
def Logger.terminal (lg : Logger) (l : Level) : Option Action :=
  if l = panicL then some (override .panic lg.onPanic)
  else if l = fatalL then some (override .fatal lg.onFatal)
  else if l = dpanicL then (if lg.dev then some (override .panic lg.onPanic) else none)
  else none

/-- logger.go:Logger.check -/
def Logger.check (σ : Store) (μ : Val) (lg : Logger) (l : Level) (w : W) : Option CE × W :=
  if decide (l < dpanicL) && !enabled σ lg.core l then (none, w)
  else
    let w' := checkEv σ μ l lg.core w
    let items := Cores.check σ w'.snap l lg.core [] []
    let after := lg.terminal l
    if items = [] ∧ after = none then (none, w') else (some ⟨items, after⟩, w')

/-- one `Core.Write` of `CheckedEntry.Write` -/
def writeItem (μ : Val) (l : Level) (fs : List Fld) : Item → List Ev
  | .leaf id io ctx =>
      if io then
        (fs.map fun f => Ev.marshal id (f.resolve μ)) ++ [.write id true (ctx ++ fs.map (Fld.resolve μ))] ++
          (if l > errorL then [.sync id] else [])
      else [.write id false (ctx ++ fs)]
  | .hook h => [.hook h]

/-- the `hook.OnWrite` at the end of `CheckedEntry.Write` -/
def termEvs : Option Action → List Ev
  | some a => [.term a]
  | none => []

/-- zapcore/entry.go:CheckedEntry.Write -/
def CE.write (μ : Val) (l : Level) (fs : List Fld) (ce : CE) : List Ev :=
  ce.items.flatMap (writeItem μ l fs) ++ termEvs ce.after

/-- `if ce := log.check(lvl, msg); ce != nil { ce.Write(fields...) }` -/
def Logger.log (σ : Store) (μ : Val) (lg : Logger) (l : Level) (fs : List Fld) (w : W) : W :=
  match lg.check σ μ l w with
  | (none, w') => w'
  | (some ce, w') => w'.emit (ce.write μ l fs)

/-! ## front ends (rows come from Gen/FrontEnds) -/

/-- a guard expression on the chain from an exported method to `Logger.check`; the only facts it may consult are
    "is the level below DPanic" and "does the core enable the level" -/
inductive G where
  | enabled               -- X.Enabled(lvl)
  | ltDPanic              -- lvl < DPanicLevel
  | geDPanic              -- lvl >= DPanicLevel
  | not (g : G)
  | and (a b : G)
  | or (a b : G)
deriving DecidableEq, Repr

def G.eval (lt en : Bool) : G → Bool
  | .enabled => en
  | .ltDPanic => lt
  | .geDPanic => !lt
  | .not g => !(g.eval lt en)
  | .and a b => a.eval lt en && b.eval lt en
  | .or a b => a.eval lt en || b.eval lt en

/-- `skipIf = true`: `if g { return }`; `false`: `if g { …delegate… }` -/
structure Guard where
  skipIf : Bool
  g : G
deriving DecidableEq, Repr

def Guard.pass (lt en : Bool) (gd : Guard) : Bool := if gd.skipIf then !(gd.g.eval lt en) else gd.g.eval lt en

structure FrontEnd where
  recv : String
  name : String
  level : Option Level          -- none: the level is a parameter of the method
  guards : List Guard           -- every guard from the exported method down to (and including) Logger.check
  chain : List String
deriving Repr

def FrontEnd.takes (fe : FrontEnd) (l : Level) : Bool :=
  match fe.level with
  | some k => decide (k = l)
  | none => true

def FrontEnd.passes (fe : FrontEnd) (σ : Store) (c : Core) (l : Level) : Bool :=
  fe.guards.all (Guard.pass (decide (l < dpanicL)) (enabled σ c l))

/-- the body of `Logger.check` after its own guard (already part of `fe.guards`) -/
def Logger.checked (σ : Store) (μ : Val) (lg : Logger) (l : Level) (fs : List Fld) (w : W) : W :=
  let w' := checkEv σ μ l lg.core w
  let items := Cores.check σ w'.snap l lg.core [] []
  w'.emit (CE.write μ l fs ⟨items, lg.terminal l⟩)

/-- a call of front end `fe` at level `l` -/
def FrontEnd.run (fe : FrontEnd) (σ : Store) (μ : Val) (lg : Logger) (l : Level) (fs : List Fld) (w : W) : W :=
  if fe.passes σ lg.core l then lg.checked σ μ l fs w else w

/-! ## names -/

/-- logger.go:Named -/
def named (name s : List UInt8) : List UInt8 :=
  if s = [] then name else if name = [] then s else name ++ [46] ++ s

end ZapVerif.Cores
