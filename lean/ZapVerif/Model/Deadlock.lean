/-! M10 (blocking part): goroutines as straight-line programs of lock operations; a scheduler picks any
    enabled goroutine.  `wait` stands for every blocking operation that is not a lock acquisition
    (channel receive, WaitGroup.Wait, …): whether it is ready is up to the environment. -/
namespace ZapVerif.Deadlock

inductive Op where
  | acq (m : Nat)
  | rel (m : Nat)
  | other            -- any non-blocking step
  | wait             -- a blocking operation other than Lock
deriving DecidableEq, Repr

structure St where
  prog : Nat → List Op
  held : Nat → List Nat

def upd {α} (f : Nat → α) (t : Nat) (v : α) : Nat → α := fun i => if i = t then v else f i

def isHeld (ts : List Nat) (s : St) (m : Nat) : Bool := ts.any fun u => (s.held u).contains m

/-- can goroutine t take its next step? (`ready` = the environment's answer for a `wait`) -/
def enabled (ts : List Nat) (ready : Nat → Bool) (s : St) (t : Nat) : Bool :=
  match s.prog t with
  | [] => false
  | .acq m :: _ => !isHeld ts s m
  | .wait :: _ => ready t
  | _ => true

def step (s : St) (t : Nat) : St :=
  match s.prog t with
  | [] => s
  | .acq m :: r => { prog := upd s.prog t r, held := upd s.held t (m :: s.held t) }
  | .rel m :: r => { prog := upd s.prog t r, held := upd s.held t ((s.held t).erase m) }
  | _ :: r => { s with prog := upd s.prog t r }

/-- the static discipline of one goroutine's remaining program, given the locks it holds:
    locks are acquired in strictly increasing rank, only held locks are released, nothing blocks inside
    a critical section except an (ordered) acquire, and everything is released at the end -/
def okProg : List Nat → List Op → Bool
  | h, [] => h.isEmpty
  | h, .acq m :: r => h.all (· < m) && okProg (m :: h) r
  | h, .rel m :: r => h.contains m && okProg (h.erase m) r
  | h, .other :: r => okProg h r
  | h, .wait :: r => h.isEmpty && okProg h r

def Inv (ts : List Nat) (s : St) : Prop := ∀ t ∈ ts, okProg (s.held t) (s.prog t) = true

def run (s : St) : List Nat → St
  | [] => s
  | t :: sched => run (step s t) sched

end ZapVerif.Deadlock
