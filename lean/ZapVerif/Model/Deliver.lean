import ZapVerif.Model.Entry
/-! M7 (delivery part used by C10): `CheckedEntry.Write`, `ioCore.Write`, `multiCore.Write`,
    `multiWriteSyncer.Write` under failing sinks; and `zap.Stringers` under panicking elements. -/
namespace ZapVerif.Deliver
open ZapVerif ZapVerif.Enc ZapVerif.Entry

/-- one underlying sink and the scripted outcome of its Write / Sync -/
structure Sink where
  id : Nat
  writeErr : Bool
  syncErr : Bool

inductive Core where
  | io (enabled : Bool) (sinks : List Sink)   -- ioCore over one sink or a multiWriteSyncer of several
  | tee (cs : List Core)                      -- multiCore
  | wrap (c : Core)                           -- a wrapping core that adds ITSELF in Check and delegates Write

mutual
def enabled : Core → Bool
  | .io en _ => en
  | .tee cs => anyEnabled cs
  | .wrap c => enabled c
def anyEnabled : List Core → Bool
  | [] => false
  | c :: r => enabled c || anyEnabled r
end

mutual
/-- `Core.Check`: the cores that add themselves to the CheckedEntry, in order -/
def accepted : Core → List Core
  | .io en sinks => if en then [.io en sinks] else []
  | .tee cs => acceptedL cs
  | .wrap c => if enabled c then [.wrap c] else []
def acceptedL : List Core → List Core
  | [] => []
  | c :: r => accepted c ++ acceptedL r
end

mutual
/-- `Core.Write` called directly: every sink underneath receives the entry, whatever the others returned
    (`ioCore.Write` does not re-check the level; `multiCore.Write` and `multiWriteSyncer.Write` visit all) -/
def sinksOf : Core → List Sink
  | .io _ sinks => sinks
  | .tee cs => sinksOfL cs
  | .wrap c => sinksOf c
def sinksOfL : List Core → List Sink
  | [] => []
  | c :: r => sinksOf c ++ sinksOfL r
end

/-- result of one log call: sinks that received the line, sinks whose write error is reported, and the number of
    lines written to the logger's ErrorOutput -/
structure Outcome where
  delivered : List Nat
  reported : List Nat
  errorLines : Nat
deriving DecidableEq

def logOnce (c : Core) : Outcome :=
  let sinks := (accepted c).flatMap sinksOf
  let errs := (sinks.filter (·.writeErr)).map (·.id)
  ⟨sinks.map (·.id), errs, if errs.isEmpty then 0 else 1⟩

/-- what `CheckedEntry.Write` does, in order, for a checked entry whose cores are `accepted c`: every sink under every
    accepting core is written (errors are only collected), then ONE line on the ErrorOutput if any write failed, then
    — unconditionally — the terminal hook (`ce.after`: panic / exit / custom) when one was set by `Logger.check` -/
inductive DEv where
  | wrote (sink : Nat)
  | errLine
  | term
deriving DecidableEq, Repr

def ceWrite (c : Core) (after : Bool) : List DEv :=
  let sinks := (accepted c).flatMap sinksOf
  sinks.map (fun s => DEv.wrote s.id)
    ++ (if (sinks.filter (·.writeErr)).isEmpty then [] else [DEv.errLine])
    ++ (if after then [DEv.term] else [])

mutual
/-- the sinks that `ioCore.Write` has SYNCED when an entry above ErrorLevel was written through the core: an io core
    syncs (all of) its sinks after the write exactly when the (multi-)write returned no error — a short COUNT without an
    error is not an error (`multiWriteSyncer.Write` reports counts as they are) -/
def syncedOf : Core → List Nat
  | .io _ sinks => if sinks.all (fun s => !s.writeErr) then sinks.map (·.id) else []
  | .tee cs => syncedOfL cs
  | .wrap c => syncedOf c
def syncedOfL : List Core → List Nat
  | [] => []
  | c :: r => syncedOf c ++ syncedOfL r
end

/-- sinks synced when the terminal hook runs (levels DPanic, Panic, Fatal are all above ErrorLevel) -/
def syncedAtTerminal (c : Core) : List Nat := (accepted c).flatMap syncedOf

/-! ### zap.Stringers -/

/-- elements appended before the first element whose `String()` panics with a non-nil receiver, and the error
    the array marshaler returns; a nil-pointer element is rendered "<nil>" like a single Stringer field -/
def stringersBody : List Entry.Outcome → List AC × Option Bytes
  | [] => ([], none)
  | .ok s :: r => let p := stringersBody r; (AC.prim (Json.J.str (esc s)) :: p.1, p.2)
  | .nilRecv :: r => let p := stringersBody r; (AC.prim (Json.J.str (esc nilText)) :: p.1, p.2)
  | .panic m :: _ => ([], some (panicText m))

def stringersField (k : Bytes) (os : List Entry.Outcome) : Field :=
  let p := stringersBody os
  .arr k p.1 p.2

end ZapVerif.Deliver
