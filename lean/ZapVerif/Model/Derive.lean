import ZapVerif.Model.Core
/-! C07: derivation programs over loggers (core-only).

mirrors  logger.go (With, WithLazy, Named, WithOptions(Fields), Sugar/Desugar, clone) · sugar.go (With, WithLazy, Named) ·
         exp/zapslog/handler.go (WithAttrs, WithGroup, Handle — plain attributes and non-empty group names only; slog's
         group/empty-attribute rules are C18's).

A node is a logger (or a slog handler over a logger's core). A derivation path is a list of segments; `derive` is what
the real calls build from the root core, `segPairs` is the context the path denotes. -/
namespace ZapVerif.Derive
open ZapVerif ZapVerif.Cores

/-- one context-adding step of a derivation path -/
inductive Seg where
  | eager (fs : List FldP)                   -- With / Fields / WithAttrs: evaluated when derived
  | lazy (cell : Nat) (pfs : List Fld)       -- WithLazy: evaluated when the cell is first forced

/-- the core a path builds from the root core -/
def derive (sn : Snap) (c : Core) : List Seg → Core
  | [] => c
  | .eager fs :: r => derive sn (pushF sn c fs) r
  | .lazy cell pfs :: r => derive sn (.lazy cell c pfs) r

/-- the context a path denotes -/
def segPairs (sn : Snap) : List Seg → List FldP
  | [] => []
  | .eager fs :: r => fs ++ segPairs sn r
  | .lazy cell pfs :: r => cellPairs sn cell pfs ++ segPairs sn r

/-- the dot-joined non-empty names of a path -/
def joinNames : List (List UInt8) → List UInt8
  | [] => []
  | s :: r => named s (joinNames r)

def pathName (root : List UInt8) (segs : List (List UInt8)) : List UInt8 := segs.foldl named root

/-! ## the machine the correspondence run executes -/

structure Node where
  lg : Logger
  slog : Bool := false
  groups : List Nat := []          -- slog: groups opened by WithGroup and not yet applied

structure St where
  nodes : Array Node
  w : W := {}
  μ : Val := fun _ => 0
  next : Nat := 1000               -- fresh once-cells for WithLazy

inductive Step where
  | withF (p : Nat) (fs : List Fld)          -- Logger.With / SugaredLogger.With
  | fieldsOpt (p : Nat) (fs : List Fld)      -- WithOptions(Fields(fs...))
  | lazyF (p : Nat) (fs : List Fld)          -- WithLazy (both loggers)
  | named (p : Nat) (s : List UInt8)
  | clone (p : Nat)                          -- Sugar / Desugar / WithOptions()
  | log (p : Nat) (l : Level) (fs : List Fld)
  | mut (k v : Nat)
  | shandler (p : Nat)                       -- zapslog.NewHandler(p.Core())
  | sattrs (p : Nat) (fs : List Fld)         -- Handler.WithAttrs
  | sgroup (p : Nat) (g : Nat)               -- Handler.WithGroup
  | slog (p : Nat) (l : Level) (fs : List Fld)

def nsFld (g : Nat) : Fld := { kind := 1, key := g }

/-- the fields a slog handler hands to the core for attributes `fs` -/
def slogFields (groups : List Nat) (fs : List Fld) : List Fld :=
  if fs ≠ [] ∧ groups ≠ [] then groups.map nsFld ++ fs else fs

/-- Handler.Handle: `ce := core.Check(ent, nil); if ce == nil { return }; ce.Write(fields...)` — no level pre-check,
    no terminal action -/
def slogHandle (σ : Store) (μ : Val) (c : Core) (l : Level) (fs : List Fld) (w : W) : W :=
  let w' := checkEv σ μ l c w
  let items := check σ w'.snap l c [] []
  w'.emit (items.flatMap (writeItem μ l fs))

def St.node (s : St) (p : Nat) : Node := s.nodes.getD p { lg := { core := .nop } }

def step (σ : Store) (s : St) : Step → St
  | .withF p fs =>
      let n := s.node p
      if fs = [] then { s with nodes := s.nodes.push n }
      else
        let (c', w') := coreWith s.μ n.lg.core fs s.w
        { s with nodes := s.nodes.push { n with lg := { n.lg with core := c' } }, w := w' }
  | .fieldsOpt p fs =>
      let n := s.node p
      let (c', w') := coreWith s.μ n.lg.core fs s.w
      { s with nodes := s.nodes.push { n with lg := { n.lg with core := c' } }, w := w' }
  | .lazyF p fs =>
      let n := s.node p
      if fs = [] then { s with nodes := s.nodes.push n }
      else { s with nodes := s.nodes.push { n with lg := { n.lg with core := .lazy s.next n.lg.core fs } }, next := s.next + 1 }
  | .named p nm =>
      let n := s.node p
      { s with nodes := s.nodes.push { n with lg := { n.lg with name := named n.lg.name nm } } }
  | .clone p => { s with nodes := s.nodes.push (s.node p) }
  | .log p l fs => { s with w := (s.node p).lg.log σ s.μ l fs s.w }
  | .mut k v => { s with μ := fun j => if j = k then v else s.μ j }
  | .shandler p =>
      let n := s.node p
      { s with nodes := s.nodes.push { lg := { n.lg with name := [] }, slog := true, groups := [] } }
  | .sattrs p fs =>
      let n := s.node p
      let (c', w') := coreWith s.μ n.lg.core (slogFields n.groups fs) s.w
      let groups' := if fs ≠ [] ∧ n.groups ≠ [] then [] else n.groups
      { s with nodes := s.nodes.push { n with lg := { n.lg with core := c' }, groups := groups' }, w := w' }
  | .sgroup p g =>
      let n := s.node p
      { s with nodes := s.nodes.push { n with groups := n.groups ++ [g] } }
  | .slog p l fs =>
      let n := s.node p
      { s with w := slogHandle σ s.μ n.lg.core l (slogFields n.groups fs) s.w }

end ZapVerif.Derive
