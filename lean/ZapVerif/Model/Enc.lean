import ZapVerif.Model.Json
/-! M2/M3: the JSON encoder as a streaming machine over *call trees*.

`OC`/`AC` are every sequence of `ObjectEncoder`/`ArrayEncoder` calls a marshaler (or `Field.AddTo`) can make,
nested to any depth; quantifying over call trees is how "all marshalers" becomes a `∀`.  Leaves carry the value
as emitted (`J`): strings with their escaped body, scalars with their token text, reflected values as the tree
`encoding/json` produced.  `runO`/`runA` mirror zapcore/json_encoder.go: `addKey`, `addElementSeparator` (which
decides from the LAST BYTE of the buffer), `AppendObject`'s save/zero/restore of `openNamespaces`,
`closeOpenNamespaces`.  `outO`/`outA` is the compositional output function the machine is proved equal to. -/
namespace ZapVerif.Enc
open ZapVerif ZapVerif.Esc ZapVerif.Json

mutual
inductive OC where
  | prim (k : Bytes) (v : J)          -- AddX(key, value)
  | obj (k : Bytes) (body : List OC)  -- AddObject(key, m): `body` = the calls m.MarshalLogObject made
  | arr (k : Bytes) (body : List AC)  -- AddArray(key, m)
  | ns (k : Bytes)                    -- OpenNamespace(key)
inductive AC where
  | prim (v : J)                      -- AppendX(value)
  | obj (body : List OC)              -- AppendObject(m)
  | arr (body : List AC)              -- AppendArray(m)
end

/-- `safeAddString` on a whole string -/
def esc (s : Bytes) : Bytes := escape s.length s

structure Enc where
  buf : Bytes
  openNs : Nat

/-- bytes after which `addElementSeparator` adds nothing: `{ [ : , space` -/
def skip (b : UInt8) : Bool := b == 123 || b == 91 || b == 58 || b == 44 || b == 32

/-- `addElementSeparator` -/
def sep (sp : Bool) (buf : Bytes) : Bytes :=
  match buf.getLast? with
  | none => buf
  | some b => if skip b then buf else buf ++ (if sp then [44, 32] else [44])

def colon (sp : Bool) : Bytes := if sp then [58, 32] else [58]

/-- `addKey` -/
def addKey (sp : Bool) (buf k : Bytes) : Bytes := sep sp buf ++ 34 :: (esc k ++ 34 :: colon sp)

mutual
def runO (sp : Bool) (e : Enc) : List OC → Enc
  | [] => e
  | OC.prim k v :: r => runO sp { e with buf := sep sp (addKey sp e.buf k) ++ render v } r
  | OC.ns k :: r => runO sp { buf := addKey sp e.buf k ++ [123], openNs := e.openNs + 1 } r
  | OC.obj k body :: r =>
      let b0 := sep sp (addKey sp e.buf k) ++ [123]
      let e1 := runO sp { buf := b0, openNs := 0 } body
      runO sp { buf := e1.buf ++ 125 :: List.replicate e1.openNs 125, openNs := e.openNs } r
  | OC.arr k body :: r =>
      let b0 := sep sp (addKey sp e.buf k) ++ [91]
      let b1 := runA sp b0 body
      runO sp { e with buf := b1 ++ [93] } r
def runA (sp : Bool) (buf : Bytes) : List AC → Bytes
  | [] => buf
  | AC.prim v :: r => runA sp (sep sp buf ++ render v) r
  | AC.obj body :: r =>
      let e1 := runO sp { buf := sep sp buf ++ [123], openNs := 0 } body
      runA sp (e1.buf ++ 125 :: List.replicate e1.openNs 125) r
  | AC.arr body :: r => runA sp (runA sp (sep sp buf ++ [91]) body ++ [93]) r
end

/-! ### compositional output -/

def comma (sp first : Bool) : Bytes := if first then [] else if sp then [44, 32] else [44]

def keyOut (sp : Bool) (k : Bytes) : Bytes := 34 :: (esc k ++ 34 :: colon sp)

mutual
/-- bytes emitted by a call list and the number of namespaces it leaves open -/
def outO (sp first : Bool) : List OC → Bytes × Nat
  | [] => ([], 0)
  | OC.prim k v :: r =>
      let p := outO sp false r
      (comma sp first ++ keyOut sp k ++ render v ++ p.1, p.2)
  | OC.ns k :: r =>
      let p := outO sp true r
      (comma sp first ++ keyOut sp k ++ 123 :: p.1, p.2 + 1)
  | OC.obj k body :: r =>
      let pb := outO sp true body
      let p := outO sp false r
      (comma sp first ++ keyOut sp k ++ 123 :: (pb.1 ++ 125 :: List.replicate pb.2 125 ++ p.1), p.2)
  | OC.arr k body :: r =>
      let p := outO sp false r
      (comma sp first ++ keyOut sp k ++ 91 :: (outA sp true body ++ 93 :: p.1), p.2)
def outA (sp first : Bool) : List AC → Bytes
  | [] => []
  | AC.prim v :: r => comma sp first ++ render v ++ outA sp false r
  | AC.obj body :: r =>
      let pb := outO sp true body
      comma sp first ++ 123 :: (pb.1 ++ 125 :: List.replicate pb.2 125 ++ outA sp false r)
  | AC.arr body :: r => comma sp first ++ 91 :: (outA sp true body ++ 93 :: outA sp false r)
end

/-! ### denotation: the JSON tree a call list means -/

mutual
/-- members of the enclosing object; a namespace call nests *the rest of the list* -/
def denO : List OC → List (Bytes × J)
  | [] => []
  | OC.prim k v :: r => (esc k, v) :: denO r
  | OC.obj k body :: r => (esc k, J.obj (denO body)) :: denO r
  | OC.arr k body :: r => (esc k, J.arr (denA body)) :: denO r
  | OC.ns k :: r => [(esc k, J.obj (denO r))]
def denA : List AC → List J
  | [] => []
  | AC.prim v :: r => v :: denA r
  | AC.obj body :: r => J.obj (denO body) :: denA r
  | AC.arr body :: r => J.arr (denA body) :: denA r
end

mutual
/-- all leaves are well-formed emitted values -/
def WFo : List OC → Prop
  | [] => True
  | OC.prim _ v :: r => WFj v ∧ WFo r
  | OC.ns _ :: r => WFo r
  | OC.obj _ b :: r => WFo b ∧ WFo r
  | OC.arr _ b :: r => WFa b ∧ WFo r
def WFa : List AC → Prop
  | [] => True
  | AC.prim v :: r => WFj v ∧ WFa r
  | AC.obj b :: r => WFo b ∧ WFa r
  | AC.arr b :: r => WFa b ∧ WFa r
end

/-! ### EncodeEntry -/

/-- the context of a logger: the encoder state after `With(fields…)` chains, i.e. after streaming the context
    calls into a clone that started empty -/
def ctxOf (sp : Bool) (ctxCalls : List OC) : Enc := runO sp ⟨[], 0⟩ ctxCalls

/-- `jsonEncoder.EncodeEntry` (also the context part of the console encoder with `sp = true`):
    `meta` = the calls for level/time/name/caller/function/message in that order (see `Model/Entry.lean`),
    `ctx` = the logger's encoder, `fields` = the call-site fields' calls, `stack` = the stack-trace member if any.
    Mirrors: clone (openNamespaces copied, fresh buffer), `{`, metadata, raw context bytes after a separator,
    fields, closeOpenNamespaces, stack trace, `}`, line ending. -/
def encodeEntry (sp : Bool) (metaCalls : List OC) (ctx : Enc) (fields : List OC) (stack : List OC)
    (lineEnding : Bytes) : Bytes :=
  let e1 := runO sp ⟨[123], ctx.openNs⟩ metaCalls
  let e2 : Enc := if ctx.buf.isEmpty then e1 else ⟨sep sp e1.buf ++ ctx.buf, e1.openNs⟩
  let e3 := runO sp e2 fields
  let e4 := runO sp ⟨e3.buf ++ List.replicate e3.openNs 125, 0⟩ stack
  e4.buf ++ 125 :: lineEnding

end ZapVerif.Enc
