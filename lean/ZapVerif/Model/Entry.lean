import ZapVerif.Model.Enc
import ZapVerif.Model.Level
/-! M5 + the metadata part of M2: values handed to the encoder, `Field.AddTo` (zapcore/field.go) including the
    error tail `<key>Error`, `encodeStringer`, `encodeError` (zapcore/error.go), and the entry metadata rules of
    `jsonEncoder.EncodeEntry`. Sub-encoders (level/time/duration/caller/name) are parameters: the op says what the
    configured function appended (`SubRes`), the model owns the nil / no-op fall-backs and the placement. -/
namespace ZapVerif.Entry
open ZapVerif ZapVerif.Esc ZapVerif.Json ZapVerif.Enc

/-! ### number formatting (strconv.AppendInt / AppendUint, base 10) -/

def digits : Nat → Nat → Bytes
  | 0, _ => []
  | f + 1, n => if n < 10 then [UInt8.ofNat (48 + n)] else digits f (n / 10) ++ [UInt8.ofNat (48 + n % 10)]

def fmtNat (n : Nat) : Bytes := digits (n + 1) n

def fmtInt (i : Int) : Bytes := if i < 0 then 45 :: fmtNat i.natAbs else fmtNat i.natAbs

/-! ### values -/

/-- what a PrimitiveArrayEncoder can be handed by one `AppendX` call -/
inductive Scalar where
  | str (s : Bytes)                              -- AppendString / AppendByteString: escaped
  | int (i : Int)
  | uint (n : Nat)
  | bool (b : Bool)
  | float (nan : Bool) (inf : Int) (txt : Bytes) -- appendFloat: NaN/±Inf as strings, else strconv text
  | complex (re im : Bytes) (plus : Bool)        -- appendComplex: quoted, `+` iff imag ≥ 0

/-- result of applying a configured sub-encoder function -/
inductive SubRes where
  | nilEnc                 -- the config field is nil
  | noop                   -- the function appended nothing
  | val (s : Scalar)       -- it made exactly one append

structure TimeV where
  nanos : Int              -- UnixNano, the fall-back representation
  res : SubRes             -- what EncodeTime appended for this time

structure DurV where
  nanos : Int
  res : SubRes

inductive Prim where
  | scalar (s : Scalar)
  | time (t : TimeV)
  | dur (d : DurV)
  | json (j : J)           -- AddReflected / AppendReflected that succeeded: the tree encoding/json emitted

def litStr (s : String) : Bytes := s.toUTF8.toList

def scalarJ : Scalar → J
  | .str s => J.str (esc s)
  | .int i => J.atom (fmtInt i)
  | .uint n => J.atom (fmtNat n)
  | .bool b => J.atom (if b then [116, 114, 117, 101] else [102, 97, 108, 115, 101])
  | .float nan inf txt =>
    if nan then J.str [78, 97, 78]
    else if inf > 0 then J.str [43, 73, 110, 102]
    else if inf < 0 then J.str [45, 73, 110, 102]
    else J.atom txt
  | .complex re im plus => J.str (re ++ (if plus then [43] else []) ++ im ++ [105])

/-- `AppendTime` / `AppendDuration`: nil or no-op sub-encoder falls back to the integer nanoseconds -/
def subOrNanos (r : SubRes) (nanos : Int) : J :=
  match r with
  | .val s => scalarJ s
  | _ => J.atom (fmtInt nanos)

def primJ : Prim → J
  | .scalar s => scalarJ s
  | .time t => subOrNanos t.res t.nanos
  | .dur d => subOrNanos d.res d.nanos
  | .json j => j

/-! ### fields -/

/-- outcome of calling `String()` / `Error()` on a user value -/
inductive Outcome where
  | ok (s : Bytes)
  | nilRecv              -- panicked and the value is a nil pointer: rendered as "<nil>"
  | panic (msg : Bytes)  -- panicked otherwise: fmt.Sprint of the panic value

/-- an error value as `encodeError` sees it -/
inductive ErrV where
  | mk (o : Outcome) (verbose : Option Bytes) (isGroup : Bool) (causes : List ErrV)

inductive Field where
  | prim (k : Bytes) (p : Prim)                                 -- every scalar FieldType: one AddX(key, value)
  | obj (k : Bytes) (body : List OC) (err : Option Bytes)       -- ObjectMarshalerType: calls made, error returned
  | arr (k : Bytes) (body : List AC) (err : Option Bytes)       -- ArrayMarshalerType
  | inline (k : Bytes) (body : List OC) (err : Option Bytes)    -- InlineMarshalerType
  | refl (k : Bytes) (r : Option J) (err : Bytes)               -- ReflectType: none = encoding failed with `err`
  | stringer (k : Bytes) (o : Outcome)
  | error (k : Bytes) (e : ErrV)
  | ns (k : Bytes)
  | skip

def sfx (k : Bytes) (s : String) : Bytes := k ++ litStr s

def strPrim (k s : Bytes) : OC := OC.prim k (J.str (esc s))

/-- the tail of AddTo: `if err != nil { enc.AddString(key+"Error", err.Error()) }` -/
def errCall (k : Bytes) : Option Bytes → List OC
  | none => []
  | some e => [strPrim (sfx k "Error") e]

def nilText : Bytes := litStr "<nil>"
def panicText (m : Bytes) : Bytes := litStr "PANIC=" ++ m

mutual
/-- `encodeError(key, err, enc)`: the calls it makes and the error it returns -/
def encErr (k : Bytes) : ErrV → List OC × Option Bytes
  | .mk o verbose isGroup causes =>
    match o with
    | .panic m => ([], some (panicText m))
    | .nilRecv => ([strPrim k nilText], none)
    | .ok basic =>
      if isGroup then
        let p := encCauses causes
        ([strPrim k basic, OC.arr (sfx k "Causes") p.1], p.2)
      else
        match verbose with
        | some v => if v = basic then ([strPrim k basic], none) else ([strPrim k basic, strPrim (sfx k "Verbose") v], none)
        | none => ([strPrim k basic], none)
/-- `errArray.MarshalLogArray`: one object per cause; stops at the first element whose encoding returned an error -/
def encCauses : List ErrV → List AC × Option Bytes
  | [] => ([], none)
  | c :: r =>
    let p := encErr (litStr "error") c
    match p.2 with
    | some e => ([AC.obj p.1], some e)
    | none => let q := encCauses r; (AC.obj p.1 :: q.1, q.2)
end

/-- `Field.AddTo` -/
def addTo : Field → List OC
  | .prim k p => [OC.prim k (primJ p)]
  | .obj k body err => OC.obj k body :: errCall k err
  | .arr k body err => OC.arr k body :: errCall k err
  | .inline k body err => body ++ errCall k err
  | .refl k (some j) _ => [OC.prim k j]
  | .refl k none err => errCall k (some err)            -- encode-before-key: a failed reflection writes nothing
  | .stringer k (.ok s) => [strPrim k s]
  | .stringer k .nilRecv => [strPrim k nilText]
  | .stringer k (.panic m) => errCall k (some (panicText m))
  | .error k e => let p := encErr k e; p.1 ++ errCall k p.2
  | .ns k => [OC.ns k]
  | .skip => []

/-- `zap.Errors(key, errs)` (error.go): an array with one object per non-nil error; each element is encoded by
    `Error(err).AddTo(enc)`, so — unlike the causes of an error group — a failing element reports itself inside its
    own object (`errorError`) and the array goes on -/
def errorsField (k : Bytes) (es : List ErrV) : Field :=
  .arr k (es.map fun e => AC.obj (addTo (.error (litStr "error") e))) none

def addFields (fs : List Field) : List OC := fs.flatMap addTo

/-! ### entry metadata -/

structure Cfg where
  messageKey : Bytes
  levelKey : Bytes
  timeKey : Bytes
  nameKey : Bytes
  callerKey : Bytes
  functionKey : Bytes
  stacktraceKey : Bytes
  lineEnding : Bytes       -- as configured
  skipLineEnding : Bool

/-- `newJSONEncoder`: SkipLineEnding wins, an empty LineEnding means "\n" -/
def Cfg.ending (c : Cfg) : Bytes :=
  if c.skipLineEnding then [] else if c.lineEnding.isEmpty then [10] else c.lineEnding

structure Ent where
  level : Int
  lvlRes : SubRes
  time : Option TimeV        -- none = `ent.Time.IsZero()`
  name : Bytes
  nameRes : SubRes           -- nil is treated as FullNameEncoder by the code; the harness reports its result
  callerDefined : Bool
  callerRes : SubRes
  callerStr : Bytes          -- EntryCaller.String()
  function : Bytes
  message : Bytes
  stack : Bytes

/-- a sub-encoder's value, or the string fall-back when it appended nothing -/
def subOrStr (r : SubRes) (fallback : Bytes) : J :=
  match r with
  | .val s => scalarJ s
  | _ => J.str (esc fallback)

def isNil : SubRes → Bool
  | .nilEnc => true
  | _ => false

/-- the metadata calls of `EncodeEntry`, in order: level, time, name, caller, function, message -/
def metaCalls (c : Cfg) (e : Ent) : List OC :=
  (if !c.levelKey.isEmpty && !isNil e.lvlRes then [OC.prim c.levelKey (subOrStr e.lvlRes (Level.stringOf e.level))] else []) ++
  (match e.time with
   | some t => if !c.timeKey.isEmpty then [OC.prim c.timeKey (subOrNanos t.res t.nanos)] else []
   | none => []) ++
  (if !e.name.isEmpty && !c.nameKey.isEmpty then [OC.prim c.nameKey (subOrStr e.nameRes e.name)] else []) ++
  (if e.callerDefined then
     (if !c.callerKey.isEmpty && !isNil e.callerRes then [OC.prim c.callerKey (subOrStr e.callerRes e.callerStr)] else []) ++
     (if !c.functionKey.isEmpty then [strPrim c.functionKey e.function] else [])
   else []) ++
  (if !c.messageKey.isEmpty then [strPrim c.messageKey e.message] else [])

def stackCalls (c : Cfg) (e : Ent) : List OC :=
  if !e.stack.isEmpty && !c.stacktraceKey.isEmpty then [strPrim c.stacktraceKey e.stack] else []

/-- the logger's context encoder after a chain of `With` calls -/
def ctxEnc (sp : Bool) (ctx : List (List Field)) : Enc.Enc := ctxOf sp (ctx.flatMap addFields)

/-- one JSON line: `ioCore.With` chains then `EncodeEntry` -/
def jsonLine (c : Cfg) (e : Ent) (ctx : List (List Field)) (fields : List Field) : Bytes :=
  encodeEntry false (metaCalls c e) (ctxEnc false ctx) (addFields fields) (stackCalls c e) c.ending

end ZapVerif.Entry
