import ZapVerif.Model.Bytes
/-! M1: JSON string escaping (`safeAppendStringLike`, zapcore/json_encoder.go) with a faithful model of
    `utf8.DecodeRune` validity, the string-body recogniser `runD`, and `escape_ok`. -/
namespace ZapVerif.Esc
open ZapVerif

theorem all256 (P : UInt8 → Prop) (h : ∀ n : Fin 256, P (UInt8.ofNat n.val)) : ∀ b : UInt8, P b := by
  intro b
  have := h ⟨b.toNat, b.toNat_lt⟩
  simpa using this

/-- _hex[n] for n < 16 -/
def hexd (n : UInt8) : UInt8 := if n < 10 then 48 + n else 87 + n

/-- the escape emitted for a byte < 0x80 that needs one (`<0x20`, `\`, `"`) -/
def esc1 (b : UInt8) : Bytes :=
  if b = 92 ∨ b = 34 then [92, b]
  else if b = 10 then [92, 110]
  else if b = 13 then [92, 114]
  else if b = 9 then [92, 116]
  else [92, 117, 48, 48, hexd (b >>> 4), hexd (b &&& 15)]

def plain (b : UInt8) : Bool := b ≥ 32 && b != 92 && b != 34

/-- utf8.DecodeRune on a string starting with a byte ≥ 0x80: `some n` = a valid n-byte sequence,
    `none` = (RuneError, 1).  first[] / acceptRanges[] of unicode/utf8, spelled out. -/
def cont (lo hi b : UInt8) : Bool := lo ≤ b && b ≤ hi
def lo3 (s0 : UInt8) : UInt8 := if s0 = 0xE0 then 0xA0 else 0x80
def hi3 (s0 : UInt8) : UInt8 := if s0 = 0xED then 0x9F else 0xBF
def lo4 (s0 : UInt8) : UInt8 := if s0 = 0xF0 then 0x90 else 0x80
def hi4 (s0 : UInt8) : UInt8 := if s0 = 0xF4 then 0x8F else 0xBF
theorem lo3_high (s0 : UInt8) : lo3 s0 ≥ 128 := by unfold lo3; split <;> decide
theorem lo4_high (s0 : UInt8) : lo4 s0 ≥ 128 := by unfold lo4; split <;> decide
def validLen (s : Bytes) : Option Nat :=
  let s0 := s.getD 0 0
  let s1 := s.getD 1 0
  let s2 := s.getD 2 0
  let s3 := s.getD 3 0
  if 0xC2 ≤ s0 && s0 ≤ 0xDF then
    if 2 ≤ s.length && cont 0x80 0xBF s1 then some 2 else none
  else if 0xE0 ≤ s0 && s0 ≤ 0xEF then
    if 3 ≤ s.length && cont (lo3 s0) (hi3 s0) s1
        && cont 0x80 0xBF s2 then some 3 else none
  else if 0xF0 ≤ s0 && s0 ≤ 0xF4 then
    if 4 ≤ s.length && cont (lo4 s0) (hi4 s0) s1
        && cont 0x80 0xBF s2 && cont 0x80 0xBF s3 then some 4 else none
  else none

/-- safeAppendStringLike, fuelled by the input length -/
def escape : Nat → Bytes → Bytes
  | 0, _ => []
  | _, [] => []
  | fuel + 1, b :: r =>
    if b ≥ 128 then
      match validLen (b :: r) with
      | some n => (b :: r).take n ++ escape fuel ((b :: r).drop n)
      | none => [92, 117, 102, 102, 102, 100] ++ escape fuel r        -- �
    else if plain b then b :: escape fuel r
    else esc1 b ++ escape fuel r

/-- recogniser for the inside of a JSON string: state 0 = normal, 1 = after `\`,
    2..5 = 4..1 hex digits still expected -/
def isHex (c : UInt8) : Bool := (48 ≤ c && c ≤ 57) || (97 ≤ c && c ≤ 102) || (65 ≤ c && c ≤ 70)
def stepD (s : Nat) (b : UInt8) : Option Nat :=
  match s with
  | 0 => if b < 32 || b == 34 then none else if b == 92 then some 1 else some 0
  | 1 => if b == 92 || b == 34 || b == 110 || b == 114 || b == 116 || b == 47 || b == 98 || b == 102
         then some 0 else if b == 117 then some 2 else none
  | 2 => if isHex b then some 3 else none
  | 3 => if isHex b then some 4 else none
  | 4 => if isHex b then some 5 else none
  | 5 => if isHex b then some 0 else none
  | _ => none
def runD : Nat → Bytes → Option Nat
  | s, [] => some s
  | s, b :: r => match stepD s b with
    | some s' => runD s' r
    | none => none

theorem runD_append (s : Nat) (a b : Bytes) :
    runD s (a ++ b) = (runD s a).bind (fun s' => runD s' b) := by
  induction a generalizing s with
  | nil => simp [runD]
  | cons x r ih => simp only [List.cons_append, runD]; cases stepD s x <;> simp [ih]

theorem esc1_ok : ∀ b : UInt8, b < 128 → plain b = false → runD 0 (esc1 b) = some 0 := by
  apply all256; decide +kernel

theorem plain_ok : ∀ b : UInt8, plain b = true → stepD 0 b = some 0 := by
  apply all256; decide +kernel

theorem high_ok : ∀ b : UInt8, b ≥ 128 → stepD 0 b = some 0 := by
  apply all256; decide +kernel

theorem high_all_ok (l : Bytes) (h : ∀ x ∈ l, x ≥ 128) : runD 0 l = some 0 := by
  induction l with
  | nil => rfl
  | cons x r ih =>
    simp only [runD, high_ok x (h x (by simp))]
    exact ih (fun y hy => h y (by simp [hy]))

theorem cont_high (lo hi b : UInt8) (hlo : lo ≥ 128) (h : cont lo hi b = true) : b ≥ 128 := by
  simp [cont] at h
  exact UInt8.le_trans hlo h.1

theorem lo_high (c : Bool) (a b : UInt8) (ha : a ≥ 128) (hb : b ≥ 128) : (if c then a else b) ≥ 128 := by
  cases c <;> simp [ha, hb]

/-- every byte of a valid multi-byte sequence is ≥ 0x80 -/
theorem valid_high (s : Bytes) (n : Nat) (h : validLen s = some n) (h0 : s.getD 0 0 ≥ 128) :
    ∀ x ∈ s.take n, x ≥ 128 := by
  have key : n ≤ s.length ∧ ∀ i, i < n → s.getD i 0 ≥ 128 := by
    unfold validLen at h
    simp only at h
    split at h
    · split at h
      · rename_i hc; injection h with h; subst h
        simp only [Bool.and_eq_true, decide_eq_true_eq] at hc
        refine ⟨hc.1, fun i hi => ?_⟩
        have : i = 0 ∨ i = 1 := by omega
        rcases this with rfl | rfl
        · exact h0
        · exact cont_high _ _ _ (by decide) hc.2
      · simp at h
    · split at h
      · split at h
        · rename_i hc; injection h with h; subst h
          simp only [Bool.and_eq_true, decide_eq_true_eq] at hc
          refine ⟨hc.1.1, fun i hi => ?_⟩
          have : i = 0 ∨ i = 1 ∨ i = 2 := by omega
          rcases this with rfl | rfl | rfl
          · exact h0
          · exact cont_high _ _ _ (lo3_high _) hc.1.2
          · exact cont_high _ _ _ (by decide) hc.2
        · simp at h
      · split at h
        · split at h
          · rename_i hc; injection h with h; subst h
            simp only [Bool.and_eq_true, decide_eq_true_eq] at hc
            refine ⟨hc.1.1.1, fun i hi => ?_⟩
            have : i = 0 ∨ i = 1 ∨ i = 2 ∨ i = 3 := by omega
            rcases this with rfl | rfl | rfl | rfl
            · exact h0
            · exact cont_high _ _ _ (lo4_high _) hc.1.1.2
            · exact cont_high _ _ _ (by decide) hc.1.2
            · exact cont_high _ _ _ (by decide) hc.2
          · simp at h
        · simp at h
  intro x hx
  obtain ⟨i, hi, rfl⟩ := List.mem_take_iff_getElem.mp hx
  have hin : i < n := by omega
  have hil : i < s.length := by omega
  have := key.2 i hin
  simpa [List.getD_eq_getElem?_getD, List.getElem?_eq_getElem hil] using this

/-- C01 core: whatever the input bytes (hostile, invalid UTF-8, control characters), the escaped
    text is a legal JSON string body: no raw control byte, no bare quote, only legal escapes -/
theorem escape_ok (fuel : Nat) (s : Bytes) : runD 0 (escape fuel s) = some 0 := by
  induction fuel generalizing s with
  | zero => simp [escape, runD]
  | succ fuel ih =>
    cases s with
    | nil => simp [escape, runD]
    | cons b r =>
      unfold escape
      by_cases hb : b ≥ 128
      · simp only [hb, if_true]
        cases hv : validLen (b :: r) with
        | none =>
          simp only []
          rw [runD_append]
          have : runD 0 [92, 117, 102, 102, 102, 100] = some 0 := by decide
          simp [this, ih]
        | some n =>
          simp only []
          rw [runD_append, high_all_ok _ (valid_high (b :: r) n hv (by simpa using hb))]
          simp [ih]
      · simp only [hb, if_false]
        by_cases hp : plain b = true
        · simp only [hp, if_true, runD, plain_ok b hp]; exact ih r
        · have hp' : plain b = false := by simpa using hp
          have hlt : b < 128 := by
            simp [UInt8.lt_iff_toNat_lt, UInt8.le_iff_toNat_le] at hb ⊢; omega
          simp only [hp', Bool.false_eq_true, if_false]
          rw [runD_append, esc1_ok b hlt hp']
          simp [ih]

end ZapVerif.Esc
