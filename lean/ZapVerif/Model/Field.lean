import ZapVerif.Model.Bytes
/-! M5 (the part C03 needs): the `zapcore.Field` union, Go integer conversions as wrap-around arithmetic on `Int`,
interface payloads, and the vocabulary of encoder calls.

Nothing in this file mirrors a *table* of zap: constructors (`pack_*`), `Field.AddTo`, the `Any` switch and the arms of
`Field.Equals` are regenerated from the source into `ZapVerif/Gen/{Fields,AddTo,Any,Equals}.lean` in terms of the
vocabulary defined here.  What *is* hand-modelled here (and validated by Corr only):
* Go conversions `intN(x)` / `uintN(x)` = `wrapS N x` / `wrapU N x`;
* floats are modelled **as their IEEE bit patterns** (`math.FloatNNbits`/`FloatNNfrombits` are the identity);
* `time.Time` = (nanoseconds since the Unix epoch as an unbounded `Int`, location id); `Location()` is never nil;
* Go's `==` on interface values and `reflect.DeepEqual` on opaque payloads (`ifaceEq`, `deepEq`);
* the helpers `encodeStringer` / `encodeError` for well-behaved Stringers and plain errors. -/
namespace ZapVerif.Field
open ZapVerif

/-! ### integer conversions -/

/-- `intN(x)` -/
def wrapS (bits : Nat) (x : Int) : Int := (x + 2^(bits-1)) % 2^bits - 2^(bits-1)
/-- `uintN(x)` -/
def wrapU (bits : Nat) (x : Int) : Int := x % 2^bits

/-- floats are their bit patterns; these four are names for the identity so that generated code reads like the source -/
def float64bits (x : Int) : Int := x
def float32bits (x : Int) : Int := x
def float64frombits (x : Int) : Int := x
def float32frombits (x : Int) : Int := x

/-- Go types whose values are modelled by an `Int` (floats: the bit pattern; `int`/`uint`/`uintptr`: 64-bit platform) -/
inductive GoT where
  | int | int8 | int16 | int32 | int64 | uint | uint8 | uint16 | uint32 | uint64 | uintptr
  | float32 | float64 | duration
deriving DecidableEq, Repr

/-- the values of a Go numeric type -/
def GoT.inRange : GoT → Int → Prop
  | .int8 => fun v => -2^7 ≤ v ∧ v < 2^7
  | .int16 => fun v => -2^15 ≤ v ∧ v < 2^15
  | .int32 => fun v => -2^31 ≤ v ∧ v < 2^31
  | .int | .int64 | .duration => fun v => -2^63 ≤ v ∧ v < 2^63
  | .uint8 => fun v => 0 ≤ v ∧ v < 2^8
  | .uint16 => fun v => 0 ≤ v ∧ v < 2^16
  | .uint32 | .float32 => fun v => 0 ≤ v ∧ v < 2^32
  | .uint | .uint64 | .uintptr | .float64 => fun v => 0 ≤ v ∧ v < 2^64

/-! ### field types -/

/-- `zapcore.FieldType` (the const block of zapcore/field.go; Gen checks that the source still lists exactly these, in order) -/
inductive FT where
  | unknown | arrayMarshaler | objectMarshaler | binary | bool | byteString | complex128 | complex64 | duration
  | float64 | float32 | int64 | int32 | int16 | int8 | string | time | timeFull | uint64 | uint32 | uint16 | uint8
  | uintptr | reflect | namespace | stringer | error | skip | inlineMarshaler
deriving DecidableEq, Repr, Inhabited

def FT.all : List FT :=
  [.unknown, .arrayMarshaler, .objectMarshaler, .binary, .bool, .byteString, .complex128, .complex64, .duration,
   .float64, .float32, .int64, .int32, .int16, .int8, .string, .time, .timeFull, .uint64, .uint32, .uint16, .uint8,
   .uintptr, .reflect, .namespace, .stringer, .error, .skip, .inlineMarshaler]

/-! ### values -/

/-- a `time.Time`: the instant (ns since the Unix epoch, unbounded) and the id of its `*time.Location` -/
structure Time where
  ns : Int
  loc : Nat
deriving DecidableEq, Repr

/-- id of `time.Local` (what `time.Unix` attaches); id 0 is `time.UTC` -/
def locLocal : Nat := 1

/-- `ArrayEncoder` methods -/
inductive AM where
  | AppendBool | AppendByteString | AppendComplex128 | AppendComplex64 | AppendFloat64 | AppendFloat32
  | AppendInt | AppendInt64 | AppendInt32 | AppendInt16 | AppendInt8 | AppendString
  | AppendUint | AppendUint64 | AppendUint32 | AppendUint16 | AppendUint8 | AppendUintptr
  | AppendDuration | AppendTime | AppendArray | AppendObject | AppendReflected
deriving DecidableEq, Repr

/-- what an array element call carries (`tok n`: the opaque value with identity `n` — complex number, byte slice, marshaler, error) -/
inductive EVal where
  | int (v : Int) | bool (b : Bool) | str (s : Bytes) | time (t : Time) | tok (n : Nat)
deriving DecidableEq, Repr

structure ACall where
  m : AM
  v : EVal
deriving DecidableEq, Repr

/-- An opaque Go value as far as `Field` is concerned: it travels through `Field.Interface` untouched.
`dyn` is its dynamic type, `impl` the interfaces it is known to implement, `id` the identity of the value (which Go
value it is: what a recording encoder can observe), `tok` its equality class within its type (two boxes of one type
denote `==`/DeepEqual-equal values iff they agree on `tok` and `elems`), `cmp` whether Go's
`==` is defined on `dyn`, `refl` whether the value equals itself (no NaN, no non-nil func inside), `text` what
`String()` / `Error()` returns, `elems` what `MarshalLogArray` emits (zap's own slice wrappers). -/
structure Box where
  dyn : String := ""
  impl : List String := []
  id : Nat := 0
  tok : Nat := 0
  cmp : Bool := true
  refl : Bool := true
  text : Bytes := []
  elems : List ACall := []
deriving DecidableEq, Repr

/-- the content of `Field.Interface` -/
inductive Payload where
  | nil
  | box (b : Box)
  | loc (l : Nat)       -- *time.Location
  | time (t : Time)     -- time.Time
deriving DecidableEq, Repr

def Payload.id : Payload → Nat
  | .box b => b.id
  | _ => 0

/-- `zapcore.Field` -/
structure Fld where
  key : Bytes := []
  ty : FT := .unknown
  integer : Int := 0
  str : Bytes := []
  iface : Payload := .nil
deriving DecidableEq, Repr

/-! ### encoder calls -/

/-- `ObjectEncoder` methods (+ `InlineObject`: `MarshalLogObject` invoked on the encoder itself) -/
inductive Meth where
  | AddArray | AddObject | AddBinary | AddByteString | AddBool | AddComplex128 | AddComplex64 | AddDuration
  | AddFloat64 | AddFloat32 | AddInt | AddInt64 | AddInt32 | AddInt16 | AddInt8 | AddString | AddTime
  | AddUint | AddUint64 | AddUint32 | AddUint16 | AddUint8 | AddUintptr | AddReflected | OpenNamespace | InlineObject
deriving DecidableEq, Repr

inductive CVal where
  | int (v : Int) | bool (b : Bool) | str (s : Bytes) | time (t : Time) | pay (p : Payload) | none
deriving DecidableEq, Repr

structure Call where
  m : Meth
  key : Bytes
  v : CVal
deriving DecidableEq, Repr

/-- result of one `AddTo` arm: the calls made and the error it left in `err`; `.error` = the arm panicked -/
abbrev ArmR := Except String (List Call × Option Bytes)

/-! ### Go semantics used by the generated code -/

/-- Go type names of the payload kinds -/
def tyLocation : String := "*time.Location"
def tyTime : String := "time.Time"

/-- the interface types that occur in `f.Interface.(T)` / constructor signatures (every other `T` is concrete) -/
def ifaceTypes : List String := ["zapcore.ObjectMarshaler", "zapcore.ArrayMarshaler", "error", "fmt.Stringer"]

/-- the value can be asserted to `t`: `any` always, an interface type iff implemented, a concrete type iff it is the dynamic type -/
def Box.isA (b : Box) (t : String) : Bool :=
  t == "any" || (if t ∈ ifaceTypes then decide (t ∈ b.impl) else b.dyn == t)

/-- `x.(T)`: succeeds iff the dynamic type is `T` or is known to implement the interface `T`; panics on a nil interface -/
def assertT (t : String) : Payload → Except String Payload
  | .nil => .error s!"interface conversion: interface is nil, not {t}"
  | .box b => if b.isA t then .ok (.box b) else .error s!"interface conversion: {b.dyn} is not {t}"
  | .loc l => if t = tyLocation then .ok (.loc l) else .error s!"interface conversion: *time.Location is not {t}"
  | .time x => if t = tyTime then .ok (.time x) else .error s!"interface conversion: time.Time is not {t}"

/-- `x.(time.Time)` -/
def assertTime : Payload → Except String Time
  | .time x => .ok x
  | _ => .error "interface conversion: not time.Time"

/-- static typing of constructor arguments: a non-nil value of (interface or concrete) type `t` -/
def Payload.hasType (t : String) : Payload → Prop
  | .nil => False
  | .box b => b.isA t = true
  | .loc _ => t = tyLocation
  | .time _ => t = tyTime

/-- `T(x)` for a named slice type `T` (e.g. `dictObject(val)`): the same value under another dynamic type; slices are
not comparable -/
def convNamed (dyn : String) (impl : List String) : Payload → Payload
  | .box b => .box { b with dyn := dyn, impl := impl, cmp := false }
  | p => p

/-- `ArmR` sequencing -/
def bindE {α β : Type} (x : Except String α) (k : α → Except String β) : Except String β :=
  match x with
  | .ok a => k a
  | .error e => .error e

@[simp] theorem bindE_ok {α β : Type} (a : α) (k : α → Except String β) : bindE (.ok a) k = k a := rfl
@[simp] theorem bindE_error {α β : Type} (e : String) (k : α → Except String β) : bindE (.error e) k = .error e := rfl

/-- `time.Unix(0, n)` -/
def timeUnix0 (n : Int) : Time := ⟨n, locLocal⟩
/-- `t.In(loc)` -/
def timeIn (t : Time) : Payload → Time
  | .loc l => ⟨t.ns, l⟩
  | _ => t
/-- `t.UnixNano()`: int64 arithmetic, wraps outside ±2^63 ns -/
def unixNano (t : Time) : Int := wrapS 64 t.ns
/-- `t.Location()` (never nil: a nil `loc` pointer reads as UTC, which is location id 0) -/
def location (t : Time) : Payload := .loc t.loc
/-- `t.Before(time.Unix(0, n))` / `t.After(time.Unix(0, n))`: comparison of instants -/
def timeBefore (t : Time) (n : Int) : Prop := t.ns < n
def timeAfter (t : Time) (n : Int) : Prop := t.ns > n
instance (t : Time) (n : Int) : Decidable (timeBefore t n) := by unfold timeBefore; exact inferInstance
instance (t : Time) (n : Int) : Decidable (timeAfter t n) := by unfold timeAfter; exact inferInstance

def textOf : Payload → Bytes
  | .box b => b.text
  | _ => []

/-- `encodeStringer(key, stringer, enc)` for a Stringer whose `String` method returns normally; a value that is not a
Stringer (only reachable with a nil interface) takes the recover path and is *returned as an error* -/
def encodeStringer (key : Bytes) (p : Payload) : List Call × Option Bytes :=
  match assertT "fmt.Stringer" p with
  | .ok q => ([⟨.AddString, key, .str (textOf q)⟩], none)
  | .error e => ([], some (Bytes.ofString ("PANIC=" ++ e)))

/-- `encodeError(key, err, enc)` for a plain error (no `fmt.Formatter`, no `errorGroup`): `AddString(key, err.Error())` -/
def encodeError (key : Bytes) (p : Payload) : List Call × Option Bytes :=
  ([⟨.AddString, key, .str (textOf p)⟩], none)

/-! ### equality -/

inductive EqR where
  | tt | ff | panic
deriving DecidableEq, Repr

def EqR.ofBool (b : Bool) : EqR := if b then .tt else .ff

/-- two boxes denote the same value (before reflexivity is taken into account) -/
def Box.same (a b : Box) : Bool := a.dyn == b.dyn && a.tok == b.tok && a.elems == b.elems

/-- Go `==` on two interface values -/
def ifaceEq : Payload → Payload → EqR
  | .nil, .nil => .tt
  | .box a, .box b =>
    if a.dyn ≠ b.dyn then .ff
    else if !a.cmp then .panic       -- "comparing uncomparable type"
    else .ofBool (a.same b && a.refl && b.refl)
  | .loc a, .loc b => .ofBool (a == b)
  | .time a, .time b => .ofBool (a == b)
  | _, _ => .ff

/-- `reflect.DeepEqual` on two interface values: total -/
def deepEq : Payload → Payload → Bool
  | .nil, .nil => true
  | .box a, .box b => a.same b && a.refl && b.refl
  | .loc a, .loc b => a == b
  | .time a, .time b => a == b
  | _, _ => false

/-- `bytes.Equal(x.([]byte), y.([]byte))` -/
def bytesEq (x y : Payload) : EqR :=
  match assertT "[]byte" x, assertT "[]byte" y with
  | .ok (.box a), .ok (.box b) => .ofBool (a.tok == b.tok)
  | _, _ => .panic

/-- the arms of the `switch f.Type` in `Field.Equals` -/
inductive EqArm where
  | bytesEqual | deepEqual | structEq
deriving DecidableEq, Repr

/-- `Field.Equals` over a regenerated arm table -/
def equalsWith (arm : FT → EqArm) (f g : Fld) : EqR :=
  if f.ty ≠ g.ty then .ff
  else if f.key ≠ g.key then .ff
  else match arm f.ty with
    | .bytesEqual => bytesEq f.iface g.iface
    | .deepEqual => .ofBool (deepEq f.iface g.iface)
    | .structEq =>   -- `f == other`: Key, Type, Integer, String compared first; the interface comparison may panic
      match ifaceEq f.iface g.iface with
      | .panic => .panic
      | r => if f.integer = g.integer ∧ f.str = g.str then r else .ff

/-! ### constructor tables -/

/-- how a constructor's value parameter is modelled -/
inductive VK where
  | num (t : GoT) | bool | str | time | box
deriving DecidableEq, Repr

abbrev VK.T : VK → Type
  | .num _ => Int
  | .bool => Bool
  | .str => Bytes
  | .time => Time
  | .box => Payload

/-- signature kinds of the constructors -/
inductive CtorFn where
  | k0 (f : Fld)                                  -- `Skip()`
  | k1 (f : Bytes → Fld)                          -- `Namespace(key)`
  | v1 (k : VK) (f : k.T → Fld)                   -- `Inline(val)`, `Error(err)`
  | kv (k : VK) (f : Bytes → k.T → Fld)           -- `X(key, val)`
  | kp (k : VK) (f : Bytes → Option k.T → Fld)    -- `Xp(key, *val)`
  | ks (k : VK) (f : Bytes → List k.T → Fld)      -- `Xs(key, []val)`
  | opaque                                        -- not modelled (`Stack`, `StackSkip`: the value is the runtime stack)

structure Ctor where
  name : String
  pkg : String          -- "zap" | "zapfield"
  exported : Bool
  ptype : String        -- Go type of the value parameter as written ("" when there is none)
  etype : String        -- the type of the value itself: `T` for `T`, `*T` and `[]T`
  fn : CtorFn

/-- an array wrapper of zap: element kind, its `MarshalLogArray` as a function of the slice, and the boxed slice -/
structure ArrW where
  name : String         -- "zap.bools"
  elem : String         -- Go element type
  k : VK
  marshal : List k.T → List ACall
  wrap : List k.T → Payload

/-! ### the specification side: which call *is* "the original value" -/

/-- object-encoder methods that deliver a value of numeric type `t` unchanged (`int`/`uint` may travel as 64-bit) -/
def GoT.accepts : GoT → List Meth
  | .int => [.AddInt, .AddInt64] | .int8 => [.AddInt8] | .int16 => [.AddInt16] | .int32 => [.AddInt32] | .int64 => [.AddInt64]
  | .uint => [.AddUint, .AddUint64] | .uint8 => [.AddUint8] | .uint16 => [.AddUint16] | .uint32 => [.AddUint32]
  | .uint64 => [.AddUint64] | .uintptr => [.AddUintptr] | .float32 => [.AddFloat32] | .float64 => [.AddFloat64]
  | .duration => [.AddDuration]

def GoT.acceptsA : GoT → List AM
  | .int => [.AppendInt, .AppendInt64] | .int8 => [.AppendInt8] | .int16 => [.AppendInt16] | .int32 => [.AppendInt32]
  | .int64 => [.AppendInt64] | .uint => [.AppendUint, .AppendUint64] | .uint8 => [.AppendUint8] | .uint16 => [.AppendUint16]
  | .uint32 => [.AppendUint32] | .uint64 => [.AppendUint64] | .uintptr => [.AppendUintptr] | .float32 => [.AppendFloat32]
  | .float64 => [.AppendFloat64] | .duration => [.AppendDuration]

/-- for opaque parameter types: the methods that hand the value over as it is, and whether it is handed over as the
value itself (`false`) or as its `String()`/`Error()` text (`true`) -/
def boxSpec : String → Option (List Meth × Bool)
  | "[]byte" => some ([.AddBinary, .AddByteString], false)
  | "complex128" => some ([.AddComplex128], false)
  | "complex64" => some ([.AddComplex64], false)
  | "zapcore.ObjectMarshaler" => some ([.AddObject, .InlineObject], false)
  | "zapcore.ArrayMarshaler" => some ([.AddArray], false)
  | "any" => some ([.AddReflected], false)
  | "fmt.Stringer" => some ([.AddString], true)
  | "error" => some ([.AddString], true)
  | _ => none

/-- element methods for opaque element types -/
def boxSpecA : String → Option (List AM × Bool)
  | "[]byte" => some ([.AppendByteString], false)
  | "complex128" => some ([.AppendComplex128], false)
  | "complex64" => some ([.AppendComplex64], false)
  | "T:zapcore.ObjectMarshaler" => some ([.AppendObject], false)   -- generic element types are written `T:<constraint>`
  | "T:any" => some ([.AppendObject], false)                       -- ObjectValues: &values[i]
  | "T:fmt.Stringer" => some ([.AppendString], true)
  | "error" => some ([.AppendObject], false)
  | _ => none

end ZapVerif.Field
