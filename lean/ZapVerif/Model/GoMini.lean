import ZapVerif.Model.Bytes
/-! # GoMini — a deep embedding of a small subset of Go, with a total fuelled big-step interpreter

`gen/trans*.go` reads whitelisted functions of /repo with go/parser and emits their bodies as terms of the types
below (`lean/ZapVerif/Gen/Trans*.lean`, regenerated on every run).  `Proofs/Trans*.lean` prove, for ALL inputs,
that `run` of the generated term equals the hand-written model function the property theorems are stated over.
This file is part of the trusted base (docs/TRANSLATOR.md): keep it small and literal.

Semantics decisions (all validated against real Go by the `TR` differential test, harness/cmd/zvh/trans.go):
* integers are `Int` values that are always inside the range of their static type; every arithmetic node carries
  the static type and wraps its result (`wrap`): unsigned = `mod 2^n`, signed = two's complement;
  `int` is 64 bits wide (the targets zap supports for this framework); `/` and `%` truncate toward zero and
  panic on a zero divisor;
* strings and `[]byte` are byte lists, other slices are value lists.  Slices are VALUES: the translator rejects
  element assignment and every `append` that is not `x = append(x, …)`, so no aliasing is observable;
* `a[i]`, `a[lo:hi]` panic when out of range (`Panic.index`, `Panic.slice`), exactly like Go;
* operands are evaluated left to right; `&&` / `||` short-circuit; an assignment evaluates all right-hand sides,
  then assigns left to right;
* `switch` compares the tag with each case value in source order, runs at most one body, `break` leaves the
  switch; no `fallthrough`;
* loops: `for init; cond; post` is `init ; loop cond post body`; `continue` runs `post`; `for range` over a slice
  evaluates the slice once and needs no fuel; every other loop iteration and every call of a translated function
  consumes one unit of fuel (`Out.oof` when exhausted);
* nil-able values (interfaces, pointers) are lists — nil is `[]` — and `==` on them is structural equality
  (`Val.beqs`); the translator admits it only between values of one declared nil-able type;
* anything ill-typed or outside the subset evaluates to `stuck` — the theorems show it never happens. -/
namespace ZapVerif.GoMini
open ZapVerif

/-! ## values -/

inductive Ty where
  | u8 | u32 | u64 | int | i64 | i8 | i32
deriving DecidableEq, Repr

/-- the value of Go's fixed-width arithmetic: reduce `v` into the range of `t` -/
def wrap : Ty → Int → Int
  | .u8, v => v % 256
  | .u32, v => v % 4294967296
  | .u64, v => v % 18446744073709551616
  | .int, v => (v + 9223372036854775808) % 18446744073709551616 - 9223372036854775808
  | .i64, v => (v + 9223372036854775808) % 18446744073709551616 - 9223372036854775808
  | .i8, v => (v + 128) % 256 - 128
  | .i32, v => (v + 2147483648) % 4294967296 - 2147483648

def Ty.signed : Ty → Bool
  | .int | .i64 | .i8 | .i32 => true
  | _ => false

inductive Val where
  | int (v : Int)
  | bool (b : Bool)
  | bytes (bs : Bytes)          -- string, []byte
  | list (vs : List Val)        -- any other slice; tuples and opaque records of the intrinsics
deriving Inhabited

mutual
/-- structural equality of values: what `==` means on the nil-able values (interfaces holding comparable dynamic
    values, pointers), which are lists here -/
def Val.beq : Val → Val → Bool
  | .int a, .int b => a == b
  | .bool a, .bool b => a == b
  | .bytes a, .bytes b => a == b
  | .list a, .list b => Val.beqs a b
  | _, _ => false
def Val.beqs : List Val → List Val → Bool
  | [], [] => true
  | a :: as, b :: bs => Val.beq a b && Val.beqs as bs
  | _, _ => false
end

inductive Panic where
  | index      -- index out of range
  | slice      -- slice bounds out of range
  | divide     -- integer divide by zero
deriving DecidableEq, Repr

/-- diagnostic text of a `stuck` outcome (a plain function, so that proofs never compute with strings) -/
def msg (what name : String) : String := what ++ " " ++ name

/-- result of evaluating an expression -/
inductive Res (α : Type) where
  | ok (a : α)
  | panic (p : Panic)
  | stuck (why : String)

@[inline] def Res.bind {α β} (r : Res α) (f : α → Res β) : Res β :=
  match r with
  | .ok a => f a
  | .panic p => .panic p
  | .stuck w => .stuck w

instance : Monad Res where
  pure := .ok
  bind := Res.bind

/-! ## syntax -/

inductive UnOp where
  | not                 -- !b
  | neg (t : Ty)        -- -x
deriving Repr

inductive BinOp where
  | add (t : Ty) | sub (t : Ty) | mul (t : Ty) | div (t : Ty) | rem (t : Ty)
  | band | bor | bxor | shr            -- unsigned operands only (the translator checks the static type)
  | shl (t : Ty)                        -- unsigned operands only
  | eq | ne | lt | le | gt | ge
deriving Repr

inductive Expr where
  | lit (v : Val)
  | loc (x : String)                    -- local variable / parameter / named result
  | fld (x : String)                    -- receiver field (persists across calls)
  | un (op : UnOp) (e : Expr)
  | bin (op : BinOp) (a b : Expr)
  | and (a b : Expr)                    -- a && b
  | or (a b : Expr)                     -- a || b
  | conv (t : Ty) (e : Expr)            -- T(e) between integer types
  | len (e : Expr)
  | index (a i : Expr)                  -- a[i]
  | slice (a : Expr) (lo hi : Option Expr)   -- a[lo:hi]
  | call (f : String) (args : List Expr)     -- builtin or external intrinsic with one result
deriving Inhabited

/-- assignable places -/
inductive LV where
  | loc (x : String)
  | fld (x : String)
  | blank                               -- _
deriving Repr

mutual
inductive Stmt where
  | skip
  | seq (a b : Stmt)
  | assign (lhs : List LV) (rhs : List Expr)                 -- lhs… = rhs… (also `:=`, `op=`, `++`, `var`)
  | callX (lhs : List LV) (f : String) (args : List Expr)    -- lhs… = intrinsic(args…)  (several results)
  | call (lhs : List LV) (f : String) (args : List Expr)     -- lhs… = translatedFunction(args…)
  | ite (c : Expr) (t e : Stmt)
  | switch (tag : Expr) (cs : Cases)
  | loop (cond : Expr) (post body : Stmt)                    -- for ; cond ; post { body }
  | range (k v : LV) (xs : Expr) (body : Stmt)               -- for k, v := range xs { body }   (xs a slice)
  | brk
  | cont
  | ret (es : List Expr)
inductive Cases where
  | default (body : Stmt)
  | case (vals : List Expr) (body : Stmt) (rest : Cases)
end

/-- a translated function: parameter names, named results with their zero values (empty if unnamed), body -/
structure Fun where
  params : List String
  named : List (String × Val)
  body : Stmt

/-! ## state -/

abbrev Env := List (String × Val)

def Env.get (x : String) : Env → Option Val
  | [] => none
  | (y, v) :: r => if x = y then some v else Env.get x r

def Env.set (x : String) (v : Val) : Env → Env
  | [] => [(x, v)]
  | (y, w) :: r => if x = y then (y, v) :: r else (y, w) :: Env.set x v r

structure State where
  loc : Env
  fld : Env

/-- outcome of executing a statement -/
inductive Out where
  | normal (σ : State)
  | brk (σ : State)
  | cont (σ : State)
  | ret (vs : List Val) (σ : State)
  | panic (p : Panic)
  | stuck (why : String)
  | oof                                  -- out of fuel

/-- what the interpreter is parameterised by: the external intrinsics (`none` = not applicable ⇒ stuck)
    and the table of translated functions -/
structure Ctx where
  ext : String → List Val → Option (List Val)
  funs : String → Option Fun

/-! ## builtins: Go built-ins and standard-library functions with a fixed meaning -/

def indexByte (bs : Bytes) (c : UInt8) : Int :=
  match bs.findIdx? (· == c) with
  | some i => i
  | none => -1

/-- `strings.LastIndexByte`: index of the last occurrence, −1 if there is none -/
def lastIndexByte : Bytes → UInt8 → Int
  | [], _ => -1
  | b :: r, c => if lastIndexByte r c ≥ 0 then lastIndexByte r c + 1 else if b == c then 0 else -1

def appendVal : List Val → Option Val
  | [.bytes s, .int c] => some (.bytes (s ++ [UInt8.ofNat c.toNat]))      -- append(s, c)
  | [.list s, v] => some (.list (s ++ [v]))
  | _ => none

def appendAll : List Val → Option Val
  | [.bytes s, .bytes t] => some (.bytes (s ++ t))                         -- append(s, t...)
  | [.list s, .list t] => some (.list (s ++ t))
  | _ => none

/-- dispatch on the name first: a name that is not a builtin is `none` whatever the arguments -/
def builtin (f : String) (args : List Val) : Option Val :=
  if f = "min" then (match args with | [.int a, .int b] => some (.int (min a b)) | _ => none)
  else if f = "max" then (match args with | [.int a, .int b] => some (.int (max a b)) | _ => none)
  else if f = "bytes.IndexByte" ∨ f = "strings.IndexByte" then
    (match args with | [.bytes s, .int c] => some (.int (indexByte s (UInt8.ofNat c.toNat))) | _ => none)
  else if f = "strings.LastIndexByte" then
    (match args with | [.bytes s, .int c] => some (.int (lastIndexByte s (UInt8.ofNat c.toNat))) | _ => none)
  else if f = "append" then appendVal args
  else if f = "append..." then appendAll args
  else if f = "tuple" then some (.list args)          -- a record of values (call traces)
  else none

/-! ## expressions -/

def evalUn : UnOp → Val → Res Val
  | .not, .bool b => .ok (.bool (!b))
  | .neg t, .int v => .ok (.int (wrap t (-v)))
  | _, _ => .stuck "unary operand"

def cmpInt : BinOp → Int → Int → Option Bool
  | .eq, a, b => some (decide (a = b))
  | .ne, a, b => some (decide (a ≠ b))
  | .lt, a, b => some (decide (a < b))
  | .le, a, b => some (decide (a ≤ b))
  | .gt, a, b => some (decide (a > b))
  | .ge, a, b => some (decide (a ≥ b))
  | _, _, _ => none

def evalBin : BinOp → Val → Val → Res Val
  | .add t, .int a, .int b => .ok (.int (wrap t (a + b)))
  | .sub t, .int a, .int b => .ok (.int (wrap t (a - b)))
  | .mul t, .int a, .int b => .ok (.int (wrap t (a * b)))
  | .div t, .int a, .int b => if b = 0 then .panic .divide else .ok (.int (wrap t (Int.tdiv a b)))
  | .rem t, .int a, .int b => if b = 0 then .panic .divide else .ok (.int (wrap t (Int.tmod a b)))
  | .band, .int a, .int b => .ok (.int (a.toNat &&& b.toNat : Nat))
  | .bor, .int a, .int b => .ok (.int (a.toNat ||| b.toNat : Nat))
  | .bxor, .int a, .int b => .ok (.int (a.toNat ^^^ b.toNat : Nat))
  | .shr, .int a, .int b => .ok (.int (a.toNat >>> b.toNat : Nat))
  | .shl t, .int a, .int b => .ok (.int (wrap t (a.toNat <<< b.toNat : Nat)))
  | .eq, .bool a, .bool b => .ok (.bool (a == b))
  | .ne, .bool a, .bool b => .ok (.bool (a != b))
  | .eq, .bytes a, .bytes b => .ok (.bool (a == b))
  | .ne, .bytes a, .bytes b => .ok (.bool (a != b))
  | .eq, .list a, .list b => .ok (.bool (Val.beqs a b))
  | .ne, .list a, .list b => .ok (.bool (!Val.beqs a b))
  | op, .int a, .int b =>
    match cmpInt op a b with
    | some r => .ok (.bool r)
    | none => .stuck "binary operator"
  | _, _, _ => .stuck "binary operands"

def indexVal : Val → Val → Res Val
  | .bytes s, .int i =>
    if i < 0 then .panic .index else
    match s[i.toNat]? with
    | some b => .ok (.int b.toNat)
    | none => .panic .index
  | .list s, .int i =>
    if i < 0 then .panic .index else
    match s[i.toNat]? with
    | some v => .ok v
    | none => .panic .index
  | _, _ => .stuck "index operands"

def lenVal : Val → Res Val
  | .bytes s => .ok (.int s.length)
  | .list s => .ok (.int s.length)
  | _ => .stuck "len operand"

/-- `a[lo:hi]` with the bounds already defaulted: requires `0 ≤ lo ≤ hi ≤ len(a)` -/
def sliceVal : Val → Int → Int → Res Val
  | .bytes s, lo, hi =>
    if 0 ≤ lo ∧ lo ≤ hi ∧ hi ≤ s.length then .ok (.bytes ((s.take hi.toNat).drop lo.toNat)) else .panic .slice
  | .list s, lo, hi =>
    if 0 ≤ lo ∧ lo ≤ hi ∧ hi ≤ s.length then .ok (.list ((s.take hi.toNat).drop lo.toNat)) else .panic .slice
  | _, _, _ => .stuck "slice operand"

def asInt : Val → Res Int
  | .int v => .ok v
  | _ => .stuck "integer expected"

def callVal (X : Ctx) (f : String) (args : List Val) : Res Val :=
  match builtin f args with
  | some v => .ok v
  | none =>
    match X.ext f args with
    | some [v] => .ok v
    | _ => .stuck (msg "call" f)

mutual
def evalE (X : Ctx) (σ : State) : Expr → Res Val
  | .lit v => .ok v
  | .loc x => match σ.loc.get x with | some v => .ok v | none => .stuck (msg "unset local" x)
  | .fld x => match σ.fld.get x with | some v => .ok v | none => .stuck (msg "unset field" x)
  | .un op e => (evalE X σ e).bind (evalUn op)
  | .bin op a b => (evalE X σ a).bind fun va => (evalE X σ b).bind fun vb => evalBin op va vb
  | .and a b => (evalE X σ a).bind fun
    | .bool true => (evalE X σ b).bind fun | .bool r => .ok (.bool r) | _ => .stuck "operand"
    | .bool false => .ok (.bool false)
    | _ => .stuck "operand"
  | .or a b => (evalE X σ a).bind fun
    | .bool false => (evalE X σ b).bind fun | .bool r => .ok (.bool r) | _ => .stuck "operand"
    | .bool true => .ok (.bool true)
    | _ => .stuck "operand"
  | .conv t e => (evalE X σ e).bind fun v => (asInt v).bind fun i => .ok (.int (wrap t i))
  | .len e => (evalE X σ e).bind lenVal
  | .index a i => (evalE X σ a).bind fun va => (evalE X σ i).bind fun vi => indexVal va vi
  | .slice a lo hi => (evalE X σ a).bind fun va =>
      (evalOpt X σ lo (.int 0)).bind fun vlo => (lenVal va).bind fun n => (evalOpt X σ hi n).bind fun vhi =>
      (asInt vlo).bind fun l => (asInt vhi).bind fun h => sliceVal va l h
  | .call f args => (evalEs X σ args).bind (callVal X f)
def evalOpt (X : Ctx) (σ : State) : Option Expr → Val → Res Val
  | none, d => .ok d
  | some e, _ => evalE X σ e
def evalEs (X : Ctx) (σ : State) : List Expr → Res (List Val)
  | [] => .ok []
  | e :: es => (evalE X σ e).bind fun v => (evalEs X σ es).bind fun vs => .ok (v :: vs)
end

/-! ## statements -/

def State.assign1 (σ : State) : LV → Val → State
  | .loc x, v => { σ with loc := σ.loc.set x v }
  | .fld x, v => { σ with fld := σ.fld.set x v }
  | .blank, _ => σ

/-- assign left to right; the two lists must have the same length -/
def State.assign (σ : State) : List LV → List Val → Option State
  | [], [] => some σ
  | l :: ls, v :: vs => (σ.assign1 l v).assign ls vs
  | _, _ => none

/-- `v == w` as the switch statement compares them -/
def valEq : Val → Val → Option Bool
  | .int a, .int b => some (decide (a = b))
  | .bool a, .bool b => some (a == b)
  | .bytes a, .bytes b => some (a == b)
  | _, _ => none

/-- does the tag equal one of the case values (evaluated in order)? -/
def matchCase (X : Ctx) (σ : State) (tag : Val) : List Expr → Res Bool
  | [] => .ok false
  | e :: es => (evalE X σ e).bind fun v =>
    match valEq tag v with
    | some true => .ok true
    | some false => matchCase X σ tag es
    | none => .stuck "switch case type"

/-- `for k, v := range xs`: one structural pass over the elements -/
def rangeRun (body : State → Out) (k v : LV) : List Val → Nat → State → Out
  | [], _, σ => .normal σ
  | x :: xs, i, σ =>
    match body ((σ.assign1 k (.int i)).assign1 v x) with
    | .normal σ' => rangeRun body k v xs (i + 1) σ'
    | .cont σ' => rangeRun body k v xs (i + 1) σ'
    | .brk σ' => .normal σ'
    | o => o

mutual
/-- one level of execution: `rec` runs the continuation of a loop and the bodies of called functions
    (with one unit of fuel less) -/
def execS (X : Ctx) (rec : Stmt → State → Out) : Stmt → State → Out
  | .skip, σ => .normal σ
  | .seq a b, σ =>
    match execS X rec a σ with
    | .normal σ' => execS X rec b σ'
    | o => o
  | .assign lhs rhs, σ =>
    match evalEs X σ rhs with
    | .ok vs => match σ.assign lhs vs with | some σ' => .normal σ' | none => .stuck "assignment arity"
    | .panic p => .panic p
    | .stuck w => .stuck w
  | .callX lhs f args, σ =>
    match evalEs X σ args with
    | .ok vs =>
      match X.ext f vs with
      | some rs => match σ.assign lhs rs with | some σ' => .normal σ' | none => .stuck (msg "result arity of" f)
      | none => .stuck (msg "intrinsic" f)
    | .panic p => .panic p
    | .stuck w => .stuck w
  | .call lhs f args, σ =>
    match evalEs X σ args with
    | .ok vs =>
      match X.funs f with
      | some fn =>
        if fn.params.length = vs.length then
          match rec fn.body { loc := fn.params.zip vs ++ fn.named, fld := σ.fld } with
          | .ret rs σ' =>
            match ({ σ with fld := σ'.fld } : State).assign lhs rs with
            | some σ'' => .normal σ''
            | none => .stuck (msg "result arity of" f)
          | .normal σ' => if lhs.isEmpty then .normal { σ with fld := σ'.fld } else .stuck (msg "missing return in" f)
          | .brk _ => .stuck "break outside loop"
          | .cont _ => .stuck "continue outside loop"
          | o => o
        else .stuck (msg "argument arity of" f)
      | none => .stuck (msg "unknown function" f)
    | .panic p => .panic p
    | .stuck w => .stuck w
  | .ite c t e, σ =>
    match evalE X σ c with
    | .ok (.bool true) => execS X rec t σ
    | .ok (.bool false) => execS X rec e σ
    | .ok _ => .stuck "condition"
    | .panic p => .panic p
    | .stuck w => .stuck w
  | .switch tag cs, σ =>
    match evalE X σ tag with
    | .ok v =>
      match execC X rec v cs σ with
      | .brk σ' => .normal σ'
      | o => o
    | .panic p => .panic p
    | .stuck w => .stuck w
  | .loop c post body, σ =>
    match evalE X σ c with
    | .ok (.bool true) =>
      match execS X rec body σ with
      | .normal σ' | .cont σ' =>
        match execS X rec post σ' with
        | .normal σ'' => rec (.loop c post body) σ''
        | .brk _ => .stuck "break in post statement"
        | .cont _ => .stuck "continue in post statement"
        | o => o
      | .brk σ' => .normal σ'
      | o => o
    | .ok (.bool false) => .normal σ
    | .ok _ => .stuck "condition"
    | .panic p => .panic p
    | .stuck w => .stuck w
  | .range k v xs body, σ =>
    match evalE X σ xs with
    | .ok (.list vs) => rangeRun (execS X rec body) k v vs 0 σ
    | .ok (.bytes bs) => rangeRun (execS X rec body) k v (bs.map fun b => .int b.toNat) 0 σ
    | .ok _ => .stuck "range operand"
    | .panic p => .panic p
    | .stuck w => .stuck w
  | .brk, σ => .brk σ
  | .cont, σ => .cont σ
  | .ret es, σ =>
    match evalEs X σ es with
    | .ok vs => .ret vs σ
    | .panic p => .panic p
    | .stuck w => .stuck w
def execC (X : Ctx) (rec : Stmt → State → Out) (tag : Val) : Cases → State → Out
  | .default body, σ => execS X rec body σ
  | .case vals body rest, σ =>
    match matchCase X σ tag vals with
    | .ok true => execS X rec body σ
    | .ok false => execC X rec tag rest σ
    | .panic p => .panic p
    | .stuck w => .stuck w
end

/-- the fuelled interpreter -/
def exec (X : Ctx) : Nat → Stmt → State → Out
  | 0 => fun _ _ => .oof
  | fuel + 1 => execS X (exec X fuel)

/-- result of running a translated function from outside -/
inductive Ran where
  | done (results : List Val) (fld : Env)
  | panic (p : Panic)
  | stuck (why : String)
  | oof

/-- call function `f` with `args` on the receiver fields `fld`.  A body that ends without `return`
    returns its named results (none for a function without results). -/
def run (X : Ctx) (fuel : Nat) (f : String) (args : List Val) (fld : Env) : Ran :=
  match X.funs f with
  | none => .stuck (msg "unknown function" f)
  | some fn =>
    if fn.params.length = args.length then
      match exec X fuel fn.body { loc := fn.params.zip args ++ fn.named, fld := fld } with
      | .ret rs σ => .done rs σ.fld
      | .normal σ => .done [] σ.fld
      | .panic p => .panic p
      | .stuck w => .stuck w
      | .oof => .oof
      | .brk _ => .stuck "break outside loop"
      | .cont _ => .stuck "continue outside loop"
    else .stuck (msg "argument arity of" f)

end ZapVerif.GoMini
