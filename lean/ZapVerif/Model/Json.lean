import ZapVerif.Model.Esc
/-! M4: abstract JSON as emitted (ordered objects, duplicates kept), `render`, and a fuelled recursive-descent
    parser for the emitted grammar. -/
namespace ZapVerif.Json
open ZapVerif ZapVerif.Esc

/-- abstract JSON as emitted: strings carry their (already escaped) body, scalars their token text -/
inductive J where
  | str (body : Bytes)
  | atom (txt : Bytes)
  | arr (xs : List J)
  | obj (kvs : List (Bytes × J))

def tokenChar (c : UInt8) : Bool :=
  c != 44 && c != 93 && c != 125 && c != 34 && c != 91 && c != 123 && c != 58 && c != 32

mutual
def render : J → Bytes
  | .str b => 34 :: (b ++ [34])
  | .atom t => t
  | .arr xs => 91 :: (renderElems xs ++ [93])
  | .obj kvs => 123 :: (renderMembers kvs ++ [125])
def renderElems : List J → Bytes
  | [] => []
  | [x] => render x
  | x :: y :: r => render x ++ 44 :: renderElems (y :: r)
def renderMembers : List (Bytes × J) → Bytes
  | [] => []
  | [(k, v)] => 34 :: (k ++ 34 :: 58 :: render v)
  | (k, v) :: y :: r => 34 :: (k ++ 34 :: 58 :: (render v ++ 44 :: renderMembers (y :: r)))
end

/-- scan a string body up to the closing quote, following the escape automaton -/
def scanStr : Nat → Bytes → Bytes → Option (Bytes × Bytes)
  | _, _, [] => none
  | st, acc, b :: r =>
    if st = 0 ∧ b = 34 then some (acc, r)
    else match stepD st b with
      | some st' => scanStr st' (acc ++ [b]) r
      | none => none

def spanTok : Bytes → Bytes → Bytes × Bytes
  | acc, [] => (acc, [])
  | acc, c :: r => if tokenChar c then spanTok (acc ++ [c]) r else (acc, c :: r)

/-- one optional blank after `,` and `:` (the console encoder's spaced form) -/
def skipSp : Bytes → Bytes
  | 32 :: r => r
  | s => s

mutual
def parseV : Nat → Bytes → Option (J × Bytes)
  | 0, _ => none
  | _, [] => none
  | fuel + 1, c :: r =>
    if c = 34 then (scanStr 0 [] r).map (fun p => (.str p.1, p.2))
    else if c = 91 then
      match r with
      | 93 :: r' => some (.arr [], r')
      | _ => parseElems fuel [] r
    else if c = 123 then
      match r with
      | 125 :: r' => some (.obj [], r')
      | _ => parseMembers fuel [] r
    else if tokenChar c then
      let p := spanTok [] (c :: r); some (.atom p.1, p.2)
    else none
def parseElems : Nat → List J → Bytes → Option (J × Bytes)
  | 0, _, _ => none
  | fuel + 1, acc, s =>
    match parseV fuel s with
    | some (v, 44 :: r) => parseElems fuel (acc ++ [v]) (skipSp r)
    | some (v, 93 :: r) => some (.arr (acc ++ [v]), r)
    | _ => none
def parseMembers : Nat → List (Bytes × J) → Bytes → Option (J × Bytes)
  | 0, _, _ => none
  | fuel + 1, acc, s =>
    match s with
    | 34 :: r =>
      match scanStr 0 [] r with
      | some (k, 58 :: r2) =>
        match parseV fuel (skipSp r2) with
        | some (v, 44 :: r3) => parseMembers fuel (acc ++ [(k, v)]) (skipSp r3)
        | some (v, 125 :: r3) => some (.obj (acc ++ [(k, v)]), r3)
        | _ => none
      | _ => none
    | _ => none
end

/-- well-formedness of emitted trees: string bodies are legal, scalar tokens are non-empty runs of
    token characters -/
def atomOK (t : Bytes) : Prop := t ≠ [] ∧ ∀ c ∈ t, tokenChar c = true
mutual
def WFj : J → Prop
  | .str b => runD 0 b = some 0
  | .atom t => atomOK t
  | .arr xs => WFl xs
  | .obj kvs => WFm kvs
def WFl : List J → Prop
  | [] => True
  | x :: r => WFj x ∧ WFl r
def WFm : List (Bytes × J) → Prop
  | [] => True
  | (k, v) :: r => runD 0 k = some 0 ∧ WFj v ∧ WFm r
end

mutual
def size : J → Nat
  | .str _ => 1
  | .atom _ => 1
  | .arr xs => 2 + sizeL xs
  | .obj kvs => 2 + sizeM kvs
def sizeL : List J → Nat
  | [] => 0
  | x :: r => 1 + size x + sizeL r
def sizeM : List (Bytes × J) → Nat
  | [] => 0
  | (_, v) :: r => 1 + size v + sizeM r
end

theorem scanStr_body (st : Nat) (acc body rest : Bytes) (h : runD st body = some 0) :
    scanStr st acc (body ++ 34 :: rest) = some (acc ++ body, rest) := by
  induction body generalizing st acc with
  | nil =>
    simp [runD] at h; subst h
    simp [scanStr]
  | cons b r ih =>
    simp only [runD] at h
    cases hs : stepD st b with
    | none => simp [hs] at h
    | some st' =>
      simp only [hs] at h
      have hq : ¬ (st = 0 ∧ b = 34) := by
        rintro ⟨rfl, rfl⟩; simp [stepD] at hs
      simp only [List.cons_append, scanStr, hq, if_false, hs]
      rw [ih st' (acc ++ [b]) h]; simp

/-- what may follow a value -/
def sepNext (rest : Bytes) : Prop := rest = [] ∨ ∃ c r, rest = c :: r ∧ tokenChar c = false

theorem spanTok_atom (acc t rest : Bytes) (ht : ∀ c ∈ t, tokenChar c = true) (hr : sepNext rest) :
    spanTok acc (t ++ rest) = (acc ++ t, rest) := by
  induction t generalizing acc with
  | nil =>
    rcases hr with rfl | ⟨c, r, rfl, hc⟩
    · simp [spanTok]
    · simp [spanTok, hc]
  | cons c r ih =>
    have hc := ht c (by simp)
    simp only [List.cons_append, spanTok, hc, if_true]
    rw [ih _ (fun x hx => ht x (by simp [hx]))]; simp

end ZapVerif.Json
