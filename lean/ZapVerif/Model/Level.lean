import ZapVerif.Model.Bytes
import ZapVerif.Gen.LevelText
/-! M12/levels: level text forms (zapcore/level.go) and the AtomicLevel HTTP endpoint (http_handler.go). -/
namespace ZapVerif.Level
open ZapVerif

abbrev Lvl := Int

def validLevels : List Lvl := [-1, 0, 1, 2, 3, 4, 5]

/-- `(*Level).unmarshalText`: the regenerated switch -/
def unmarshal1 (t : Bytes) : Option Lvl := Gen.levelNames.lookup t

/-- `(*Level).UnmarshalText`: exact text first, then `bytes.ToLower(text)`; `lower` is a parameter
    (the standard library's function, passed in by the harness) -/
def parse (lower : Bytes → Bytes) (t : Bytes) : Option Lvl :=
  match unmarshal1 t with
  | some l => some l
  | none => unmarshal1 (lower t)

/-- target after `UnmarshalText`: untouched on rejection -/
def unmarshalInto (lower : Bytes → Bytes) (cur : Lvl) (t : Bytes) : Bool × Lvl :=
  match parse lower t with
  | some l => (true, l)
  | none => (false, cur)

def row (l : Lvl) : Option (Bytes × Bytes × Option Bytes) := Gen.levelText.lookup l
def stringOf (l : Lvl) : Bytes := ((row l).map (·.1)).getD []
def capitalOf (l : Lvl) : Bytes := ((row l).map (·.2.1)).getD []
def marshalOf (l : Lvl) : Option Bytes := ((row l).map (·.2.2)).getD none

/-! ### HTTP endpoint -/

/-- what the standard library hands to the level parser for a PUT (computed by net/http / encoding/json) -/
inductive JVal where
  | null
  | bad                      -- a JSON value that is not a string or null
  | text (t lo : Bytes)      -- a string, with its `bytes.ToLower` image

inductive Decoded where
  | form (t lo : Bytes)              -- FormValue("level") (body first, then query; "" when absent)
  | json (vals : List JVal)          -- the values of the top-level "level" members, in order
  | malformed                        -- body is not one JSON object (or null)

structure Req where
  method : String
  dec : Decoded

/-- decodePutJSON: fold over the level members; (pointer state, error) -/
def jsonFold : Option Lvl → List JVal → Option (Option Lvl)
  | st, [] => some st
  | _, .null :: r => jsonFold none r
  | _, .bad :: _ => none
  | _, .text t lo :: r =>
    match parse (fun _ => lo) t with
    | some l => jsonFold (some l) r
    | none => none

/-- requested level of a PUT, or none for a 400 -/
def decodePut : Decoded → Option Lvl
  | .form t lo => if t.isEmpty then none else parse (fun _ => lo) t
  | .json vals => (jsonFold none vals).join
  | .malformed => none

/-- serveHTTP: (status, level afterwards, level reported in the response if any) -/
def serve (cur : Lvl) (r : Req) : Nat × Lvl × Option Lvl :=
  if r.method = "GET" then (200, cur, some cur)
  else if r.method = "PUT" then
    match decodePut r.dec with
    | some l => (200, l, some l)
    | none => (400, cur, none)
  else (405, cur, none)

def serveAll (cur : Lvl) : List Req → List (Nat × Lvl × Option Lvl)
  | [] => []
  | r :: rs => let x := serve cur r; x :: serveAll x.2.1 rs

end ZapVerif.Level
