import ZapVerif.Model.Entry
/-! M4 (map side): `zapcore.MapObjectEncoder` / `sliceArrayEncoder` (zapcore/memory_encoder.go) as a function from
    call trees to the *skeleton* of the map it builds: which keys exist at which nesting, which are objects and
    arrays (leaf payloads are Go values the map keeps raw; they are compared by the C02 oracle, not here). -/
namespace ZapVerif.MapEnc
open ZapVerif ZapVerif.Json ZapVerif.Enc ZapVerif.Entry

inductive MV where
  | leaf
  | arr (xs : List MV)
  | obj (kvs : List (Bytes × MV))

/-- `m[k] = v`: replaces an existing key (a Go map has one slot per key), otherwise adds it -/
def put (k : Bytes) (v : MV) : List (Bytes × MV) → List (Bytes × MV)
  | [] => [(k, v)]
  | (k', v') :: r => if k' = k then (k, v) :: r else (k', v') :: put k v r

mutual
/-- the calls applied to the map `acc` through the `cur` pointer: `OpenNamespace` stores a fresh map under the key
    and redirects every later call into it -/
def mapFrom (key : Bytes → Bytes) (acc : List (Bytes × MV)) : List OC → List (Bytes × MV)
  | [] => acc
  | OC.prim k _ :: r => mapFrom key (put (key k) MV.leaf acc) r
  | OC.obj k body :: r => mapFrom key (put (key k) (MV.obj (mapFrom key [] body)) acc) r
  | OC.arr k body :: r => mapFrom key (put (key k) (MV.arr (mapArr key body)) acc) r
  | OC.ns k :: r => put (key k) (MV.obj (mapFrom key [] r)) acc
def mapArr (key : Bytes → Bytes) : List AC → List MV
  | [] => []
  | AC.prim _ :: r => MV.leaf :: mapArr key r
  | AC.obj body :: r => MV.obj (mapFrom key [] body) :: mapArr key r
  | AC.arr body :: r => MV.arr (mapArr key body) :: mapArr key r
end

/-- what `Field.AddTo` does on the MAP encoder: as on the JSON encoder, except that `AddReflected` never fails
    there (the value is stored as is), so a reflected field is always one member and never reports an error -/
def addToMap : Field → List OC
  | .refl k _ _ => [OC.prim k (J.atom [])]
  | f => addTo f

end ZapVerif.MapEnc
