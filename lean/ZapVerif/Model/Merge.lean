import ZapVerif.Model.Bytes
/-! M10 (byte-granular part): goroutines emitting whole lines to a sink under a mutex, any schedule. -/
namespace ZapVerif.Merge
open ZapVerif

structure Thr where
  todo : List Bytes          -- lines this goroutine still has to log
  cur : Option Bytes         -- some rest ⇒ holds the sink mutex, `rest` still to be emitted

structure St where
  thr : Nat → Thr
  lock : Option Nat
  sink : Bytes
  hist : List (Nat × Bytes)   -- ghost: (goroutine, line) in lock-acquisition order

def upd (f : Nat → Thr) (t : Nat) (v : Thr) : Nat → Thr := fun i => if i = t then v else f i

/-- one scheduler step of goroutine t; `none` = t is blocked or finished -/
def step (s : St) (t : Nat) : Option St :=
  match (s.thr t).cur with
  | some (b :: rest) => some { s with thr := upd s.thr t { (s.thr t) with cur := some rest }, sink := s.sink ++ [b] }
  | some [] => some { s with thr := upd s.thr t { (s.thr t) with cur := none }, lock := none }
  | none =>
    match (s.thr t).todo, s.lock with
    | l :: ls, none => some { s with thr := upd s.thr t { todo := ls, cur := some l }, lock := some t,
                                     hist := s.hist ++ [(t, l)] }
    | _, _ => none

def run (s : St) : List Nat → St
  | [] => s
  | t :: ts => match step s t with
    | some s' => run s' ts
    | none => run s ts          -- blocked thread: schedule someone else

def written (s : St) : Bytes := (s.hist.map (·.2)).flatten


end ZapVerif.Merge
