import ZapVerif.Model.Bytes
/-! M12 decision models for C19: `open` (writer.go), `Config.Build` sequencing (config.go), std-log redirection
    (global.go), the file-URL decision and `newSink` dispatch (sink.go), scheme normalisation and the two registries
    (sink.go, encoder.go). External calls (url.Parse, the OS open, encoder constructors) are parameters. -/
namespace ZapVerif.OpenBuild
open ZapVerif

/-! ## writer.go: open — every path is tried; on any failure everything opened is closed -/

/-- positions of the sinks that opened (`outs[i] = true` ⇔ path i opens) -/
def openedIdx : Nat → List Bool → List Nat
  | _, [] => []
  | i, true :: r => i :: openedIdx (i + 1) r
  | i, false :: r => openedIdx (i + 1) r

structure OpenRes where
  err : Bool
  opened : List Nat          -- sinks the factories returned, in path order
  closed : List Nat          -- sinks `open` closed before returning
  returned : List Nat        -- sinks inside the returned writer (and closed by the returned close function)
deriving Repr, DecidableEq

/-- `open(paths)` -/
def openAll (outs : List Bool) : OpenRes :=
  let o := openedIdx 0 outs
  if outs.all id then ⟨false, o, [], o⟩ else ⟨true, o, o, []⟩

/-! ## config.go: Build — encoder, level, output sinks, error sinks (closing the outputs when those fail) -/

inductive Enc where
  | ok | missingTime | noName | unknown | ctorErr
deriving Repr, DecidableEq

inductive Stage where
  | encoder | level | out | errout | done
deriving Repr, DecidableEq

structure Cfg where
  enc : Enc
  level : Bool               -- `cfg.Level != (AtomicLevel{})`
  outs : List Bool
  errs : List Bool
deriving Repr

structure BuildRes where
  stage : Stage              -- where Build returned
  openedOut : List Nat
  openedErr : List Nat
  closedOut : List Nat
  closedErr : List Nat
deriving Repr, DecidableEq

/-- `Config.Build` (with the repair of F16: the level is validated before anything is opened) -/
def build (c : Cfg) : BuildRes :=
  if c.enc ≠ .ok then ⟨.encoder, [], [], [], []⟩
  else if !c.level then ⟨.level, [], [], [], []⟩
  else
    let o := openAll c.outs
    if o.err then ⟨.out, o.opened, [], o.closed, []⟩
    else
      let e := openAll c.errs
      if e.err then ⟨.errout, o.opened, e.opened, o.returned, e.closed⟩   -- `closeOut()`
      else ⟨.done, o.opened, e.opened, [], []⟩

/-- `Config.Build` as it was: "missing Level" is returned after both sink lists were opened (F16) -/
def buildOld (c : Cfg) : BuildRes :=
  if c.enc ≠ .ok then ⟨.encoder, [], [], [], []⟩
  else
    let o := openAll c.outs
    if o.err then ⟨.out, o.opened, [], o.closed, []⟩
    else
      let e := openAll c.errs
      if e.err then ⟨.errout, o.opened, e.opened, o.returned, e.closed⟩
      else if !c.level then ⟨.level, o.opened, e.opened, [], []⟩
      else ⟨.done, o.opened, e.opened, [], []⟩

/-! ## global.go: redirectStdLogAt -/

/-- where the standard logger writes -/
inductive Out where
  | prev                      -- whatever was installed before
  | zap (level : Int)         -- a loggerWriter logging at `level`
  | stderr
deriving Repr, DecidableEq

structure StdLog where
  flags : Int
  pref : String
  out : Out
deriving Repr, DecidableEq

/-- `levelToFunc` knows Debug … Fatal -/
def validLevel (l : Int) : Bool := decide (-1 ≤ l) && decide (l ≤ 5)

/-- `redirectStdLogAt` (with the repair of F17: the level is validated before flags and prefix are touched);
    result: error?, the standard logger afterwards, and what the returned restore function installs -/
def redirectAt (s : StdLog) (l : Int) : Bool × StdLog × Option StdLog :=
  if validLevel l then (false, ⟨0, "", .zap l⟩, some ⟨s.flags, s.pref, .stderr⟩)
  else (true, s, none)

/-- as it was: flags and prefix are zeroed first (F17) -/
def redirectAtOld (s : StdLog) (l : Int) : Bool × StdLog × Option StdLog :=
  if validLevel l then (false, ⟨0, "", .zap l⟩, some ⟨s.flags, s.pref, .stderr⟩)
  else (true, ⟨0, "", s.out⟩, none)

/-! ## sink.go: file URLs and newSink -/

/-- the fields of the `*url.URL` the file factory looks at (computed by net/url; the harness passes them in) -/
structure URL where
  user : Bool                -- `u.User != nil`
  fragment : String
  rawQuery : String
  port : String              -- `u.Port()`
  hostname : String          -- `u.Hostname()`
  path : String
deriving Repr, DecidableEq

/-- `newFileSinkFromURL`: the path it hands to the opener, or a rejection -/
def fileDecision (u : URL) : Option String :=
  if u.user then none
  else if u.fragment ≠ "" then none
  else if u.rawQuery ≠ "" then none
  else if u.port ≠ "" then none
  else if u.hostname ≠ "" && u.hostname ≠ "localhost" then none
  else some u.path

inductive Target where
  | stdout | stderr | file (p : String)
deriving Repr, DecidableEq

/-- `newFileSinkFromPath` -/
def pathTarget (p : String) : Target :=
  if p = "stdout" then .stdout else if p = "stderr" then .stderr else .file p

inductive SinkChoice where
  | target (t : Target)       -- the file opener / a standard stream
  | parseError
  | rejected                  -- the file factory refused the URL
  | noSink                    -- no factory for the scheme
  | custom                    -- a registered factory
deriving Repr, DecidableEq

/-- `sinkRegistry.newSink`: absolute paths bypass URL parsing; an empty scheme means file -/
def newSink (isAbs : Bool) (raw : String) (parsed : Option (String × URL)) (registered : String → Bool) : SinkChoice :=
  if isAbs then .target (pathTarget raw)
  else match parsed with
    | none => .parseError
    | some (scheme, u) =>
      let sch := if scheme = "" then "file" else scheme
      if sch = "file" then
        match fileDecision u with
        | some p => .target (pathTarget p)
        | none => .rejected
      else if registered sch then .custom else .noSink

/-! ## scheme normalisation and the registries -/

def isUpper (c : UInt8) : Bool := 65 ≤ c && c ≤ 90
def isLower (c : UInt8) : Bool := 97 ≤ c && c ≤ 122
def isDigit (c : UInt8) : Bool := 48 ≤ c && c ≤ 57
def isLetter (c : UInt8) : Bool := isUpper c || isLower c
/-- RFC 3986 §3.1: scheme = ALPHA *( ALPHA / DIGIT / "+" / "-" / "." ) -/
def schemeRest (c : UInt8) : Bool := isLetter c || isDigit c || c == 46 || c == 43 || c == 45

def asciiLower (c : UInt8) : UInt8 := if isUpper c then c + 32 else c
def lowerBytes (s : Bytes) : Bytes := s.map asciiLower

/-- `normalizeScheme` (with the repair of F18: the bytes are validated before lower-casing, so only ASCII passes) -/
def normalizeScheme : Bytes → Option Bytes
  | [] => none
  | c :: r => if isLetter c && r.all schemeRest then some (lowerBytes (c :: r)) else none

/-- as it was: `strings.ToLower` (a parameter: Unicode-aware) runs first, then lower-case bytes are checked (F18) -/
def normalizeSchemeOld (toLower : Bytes → Bytes) (s : Bytes) : Option Bytes :=
  match toLower s with
  | [] => none
  | c :: r => if isLower c && r.all (fun c => isLower c || isDigit c || c == 46 || c == 43 || c == 45) then some (c :: r) else none

/-- a registry: normalised name ↦ factory / constructor id, in registration order -/
abbrev Reg := List (Bytes × Nat)

/-- `RegisterSink`: true = an error was returned -/
def registerSink (reg : Reg) (name : Bytes) (id : Nat) : Bool × Reg :=
  if name = [] then (true, reg)
  else match normalizeScheme name with
    | none => (true, reg)
    | some n => if (reg.lookup n).isSome then (true, reg) else (false, reg ++ [(n, id)])

/-- which factory `newSink` finds for a URL scheme (url.Parse lower-cases the scheme it read) -/
def resolveSink (reg : Reg) (scheme : Bytes) : Option Nat := reg.lookup (lowerBytes scheme)

/-- `RegisterEncoder`: names are taken literally -/
def registerEncoder (reg : Reg) (name : Bytes) (id : Nat) : Bool × Reg :=
  if name = [] then (true, reg)
  else if (reg.lookup name).isSome then (true, reg) else (false, reg ++ [(name, id)])

def resolveEncoder (reg : Reg) (name : Bytes) : Option Nat := if name = [] then none else reg.lookup name

/-- a sequence of registrations: per call the error flag, and the final registry -/
def registerAll (f : Reg → Bytes → Nat → Bool × Reg) : Reg → Nat → List Bytes → List Bool × Reg
  | reg, _, [] => ([], reg)
  | reg, i, n :: r =>
    let (e, reg') := f reg n i
    let (es, reg'') := registerAll f reg' (i + 1) r
    (e :: es, reg'')

end ZapVerif.OpenBuild

namespace ZapVerif.OpenBuild

/-- `NewStdLogAt`: builds a private *log.Logger; the package-level logger is not involved -/
def newStdLogAt (s : StdLog) (l : Int) : Bool × StdLog := (!validLevel l, s)

end ZapVerif.OpenBuild
