/-! Shape of the regenerated `Gen/Pools.lean` table (gen/pools.go) and the executable coverage classifier.

One `Pool` row per object pool of zap (`pool.New(func() *T {…})`): the fields of the pooled struct `T`, what the
constructor literal sets, which fields the *get path* assigns (the functions that call `<pool>.Get()`; a call
`v.m()` on the pooled variable is inlined one level, so `ce.reset()` and `buf.Reset()` count), which fields the
*put path* assigns before `<pool>.Put(v)`, with the right-hand sides as source text, and every call site of the
put functions.  `FreeSite` rows list every `x.Free()` call of the tree with the origin of `x` and the number of
reads of `x` that follow the call.  The theorems of `Props/C08.lean` are stated over these rows, so a new field,
a dropped reset, a new put site or a moved `Free` in the source breaks `lake build`. -/
namespace ZapVerif.PoolFacts

/-- one assignment `v.field = rhs` on a pooled variable; `always` = on every path through the function
    (top level, or in every branch of an if/else or switch with default) -/
structure Asg where
  field : String
  rhs : String
  always : Bool
deriving DecidableEq, Repr

structure Pool where
  id : String                -- "<dir>.<var>" (for the buffer pool: "buffer.Pool.p")
  elem : String              -- pooled struct type
  fields : List String       -- struct fields in declaration order (embedded fields by type name)
  newSets : List String      -- fields given a value by the constructor literal of `pool.New`
  getFns : List String       -- functions calling `<pool>.Get()`
  getSets : List Asg         -- assignments to the object on the get path
  putFns : List String       -- functions calling `<pool>.Put(v)`
  putSets : List Asg         -- assignments to the object on the put path, before Put
  putCalls : List String     -- other calls made through the object's fields on the put path (`reflectBuf.Free`)
  putSites : List String     -- call sites of the put functions ("<dir>.<func>"), sorted, with multiplicity
deriving DecidableEq, Repr

structure FreeSite where
  fn : String                -- enclosing function
  recv : String              -- receiver expression of `.Free()`
  origin : String            -- the statement that defined the receiver's root variable ("param" / "receiver" / "field")
  deferred : Bool            -- `defer x.Free()` or inside a deferred function literal
  usesAfter : Nat            -- reads of the receiver expression after the call in the same function (0 when `defer x.Free()`)
deriving DecidableEq, Repr

def Pool.setOnGet (p : Pool) (f : String) : Bool := p.getSets.any fun a => a.field == f && a.always
def Pool.resetOnPut (p : Pool) (f : String) : Bool := p.putSets.any fun a => a.field == f && a.always

/-- fields that are neither assigned on every get path nor on every put path -/
def Pool.uncovered (p : Pool) : List String :=
  p.fields.filter fun f => !(p.setOnGet f || p.resetOnPut f)

def find (t : List Pool) (id : String) : Option Pool := t.find? fun p => p.id == id

/-- (field, rhs) pairs of the unconditional assignments, sorted as generated -/
def always (as : List Asg) : List (String × String) := (as.filter (·.always)).map fun a => (a.field, a.rhs)
def sometimes (as : List Asg) : List (String × String) := (as.filter (!·.always)).map fun a => (a.field, a.rhs)

end ZapVerif.PoolFacts
