import ZapVerif.Model.Entry
import ZapVerif.Model.Console
/-! C08: zap's object pools as an executable heap machine.

`sync.Pool` is modelled as *"Get returns a fresh object (`New()`) or any object that was Put before"*: every pool
is the list of objects put so far, and an arbitrary oracle `orc : Nat → Option Nat` (indexed by the number of Gets
made so far) chooses, per Get, between `New()` (`none`, or an index out of range) and the i-th pooled object.  A GC
(`Op.gc`) drops an arbitrary subset of every pool.  Nothing else is assumed about `sync.Pool`.

Buffers live in a heap (`mem : id → bytes`) because the failure mode of a pooled buffer is *aliasing*: a stale
reference (an un-reset `reflectBuf`, a buffer freed before its last use) lets two owners write the same bytes.
The other pooled structs carry their fields by value.

Mirrored code (field by field, statement by statement):
  zapcore/json_encoder.go   `clone`, `Clone`, `putJSONEncoder`, `resetReflectBuf`/`encodeReflected`,
                            `AddReflected`/`AppendReflected`, `AppendObject`, `OpenNamespace`, `EncodeEntry`
  zapcore/console_encoder.go `getSliceEncoder`/`putSliceEncoder`, `EncodeEntry`, `writeContext`
  zapcore/entry.go          `getCheckedEntry`/`reset`/`putCheckedEntry`, `AddCore`, `After`, `Write`,
                            `EntryCaller.FullPath`/`TrimmedPath` (Get, write, copy out, Free)
  zapcore/error.go, error.go `newErrArrayElem`/`Free`, the inline Get/set/clear/Put of `zap.errArray`
  internal/stacktrace/stack.go `Capture`, `Free`
  buffer/pool.go, buffer.go `Pool.Get` (Reset + owner), `Free`
  zapcore/core.go           `ioCore.Write`: EncodeEntry, sink write, `buf.Free()` — split into `Op.enc…` and
                            `Op.deliver` so that any other activity (a re-entrant sink, other goroutines) can sit
                            between the two.

`Code` switches single statements of that code off; `Code.real` is the code as it is.  The switched-off variants
exist only to show (Props/C08.lean, `leak_*`) that the theorems are sensitive to exactly those statements. -/
namespace ZapVerif.Pools
open ZapVerif ZapVerif.Json ZapVerif.Enc ZapVerif.Entry

/-! ### call trees with reflected leaves marked (a reflected value travels through `reflectBuf`) -/

mutual
inductive RO where
  | prim (k : Bytes) (v : J)
  | refl (k : Bytes) (v : J)          -- AddReflected(key, x) that succeeded; `render v` is what encoding/json wrote
  | reflFail (k : Bytes)              -- AddReflected(key, x) whose Encode returned an error: only `reflectBuf` is touched
  | obj (k : Bytes) (body : List RO)
  | arr (k : Bytes) (body : List RA)
  | ns (k : Bytes)
inductive RA where
  | prim (v : J)
  | refl (v : J)
  | reflFail
  | obj (body : List RO)
  | arr (body : List RA)
end

mutual
/-- forget how a leaf reached the buffer: the call tree of the pure encoder model (`Model/Enc.lean`) -/
def eraseO : List RO → List OC
  | [] => []
  | RO.prim k v :: r => OC.prim k v :: eraseO r
  | RO.refl k v :: r => OC.prim k v :: eraseO r
  | RO.reflFail _ :: r => eraseO r
  | RO.obj k b :: r => OC.obj k (eraseO b) :: eraseO r
  | RO.arr k b :: r => OC.arr k (eraseA b) :: eraseO r
  | RO.ns k :: r => OC.ns k :: eraseO r
def eraseA : List RA → List AC
  | [] => []
  | RA.prim v :: r => AC.prim v :: eraseA r
  | RA.refl v :: r => AC.prim v :: eraseA r
  | RA.reflFail :: r => eraseA r
  | RA.obj b :: r => AC.obj (eraseO b) :: eraseA r
  | RA.arr b :: r => AC.arr (eraseA b) :: eraseA r
end

/-! ### pooled structs -/

/-- `*jsonEncoder` -/
structure JsonObj where
  cfg : Option Nat          -- *EncoderConfig (identity of the configuration; none = nil)
  buf : Option Nat          -- *buffer.Buffer (heap id)
  spaced : Bool
  openNs : Nat              -- openNamespaces
  reflectBuf : Option Nat
  reflectEnc : Option Nat   -- the buffer the json.Encoder was created over (`NewReflectedEncoder(enc.reflectBuf)`)
deriving DecidableEq, Repr

/-- `&jsonEncoder{}` -/
def JsonObj.fresh : JsonObj := ⟨none, none, false, 0, none, none⟩

/-- `*sliceArrayEncoder` -/
structure SliceObj where
  elems : List Bytes        -- the values appended, as `fmt.Fprint` prints them
deriving DecidableEq, Repr

def SliceObj.fresh : SliceObj := ⟨[]⟩   -- make([]interface{}, 0, 2)

/-- `*CheckedEntry` (cores and hooks by identity; `none` = a nil Core) -/
structure CEObj where
  ent : Nat                 -- Entry (0 = Entry{})
  errOut : Option Nat       -- ErrorOutput
  dirty : Bool
  after : Option Nat
  cores : List (Option Nat)
deriving DecidableEq, Repr

/-- `&CheckedEntry{cores: make([]Core, 4)}` — length 4, all nil -/
def CEObj.fresh : CEObj := ⟨0, none, false, none, [none, none, none, none]⟩

/-- `*errArrayElem` (both packages) -/
structure ErrObj where
  err : Option Nat
deriving DecidableEq, Repr

def ErrObj.fresh : ErrObj := ⟨none⟩

/-- `*stacktrace.Stack` -/
structure StackObj where
  pcs : Option (List Nat)
  frames : Option (List Nat)
  storage : List Nat
deriving DecidableEq, Repr

def StackObj.fresh : StackObj := ⟨none, none, List.replicate 64 0⟩

/-! ### observable results -/

inductive Out where
  | line (b : Bytes)                                   -- bytes handed to a sink / returned as a string
  | ctx (b : Bytes) (openNs : Nat)                     -- contents of a With-clone's buffer
  | ce (ent : Nat) (cores : List (Option Nat)) (after errOut : Option Nat) (reuse : Bool)
                                                       -- what `CheckedEntry.Write` acts on (`reuse`: the dirty check fired)
  | hook (ent : Nat) (after : Option Nat)              -- what a CheckWriteHook reads from the `*CheckedEntry` it was handed
  | err (e : Option Nat)                               -- the error `errArrayElem.MarshalLogObject` encodes
  | stack (pcs : List Nat)                             -- the program counters a captured Stack iterates over
deriving DecidableEq, Repr

/-! ### the code, with single statements that can be switched off -/

structure Code where
  putResetsOpenNs : Bool := true       -- putJSONEncoder: enc.openNamespaces = 0
  cloneSetsOpenNs : Bool := true       -- clone: clone.openNamespaces = enc.openNamespaces
  putResetsReflectBuf : Bool := true   -- putJSONEncoder: enc.reflectBuf = nil
  putResetsReflectEnc : Bool := true   -- putJSONEncoder: enc.reflectEnc = nil
  putTruncatesElems : Bool := true     -- putSliceEncoder: e.elems = e.elems[:0]
  resetTruncatesCores : Bool := true   -- CheckedEntry.reset: ce.cores = ce.cores[:0]
  resetClearsAfter : Bool := true      -- CheckedEntry.reset: ce.after = nil
  resetClearsErrOut : Bool := true     -- CheckedEntry.reset: ce.ErrorOutput = nil
  elemClearedOnPut : Bool := true      -- errArrayElem.Free: e.err = nil (a reference only: never read before the next set)
  freeAfterSink : Bool := true         -- ioCore.Write: buf.Free() after c.out.Write returned
  contextOnClone : Bool := true        -- consoleEncoder.writeContext: closeOpenNamespaces on a clone (`context`), never on the receiver
  putAfterHook : Bool := true          -- CheckedEntry.Write: putCheckedEntry(ce) after hook.OnWrite(ce, fields) returned
deriving DecidableEq, Repr

def Code.real : Code := {}

/-! ### heap -/

def upd (m : Nat → Bytes) (i : Nat) (v : Bytes) : Nat → Bytes := fun j => if j = i then v else m j

/-- CheckedEntries live in a heap of their own: a hook is handed a POINTER, so an entry that is back in the pool
    while its hook still runs is aliased by whoever gets it next -/
structure CEHeap where
  mem : Nat → CEObj
  next : Nat                 -- ids ≥ next are unallocated
  pool : List Nat            -- _cePool
  inHook : List Nat          -- entries whose `Write` is inside `hook.OnWrite(ce, fields)`

def updCE (m : Nat → CEObj) (i : Nat) (v : CEObj) : Nat → CEObj := fun j => if j = i then v else m j

/-- the fields of a core's long-lived encoder other than its buffer -/
structure LiveMeta where
  cfg : Nat
  spaced : Bool
  openNs : Nat
deriving DecidableEq, Repr

structure H where
  mem : Nat → Bytes          -- contents of every buffer ever allocated
  next : Nat                 -- ids ≥ next are unallocated
  bufPool : List Nat
  jsonPool : List JsonObj
  slicePool : List SliceObj
  ceh : CEHeap
  errPoolCore : List ErrObj
  errPoolZap : List ErrObj
  stackPool : List StackObj
  inflight : List Nat        -- buffers returned by EncodeEntry whose ioCore.Write frame has not freed them yet
  live : List Nat            -- buffers owned by With-clones, i.e. by the encoders that cores hold (never freed)
  tick : Nat                 -- Gets so far: index into the oracle
  fault : Bool               -- a nil dereference / slice out of range / runaway loop would have happened
  out : List Out             -- observable results, newest first
  liveMeta : List LiveMeta   -- the other fields of those encoders (same order as `live`)

def H.empty : H := ⟨fun _ => [], 0, [], [], [], ⟨fun _ => CEObj.fresh, 0, [], []⟩, [], [], [], [], [], 0, false, [], []⟩

abbrev Orc := Nat → Option Nat

/-- `sync.Pool.Get`: the oracle picks a pooled object, or `New()` -/
def takeAt {α} (fresh : α) (p : List α) : Option Nat → α × List α
  | none => (fresh, p)
  | some i =>
    match p[i]? with
    | some x => (x, p.eraseIdx i)
    | none => (fresh, p)

/-- `buffer.Pool.Get`: `buf := p.p.Get(); buf.Reset(); buf.pool = p` -/
def bufGet (orc : Orc) (h : H) : Nat × H :=
  let fresh : Nat × H := (h.next, { h with next := h.next + 1, mem := upd h.mem h.next [], tick := h.tick + 1 })
  match orc h.tick with
  | none => fresh
  | some i =>
    match h.bufPool[i]? with
    | some b => (b, { h with bufPool := h.bufPool.erase b, mem := upd h.mem b [], tick := h.tick + 1 })
    | none => fresh

/-- `Buffer.Free`: straight back into the pool, contents untouched -/
def bufFree (h : H) (b : Nat) : H := { h with bufPool := b :: h.bufPool }

/-! ### the JSON encoder driven through an object obtained from the pool -/

/-- heap plus the encoder object (`final` / `clone` / `context`) being driven -/
structure ES where
  h : H
  o : JsonObj

/-- append to `enc.buf` (the function sees the current contents: `addElementSeparator` looks at the last byte) -/
def wr (s : ES) (f : Bytes → Bytes) : ES :=
  match s.o.buf with
  | some b => { s with h := { s.h with mem := upd s.h.mem b (f (s.h.mem b)) } }
  | none => { s with h := { s.h with fault := true } }

def setNs (s : ES) (n : Nat) : ES := { s with o := { s.o with openNs := n } }

def trimNl (b : Bytes) : Bytes :=
  match b.getLast? with
  | some 10 => b.dropLast
  | _ => b

/-- `resetReflectBuf` -/
def resetReflect (orc : Orc) (s : ES) : ES :=
  match s.o.reflectBuf with
  | none =>
    let (b, h') := bufGet orc s.h
    ⟨h', { s.o with reflectBuf := some b, reflectEnc := some b }⟩
  | some rb => { s with h := { s.h with mem := upd s.h.mem rb [] } }

/-- `encodeReflected` for a value that encodes to `txt`: reset, `reflectEnc.Encode` (which writes `txt ++ "\n"` to
    the buffer the encoder was created over), `TrimNewline`, `reflectBuf.Bytes()` -/
def reflectVal (orc : Orc) (s : ES) (txt : Bytes) : ES × Bytes :=
  let s1 := resetReflect orc s
  let s2 : ES := match s1.o.reflectEnc with
    | some t => { s1 with h := { s1.h with mem := upd s1.h.mem t (s1.h.mem t ++ txt ++ [10]) } }
    | none => { s1 with h := { s1.h with fault := true } }
  match s2.o.reflectBuf with
  | some rb =>
    let s3 : ES := { s2 with h := { s2.h with mem := upd s2.h.mem rb (trimNl (s2.h.mem rb)) } }
    (s3, s3.h.mem rb)
  | none => ({ s2 with h := { s2.h with fault := true } }, [])

mutual
def runOH (orc : Orc) : ES → List RO → ES
  | s, [] => s
  | s, RO.prim k v :: r => runOH orc (wr s fun b => sep s.o.spaced (addKey s.o.spaced b k) ++ render v) r
  | s, RO.refl k v :: r =>
      let p := reflectVal orc s (render v)
      runOH orc (wr p.1 fun b => addKey s.o.spaced b k ++ p.2) r
  | s, RO.reflFail _ :: r => runOH orc (resetReflect orc s) r
  | s, RO.ns k :: r => runOH orc (setNs (wr s fun b => addKey s.o.spaced b k ++ [123]) (s.o.openNs + 1)) r
  | s, RO.obj k body :: r =>
      let s1 := runOH orc (wr (setNs s 0) fun b => sep s.o.spaced (addKey s.o.spaced b k) ++ [123]) body
      runOH orc (setNs (wr s1 fun b => b ++ 125 :: List.replicate s1.o.openNs 125) s.o.openNs) r
  | s, RO.arr k body :: r =>
      let s1 := runAH orc (wr s fun b => sep s.o.spaced (addKey s.o.spaced b k) ++ [91]) body
      runOH orc (wr s1 fun b => b ++ [93]) r
def runAH (orc : Orc) : ES → List RA → ES
  | s, [] => s
  | s, RA.prim v :: r => runAH orc (wr s fun b => sep s.o.spaced b ++ render v) r
  | s, RA.refl v :: r =>
      let p := reflectVal orc s (render v)
      runAH orc (wr p.1 fun b => sep s.o.spaced b ++ p.2) r
  | s, RA.reflFail :: r => runAH orc (resetReflect orc s) r
  | s, RA.obj body :: r =>
      let s1 := runOH orc (wr (setNs s 0) fun b => sep s.o.spaced b ++ [123]) body
      runAH orc (setNs (wr s1 fun b => b ++ 125 :: List.replicate s1.o.openNs 125) s.o.openNs) r
  | s, RA.arr body :: r =>
      let s1 := runAH orc (wr s fun b => sep s.o.spaced b ++ [91]) body
      runAH orc (wr s1 fun b => b ++ [93]) r
end

/-- the logger's own encoder (made by `NewJSONEncoder`/`NewConsoleEncoder` or by `Clone`; never in a pool) -/
structure Parent where
  cfg : Nat
  spaced : Bool
  ctx : Bytes               -- contents of its buffer
  openNs : Nat

/-- `jsonEncoder.clone` once `_jsonPool.Get()` has returned `g`: four assignments (the last one calls
    `bufferpool.Get()`); `reflectBuf` and `reflectEnc` stay whatever `g` carried -/
def cloneFrom (c : Code) (orc : Orc) (h : H) (g : JsonObj) (p : Parent) : ES :=
  let o1 : JsonObj := { g with cfg := some p.cfg, spaced := p.spaced,
                               openNs := if c.cloneSetsOpenNs then p.openNs else g.openNs }
  let b := bufGet orc h
  ⟨b.2, { o1 with buf := some b.1 }⟩

/-- `jsonEncoder.clone` -/
def clone (c : Code) (orc : Orc) (h : H) (p : Parent) : ES :=
  let g := takeAt JsonObj.fresh h.jsonPool (orc h.tick)
  cloneFrom c orc { h with jsonPool := g.2, tick := h.tick + 1 } g.1 p

/-- `putJSONEncoder` -/
def putJson (c : Code) (h : H) (o : JsonObj) : H :=
  let h1 := match o.reflectBuf with
    | some rb => bufFree h rb
    | none => h
  let o' : JsonObj := { cfg := none, buf := none, spaced := false,
                        openNs := if c.putResetsOpenNs then 0 else o.openNs,
                        reflectBuf := if c.putResetsReflectBuf then none else o.reflectBuf,
                        reflectEnc := if c.putResetsReflectEnc then none else o.reflectEnc }
  { h1 with jsonPool := o' :: h1.jsonPool }

/-- `closeOpenNamespaces` -/
def closeNs (s : ES) : ES := setNs (wr s fun b => b ++ List.replicate s.o.openNs 125) 0

/-- what one `EncodeEntry` call is asked to encode -/
structure Job where
  metaCalls : List RO       -- level, time, name, caller, function, message (in that order)
  fields : List RO
  stack : List RO
  ending : Bytes

/-- every `final.X` of EncodeEntry reads the configuration through the object obtained from the pool -/
def cfgCheck (s : ES) (p : Parent) : ES :=
  if s.o.cfg = some p.cfg then s else { s with h := { s.h with fault := true } }

/-- the body of `jsonEncoder.EncodeEntry` between `final := enc.clone()` and `putJSONEncoder(final)` -/
def encodeBody (orc : Orc) (s0 : ES) (p : Parent) (j : Job) : ES :=
  let s1 := wr s0 (· ++ [123])
  let s2 := runOH orc s1 j.metaCalls
  let s3 := if p.ctx.isEmpty then s2 else wr s2 fun b => sep s2.o.spaced b ++ p.ctx
  let s4 := runOH orc s3 j.fields
  let s5 := closeNs s4
  let s6 := runOH orc s5 j.stack
  wr s6 (· ++ 125 :: j.ending)

/-- `jsonEncoder.EncodeEntry`: returns the buffer it hands to the caller -/
def encodeJson (c : Code) (orc : Orc) (h : H) (p : Parent) (j : Job) : Nat × H :=
  let s7 := encodeBody orc (cfgCheck (clone c orc h p) p) p j
  (s7.o.buf.getD 0, putJson c s7.h s7.o)

/-- `EncodeEntry` when `_jsonPool.Get()` returned the object `g` (fresh or any garbage): the bytes the caller
    receives, and the heap afterwards -/
def encodeEntryFrom (c : Code) (orc : Orc) (h : H) (g : JsonObj) (p : Parent) (j : Job) : Bytes × H :=
  let s7 := encodeBody orc (cfgCheck (cloneFrom c orc h g p) p) p j
  let h' := putJson c s7.h s7.o
  (h'.mem (s7.o.buf.getD 0), h')

/-- the pure function the property asks for: the encoder model of C01/C02 (`Enc.encodeEntry`) on the same inputs -/
def pureJson (p : Parent) (j : Job) : Bytes :=
  encodeEntry p.spaced (eraseO j.metaCalls) ⟨p.ctx, p.openNs⟩ (eraseO j.fields) (eraseO j.stack) j.ending

/-- `Clone()` (copy the parent's bytes into the clone's buffer) followed by `addFields` -/
def cloneBody (orc : Orc) (s0 : ES) (p : Parent) (fields : List RO) : ES :=
  runOH orc (wr s0 (· ++ p.ctx)) fields

/-! ### console encoder -/

structure CJob where
  cols : List Bytes         -- what the configured sub-encoders append to the slice encoder, as printed
  sepc : Bytes              -- ConsoleSeparator
  msg : Option Bytes        -- the message (none: MessageKey = "")
  fields : List RO
  stack : Option Bytes
  ending : Bytes

/-- `getSliceEncoder` -/
def sliceGet (orc : Orc) (h : H) : SliceObj × H :=
  let g := takeAt SliceObj.fresh h.slicePool (orc h.tick)
  (g.1, { h with slicePool := g.2, tick := h.tick + 1 })

/-- `putSliceEncoder` -/
def slicePut (c : Code) (h : H) (a : SliceObj) : H :=
  { h with slicePool := (if c.putTruncatesElems then { a with elems := [] } else a) :: h.slicePool }

def setMem (h : H) (b : Nat) (f : Bytes → Bytes) : H := { h with mem := upd h.mem b (f (h.mem b)) }

/-- the values `consoleEncoder.EncodeEntry` prints when `getSliceEncoder` returned `a` and the sub-encoders appended `cols` -/
def columnsFrom (a : SliceObj) (cols : List Bytes) : List Bytes := a.elems ++ cols

/-- `consoleEncoder.EncodeEntry`, first part: `line := bufferpool.Get()`, the columns through the pooled slice
    encoder (`getSliceEncoder` … `putSliceEncoder`), the message -/
def consoleHead (c : Code) (orc : Orc) (h : H) (j : CJob) : Nat × H :=
  let l := bufGet orc h
  let line := l.1
  let a := sliceGet orc l.2
  let arr : SliceObj := { a.1 with elems := columnsFrom a.1 j.cols }
  let h1 := setMem a.2 line fun _ => Console.joinSep j.sepc arr.elems
  let h2 := slicePut c h1 arr
  match j.msg with
  | some m => (line, setMem h2 line fun b => Console.sepIf j.sepc b ++ m)
  | none => (line, h2)

/-- `writeContext`: `context := c.jsonEncoder.Clone()`, `addFields`, `closeOpenNamespaces`, copy into the line, and
    the deferred `context.buf.Free(); putJSONEncoder(context)` -/
def consoleCtx (c : Code) (orc : Orc) (h : H) (line : Nat) (p : Parent) (j : CJob) : H :=
  let s2 := closeNs (cloneBody orc (cfgCheck (clone c orc h p) p) p j.fields)
  let cb := s2.h.mem (s2.o.buf.getD 0)
  let h4 := if cb.isEmpty then s2.h else setMem s2.h line fun b => Console.sepIf j.sepc b ++ 123 :: (cb ++ [125])
  putJson c (bufFree h4 (s2.o.buf.getD 0)) s2.o

/-- `writeContext` when a marshaler among `extra` panics after having made the calls `fields`: only the deferred
    `context.buf.Free(); putJSONEncoder(context)` runs — the one put site that can see namespaces still open -/
def consoleCtxPanic (c : Code) (orc : Orc) (h : H) (p : Parent) (fields : List RO) : H :=
  let s := cloneBody orc (cfgCheck (clone c orc h p) p) p fields
  putJson c (bufFree s.h (s.o.buf.getD 0)) s.o

/-- stack trace and line ending -/
def consoleTail (h : H) (line : Nat) (j : CJob) : H :=
  let h6 := match j.stack with
    | some st => setMem h line fun b => b ++ 10 :: st
    | none => h
  setMem h6 line fun b => b ++ j.ending

/-- `consoleEncoder.EncodeEntry`: returns the line buffer -/
def encodeConsole (c : Code) (orc : Orc) (h : H) (p : Parent) (j : CJob) : Nat × H :=
  let hd := consoleHead c orc h j
  (hd.1, consoleTail (consoleCtx c orc hd.2 hd.1 p j) hd.1 j)

/-- the pure console line: `Console.consoleLine` with its inputs already resolved (`consoleLine_pure`) -/
def pureConsole (p : Parent) (j : CJob) : Bytes :=
  let l1 := Console.joinSep j.sepc j.cols
  let l2 := match j.msg with
    | some m => Console.sepIf j.sepc l1 ++ m
    | none => l1
  let e := runO p.spaced ⟨p.ctx, p.openNs⟩ (eraseO j.fields)
  let cb := e.buf ++ List.replicate e.openNs 125
  let l3 := if cb.isEmpty then l2 else Console.sepIf j.sepc l2 ++ 123 :: (cb ++ [125])
  let l4 := match j.stack with
    | some st => l3 ++ 10 :: st
    | none => l3
  l4 ++ j.ending

/-! ### CheckedEntry, errArrayElem, Stack -/

/-- `CheckedEntry.reset` -/
def ceReset (c : Code) (g : CEObj) : CEObj :=
  { ent := 0,
    errOut := if c.resetClearsErrOut then none else g.errOut,
    dirty := false,
    after := if c.resetClearsAfter then none else g.after,
    cores := if c.resetTruncatesCores then [] else g.cores }

/-- `_cePool.Get()`: `pick` = the pooled entry the pool hands out, or `New()` -/
def cePick (pick : Option Nat) (e : CEHeap) : Nat × CEHeap :=
  let fresh : Nat × CEHeap := (e.next, { e with next := e.next + 1, mem := updCE e.mem e.next CEObj.fresh })
  match pick with
  | none => fresh
  | some i =>
    match e.pool[i]? with
    | some id => (id, { e with pool := e.pool.erase id })
    | none => fresh

/-- `ce.reset()` on the entry just obtained -/
def ceResetAt (c : Code) (r : Nat × CEHeap) : Nat × CEHeap :=
  (r.1, { r.2 with mem := updCE r.2.mem r.1 (ceReset c (r.2.mem r.1)) })

/-- `getCheckedEntry` -/
def ceTake (c : Code) (pick : Option Nat) (e : CEHeap) : Nat × CEHeap := ceResetAt c (cePick pick e)

/-- `core.Check` by every accepting core (`AddCore`), `After`, `ce.ErrorOutput = …`, then `Write` up to the point
    where the hook is entered (or the entry is dropped: never returned to the pool).  Without a hook `Write` returns
    the entry to the pool at once; with a hook the entry is returned when the hook has returned (`ceHookReturn`).
    Result: the heap and what `Write` acted on -/
def ceCheck (c : Code) (pick : Option Nat) (e : CEHeap) (ent : Nat) (cores : List Nat) (after errOut : Option Nat)
    (write : Bool) : CEHeap × Option Out :=
  let g := ceTake c pick e
  let id := g.1
  let ce0 := g.2.mem id
  let ce : CEObj := { ce0 with ent := ent, cores := ce0.cores ++ cores.map some,
                               after := match after with | some a => some a | none => ce0.after,
                               errOut := match errOut with | some x => some x | none => ce0.errOut }
  if write then
    let e1 : CEHeap := { g.2 with mem := updCE g.2.mem id { ce with dirty := true } }
    let o := Out.ce ce.ent ce.cores ce.after ce.errOut ce.dirty
    match ce.after with
    | some _ =>
      if c.putAfterHook then ({ e1 with inHook := id :: e1.inHook }, some o)
      else ({ e1 with inHook := id :: e1.inHook, pool := id :: e1.pool }, some o)
    | none => ({ e1 with pool := id :: e1.pool }, some o)
  else ({ g.2 with mem := updCE g.2.mem id ce }, none)

/-- the i-th running hook reads the `*CheckedEntry` it was handed and returns; `Write` then calls `putCheckedEntry` -/
def ceHookReturn (c : Code) (e : CEHeap) (i : Nat) : CEHeap × Option Out :=
  match e.inHook[i]? with
  | some id =>
    let e1 : CEHeap := { e with inHook := e.inHook.eraseIdx i }
    (if c.putAfterHook then { e1 with pool := id :: e1.pool } else e1, some (Out.hook (e.mem id).ent (e.mem id).after))
  | none => (e, none)

def pushOut (o : Option Out) (out : List Out) : List Out :=
  match o with
  | some x => x :: out
  | none => out

def checkWrite (c : Code) (orc : Orc) (h : H) (ent : Nat) (cores : List Nat) (after errOut : Option Nat) (write : Bool) : H :=
  let r := ceCheck c (orc h.tick) h.ceh ent cores after errOut write
  { h with ceh := r.1, tick := h.tick + 1, out := pushOut r.2 h.out }

def hookReturn (c : Code) (h : H) (i : Nat) : H :=
  let r := ceHookReturn c h.ceh i
  { h with ceh := r.1, out := pushOut r.2 h.out }

/-- `newErrArrayElem(err)`, `arr.AppendObject(el)`, `el.Free()` (zapcore) and the inline form of package zap -/
def errElem (c : Code) (orc : Orc) (h : H) (zapPkg : Bool) (e : Nat) : H :=
  let pool := if zapPkg then h.errPoolZap else h.errPoolCore
  let g := takeAt ErrObj.fresh pool (orc h.tick)
  let el : ErrObj := { g.1 with err := some e }
  let put : ErrObj := if c.elemClearedOnPut then { el with err := none } else el
  let h1 : H := { h with tick := h.tick + 1, out := Out.err el.err :: h.out }
  if zapPkg then { h1 with errPoolZap := put :: g.2 } else { h1 with errPoolCore := put :: g.2 }

/-- the doubling loop of `Capture` (`for numFrames == len(pcs) { pcs = make([]uintptr, len(pcs)*2) … }`):
    the final slice length; `none` when the fuel ran out (cannot happen for len ≥ 1) -/
def growLen : Nat → Nat → Nat → Option Nat
  | 0, _, _ => none
  | fuel + 1, len, avail => if avail < len then some len else growLen fuel (2 * len) avail

/-- `runtime.Callers(skip, pcs)`: fills a prefix of `pcs`, returns how many -/
def callers (avail : List Nat) (pcs : List Nat) : List Nat × Nat :=
  let n := min avail.length pcs.length
  (avail.take n ++ pcs.drop n, n)

/-- `Capture(skip, depth)` on the object `g` obtained from the pool; `avail` = the goroutine's stack below `skip`.
    Returns the object as the caller sees it and whether the code would have failed. -/
def captureFrom (g : StackObj) (avail : List Nat) (full : Bool) : StackObj × Bool :=
  if g.storage.length = 0 then
    -- First: storage[:1] panics; Full: len(pcs)*2 = 0 forever
    ({ g with pcs := some [], frames := some [] }, true)
  else if full then
    let r := callers avail g.storage
    if r.2 = g.storage.length then
      match growLen (avail.length + 1) (2 * g.storage.length) avail.length with
      | some len =>
        let r2 := callers avail (List.replicate len 0)
        ({ pcs := some (r2.1.take r2.2), frames := some (r2.1.take r2.2), storage := r2.1 }, false)
      | none => ({ g with pcs := some [], frames := some [] }, true)
    else ({ pcs := some (r.1.take r.2), frames := some (r.1.take r.2), storage := r.1 }, false)
  else
    let r := callers avail (g.storage.take 1)
    ({ pcs := some (r.1.take r.2), frames := some (r.1.take r.2), storage := r.1 ++ g.storage.drop 1 }, false)

/-- `Capture` … use … `Free` -/
def capture (orc : Orc) (h : H) (avail : List Nat) (full : Bool) : H :=
  let g := takeAt StackObj.fresh h.stackPool (orc h.tick)
  let r := captureFrom g.1 avail full
  let st := r.1
  { h with tick := h.tick + 1, fault := h.fault || r.2,
           out := Out.stack (st.frames.getD []) :: h.out,
           stackPool := { st with frames := none, pcs := none } :: g.2 }

/-! ### what every put site re-establishes (`pool_inv_preserved`) and every get site may rely on -/

/-- a pooled jsonEncoder references no buffer: `buf` and `reflectBuf` are nil.  (`EncoderConfig`, `spaced` and
    `openNamespaces` are assigned by `clone`; `reflectEnc` is only read after `resetReflectBuf` assigned it, which it
    does whenever `reflectBuf` is nil — so none of them is constrained.) -/
def JsonObj.PutInv (o : JsonObj) : Prop := o.buf = none ∧ o.reflectBuf = none
/-- a pooled slice encoder is empty -/
def SliceObj.PutInv (a : SliceObj) : Prop := a.elems = []
/-- a pooled Stack has room for at least one program counter (`storage[:1]`, `len(pcs)*2`) -/
def StackObj.PutInv (st : StackObj) : Prop := 1 ≤ st.storage.length
/-- `getCheckedEntry` resets every field: nothing is required of a pooled CheckedEntry -/
def CEObj.PutInv (_ : CEObj) : Prop := True
/-- `err` is assigned on get: nothing is required of a pooled errArrayElem -/
def ErrObj.PutInv (_ : ErrObj) : Prop := True

/-! ### histories -/

inductive Op where
  | encJson (p : Parent) (j : Job)          -- ioCore.Write up to the sink call, JSON encoder
  | encConsole (p : Parent) (j : CJob)      -- the same with the console encoder
  | deliver (i : Nat)                       -- the sink of the i-th in-flight Write returns: the bytes are what it saw; Free
  | withClone (p : Parent) (fields : List RO) -- ioCore.With: Clone + addFields; the clone lives on
  | peek (i : Nat)                          -- somebody reads the buffer of the i-th live With-clone
  | encJsonAt (k : Nat) (j : Job)           -- ioCore.Write on the core whose encoder is the k-th created clone (JSON)
  | encConsoleAt (k : Nat) (j : CJob)       -- the same, console encoder
  | withAt (k : Nat) (fields : List RO)     -- ioCore.With on that core: a child core with its own clone
  | check (ent : Nat) (cores : List Nat) (after errOut : Option Nat) (write : Bool)
  | hookReturn (i : Nat)                    -- the hook of the i-th entry that is inside `hook.OnWrite` reads it and returns
  | errElem (zapPkg : Bool) (e : Nat)
  | capture (avail : List Nat) (full : Bool)
  | scratch (s : Bytes)                     -- FullPath / TrimmedPath / Take / Logger.check: Get, write, copy out, Free
  | ctxPanic (p : Parent) (j : CJob)        -- console EncodeEntry whose fields panic after the calls `j.fields`: the
                                            -- line buffer is lost, the deferred put of writeContext runs
  | gc (keep : Nat → Bool)                  -- a GC cycle drops any subset of every pool

def keepIdx {α} (k : Nat → Bool) : Nat → List α → List α
  | _, [] => []
  | i, x :: r => if k i then x :: keepIdx k (i + 1) r else keepIdx k (i + 1) r

/-- the k-th encoder ever cloned for a core (creation order; `live` is newest first) -/
def liveAt {α} (l : List α) (k : Nat) : Option α := l.reverse[k]?

/-- the encoder the k-th core holds, as `EncodeEntry`/`Clone` read it: configuration, spacing, the bytes of its
    buffer, its namespace counter -/
def parentAt (h : H) (k : Nat) : Parent :=
  match liveAt h.live k, liveAt h.liveMeta k with
  | some b, some m => ⟨m.cfg, m.spaced, h.mem b, m.openNs⟩
  | _, _ => ⟨0, false, [], 0⟩       -- no such clone: a core made by NewCore over a brand-new encoder

def stepEncJson (c : Code) (orc : Orc) (h : H) (p : Parent) (j : Job) : H :=
  let r := encodeJson c orc h p j
  let h1 : H := { r.2 with inflight := r.1 :: r.2.inflight }
  if c.freeAfterSink then h1 else bufFree h1 r.1

def stepEncConsole (c : Code) (orc : Orc) (h : H) (p : Parent) (j : CJob) : H :=
  let r := encodeConsole c orc h p j
  let h1 : H := { r.2 with inflight := r.1 :: r.2.inflight }
  if c.freeAfterSink then h1 else bufFree h1 r.1

def stepWith (c : Code) (orc : Orc) (h : H) (p : Parent) (fields : List RO) : H :=
  let s2 := cloneBody orc (cfgCheck (clone c orc h p) p) p fields
  let b := s2.o.buf.getD 0
  { s2.h with live := b :: s2.h.live, liveMeta := ⟨p.cfg, p.spaced, s2.o.openNs⟩ :: s2.h.liveMeta,
              out := Out.ctx (s2.h.mem b) s2.o.openNs :: s2.h.out }

def setAt {α} (l : List α) (k : Nat) (v : α) : List α := (l.reverse.set k v).reverse

/-- the variant of `writeContext` with a "no fields" fast path that closes the namespaces of the RECEIVER: the core's
    own encoder gets the closing braces and a zero counter, for good -/
def closeOnReceiver (h : H) (k : Nat) : H :=
  match liveAt h.live k, liveAt h.liveMeta k with
  | some b, some m =>
    { h with mem := upd h.mem b (h.mem b ++ List.replicate m.openNs 125), liveMeta := setAt h.liveMeta k { m with openNs := 0 } }
  | _, _ => h

def step (c : Code) (orc : Orc) (h : H) : Op → H
  | .encJson p j => stepEncJson c orc h p j
  | .encConsole p j => stepEncConsole c orc h p j
  | .encJsonAt k j => stepEncJson c orc h (parentAt h k) j
  | .encConsoleAt k j =>
    let h0 := if !c.contextOnClone && j.fields.isEmpty then closeOnReceiver h k else h
    stepEncConsole c orc h0 (parentAt h0 k) j
  | .withAt k fields => stepWith c orc h (parentAt h k) fields
  | .deliver i =>
    match h.inflight[i]? with
    | some b =>
      let h1 : H := { h with inflight := h.inflight.eraseIdx i, out := Out.line (h.mem b) :: h.out }
      if c.freeAfterSink then bufFree h1 b else h1
    | none => h
  | .withClone p fields => stepWith c orc h p fields
  | .peek i =>
    match h.live[i]? with
    | some b => { h with out := Out.line (h.mem b) :: h.out }
    | none => h
  | .check ent cores after errOut write => checkWrite c orc h ent cores after errOut write
  | .hookReturn i => hookReturn c h i
  | .errElem z e => errElem c orc h z e
  | .capture avail full => capture orc h avail full
  | .scratch s =>
    let b := bufGet orc h
    let h1 := setMem b.2 b.1 fun x => x ++ s
    bufFree { h1 with out := Out.line (h1.mem b.1) :: h1.out } b.1
  | .ctxPanic p j =>
    let hd := consoleHead c orc h j
    consoleCtxPanic c orc hd.2 p j.fields
  | .gc k =>
    { h with bufPool := keepIdx k 0 h.bufPool, jsonPool := keepIdx k 0 h.jsonPool, slicePool := keepIdx k 0 h.slicePool,
             ceh := { h.ceh with pool := keepIdx k 0 h.ceh.pool }, errPoolCore := keepIdx k 0 h.errPoolCore, errPoolZap := keepIdx k 0 h.errPoolZap,
             stackPool := keepIdx k 0 h.stackPool }

def run (c : Code) (orc : Orc) (h : H) (ops : List Op) : H := ops.foldl (step c orc) h

/-! ### the same history without pools, heap or oracle: every result is a function of its own operation -/

structure PS where
  inflight : List Bytes
  live : List Bytes
  inHook : List (Nat × Option Nat)
  out : List Out
  liveMeta : List LiveMeta

def PS.empty : PS := ⟨[], [], [], [], []⟩

def pureCtx (p : Parent) (fields : List RO) : Enc.Enc := runO p.spaced ⟨p.ctx, p.openNs⟩ (eraseO fields)

def pparentAt (s : PS) (k : Nat) : Parent :=
  match liveAt s.live k, liveAt s.liveMeta k with
  | some b, some m => ⟨m.cfg, m.spaced, b, m.openNs⟩
  | _, _ => ⟨0, false, [], 0⟩

def pstepWith (s : PS) (p : Parent) (fields : List RO) : PS :=
  let e := pureCtx p fields
  { s with live := e.buf :: s.live, liveMeta := ⟨p.cfg, p.spaced, e.openNs⟩ :: s.liveMeta, out := Out.ctx e.buf e.openNs :: s.out }

def pstep (s : PS) : Op → PS
  | .encJson p j => { s with inflight := pureJson p j :: s.inflight }
  | .encConsole p j => { s with inflight := pureConsole p j :: s.inflight }
  | .encJsonAt k j => { s with inflight := pureJson (pparentAt s k) j :: s.inflight }
  | .encConsoleAt k j => { s with inflight := pureConsole (pparentAt s k) j :: s.inflight }
  | .withAt k fields => pstepWith s (pparentAt s k) fields
  | .deliver i =>
    match s.inflight[i]? with
    | some l => { s with inflight := s.inflight.eraseIdx i, out := Out.line l :: s.out }
    | none => s
  | .withClone p fields => pstepWith s p fields
  | .peek i =>
    match s.live[i]? with
    | some l => { s with out := Out.line l :: s.out }
    | none => s
  | .check ent cores after errOut write =>
    if write then
      match after with
      | some a => { s with out := Out.ce ent (cores.map some) after errOut false :: s.out, inHook := (ent, some a) :: s.inHook }
      | none => { s with out := Out.ce ent (cores.map some) after errOut false :: s.out }
    else s
  | .hookReturn i =>
    match s.inHook[i]? with
    | some v => { s with inHook := s.inHook.eraseIdx i, out := Out.hook v.1 v.2 :: s.out }
    | none => s
  | .errElem _ e => { s with out := Out.err (some e) :: s.out }
  | .capture avail full => { s with out := Out.stack (if full then avail else avail.take 1) :: s.out }
  | .scratch b => { s with out := Out.line b :: s.out }
  | .ctxPanic _ _ => s
  | .gc _ => s

def prun (s : PS) (ops : List Op) : PS := ops.foldl pstep s

/-- `nested d mid`: the operations `mid` only complete (`deliver`) Writes that were started inside `mid`
    (`d` of them are still in flight) and finish them all — anything else may happen: other loggers logging, a
    re-entrant sink, With-clones, checked entries, stack captures, scratch buffers, GC cycles -/
def nested : Nat → List Op → Bool
  | d, [] => d == 0
  | d, .encJson _ _ :: r => nested (d + 1) r
  | d, .encConsole _ _ :: r => nested (d + 1) r
  | d, .encJsonAt _ _ :: r => nested (d + 1) r
  | d, .encConsoleAt _ _ :: r => nested (d + 1) r
  | d, .withAt _ _ :: r => nested d r
  | d, .deliver i :: r => decide (i < d) && nested (d - 1) r
  | d, .withClone _ _ :: r => nested d r
  | d, .peek _ :: r => nested d r
  | d, .check _ _ _ _ _ :: r => nested d r
  | d, .hookReturn _ :: r => nested d r
  | d, .errElem _ _ :: r => nested d r
  | d, .capture _ _ :: r => nested d r
  | d, .scratch _ :: r => nested d r
  | d, .ctxPanic _ _ :: r => nested d r
  | d, .gc _ :: r => nested d r

/-- `hnested d mid`: the operations `mid` only let hooks return that were entered inside `mid` (`d` of them still
    running) and let them all return — anything else may happen while an earlier hook is running: the hook itself
    logging through other loggers (with or without hooks of their own), other goroutines logging, GC cycles -/
def hnested : Nat → List Op → Bool
  | d, [] => d == 0
  | d, .check _ _ (some _) _ true :: r => hnested (d + 1) r
  | d, .check _ _ none _ true :: r => hnested d r
  | d, .check _ _ _ _ false :: r => hnested d r
  | d, .hookReturn i :: r => decide (i < d) && hnested (d - 1) r
  | d, .encJson _ _ :: r => hnested d r
  | d, .encConsole _ _ :: r => hnested d r
  | d, .encJsonAt _ _ :: r => hnested d r
  | d, .encConsoleAt _ _ :: r => hnested d r
  | d, .withAt _ _ :: r => hnested d r
  | d, .deliver _ :: r => hnested d r
  | d, .withClone _ _ :: r => hnested d r
  | d, .peek _ :: r => hnested d r
  | d, .errElem _ _ :: r => hnested d r
  | d, .capture _ _ :: r => hnested d r
  | d, .scratch _ :: r => hnested d r
  | d, .ctxPanic _ _ :: r => hnested d r
  | d, .gc _ :: r => hnested d r

/-! ### the invariant of the heap machine -/

/-- the buffers in `owned` are allocated, pairwise distinct and not in the pool; the pool has no duplicates -/
def Owns (h : H) (owned : List Nat) : Prop :=
  (h.bufPool ++ owned).Nodup ∧ ∀ x ∈ h.bufPool ++ owned, x < h.next

/-- every pooled object satisfies its put-invariant; every buffer that is in flight or owned by a With-clone is
    owned (so: not in the pool, not referenced by a pooled encoder); no fault has happened -/
structure Inv (h : H) : Prop where
  json : ∀ o ∈ h.jsonPool, o.PutInv
  slice : ∀ a ∈ h.slicePool, a.PutInv
  stack : ∀ st ∈ h.stackPool, st.PutInv
  ce : (h.ceh.pool ++ h.ceh.inHook).Nodup ∧ ∀ x ∈ h.ceh.pool ++ h.ceh.inHook, x < h.ceh.next
  errCore : ∀ e ∈ h.errPoolCore, e.PutInv
  errZap : ∀ e ∈ h.errPoolZap, e.PutInv
  owns : Owns h (h.inflight ++ h.live)
  nofault : h.fault = false

/-- the heap machine and the pool-free run agree on everything observable, now and later -/
def Rel (h : H) (ps : PS) : Prop :=
  h.inflight.map h.mem = ps.inflight ∧ h.live.map h.mem = ps.live ∧ h.out = ps.out ∧
  h.ceh.inHook.map (fun id => ((h.ceh.mem id).ent, (h.ceh.mem id).after)) = ps.inHook ∧ h.liveMeta = ps.liveMeta

end ZapVerif.Pools
