import ZapVerif.Model.Bytes
/-! M8: model of the sampling core (zapcore/sampler.go).

`counter{resetAt,counter}` per (level, fnv32a(message) % 4096); `IncCheckReset`; the admission predicate of
`sampler.Check` (called `allows` here); `Check` for disabled / out-of-range levels; `With` sharing `counts`;
the hook called once with the decision.  Timestamps are `Entry.Time.UnixNano()` as unbounded `Int`
(int64 overflow of `t + tick` is outside the model: see the hypothesis `NoOverflow` in Props/C11). -/
namespace ZapVerif.Sampler

/-! ## bucket selection: `fnv32a` on `uint32`, `counters.get` -/

def fnvOffset : UInt32 := 2166136261
def fnvPrime : UInt32 := 16777619

/-- `fnv32a(s string) uint32`: `hash ^= uint32(s[i]); hash *= prime32` (wrapping multiplication) -/
def fnv32a (s : Bytes) : UInt32 := s.foldl (fun h b => (h ^^^ b.toUInt32) * fnvPrime) fnvOffset

/-- `_countersPerLevel` -/
def numBuckets : Nat := 4096

def bucket (s : Bytes) : Nat := (fnv32a s).toNat % numBuckets

/-- `_minLevel` (Debug) and `_maxLevel` (Fatal) -/
def minLevel : Int := -1
def maxLevel : Int := 5

/-- `ent.Level >= _minLevel && ent.Level <= _maxLevel` -/
def inRange (l : Int) : Bool := decide (minLevel ≤ l) && decide (l ≤ maxLevel)

/-! ## one counter -/

/-- `counter{resetAt atomic.Int64; counter atomic.Uint64}`; the zero value is what `newCounters` allocates -/
structure Cell where
  resetAt : Int := 0
  n : Nat := 0
deriving DecidableEq, Repr

/-- `counter.IncCheckReset(t, tick)`, sequential semantics: returns the new cell and the value returned -/
def inc (c : Cell) (t tick : Int) : Cell × Nat :=
  if c.resetAt > t then ({ c with n := c.n + 1 }, c.n + 1)
  else ({ resetAt := t + tick, n := 1 }, 1)

/-- the admission predicate of `sampler.Check`:
    the entry is dropped iff `n > first && (thereafter == 0 || (n-first)%thereafter != 0)` -/
def allows (N M n : Nat) : Bool := !(decide (n > N) && (M == 0 || (n - N) % M != 0))

/-- the counter values returned for a run of timestamps on one cell -/
def cellRun (c : Cell) (tick : Int) : List Int → List Nat
  | [] => []
  | t :: ts => (inc c t tick).2 :: cellRun (inc c t tick).1 tick ts

/-- the cell after a run of timestamps -/
def cellAfter (c : Cell) (tick : Int) : List Int → Cell
  | [] => c
  | t :: ts => cellAfter (inc c t tick).1 tick ts

/-! ## the specification the property states: windows judged by entry timestamps

`none` = no entry seen yet for this key; `some (e, k)` = the current window ends at `e` and holds `k` entries.
An entry stamped at or after the end of the current window (or the first entry ever) opens a new window that
ends one tick later and is in position 1; any other entry takes the next position of the current window. -/

def specStep (w : Option (Int × Nat)) (t tick : Int) : Option (Int × Nat) × Nat :=
  match w with
  | none => (some (t + tick, 1), 1)
  | some (e, k) => if t < e then (some (e, k + 1), k + 1) else (some (t + tick, 1), 1)

def specRun (w : Option (Int × Nat)) (tick : Int) : List Int → List Nat
  | [] => []
  | t :: ts => (specStep w t tick).2 :: specRun (specStep w t tick).1 tick ts

/-! ## the counters table -/

/-- (level, bucket) -/
abbrev Key := Int × Nat

abbrev Counters := Key → Cell

/-- `newCounters()` -/
def Counters.fresh : Counters := fun _ => {}

def Counters.set (cs : Counters) (k : Key) (c : Cell) : Counters := fun k' => if k' = k then c else cs k'

structure Entry where
  level : Int
  msg : Bytes
  t : Int

/-- `counters.get(lvl, key)` -/
def Entry.key (e : Entry) : Key := (e.level, bucket e.msg)

inductive Decision where
  | sampled     -- LogSampled
  | dropped     -- LogDropped
deriving DecidableEq, Repr

/-- `first`, `thereafter`, `tick` -/
structure Cfg where
  N : Nat
  M : Nat
  tick : Int
deriving Inhabited

/-- what one `Check` call did -/
structure Out where
  hook : List Decision      -- the hook calls made, in order, with their decision argument
  forwarded : Bool          -- `s.Core.Check(ent, ce)` was reached
  n : Option Nat            -- the value `IncCheckReset` returned (in-range enabled levels only)
deriving DecidableEq, Repr

/-- `sampler.Check` -/
def check (cfg : Cfg) (enabled : Int → Bool) (cs : Counters) (e : Entry) : Counters × Out :=
  if !enabled e.level then (cs, ⟨[], false, none⟩)                      -- `if !s.Enabled(ent.Level) { return ce }`
  else if inRange e.level then
    let r := inc (cs e.key) e.t cfg.tick
    if allows cfg.N cfg.M r.2 then (cs.set e.key r.1, ⟨[.sampled], true, some r.2⟩)
    else (cs.set e.key r.1, ⟨[.dropped], false, some r.2⟩)
  else (cs, ⟨[], true, none⟩)                                            -- out of range: forwarded, not sampled

/-- a run of Check calls on one counters table -/
def runAll (cfg : Cfg) (enabled : Int → Bool) (cs : Counters) : List Entry → Counters × List Out
  | [] => (cs, [])
  | e :: es =>
    let r := check cfg enabled cs e
    let r2 := runAll cfg enabled r.1 es
    (r2.1, r.2 :: r2.2)

/-! ## sampler values over a heap of counters tables: `NewSamplerWithOptions` allocates, `With` shares -/

/-- a `*sampler`: its configuration, which `*counters` it points to, which hook, and the context of the
    wrapped core (the `With` chain applied to it) -/
structure Samp where
  cfg : Cfg
  ref : Nat
  hookId : Nat
  ctx : List Nat
deriving Inhabited

structure World where
  heap : Nat → Counters
  next : Nat

def World.empty : World := ⟨fun _ => Counters.fresh, 0⟩

/-- `NewSamplerWithOptions(core, tick, first, thereafter, SamplerHook(h))` -/
def World.newSampler (w : World) (cfg : Cfg) (hookId : Nat) : World × Samp :=
  ({ heap := fun r => if r = w.next then Counters.fresh else w.heap r, next := w.next + 1 },
   { cfg := cfg, ref := w.next, hookId := hookId, ctx := [] })

/-- `sampler.With(fields)`: a new sampler around `s.Core.With(fields)` with the SAME `counts` and hook -/
def Samp.with (s : Samp) (fieldId : Nat) : Samp := { s with ctx := s.ctx ++ [fieldId] }

/-- `Check` through a sampler value -/
def World.check (w : World) (s : Samp) (enabled : Int → Bool) (e : Entry) : World × Out :=
  let r := Sampler.check s.cfg enabled (w.heap s.ref) e
  ({ w with heap := fun x => if x = s.ref then r.1 else w.heap x }, r.2)

end ZapVerif.Sampler
