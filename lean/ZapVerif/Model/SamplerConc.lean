import ZapVerif.Model.Sampler
/-! M8 (concurrent part): `counter.IncCheckReset` as a machine of atomic steps.

```
tn := t.UnixNano()
resetAfter := c.resetAt.Load()                      -- step `load`
if resetAfter > tn { return c.counter.Add(1) }      -- step `add`
c.counter.Store(1)                                  -- step `store`
newResetAfter := tn + tick
if !c.resetAt.CompareAndSwap(resetAfter, newResetAfter) {   -- step `cas`
    return c.counter.Add(1)                         -- step `add`
}
return 1
```
Every atomic operation is one step of one thread (sync/atomic is linearizable: trusted base);
a schedule is any list of thread indices. -/
namespace ZapVerif.Sampler.Conc

inductive Pc where
  | start                      -- before `resetAt.Load()`
  | adding                     -- about to `counter.Add(1)` and return its result
  | storing (ra : Int)         -- about to `counter.Store(1)`; `ra` = the loaded resetAfter
  | cas (ra : Int)             -- about to `resetAt.CompareAndSwap(ra, tn+tick)`
  | done (n : Nat)             -- returned `n`
deriving DecidableEq, Repr

/-- one in-flight `IncCheckReset(t, tick)` call -/
structure Th where
  t : Int
  pc : Pc
deriving DecidableEq, Repr

structure St where
  resetAt : Int
  n : Nat
  ths : List Th

/-- the next atomic step of one call -/
def stepTh (tick : Int) (resetAt : Int) (n : Nat) (th : Th) : Int × Nat × Th :=
  match th.pc with
  | .start => if resetAt > th.t then (resetAt, n, { th with pc := .adding })
              else (resetAt, n, { th with pc := .storing resetAt })
  | .adding => (resetAt, n + 1, { th with pc := .done (n + 1) })
  | .storing ra => (resetAt, 1, { th with pc := .cas ra })
  | .cas ra => if resetAt = ra then (th.t + tick, n, { th with pc := .done 1 })
               else (resetAt, n, { th with pc := .adding })
  | .done _ => (resetAt, n, th)

/-- thread `i` takes its next step (nothing happens if `i` is not a thread) -/
def step (tick : Int) (s : St) (i : Nat) : St :=
  match s.ths[i]? with
  | none => s
  | some th =>
    let r := stepTh tick s.resetAt s.n th
    { resetAt := r.1, n := r.2.1, ths := s.ths.set i r.2.2 }

def run (tick : Int) (s : St) (sched : List Nat) : St := sched.foldl (step tick) s

def isDone : Pc → Bool
  | .done _ => true
  | _ => false

def allDone (s : St) : Bool := s.ths.all fun th => isDone th.pc

def retOf : Pc → List Nat
  | .done n => [n]
  | _ => []

/-- the values returned so far, in thread order -/
def rets : List Th → List Nat
  | [] => []
  | th :: r => retOf th.pc ++ rets r

/-- `k` calls about to start, with these timestamps -/
def initSt (c : Cell) (ts : List Int) : St :=
  { resetAt := c.resetAt, n := c.n, ths := ts.map fun t => ⟨t, .start⟩ }

end ZapVerif.Sampler.Conc
