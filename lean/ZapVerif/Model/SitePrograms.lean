import ZapVerif.Model.Sync
import ZapVerif.Model.SyncFacts
/-! M10b — program semantics of a site table (`Gen/SyncFacts.lean`): the set of M10 traces it describes.

A row of the table lists, for one field of a shared type, every syntactic read/write *site* with the
syntactic *guard* the extractor (gen/syncfacts.go) found for it.  Here a guard gets a meaning over
traces: `GuardHolds g … pre e` says what the events `pre` that precede the access `e` (and, for the
three hand-over style guards, the rest of the trace) must look like when `e` is an execution of a
site with guard `g` by goroutine `e.tid`.  The clauses are stated over the EVENTS of the executing
goroutine (a `Lock` of its own that it has not undone, the `onceBegin` of the `Do` body it is in, a
`Do` it has returned from, …), not over the derived state functions `Sync.holder`/`readers`/`onceSt`
that the discipline predicates of M10 use; `Proofs/SitePrograms.lean` derives the latter from the
former for well-formed traces.

A trace is `GeneratedBy I table tr` when every access event to a variable that instantiates a field of
the table is an execution of one of that field's sites — a predicate on traces, nothing is generated.
Everything else in the trace (which goroutines exist, where they lock, fork, run onces, and any access
to memory that is not a table field) is unconstrained, up to `Sync.WF`.

Three clauses contain a dynamic fact that no per-site syntactic guard can provide; they are explicit,
named parts of the guard's meaning (and are listed as assumptions of C09):
* `FreshUntilPublished` (guards `fresh`, `optfn`, `nilinit`): the object is still private to its creating
  goroutine — whoever else touches the field does so after a later hand-over event of the creator
  (the hand-over event model: `go`, a mutex, a once, … — any happens-before edge);
* `NoWriteFrom` (guard `afterCS`): the field is write-once state that is not written any more once the
  critical section the reader waited for has been entered;
* `InitialisedBefore` (guard `forked`): every write to the field happens-before the `go` statement that
  started the reading goroutine. -/
namespace ZapVerif.SitePrograms
open ZapVerif.Sync ZapVerif.SyncFacts

/-- how the names of a trace instantiate the ids of the table: trace variable `x` is the field
    `field x` of some object; the guard ids `mu m` / `onceBody o` found at a site of that field
    designate the lock `lock x m` / the once `once x o` (the mutex / once field of THE SAME object);
    `creator x` is the goroutine that allocated the object.  Any number of objects per type. -/
structure Interp where
  field : Var → Nat
  lock : Var → Nat → Lock
  once : Var → Nat → OnceId
  creator : Var → Tid

/-- one object per type, made by goroutine 0: variables, locks and onces are the field ids themselves -/
def Interp.single : Interp := ⟨fun x => x, fun _ m => m, fun _ o => o, fun _ => 0⟩

/-- the sites of field `f` (field ids are global; first row with that id) -/
def sitesOf (table : List Row) (f : Nat) : List Site :=
  match table.find? (fun r => r.2.1 == f) with
  | some r => r.2.2
  | none => []

def fieldsOf (table : List Row) : List Nat := table.map (·.2.1)

/-! ### what the executing goroutine has done before the access (`pre` is newest-first) -/

/-- t executed `Lock(m)` and no `Unlock(m)` since -/
def HeldExcl (t : Tid) (m : Lock) (pre : List Ev) : Prop :=
  ∃ p2 p1, pre = p2 ++ Ev.acq t m :: p1 ∧ Ev.rel t m ∉ p2

/-- t executed `RLock(m)` and no `RUnlock(m)` since -/
def HeldRead (t : Tid) (m : Lock) (pre : List Ev) : Prop :=
  ∃ p2 p1, pre = p2 ++ Ev.racq t m :: p1 ∧ Ev.rrel t m ∉ p2

/-- t won `o.Do(f)`, entered f and has not left it -/
def InOnceBody (t : Tid) (o : OnceId) (pre : List Ev) : Prop :=
  ∃ p2 p1, pre = p2 ++ Ev.onceBegin t o :: p1 ∧ Ev.onceEnd t o ∉ p2

/-- a call `o.Do(..)` of t has returned (t ran the body itself, or found it done) -/
def ReturnedFromDo (t : Tid) (o : OnceId) (pre : List Ev) : Prop :=
  Ev.onceRet t o ∈ pre ∨ Ev.onceEnd t o ∈ pre

/-- no write to x at index g or later, anywhere in the trace -/
def NoWriteFrom (x : Var) (g : Nat) (tr : List Ev) : Prop :=
  ∀ i a, evAt tr i = some a → a.touches x = true → a.isWrite = true → i < g

/-- every write to x of the whole trace happens-before the event with index g -/
def InitialisedBefore (x : Var) (g : Nat) (tr : List Ev) : Prop :=
  ∀ i a, evAt tr i = some a → a.touches x = true → a.isWrite = true → HB tr i g

/-- t completed a critical section of m (Lock at index g … Unlock at index h) before the access, and
    x is write-once state not written since that Lock -/
def AfterCS (x : Var) (t : Tid) (m : Lock) (tr pre : List Ev) : Prop :=
  ∃ g h, g < h ∧ evAt pre g = some (.acq t m) ∧ evAt pre h = some (.rel t m) ∧ NoWriteFrom x g tr

/-- t was started by a `go` statement (index g) that all writes to x happen-before -/
def StartedAfterInit (x : Var) (t : Tid) (tr pre : List Ev) : Prop :=
  ∃ g p, evAt pre g = some (.fork p t) ∧ InitialisedBefore x g tr

/-- the access `e` (preceded by `pre`) is made by the creator c of x's object while the object is not
    yet shared: every access to x by another goroutine has a hand-over point — an event of c, not
    earlier than `e`, that happens-before it -/
def FreshUntilPublished (x : Var) (c : Tid) (tr pre : List Ev) (e : Ev) : Prop :=
  e.tid = c ∧ ∀ j b, evAt tr j = some b → b.touches x = true → b.tid ≠ c →
    ∃ g eg, evAt tr g = some eg ∧ eg.tid = c ∧ pre.length ≤ g ∧ HB tr g j

/-- meaning of a syntactic guard, one clause per constructor of `SyncFacts.Guard`
    (`tr = post ++ e :: pre`; `e` is the access, executed by goroutine `e.tid`) -/
def GuardHolds (I : Interp) (x : Var) (g : Guard) (tr pre : List Ev) (e : Ev) : Prop :=
  match g with
  | .none => True
  | .fresh => FreshUntilPublished x (I.creator x) tr pre e
  | .optfn => FreshUntilPublished x (I.creator x) tr pre e
  | .nilinit => FreshUntilPublished x (I.creator x) tr pre e
  | .mu m => HeldExcl e.tid (I.lock x m) pre
  | .rmu m => HeldRead e.tid (I.lock x m) pre
  | .atomic => e.isAtomic = true
  | .syncop => e.isAtomic = true
  | .onceBody o => InOnceBody e.tid (I.once x o) pre
  | .afterOnce o => ReturnedFromDo e.tid (I.once x o) pre
  | .forked => StartedAfterInit x e.tid tr pre
  | .afterCS m => AfterCS x e.tid (I.lock x m) tr pre

/-- `e` is an execution of site `s`: a write site produces a write event, a read site a read event,
    under the site's guard -/
def SiteHolds (I : Interp) (x : Var) (s : Site) (tr pre : List Ev) (e : Ev) : Prop :=
  s.write = e.isWrite ∧ GuardHolds I x s.guard tr pre e

/-- every access to x in `tr` is an execution of a site of x's field -/
def GeneratedOn (I : Interp) (table : List Row) (x : Var) (tr : List Ev) : Prop :=
  ∀ post e pre, tr = post ++ e :: pre → e.touches x = true →
    ∃ s ∈ sitesOf table (I.field x), SiteHolds I x s tr pre e

/-- **the traces of a site table**: every access to every variable that instantiates a field of the
    table is an execution of one of that field's sites -/
def GeneratedBy (I : Interp) (table : List Row) (tr : List Ev) : Prop :=
  ∀ x, I.field x ∈ fieldsOf table → GeneratedOn I table x tr

/-- the same, by recursion over the suffixes of the trace (convenient for concrete traces);
    `Proofs/SitePrograms.lean: generatedOn_iff_rec` -/
def GenRec (I : Interp) (table : List Row) (x : Var) (full : List Ev) : List Ev → Prop
  | [] => True
  | e :: pre => GenRec I table x full pre ∧
      (e.touches x = true → ∃ s ∈ sitesOf table (I.field x), SiteHolds I x s full pre e)

/-! ### the discipline a generated trace follows -/

/-- a class of the table, with its lock / once id instantiated for the object of x -/
def instClass (I : Interp) (x : Var) : Class → Class
  | .immutable => .immutable
  | .syncprim => .syncprim
  | .atomic => .atomic
  | .mutex m => .mutex (I.lock x m)
  | .rwmutex m => .rwmutex (I.lock x m)
  | .once o => .once (I.once x o)
  | .lockPublish m => .lockPublish (I.lock x m)

/-- what class c demands of one access `e` to x (state form: exactly the per-event conditions of
    `Sync.AtomicOnly`, `Guarded`, `RWGuarded`, `OnceGuarded`, `LockPublished`; the lock-publish class
    also admits the reads of a goroutine forked after the initialisation) -/
def ClassAt (c : Class) (x : Var) (tr pre : List Ev) (e : Ev) : Prop :=
  match c with
  | .immutable => e.isWrite = false
  | .syncprim => e.isAtomic = true
  | .atomic => e.isAtomic = true
  | .mutex m => holder m pre = some e.tid
  | .rwmutex m => if e.isWrite then holder m pre = some e.tid
                  else (holder m pre = some e.tid ∨ e.tid ∈ readers m pre)
  | .once o => onceSt o pre = .running e.tid ∨ (e.isWrite = false ∧ passed o e.tid pre = true)
  | .lockPublish m => holder m pre = some e.tid ∨
      (e.isWrite = false ∧
        ((∃ g, evAt pre g = some (.acq e.tid m) ∧ NoWriteFrom x g tr) ∨
         (∃ g p, evAt pre g = some (.fork p e.tid) ∧ InitialisedBefore x g tr)))

/-- the accesses to x follow class c, except for those the creating goroutine makes before it hands
    the object over -/
def Disciplined (c : Class) (owner : Tid) (x : Var) (tr : List Ev) : Prop :=
  ∀ post e pre, tr = post ++ e :: pre → e.touches x = true →
    FreshUntilPublished x owner tr pre e ∨ ClassAt c x tr pre e

end ZapVerif.SitePrograms
