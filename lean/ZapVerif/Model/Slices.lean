/-! M11: Go slice headers over a heap of backing arrays (core-only).

mirrors  `append`, `s[:len(s):len(s)]` as used by zaptest/observer/observer.go:With, and the buffer handling of
         zapcore/json_encoder.go:Clone (`clone.buf = bufferpool.Get(); clone.buf.Write(enc.buf.Bytes())`). -/
namespace ZapVerif.Slices

/-- a heap of backing arrays (array id → cells) with a bump allocator -/
structure Heap where
  arr : Nat → List Nat
  next : Nat

structure Slice where
  id : Nat
  len : Nat
  cap : Nat
deriving DecidableEq, Repr

def view (h : Heap) (s : Slice) : List Nat := (h.arr s.id).take s.len

def setArr (h : Heap) (i : Nat) (cells : List Nat) : Heap :=
  { h with arr := fun j => if j = i then cells else h.arr j }

/-- Go `append(s, xs...)`: in place when capacity allows, otherwise a fresh array -/
def append (h : Heap) (s : Slice) (xs : List Nat) : Heap × Slice :=
  if s.len + xs.length ≤ s.cap then
    let old := h.arr s.id
    (setArr h s.id (old.take s.len ++ xs ++ old.drop (s.len + xs.length)), { s with len := s.len + xs.length })
  else
    let cells := view h s ++ xs
    ({ (setArr h h.next cells) with next := h.next + 1 }, { id := h.next, len := cells.length, cap := cells.length })

/-- `s[:len(s):len(s)]` -/
def capped (s : Slice) : Slice := { s with cap := s.len }

/-- every live slice refers to an allocated array -/
def Live (h : Heap) (t : Slice) : Prop := t.id < h.next

/-- observer.With: `append(co.context[:len(co.context):len(co.context)], fields...)` -/
def observerWith (h : Heap) (ctx : Slice) (fields : List Nat) : Heap × Slice := append h (capped ctx) fields

/-- jsonEncoder.Clone: a buffer of its own (fresh here; a pooled one is an array no live header refers to) into which
    the parent's bytes are copied -/
def jsonClone (h : Heap) (buf : Slice) : Heap × Slice :=
  let cells := view h buf
  ({ (setArr h h.next cells) with next := h.next + 1 }, { id := h.next, len := cells.length, cap := cells.length })

/-- the mutant: the clone shares the parent's slice header -/
def jsonCloneShared (h : Heap) (buf : Slice) : Heap × Slice := (h, buf)

end ZapVerif.Slices
