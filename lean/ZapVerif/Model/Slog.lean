import ZapVerif.Gen.SlogLevels
/-! M12/slog: the slog.Handler contract (spec) and a model of `exp/zapslog.Handler`
    (exp/zapslog/handler.go: convertAttrToField / hasContent / WithGroup / WithAttrs / Handle / convertSlogLevel). -/
namespace ZapVerif.Slog

/-- payload of a non-group attribute: kind tag and canonical text; opaque, carried through unchanged -/
structure Leaf where
  ty : String
  v : String
deriving DecidableEq, Repr, Inhabited

/-- slog attributes as they reach the handler. `lv` = number of LogValuer layers wrapped around the value
    (`Value.Resolve` strips them all); `nilv` is the zero `slog.Value` — with key "" it is the empty Attr. -/
inductive SAttr where
  | leaf (k : String) (lv : Nat) (l : Leaf)
  | nilv (k : String) (lv : Nat)
  | group (k : String) (lv : Nat) (ms : List SAttr)
deriving Repr, Inhabited

/-- what the contract says an entry contains: an ordered tree -/
inductive T where
  | leaf (k : String) (l : Leaf)
  | node (k : String) (cs : List T)
deriving Repr, Inhabited

/-- zap fields as the handler produces them -/
inductive Fld where
  | kv (k : String) (l : Leaf)
  | obj (k : String) (fs : List Fld)      -- zap.Object(key, groupObject)
  | inl (fs : List Fld)                   -- zap.Inline(groupObject)
  | ns (k : String)                       -- zap.Namespace
  | skip                                  -- zap.Skip()
deriving Repr, Inhabited

/-- `zap.Any(key, nil)` for a zero value under a real key -/
def nilLeaf : Leaf := ⟨"any:nil", "<nil>"⟩

/-! ## the slog.Handler contract -/

mutual
/-- LogValuers resolved; the empty Attr ignored; groups without (transitive) content ignored;
    empty-key groups inlined -/
def content : SAttr → List T
  | .leaf k _ l => [.leaf k l]
  | .nilv k _ => if k = "" then [] else [.leaf k nilLeaf]
  | .group k _ ms =>
    let c := contents ms
    if c.isEmpty then [] else if k = "" then c else [.node k c]
def contents : List SAttr → List T
  | [] => []
  | a :: r => content a ++ contents r
end

inductive Step where
  | withGroup (g : String)
  | withAttrs (as : List SAttr)
deriving Repr, Inhabited

def nest : List String → List T → List T
  | [], ts => ts
  | g :: gs, ts => [.node g (nest gs ts)]

/-- groups are shown only when they end up with content -/
def wrap (gs : List String) (ts : List T) : List T := if ts.isEmpty then [] else nest gs ts

/-- the contract for a derivation sequence and a record: WithGroup("") is the identity, a group opened by
    WithGroup contains everything that follows, and is omitted when that is nothing -/
def tree : List Step → List SAttr → List T
  | [], R => contents R
  | .withAttrs as :: D, R => contents as ++ tree D R
  | .withGroup g :: D, R => if g = "" then tree D R else wrap [g] (tree D R)

/-! ## the handler -/

/-- `Value.Resolve()`: strips the LogValuer layers of this value (members are resolved when they are converted) -/
def resolveTop : SAttr → SAttr
  | .leaf k _ l => .leaf k 0 l
  | .nilv k _ => .nilv k 0
  | .group k _ ms => .group k 0 ms

mutual
/-- `hasContent` (handler.go): resolved, not the empty Attr, and if a group then some member has content -/
def hasContent : SAttr → Bool
  | .leaf _ _ _ => true
  | .nilv k _ => k != ""
  | .group _ _ ms => anyContent ms
def anyContent : List SAttr → Bool
  | [] => false
  | a :: r => hasContent a || anyContent r
end

mutual
/-- `convertAttrToField`: the empty Attr and groups without content become Skip, the kinds become typed
    fields, groups become Object/Inline over their converted members, LogValuers are resolved first -/
def convert : SAttr → Fld
  | .leaf k _ l => .kv k l
  | .nilv k _ => if k = "" then .skip else .kv k nilLeaf
  | .group k _ ms =>
    if anyContent ms then (if k = "" then .inl (converts ms) else .obj k (converts ms)) else .skip
def converts : List SAttr → List Fld
  | [] => []
  | a :: r => convert a :: converts r
end

mutual
/-- what a field list makes the encoder emit: a namespace nests the rest of the list
    (zapcore.ObjectEncoder.OpenNamespace), Skip adds nothing, Inline adds its members in place -/
def denote : List Fld → List T
  | [] => []
  | .kv k l :: r => .leaf k l :: denote r
  | .obj k fs :: r => .node k (denote fs) :: denote r
  | .inl fs :: r => denote fs ++ denote r
  | .ns k :: r => [.node k (denote r)]
  | .skip :: r => denote r
end

/-- handler state: fields already given to the core with `core.With` (namespaces in it stay open) and
    `Handler.groups`, the groups opened by WithGroup but not yet emitted -/
structure H where
  ctx : List Fld
  pending : List String
deriving Repr, Inhabited

def isSkip : Fld → Bool
  | .skip => true
  | _ => false

/-- the loop shared by Handle and WithAttrs:
    `if !addedNamespace && len(h.groups) > 0 && f != zap.Skip() { fields = h.appendGroups(fields) }` -/
def ins (p : List String) : List Fld → List Fld × Bool
  | [] => ([], false)
  | f :: r =>
    if isSkip f then let (r', b) := ins p r; (f :: r', b)
    else (p.map Fld.ns ++ f :: r, true)

def addAttrs (h : H) (fs : List Fld) : H :=
  if h.pending.isEmpty then { h with ctx := h.ctx ++ fs }
  else
    let (fs', opened) := ins h.pending fs
    { ctx := h.ctx ++ fs', pending := if opened then [] else h.pending }

def step (h : H) : Step → H
  | .withGroup g => if g = "" then h else { h with pending := h.pending ++ [g] }
  | .withAttrs as => addAttrs h (converts as)

def run (h : H) : List Step → H
  | [] => h
  | s :: D => run (step h s) D

def root : H := ⟨[], []⟩

/-- the fields of the entry written by `Handle` (context first), as the encoder nests them -/
def handle (h : H) (R : List SAttr) : List T := denote (addAttrs h (converts R)).ctx

/-! ## branching derivations: a program derives new handlers from any existing one -/

structure PStep where
  on : Nat
  s : Step
deriving Repr, Inhabited

/-- handlers are numbered in creation order; a step on a handler that does not exist is ignored -/
def runProg : List H → List PStep → List H
  | hs, [] => hs
  | hs, p :: ps =>
    match hs[p.on]? with
    | some h => runProg (hs ++ [step h p.s]) ps
    | none => runProg hs ps

/-- the derivation sequence that leads from the root to each handler of a program -/
def pathsOf : List (List Step) → List PStep → List (List Step)
  | ds, [] => ds
  | ds, p :: ps =>
    match ds[p.on]? with
    | some d => pathsOf (ds ++ [d ++ [p.s]]) ps
    | none => pathsOf ds ps

/-! ## levels -/

/-- `convertSlogLevel`, as observed on the real code (regenerated table) -/
def convertLevel (l : Int) : Option Int := Gen.slogLevels.lookup l

/-- `Handler.Enabled` -/
def enabledAt (enab : Int → Bool) (l : Int) : Option Bool := (convertLevel l).map enab

/-- `Handler.Handle`: the only gate is `core.Check` on the mapped level; result = (entry level, fields) -/
def handleRecord (enab : Int → Bool) (h : H) (l : Int) (R : List SAttr) : Option (Option (Int × List T)) :=
  (convertLevel l).map fun z => if enab z then some (z, handle h R) else none

/-! ## `Handler.groups` as a Go slice over a heap of backing arrays (for `derive_isolated`) -/

structure GSlice where
  id : Nat
  len : Nat
deriving Repr, Inhabited

abbrev GHeap := List (List String)

def view (hp : GHeap) (s : GSlice) : List String := (hp.getD s.id []).take s.len

/-- `WithGroup`: `newGroups := make([]string, len+1); copy(newGroups, h.groups); newGroups[len] = group` -/
def withGroupHeap (hp : GHeap) (s : GSlice) (g : String) : GHeap × GSlice :=
  (hp ++ [view hp s ++ [g]], ⟨hp.length, s.len + 1⟩)

/-- the tempting alternative `append(h.groups, group)`: writes in place when the backing array has room -/
def appendHeap (hp : GHeap) (s : GSlice) (g : String) : GHeap × GSlice :=
  let a := hp.getD s.id []
  if s.len < a.length then (hp.set s.id (a.take s.len ++ [g] ++ a.drop (s.len + 1)), ⟨s.id, s.len + 1⟩)
  else (hp ++ [view hp s ++ [g] ++ List.replicate (s.len + 1) ""], ⟨hp.length, s.len + 1⟩)

/-- a handler whose `groups` field is a slice header -/
structure HH where
  ctx : List Fld
  groups : GSlice
deriving Repr, Inhabited

def absH (hp : GHeap) (x : HH) : H := ⟨x.ctx, view hp x.groups⟩

/-- one derivation at heap level; `cloned.groups = nil` is the header ⟨0,0⟩ -/
def stepHeap (hp : GHeap) (x : HH) : Step → GHeap × HH
  | .withGroup g =>
    if g = "" then (hp, x)
    else let (hp', s) := withGroupHeap hp x.groups g; (hp', { x with groups := s })
  | .withAttrs as =>
    let h' := addAttrs (absH hp x) (converts as)
    if (view hp x.groups).isEmpty then (hp, { ctx := h'.ctx, groups := x.groups })
    else if h'.pending.isEmpty then (hp, { ctx := h'.ctx, groups := ⟨0, 0⟩ })
    else (hp, { ctx := h'.ctx, groups := x.groups })

def runProgHeap : GHeap × List HH → List PStep → GHeap × List HH
  | st, [] => st
  | (hp, xs), p :: ps =>
    match xs[p.on]? with
    | some x => let (hp', x') := stepHeap hp x p.s; runProgHeap (hp', xs ++ [x']) ps
    | none => runProgHeap (hp, xs) ps

end ZapVerif.Slog

namespace ZapVerif.Slog

/-- the ObjectEncoder method through which a value of each slog kind arrives (the kind switch of
    `convertAttrToField`; Any-kind values go through `zap.Any`) -/
def fieldTag (ty : String) : String :=
  match ty with
  | "any:nil" => "reflect"
  | "any:struct" => "reflect"
  | "any:strs" => "array"
  | "any:err" => "str"
  | "any:lvpanic" => "str"     -- a LogValuer whose LogValue panics: `Resolve` yields an error value ("LogValue panicked…")
  | t => t

end ZapVerif.Slog
