import ZapVerif.Model.Entry
import ZapVerif.Model.Callers
import ZapVerif.Gen.LevelColor
/-! zap's built-in sub-encoder functions (zapcore/encoder.go, zapcore/level_strings.go, internal/color,
    `EntryCaller.String/FullPath/TrimmedPath` of zapcore/entry.go, and `time.Duration.String` of the standard
    library, which `StringDurationEncoder` calls) — what each appends to the `PrimitiveArrayEncoder` it is handed,
    COMPUTED from the raw entry values.  Integer- and text-exact encoders only; the float encoders
    (`EpochTimeEncoder`, `EpochMillisTimeEncoder`, `SecondsDurationEncoder`) and the `time.Format` layouts stay
    parameters (`observed`).  Core-only: linked into the driver. -/
namespace ZapVerif.SubEnc
open ZapVerif ZapVerif.Json ZapVerif.Enc ZapVerif.Entry

/-! ### level encoders -/

/-- `color.Color.Add`: `fmt.Sprintf("\x1b[%dm%s\x1b[0m", uint8(c), s)` — the three literal pieces of the format come
    from the regenerated table -/
def colorAdd (c : Nat) (s : Bytes) : Bytes :=
  Gen.colorAddPre ++ fmtNat c ++ Gen.colorAddMid ++ s ++ Gen.colorAddSuf

/-- level_strings.go `init()`: one coloured string per entry of `_levelToColor` -/
def colorMap (text : Int → Bytes) : List (Int × Bytes) :=
  Gen.levelToColor.map fun lc => (lc.1, colorAdd lc.2 (text lc.1))

/-- `s, ok := _levelToXColorString[l]; if !ok { s = _unknownLevelColor.Add(l.X()) }` -/
def colorLevel (text : Int → Bytes) (l : Int) : Bytes :=
  match (colorMap text).lookup l with
  | some s => s
  | none => colorAdd Gen.unknownLevelColor (text l)

inductive LvlEnc where
  | lower          -- LowercaseLevelEncoder
  | capital        -- CapitalLevelEncoder
  | color          -- LowercaseColorLevelEncoder
  | capitalColor   -- CapitalColorLevelEncoder
  deriving DecidableEq, Repr

/-- the string a level encoder appends; `Level.stringOf` / `capitalOf` read the regenerated 256-row table of
    `Level.String()` / `CapitalString()` (known names and the `Level(n)` fall-back alike) -/
def levelText : LvlEnc → Int → Bytes
  | .lower, l => Level.stringOf l
  | .capital, l => Level.capitalOf l
  | .color, l => colorLevel Level.stringOf l
  | .capitalColor, l => colorLevel Level.capitalOf l

/-! ### duration encoders -/

/-- `fmtFrac(buf, v, prec)` of package time: the loop writes the `prec` low decimal digits of `v` backwards into
    the buffer, skipping trailing zeros, then the point iff a digit was written; returns `v / 10^prec`.
    `acc` is the text already in the tail of the buffer. -/
def fmtFrac : Nat → Nat → Bool → Bytes → Bytes × Nat
  | 0, v, print, acc => (if print then 46 :: acc else acc, v)
  | p + 1, v, print, acc =>
    let digit := v % 10
    let print' := print || digit != 0
    fmtFrac p (v / 10) print' (if print' then UInt8.ofNat (48 + digit) :: acc else acc)

/-- the part of `Duration.format` for `u < Second`, u ≠ 0: unit suffix and precision -/
def smallUnit (u : Nat) : Bytes × Nat :=
  if u < 1000 then ([110, 115], 0)                      -- "ns"
  else if u < 1000000 then ([194, 181, 115], 3)         -- "µs" (U+00B5 = C2 B5)
  else ([109, 115], 6)                                  -- "ms"

/-- magnitude part of `time.Duration.String()`; `u` is `uint64(d)` negated when `d < 0`, i.e. |d| (2^63 for MinInt64) -/
def durMag (u : Nat) : Bytes :=
  if u < 1000000000 then
    if u = 0 then [48, 115]                             -- "0s"
    else
      let su := smallUnit u
      let fr := fmtFrac su.2 u false su.1
      fmtNat fr.2 ++ fr.1
  else
    let fr := fmtFrac 9 u false [115]                   -- … "s"
    let secs := fr.2
    let s := fmtNat (secs % 60) ++ fr.1
    let mins := secs / 60
    if mins > 0 then
      let s := fmtNat (mins % 60) ++ 109 :: s           -- … "m"
      let hrs := mins / 60
      if hrs > 0 then fmtNat hrs ++ 104 :: s            -- … "h"
      else s
    else s

/-- `time.Duration(d).String()` -/
def durString (d : Int) : Bytes :=
  if d < 0 then 45 :: durMag d.natAbs else durMag d.natAbs

/-- `d.Nanoseconds() / 1e6`: Go integer division truncates toward zero -/
def millisOf (n : Int) : Int := Int.tdiv n 1000000

inductive DurEnc where
  | nanos          -- NanosDurationEncoder
  | millis         -- MillisDurationEncoder
  | string         -- StringDurationEncoder
  deriving DecidableEq, Repr

def durScalar : DurEnc → Int → Scalar
  | .nanos, n => .int n
  | .millis, n => .int (millisOf n)
  | .string, n => .str (durString n)

/-! ### time encoders -/

/-- `EpochNanosTimeEncoder`: `enc.AppendInt64(t.UnixNano())` -/
def epochNanos (nanos : Int) : Scalar := .int nanos

/-- the call `encodeTimeLayout` makes on its encoder -/
inductive TimeCall where
  | appendTimeLayout (formatted : Bytes)   -- the encoder implements `AppendTimeLayout(time.Time, string)`
  | appendString (formatted : Bytes)       -- otherwise `enc.AppendString(t.Format(layout))`

/-- `encodeTimeLayout(t, layout, enc)`; `formatted` = `t.Format(layout)` (a parameter: package time) -/
def encodeTimeLayout (hasAppendTimeLayout : Bool) (formatted : Bytes) : TimeCall :=
  if hasAppendTimeLayout then .appendTimeLayout formatted else .appendString formatted

/-- what the JSON encoder writes for either call: `AppendTimeLayout` is `"` + `safeAddByteString(AppendFormat)` + `"`,
    `AppendString` is `"` + `safeAddString` + `"` -/
def TimeCall.toJ : TimeCall → J
  | .appendTimeLayout f => J.str (esc f)
  | .appendString f => scalarJ (.str f)

/-- as a sub-encoder result (the same string either way) -/
def TimeCall.res : TimeCall → SubRes
  | .appendTimeLayout f => .val (.str f)
  | .appendString f => .val (.str f)

/-! ### caller encoders -/

def undefinedText : Bytes := litStr "undefined"

/-- `EntryCaller.String()` = `FullPath()`: `file:line`, or "undefined" -/
def callerFull (defined : Bool) (file : Bytes) (line : Int) : Bytes :=
  if defined then file ++ 58 :: fmtInt line else undefinedText

/-- `EntryCaller.TrimmedPath()`: the last two '/'-separated elements of the file (`Callers.trimmedFile`), `:line` -/
def callerShort (defined : Bool) (file : Bytes) (line : Int) : Bytes :=
  if defined then Callers.trimmedFile file ++ 58 :: fmtInt line else undefinedText

inductive CallerEnc where
  | full           -- FullCallerEncoder
  | short          -- ShortCallerEncoder
  deriving DecidableEq, Repr

def callerText : CallerEnc → Bool → Bytes → Int → Bytes
  | .full, d, f, l => callerFull d f l
  | .short, d, f, l => callerShort d f l

/-! ### name encoder -/

/-- `FullNameEncoder` (also what both encoders substitute for a nil `EncodeName`) -/
def nameFull (name : Bytes) : Scalar := .str name

/-! ### selection: built-in exact kind, or the observed parameter -/

/-- result of the configured function: computed when it is one of the exact built-ins (`some k`), else the
    parameter the harness observed (nil / no-op / float / layout / user function) -/
def lvlRes (k : Option LvlEnc) (observed : SubRes) (l : Int) : SubRes :=
  match k with
  | some k => .val (.str (levelText k l))
  | none => observed

def durRes (k : Option DurEnc) (observed : SubRes) (n : Int) : SubRes :=
  match k with
  | some k => .val (durScalar k n)
  | none => observed

/-- `exact` = the configured function is `EpochNanosTimeEncoder` -/
def timeRes (exact : Bool) (observed : SubRes) (nanos : Int) : SubRes :=
  if exact then .val (epochNanos nanos) else observed

def callerRes (k : Option CallerEnc) (observed : SubRes) (defined : Bool) (file : Bytes) (line : Int) : SubRes :=
  match k with
  | some k => .val (.str (callerText k defined file line))
  | none => observed

/-- `full` = EncodeName is nil or `FullNameEncoder` -/
def nameRes (full : Bool) (observed : SubRes) (name : Bytes) : SubRes :=
  if full then .val (nameFull name) else observed

/-- console columns: `fmt.Fprint` of the single value a built-in appended (a string prints as itself, an int64 in
    decimal) -/
def colText : Scalar → Option Bytes
  | .str s => some s
  | .int i => some (fmtInt i)
  | _ => none

def colOf (r : SubRes) (observed : Option Bytes) : Option Bytes :=
  match r with
  | .val s => (colText s).orElse fun _ => observed
  | _ => observed

/-- an entry whose level, caller and name parts are produced by built-in exact encoders -/
def builtinEnt (lk : LvlEnc) (ck : CallerEnc) (level : Int) (time : Option TimeV) (name : Bytes)
    (defined : Bool) (file : Bytes) (line : Int) (function message stack : Bytes) : Ent :=
  { level := level, lvlRes := lvlRes (some lk) .noop level, time := time, name := name,
    nameRes := nameRes true .noop name, callerDefined := defined,
    callerRes := callerRes (some ck) .noop defined file line, callerStr := callerFull defined file line,
    function := function, message := message, stack := stack }

end ZapVerif.SubEnc
