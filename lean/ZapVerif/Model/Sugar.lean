import ZapVerif.Model.Bytes
/-! # M12 `sweeten` / `getMessage` — the loosely-typed front end of SugaredLogger (sugar.go), core-only.

`sweep` mirrors `sweetenFields` (three result lists built in one positional pass), `loopGo` is the same loop written
with Go's explicit index arithmetic (an out-of-range `args[i]` is an explicit `panic` outcome), `trace` is the ghost
event list the theorems are stated over, `logw`/`withArgs`/`logf` are the method bodies (`log`, `logln`, `With`).
Keys and value tokens are opaque byte strings: sweetenFields never looks inside them. -/
namespace ZapVerif.Sugar

/-- keys, payload tokens and messages are byte strings -/
abbrev Tok := Bytes

/-- the zapcore.FieldType tags that occur for the generated values -/
inductive FT where
  | arrayMarshaler | objectMarshaler | binary | bool | duration | float64 | int64 | uint8 | string | time
  | error | reflect | stringer
deriving DecidableEq, Repr

def FT.name : FT → String
  | .arrayMarshaler => "ArrayMarshaler" | .objectMarshaler => "ObjectMarshaler" | .binary => "Binary"
  | .bool => "Bool" | .duration => "Duration" | .float64 => "Float64" | .int64 => "Int64" | .uint8 => "Uint8"
  | .string => "String" | .time => "Time" | .error => "Error" | .reflect => "Reflect" | .stringer => "Stringer"

/-- dynamic types of the "other value" arguments (neither Field, error, string, int nor untyped nil) -/
inductive VK where
  | bool | f64 | dur | strs | stringer | obj | pint | pnil | bytes | time | strukt | u8
deriving DecidableEq, Repr

/-- the arm of `zap.Any`'s type switch that each of these takes -/
def VK.anyType : VK → FT
  | .bool => .bool | .f64 => .float64 | .dur => .duration | .strs => .arrayMarshaler | .stringer => .stringer
  | .obj => .objectMarshaler | .pint => .int64 | .pnil => .reflect | .bytes => .binary | .time => .time
  | .strukt => .reflect | .u8 => .uint8

/-- what sweetenFields can distinguish about one argument, plus an identity token -/
inductive Arg where
  | field (ty : String) (key tok : Tok)   -- a zap.Field (its own type tag, key and payload token)
  | err (tok : Tok)            -- a value implementing error
  | str (s : Tok)              -- a string: a key in key position, a String value in value position
  | int (tok : Tok)            -- an int: the usual non-string key
  | nil                           -- untyped nil
  | val (vk : VK) (tok : Tok)  -- any other value
deriving DecidableEq, Repr

def Arg.tok : Arg → Tok
  | .field _ _ t => t | .err t => t | .str s => s | .int t => t | .nil => Bytes.ofString "nil" | .val _ t => t

/-- an error value may implement more than `error`; the harness marks such values in their text:
    "EO:" also an ObjectMarshaler, "EA:" also an ArrayMarshaler (anything else: a plain error or error+Stringer).
    `zap.Any` tests the marshaler interfaces before `error`, and `error` before `fmt.Stringer`. -/
def errAnyType (t : Tok) : FT :=
  if t.take 3 = [69, 79, 58] then .objectMarshaler
  else if t.take 3 = [69, 65, 58] then .arrayMarshaler
  else .error

/-- representation `zap.Any(k, a)` chooses for `a` -/
def Arg.anyType : Arg → FT
  | .field .. => .reflect | .err t => errAnyType t | .str _ => .string | .int _ => .int64 | .nil => .reflect
  | .val vk _ => vk.anyType

/-- an output field -/
inductive Out where
  | passed (ty : String) (key tok : Tok)   -- typed field, unchanged
  | any (key : Tok) (v : Arg)   -- `Any(key, v)`
  | error (tok : Tok)           -- `Error(err)`: key "error"
deriving DecidableEq, Repr

/-- an element of the `invalid` array: position of the key, key, value -/
structure Inv where
  pos : Nat
  key : Arg
  val : Arg
deriving DecidableEq, Repr

/-- a diagnostic issued inside the loop -/
inductive LDiag where
  | multiple (tok : Tok)  -- `_multipleErrMsg`, Error(err)
  | dangling (a : Arg)       -- `_oddNumberErrMsg`, Any("ignored", a)
deriving DecidableEq, Repr

structure Res where
  fields : List Out := []
  diags : List LDiag := []
  invalid : List Inv := []
deriving DecidableEq, Repr

def Res.cons1 (o : Out) (r : Res) : Res := { r with fields := o :: r.fields }
def Res.cons2 (d : LDiag) (r : Res) : Res := { r with diags := d :: r.diags }
def Res.cons3 (p : Inv) (r : Res) : Res := { r with invalid := p :: r.invalid }

/-- the positional sweep of `sweetenFields`; `i` is the index of the head of the list -/
def sweep (i : Nat) (seen : Bool) : List Arg → Res
  | [] => {}
  | .field ty k t :: r => (sweep (i+1) seen r).cons1 (.passed ty k t)
  | .err e :: r =>
      if seen then (sweep (i+1) true r).cons2 (.multiple e)
      else (sweep (i+1) true r).cons1 (.error e)
  | [a] => { diags := [.dangling a] }
  | k :: v :: r =>
      match k with
      | .str s => (sweep (i+2) seen r).cons1 (.any s v)
      | _ => (sweep (i+2) seen r).cons3 ⟨i, k, v⟩

def sweeten (args : List Arg) : Res := sweep 0 false args

/-! ## the same loop with Go's index arithmetic -/

inductive Outcome (α : Type) where
  | ok (a : α)
  | panic      -- index out of range
  | fuelOut    -- loop did not finish within the fuel
deriving DecidableEq, Repr

def Res.snoc1 (r : Res) (o : Out) : Res := { r with fields := r.fields ++ [o] }
def Res.snoc2 (r : Res) (d : LDiag) : Res := { r with diags := r.diags ++ [d] }
def Res.snoc3 (r : Res) (p : Inv) : Res := { r with invalid := r.invalid ++ [p] }

def Res.append (a b : Res) : Res := ⟨a.fields ++ b.fields, a.diags ++ b.diags, a.invalid ++ b.invalid⟩

/-- `for i := 0; i < len(args); { … args[i] … args[i+1] … }` — every index expression is checked -/
def loopGo (args : List Arg) : (fuel i : Nat) → (seen : Bool) → (acc : Res) → Outcome Res
  | 0, i, _, acc => if i < args.length then .fuelOut else .ok acc
  | fuel+1, i, seen, acc =>
    if i < args.length then
      match args[i]? with
      | none => .panic
      | some (.field ty k t) => loopGo args fuel (i+1) seen (acc.snoc1 (.passed ty k t))
      | some (.err e) =>
          if seen then loopGo args fuel (i+1) true (acc.snoc2 (.multiple e))
          else loopGo args fuel (i+1) true (acc.snoc1 (.error e))
      | some a =>
          if i = args.length - 1 then .ok (acc.snoc2 (.dangling a))
          else match args[i+1]? with
            | none => .panic
            | some v =>
              match a with
              | .str s => loopGo args fuel (i+2) seen (acc.snoc1 (.any s v))
              | _ => loopGo args fuel (i+2) seen (acc.snoc3 ⟨i, a, v⟩)
    else .ok acc

/-! ## ghost trace: which arguments each output / diagnostic consumed -/

inductive Ev where
  | passed (ty : String) (key tok : Tok)
  | any (key : Tok) (v : Arg)
  | error (tok : Tok)
  | multiple (tok : Tok)
  | dangling (a : Arg)
  | invalid (pos : Nat) (k v : Arg)
deriving DecidableEq, Repr

/-- the consecutive arguments an event accounts for -/
def Ev.args : Ev → List Arg
  | .passed ty k t => [.field ty k t]
  | .any k v => [.str k, v]
  | .error e => [.err e]
  | .multiple e => [.err e]
  | .dangling a => [a]
  | .invalid _ k v => [k, v]

def trace (i : Nat) (seen : Bool) : List Arg → List Ev
  | [] => []
  | .field ty k t :: r => .passed ty k t :: trace (i+1) seen r
  | .err e :: r =>
      if seen then .multiple e :: trace (i+1) true r
      else .error e :: trace (i+1) true r
  | [a] => [.dangling a]
  | k :: v :: r =>
      match k with
      | .str s => .any s v :: trace (i+2) seen r
      | _ => .invalid i k v :: trace (i+2) seen r

def Ev.out? : Ev → Option Out
  | .passed ty k t => some (.passed ty k t) | .any k v => some (.any k v) | .error e => some (.error e) | _ => none
def Ev.ldiag? : Ev → Option LDiag
  | .multiple e => some (.multiple e) | .dangling a => some (.dangling a) | _ => none
def Ev.inv? : Ev → Option Inv
  | .invalid p k v => some ⟨p, k, v⟩ | _ => none

def Ev.isOut (e : Ev) : Bool := e.out?.isSome

/-- the three result lists are the three projections of the trace -/
def split (t : List Ev) : Res := ⟨t.filterMap Ev.out?, t.filterMap Ev.ldiag?, t.filterMap Ev.inv?⟩

/-- the argument list with everything a diagnostic names removed -/
def clean (args : List Arg) : List Arg := ((trace 0 false args).filter Ev.isOut).flatMap Ev.args

/-! ## rendered fields, entries, method bodies -/

/-- what an observer sees of a field: type tag, key, payload token — or the `invalid` array -/
inductive FieldD where
  | f (ty : String) (key tok : Tok)
  | invalid (ps : List (Nat × Tok × Tok))
deriving DecidableEq, Repr

def keyError : Tok := Bytes.ofString "error"
def keyIgnored : Tok := Bytes.ofString "ignored"

def Out.render : Out → FieldD
  | .passed ty k t => .f ty k t
  | .any k v => .f v.anyType.name k v.tok
  | .error e => .f FT.error.name keyError e

def Out.key : Out → Tok
  | .passed _ k _ => k | .any k _ => k | .error _ => keyError

structure Entry where
  lvl : Int
  msg : Bytes
  fields : List FieldD
deriving DecidableEq, Repr

def errorLevel : Int := 2
def msgMultiple : Bytes := Bytes.ofString "Multiple errors without a key."
def msgOdd : Bytes := Bytes.ofString "Ignored key without a value."
def msgNonString : Bytes := Bytes.ofString "Ignored key-value pairs with non-string keys."

def LDiag.entry (ctx : List FieldD) : LDiag → Entry
  | .multiple e => ⟨errorLevel, msgMultiple, ctx ++ [.f FT.error.name keyError e]⟩
  | .dangling a => ⟨errorLevel, msgOdd, ctx ++ [.f a.anyType.name keyIgnored a.tok]⟩

/-- diagnostic entries in emission order: the loop's own, then one entry carrying the `invalid` array -/
def Res.diagEntries (ctx : List FieldD) (r : Res) : List Entry :=
  r.diags.map (LDiag.entry ctx) ++
    (if r.invalid = [] then [] else
      [⟨errorLevel, msgNonString, ctx ++ [.invalid (r.invalid.map fun p => (p.pos, p.key.tok, p.val.tok))]⟩])

structure Cfg where
  min : Int      -- the core enables levels ≥ min
  dev : Bool     -- zap.Development()
deriving DecidableEq, Repr

def Cfg.enabled (c : Cfg) (l : Int) : Bool := decide (c.min ≤ l)

/-- levels whose CheckedEntry carries a terminal hook (Panic, Fatal, DPanic in development) -/
def Cfg.terminal (c : Cfg) (l : Int) : Bool := l == 4 || l == 5 || (l == 3 && c.dev)

/-- `Logger.check`: (will be written, a CheckedEntry is returned) -/
def Cfg.check (c : Cfg) (l : Int) : Bool × Bool :=
  if l < 3 ∧ ¬ c.enabled l then (false, false)
  else (c.enabled l, c.enabled l || c.terminal l)

/-- diagnostics go through `s.base.Error`: they are recorded iff Error is enabled -/
def Cfg.diagOut (c : Cfg) (ctx : List FieldD) (r : Res) : List Entry :=
  if c.enabled errorLevel then r.diagEntries ctx else []

structure Run where
  entries : List Entry
  panicked : Bool
deriving DecidableEq, Repr

/-- body of `SugaredLogger.log` / `logln` once the message is built -/
def logMsg (c : Cfg) (ctx : List FieldD) (l : Int) (msg : Bytes) (context : List Arg) : Run :=
  if l < 3 ∧ ¬ c.enabled l then ⟨[], false⟩
  else
    let (will, ce) := c.check l
    if ¬ ce then ⟨[], false⟩
    else
      let r := sweeten context
      ⟨c.diagOut ctx r ++ (if will then [⟨l, msg, ctx ++ r.fields.map Out.render⟩] else []), c.terminal l⟩

/-- `With` / `WithLazy`: the diagnostics are logged by the parent, the child carries the fields -/
def withArgs (c : Cfg) (ctx : List FieldD) (args : List Arg) : List Entry × List FieldD :=
  let r := sweeten args
  (c.diagOut ctx r, ctx ++ r.fields.map Out.render)

/-! ## messages (`fmt` is a parameter) -/

structure Fmt where
  sprint : List Arg → Bytes
  sprintf : Bytes → List Arg → Bytes
  sprintln : List Arg → Bytes

/-- sugar.go:getMessage -/
def getMessage (F : Fmt) (template : Bytes) (fmtArgs : List Arg) : Bytes :=
  if fmtArgs = [] then template
  else if template ≠ [] then F.sprintf template fmtArgs
  else match fmtArgs with
    | [.str s] => s
    | _ => F.sprint fmtArgs

/-- sugar.go:getMessageln — `msg[:len(msg)-1]` -/
def getMessageln (F : Fmt) (fmtArgs : List Arg) : Bytes :=
  (F.sprintln fmtArgs).dropLast

end ZapVerif.Sugar
