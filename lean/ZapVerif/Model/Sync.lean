/-! M10 — synchronisation traces, lock semantics, happens-before, data races.

Traces are stored NEWEST-FIRST (`e :: tr`: `e` is the latest event, `tr` everything before it); the
*index* of an event is its position counted from the oldest event (index 0), i.e. the length of the
part of the trace that precedes it.  The happens-before relation below IS the trusted rendering of
the Go memory model (DESIGN §3): program order, Unlock→later Lock, Unlock→later RLock,
RUnlock→later Lock, completion of the `Once.Do` body→return of any `Do`, `go` statement→every event
of the started goroutine; closed under transitivity.  Atomic operations deliberately add NO edges
(fewer edges = a stronger race-freedom claim). -/
namespace ZapVerif.Sync

abbrev Tid := Nat
abbrev Lock := Nat
abbrev Var := Nat
abbrev OnceId := Nat

inductive Ev where
  | acq (t : Tid) (m : Lock)        -- Mutex.Lock / RWMutex.Lock returned
  | rel (t : Tid) (m : Lock)        -- Mutex.Unlock / RWMutex.Unlock
  | racq (t : Tid) (m : Lock)       -- RWMutex.RLock returned
  | rrel (t : Tid) (m : Lock)       -- RWMutex.RUnlock
  | rd (t : Tid) (x : Var)          -- plain read
  | wr (t : Tid) (x : Var)          -- plain write
  | ard (t : Tid) (x : Var)         -- sync/atomic load
  | awr (t : Tid) (x : Var)         -- sync/atomic store / add / CAS
  | onceBegin (t : Tid) (o : OnceId)  -- t won `o.Do(f)` and starts f
  | onceEnd (t : Tid) (o : OnceId)    -- f returned
  | onceRet (t : Tid) (o : OnceId)    -- a call `o.Do(..)` of t returned without running f
  | fork (t : Tid) (u : Tid)        -- `go` statement of t starting goroutine u
deriving DecidableEq, Repr

def Ev.tid : Ev → Tid
  | .acq t _ | .rel t _ | .racq t _ | .rrel t _ | .rd t _ | .wr t _ | .ard t _ | .awr t _
  | .onceBegin t _ | .onceEnd t _ | .onceRet t _ | .fork t _ => t

/-- any access (plain or atomic) to x -/
def Ev.touches (e : Ev) (x : Var) : Bool :=
  match e with
  | .rd _ y | .wr _ y | .ard _ y | .awr _ y => x == y
  | _ => false

def Ev.isWrite : Ev → Bool
  | .wr _ _ | .awr _ _ => true
  | _ => false

def Ev.isAtomic : Ev → Bool
  | .ard _ _ | .awr _ _ => true
  | _ => false

/-- exclusive holder of lock m after the events of `tr` -/
def holder (m : Lock) : List Ev → Option Tid
  | [] => none
  | e :: tr =>
    match e with
    | .acq t m' => if m' = m then some t else holder m tr
    | .rel _ m' => if m' = m then none else holder m tr
    | _ => holder m tr

/-- goroutines holding m in read mode (with multiplicity) after `tr` -/
def readers (m : Lock) : List Ev → List Tid
  | [] => []
  | e :: tr =>
    match e with
    | .racq t m' => if m' = m then t :: readers m tr else readers m tr
    | .rrel t m' => if m' = m then (readers m tr).erase t else readers m tr
    | _ => readers m tr

inductive OnceSt where
  | idle
  | running (t : Tid)
  | done
deriving DecidableEq, Repr

def onceSt (o : OnceId) : List Ev → OnceSt
  | [] => .idle
  | e :: tr =>
    match e with
    | .onceBegin t o' => if o' = o then .running t else onceSt o tr
    | .onceEnd _ o' => if o' = o then .done else onceSt o tr
    | _ => onceSt o tr

/-- u already exists in tr: it made a step or was the target of a `go` -/
def started (u : Tid) : List Ev → Bool
  | [] => false
  | e :: tr => e.tid == u || (match e with | .fork _ v => v == u | _ => false) || started u tr

/-- may `e` happen after `tr`? (lock, once and goroutine-creation semantics) -/
def okStep (e : Ev) (tr : List Ev) : Bool :=
  match e with
  | .acq _ m => holder m tr == none && readers m tr == []
  | .rel t m => holder m tr == some t
  | .racq _ m => holder m tr == none
  | .rrel t m => (readers m tr).contains t
  | .onceBegin _ o => onceSt o tr == .idle
  | .onceEnd t o => onceSt o tr == .running t
  | .onceRet _ o => onceSt o tr == .done
  | .fork t u => !started u tr && u != t
  | _ => true

/-- well-formed traces (newest-first) -/
def WF : List Ev → Prop
  | [] => True
  | e :: tr => WF tr ∧ okStep e tr = true

/-- event with index k (0 = oldest) of a newest-first trace -/
def evAt : List Ev → Nat → Option Ev
  | [], _ => none
  | e :: tr, k => if k = tr.length then some e else evAt tr k

/-- synchronises-with: `a` (earlier) → `b` (later) -/
def sw (a b : Ev) : Bool :=
  match a, b with
  | .rel _ m, .acq _ m' => m == m'
  | .rel _ m, .racq _ m' => m == m'
  | .rrel _ m, .acq _ m' => m == m'
  | .onceEnd _ o, .onceRet _ o' => o == o'
  | .fork _ u, b => b.tid == u
  | _, _ => false

/-- happens-before between event indices of `tr`: the transitive closure of program order and
    synchronises-with, both directed from the earlier to the later index -/
inductive HB (tr : List Ev) : Nat → Nat → Prop where
  | po {i j : Nat} {a b : Ev} : i < j → evAt tr i = some a → evAt tr j = some b → a.tid = b.tid → HB tr i j
  | sw {i j : Nat} {a b : Ev} : i < j → evAt tr i = some a → evAt tr j = some b → sw a b = true → HB tr i j
  | trans {i j k : Nat} : HB tr i j → HB tr j k → HB tr i k

/-- two accesses conflict on x: same variable, different goroutines, at least one write, not both atomic -/
def conflict (x : Var) (a b : Ev) : Bool :=
  a.touches x && b.touches x && (a.isWrite || b.isWrite) && !(a.isAtomic && b.isAtomic) && (a.tid != b.tid)

/-- a data race on x: two conflicting accesses not ordered by happens-before -/
def Race (tr : List Ev) (x : Var) : Prop :=
  ∃ i j a b, i < j ∧ evAt tr i = some a ∧ evAt tr j = some b ∧ conflict x a b = true ∧ ¬ HB tr i j

def DRF (tr : List Ev) (x : Var) : Prop := ¬ Race tr x

/-! ### disciplines (predicates over newest-first traces) -/

/-- every access to x is made while its goroutine holds m exclusively -/
def Guarded (x : Var) (m : Lock) : List Ev → Prop
  | [] => True
  | e :: tr => Guarded x m tr ∧ (e.touches x = true → holder m tr = some e.tid)

/-- writes to x under the exclusive lock, reads under the exclusive or the read lock -/
def RWGuarded (x : Var) (m : Lock) : List Ev → Prop
  | [] => True
  | e :: tr => RWGuarded x m tr ∧ (e.touches x = true →
      if e.isWrite then holder m tr = some e.tid
      else (holder m tr = some e.tid ∨ e.tid ∈ readers m tr))

/-- every access to x is a sync/atomic operation -/
def AtomicOnly (x : Var) (tr : List Ev) : Prop :=
  ∀ e ∈ tr, e.touches x = true → e.isAtomic = true

/-- every access to x is made by goroutine c -/
def OwnerOnly (x : Var) (c : Tid) (tr : List Ev) : Prop :=
  ∀ e ∈ tr, e.touches x = true → e.tid = c

/-- t has returned from a `Do(o)` (as winner or not) -/
def passed (o : OnceId) (t : Tid) : List Ev → Bool
  | [] => false
  | e :: tr => (match e with
      | .onceEnd t' o' => t' == t && o' == o
      | .onceRet t' o' => t' == t && o' == o
      | _ => false) || passed o t tr

/-- x is written only inside the function run by `o.Do`, and read only there or after the reading
    goroutine returned from a `Do(o)` call -/
def OnceGuarded (x : Var) (o : OnceId) : List Ev → Prop
  | [] => True
  | e :: tr => OnceGuarded x o tr ∧ (e.touches x = true →
      onceSt o tr = .running e.tid ∨ (e.isWrite = false ∧ passed o e.tid tr = true))

/-! ### vector-clock style knowledge (lock edges only), used by `lockset_ordered` -/

/-- `know tr t k`: the event with index k is known to (happens-before-or-is an event of) goroutine t
    after `tr`; only program order and Unlock→Lock edges are propagated -/
def know : List Ev → Tid → Nat → Bool
  | [], _, _ => false
  | e :: tr, t, k =>
    if e.tid = t then
      (k == tr.length) || know tr t k ||
        (match e with
         | .acq _ m => relKnow m tr k
         | _ => false)
    else know tr t k
where
  /-- what the earlier releases of m knew, including themselves -/
  relKnow (m : Lock) : List Ev → Nat → Bool
    | [], _ => false
    | e :: tr, k =>
      match e with
      | .rel t' m' => if m' = m then (k == tr.length) || know tr t' k || relKnow m tr k
                      else relKnow m tr k
      | _ => relKnow m tr k

/-! ### executable race detector over a finished trace (used by the model driver) -/

/-- list of (index, event), oldest first -/
def indexed (tr : List Ev) : List (Nat × Ev) := (tr.reverse).zipIdx.map fun (e, i) => (i, e)

/-- immediate edges (program order to the NEXT event of the same goroutine is enough; sw edges all) -/
def edgeB (a b : Nat × Ev) : Bool :=
  a.1 < b.1 && (a.2.tid == b.2.tid || sw a.2 b.2)

/-- reachability by at most `fuel` rounds of relaxation over indices in increasing order:
    `reach[j]` = set of indices that happen-before j -/
def hbSets (evs : List (Nat × Ev)) : List (Nat × List Nat) :=
  evs.foldl (fun acc b =>
    let preds := acc.filter fun (i, _) => match evs.find? (·.1 == i) with
      | some a => edgeB a b
      | none => false
    let s := preds.foldl (fun s (i, si) => (i :: si) ++ s) []
    acc ++ [(b.1, s.eraseDups)]) []

/-- all racing index pairs on x (executable mirror of `Race`) -/
def races (tr : List Ev) (x : Var) : List (Nat × Nat) :=
  let evs := indexed tr
  let hb := hbSets evs
  evs.foldl (fun out b =>
    let before := match hb.find? (·.1 == b.1) with | some (_, s) => s | none => []
    out ++ (evs.filter fun a => a.1 < b.1 && conflict x a.2 b.2 && !before.contains a.1).map fun a => (a.1, b.1)) []

end ZapVerif.Sync
