/-! Shape of the regenerated `Gen/SyncFacts.lean` table and the (executable) discipline classifier.

A *site* is one syntactic read or write of a field of a shared type after construction, with the
syntactic guard the extractor (gen/syncfacts.go) found for it.  A field is *disciplined* when all its
sites fit one synchronisation class; each class corresponds to one generic theorem over M10
(`Props/C09.lean: class_sound`). -/
namespace ZapVerif.SyncFacts

inductive Guard where
  | none                 -- no synchronisation visible
  | fresh                -- base object is a clone / composite literal made in the same function (not yet shared)
  | optfn                -- inside an option closure, which is only applied to fresh objects (`applySites`)
  | nilinit              -- completing a zero value: `if x.f == nil { x.f = … }`
  | mu (m : Nat)         -- exclusive lock m held (Lock dominating, Unlock later or deferred)
  | rmu (m : Nat)        -- read lock m held
  | atomic               -- method of a sync/atomic value
  | syncop               -- the field IS the mutex / once; the access is a Lock/Unlock/Do call
  | onceBody (o : Nat)   -- inside the function literal passed to o.Do
  | afterOnce (o : Nat)  -- after a call of the once-wrapper in the same method
  | forked               -- in a method only ever started with `go` by the initialising function
  | afterCS (m : Nat)    -- after a critical section of m earlier in the same function
deriving DecidableEq, Repr

structure Site where
  fn : Nat               -- index into the generated function-name table
  write : Bool
  guard : Guard
deriving DecidableEq, Repr

inductive Class where
  | immutable            -- never written once shared            → immutable_after_publish_drf / owner_only_drf
  | syncprim             -- the field is a mutex/once itself
  | atomic               -- sync/atomic only                     → atomic_only_drf
  | mutex (m : Nat)      -- every access under the exclusive lock → lockset_drf
  | rwmutex (m : Nat)    -- writes exclusive, reads shared        → rw_lockset_drf
  | once (o : Nat)       -- written in Once.Do, read after it     → once_publish_drf
  | lockPublish (m : Nat) -- written under m, read under m / by the forked flusher / after a later CS → lock_publish_drf
deriving DecidableEq, Repr

def unshared : Guard → Bool
  | .fresh | .optfn | .nilinit => true
  | _ => false

def Class.accepts (c : Class) (s : Site) : Bool :=
  unshared s.guard ||
  match c with
  | .immutable => !s.write
  | .syncprim => s.guard == .syncop
  | .atomic => s.guard == .atomic
  | .mutex m => s.guard == .mu m
  | .rwmutex m => s.guard == .mu m || (!s.write && s.guard == .rmu m)
  | .once o => s.guard == .onceBody o || (!s.write && s.guard == .afterOnce o)
  | .lockPublish m => s.guard == .mu m || (!s.write && (s.guard == .forked || s.guard == .afterCS m))

def guardIds : Guard → List Nat
  | .mu m | .rmu m | .afterCS m | .onceBody m | .afterOnce m => [m]
  | _ => []

def candidates (ss : List Site) : List Class :=
  let ids := (ss.flatMap (guardIds ·.guard)).eraseDups
  [.immutable, .syncprim, .atomic] ++ ids.map .mutex ++ ids.map .rwmutex ++ ids.map .once ++ ids.map .lockPublish

/-- the first class all sites of the field fit into -/
def classify (ss : List Site) : Option Class :=
  (candidates ss).find? fun c => ss.all c.accepts

/-- one generated row: (type id, field id, sites) -/
abbrev Row := Nat × Nat × List Site

def allDisciplined (table : List Row) : Bool := table.all fun r => (classify r.2.2).isSome

def undisciplined (table : List Row) : List (Nat × Nat) :=
  (table.filter fun r => (classify r.2.2).isNone).map fun r => (r.1, r.2.1)

end ZapVerif.SyncFacts
