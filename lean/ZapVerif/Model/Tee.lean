import ZapVerif.Model.Bytes
/-! M10 (byte-granular part, C04): goroutines logging whole lines into one or several lock-protected sinks
    (the branches of a tee), any schedule; the executable acceptance predicate `validMerge`; the critical-section
    level model of the BufferedWriteSyncer; and the machine without the lock. -/
namespace ZapVerif.Tee
open ZapVerif

/-- one sink write a log call has to perform: the encoded line goes to branch `br` -/
structure Job where
  br : Nat
  line : Bytes
deriving DecidableEq, Repr

structure Thr where
  todo : List Job                 -- writes this goroutine still has to perform, in program order
  cur : Option (Nat × Bytes)      -- some (b, rest): holds the mutex of branch b, `rest` still to be emitted

structure St where
  thr : Nat → Thr
  lock : Nat → Option Nat         -- per branch: the goroutine holding its mutex
  sink : Nat → Bytes              -- per branch: the bytes received so far
  hist : Nat → List (Nat × Bytes) -- ghost, per branch: (goroutine, line) in lock-acquisition order

def upd {α} (f : Nat → α) (i : Nat) (v : α) : Nat → α := fun j => if j = i then v else f j

/-- one scheduler step of goroutine t; `none` = t is blocked or finished -/
def step (s : St) (t : Nat) : Option St :=
  match (s.thr t).cur with
  | some (b, x :: rest) =>
    some { s with thr := upd s.thr t { (s.thr t) with cur := some (b, rest) }, sink := upd s.sink b (s.sink b ++ [x]) }
  | some (b, []) =>
    some { s with thr := upd s.thr t { (s.thr t) with cur := none }, lock := upd s.lock b none }
  | none =>
    match (s.thr t).todo with
    | j :: js =>
      match s.lock j.br with
      | none => some { s with thr := upd s.thr t { todo := js, cur := some (j.br, j.line) },
                              lock := upd s.lock j.br (some t),
                              hist := upd s.hist j.br (s.hist j.br ++ [(t, j.line)]) }
      | some _ => none
    | [] => none

def run (s : St) : List Nat → St
  | [] => s
  | t :: ts => match step s t with
    | some s' => run s' ts
    | none => run s ts

/-- the lines branch b has accepted, in acquisition order, concatenated -/
def written (s : St) (b : Nat) : Bytes := ((s.hist b).map (·.2)).flatten

/-- what goroutine t contributed to a labelled history, in order -/
def proj (t : Nat) (h : List (Nat × Bytes)) : List Bytes := (h.filter (·.1 == t)).map (·.2)

/-- the lines goroutine t sends to branch b, in program order -/
def linesFor (b : Nat) (jobs : List Job) : List Bytes := (jobs.filter (·.br == b)).map (·.line)

/-- initial state: goroutine t has program `jobs t`; nothing locked, nothing written -/
def init (jobs : Nat → List Job) : St :=
  { thr := fun t => { todo := jobs t, cur := none }, lock := fun _ => none, sink := fun _ => [], hist := fun _ => [] }

/-- every goroutine is done -/
def Finished (s : St) : Prop := ∀ t, (s.thr t).todo = [] ∧ (s.thr t).cur = none

/-- a log call through a tee of B branches: the same line to branch 0, 1, …, B-1 -/
def teeCall (B : Nat) (l : Bytes) : List Job := (List.range B).map fun b => ⟨b, l⟩

def teeProg (B : Nat) (ls : List Bytes) : List Job := ls.flatMap (teeCall B)

/-! ### merges -/

/-- `ls` is a merge of the per-goroutine lists `per`: there is a labelling of `ls` with goroutine ids whose
    projections are exactly the per-goroutine lists (nothing lost, duplicated, invented; per-goroutine order kept) -/
def IsMergeOf (per : Nat → List Bytes) (ls : List Bytes) : Prop :=
  ∃ h : List (Nat × Bytes), h.map (·.2) = ls ∧ ∀ t, proj t h = per t

/-- executable: is `ls` a merge of the lists in `per`? (search over the goroutines whose next line matches) -/
def isMerge : List (List Bytes) → List Bytes → Bool
  | per, [] => per.all (·.isEmpty)
  | per, l :: rest =>
    (List.range per.length).any fun i =>
      match per[i]? with
      | some (h :: t) => h == l && isMerge (per.set i t) rest
      | _ => false

/-- cut a byte stream into '\n'-terminated lines; `none` when the tail is not terminated -/
def cutAux : Bytes → Bytes → Option (List Bytes)
  | [], [] => some []
  | [], _ :: _ => none
  | b :: bs, acc =>
    if b = 10 then (cutAux bs []).map ((acc ++ [b]) :: ·) else cutAux bs (acc ++ [b])

def cut (bs : Bytes) : Option (List Bytes) := cutAux bs []

/-- acceptance predicate used on recorded sinks: the stream consists of whole lines and these lines are a merge of
    what each goroutine logged -/
def validMerge (per : List (List Bytes)) (sink : Bytes) : Bool :=
  match cut sink with
  | some ls => isMerge per ls
  | none => false

/-! ### BufferedWriteSyncer at critical-section granularity

`Write`/`Sync`/the flush tick each run entirely under `BufferedWriteSyncer.mu` (Gen fact), so by the mutex
theorem they are atomic w.r.t. each other; what remains is the buffering logic. -/

inductive BOp where
  | write (l : Bytes)
  | sync                 -- Sync(), a flush tick, or Stop's final flush
deriving DecidableEq, Repr

structure BSt where
  buf : Bytes
  calls : List Bytes     -- the Write calls the underlying sink received, oldest first

/-- zap's Write: flush first when the line does not fit and something is buffered; then bufio.Write, which writes
    through directly when the buffer is empty and the line is larger than what is available -/
def bstep (size : Nat) (s : BSt) : BOp → BSt
  | .sync => if s.buf = [] then s else { buf := [], calls := s.calls ++ [s.buf] }
  | .write l =>
    let s1 : BSt := if l.length > size - s.buf.length ∧ s.buf ≠ [] then { buf := [], calls := s.calls ++ [s.buf] } else s
    if l.length > size - s1.buf.length then { buf := [], calls := (if s1.buf = [] then s1.calls else s1.calls ++ [s1.buf]) ++ [l] }
    else { s1 with buf := s1.buf ++ l }

def brun (size : Nat) (s : BSt) (ops : List (Nat × BOp)) : BSt := ops.foldl (fun s o => bstep size s o.2) s

/-- the lines written by the labelled ops, in order -/
def bwritten : List (Nat × BOp) → List (Nat × Bytes)
  | [] => []
  | (t, .write l) :: r => (t, l) :: bwritten r
  | (_, .sync) :: r => bwritten r

/-! ### without the lock -/

/-- the same goroutines writing byte by byte with no mutex (single sink) -/
def stepU (thr : Nat → List Bytes × Bytes) (sink : Bytes) (t : Nat) : (Nat → List Bytes × Bytes) × Bytes :=
  match thr t with
  | (todo, x :: rest) => (upd thr t (todo, rest), sink ++ [x])
  | (l :: todo, []) => (upd thr t (todo, l), sink)
  | ([], []) => (thr, sink)

def runU (thr : Nat → List Bytes × Bytes) (sink : Bytes) : List Nat → Bytes
  | [] => sink
  | t :: ts => let (thr', sink') := stepU thr sink t; runU thr' sink' ts

end ZapVerif.Tee
