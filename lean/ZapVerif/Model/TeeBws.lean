import ZapVerif.Model.Tee
/-! C04 machine: goroutines logging through a tee whose branches are `ioCore`s over `zapcore.Lock(sink)` (this is also
    what `zap.Open` / `CombineWriteSyncers` build) or over a `BufferedWriteSyncer`, at the granularity of the code:

      ioCore.Write            buf := enc.EncodeEntry(…)      take a buffer from the pool, append the line byte by byte
                              c.out.Write(buf.Bytes())       ONE Write call that reads the pooled buffer
                              buf.Free()                     only now the buffer goes back to the pool
      lockedWriteSyncer.Write Lock; ws.Write(bs); Unlock     the sink receives the bytes one by one (a sink Write is
                                                             not atomic), nobody else can enter
      BufferedWriteSyncer     Lock (deferred Unlock); flush first when the line does not fit and something is
        .Write                buffered; then bufio.Write: direct sink Write when the buffer is empty and the line is
                              larger than the buffer, else copy into the buffer
        .Sync / tick / Stop   Lock (deferred Unlock); Flush
      multiCore.Write         every branch in turn (each branch encodes for itself)

    Any number of goroutines, any programs, any line lengths, any schedule; the scheduler also picks which free pooled
    buffer a `Get` returns. A flush tick / a concurrent `Sync` is a goroutine whose program contains `sync b`. -/
namespace ZapVerif.TeeBws
open ZapVerif ZapVerif.Tee

inductive Kind where
  | locked                    -- ioCore over zapcore.Lock(sink)
  | buffered (size : Nat)     -- ioCore over &BufferedWriteSyncer{WS: sink, Size: size}
deriving DecidableEq, Repr

/-- one step of a goroutine's program -/
inductive Act where
  | write (br : Nat) (line : Bytes)   -- ioCore.Write of branch br for an entry whose encoding is `line`
  | sync (br : Nat)                   -- Sync() of branch br, a flush tick, or Stop's final flush
deriving DecidableEq, Repr

/-- where a goroutine is inside `ioCore.Write` / `Sync` (the `line` arguments are ghosts: the steps read the pooled
    buffer, never `line`) -/
inductive Ph where
  | idle
  | enc (k br : Nat) (line rest : Bytes)       -- owns pooled buffer k, `rest` still to be appended to it
  | pre (k br : Nat) (line : Bytes)            -- BWS: holds mu, before the "does it fit" test
  | emit (k br : Nat) (line : Bytes) (i : Nat) -- holds the mutex; a Write call on the underlying sink is in progress, i bytes handed over
  | copy (k br : Nat) (line : Bytes) (i : Nat) -- BWS: holds mu, bufio copies the line into its buffer, i bytes copied
  | fin (k : Nat)                              -- the Write returned and the mutex is released; buffer k not yet freed
  | flush (br : Nat)                           -- holds the mutex for Sync / tick
deriving DecidableEq, Repr

structure Thr where
  todo : List Act
  ph : Ph

/-- a pooled buffer: `owner = none` ⇔ it is in the pool -/
structure PBuf where
  owner : Option Nat
  data : Bytes

structure St where
  thr : Nat → Thr
  pool : Nat → PBuf
  lock : Nat → Option Nat           -- per branch: the goroutine holding lockedWriteSyncer.Mutex / BufferedWriteSyncer.mu
  buf : Nat → Bytes                 -- per branch: content of the bufio buffer (stays empty on a Lock(sink) branch)
  calls : Nat → List Bytes          -- per branch: the completed Write calls the underlying sink received, oldest first
  cur : Nat → Bytes                 -- per branch: the bytes of the sink Write call in progress
  hist : Nat → List (Nat × Bytes)   -- ghost, per branch: (goroutine, line) in lock-acquisition order

/-- the byte stream the underlying sink of branch b has received so far -/
def stream (s : St) (b : Nat) : Bytes := (s.calls b).flatten ++ s.cur b

/-- the lines branch b accepted, in lock-acquisition order -/
def wlines (s : St) (b : Nat) : List Bytes := (s.hist b).map (·.2)

def sizeOf : Kind → Nat
  | .locked => 0
  | .buffered n => n

/-- one scheduler step of goroutine t (`c`: the pooled buffer the pool hands out if t is at a `Get`);
    `none` = t is blocked, finished, or the pool would not hand out c.
    `early = true` is the seeded defect "buffer returned to the pool before the sink write" (witness only). -/
def step (kind : Nat → Kind) (early : Bool) (s : St) (t c : Nat) : Option St :=
  let th := s.thr t
  match th.ph with
  | .idle =>
    match th.todo with
    | [] => none
    | .write br line :: rest =>
      -- bufferpool.Get(): some buffer that is in the pool, Reset
      if (s.pool c).owner = none then
        some { s with thr := upd s.thr t { todo := rest, ph := .enc c br line line },
                      pool := upd s.pool c { owner := some t, data := [] } }
      else none
    | .sync br :: rest =>
      match s.lock br with
      | none => some { s with thr := upd s.thr t { todo := rest, ph := .flush br }, lock := upd s.lock br (some t) }
      | some _ => none
  | .enc k br line (x :: rest) =>
    some { s with thr := upd s.thr t { th with ph := .enc k br line rest },
                  pool := upd s.pool k { (s.pool k) with data := (s.pool k).data ++ [x] } }
  | .enc k br line [] =>
    match s.lock br with
    | some _ => none
    | none =>
      some { s with thr := upd s.thr t { th with ph := (match kind br with
                                                      | .locked => .emit k br line 0
                                                      | .buffered _ => .pre k br line) },
                    lock := upd s.lock br (some t),
                    hist := upd s.hist br (s.hist br ++ [(t, line)]),
                    pool := if early then upd s.pool k { (s.pool k) with owner := none } else s.pool }
  | .pre k br line =>
    let len := (s.pool k).data.length
    if len > sizeOf (kind br) - (s.buf br).length ∧ s.buf br ≠ [] then
      -- s.writer.Flush(): one Write call with the buffered bytes
      some { s with calls := upd s.calls br (s.calls br ++ [s.buf br]), buf := upd s.buf br [] }
    else if len > sizeOf (kind br) - (s.buf br).length then
      some { s with thr := upd s.thr t { th with ph := .emit k br line 0 } }   -- bufio: direct write
    else
      some { s with thr := upd s.thr t { th with ph := .copy k br line 0 } }
  | .emit k br line i =>
    match (s.pool k).data[i]? with
    | some x => some { s with thr := upd s.thr t { th with ph := .emit k br line (i + 1) },
                              cur := upd s.cur br (s.cur br ++ [x]) }
    | none => some { s with thr := upd s.thr t { th with ph := .fin k },
                            calls := upd s.calls br (s.calls br ++ [s.cur br]), cur := upd s.cur br [],
                            lock := upd s.lock br none }
  | .copy k br line i =>
    match (s.pool k).data[i]? with
    | some x => some { s with thr := upd s.thr t { th with ph := .copy k br line (i + 1) },
                              buf := upd s.buf br (s.buf br ++ [x]) }
    | none => some { s with thr := upd s.thr t { th with ph := .fin k }, lock := upd s.lock br none }
  | .fin k =>
    some { s with thr := upd s.thr t { th with ph := .idle },
                  pool := if early then s.pool else upd s.pool k { (s.pool k) with owner := none } }
  | .flush br =>
    some { s with thr := upd s.thr t { th with ph := .idle },
                  calls := if s.buf br = [] then s.calls else upd s.calls br (s.calls br ++ [s.buf br]),
                  buf := upd s.buf br [],
                  lock := upd s.lock br none }

def run (kind : Nat → Kind) (early : Bool) (s : St) : List (Nat × Nat) → St
  | [] => s
  | (t, c) :: ts => match step kind early s t c with
    | some s' => run kind early s' ts
    | none => run kind early s ts

def init (jobs : Nat → List Act) : St :=
  { thr := fun t => { todo := jobs t, ph := .idle }, pool := fun _ => { owner := none, data := [] },
    lock := fun _ => none, buf := fun _ => [], calls := fun _ => [], cur := fun _ => [], hist := fun _ => [] }

def Finished (s : St) : Prop := ∀ t, (s.thr t).todo = [] ∧ (s.thr t).ph = .idle

/-- the lines a program sends to branch b, in program order -/
def linesFor (b : Nat) : List Act → List Bytes
  | [] => []
  | .write br l :: r => if br = b then l :: linesFor b r else linesFor b r
  | .sync _ :: r => linesFor b r

/-- `multiCore.Write` / `CheckedEntry.Write` for a tee of B branches: branch 0, 1, …, B-1 in turn; branch b encodes the
    entry to `enc b` (each branch has its own encoder) -/
def teeCall (B : Nat) (enc : Nat → Bytes) : List Act := (List.range B).map fun b => .write b (enc b)

/-- a goroutine logging the entries `es` through the tee (`es[i] b` = encoding of entry i on branch b) -/
def teeProg (B : Nat) (es : List (Nat → Bytes)) : List Act := es.flatMap (teeCall B)

/-! `Tee.cutAux` appends to its accumulator (quadratic in the line length); the compiled driver runs this linear
    version instead (`@[csimp]`: same function, proved below) -/

def cutFastAux : Bytes → Bytes → Option (List Bytes)
  | [], [] => some []
  | [], _ :: _ => none
  | b :: bs, acc => if b = 10 then (cutFastAux bs []).map ((b :: acc).reverse :: ·) else cutFastAux bs (b :: acc)

def cutFast (bs : Bytes) : Option (List Bytes) := cutFastAux bs []

theorem cutFastAux_eq : ∀ (bs acc : Bytes), cutFastAux bs acc = cutAux bs acc.reverse
  | [], [] => rfl
  | [], a :: r => by
    have : (a :: r).reverse ≠ [] := by simp
    cases h : (a :: r).reverse with
    | nil => exact absurd h this
    | cons x y => simp [cutFastAux, cutAux]
  | b :: bs, acc => by
    simp only [cutFastAux, cutAux]
    split
    · rw [cutFastAux_eq bs []]; simp
    · rw [cutFastAux_eq bs (b :: acc)]; simp

@[csimp] theorem cut_eq_cutFast : @cut = @cutFast := by
  funext bs; simp [cut, cutFast, cutFastAux_eq]

def validMergeFast (per : List (List Bytes)) (sink : Bytes) : Bool :=
  match cutFast sink with
  | some ls => isMerge per ls
  | none => false

@[csimp] theorem validMerge_eq_fast : @validMerge = @validMergeFast := by
  funext per sink
  unfold validMerge validMergeFast
  rw [cut_eq_cutFast]
  cases cutFast sink <;> rfl

/-- executable acceptance of a recorded BufferedWriteSyncer sink: the concatenated Write calls are a valid merge, and
    every single Write call consists of whole lines -/
def validCalls (per : List (List Bytes)) (calls : List Bytes) : Bool :=
  validMerge per calls.flatten && calls.all fun c => (cut c).isSome

/-- executable acceptance of a recorded Lock(sink): the concatenation is a valid merge and every single Write call is
    exactly one line -/
def validLines (per : List (List Bytes)) (calls : List Bytes) : Bool :=
  validMerge per calls.flatten && calls.all fun c => cut c == some [c]

end ZapVerif.TeeBws
