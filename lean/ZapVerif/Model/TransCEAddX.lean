import ZapVerif.Model.GoMini
import ZapVerif.Gen.TransCEAdd
/-! Interpreter context of the table `Gen/TransCEAdd.lean` (zapcore/entry.go: `(*CheckedEntry).AddCore`, `After`,
    `Should`).  No external intrinsics: `getCheckedEntry()` is the shim "fresh zeroed entry".  Core-only. -/
namespace ZapVerif.TransCEAdd
open ZapVerif ZapVerif.GoMini ZapVerif.Gen.TransCEAdd

def X : Ctx := { ext := fun _ _ => none, funs := funs }

/-- the fields of the `*CheckedEntry` the receiver variable denotes (`isnil`: it is the nil pointer) -/
abbrev ceFld (isnil dirty : Bool) (eo after cores : List Val) (entry self : Val) : Env :=
  [("isnil", .bool isnil), ("dirty", .bool dirty), ("eo", .list eo), ("after", .list after), ("cores", .list cores),
   ("entry", entry), ("self", self)]

end ZapVerif.TransCEAdd
