import ZapVerif.Model.GoMini
import ZapVerif.Gen.TransCE
/-! Interpreter context of the table `Gen/TransCE.lean` (zapcore/entry.go: `(*CheckedEntry).Write`).  Every call
    `Write` makes to the outside — `core.Write`, `fmt.Fprintf(ce.ErrorOutput, …)`, `ErrorOutput.Sync`, `hook.OnWrite`,
    `putCheckedEntry` — is an external intrinsic whose call is RECORDED in the trace field `ev`; a core is a value
    `[id, errs]` that scripts the error its `Write` returns (errors are id lists, `multierr.Append` = concatenation).
    Core-only. -/
namespace ZapVerif.TransCE
open ZapVerif ZapVerif.GoMini ZapVerif.Gen.TransCE

/-- a core: its identity and the errors its `Write` returns -/
def coreV (id : Nat) (errs : List Val) : Val := .list [.int id, .list errs]

def coreOf (c : Nat × List Val) : Val := coreV c.1 c.2

def ext : String → List Val → Option (List Val)
  | "Core.Write", [.list [_, .list errs], _, _] => some [.list errs]
  | "fmt.Fprintf", _ :: _ => some [.int 0, .list []]
  | "ErrorOutput.Sync", [_] => some [.list []]
  | "hook.OnWrite", [_, _, _] => some []
  | "putCheckedEntry", [_] => some []
  | _, _ => none

def X : Ctx := { ext := ext, funs := funs }

/-- the fields of a `*CheckedEntry` as `Write` sees them -/
abbrev ceFld (isnil dirty : Bool) (eo after : List Val) (cores : List Val) (time entry self : Val) (ev : List Val) : Env :=
  [("isnil", .bool isnil), ("dirty", .bool dirty), ("eo", .list eo), ("after", .list after), ("cores", .list cores),
   ("time", time), ("entry", entry), ("self", self), ("ev", .list ev)]

/-! the trace records -/
def nm (s : String) : Val := .bytes s.toUTF8.toList
def evCore (core entry fs : Val) : Val := .list [nm "Core.Write", core, entry, fs]
def evErrLine (eo : List Val) (time : Val) (errs : List Val) : Val :=
  .list [nm "fmt.Fprintf", .list eo, nm "%v write error: %v\n", time, .list errs]
def evReuse (eo : List Val) (time entry : Val) : Val :=
  .list [nm "fmt.Fprintf", .list eo, nm "%v Unsafe CheckedEntry re-use near Entry %+v.\n", time, entry]
def evErrSync (eo : List Val) : Val := .list [nm "ErrorOutput.Sync", .list eo]
def evHook (hook : List Val) (self fs : Val) : Val := .list [nm "hook.OnWrite", .list hook, self, fs]
def evPut (self : Val) : Val := .list [nm "putCheckedEntry", self]

end ZapVerif.TransCE
