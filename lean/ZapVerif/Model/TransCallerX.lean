import ZapVerif.Model.GoMini
import ZapVerif.Model.Callers
import ZapVerif.Gen.TransCaller
/-! Interpreter context of the table `Gen/TransCaller.lean` (zapcore/entry.go: `EntryCaller.FullPath`,
    `EntryCaller.TrimmedPath`).  Core-only. -/
namespace ZapVerif.TransCaller
open ZapVerif ZapVerif.GoMini ZapVerif.Gen.TransCaller

/-- `buf.AppendInt(n)` appends the decimal text of `n` (strconv; lines are non-negative) -/
def ext : String → List Val → Option (List Val)
  | "Buffer.AppendInt", [.bytes b, .int n] => some [.bytes (b ++ Callers.itoa n.toNat)]
  | _, _ => none

def X : Ctx := { ext := ext, funs := funs }

/-- the fields of an `EntryCaller` -/
abbrev cfld (defined : Bool) (file : Bytes) (line : Int) : Env :=
  [("defined", .bool defined), ("file", .bytes file), ("line", .int line)]

end ZapVerif.TransCaller
