import ZapVerif.Model.GoMini
import ZapVerif.Gen.TransCapture
/-! Interpreter context of the table `Gen/TransCapture.lean` (internal/stacktrace/stack.go: `Capture`).

    The pooled `*Stack` that `_stackPool.Get()` returns is THE object of the field environment (`pcs`, `storage`,
    `frames`).  The goroutine's stack `st` — the frames `runtime.Callers(0, …)` would enumerate, innermost first, as
    opaque values — is the parameter.  `runtime.Callers(skip, pcs)` fills `pcs` from the front with the frames after
    the first `skip` and returns how many it wrote; `make([]uintptr, n)` is `n` zeros; `runtime.CallersFrames` is an
    opaque constructor.  Slices are values: in Go `pcs` aliases `storage`; only the lengths and the final contents of
    `pcs` are claimed.  Core-only. -/
namespace ZapVerif.TransCapture
open ZapVerif ZapVerif.GoMini ZapVerif.Gen.TransCapture

structure Par where
  st : List Val

/-- `runtime.Callers(skip, pcs)`: the new contents of `pcs` and the count -/
def callersV (st : List Val) (skip : Int) (pcs : List Val) : List Val × Nat :=
  (((st.drop skip.toNat).take pcs.length) ++ pcs.drop ((st.drop skip.toNat).take pcs.length).length,
   ((st.drop skip.toNat).take pcs.length).length)

def nm (s : String) : Val := .bytes s.toUTF8.toList

def framesV (pcs : Val) : Val := .list [nm "runtime.CallersFrames", pcs]

def ext (P : Par) : String → List Val → Option (List Val)
  | "runtime.Callers", [.int skip, .list pcs] => some [.list (callersV P.st skip pcs).1, .int (callersV P.st skip pcs).2]
  | "runtime.CallersFrames", [pcs] => some [framesV pcs]
  | "make.zeros", [.int n] => if n < 0 then none else some [.list (List.replicate n.toNat (.int 0))]
  | _, _ => none

def X (P : Par) : Ctx := { ext := ext P, funs := funs }

/-- the fields of the pooled `*Stack` -/
abbrev capFld (pcs : Val) (storage : List Val) (frames self : Val) : Env :=
  [("pcs", pcs), ("storage", .list storage), ("frames", frames), ("self", self)]

end ZapVerif.TransCapture
