import ZapVerif.Model.GoMini
import ZapVerif.Model.TransJsonEncX
import ZapVerif.Gen.TransConsole
/-! Interpreter context of the table `Gen/TransConsole.lean` (zapcore/console_encoder.go: `addSeparatorIfNecessary`,
    `writeContext`, `EncodeEntry`).

    The metadata columns go through a pooled slice encoder — a record `[elems]` to which the configured sub-encoders
    append what they like (parameters `col*`); `fmt.Fprint` of an element is its text (`text`).  The context goes
    through a clone of the logger's JSON encoder: `jsonEncoder.Clone` copies the context bytes into a fresh buffer
    (proved about the source as `C08.Clone_matches_source`), `addFields` is the parameter of table TransJsonEnc,
    `closeOpenNamespaces` is the closing braces (proved about the source in C01).  Pools are recorded in `ev`.  Core-only. -/
namespace ZapVerif.TransConsole
open ZapVerif ZapVerif.GoMini ZapVerif.Enc ZapVerif.Gen.TransConsole
open ZapVerif.TransJsonEnc (St closeNs ECfg EEnt)

structure Par where
  colTime : List Val → Val → List Val → List Val      -- EncodeTime(t, arr): the elements afterwards
  colLevel : List Val → Val → List Val → List Val
  colName : List Val → Val → List Val → List Val
  colCaller : List Val → Val → List Val → List Val
  text : Val → Bytes                                   -- fmt.Fprint of one element
  timeIsZero : Val → Bool
  addFields : Val → Bool → St → St

def arrV (elems : List Val) : Val := .list [.list elems]

def ext (P : Par) : String → List Val → Option (List Val)
  | "bufferpool.Get", [] => some [.bytes []]
  | "getSliceEncoder", [] => some [arrV []]
  | "putSliceEncoder", [_] => some []
  | "TimeEncoder.col", [.list f, t, .list [.list es]] => some [arrV (P.colTime f t es)]
  | "LevelEncoder.col", [.list f, l, .list [.list es]] => some [arrV (P.colLevel f l es)]
  | "NameEncoder.col", [.list f, n, .list [.list es]] => some [arrV (P.colName f n es)]
  | "CallerEncoder.col", [.list f, c, .list [.list es]] => some [arrV (P.colCaller f c es)]
  | "SliceEnc.AppendString", [.list [.list es], .bytes s] => some [arrV (es ++ [.bytes s])]
  | "fmt.Fprint", [.bytes line, v] => some [.bytes (line ++ P.text v), .int (P.text v).length, .list []]
  | "Time.IsZero", [t] => some [.bool (P.timeIsZero t)]
  | "jsonEncoder.Clone", [.bytes ob, .bool osp, .int ons] => some [.bytes ob, .bool osp, .int ons, .list [], .list []]
  | "addFields", [.bytes b, .int n, .list rb, .list re, .bool sp, _, fs] =>
      let r := P.addFields fs sp ⟨b, n, rb, re⟩
      some [.bytes r.buf, .int r.ns, .list r.rbuf, .list r.renc]
  | "closeOpenNamespaces", [.bytes b, .int n] => some [.bytes (closeNs b n), .int 0]
  | "Buffer.Free", [_] => some []
  | "putJSONEncoder", [_, _] => some []
  | _, _ => none

def X (P : Par) : Ctx := { ext := ext P, funs := funs }

def nm (s : String) : Val := .bytes s.toUTF8.toList

/-- `addSeparatorIfNecessary` -/
def sepIf (sepc line : Bytes) : Bytes := if line.isEmpty then line else line ++ sepc

/-- the fields in play: the console configuration (`c : ECfg` and the column separator), the scratch JSON encoder
    `context` of `writeContext` (buf … renc), the logger's embedded JSON encoder (o.*: the accumulated context) -/
abbrev conFld (c : ECfg) (sepc : Bytes) (buf : Bytes) (sp : Bool) (ns : Int) (rbuf renc : List Val)
    (obuf : Bytes) (osp : Bool) (ons : Int) (self : Val) (ev : List Val) : Env :=
  [("timeKey", .bytes c.timeKey), ("levelKey", .bytes c.levelKey), ("nameKey", .bytes c.nameKey),
   ("callerKey", .bytes c.callerKey), ("functionKey", .bytes c.functionKey), ("messageKey", .bytes c.messageKey),
   ("stacktraceKey", .bytes c.stacktraceKey), ("lineEnding", .bytes c.lineEnding), ("consoleSep", .bytes sepc),
   ("encTime", .list c.encTime), ("encLevel", .list c.encLevel), ("encName", .list c.encName), ("encCaller", .list c.encCaller),
   ("buf", .bytes buf), ("spaced", .bool sp), ("openNs", .int ns), ("rbuf", .list rbuf), ("renc", .list renc),
   ("o.buf", .bytes obuf), ("o.spaced", .bool osp), ("o.openNs", .int ons), ("self", self), ("ev", .list ev)]

/-- the scratch encoder after `addFields` in `writeContext` -/
def ctxSt (P : Par) (obuf : Bytes) (osp : Bool) (ons : Int) (extra : Val) : St := P.addFields extra osp ⟨obuf, ons, [], []⟩

/-- the JSON text of context + call-site fields (without the outer braces) -/
def ctxBytes (P : Par) (obuf : Bytes) (osp : Bool) (ons : Int) (extra : Val) : Bytes :=
  closeNs (ctxSt P obuf osp ons extra).buf (ctxSt P obuf osp ons extra).ns

/-- `writeContext(line, extra)`: nothing when there is no context at all, else separator, `{`, the text, `}` -/
def writeContextSpec (P : Par) (sepc obuf : Bytes) (osp : Bool) (ons : Int) (extra : Val) (line : Bytes) : Bytes :=
  if (ctxBytes P obuf osp ons extra).isEmpty then line
  else sepIf sepc line ++ 123 :: (ctxBytes P obuf osp ons extra ++ [125])

/-- the elements the sub-encoders leave in the slice encoder, in the fixed order time, level, name, caller, function -/
def timeCol (P : Par) (c : ECfg) (e : EEnt) (es : List Val) : List Val :=
  if c.timeKey.isEmpty || c.encTime.isEmpty || P.timeIsZero e.time then es else P.colTime c.encTime e.time es
def levelCol (P : Par) (c : ECfg) (e : EEnt) (es : List Val) : List Val :=
  if c.levelKey.isEmpty || c.encLevel.isEmpty then es else P.colLevel c.encLevel (.int e.level) es
def nameCol (P : Par) (c : ECfg) (e : EEnt) (es : List Val) : List Val :=
  if e.name.isEmpty || c.nameKey.isEmpty then es else P.colName (TransJsonEnc.nameFn c) (.bytes e.name) es
def callerCol (P : Par) (c : ECfg) (e : EEnt) (es : List Val) : List Val :=
  if !e.callerDefined then es
  else
    let es1 := if c.callerKey.isEmpty || c.encCaller.isEmpty then es else P.colCaller c.encCaller e.caller es
    if c.functionKey.isEmpty then es1 else es1 ++ [.bytes e.function]

def elems (P : Par) (c : ECfg) (e : EEnt) : List Val := callerCol P c e (nameCol P c e (levelCol P c e (timeCol P c e [])))

/-- the printing loop: elements joined by the separator -/
def joinCols (P : Par) (sepc : Bytes) (line : Bytes) (es : List (Val × Nat)) : Bytes :=
  es.foldl (fun l p => (if p.2 > 0 then l ++ sepc else l) ++ P.text p.1) line

def messageLine (c : ECfg) (sepc : Bytes) (e : EEnt) (line : Bytes) : Bytes :=
  if c.messageKey.isEmpty then line else sepIf sepc line ++ e.message

def stackLine (c : ECfg) (e : EEnt) (line : Bytes) : Bytes :=
  if e.stack.isEmpty || c.stacktraceKey.isEmpty then line else line ++ 10 :: e.stack

/-- the line `consoleEncoder.EncodeEntry` returns -/
def consoleBytes (P : Par) (c : ECfg) (sepc obuf : Bytes) (osp : Bool) (ons : Int) (e : EEnt) (fields : Val) : Bytes :=
  stackLine c e (writeContextSpec P sepc obuf osp ons fields
    (messageLine c sepc e (joinCols P sepc [] ((elems P c e).zipIdx)))) ++ c.lineEnding

end ZapVerif.TransConsole
