import ZapVerif.Model.GoMini
import ZapVerif.Gen.TransCores
/-! Interpreter context of the table `Gen/TransCores.lean` — the core algebra: `ioCore.Write/Check/Sync`,
    `multiCore.Write/Sync/Check/Enabled`, `hooked.Check/Write`, `levelFilterCore.Enabled/Check`.

    Values.  A `*CheckedEntry` is `ceV none` (nil) or `ceV (some cores)`; an `Entry` is `[level]`; an encoder is
    `[bytes, errs]`, a sink `[n, writeErrs, syncErrs]`, a sub-core `[id, writeErrs, syncErrs]`, a hook function
    `[id, errs]`: each scripts what its call returns.  Effects (`Write`, `Sync`, `EncodeEntry`, hook functions) are
    recorded in `ev`; `Enabled`, `Check`, `AddCore` are pure and given by parameters of the context:
    `en` (the level enabler of the receiver), `cen` (a sub-core's `Enabled`), `chk` (a sub-core's `Check` as a
    function on the list of accepted cores, nil ≙ `none`).  Core-only. -/
namespace ZapVerif.TransCores
open ZapVerif ZapVerif.GoMini ZapVerif.Gen.TransCores

/-- a `*CheckedEntry` as far as the cores look at it: nil, or its `cores` -/
def ceV : Option (List Val) → Val
  | none => .list []
  | some cs => .list [.list cs]

def unCE : Val → Option (Option (List Val))
  | .list [] => some none
  | .list [.list cs] => some (some cs)
  | _ => none

/-- `ce.AddCore(ent, core)` — proved about the source as `AddCore_matches_source` (table TransCEAdd) -/
def addCore (ce : Option (List Val)) (core : Val) : Option (List Val) :=
  match ce with
  | none => some [core]
  | some cs => some (cs ++ [core])

def entV (level : Int) : Val := .list [.int level]

structure Par where
  en : Int → Bool                                              -- the receiver's LevelEnabler
  cen : Val → Int → Bool                                       -- sub-core.Enabled(lvl)
  chk : Val → Val → Option (List Val) → Option (List Val)      -- sub-core.Check(ent, ce)

def ext (P : Par) : String → List Val → Option (List Val)
  | "LevelEnabler.Enabled", [.int l] => some [.bool (P.en l)]
  | "LevelEnabler.Enabled", [_, .int l] => some [.bool (P.en l)]
  | "Core.Enabled", [c, .int l] => some [.bool (P.cen c l)]
  | "Core.Check", [c, e, ce] => (unCE ce).map fun o => [ceV (P.chk c e o)]
  | "CE.AddCore", [ce, _, core] => (unCE ce).map fun o => [ceV (addCore o core)]
  | "Core.Write", [.list [_, .list werrs, _], _, _] => some [.list werrs]
  | "Core.Sync", [.list [_, _, .list serrs]] => some [.list serrs]
  | "Encoder.EncodeEntry", [.list [.bytes out, .list errs], _, _] => some [.bytes out, .list errs]
  | "WriteSyncer.Write", [.list [.int n, .list werrs, _], .bytes _] => some [.int n, .list werrs]
  | "WriteSyncer.Sync", [.list [_, _, .list serrs]] => some [.list serrs]
  | "HookFn", [.list [_, .list errs], _] => some [.list errs]
  | _, _ => none

def X (P : Par) : Ctx := { ext := ext P, funs := funs }

/-- scripted values -/
def sinkV (n : Int) (werrs serrs : List Val) : Val := .list [.int n, .list werrs, .list serrs]
def encV (out : Bytes) (errs : List Val) : Val := .list [.bytes out, .list errs]
def subV (id : Nat) (werrs serrs : List Val) : Val := .list [.int id, .list werrs, .list serrs]
def fnV (id : Nat) (errs : List Val) : Val := .list [.int id, .list errs]

def nm (s : String) : Val := .bytes s.toUTF8.toList

end ZapVerif.TransCores
