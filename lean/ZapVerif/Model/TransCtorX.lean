import ZapVerif.Model.GoMini
import ZapVerif.Gen.TransCtor
/-! Interpreter context of the table `Gen/TransCtor.lean` (zapcore/increase_level.go `NewIncreaseLevelCore`,
    `levelFilterCore.Level`; zapcore/tee.go `NewTee`, `multiCore.Level`).

    Cores and enablers are opaque nil-able values; `Core.Enabled` (`cen`), `LevelEnabler.Enabled` (`en`) and `LevelOf`
    (`levelOf`; translated and proved in the table TransLevel) are PARAMETERS; `NewNopCore()` is the constant `nop`;
    `fmt.Errorf` is a free constructor.  The level bounds are read from zapcore/level.go.  Core-only. -/
namespace ZapVerif.TransCtor
open ZapVerif ZapVerif.GoMini ZapVerif.Gen.TransCtor

structure Par where
  cen : Val → Int → Bool
  en : Val → Int → Bool
  levelOf : Val → Int
  nop : Val

def nm (s : String) : Val := .bytes s.toUTF8.toList
def errV (ctor : String) (args : List Val) : Val := .list [.list (nm ctor :: args)]

def ext (P : Par) : String → List Val → Option (List Val)
  | "Core.Enabled", [c, .int l] => some [.bool (P.cen c l)]
  | "LevelEnabler.Enabled", [e, .int l] => some [.bool (P.en e l)]
  | "LevelOf", [e] => some [.int (P.levelOf e)]
  | "NewNopCore", [] => some [P.nop]
  | "fmt.Errorf", args => some [errV "fmt.Errorf" args]
  | _, _ => none

def X (P : Par) : Ctx := { ext := ext P, funs := funs }

end ZapVerif.TransCtor
