import ZapVerif.Model.GoMini
import ZapVerif.Gen.TransDerive
/-! Interpreter context of the table `Gen/TransDerive.lean` (logger.go `(*Logger).clone`, `Named`, `With`, `WithOptions`,
    `WithLazy`; the `With` methods of `ioCore` (+ `clone`), `multiCore`, `sampler`, `hooked`, `levelFilterCore`,
    `contextObserver`; `lazyWithCore.initOnce/With/Check/Enabled/Write/Sync`).

    A `*Logger` is the object of the field environment (ten fields; the clone is the second object `o.…`).  Sub-cores,
    encoders, sinks, enablers are opaque nil-able values; a derived core is the non-nil interface value `[record]` of
    the struct the method builds.  `Core.With` of a sub-core (`coreWith`), `Encoder.Clone` (`encClone`), `addFields`
    (`addFields`: what adding the fields makes of the encoder it is handed), `Option.apply` (`applyOpt`: any change of the
    clone's ten fields), `Core.Enabled` / `Check` and the errors of `Write` / `Sync` are PARAMETERS; `WrapCore` is a free
    constructor; `strings.Join` is joining.  Core-only. -/
namespace ZapVerif.TransDerive
open ZapVerif ZapVerif.GoMini ZapVerif.Gen.TransDerive

/-- the ten fields of a `Logger`, in the order of the entry (`lgNames`) -/
structure LgSt where
  core : Val
  development : Val
  addCaller : Val
  onPanic : Val
  onFatal : Val
  name : Val
  errorOutput : Val
  addStack : Val
  callerSkip : Val
  clock : Val

def LgSt.toList (s : LgSt) : List Val :=
  [s.core, s.development, s.addCaller, s.onPanic, s.onFatal, s.name, s.errorOutput, s.addStack, s.callerSkip, s.clock]

structure Par where
  coreWith : Val → Val → Val            -- c.With(fields)
  applyOpt : Val → LgSt → LgSt          -- opt.apply(clone)
  encClone : Val → Val                  -- enc.Clone()
  addFields : Val → Val → Val           -- addFields(enc, fields): the encoder afterwards
  cen : Val → Int → Bool                -- c.Enabled(level)
  chk : Val → Val → Val → Val           -- c.Check(ent, ce)
  werr : Val → Val → Val → List Val     -- the error of c.Write(ent, fields)
  serr : Val → List Val                 -- the error of c.Sync()

def nm (s : String) : Val := .bytes s.toUTF8.toList

/-- `strings.Join(elems, sep)` -/
def joinB : List Val → Bytes → Bytes
  | [], _ => []
  | [.bytes a], _ => a
  | .bytes a :: r, sep => a ++ sep ++ joinB r sep
  | _ :: r, sep => joinB r sep

def ext (P : Par) : String → List Val → Option (List Val)
  | "Core.With", [c, fs] => some [P.coreWith c fs]
  | "strings.Join", [.list es, .bytes sep] => some [.bytes (joinB es sep)]
  | "Logger.clone", [a, b, c, d, e, f, g, h, i, j] => some [a, b, c, d, e, f, g, h, i, j]
  | "Option.apply", [a, b, c, d, e, f, g, h, i, j, opt, _] => some (P.applyOpt opt ⟨a, b, c, d, e, f, g, h, i, j⟩).toList
  | "WrapCore", [f] => some [.list [nm "WrapCore", f]]
  -- log.WithOptions(opt) inside WithLazy: the derived logger as the record of its ten fields (Logger_WithOptions_matches_source)
  | "Logger.WithOptions", [a, b, c, d, e, f, g, h, i, j, opt] => some [.list (P.applyOpt opt ⟨a, b, c, d, e, f, g, h, i, j⟩).toList]
  | "Encoder.Clone", [e] => some [P.encClone e]
  | "addFields", [e, fs] => some [P.addFields e fs]
  | "make.cores", [.int n] => if n < 0 then none else some [.list (List.replicate n.toNat (.list []))]
  | "slice.set", [.list l, .int i, v] => if 0 ≤ i ∧ i.toNat < l.length then some [.list (l.set i.toNat v)] else none
  | "Core.Enabled", [c, .int l] => some [.bool (P.cen c l)]
  | "Core.Check", [c, e, ce] => some [P.chk c e ce]
  | "Core.Write", [c, e, fs] => some [.list (P.werr c e fs)]
  | "Core.Sync", [c] => some [.list (P.serr c)]
  | _, _ => none

def X (P : Par) : Ctx := { ext := ext P, funs := funs }

/-- the field environment of the Logger methods: the receiver's ten fields, itself, the second object, the trace -/
def lgEnv (s : LgSt) (self : Val) (o : LgSt) (oself : Val) (ev : List Val) : Env :=
  [("core", s.core), ("development", s.development), ("addCaller", s.addCaller), ("onPanic", s.onPanic), ("onFatal", s.onFatal),
   ("name", s.name), ("errorOutput", s.errorOutput), ("addStack", s.addStack), ("callerSkip", s.callerSkip), ("clock", s.clock),
   ("self", self),
   ("o.core", o.core), ("o.development", o.development), ("o.addCaller", o.addCaller), ("o.onPanic", o.onPanic),
   ("o.onFatal", o.onFatal), ("o.name", o.name), ("o.errorOutput", o.errorOutput), ("o.addStack", o.addStack),
   ("o.callerSkip", o.callerSkip), ("o.clock", o.clock), ("o.self", oself), ("ev", .list ev)]

end ZapVerif.TransDerive
