import ZapVerif.Model.GoMini
import ZapVerif.Model.Esc
import ZapVerif.Gen.TransEscape
/-! Interpreter context of the table `Gen/TransEscape.lean` (zapcore/json_encoder.go: `safeAppendStringLike` at its
    string instance).  Core-only. -/
namespace ZapVerif.TransEscape
open ZapVerif ZapVerif.GoMini ZapVerif.Gen.TransEscape

/-- `decodeRune(x)` for an `x` that starts with a byte ≥ 0x80, by the validity model `Esc.validLen` of
    unicode/utf8: a well-formed n-byte sequence decodes to (some rune, n) — the rune itself is never looked at when
    `n ≠ 1` — and anything else to (RuneError, 1) -/
def ext : String → List Val → Option (List Val)
  | "decodeRune", [.bytes x] =>
    match Esc.validLen x with
    | some n => some [.int 0, .int n]
    | none => some [.int 65533, .int 1]
  | _, _ => none

def X : Ctx := { ext := ext, funs := funs }

end ZapVerif.TransEscape
