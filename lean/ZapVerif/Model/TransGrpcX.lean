import ZapVerif.Model.GoMini
import ZapVerif.Gen.TransGrpc
/-! Interpreter context of the table `Gen/TransGrpc.lean` (zapgrpc/zapgrpc.go: `sprintln`, `printer.Print/Printf/Println`,
    `Logger.Infoln/Warningln/Errorln`).  The delegate's methods — the function values a printer holds, the sugared
    logger's `Info` / `Warn` / `Error` — are recorded in `ev`; `Enabled` and `fmt.Sprintln` are PARAMETERS.  Core-only. -/
namespace ZapVerif.TransGrpc
open ZapVerif ZapVerif.GoMini ZapVerif.Gen.TransGrpc

structure Par where
  sprintln : List Val → Bytes
  en : Val → Int → Bool

def nm (s : String) : Val := .bytes s.toUTF8.toList

def ext (P : Par) : String → List Val → Option (List Val)
  | "fmt.Sprintln", [.list a] => some [.bytes (P.sprintln a)]
  | "LevelEnabler.Enabled", [e, .int l] => some [.bool (P.en e l)]
  | "PrintFn.call", [_, _] => some []
  | "PrintfFn.call", [_, _, _] => some []
  | "Sugar.Info", [_, _] => some []
  | "Sugar.Warn", [_, _] => some []
  | "Sugar.Error", [_, _] => some []
  | _, _ => none

def X (P : Par) : Ctx := { ext := ext P, funs := funs }

def pEnv (ev : List Val) (enab : Val) (level : Int) (pr prf : Val) : Env :=
  [("ev", .list ev), ("enab", enab), ("level", .int level), ("print", pr), ("printf", prf)]

def lEnv (ev : List Val) (delegate en : Val) : Env := [("ev", .list ev), ("delegate", delegate), ("levelEnabler", en)]

end ZapVerif.TransGrpc
