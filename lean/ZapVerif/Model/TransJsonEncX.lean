import ZapVerif.Model.GoMini
import ZapVerif.Model.Enc
import ZapVerif.Gen.TransJsonEnc
/-! Interpreter context of the table `Gen/TransJsonEnc.lean` (zapcore/json_encoder.go: the structural methods
    `AppendObject`, `AppendArray`, `AddObject`, `AddArray`, `OpenNamespace`, `resetReflectBuf`, `encodeReflected`,
    `AppendReflected`, `AddReflected`, `truncate`, `clone`, `Clone`, `putJSONEncoder`, `EncodeEntry`).

    * `addElementSeparator`, `addKey`, `closeOpenNamespaces` are intrinsics HERE with the meaning `Enc.sep`, `Enc.addKey`,
      "append `openNs` closing braces, reset the counter" — which Props/C01.lean proves about their source
      (table TransJsonSep).
    * A marshaler (`MarshalLogObject`, `MarshalLogArray`), `addFields` and the configured sub-encoders are handed the
      encoder: they are PARAMETERS acting on the fields they may touch (`St`: buffer, open namespaces, reflection
      scratch buffer and encoder).
    * The reflected encoder writes into the scratch buffer (`reflEncode`); buffers and encoders come from pools:
      `bufferpool.Get`, `_jsonPool.Get/Put`, `Buffer.Free` are recorded in `ev`.
    Core-only. -/
namespace ZapVerif.TransJsonEnc
open ZapVerif ZapVerif.GoMini ZapVerif.Enc ZapVerif.Gen.TransJsonEnc

/-- what a callee that is handed the encoder may change: buffer, open namespaces, reflection scratch (nil-able buffer,
    nil-able encoder) -/
structure St where
  buf : Bytes
  ns : Int
  rbuf : List Val
  renc : List Val

structure Par where
  mo : Val → Bool → St → St × List Val          -- obj.MarshalLogObject(enc): new state, error
  ma : Val → Bool → St → St × List Val          -- arr.MarshalLogArray(enc)
  addFields : Val → Bool → St → St              -- addFields(enc, fields)
  newRefl : Val → List Val → List Val           -- cfg.NewReflectedEncoder(buf)
  reflEncode : List Val → Val → Bytes × List Val   -- reflectEnc.Encode(obj): what it appends to the scratch buffer, error
  subLevel : List Val → Val → Bool → Bytes → Bytes     -- EncodeLevel(level, enc): the buffer afterwards
  subCaller : List Val → Val → Bool → Bytes → Bytes
  subName : List Val → Val → Bytes → Bytes
  addTime : List Val → Bool → Bytes → Bytes → Val → Bytes   -- AddTime(key, t) under the configured EncodeTime
  timeIsZero : Val → Bool
  levelString : Int → Bytes
  callerString : Val → Bytes

/-- `(*buffer.Buffer).TrimNewline` -/
def trimNewline (b : Bytes) : Bytes := if b.getLast? = some 10 then b.dropLast else b

/-- `AppendString(s)`: separator, quoted escaped string -/
def appendString (sp : Bool) (buf s : Bytes) : Bytes := sep sp buf ++ 34 :: (esc s ++ [34])

def closeNs (buf : Bytes) (n : Int) : Bytes := buf ++ List.replicate n.toNat 125

def ext (P : Par) : String → List Val → Option (List Val)
  | "addElementSeparator", [.bytes b, .bool sp] => some [.bytes (sep sp b)]
  | "addKey", [.bytes b, .bool sp, .bytes k] => some [.bytes (Enc.addKey sp b k)]
  | "closeOpenNamespaces", [.bytes b, .int n] => some [.bytes (closeNs b n), .int 0]
  | "MarshalLogObject", [.bytes b, .int n, .list rb, .list re, .bool sp, obj, _] =>
      let r := P.mo obj sp ⟨b, n, rb, re⟩
      some [.bytes r.1.buf, .int r.1.ns, .list r.1.rbuf, .list r.1.renc, .list r.2]
  | "MarshalLogArray", [.bytes b, .int n, .list rb, .list re, .bool sp, arr, _] =>
      let r := P.ma arr sp ⟨b, n, rb, re⟩
      some [.bytes r.1.buf, .int r.1.ns, .list r.1.rbuf, .list r.1.renc, .list r.2]
  | "addFields", [.bytes b, .int n, .list rb, .list re, .bool sp, _, fs] =>
      let r := P.addFields fs sp ⟨b, n, rb, re⟩
      some [.bytes r.buf, .int r.ns, .list r.rbuf, .list r.renc]
  | "Buffer.Write", [.bytes b, .bytes p] => some [.bytes (b ++ p), .int p.length, .list []]
  | "bufferpool.GetPtr", [] => some [.list [.bytes []]]
  | "bufferpool.Get", [] => some [.bytes []]
  | "jsonPool.Get", [] => some []
  | "jsonPool.Put", [_] => some []
  | "Buffer.Free", [_] => some []
  | "NewReflectedEncoder", [ctor, .list rb] => some [.list (P.newRefl ctor rb)]
  | "ReflEnc.Encode", [.list [.bytes b], .list re, obj] =>
      some [.list [.bytes (b ++ (P.reflEncode re obj).1)], .list (P.reflEncode re obj).2]
  | "Buffer.TrimNewline", [.list [.bytes b]] => some [.list [.bytes (trimNewline b)]]
  | "optBuffer.Bytes", [.list [.bytes b]] => some [.bytes b]
  -- EncodeEntry
  | "jsonEncoder.clone", [.bool sp, .int n] => some [.bytes [], .bool sp, .int n, .list [], .list []]
  | "AppendString", [.bytes b, .bool sp, .bytes s] => some [.bytes (appendString sp b s)]
  | "AddString", [.bytes b, .bool sp, .bytes k, .bytes s] => some [.bytes (appendString sp (Enc.addKey sp b k) s)]
  | "AddTime", [.bytes b, .bool sp, .list te, .bytes k, t] => some [.bytes (P.addTime te sp b k t)]
  | "LevelEncoder", [.bytes b, .bool sp, .list f, l, _] => some [.bytes (P.subLevel f l sp b)]
  | "CallerEncoder", [.bytes b, .bool sp, .list f, c, _] => some [.bytes (P.subCaller f c sp b)]
  | "NameEncoder", [.bytes b, .list f, n, _] => some [.bytes (P.subName f n b)]
  | "putJSONEncoder", [_, _] => some []
  | "Time.IsZero", [t] => some [.bool (P.timeIsZero t)]
  | "Level.String", [.int l] => some [.bytes (P.levelString l)]
  | "EntryCaller.String", [c] => some [.bytes (P.callerString c)]
  | _, _ => none

def X (P : Par) : Ctx := { ext := ext P, funs := funs }

def nm (s : String) : Val := .bytes s.toUTF8.toList

/-- the fields of a `*jsonEncoder` the structural methods touch -/
abbrev jeFld (buf : Bytes) (sp : Bool) (ns : Int) (rbuf renc : List Val) (newRefl self : Val) (ev : List Val) : Env :=
  [("buf", .bytes buf), ("spaced", .bool sp), ("openNs", .int ns), ("rbuf", .list rbuf), ("renc", .list renc),
   ("newRefl", newRefl), ("self", self), ("ev", .list ev)]

end ZapVerif.TransJsonEnc
