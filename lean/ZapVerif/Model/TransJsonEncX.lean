import ZapVerif.Model.GoMini
import ZapVerif.Model.Enc
import ZapVerif.Gen.TransJsonEnc
/-! Interpreter context of the table `Gen/TransJsonEnc.lean` (zapcore/json_encoder.go: the structural methods
    `AppendObject`, `AppendArray`, `AddObject`, `AddArray`, `OpenNamespace`, `resetReflectBuf`, `encodeReflected`,
    `AppendReflected`, `AddReflected`, `truncate`, `clone`, `Clone`, `putJSONEncoder`, `EncodeEntry`).

    * `addElementSeparator`, `addKey`, `closeOpenNamespaces` are intrinsics HERE with the meaning `Enc.sep`, `Enc.addKey`,
      "append `openNs` closing braces, reset the counter" — which Props/C01.lean proves about their source
      (table TransJsonSep).
    * A marshaler (`MarshalLogObject`, `MarshalLogArray`), `addFields` and the configured sub-encoders are handed the
      encoder: they are PARAMETERS acting on the fields they may touch (`St`: buffer, open namespaces, reflection
      scratch buffer and encoder).
    * The reflected encoder writes into the scratch buffer (`reflEncode`); buffers and encoders come from pools:
      `bufferpool.Get`, `_jsonPool.Get/Put`, `Buffer.Free` are recorded in `ev`.
    Core-only. -/
namespace ZapVerif.TransJsonEnc
open ZapVerif ZapVerif.GoMini ZapVerif.Enc ZapVerif.Gen.TransJsonEnc

/-- what a callee that is handed the encoder may change: buffer, open namespaces, reflection scratch (nil-able buffer,
    nil-able encoder) -/
structure St where
  buf : Bytes
  ns : Int
  rbuf : List Val
  renc : List Val

structure Par where
  mo : Val → Bool → St → St × List Val          -- obj.MarshalLogObject(enc): new state, error
  ma : Val → Bool → St → St × List Val          -- arr.MarshalLogArray(enc)
  addFields : Val → Bool → St → St              -- addFields(enc, fields)
  newRefl : Val → List Val → List Val           -- cfg.NewReflectedEncoder(buf)
  reflEncode : List Val → Val → Bytes × List Val   -- reflectEnc.Encode(obj): what it appends to the scratch buffer, error
  subLevel : List Val → Val → Bool → Bytes → Bytes     -- EncodeLevel(level, enc): the buffer afterwards
  subCaller : List Val → Val → Bool → Bytes → Bytes
  subName : List Val → Val → Bytes → Bytes
  addTime : List Val → Bool → Bytes → Bytes → Val → Bytes   -- AddTime(key, t) under the configured EncodeTime
  timeIsZero : Val → Bool
  levelString : Int → Bytes
  callerString : Val → Bytes

/-- `(*buffer.Buffer).TrimNewline` -/
def trimNewline (b : Bytes) : Bytes := if b.getLast? = some 10 then b.dropLast else b

/-- `AppendString(s)`: separator, quoted escaped string -/
def appendString (sp : Bool) (buf s : Bytes) : Bytes := sep sp buf ++ 34 :: (esc s ++ [34])

def closeNs (buf : Bytes) (n : Int) : Bytes := buf ++ List.replicate n.toNat 125

def ext (P : Par) : String → List Val → Option (List Val)
  | "addElementSeparator", [.bytes b, .bool sp] => some [.bytes (sep sp b)]
  | "addKey", [.bytes b, .bool sp, .bytes k] => some [.bytes (Enc.addKey sp b k)]
  | "closeOpenNamespaces", [.bytes b, .int n] => some [.bytes (closeNs b n), .int 0]
  | "MarshalLogObject", [.bytes b, .int n, .list rb, .list re, .bool sp, obj, _] =>
      let r := P.mo obj sp ⟨b, n, rb, re⟩
      some [.bytes r.1.buf, .int r.1.ns, .list r.1.rbuf, .list r.1.renc, .list r.2]
  | "MarshalLogArray", [.bytes b, .int n, .list rb, .list re, .bool sp, arr, _] =>
      let r := P.ma arr sp ⟨b, n, rb, re⟩
      some [.bytes r.1.buf, .int r.1.ns, .list r.1.rbuf, .list r.1.renc, .list r.2]
  | "addFields", [.bytes b, .int n, .list rb, .list re, .bool sp, _, fs] =>
      let r := P.addFields fs sp ⟨b, n, rb, re⟩
      some [.bytes r.buf, .int r.ns, .list r.rbuf, .list r.renc]
  | "Buffer.Write", [.bytes b, .bytes p] => some [.bytes (b ++ p), .int p.length, .list []]
  | "bufferpool.GetPtr", [] => some [.list [.bytes []]]
  | "bufferpool.Get", [] => some [.bytes []]
  | "jsonPool.Get", [] => some []
  | "jsonPool.Put", [_] => some []
  | "Buffer.Free", [_] => some []
  | "NewReflectedEncoder", [ctor, .list rb] => some [.list (P.newRefl ctor rb)]
  | "ReflEnc.Encode", [.list [.bytes b], .list re, obj] =>
      some [.list [.bytes (b ++ (P.reflEncode re obj).1)], .list (P.reflEncode re obj).2]
  | "Buffer.TrimNewline", [.list [.bytes b]] => some [.list [.bytes (trimNewline b)]]
  | "optBuffer.Bytes", [.list [.bytes b]] => some [.bytes b]
  -- EncodeEntry
  | "jsonEncoder.clone", [.bool sp, .int n] => some [.bytes [], .bool sp, .int n, .list [], .list []]
  | "AppendString", [.bytes b, .bool sp, .bytes s] => some [.bytes (appendString sp b s)]
  | "AddString", [.bytes b, .bool sp, .bytes k, .bytes s] => some [.bytes (appendString sp (Enc.addKey sp b k) s)]
  | "AddTime", [.bytes b, .bool sp, .list te, .bytes k, t] => some [.bytes (P.addTime te sp b k t)]
  | "LevelEncoder", [.bytes b, .bool sp, .list f, l, _] => some [.bytes (P.subLevel f l sp b)]
  | "CallerEncoder", [.bytes b, .bool sp, .list f, c, _] => some [.bytes (P.subCaller f c sp b)]
  | "NameEncoder", [.bytes b, .list f, n, _] => some [.bytes (P.subName f n b)]
  | "putJSONEncoder", [_, _] => some []
  | "Time.IsZero", [t] => some [.bool (P.timeIsZero t)]
  | "Level.String", [.int l] => some [.bytes (P.levelString l)]
  | "EntryCaller.String", [c] => some [.bytes (P.callerString c)]
  | _, _ => none

def X (P : Par) : Ctx := { ext := ext P, funs := funs }

def nm (s : String) : Val := .bytes s.toUTF8.toList

/-- the fields of a `*jsonEncoder` the structural methods touch -/
abbrev jeFld (buf : Bytes) (sp : Bool) (ns : Int) (rbuf renc : List Val) (newRefl self : Val) (ev : List Val) : Env :=
  [("buf", .bytes buf), ("spaced", .bool sp), ("openNs", .int ns), ("rbuf", .list rbuf), ("renc", .list renc),
   ("newRefl", newRefl), ("self", self), ("ev", .list ev)]

/-- the fields in play in `clone` / `Clone`: the receiver (cfg, buf, spaced, openNs) and the pooled encoder being set up (o.*) -/
abbrev cloneFld (cfg : List Val) (buf : Bytes) (sp : Bool) (ns : Int) (ocfg : List Val) (obuf : Bytes) (osp : Bool) (ons : Int)
    (oself : Val) (ev : List Val) : Env :=
  [("cfg", .list cfg), ("buf", .bytes buf), ("spaced", .bool sp), ("openNs", .int ns),
   ("o.cfg", .list ocfg), ("o.buf", .bytes obuf), ("o.spaced", .bool osp), ("o.openNs", .int ons), ("o.self", oself),
   ("ev", .list ev)]

/-- the fields of the encoder handed to `putJSONEncoder` (here `buf` is the nil-able POINTER) -/
abbrev putFld (cfg bufp : List Val) (sp : Bool) (ns : Int) (rbuf renc : List Val) (self : Val) (ev : List Val) : Env :=
  [("cfg", .list cfg), ("buf", .list bufp), ("spaced", .bool sp), ("openNs", .int ns), ("rbuf", .list rbuf),
   ("renc", .list renc), ("self", self), ("ev", .list ev)]

/-! ### `EncodeEntry`: the configuration it reads, the entry it is handed, what it computes -/

/-- the `EncoderConfig` fields `EncodeEntry` reads (keys, line ending, the nil-able sub-encoder functions) -/
structure ECfg where
  levelKey : Bytes
  timeKey : Bytes
  nameKey : Bytes
  callerKey : Bytes
  functionKey : Bytes
  messageKey : Bytes
  stacktraceKey : Bytes
  lineEnding : Bytes
  encLevel : List Val
  encTime : List Val
  encName : List Val
  encCaller : List Val

/-- the fields in play in `EncodeEntry`: the clone `final` (buf, spaced, openNs, rbuf, renc), the shared configuration,
    the receiver `enc` (o.buf, o.spaced, o.openNs: the logger's context encoder), the trace -/
abbrev eeFld (c : ECfg) (buf : Bytes) (sp : Bool) (ns : Int) (rbuf renc : List Val) (obuf : Bytes) (osp : Bool) (ons : Int)
    (self : Val) (ev : List Val) : Env :=
  [("buf", .bytes buf), ("spaced", .bool sp), ("openNs", .int ns), ("rbuf", .list rbuf), ("renc", .list renc),
   ("levelKey", .bytes c.levelKey), ("timeKey", .bytes c.timeKey), ("nameKey", .bytes c.nameKey),
   ("callerKey", .bytes c.callerKey), ("functionKey", .bytes c.functionKey), ("messageKey", .bytes c.messageKey),
   ("stacktraceKey", .bytes c.stacktraceKey), ("lineEnding", .bytes c.lineEnding),
   ("encLevel", .list c.encLevel), ("encTime", .list c.encTime), ("encName", .list c.encName), ("encCaller", .list c.encCaller),
   ("o.buf", .bytes obuf), ("o.spaced", .bool osp), ("o.openNs", .int ons), ("self", self), ("ev", .list ev)]

/-- a `zapcore.Entry` as the translated function reads it: Level, Time, LoggerName, Message, Caller, Stack -/
structure EEnt where
  level : Int
  time : Val
  name : Bytes
  message : Bytes
  callerDefined : Bool
  function : Bytes
  callerRest : Val
  stack : Bytes

def EEnt.caller (e : EEnt) : Val := .list [.bool e.callerDefined, .bytes e.function, e.callerRest]
def EEnt.val (e : EEnt) : Val :=
  .list [.int e.level, e.time, .bytes e.name, .bytes e.message, e.caller, .bytes e.stack]

/-- `cur := buf.Len(); sub(…); if cur == buf.Len() { AppendString(fallback) }` -/
def subOr (sp : Bool) (k s fallback : Bytes) : Bytes := if k.length = s.length then appendString sp s fallback else s

def levelBlock (P : Par) (c : ECfg) (sp : Bool) (e : EEnt) (b : Bytes) : Bytes :=
  if c.levelKey.isEmpty || c.encLevel.isEmpty then b
  else subOr sp (Enc.addKey sp b c.levelKey) (P.subLevel c.encLevel (.int e.level) sp (Enc.addKey sp b c.levelKey))
    (P.levelString e.level)

def timeBlock (P : Par) (c : ECfg) (sp : Bool) (e : EEnt) (b : Bytes) : Bytes :=
  if c.timeKey.isEmpty || P.timeIsZero e.time then b else P.addTime c.encTime sp b c.timeKey e.time

/-- a nil `EncodeName` is `FullNameEncoder` (the value `[0]`) -/
def nameFn (c : ECfg) : List Val := if c.encName.isEmpty then [.int 0] else c.encName

def nameBlock (P : Par) (c : ECfg) (sp : Bool) (e : EEnt) (b : Bytes) : Bytes :=
  if e.name.isEmpty || c.nameKey.isEmpty then b
  else subOr sp (Enc.addKey sp b c.nameKey) (P.subName (nameFn c) (.bytes e.name) (Enc.addKey sp b c.nameKey)) e.name

def callerBlock (P : Par) (c : ECfg) (sp : Bool) (e : EEnt) (b : Bytes) : Bytes :=
  if !e.callerDefined then b
  else
    let b1 := if c.callerKey.isEmpty || c.encCaller.isEmpty then b
      else subOr sp (Enc.addKey sp b c.callerKey) (P.subCaller c.encCaller e.caller sp (Enc.addKey sp b c.callerKey))
        (P.callerString e.caller)
    if c.functionKey.isEmpty then b1 else appendString sp (Enc.addKey sp b1 c.functionKey) e.function

def messageBlock (c : ECfg) (sp : Bool) (e : EEnt) (b : Bytes) : Bytes :=
  if c.messageKey.isEmpty then b else appendString sp (Enc.addKey sp b c.messageKey) e.message

/-- the raw context bytes of the logger's encoder, after a separator -/
def ctxBlock (sp : Bool) (obuf b : Bytes) : Bytes := if obuf.isEmpty then b else sep sp b ++ obuf

def stackBlock (c : ECfg) (sp : Bool) (e : EEnt) (b : Bytes) : Bytes :=
  if e.stack.isEmpty || c.stacktraceKey.isEmpty then b else appendString sp (Enc.addKey sp b c.stacktraceKey) e.stack

/-- the buffer after the metadata part: `{`, level, time, name, caller/function, message -/
def metaBytes (P : Par) (c : ECfg) (sp : Bool) (e : EEnt) : Bytes :=
  messageBlock c sp e (callerBlock P c sp e (nameBlock P c sp e (timeBlock P c sp e (levelBlock P c sp e [123]))))

/-- the state of `final` after `addFields` -/
def afterFields (P : Par) (c : ECfg) (sp : Bool) (ons : Int) (obuf : Bytes) (e : EEnt) (fields : Val) : St :=
  P.addFields fields sp ⟨ctxBlock sp obuf (metaBytes P c sp e), ons, [], []⟩

/-- the line `EncodeEntry` returns -/
def entryBytes (P : Par) (c : ECfg) (sp : Bool) (ons : Int) (obuf : Bytes) (e : EEnt) (fields : Val) : Bytes :=
  stackBlock c sp e (closeNs (afterFields P c sp ons obuf e fields).buf (afterFields P c sp ons obuf e fields).ns)
    ++ 125 :: c.lineEnding

end ZapVerif.TransJsonEnc
