import ZapVerif.Model.GoMini
import ZapVerif.Model.Enc
import ZapVerif.Gen.TransJsonSep
/-! Interpreter context of the table `Gen/TransJsonSep.lean` (zapcore/json_encoder.go: `addElementSeparator`,
    `addKey`, `closeOpenNamespaces`): its one external intrinsic and the receiver fields.  Core-only (linked into
    `zvdrv` for the CTR differential test); nothing here depends on the shape of the generated terms. -/
namespace ZapVerif.TransJsonSep
open ZapVerif ZapVerif.GoMini ZapVerif.Enc ZapVerif.Gen.TransJsonSep

/-- the one external intrinsic of this table: `enc.safeAddString(s)` appends the escaped form of `s` -/
def ext : String → List Val → Option (List Val)
  | "safeAddString", [.bytes buf, .bytes s] => some [.bytes (buf ++ esc s)]
  | _, _ => none

def X : Ctx := { ext := ext, funs := funs }

/-- the receiver fields of a `*jsonEncoder` the translated functions touch -/
abbrev encFld (buf : Bytes) (sp : Bool) (n : Int) : Env := [("buf", .bytes buf), ("spaced", .bool sp), ("openNs", .int n)]

end ZapVerif.TransJsonSep
