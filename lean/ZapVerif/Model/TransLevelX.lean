import ZapVerif.Model.GoMini
import ZapVerif.Gen.TransLevel
/-! Interpreter context of the table `Gen/TransLevel.lean` (zapcore/level.go: `unmarshalText`, `UnmarshalText`,
    `ParseLevel`, `String`, `CapitalString`, `LevelOf`; http_handler.go: `serveHTTP`, `decodePutRequest`, `decodePutURL`,
    `decodePutJSON`).

    The Level behind a pointer receiver is the field `lvl` (`isnil`: the receiver pointer is nil).  `bytes.ToLower`,
    `fmt.Sprintf`, the `leveledEnabler` type assertion, `LevelEnabler.Enabled`, `Request.FormValue`, `Header.Get`,
    `json.Decoder.Decode` (what it leaves in `pld.Level` and its error), `error.Error` and the result of
    `json.Encoder.Encode` are PARAMETERS; `fmt.Errorf` / `errors.New` are free constructors of one-element error lists;
    `WriteHeader` and `Encode` are recorded in `ev`.  The AtomicLevel's current level is the pseudo-field `level`.
    Core-only. -/
namespace ZapVerif.TransLevel
open ZapVerif ZapVerif.GoMini ZapVerif.Gen.TransLevel

structure Par where
  lower : Bytes → Bytes                 -- bytes.ToLower
  sprintf : Bytes → Int → Bytes         -- fmt.Sprintf(format, level)
  asLeveled : Val → Option Val          -- enab.(leveledEnabler)
  leveledLevel : Val → Int              -- lvler.Level()
  enabled : Val → Int → Bool            -- enab.Enabled(lvl)
  formValue : Val → Bytes → Bytes       -- r.FormValue(key)
  headerGet : Val → Bytes → Bytes       -- r.Header.Get(key)
  jsonDecode : Val → List Val × List Val   -- json.NewDecoder(body).Decode(&pld): pld.Level afterwards ([] / [level]), error
  errText : Val → Bytes                 -- err.Error()
  encodeErr : Val → Val → List Val      -- the error of enc.Encode(v)

def nm (s : String) : Val := .bytes s.toUTF8.toList

/-- a one-element error list built by a constructor -/
def errV (ctor : String) (args : List Val) : Val := .list [.list (nm ctor :: args)]

def ext (P : Par) : String → List Val → Option (List Val)
  | "bytes.ToLower", [.bytes t] => some [.bytes (P.lower t)]
  | "fmt.Sprintf", [.bytes f, .int l] => some [.bytes (P.sprintf f l)]
  | "fmt.Errorf", args => some [errV "fmt.Errorf" args]
  | "errors.New", args => some [errV "errors.New" args]
  | "assert.leveledEnabler", [e] =>
      some (match P.asLeveled e with | some lv => [lv, .bool true] | none => [.list [], .bool false])
  | "LeveledEnabler.Level", [lv] => some [.int (P.leveledLevel lv)]
  | "LevelEnabler.Enabled", [e, .int l] => some [.bool (P.enabled e l)]
  | "Request.FormValue", [r, .bytes k] => some [.bytes (P.formValue r k)]
  | "Header.Get", [h, .bytes k] => some [.bytes (P.headerGet h k)]
  | "json.Decode", [body, _] => some [.list [.list (P.jsonDecode body).1], .list (P.jsonDecode body).2]
  | "error.Error", [e] => some [.bytes (P.errText e)]
  | "json.NewEncoder", [w] => some [.list [nm "json.NewEncoder", w]]
  | "json.Encode", [enc, v] => some [.list (P.encodeErr enc v)]
  | "ResponseWriter.WriteHeader", [_, _] => some []
  | "id", [v] => some [v]
  | "set", [_, v] => some [v]
  | _, _ => none

def X (P : Par) : Ctx := { ext := ext P, funs := funs }

/-- a `*http.Request` as the translated functions read it: Method, Header, Body, the rest -/
def reqV (method : Bytes) (header body rest : Val) : Val := .list [.bytes method, header, body, rest]

end ZapVerif.TransLevel
