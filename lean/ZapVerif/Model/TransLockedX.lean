import ZapVerif.Model.GoMini
import ZapVerif.Gen.TransLocked
/-! Interpreter context of the table `Gen/TransLocked.lean` (zapcore/write_syncer.go: `lockedWriteSyncer.Write/Sync`;
    zapcore/buffered_write_syncer.go: `BufferedWriteSyncer.Write/Sync`).  `sync.Mutex.Lock/Unlock`, the wrapped
    WriteSyncer and the bufio.Writer's `Flush`/`Write` are recorded intrinsics; the bufio.Writer is a value whose
    behaviour (`Available`, `Buffered`, `Flush`, `Write`) and construction (`initialize`) are parameters.  Core-only. -/
namespace ZapVerif.TransLocked
open ZapVerif ZapVerif.GoMini ZapVerif.Gen.TransLocked

structure Par where
  avail : Val → Int
  buffered : Val → Int
  flush : Val → Val × List Val                  -- new writer, error
  bwrite : Val → Bytes → Val × Nat × List Val   -- new writer, count, error
  init : Val → Val → Int → Val                  -- initialize(): the writer built from (old writer, WS, Size)

/-- a scripted sink `[n, writeErrs, syncErrs]` -/
def sinkV (n : Int) (werrs serrs : List Val) : Val := .list [.int n, .list werrs, .list serrs]

def ext (P : Par) : String → List Val → Option (List Val)
  | "Mutex.Lock", _ => some []
  | "Mutex.Unlock", _ => some []
  | "WriteSyncer.Write", [.list [.int n, .list werrs, _], .bytes _] => some [.int n, .list werrs]
  | "WriteSyncer.Sync", [.list [_, _, .list serrs]] => some [.list serrs]
  | "BufferedWriteSyncer.initialize", [_, w, ws, .int size] => some [.bool true, P.init w ws size, ws, .int size]
  | "bufio.Available", [w] => some [.int (P.avail w)]
  | "bufio.Buffered", [w] => some [.int (P.buffered w)]
  | "bufio.Flush", [w] => some [(P.flush w).1, .list (P.flush w).2]
  | "bufio.Write", [w, .bytes b] => some [(P.bwrite w b).1, .int (P.bwrite w b).2.1, .list (P.bwrite w b).2.2]
  | _, _ => none

def X (P : Par) : Ctx := { ext := ext P, funs := funs }

def nm (s : String) : Val := .bytes s.toUTF8.toList

/-- the shape of `BufferedWriteSyncer.Write` after initialisation, over any writer type: flush first when the write
    does not fit and something is buffered (so that no write is split), give up on a flush error, then `bufio.Write` -/
def writeShape {W E : Type} (isErr : E → Bool) (avail buffered : W → Int) (flush : W → W × E)
    (bw : W → Bytes → W × Nat × E) (w0 : W) (bs : Bytes) : W × Nat × E :=
  if (bs.length : Int) > avail w0 ∧ buffered w0 > 0 then
    (if isErr (flush w0).2 then ((flush w0).1, 0, (flush w0).2) else bw (flush w0).1 bs)
  else bw w0 bs

/-- fields of a `*lockedWriteSyncer` -/
abbrev lkFld (ws : Val) (ev : List Val) : Env := [("ws", ws), ("ev", .list ev)]
/-- fields of a `*BufferedWriteSyncer` -/
abbrev bwFld (mu : Val) (initialized : Bool) (writer ws : Val) (size : Int) (ev : List Val) : Env :=
  [("mu", mu), ("initialized", .bool initialized), ("writer", writer), ("ws", ws), ("size", .int size), ("ev", .list ev)]

end ZapVerif.TransLocked
