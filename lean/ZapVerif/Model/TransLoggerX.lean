import ZapVerif.Model.GoMini
import ZapVerif.Gen.TransLogger
/-! Interpreter context of the table `Gen/TransLogger.lean` (logger.go: `terminalHookOverride`, `(*Logger).check` up to
    its early return for entries nobody writes; sugar.go: the level guards of `SugaredLogger.log` / `logln`).

    A hook is a nil-able value `[code]` (`WriteThenNoop` 0, `Goexit` 1, `Panic` 2, `Fatal` 3, anything else custom);
    a `*CheckedEntry` is nil or `[cores, after]`.  The core's `Enabled` / `Check`, the clock and the annotation tail
    (`ErrorOutput`, caller, stack — everything after the cut) are parameters.  Core-only. -/
namespace ZapVerif.TransLogger
open ZapVerif ZapVerif.GoMini ZapVerif.Gen.TransLogger

/-- nil, or (cores, after) -/
def ceV : Option (List Val × List Val) → Val
  | none => .list []
  | some (cs, h) => .list [.list cs, .list h]

def unCE : Val → Option (Option (List Val × List Val))
  | .list [] => some none
  | .list [.list cs, .list h] => some (some (cs, h))
  | _ => none

/-- `ce.After(ent, hook)` — proved about the source as `After_matches_source` (table TransCEAdd) -/
def after (ce : Option (List Val × List Val)) (hook : List Val) : Option (List Val × List Val) :=
  match ce with
  | none => some ([], hook)
  | some (cs, _) => some (cs, hook)

structure Par where
  cen : Val → Int → Bool                       -- core.Enabled(lvl)
  chk : Val → Val → Option (List Val)          -- core.Check(ent, nil): nil, or the cores that accepted
  now : Val → Val                              -- clock.Now()
  ann : Val → Val → Val                        -- the untranslated tail of Logger.check (annotation)

def ext (P : Par) : String → List Val → Option (List Val)
  | "Core.Enabled", [c, .int l] => some [.bool (P.cen c l)]
  | "Core.Enabled", [.int l] => some [.bool (P.cen (.list []) l)]
  | "Core.Check", [c, e, _] => some [ceV ((P.chk c e).map fun cs => (cs, []))]
  | "Clock.Now", [c] => some [P.now c]
  | "CE.After", [ce, _, .list h] => (unCE ce).map fun o => [ceV (after o h)]
  | "Logger.annotate", [ce, e] => some [P.ann ce e]
  | "Sugar.formatCheckWrite", [_] => some []
  | _, _ => none

def X (P : Par) : Ctx := { ext := ext P, funs := funs }

/-- `terminalHookOverride(default, override)` on hook values -/
def ovr (d o : List Val) : List Val := if o.length = 0 ∨ Val.beqs o [.int 0] = true then d else o

/-- the `switch ent.Level` of `Logger.check` on hook values: the terminal hook, if any -/
def terminal (l : Int) (dev : Bool) (onPanic onFatal : List Val) : Option (List Val) :=
  if l = 4 then some (ovr [.int 2] onPanic)
  else if l = 5 then some (ovr [.int 3] onFatal)
  else if l = 3 then (if dev then some (ovr [.int 2] onPanic) else none)
  else none

def nm (s : String) : Val := .bytes s.toUTF8.toList

/-- the fields of a `*Logger` that `check` reads -/
abbrev logFld (core : Val) (name : Bytes) (clock : Val) (dev : Bool) (onPanic onFatal : List Val) (ev : List Val) : Env :=
  [("core", core), ("name", .bytes name), ("clock", clock), ("dev", .bool dev), ("onPanic", .list onPanic),
   ("onFatal", .list onFatal), ("ev", .list ev)]

end ZapVerif.TransLogger
