import ZapVerif.Model.GoMini
import ZapVerif.Gen.TransMessage
/-! Interpreter context of the table `Gen/TransMessage.lean` (sugar.go: `getMessage`, `getMessageln`, and the whole of
    `(*SugaredLogger).log` / `logln`).

    The loosely-typed arguments are opaque values; `fmt.Sprint` / `Sprintf` / `Sprintln` and the `.(string)` assertion
    (`asStr`) are PARAMETERS, as are the core's answer to `Enabled` (`cen`), the base logger's `Check` (`check`: nil or
    a checked entry) and the fields `sweetenFields` makes of the context (`sweeten`; that function is translated and
    proved in the table TransSweeten).  `Check`, `sweetenFields` and `ce.Write` are recorded in `ev`.  Core-only. -/
namespace ZapVerif.TransMessage
open ZapVerif ZapVerif.GoMini ZapVerif.Gen.TransMessage

structure Par where
  sprint : List Val → Bytes
  sprintf : Bytes → List Val → Bytes
  sprintln : List Val → Bytes
  asStr : Val → Option Bytes
  cen : Int → Bool
  check : Val → Int → Bytes → List Val
  sweeten : List Val → List Val

def nm (s : String) : Val := .bytes s.toUTF8.toList

def ext (P : Par) : String → List Val → Option (List Val)
  | "fmt.Sprint", [.list a] => some [.bytes (P.sprint a)]
  | "fmt.Sprintf", [.bytes t, .list a] => some [.bytes (P.sprintf t a)]
  | "fmt.Sprintln", [.list a] => some [.bytes (P.sprintln a)]
  | "assert.string", [a] => some (match P.asStr a with | some s => [.bytes s, .bool true] | none => [.bytes [], .bool false])
  | "Core.Enabled", [.int l] => some [.bool (P.cen l)]
  | "Logger.Check", [b, .int l, .bytes m] => some [.list (P.check b l m)]
  | "Sugar.sweetenFields", [.list c, _] => some [.list (P.sweeten c)]
  | "CE.Write", [_, _] => some []
  | _, _ => none

def X (P : Par) : Ctx := { ext := ext P, funs := funs }

/-- `getMessage` over opaque values -/
def msgSpec (P : Par) (template : Bytes) (args : List Val) : Bytes :=
  if args = [] then template
  else if template ≠ [] then P.sprintf template args
  else match args with
    | [a] => (match P.asStr a with | some s => s | none => P.sprint args)
    | _ => P.sprint args

/-- `getMessageln` -/
def msglnSpec (P : Par) (args : List Val) : Bytes := (P.sprintln args).dropLast

end ZapVerif.TransMessage
