import ZapVerif.Model.GoMini
import ZapVerif.Model.Writers
import ZapVerif.Gen.TransMultiWS
/-! Interpreter context of the table `Gen/TransMultiWS.lean` (zapcore/write_syncer.go: `multiWriteSyncer.Write`,
    `multiWriteSyncer.Sync`).  Sink outcomes are parameters: a sink is a VALUE that scripts what its `Write` and `Sync`
    return.  Errors are lists of error ids, `multierr.Append` is list concatenation (what the C13 oracle checks
    through `multierr.Errors`).  Core-only. -/
namespace ZapVerif.TransMultiWS
open ZapVerif ZapVerif.GoMini ZapVerif.Gen.TransMultiWS

/-- a scripted sink: `[n, writeErr, syncErr]` -/
def sinkV (n : Int) (werr serr : List Val) : Val := .list [.int n, .list werr, .list serr]

/-- the name under which a `w.Write` call is recorded in the trace: "sink.Write" -/
def traceName : Val := .bytes [115, 105, 110, 107, 46, 87, 114, 105, 116, 101]

/-- `w.Write(p)` returns what the sink scripts; `w.Sync()` likewise -/
def ext : String → List Val → Option (List Val)
  | "sink.Write", [.list [.int n, .list e, _], .bytes _] => some [.int n, .list e]
  | "sink.Sync", [.list [_, _, .list e]] => some [.list e]
  | _, _ => none

def X : Ctx := { ext := ext, funs := funs }

/-- the sinks for a vector of `Model/Writers` outcomes: sink `i` fails with the error id `i` -/
def sinksOf (outs : List Writers.Out) : List Val :=
  outs.zipIdx.map fun p => sinkV p.1.n (if p.1.err then [.int p.2] else []) []

/-- the sinks for a vector of Sync outcomes -/
def syncSinksOf (errs : List Bool) : List Val :=
  errs.zipIdx.map fun p => sinkV 0 [] (if p.1 then [.int p.2] else [])

end ZapVerif.TransMultiWS
