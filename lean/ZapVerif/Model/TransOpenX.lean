import ZapVerif.Model.GoMini
import ZapVerif.Model.OpenBuild
import ZapVerif.Gen.TransOpen
/-! Interpreter context of the table `Gen/TransOpen.lean` (writer.go `open`, `Open`, `CombineWriteSyncers`; config.go
    `Config.Build`, `buildEncoder`, `buildOptions`, `openSinks`; sink.go `newFileSinkFromPath`, `newFileSinkFromURL`,
    `newSink`; global.go `redirectStdLogAt`).

    A sink is a nil-able value `[]` / `[id]`; errors are lists (nil = `[]`), `fmt.Errorf` / `errors.New` /
    `&errSinkNotFound{…}` are free constructors of one-element error lists, `multierr.Append` is concatenation.  The sink
    registry's `newSink` (inside `open`), the OS opener, `url.Parse`, `filepath.IsAbs`, the factory map and the factories,
    `newEncoder`, the key order of `InitialFields`, its lookup and `sort.Strings` are PARAMETERS; `Close`, the calls of
    returned closures, the mutex, the opener and `newEncoder` are recorded in `ev`.  Options, fields, cores, loggers and
    the combined write syncers are free constructors (`conV`).  The standard logger's flags / prefix / output are
    pseudo-fields.  Core-only. -/
namespace ZapVerif.TransOpen
open ZapVerif ZapVerif.GoMini ZapVerif.Gen.TransOpen

structure Par where
  newSink : Val → List Val × List Val            -- _sinkRegistry.newSink(path): sink, error
  openFile : Val → List Val × List Val            -- sr.openFile(path, flags, mode)
  isAbs : Val → Bool
  parse : Val → Val × List Val                    -- url.Parse(raw): *url.URL record, error
  port : Val → Bytes
  hostname : Val → Bytes
  lookup : Val → Val → Val × Bool                 -- sr.factories[scheme]
  factory : Val → Val → List Val × List Val       -- factory(u)
  levelOK : Int → Bool                            -- levelToFunc knows the level
  newEncoder : Val → Val → List Val × List Val    -- newEncoder(name, cfg): encoder, error
  keys : Val → List Val                           -- the keys of a map in the order `range` happens to give them
  mapGet : Val → Val → Val                        -- m[k]
  sort : List Val → List Val                      -- sort.Strings
  toLower : Bytes → Bytes                         -- strings.ToLower

def nm (s : String) : Val := .bytes s.toUTF8.toList

/-- a one-element error list built by a constructor -/
def errV (ctor : String) (args : List Val) : Val := .list [.list (nm ctor :: args)]

/-- a value built by a constructor the translation does not look into -/
def conV (ctor : String) (args : List Val) : Val := .list (nm ctor :: args)

def ext (P : Par) : String → List Val → Option (List Val)
  | "sinkRegistry.newSink", [p] => some [.list (P.newSink p).1, .list (P.newSink p).2]
  | "Sink.Close", [_] => some [.list []]
  | "fmt.Errorf", args => some [errV "fmt.Errorf" args]
  | "errors.New", args => some [errV "errors.New" args]
  | "errSinkNotFound", args => some [errV "errSinkNotFound" args]
  | "Closure.call", [_] => some []
  | "sinkRegistry.openFile", [p, _, _] => some [.list (P.openFile p).1, .list (P.openFile p).2]
  | "URL.Port", [u] => some [.bytes (P.port u)]
  | "URL.Hostname", [u] => some [.bytes (P.hostname u)]
  | "filepath.IsAbs", [p] => some [.bool (P.isAbs p)]
  | "url.Parse", [p] => some [(P.parse p).1, .list (P.parse p).2]
  | "Mutex.Lock", [_] => some []
  | "Mutex.Unlock", [_] => some []
  | "factories.get", [m, k] => some [(P.lookup m k).1, .bool (P.lookup m k).2]
  | "SinkFactory.call", [f, u] => some [.list (P.factory f u).1, .list (P.factory f u).2]
  | "Logger.WithOptions", [l, o] => some [.list [nm "Logger.WithOptions", l, o]]
  | "AddCallerSkip", [n] => some [.list [nm "AddCallerSkip", n]]
  | "levelToFunc", [lg, .int l] =>
      some (if P.levelOK l then [.list [nm "logFunc", lg, .int l], .list []] else [.list [], errV "levelToFunc" [.int l]])
  | "loggerWriter", [f] => some [.list [nm "loggerWriter", f]]
  | "zapcore.AddSync", [w] => some [.list [conV "zapcore.AddSync" [w]]]
  | "zapcore.Lock", [w] => some [.list [conV "zapcore.Lock" [w]]]
  | "zapcore.NewMultiWriteSyncer", [ws] => some [.list [conV "zapcore.NewMultiWriteSyncer" [ws]]]
  | "newEncoder", [n, c] => some [.list (P.newEncoder n c).1, .list (P.newEncoder n c).2]
  | "zap.New", [core, opts] => some [.list [conV "zap.New" [core, opts]]]
  | "zapcore.NewCore", [e, s, l] => some [conV "zapcore.NewCore" [e, s, l]]
  | "ErrorOutput", [s] => some [conV "ErrorOutput" [s]]
  | "Development", [] => some [conV "Development" []]
  | "AddCaller", [] => some [conV "AddCaller" []]
  | "AddStacktrace", [l] => some [conV "AddStacktrace" [l]]
  | "WrapCore", [f] => some [conV "WrapCore" [f]]
  | "Fields", [fs] => some [conV "Fields" [fs]]
  | "Any", [k, v] => some [conV "Any" [k, v]]
  | "InitialFields.keys", [m] => some [.list (P.keys m)]
  | "InitialFields.get", [m, k] => some [P.mapGet m k]
  | "sort.Strings", [.list ks] => some [.list (P.sort ks)]
  | "strings.ToLower", [.bytes s] => some [.bytes (P.toLower s)]
  | "id", [v] => some [v]
  | "set", [_, v] => some [v]
  | _, _ => none

def X (P : Par) : Ctx := { ext := ext P, funs := funs }

/-- a `*url.URL` as the translated functions read it: Scheme, User (nil-able), Fragment, RawQuery, Path, the rest -/
def urlV (scheme : Bytes) (user : List Val) (fragment rawQuery path : Bytes) (rest : Val) : Val :=
  .list [.bytes scheme, .list user, .bytes fragment, .bytes rawQuery, .bytes path, rest]

end ZapVerif.TransOpen
