import ZapVerif.Model.GoMini
import ZapVerif.Model.OpenBuild
import ZapVerif.Gen.TransOpen
/-! Interpreter context of the table `Gen/TransOpen.lean` (writer.go `open`; config.go `Config.openSinks`; sink.go
    `newFileSinkFromPath`, `newFileSinkFromURL`, `newSink`; global.go `redirectStdLogAt`).

    A sink is a nil-able value `[]` / `[id]`; errors are lists (nil = `[]`), `fmt.Errorf` / `errors.New` /
    `&errSinkNotFound{…}` are free constructors of one-element error lists, `multierr.Append` is concatenation.  The sink
    registry's `newSink` (inside `open`), `zap.Open` (inside `openSinks`), the OS opener, `url.Parse`, `filepath.IsAbs`,
    the factory map and the factories are PARAMETERS; `Close`, the calls of returned closures, the mutex and the opener
    are recorded in `ev`.  The standard logger's flags / prefix / output are pseudo-fields.  Core-only. -/
namespace ZapVerif.TransOpen
open ZapVerif ZapVerif.GoMini ZapVerif.Gen.TransOpen

structure Par where
  newSink : Val → List Val × List Val            -- _sinkRegistry.newSink(path): sink, error
  zapOpen : Val → List Val × List Val × List Val  -- zap.Open(paths…): writer, close function, error
  openFile : Val → List Val × List Val            -- sr.openFile(path, flags, mode)
  isAbs : Val → Bool
  parse : Val → Val × List Val                    -- url.Parse(raw): *url.URL record, error
  port : Val → Bytes
  hostname : Val → Bytes
  lookup : Val → Val → Val × Bool                 -- sr.factories[scheme]
  factory : Val → Val → List Val × List Val       -- factory(u)
  levelOK : Int → Bool                            -- levelToFunc knows the level

def nm (s : String) : Val := .bytes s.toUTF8.toList

/-- a one-element error list built by a constructor -/
def errV (ctor : String) (args : List Val) : Val := .list [.list (nm ctor :: args)]

def ext (P : Par) : String → List Val → Option (List Val)
  | "sinkRegistry.newSink", [p] => some [.list (P.newSink p).1, .list (P.newSink p).2]
  | "Sink.Close", [_] => some [.list []]
  | "fmt.Errorf", args => some [errV "fmt.Errorf" args]
  | "errors.New", args => some [errV "errors.New" args]
  | "errSinkNotFound", args => some [errV "errSinkNotFound" args]
  | "zap.Open", [ps] => some [.list (P.zapOpen ps).1, .list (P.zapOpen ps).2.1, .list (P.zapOpen ps).2.2]
  | "Closure.call", [_] => some []
  | "sinkRegistry.openFile", [p, _, _] => some [.list (P.openFile p).1, .list (P.openFile p).2]
  | "URL.Port", [u] => some [.bytes (P.port u)]
  | "URL.Hostname", [u] => some [.bytes (P.hostname u)]
  | "filepath.IsAbs", [p] => some [.bool (P.isAbs p)]
  | "url.Parse", [p] => some [(P.parse p).1, .list (P.parse p).2]
  | "Mutex.Lock", [_] => some []
  | "Mutex.Unlock", [_] => some []
  | "factories.get", [m, k] => some [(P.lookup m k).1, .bool (P.lookup m k).2]
  | "SinkFactory.call", [f, u] => some [.list (P.factory f u).1, .list (P.factory f u).2]
  | "Logger.WithOptions", [l, o] => some [.list [nm "Logger.WithOptions", l, o]]
  | "AddCallerSkip", [n] => some [.list [nm "AddCallerSkip", n]]
  | "levelToFunc", [lg, .int l] =>
      some (if P.levelOK l then [.list [nm "logFunc", lg, .int l], .list []] else [.list [], errV "levelToFunc" [.int l]])
  | "loggerWriter", [f] => some [.list [nm "loggerWriter", f]]
  | "id", [v] => some [v]
  | "set", [_, v] => some [v]
  | _, _ => none

def X (P : Par) : Ctx := { ext := ext P, funs := funs }

/-- a `*url.URL` as the translated functions read it: Scheme, User (nil-able), Fragment, RawQuery, Path, the rest -/
def urlV (scheme : Bytes) (user : List Val) (fragment rawQuery path : Bytes) (rest : Val) : Val :=
  .list [.bytes scheme, .list user, .bytes fragment, .bytes rawQuery, .bytes path, rest]

end ZapVerif.TransOpen
