import ZapVerif.Model.GoMini
import ZapVerif.Model.Sampler
import ZapVerif.Gen.TransSampler
/-! Interpreter context of the table `Gen/TransSampler.lean` (zapcore/sampler.go: `fnv32a`, `counter.IncCheckReset`,
    `sampler.Check`).  Core-only (linked into `zvdrv` for the CTR differential test). -/
namespace ZapVerif.TransSampler
open ZapVerif ZapVerif.GoMini ZapVerif.Gen.TransSampler

/-- `SamplingDecision` values: `LogDropped = 1 << 0`, `LogSampled = 1 << 1` -/
def decCode : Sampler.Decision → Int
  | .dropped => 1
  | .sampled => 2

/-- the external intrinsics of `sampler.Check`, parameterised by the wrapped core's `Enabled`:
    * `s.Enabled(level)` — the embedded core's level check;
    * `s.counts.get(level, message)` — returns a handle; the whitelist entry declares that it designates the cell
      whose `resetAt`/`counter` are in the field environment (bucket selection is `Sampler.Entry.key`, tied by Corr);
    * `s.hook(ent, decision)` — appends the decision to the trace of hook calls;
    * `s.Core.Check(ent, ce)` — appends the entry to the trace of forwarded entries and returns an opaque
      `*CheckedEntry` built from `ce` -/
def ext (enabled : Int → Bool) : String → List Val → Option (List Val)
  | "Enabled", [.int l] => some [.bool (enabled l)]
  | "counts.get", [_, .int l, .bytes m] => some [.list [.int l, .int (Sampler.bucket m)]]
  | "hook", [.list tr, _, .int d] => some [.list (tr ++ [.int d])]
  | "Core.Check", [.list fw, ent, ce] => some [.list (fw ++ [ent]), .list [ce]]
  | _, _ => none

def X (enabled : Int → Bool) : Ctx := { ext := ext enabled, funs := funs }

/-- the fields of a `*counter` — `resetAt atomic.Int64`, `counter atomic.Uint64` (sequential meaning) — followed
    by whatever else the environment holds -/
abbrev cellFld (resetAt : Int) (n : Int) (rest : Env) : Env := ("resetAt", .int resetAt) :: ("counter", .int n) :: rest

/-- the rest of a `*sampler`'s environment: configuration, the hook trace, the forwarded entries -/
abbrev sampRest (first thereafter tick : Int) (hooks fwd : List Val) : Env :=
  [("first", .int first), ("thereafter", .int thereafter), ("tick", .int tick), ("counts", .list []),
   ("hooks", .list hooks), ("core", .list fwd)]

/-- an `Entry` as the translated `Check` receives it: the declared fields Level, Message, Time -/
def entV (e : Sampler.Entry) : Val := .list [.int e.level, .bytes e.msg, .int e.t]

end ZapVerif.TransSampler
