import ZapVerif.Model.GoMini
import ZapVerif.Model.Slog
import ZapVerif.Gen.TransSlog
/-! Interpreter context of the table `Gen/TransSlog.lean` (exp/zapslog/handler.go: `convertSlogLevel`, `hasContent`,
    `convertAttrToField`, `appendGroups`, `WithGroup`, `WithAttrs`, `Handle` up to the attribute iteration).

    slog values are the model's attributes (`Slog.SAttr`) ENCODED as values: a `slog.Attr` is `[key, value]`, a value is
    `[tag, lv, payload]` where `lv` is the number of LogValuer layers around it (`Value.Resolve` strips them all;
    `Value.Kind` is `KindLogValuer` while there is one).  `Kind`, `Resolve`, `Group`, `Equal(slog.Attr{})` and the
    scalar accessors are defined on this encoding; the zap field constructors are free constructors.  The core
    (`With`, `Check`), `runtime` frames and `stacktrace.Take` are parameters.  Core-only. -/
namespace ZapVerif.TransSlog
open ZapVerif ZapVerif.GoMini ZapVerif.Slog ZapVerif.Gen.TransSlog

/-- keys and names as bytes (one byte per character: only emptiness and identity of keys matter here) -/
def sbytes (s : String) : Bytes := s.toList.map fun c => UInt8.ofNat c.toNat
def nm (s : String) : Val := .bytes (sbytes s)

/-- the slog.Kind of a scalar by the model's type tag (`KindAny` = 0 for everything else) -/
def kindOfTy (ty : String) : Int :=
  if ty = "bool" then 1 else if ty = "duration" then 2 else if ty = "float64" then 3 else if ty = "int64" then 4
  else if ty = "string" then 5 else if ty = "time" then 6 else if ty = "uint64" then 7 else 0

/-- a scalar payload: its kind, type tag and text -/
def leafV (l : Leaf) : Val := .list [.int (kindOfTy l.ty), .bytes (sbytes l.ty), .bytes (sbytes l.v)]

mutual
/-- a `slog.Value`: `[0, lv, leaf]` scalar / any, `[1, lv]` the zero value, `[2, lv, members]` a group -/
def valueV : SAttr → Val
  | .leaf _ lv l => .list [.int 0, .int lv, leafV l]
  | .nilv _ lv => .list [.int 1, .int lv]
  | .group _ lv ms => .list [.int 2, .int lv, .list (attrsV ms)]
/-- a `slog.Attr`: key and value -/
def attrV : SAttr → Val
  | .leaf k lv l => .list [.bytes (sbytes k), .list [.int 0, .int lv, leafV l]]
  | .nilv k lv => .list [.bytes (sbytes k), .list [.int 1, .int lv]]
  | .group k lv ms => .list [.bytes (sbytes k), .list [.int 2, .int lv, .list (attrsV ms)]]
def attrsV : List SAttr → List Val
  | [] => []
  | a :: r => attrV a :: attrsV r
end

/-- the zap constructor `convertAttrToField` uses for a scalar of that tag -/
def ctorOfTy (ty : String) : String :=
  if ty = "bool" then "zap.Bool" else if ty = "duration" then "zap.Duration" else if ty = "float64" then "zap.Float64"
  else if ty = "int64" then "zap.Int64" else if ty = "string" then "zap.String" else if ty = "time" then "zap.Time"
  else if ty = "uint64" then "zap.Uint64" else "zap.Any"

structure Par where
  coreWith : Val → Val → Val               -- core.With(fields)
  check : Val → Val → Val                  -- core.Check(ent, nil): nil (`[]`) or the checked entry [caller, stack, rest]
  frame : Val → Val × Bool                 -- runtime.CallersFrames([]uintptr{pc}).Next()
  take : Int → Bytes                       -- stacktrace.Take(skip)

def ext (P : Par) : String → List Val → Option (List Val)
  -- Value.Kind: KindLogValuer while wrapped
  | "Value.Kind", [.list [.int 0, .int lv, .list [.int k, _, _]]] => some [.int (if lv > 0 then 9 else k)]
  | "Value.Kind", [.list [.int 1, .int lv]] => some [.int (if lv > 0 then 9 else 0)]
  | "Value.Kind", [.list [.int 2, .int lv, _]] => some [.int (if lv > 0 then 9 else 8)]
  | "Value.Resolve", [.list [.int 0, .int _, l]] => some [.list [.int 0, .int 0, l]]
  | "Value.Resolve", [.list [.int 1, .int _]] => some [.list [.int 1, .int 0]]
  | "Value.Resolve", [.list [.int 2, .int _, ms]] => some [.list [.int 2, .int 0, ms]]
  | "Value.Group", [.list [.int 2, .int _, ms]] => some [ms]
  | "Value.Payload", [.list [.int 0, .int _, l]] => some [l]
  | "Value.Payload", [.list [.int 1, .int _]] => some [leafV nilLeaf]
  -- attr.Equal(slog.Attr{}): the empty key with the zero value (an unresolved LogValuer is not the zero value)
  | "Attr.Equal", [.list [.bytes k, .list [.int 1, .int lv]], _] => some [.bool (k.isEmpty && lv == 0)]
  | "Attr.Equal", [_, _] => some [.bool false]
  | "zap.Skip", [] => some [.list [nm "zap.Skip"]]
  | "zap.Bool", [k, p] => some [.list [nm "zap.Bool", k, p]]
  | "zap.Duration", [k, p] => some [.list [nm "zap.Duration", k, p]]
  | "zap.Float64", [k, p] => some [.list [nm "zap.Float64", k, p]]
  | "zap.Int64", [k, p] => some [.list [nm "zap.Int64", k, p]]
  | "zap.String", [k, p] => some [.list [nm "zap.String", k, p]]
  | "zap.Time", [k, p] => some [.list [nm "zap.Time", k, p]]
  | "zap.Uint64", [k, p] => some [.list [nm "zap.Uint64", k, p]]
  | "zap.Any", [k, p] => some [.list [nm "zap.Any", k, p]]
  | "zap.Inline", [ms] => some [.list [nm "zap.Inline", ms]]
  | "zap.Object", [k, ms] => some [.list [nm "zap.Object", k, ms]]
  | "zap.Namespace", [g] => some [.list [nm "zap.Namespace", g]]
  | "Core.With", [c, fs] => some [P.coreWith c fs]
  | "Core.Check", [c, e, _] => some [P.check c e]
  | "runtime.frameOf", [pc] => some [(P.frame pc).1, .bool (P.frame pc).2]
  | "stacktrace.Take", [.int n] => some [.bytes (P.take n)]
  | "Handler.convertAndWrite", [_, _] => some [.list []]
  | "make.strings", [.int n] => if n < 0 then none else some [.list (List.replicate n.toNat (.bytes []))]
  | "copy", [.list dst, .list src] => some [.list (src.take dst.length ++ dst.drop src.length), .int (min dst.length src.length)]
  | "slice.set", [.list l, .int i, v] => if 0 ≤ i ∧ i.toNat < l.length then some [.list (l.set i.toNat v)] else none
  | _, _ => none

def X (P : Par) : Ctx := { ext := ext P, funs := funs }

/-- `convertSlogLevel`: the thresholds Error ≥ 8, Warn ≥ 4, Info ≥ 0, else Debug -/
def levelSpec (l : Int) : Int := if l ≥ 8 then 2 else if l ≥ 4 then 1 else if l ≥ 0 then 0 else -1

/-- what `convertAttrToField` returns, as a constructor value (group members stay attributes: `groupObject` converts
    them when it is marshalled) -/
def skipV : Val := .list [nm "zap.Skip"]
def convV : SAttr → Val
  | .leaf k _ l => .list [nm (ctorOfTy l.ty), .bytes (sbytes k), leafV l]
  | .nilv k _ => if k = "" then skipV else .list [nm "zap.Any", .bytes (sbytes k), leafV nilLeaf]
  | .group k _ ms =>
    if anyContent ms then
      (if k = "" then .list [nm "zap.Inline", .list (attrsV ms)] else .list [nm "zap.Object", .bytes (sbytes k), .list (attrsV ms)])
    else skipV

def nsV (g : String) : Val := .list [nm "zap.Namespace", .bytes (sbytes g)]

/-- the insertion loop shared by `WithAttrs` and `Handle`: the pending groups are opened (as namespaces) right before
    the first field that is not `zap.Skip()`, once -/
def attrStep (gs : List Bytes) (acc : List Val × Bool) (a : SAttr) : List Val × Bool :=
  if !acc.2 && !gs.isEmpty && !isSkip (convert a) then
    (acc.1 ++ gs.map (fun g => Val.list [nm "zap.Namespace", .bytes g]) ++ [convV a], true)
  else (acc.1 ++ [convV a], acc.2)

def withAttrsSpec (gs : List Bytes) (as : List SAttr) : List Val × Bool := as.foldl (attrStep gs) ([], false)

mutual
/-- nesting depth: the fuel the recursive functions need -/
def dep : SAttr → Nat
  | .leaf _ _ _ => 0
  | .nilv _ _ => 0
  | .group _ _ ms => deps ms + 1
def deps : List SAttr → Nat
  | [] => 0
  | a :: r => max (dep a) (deps r)
end

/-- the fields of a `*Handler` and of the clone `WithGroup` / `WithAttrs` set up -/
abbrev hFld (core : Val) (name : Bytes) (addCaller : Bool) (addStackAt callerSkip : Int) (groups : List Val) (self : Val)
    (ocore : Val) (oname : Bytes) (oaddCaller : Bool) (oaddStackAt ocallerSkip : Int) (ogroups : List Val) (oself : Val)
    (ev : List Val) : Env :=
  [("core", core), ("name", .bytes name), ("addCaller", .bool addCaller), ("addStackAt", .int addStackAt),
   ("callerSkip", .int callerSkip), ("groups", .list groups), ("self", self),
   ("o.core", ocore), ("o.name", .bytes oname), ("o.addCaller", .bool oaddCaller), ("o.addStackAt", .int oaddStackAt),
   ("o.callerSkip", .int ocallerSkip), ("o.groups", .list ogroups), ("o.self", oself), ("ev", .list ev)]

end ZapVerif.TransSlog
