import ZapVerif.Model.GoMini
import ZapVerif.Model.Callers
import ZapVerif.Gen.TransStackFmt
/-! Interpreter context of the table `Gen/TransStackFmt.lean` (internal/stacktrace/stack.go: `(*Formatter).FormatFrame`,
    `FormatStack`).  The `*Stack` handed to `FormatStack` is the ITERATOR value: the frames not yet returned;
    `runtime.Frames.Next` returns the next frame and whether MORE follow (on an exhausted iterator: the zero frame, false).
    `AppendInt` is strconv (lines are non-negative).  Core-only. -/
namespace ZapVerif.TransStackFmt
open ZapVerif ZapVerif.GoMini ZapVerif.Gen.TransStackFmt

def zeroFrame : Val := .list [.bytes [], .bytes [], .int 0]

def ext : String → List Val → Option (List Val)
  | "Buffer.AppendInt", [.bytes b, .int n] => some [.bytes (b ++ Callers.itoa n.toNat)]
  | "Frames.Next", [.list []] => some [.list [], zeroFrame, .bool false]
  | "Frames.Next", [.list (f :: r)] => some [.list r, f, .bool (!r.isEmpty)]
  | _, _ => none

def X : Ctx := { ext := ext, funs := funs }

/-- a `runtime.Frame` as the formatter reads it -/
structure FrameD where
  fn : Bytes
  file : Bytes
  line : Nat

def encF (f : FrameD) : Val := .list [.bytes f.fn, .bytes f.file, .int f.line]

/-- one frame: a newline first unless it is the first frame written, then `function\n\tfile:line` -/
def stepF (b : Bytes) (ne : Bool) (f : FrameD) : Bytes :=
  (if ne then b ++ [10] else b) ++ f.fn ++ [10] ++ [9] ++ f.file ++ [58] ++ Callers.itoa f.line

def fmtAll (b : Bytes) (ne : Bool) (fs : List FrameD) : Bytes × Bool := fs.foldl (fun s f => (stepF s.1 s.2 f, true)) (b, ne)

def fEnv (b : Bytes) (ne : Bool) : Env := [("b", .bytes b), ("nonEmpty", .bool ne)]

end ZapVerif.TransStackFmt
