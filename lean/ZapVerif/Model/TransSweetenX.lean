import ZapVerif.Model.GoMini
import ZapVerif.Gen.TransSweeten
/-! Interpreter context of the table `Gen/TransSweeten.lean` (sugar.go: `(*SugaredLogger).sweetenFields`).

    The loosely-typed arguments are opaque values.  What the function can find out about one of them is what the three
    comma-ok type assertions answer: `asField`, `asErr`, `asStr` (parameters).  The field constructors `Error`, `Any`,
    `Array` are free constructors; the diagnostics sent to the base logger (`s.base.WithOptions(AddCallerSkip(skip)).Error`)
    are recorded.  `cap` is a parameter about which only `cap s = 0 → len s = 0` is assumed.  Core-only. -/
namespace ZapVerif.TransSweeten
open ZapVerif ZapVerif.GoMini ZapVerif.Gen.TransSweeten

structure Par where
  asField : Val → Option Val
  asErr : Val → Option Val
  asStr : Val → Option Bytes
  cap : Val → Int

def nm (s : String) : Val := .bytes s.toUTF8.toList

/-- `zap.Error(err)` -/
def errF (e : Val) : Val := .list [nm "Error", e]
/-- `zap.Any(key, v)` -/
def anyF (k : Bytes) (v : Val) : Val := .list [nm "Any", .bytes k, v]
/-- `zap.Array(key, v)` -/
def arrayF (k : Bytes) (v : Val) : Val := .list [nm "Array", .bytes k, v]

def ext (P : Par) : String → List Val → Option (List Val)
  | "assert.Field", [a] => some (match P.asField a with | some f => [f, .bool true] | none => [.list [], .bool false])
  | "assert.error", [a] => some (match P.asErr a with | some e => [e, .bool true] | none => [.list [], .bool false])
  | "assert.string", [a] => some (match P.asStr a with | some s => [.bytes s, .bool true] | none => [.bytes [], .bool false])
  | "zap.Error", [e] => some [errF e]
  | "zap.Any", [.bytes k, v] => some [anyF k v]
  | "zap.Array", [.bytes k, v] => some [arrayF k v]
  | "cap", [v] => some [.int (P.cap v)]
  | "diag.Error", [_, _] => some []
  | _, _ => none

def X (P : Par) : Ctx := { ext := ext P, funs := funs }

def msgMultiple : Bytes := "Multiple errors without a key.".toUTF8.toList
def msgOdd : Bytes := "Ignored key without a value.".toUTF8.toList
def msgNonString : Bytes := "Ignored key-value pairs with non-string keys.".toUTF8.toList
def keyIgnored : Bytes := "ignored".toUTF8.toList
def keyInvalid : Bytes := "invalid".toUTF8.toList

/-- the record of one diagnostic: message and field -/
def diagV (msg : Bytes) (f : Val) : Val := .list [nm "diag.Error", .bytes msg, f]

/-- the three lists `sweetenFields` builds: fields, diagnostics issued inside the loop, invalid pairs -/
structure ResV where
  fields : List Val := []
  diags : List Val := []
  invalid : List Val := []

def ResV.cons1 (o : Val) (r : ResV) : ResV := { r with fields := o :: r.fields }
def ResV.cons2 (d : Val) (r : ResV) : ResV := { r with diags := d :: r.diags }
def ResV.cons3 (p : Val) (r : ResV) : ResV := { r with invalid := p :: r.invalid }
def ResV.append (a b : ResV) : ResV := ⟨a.fields ++ b.fields, a.diags ++ b.diags, a.invalid ++ b.invalid⟩

/-- the positional sweep, over opaque values (same recursion as `Sugar.sweep`); `i` is the index of the head -/
def sweepV (P : Par) (i : Nat) (seen : Bool) : List Val → ResV
  | [] => {}
  | a :: r =>
    match P.asField a with
    | some f => (sweepV P (i+1) seen r).cons1 f
    | none =>
      match P.asErr a with
      | some e =>
        if seen then (sweepV P (i+1) true r).cons2 (diagV msgMultiple (errF e))
        else (sweepV P (i+1) true r).cons1 (errF e)
      | none =>
        match r with
        | [] => { diags := [diagV msgOdd (anyF keyIgnored a)] }
        | v :: r' =>
          match P.asStr a with
          | some s => (sweepV P (i+2) seen r').cons1 (anyF s v)
          | none => (sweepV P (i+2) seen r').cons3 (.list [.int i, a, v])

/-- everything `sweetenFields` sends to the base logger, in order: the in-loop diagnostics, then the invalid pairs -/
def diagsOf (r : ResV) : List Val :=
  r.diags ++ (if r.invalid.isEmpty then [] else [diagV msgNonString (arrayF keyInvalid (.list r.invalid))])

end ZapVerif.TransSweeten
