import ZapVerif.Model.GoMini
import ZapVerif.Gen.TransWriters
/-! Interpreter context of the table `Gen/TransWriters.lean` (global.go `(*loggerWriter).Write`; zaptest
    `TestingWriter.Write`; zapcore/write_syncer.go `AddSync`, `writerWrapper.Sync`, `Lock`, `NewMultiWriteSyncer`).

    `bytes.TrimSpace` / `TrimRight`, the `.(WriteSyncer)` and `.(*lockedWriteSyncer)` assertions are PARAMETERS; the log
    function of the bridge, `t.Logf` and `t.Fail` are recorded in `ev`; writers are opaque nil-able values and a wrapper
    is the record of its struct.  Core-only. -/
namespace ZapVerif.TransWriters
open ZapVerif ZapVerif.GoMini ZapVerif.Gen.TransWriters

structure Par where
  trimSpace : Bytes → Bytes
  trimRight : Bytes → Bytes → Bytes
  asWS : Val → Option Val          -- w.(WriteSyncer)
  isLocked : Val → Bool            -- ws.(*lockedWriteSyncer)

def nm (s : String) : Val := .bytes s.toUTF8.toList

def ext (P : Par) : String → List Val → Option (List Val)
  | "bytes.TrimSpace", [.bytes p] => some [.bytes (P.trimSpace p)]
  | "bytes.TrimRight", [.bytes p, .bytes cut] => some [.bytes (P.trimRight p cut)]
  | "LogFunc.call", [_, _] => some []
  | "TB.Logf", [_, _, _] => some []
  | "TB.Fail", [_] => some []
  | "assert.WriteSyncer", [w] => some (match P.asWS w with | some ws => [ws, .bool true] | none => [.list [], .bool false])
  | "assert.lockedWriteSyncer", [w] => some [if P.isLocked w then w else .list [], .bool (P.isLocked w)]
  | _, _ => none

def X (P : Par) : Ctx := { ext := ext P, funs := funs }

end ZapVerif.TransWriters
