import ZapVerif.Model.GoMini
import ZapVerif.Model.Zio
import ZapVerif.Gen.TransZio
/-! Interpreter context of the table `Gen/TransZio.lean` (zapio/writer.go: `Write`, `writeLine`, `Sync`, `flush`).
    Core-only (linked into `zvdrv` for the CTR differential test). -/
namespace ZapVerif.TransZio
open ZapVerif ZapVerif.GoMini ZapVerif.Gen.TransZio

/-- the external intrinsics, parameterised by whether the logger's core enables the writer's level:
    * `w.Log.Core().Enabled(w.Level)`;
    * `w.log(b)` — `Check` + `Write` on the logger: the message reaches the core iff the level is enabled -/
def ext (en : Bool) : String → List Val → Option (List Val)
  | "Enabled", [_] => some [.bool en]
  | "log", [.list out, .bytes b] => some [.list (if en then out ++ [.bytes b] else out)]
  | _, _ => none

def X (en : Bool) : Ctx := { ext := ext en, funs := funs }

/-- the fields of a `*zapio.Writer`: the line buffer, the level (opaque here), and the messages logged so far -/
abbrev zfld (buff : Bytes) (lvl : Int) (out : List Val) : Env :=
  [("buff", .bytes buff), ("level", .int lvl), ("out", .list out)]

end ZapVerif.TransZio
