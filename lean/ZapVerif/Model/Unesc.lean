import ZapVerif.Model.Esc
/-! The reading side of string values: `sanitize` (each invalid UTF-8 byte ↦ U+FFFD, everything else kept) and a
    decoder `unescape` for string bodies as the encoder emits them. -/
namespace ZapVerif.Esc
open ZapVerif

/-- U+FFFD in UTF-8 -/
def replacement : Bytes := [0xEF, 0xBF, 0xBD]

/-- the logged bytes with each invalid UTF-8 byte replaced by U+FFFD (fuelled by the input length) -/
def sanitize : Nat → Bytes → Bytes
  | 0, _ => []
  | _, [] => []
  | fuel + 1, b :: r =>
    if b ≥ 128 then
      match validLen (b :: r) with
      | some n => (b :: r).take n ++ sanitize fuel ((b :: r).drop n)
      | none => replacement ++ sanitize fuel r
    else b :: sanitize fuel r

def hexv (c : UInt8) : Option UInt8 :=
  if 48 ≤ c ∧ c ≤ 57 then some (c - 48) else if 97 ≤ c ∧ c ≤ 102 then some (c - 87) else none

/-- the byte a two-character escape stands for -/
def simpleEsc (c : UInt8) : Option UInt8 :=
  if c = 92 then some 92 else if c = 34 then some 34 else if c = 110 then some 10
  else if c = 114 then some 13 else if c = 116 then some 9 else none

/-- decoder for emitted string bodies: `\\ \" \n \r \t`, `\u00hh`, `�`; anything else is rejected -/
def unesc : Nat → Bytes → Option Bytes
  | _, [] => some []
  | 0, _ :: _ => none
  | f + 1, b :: r =>
    if b = 92 then
      match r with
      | [] => none
      | c :: r' =>
        if c = 117 then
          match r' with
          | a :: b2 :: c2 :: d :: r'' =>
            if a = 48 ∧ b2 = 48 then
              match hexv c2, hexv d with
              | some x, some y => (unesc f r'').map (fun t => (x * 16 + y) :: t)
              | _, _ => none
            else if a = 102 ∧ b2 = 102 ∧ c2 = 102 ∧ d = 100 then (unesc f r'').map (fun t => replacement ++ t)
            else none
          | _ => none
        else
          match simpleEsc c with
          | some x => (unesc f r').map (fun t => x :: t)
          | none => none
    else (unesc f r).map (fun t => b :: t)

def unescape (s : Bytes) : Option Bytes := unesc s.length s

end ZapVerif.Esc
