import ZapVerif.Model.Bytes
/-! M12/writers: `multiWriteSyncer`, `AddSync`, `Lock` and the Write contract of zap's own writers
    (zapcore/write_syncer.go, global.go loggerWriter, zaptest TestingWriter, zapio.Writer). -/
namespace ZapVerif.Writers
open ZapVerif

/-- scripted outcome of one sink's `Write(p)`: count returned and whether an error came with it -/
structure Out where
  n : Nat
  err : Bool
deriving DecidableEq, Repr

/-- state of the `multiWriteSyncer.Write` loop: count so far (none before the first sink), indices of
    the sinks whose errors were appended, and what each sink was handed -/
structure Acc where
  count : Option Nat := none
  errs : List Nat := []
  delivered : List Bytes := []
  idx : Nat := 0

/-- one iteration: the sink is always called with the full `p`; its error is appended; the running
    count is the first sink's count, then the minimum -/
def multiStep (p : Bytes) (a : Acc) (o : Out) : Acc :=
  { count := some (match a.count with | none => o.n | some c => min c o.n),
    errs := if o.err then a.errs ++ [a.idx] else a.errs,
    delivered := a.delivered ++ [p],
    idx := a.idx + 1 }

def multiRun (p : Bytes) (outs : List Out) : Acc := outs.foldl (multiStep p) {}

/-- `multiWriteSyncer.Write` / `NewMultiWriteSyncer(ws...).Write`: (n, error indices) -/
def multiWrite (p : Bytes) (outs : List Out) : Nat × List Nat :=
  let a := multiRun p outs
  (a.count.getD 0, a.errs)

/-- `multiWriteSyncer.Sync`: every sink is synced; all errors are kept in order -/
def multiSync (errs : List Bool) : List Nat × List Bool :=
  ((errs.zipIdx.filter (·.1)).map (·.2), errs.map fun _ => true)

/-- `AddSync(w)`: a WriteSyncer is returned as is; a plain writer gets a no-op Sync.
    Result of Write then Sync: (n, err, syncReachedSink, syncErr) -/
def addSync (isWS : Bool) (o : Out) (sinkSyncErr : Bool) : Nat × Bool × Bool × Bool :=
  (o.n, o.err, isWS, isWS && sinkSyncErr)

/-- `Lock(ws)`: relays (n, err) and the sync error; `Lock(Lock(x)) == Lock(x)` -/
def lock (o : Out) (syncErr : Bool) : Nat × Bool × Bool × Bool := (o.n, o.err, syncErr, true)

/-- the Write contract of zapio.Writer, the std-log bridge writer, TestingWriter and
    BufferedWriteSyncer over an accepting sink: all of `p`, nil error -/
def writerWrite (p : Bytes) : Nat × Bool := (p.length, false)

end ZapVerif.Writers
