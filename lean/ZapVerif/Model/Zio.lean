import ZapVerif.Model.Bytes
/-! M12/zapio: model of `zapio.Writer` (zapio/writer.go): Write / writeLine / flush / Sync / Close. -/
namespace ZapVerif.Zio

/-- `Write` with the level enabled: the loop `for len(bs) > 0 { bs = writeLine(bs) }`.  `writeLine` looks for the
    first newline (`bytes.IndexByte`): none ⇒ buffer everything; found ⇒ the message is the line itself when the
    buffer is empty (fast path) and `buff ++ line` otherwise, the buffer is reset, and the loop continues after
    the newline.  `fuel` bounds the number of lines (`bs.length + 1` always suffices). -/
def feed : Nat → Bytes → Bytes → List Bytes × Bytes
  | 0, buff, bs => ([], buff ++ bs)
  | fuel + 1, buff, bs =>
    let l := bs.takeWhile (fun b => b != 10)                   -- up to the first newline
    match bs.dropWhile (fun b => b != 10) with
    | [] => ([], buff ++ l)                                   -- no newline left: buffer the rest
    | _ :: rest =>
      let msg := if buff.isEmpty then l else buff ++ l          -- fast path / buffered path
      let p := feed fuel [] rest
      (msg :: p.1, p.2)

def write (buff bs : Bytes) : List Bytes × Bytes := feed (bs.length + 1) buff bs

/-- Sync / Close: `flush(allowEmpty = false)` -/
def sync (buff : Bytes) : List Bytes × Bytes := (if buff.isEmpty then [] else [buff], [])

/-- one call on the writer -/
inductive Step where
  | write (bs : Bytes)
  | sync
  | enable (on : Bool)          -- the logger's level is changed under the writer

structure W where
  buff : Bytes := []
  enabled : Bool := true

/-- result of one call: new state, messages that reached the core, and the (n, err) of a Write -/
def step (w : W) : Step → W × List Bytes × Option (Nat × Bool)
  | .write bs =>
    if w.enabled then
      let (ms, b) := write w.buff bs
      ({ w with buff := b }, ms, some (bs.length, false))
    else (w, [], some (bs.length, false))                   -- "Skip all checks if the level isn't enabled"
  | .sync =>
    let (ms, b) := sync w.buff
    ({ w with buff := b }, if w.enabled then ms else [], none)   -- a disabled Check drops the message; buff is Reset
  | .enable on => ({ w with enabled := on }, [], none)

def runSteps (w : W) : List Step → W × List Bytes × List (Nat × Bool)
  | [] => (w, [], [])
  | s :: r =>
    let (w1, m1, r1) := step w s
    let (w2, m2, r2) := runSteps w1 r
    (w2, m1 ++ m2, r1.toList ++ r2)

/-- a whole session: the steps, then `Close` -/
def session (steps : List Step) : List Bytes × List (Nat × Bool) :=
  let (_, ms, rs) := runSteps {} (steps ++ [.sync])
  (ms, rs)

/-- run of plain Writes with the level enabled (the shape the chunking theorem quantifies over) -/
def run (buff : Bytes) : List Bytes → List Bytes × Bytes
  | [] => ([], buff)
  | c :: cs =>
    let (m1, b1) := write buff c
    let (m2, b2) := run b1 cs
    (m1 ++ m2, b2)

/-! ### specification: lines of a stream with explicit split marks -/

/-- complete lines of a byte stream and its unterminated tail -/
def lines (cur : Bytes) : Bytes → List Bytes × Bytes
  | [] => ([], cur)
  | b :: r => if b = 10 then let (ls, t) := lines [] r; (cur :: ls, t) else lines (cur ++ [b]) r

/-- stream events: a byte, or a split mark (an explicit Sync / the final Close) -/
inductive Ev where
  | byte (b : UInt8)
  | mark

/-- messages of an event stream: a line ends at each newline, and — when non-empty — at each mark -/
def linesEv (cur : Bytes) : List Ev → List Bytes × Bytes
  | [] => ([], cur)
  | .byte b :: r =>
    if b = 10 then let (ls, t) := linesEv [] r; (cur :: ls, t) else linesEv (cur ++ [b]) r
  | .mark :: r =>
    let (ls, t) := linesEv [] r
    ((if cur.isEmpty then [] else [cur]) ++ ls, t)

/-- the event stream a step list denotes when the level stays enabled: chunk boundaries vanish -/
def events : List Step → List Ev
  | [] => []
  | .write bs :: r => bs.map Ev.byte ++ events r
  | .sync :: r => Ev.mark :: events r
  | .enable _ :: r => events r

def allEnabled : List Step → Bool
  | [] => true
  | .enable _ :: _ => false
  | _ :: r => allEnabled r

end ZapVerif.Zio
