import ZapVerif.Model.Base64
import ZapVerif.Model.Esc
/-! base64 round trip and "the encoded text needs no JSON escaping". -/
namespace ZapVerif.B64
open ZapVerif ZapVerif.Esc

theorem fin64 (P : Nat → Prop) (h : ∀ n : Fin 64, P n.val) : ∀ n, n < 64 → P n := fun n hn => h ⟨n, hn⟩

theorem val_chr : ∀ n, n < 64 → val (chr n) = some n := fin64 _ (by decide)
theorem chr_ne_pad : ∀ n, n < 64 → chr n ≠ pad := fin64 _ (by decide)
theorem chr_plain : ∀ n, n < 64 → plain (chr n) = true ∧ chr n < 128 := fin64 _ (by decide)

theorem ofNat_toNat' (a : UInt8) (n : Nat) (h : n = a.toNat) : UInt8.ofNat n = a := by subst h; simp

theorem dec_enc (bs : Bytes) : b64dec (b64enc bs) = some bs := by
  fun_induction b64enc bs with
  | case1 => simp [b64dec]
  | case2 a =>
    have ha := a.toNat_lt
    have h1 : a.toNat / 4 < 64 := by omega
    have h2 : a.toNat % 4 * 16 < 64 := by omega
    have e1 : UInt8.ofNat (a.toNat / 4 * 4 + a.toNat % 4 * 16 / 16) = a := ofNat_toNat' _ _ (by omega)
    simp only [b64dec, val_chr _ h1, val_chr _ h2, e1]
    simp
  | case3 a b =>
    have ha := a.toNat_lt
    have hb := b.toNat_lt
    have h1 : a.toNat / 4 < 64 := by omega
    have h2 : a.toNat % 4 * 16 + b.toNat / 16 < 64 := by omega
    have h3 : b.toNat % 16 * 4 < 64 := by omega
    have e1 : UInt8.ofNat (a.toNat / 4 * 4 + (a.toNat % 4 * 16 + b.toNat / 16) / 16) = a := ofNat_toNat' _ _ (by omega)
    have e2 : UInt8.ofNat ((a.toNat % 4 * 16 + b.toNat / 16) % 16 * 16 + b.toNat % 16 * 4 / 4) = b :=
      ofNat_toNat' _ _ (by omega)
    simp only [b64dec, val_chr _ h1, val_chr _ h2, val_chr _ h3, chr_ne_pad _ h3, e1, e2]
    simp
  | case4 a b c r ih =>
    have ha := a.toNat_lt
    have hb := b.toNat_lt
    have hc := c.toNat_lt
    have h1 : a.toNat / 4 < 64 := by omega
    have h2 : a.toNat % 4 * 16 + b.toNat / 16 < 64 := by omega
    have h3 : b.toNat % 16 * 4 + c.toNat / 64 < 64 := by omega
    have h4 : c.toNat % 64 < 64 := by omega
    have e1 : UInt8.ofNat (a.toNat / 4 * 4 + (a.toNat % 4 * 16 + b.toNat / 16) / 16) = a := ofNat_toNat' _ _ (by omega)
    have e2 : UInt8.ofNat ((a.toNat % 4 * 16 + b.toNat / 16) % 16 * 16 + (b.toNat % 16 * 4 + c.toNat / 64) / 4) = b :=
      ofNat_toNat' _ _ (by omega)
    have e3 : UInt8.ofNat ((b.toNat % 16 * 4 + c.toNat / 64) % 4 * 64 + c.toNat % 64) = c := ofNat_toNat' _ _ (by omega)
    simp only [b64dec, val_chr _ h1, val_chr _ h2, val_chr _ h3, val_chr _ h4, chr_ne_pad _ h4, ih, e1, e2, e3]
    simp

/-- every byte of the encoded text is a letter, digit, `+`, `/` or `=`: printable ASCII that JSON does not escape -/
theorem enc_plain (bs : Bytes) : ∀ c ∈ b64enc bs, plain c = true ∧ c < 128 := by
  fun_induction b64enc bs with
  | case1 => simp
  | case2 a =>
    have ha := a.toNat_lt
    intro c hc
    simp at hc
    rcases hc with rfl | rfl | rfl <;> first | (apply chr_plain; omega) | decide
  | case3 a b =>
    have ha := a.toNat_lt
    have hb := b.toNat_lt
    intro c hc
    simp at hc
    rcases hc with rfl | rfl | rfl | rfl <;> first | (apply chr_plain; omega) | decide
  | case4 a b c r ih =>
    have ha := a.toNat_lt
    have hb := b.toNat_lt
    have hc := c.toNat_lt
    intro d hd
    simp at hd
    rcases hd with rfl | rfl | rfl | rfl | hd
    · apply chr_plain; omega
    · apply chr_plain; omega
    · apply chr_plain; omega
    · apply chr_plain; omega
    · exact ih d hd

/-- `safeAppendStringLike` copies a string of plain ASCII bytes unchanged -/
theorem escape_plain_id (fuel : Nat) (s : Bytes) (hf : s.length ≤ fuel) (h : ∀ c ∈ s, plain c = true ∧ c < 128) :
    escape fuel s = s := by
  induction fuel generalizing s with
  | zero =>
    have : s = [] := by simpa using hf
    subst this; simp [escape]
  | succ f ih =>
    cases s with
    | nil => simp [escape]
    | cons b r =>
      have hb := h b (by simp)
      have h128 : ¬ b ≥ 128 := by
        have := hb.2
        simp [UInt8.lt_iff_toNat_lt, UInt8.le_iff_toNat_le] at this ⊢; omega
      simp only [escape, h128, if_false, hb.1, if_true]
      rw [ih r (by simpa using hf) (fun c hc => h c (by simp [hc]))]

theorem enc_length (bs : Bytes) : (b64enc bs).length = (bs.length + 2) / 3 * 4 := by
  fun_induction b64enc bs with
  | case1 => simp
  | case2 a => simp
  | case3 a b => simp
  | case4 a b c r ih => simp [ih]; omega

end ZapVerif.B64
