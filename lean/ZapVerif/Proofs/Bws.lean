import ZapVerif.Model.Bws
/-! Lemmas about the `bufio.Writer` / `BufferedWriteSyncer` model (any scripted sink, then the reliable sink). -/
namespace ZapVerif.Bws
open ZapVerif

/-! ## observations -/

@[simp] theorem taken_append (a b : List Ev) : taken (a ++ b) = taken a ++ taken b := by
  induction a with
  | nil => rfl
  | cons e r ih => cases e <;> simp [taken, ih]

@[simp] theorem sinkWrites_append (a b : List Ev) : sinkWrites (a ++ b) = sinkWrites a ++ sinkWrites b := by
  induction a with
  | nil => rfl
  | cons e r ih => cases e <;> simp [sinkWrites, ih]

@[simp] theorem taken_write (p : Bytes) (k : Nat) : taken [.write p k] = p.take k := by simp [taken]
@[simp] theorem taken_sync : taken [.sync] = [] := rfl
@[simp] theorem taken_nil : taken [] = [] := rfl
@[simp] theorem sinkWrites_write (p : Bytes) (k : Nat) : sinkWrites [.write p k] = [p] := rfl
@[simp] theorem sinkWrites_sync : sinkWrites [.sync] = [] := rfl
@[simp] theorem sinkWrites_nil : sinkWrites [] = [] := rfl

/-- everything the syncer has accepted and not lost: what the sink took, then what is still buffered -/
def content (s : St) : Bytes := taken s.sink ++ s.buf

/-- frame: the fields no operation of the bufio layer touches -/
structure Frame (s s' : St) : Prop where
  size : s'.size = s.size
  init : s'.init = s.init
  stopped : s'.stopped = s.stopped
  sscript : s'.sscript = s.sscript
  grows : ∃ evs, s'.sink = s.sink ++ evs ∧ ∀ e ∈ evs, e ≠ .sync

theorem Frame.refl (s : St) : Frame s s := ⟨rfl, rfl, rfl, rfl, [], by simp, by simp⟩

theorem Frame.trans {a b c : St} (h1 : Frame a b) (h2 : Frame b c) : Frame a c := by
  obtain ⟨e1, h1s, h1n⟩ := h1.grows
  obtain ⟨e2, h2s, h2n⟩ := h2.grows
  refine ⟨h2.size.trans h1.size, h2.init.trans h1.init, h2.stopped.trans h1.stopped, h2.sscript.trans h1.sscript,
    e1 ++ e2, by rw [h2s, h1s, List.append_assoc], ?_⟩
  intro e he
  rcases List.mem_append.mp he with h | h
  · exact h1n e h
  · exact h2n e h

/-! ## the sink -/

theorem sinkWrite_took_le (s : St) (p : Bytes) : (sinkWrite s p).2.1 ≤ p.length := by
  simp only [sinkWrite]; exact Nat.min_le_right _ _

theorem sinkWrite_sink (s : St) (p : Bytes) :
    (sinkWrite s p).1.sink = s.sink ++ [.write p (sinkWrite s p).2.1] := rfl

theorem sinkWrite_zero_fails (s : St) (p : Bytes) (hp : 0 < p.length) (h0 : (sinkWrite s p).2.1 = 0) :
    (sinkWrite s p).2.2 = true := by
  simp only [sinkWrite] at h0 ⊢
  rw [h0]
  have : p.length > 0 := hp
  simp [this]

@[simp] theorem sinkWrite_buf (s : St) (p : Bytes) : (sinkWrite s p).1.buf = s.buf := rfl
@[simp] theorem sinkWrite_size (s : St) (p : Bytes) : (sinkWrite s p).1.size = s.size := rfl
@[simp] theorem sinkWrite_err (s : St) (p : Bytes) : (sinkWrite s p).1.err = s.err := rfl
@[simp] theorem sinkWrite_init (s : St) (p : Bytes) : (sinkWrite s p).1.init = s.init := rfl
@[simp] theorem sinkWrite_stopped (s : St) (p : Bytes) : (sinkWrite s p).1.stopped = s.stopped := rfl
@[simp] theorem sinkWrite_sscript (s : St) (p : Bytes) : (sinkWrite s p).1.sscript = s.sscript := rfl

/-! ## `bufio.Writer.Flush` -/

/-- the error `Flush` derives from the outcome of its one sink write -/
def flushErr (failed : Bool) (took len : Nat) : Option EK :=
  if failed then some .sink else if took < len then some .short else none

theorem flush_eq (s : St) :
    flush s =
      match s.err with
      | some e => (s, some e)
      | none =>
        if s.buf.isEmpty then (s, none)
        else
          match flushErr (sinkWrite s s.buf).2.2 (sinkWrite s s.buf).2.1 s.buf.length with
          | some k => ({ (sinkWrite s s.buf).1 with buf := s.buf.drop (sinkWrite s s.buf).2.1, err := some k }, some k)
          | none => ({ (sinkWrite s s.buf).1 with buf := [] }, none) := by
  unfold flush flushErr
  cases s.err <;> rfl

theorem flushErr_none {f : Bool} {k l : Nat} (h : flushErr f k l = none) (hk : k ≤ l) : f = false ∧ k = l := by
  unfold flushErr at h
  split at h
  · cases h
  · split at h
    · cases h
    · constructor
      · simpa using ‹¬f = true›
      · omega

/-- all facts about one `Flush` -/
structure FlushSpec (s : St) (r : St × Option EK) : Prop where
  frame : Frame s r.1
  content : content r.1 = content s
  shrink : r.1.buf.length ≤ s.buf.length
  err_eq : r.2 = r.1.err
  ok_empty : r.2 = none → r.1.buf = []
  sticky : ∀ e, s.err = some e → r = (s, some e)
  clean : s.buf = [] → s.err = none → r = (s, none)

theorem flush_spec (s : St) : FlushSpec s (flush s) := by
  rw [flush_eq]
  cases he : s.err with
  | some e =>
    exact ⟨Frame.refl s, rfl, Nat.le_refl _, by simp [he], by simp,
      fun e' h => (by rw [he] at h; injection h with h; rw [h]), fun _ h => (by rw [he] at h; cases h)⟩
  | none =>
    cases hb : s.buf.isEmpty with
    | true =>
      have hnil : s.buf = [] := by simpa using hb
      simp only [if_true]
      exact ⟨Frame.refl s, rfl, Nat.le_refl _, by simp [he], fun _ => hnil,
        fun e' h => (by rw [he] at h; cases h), fun _ _ => rfl⟩
    | false =>
      have hne : s.buf ≠ [] := by simpa using hb
      simp only [Bool.false_eq_true, if_false]
      have hle := sinkWrite_took_le s s.buf
      cases hf : flushErr (sinkWrite s s.buf).2.2 (sinkWrite s s.buf).2.1 s.buf.length with
      | some k =>
        refine ⟨⟨rfl, rfl, rfl, rfl, [.write s.buf (sinkWrite s s.buf).2.1], rfl, by simp⟩, ?_, ?_, rfl, by simp,
          fun e' h => (by rw [he] at h; cases h), fun h => absurd h hne⟩
        · simp [content, sinkWrite_sink, List.append_assoc]
        · simp
      | none =>
        obtain ⟨_, hk⟩ := flushErr_none hf hle
        refine ⟨⟨rfl, rfl, rfl, rfl, [.write s.buf (sinkWrite s s.buf).2.1], rfl, by simp⟩, ?_, by simp, by simp [he],
          fun _ => rfl, fun e' h => (by rw [he] at h; cases h), fun h => absurd h hne⟩
        simp [content, sinkWrite_sink, hk]

/-! ## the loop of `bufio.Writer.Write` -/

/-- an upper bound on the number of passes through `bwrite` still needed -/
def need (s : St) (p : Bytes) : Nat :=
  p.length + (if s.buf.isEmpty then 0 else 1) + (if s.err.isNone then 1 else 0) + 1

structure BodySpec (s : St) (p : Bytes) (r : St × Nat) : Prop where
  frame : Frame s r.1
  n_le : r.2 ≤ p.length
  content : content r.1 = content s ++ p.take r.2
  bound : r.1.buf.length ≤ s.size
  need_lt : need r.1 (p.drop r.2) < need s p

theorem loopBody_spec (s : St) (p : Bytes) (hc : p.length > s.avail) (he : s.err = none) (hb : s.buf.length ≤ s.size) :
    BodySpec s p (loopBody s p) := by
  unfold loopBody
  cases hbe : s.buf.isEmpty with
  | true =>
    have hnil : s.buf = [] := by simpa using hbe
    simp only [if_true]
    have hle := sinkWrite_took_le s p
    refine ⟨⟨rfl, rfl, rfl, rfl, [.write p (sinkWrite s p).2.1], rfl, by simp⟩, hle, ?_, by simp [hnil], ?_⟩
    · simp [content, sinkWrite_sink, hnil]
    · have hp : 0 < p.length := by omega
      simp only [need, sinkWrite_buf, hbe, if_true, List.length_drop, he]
      by_cases h0 : (sinkWrite s p).2.1 = 0
      · have := sinkWrite_zero_fails s p hp h0
        simp [this, h0]
      · cases (sinkWrite s p).2.2 <;> simp <;> omega
  | false =>
    simp only [Bool.false_eq_true, if_false]
    have hav : s.avail ≤ p.length := by omega
    have havs : s.avail = s.size - s.buf.length := rfl
    have hnb : s.buf.length ≠ 0 := by
      intro h; have : s.buf = [] := List.length_eq_zero_iff.mp h; simp [this] at hbe
    generalize hs1 : ({ s with buf := s.buf ++ p.take s.avail } : St) = s1
    have hbuf : s1.buf = s.buf ++ p.take s.avail := by rw [← hs1]
    have hsz : s1.size = s.size := by rw [← hs1]
    have hlen : s1.buf.length = s.size := by
      rw [hbuf]; simp only [List.length_append, List.length_take]; omega
    have F := flush_spec s1
    have f1 : Frame s s1 := by
      rw [← hs1]; exact ⟨rfl, rfl, rfl, rfl, [], by simp, by simp⟩
    have hneed : need s p = p.length + 3 := by simp [need, hbe, he]
    refine ⟨f1.trans F.frame, hav, ?_, ?_, ?_⟩
    · rw [F.content]; simp [content, ← hs1, List.append_assoc]
    · have := F.shrink
      show (flush s1).1.buf.length ≤ s.size
      omega
    · rw [hneed]
      cases hr : (flush s1).2 with
      | none =>
        have hbn := F.ok_empty hr
        simp only [need, hbn, List.length_drop, List.isEmpty_nil, if_true]
        split <;> omega
      | some k =>
        have h2 : (flush s1).1.err = some k := by rw [← F.err_eq, hr]
        simp only [need, h2, List.length_drop, Option.isNone_some, Bool.false_eq_true, if_false]
        split <;> omega

/-- all facts about one `bufio.Writer.Write` -/
structure BwriteSpec (fuel : Nat) (s : St) (p : Bytes) (nn : Nat) (r : St × Nat × Option EK) : Prop where
  frame : Frame s r.1
  bound : r.1.buf.length ≤ s.size
  err_eq : r.2.2 = r.1.err
  count : ∃ k, r.2.1 = nn + k ∧ k ≤ p.length ∧ content r.1 = content s ++ p.take k ∧
    (need s p ≤ fuel → k < p.length → r.2.2 ≠ none)

theorem bwrite_spec (fuel : Nat) : ∀ (s : St) (p : Bytes) (nn : Nat), s.buf.length ≤ s.size →
    BwriteSpec fuel s p nn (bwrite fuel s p nn) := by
  induction fuel with
  | zero =>
    intro s p nn hb
    refine ⟨Frame.refl s, hb, rfl, 0, rfl, Nat.zero_le _, by simp [bwrite], ?_⟩
    intro h; simp [need] at h
  | succ fuel ih =>
    intro s p nn hb
    by_cases hc : p.length > s.avail ∧ s.err = none
    · have B := loopBody_spec s p hc.1 hc.2 hb
      have hb' : (loopBody s p).1.buf.length ≤ (loopBody s p).1.size := by rw [B.frame.size]; exact B.bound
      have I := ih (loopBody s p).1 (p.drop (loopBody s p).2) (nn + (loopBody s p).2) hb'
      have hbw : bwrite (fuel + 1) s p nn =
          bwrite fuel (loopBody s p).1 (p.drop (loopBody s p).2) (nn + (loopBody s p).2) := by
        rw [bwrite, if_pos hc]
      rw [hbw]
      obtain ⟨k, hk1, hk2, hk3, hk4⟩ := I.count
      refine ⟨B.frame.trans I.frame, by rw [← B.frame.size]; exact I.bound, I.err_eq,
        (loopBody s p).2 + k, by rw [hk1]; omega, ?_, ?_, ?_⟩
      · have := B.n_le; simp only [List.length_drop] at hk2; omega
      · rw [hk3, B.content, List.append_assoc, ← List.take_add]
      · intro hn hlt
        apply hk4
        · have := B.need_lt; omega
        · have := B.n_le; simp only [List.length_drop]; omega
    · cases he : s.err with
      | some e =>
        have hbw : bwrite (fuel + 1) s p nn = (s, nn, some e) := by
          rw [bwrite, if_neg hc]; simp only [he]
        rw [hbw]
        exact ⟨Frame.refl s, hb, by simp [he], 0, rfl, Nat.zero_le _, by simp, by simp⟩
      | none =>
        have hbw : bwrite (fuel + 1) s p nn = ({ s with buf := s.buf ++ p }, nn + p.length, none) := by
          rw [bwrite, if_neg hc]; simp only [he]
        rw [hbw]
        have hfit : p.length ≤ s.avail := by
          simp only [he, and_true] at hc; omega
        have : s.avail = s.size - s.buf.length := rfl
        refine ⟨⟨rfl, rfl, rfl, rfl, [], by simp, by simp⟩, ?_, by simp [he], p.length, rfl, Nat.le_refl _, ?_, by simp⟩
        · simp only [List.length_append]; omega
        · simp [content, List.append_assoc]

theorem need_le_fuelFor (s : St) (p : Bytes) : need s p ≤ fuelFor p := by
  unfold need fuelFor; split <;> split <;> omega

/-! ## `BufferedWriteSyncer.Write` -/

structure WriteSpec (s : St) (bs : Bytes) (r : St × Nat × Option EK) : Prop where
  size : r.1.size = s.size
  init : r.1.init = true
  stopped : r.1.stopped = s.stopped
  sscript : r.1.sscript = s.sscript
  grows : ∃ evs, r.1.sink = s.sink ++ evs ∧ ∀ e ∈ evs, e ≠ .sync
  bound : r.1.buf.length ≤ s.size
  err_eq : r.2.2 = r.1.err
  n_le : r.2.1 ≤ bs.length
  content : content r.1 = content s ++ bs.take r.2.1
  short_err : r.2.1 < bs.length → r.2.2 ≠ none

theorem bufioWrite_spec (s : St) (bs : Bytes) (hb : s.buf.length ≤ s.size) :
    Frame s (bufioWrite s bs).1 ∧ (bufioWrite s bs).1.buf.length ≤ s.size ∧
    (bufioWrite s bs).2.2 = (bufioWrite s bs).1.err ∧ (bufioWrite s bs).2.1 ≤ bs.length ∧
    content (bufioWrite s bs).1 = content s ++ bs.take (bufioWrite s bs).2.1 ∧
    ((bufioWrite s bs).2.1 < bs.length → (bufioWrite s bs).2.2 ≠ none) := by
  have S := bwrite_spec (fuelFor bs) s bs 0 hb
  obtain ⟨k, h1, h2, h3, h4⟩ := S.count
  unfold bufioWrite
  simp only [Nat.zero_add] at h1
  refine ⟨S.frame, S.bound, S.err_eq, by omega, by rw [h1]; exact h3, ?_⟩
  intro hlt
  exact h4 (need_le_fuelFor s bs) (by omega)

theorem write_spec (s : St) (bs : Bytes) (hb : s.buf.length ≤ s.size) : WriteSpec s bs (write s bs) := by
  unfold write
  generalize hs0 : ({ s with init := true } : St) = s0
  have hb0 : s0.buf.length ≤ s0.size := by rw [← hs0]; exact hb
  have f0 : content s0 = content s := by rw [← hs0]; rfl
  have z1 : s0.size = s.size := by rw [← hs0]
  have z2 : s0.init = true := by rw [← hs0]
  have z3 : s0.stopped = s.stopped := by rw [← hs0]
  have z4 : s0.sscript = s.sscript := by rw [← hs0]
  have z5 : s0.sink = s.sink := by rw [← hs0]
  have z6 : s0.buf = s.buf := by rw [← hs0]
  by_cases hc : bs.length > s0.avail ∧ s0.buf.length > 0
  · rw [if_pos hc]
    have F := flush_spec s0
    cases hfl : flush s0 with
    | mk s1 oe =>
      rw [hfl] at F
      obtain ⟨evs, hg, hn⟩ := F.frame.grows
      cases oe with
      | some e =>
        refine ⟨F.frame.size.trans z1, F.frame.init.trans z2, F.frame.stopped.trans z3, F.frame.sscript.trans z4,
          ⟨evs, by rw [← z5]; exact hg, hn⟩, ?_, F.err_eq, Nat.zero_le _, ?_, by simp⟩
        · have := F.shrink; rw [z6] at this; exact Nat.le_trans this hb
        · have := F.content; simp [this, f0]
      | none =>
        have hb1 : s1.buf.length ≤ s1.size := by
          have h1 := F.frame.size; have h2 := F.shrink
          simp only at h1 h2; rw [h1]; exact Nat.le_trans h2 hb0
        obtain ⟨fr, b, ee, nl, ct, se⟩ := bufioWrite_spec s1 bs hb1
        have fr' := F.frame.trans fr
        obtain ⟨evs', hg', hn'⟩ := fr'.grows
        refine ⟨fr'.size.trans z1, fr'.init.trans z2, fr'.stopped.trans z3, fr'.sscript.trans z4,
          ⟨evs', by rw [← z5]; exact hg', hn'⟩, ?_, ee, nl, ?_, se⟩
        · have := F.frame.size; simp only at this; rw [← z1, ← this]; exact b
        · have := F.content; simp only at this; rw [ct, this, f0]
  · rw [if_neg hc]
    obtain ⟨fr, b, ee, nl, ct, se⟩ := bufioWrite_spec s0 bs hb0
    obtain ⟨evs, hg, hn⟩ := fr.grows
    exact ⟨fr.size.trans z1, fr.init.trans z2, fr.stopped.trans z3, fr.sscript.trans z4,
      ⟨evs, by rw [← z5]; exact hg, hn⟩, by rw [← z1]; exact b, ee, nl, by rw [ct, f0], se⟩

end ZapVerif.Bws
