import ZapVerif.Model.Bws
/-! Lemmas about the `bufio.Writer` / `BufferedWriteSyncer` model (any scripted sink, then the reliable sink). -/
namespace ZapVerif.Bws
open ZapVerif

/-! ## observations -/

@[simp] theorem taken_append (a b : List Ev) : taken (a ++ b) = taken a ++ taken b := by
  induction a with
  | nil => rfl
  | cons e r ih => cases e <;> simp [taken, ih]

@[simp] theorem sinkWrites_append (a b : List Ev) : sinkWrites (a ++ b) = sinkWrites a ++ sinkWrites b := by
  induction a with
  | nil => rfl
  | cons e r ih => cases e <;> simp [sinkWrites, ih]

@[simp] theorem taken_write (p : Bytes) (k : Nat) : taken [.write p k] = p.take k := by simp [taken]
@[simp] theorem taken_sync : taken [.sync] = [] := rfl
@[simp] theorem taken_nil : taken [] = [] := rfl
@[simp] theorem sinkWrites_write (p : Bytes) (k : Nat) : sinkWrites [.write p k] = [p] := rfl
@[simp] theorem sinkWrites_sync : sinkWrites [.sync] = [] := rfl
@[simp] theorem sinkWrites_nil : sinkWrites [] = [] := rfl

/-- everything the syncer has accepted and not lost: what the sink took, then what is still buffered -/
def content (s : St) : Bytes := taken s.sink ++ s.buf

/-- frame: the fields no operation of the bufio layer touches -/
structure Frame (s s' : St) : Prop where
  size : s'.size = s.size
  init : s'.init = s.init
  stopped : s'.stopped = s.stopped
  sscript : s'.sscript = s.sscript
  grows : ∃ evs, s'.sink = s.sink ++ evs ∧ ∀ e ∈ evs, e ≠ .sync

theorem Frame.refl (s : St) : Frame s s := ⟨rfl, rfl, rfl, rfl, [], by simp, by simp⟩

theorem Frame.trans {a b c : St} (h1 : Frame a b) (h2 : Frame b c) : Frame a c := by
  obtain ⟨e1, h1s, h1n⟩ := h1.grows
  obtain ⟨e2, h2s, h2n⟩ := h2.grows
  refine ⟨h2.size.trans h1.size, h2.init.trans h1.init, h2.stopped.trans h1.stopped, h2.sscript.trans h1.sscript,
    e1 ++ e2, by rw [h2s, h1s, List.append_assoc], ?_⟩
  intro e he
  rcases List.mem_append.mp he with h | h
  · exact h1n e h
  · exact h2n e h

/-! ## the sink -/

theorem sinkWrite_took_le (s : St) (p : Bytes) : (sinkWrite s p).2.1 ≤ p.length := by
  simp only [sinkWrite]; exact Nat.min_le_right _ _

theorem sinkWrite_sink (s : St) (p : Bytes) :
    (sinkWrite s p).1.sink = s.sink ++ [.write p (sinkWrite s p).2.1] := rfl

theorem sinkWrite_zero_fails (s : St) (p : Bytes) (hp : 0 < p.length) (h0 : (sinkWrite s p).2.1 = 0) :
    (sinkWrite s p).2.2 = true := by
  simp only [sinkWrite] at h0 ⊢
  rw [h0]
  have : p.length > 0 := hp
  simp [this]

@[simp] theorem sinkWrite_buf (s : St) (p : Bytes) : (sinkWrite s p).1.buf = s.buf := rfl
@[simp] theorem sinkWrite_size (s : St) (p : Bytes) : (sinkWrite s p).1.size = s.size := rfl
@[simp] theorem sinkWrite_err (s : St) (p : Bytes) : (sinkWrite s p).1.err = s.err := rfl
@[simp] theorem sinkWrite_init (s : St) (p : Bytes) : (sinkWrite s p).1.init = s.init := rfl
@[simp] theorem sinkWrite_stopped (s : St) (p : Bytes) : (sinkWrite s p).1.stopped = s.stopped := rfl
@[simp] theorem sinkWrite_sscript (s : St) (p : Bytes) : (sinkWrite s p).1.sscript = s.sscript := rfl

/-! ## `bufio.Writer.Flush` -/

/-- the error `Flush` derives from the outcome of its one sink write -/
def flushErr (failed : Bool) (took len : Nat) : Option EK :=
  if failed then some .sink else if took < len then some .short else none

theorem flush_eq (s : St) :
    flush s =
      match s.err with
      | some e => (s, some e)
      | none =>
        if s.buf.isEmpty then (s, none)
        else
          match flushErr (sinkWrite s s.buf).2.2 (sinkWrite s s.buf).2.1 s.buf.length with
          | some k => ({ (sinkWrite s s.buf).1 with buf := s.buf.drop (sinkWrite s s.buf).2.1, err := some k }, some k)
          | none => ({ (sinkWrite s s.buf).1 with buf := [] }, none) := by
  unfold flush flushErr
  cases s.err <;> rfl

theorem flushErr_none {f : Bool} {k l : Nat} (h : flushErr f k l = none) (hk : k ≤ l) : f = false ∧ k = l := by
  unfold flushErr at h
  split at h
  · cases h
  · split at h
    · cases h
    · constructor
      · simpa using ‹¬f = true›
      · omega

/-- all facts about one `Flush` -/
structure FlushSpec (s : St) (r : St × Option EK) : Prop where
  frame : Frame s r.1
  content : content r.1 = content s
  shrink : r.1.buf.length ≤ s.buf.length
  err_eq : r.2 = r.1.err
  ok_empty : r.2 = none → r.1.buf = []
  sticky : ∀ e, s.err = some e → r = (s, some e)
  clean : s.buf = [] → s.err = none → r = (s, none)

theorem flush_spec (s : St) : FlushSpec s (flush s) := by
  rw [flush_eq]
  cases he : s.err with
  | some e =>
    exact ⟨Frame.refl s, rfl, Nat.le_refl _, by simp [he], by simp,
      fun e' h => (by rw [he] at h; injection h with h; rw [h]), fun _ h => (by rw [he] at h; cases h)⟩
  | none =>
    cases hb : s.buf.isEmpty with
    | true =>
      have hnil : s.buf = [] := by simpa using hb
      simp only [if_true]
      exact ⟨Frame.refl s, rfl, Nat.le_refl _, by simp [he], fun _ => hnil,
        fun e' h => (by rw [he] at h; cases h), fun _ _ => rfl⟩
    | false =>
      have hne : s.buf ≠ [] := by simpa using hb
      simp only [Bool.false_eq_true, if_false]
      have hle := sinkWrite_took_le s s.buf
      cases hf : flushErr (sinkWrite s s.buf).2.2 (sinkWrite s s.buf).2.1 s.buf.length with
      | some k =>
        refine ⟨⟨rfl, rfl, rfl, rfl, [.write s.buf (sinkWrite s s.buf).2.1], rfl, by simp⟩, ?_, ?_, rfl, by simp,
          fun e' h => (by rw [he] at h; cases h), fun h => absurd h hne⟩
        · simp [content, sinkWrite_sink, List.append_assoc]
        · simp
      | none =>
        obtain ⟨_, hk⟩ := flushErr_none hf hle
        refine ⟨⟨rfl, rfl, rfl, rfl, [.write s.buf (sinkWrite s s.buf).2.1], rfl, by simp⟩, ?_, by simp, by simp [he],
          fun _ => rfl, fun e' h => (by rw [he] at h; cases h), fun h => absurd h hne⟩
        simp [content, sinkWrite_sink, hk]

/-! ## the loop of `bufio.Writer.Write` -/

/-- an upper bound on the number of passes through `bwrite` still needed -/
def need (s : St) (p : Bytes) : Nat :=
  p.length + (if s.buf.isEmpty then 0 else 1) + (if s.err.isNone then 1 else 0) + 1

structure BodySpec (s : St) (p : Bytes) (r : St × Nat) : Prop where
  frame : Frame s r.1
  n_le : r.2 ≤ p.length
  content : content r.1 = content s ++ p.take r.2
  bound : r.1.buf.length ≤ s.size
  need_lt : need r.1 (p.drop r.2) < need s p

theorem loopBody_spec (s : St) (p : Bytes) (hc : p.length > s.avail) (he : s.err = none) (hb : s.buf.length ≤ s.size) :
    BodySpec s p (loopBody s p) := by
  unfold loopBody
  cases hbe : s.buf.isEmpty with
  | true =>
    have hnil : s.buf = [] := by simpa using hbe
    simp only [if_true]
    have hle := sinkWrite_took_le s p
    refine ⟨⟨rfl, rfl, rfl, rfl, [.write p (sinkWrite s p).2.1], rfl, by simp⟩, hle, ?_, by simp [hnil], ?_⟩
    · simp [content, sinkWrite_sink, hnil]
    · have hp : 0 < p.length := by omega
      simp only [need, sinkWrite_buf, hbe, if_true, List.length_drop, he]
      by_cases h0 : (sinkWrite s p).2.1 = 0
      · have := sinkWrite_zero_fails s p hp h0
        simp [this, h0]
      · cases (sinkWrite s p).2.2 <;> simp <;> omega
  | false =>
    simp only [Bool.false_eq_true, if_false]
    have hav : s.avail ≤ p.length := by omega
    have havs : s.avail = s.size - s.buf.length := rfl
    have hnb : s.buf.length ≠ 0 := by
      intro h; have : s.buf = [] := List.length_eq_zero_iff.mp h; simp [this] at hbe
    generalize hs1 : ({ s with buf := s.buf ++ p.take s.avail } : St) = s1
    have hbuf : s1.buf = s.buf ++ p.take s.avail := by rw [← hs1]
    have hsz : s1.size = s.size := by rw [← hs1]
    have hlen : s1.buf.length = s.size := by
      rw [hbuf]; simp only [List.length_append, List.length_take]; omega
    have F := flush_spec s1
    have f1 : Frame s s1 := by
      rw [← hs1]; exact ⟨rfl, rfl, rfl, rfl, [], by simp, by simp⟩
    have hneed : need s p = p.length + 3 := by simp [need, hbe, he]
    refine ⟨f1.trans F.frame, hav, ?_, ?_, ?_⟩
    · rw [F.content]; simp [content, ← hs1, List.append_assoc]
    · have := F.shrink
      show (flush s1).1.buf.length ≤ s.size
      omega
    · rw [hneed]
      cases hr : (flush s1).2 with
      | none =>
        have hbn := F.ok_empty hr
        simp only [need, hbn, List.length_drop, List.isEmpty_nil, if_true]
        split <;> omega
      | some k =>
        have h2 : (flush s1).1.err = some k := by rw [← F.err_eq, hr]
        simp only [need, h2, List.length_drop, Option.isNone_some, Bool.false_eq_true, if_false]
        split <;> omega

/-- all facts about one `bufio.Writer.Write` -/
structure BwriteSpec (fuel : Nat) (s : St) (p : Bytes) (nn : Nat) (r : St × Nat × Option EK) : Prop where
  frame : Frame s r.1
  bound : r.1.buf.length ≤ s.size
  err_eq : r.2.2 = r.1.err
  count : ∃ k, r.2.1 = nn + k ∧ k ≤ p.length ∧ content r.1 = content s ++ p.take k ∧
    (need s p ≤ fuel → k < p.length → r.2.2 ≠ none)

theorem bwrite_spec (fuel : Nat) : ∀ (s : St) (p : Bytes) (nn : Nat), s.buf.length ≤ s.size →
    BwriteSpec fuel s p nn (bwrite fuel s p nn) := by
  induction fuel with
  | zero =>
    intro s p nn hb
    refine ⟨Frame.refl s, hb, rfl, 0, rfl, Nat.zero_le _, by simp [bwrite], ?_⟩
    intro h; simp [need] at h
  | succ fuel ih =>
    intro s p nn hb
    by_cases hc : p.length > s.avail ∧ s.err = none
    · have B := loopBody_spec s p hc.1 hc.2 hb
      have hb' : (loopBody s p).1.buf.length ≤ (loopBody s p).1.size := by rw [B.frame.size]; exact B.bound
      have I := ih (loopBody s p).1 (p.drop (loopBody s p).2) (nn + (loopBody s p).2) hb'
      have hbw : bwrite (fuel + 1) s p nn =
          bwrite fuel (loopBody s p).1 (p.drop (loopBody s p).2) (nn + (loopBody s p).2) := by
        rw [bwrite, if_pos hc]
      rw [hbw]
      obtain ⟨k, hk1, hk2, hk3, hk4⟩ := I.count
      refine ⟨B.frame.trans I.frame, by rw [← B.frame.size]; exact I.bound, I.err_eq,
        (loopBody s p).2 + k, by rw [hk1]; omega, ?_, ?_, ?_⟩
      · have := B.n_le; simp only [List.length_drop] at hk2; omega
      · rw [hk3, B.content, List.append_assoc, ← List.take_add]
      · intro hn hlt
        apply hk4
        · have := B.need_lt; omega
        · have := B.n_le; simp only [List.length_drop]; omega
    · cases he : s.err with
      | some e =>
        have hbw : bwrite (fuel + 1) s p nn = (s, nn, some e) := by
          rw [bwrite, if_neg hc]; simp only [he]
        rw [hbw]
        exact ⟨Frame.refl s, hb, by simp [he], 0, rfl, Nat.zero_le _, by simp, by simp⟩
      | none =>
        have hbw : bwrite (fuel + 1) s p nn = ({ s with buf := s.buf ++ p }, nn + p.length, none) := by
          rw [bwrite, if_neg hc]; simp only [he]
        rw [hbw]
        have hfit : p.length ≤ s.avail := by
          simp only [he, and_true] at hc; omega
        have : s.avail = s.size - s.buf.length := rfl
        refine ⟨⟨rfl, rfl, rfl, rfl, [], by simp, by simp⟩, ?_, by simp [he], p.length, rfl, Nat.le_refl _, ?_, by simp⟩
        · simp only [List.length_append]; omega
        · simp [content, List.append_assoc]

theorem need_le_fuelFor (s : St) (p : Bytes) : need s p ≤ fuelFor p := by
  unfold need fuelFor; split <;> split <;> omega

/-! ## `BufferedWriteSyncer.Write` -/

structure WriteSpec (s : St) (bs : Bytes) (r : St × Nat × Option EK) : Prop where
  size : r.1.size = s.size
  init : r.1.init = true
  stopped : r.1.stopped = s.stopped
  sscript : r.1.sscript = s.sscript
  grows : ∃ evs, r.1.sink = s.sink ++ evs ∧ ∀ e ∈ evs, e ≠ .sync
  bound : r.1.buf.length ≤ s.size
  err_eq : r.2.2 = r.1.err
  n_le : r.2.1 ≤ bs.length
  content : content r.1 = content s ++ bs.take r.2.1
  short_err : r.2.1 < bs.length → r.2.2 ≠ none

theorem bufioWrite_spec (s : St) (bs : Bytes) (hb : s.buf.length ≤ s.size) :
    Frame s (bufioWrite s bs).1 ∧ (bufioWrite s bs).1.buf.length ≤ s.size ∧
    (bufioWrite s bs).2.2 = (bufioWrite s bs).1.err ∧ (bufioWrite s bs).2.1 ≤ bs.length ∧
    content (bufioWrite s bs).1 = content s ++ bs.take (bufioWrite s bs).2.1 ∧
    ((bufioWrite s bs).2.1 < bs.length → (bufioWrite s bs).2.2 ≠ none) := by
  have S := bwrite_spec (fuelFor bs) s bs 0 hb
  obtain ⟨k, h1, h2, h3, h4⟩ := S.count
  unfold bufioWrite
  simp only [Nat.zero_add] at h1
  refine ⟨S.frame, S.bound, S.err_eq, by omega, by rw [h1]; exact h3, ?_⟩
  intro hlt
  exact h4 (need_le_fuelFor s bs) (by omega)

theorem write_spec (s : St) (bs : Bytes) (hb : s.buf.length ≤ s.size) : WriteSpec s bs (write s bs) := by
  unfold write
  generalize hs0 : ({ s with init := true } : St) = s0
  have hb0 : s0.buf.length ≤ s0.size := by rw [← hs0]; exact hb
  have f0 : content s0 = content s := by rw [← hs0]; rfl
  have z1 : s0.size = s.size := by rw [← hs0]
  have z2 : s0.init = true := by rw [← hs0]
  have z3 : s0.stopped = s.stopped := by rw [← hs0]
  have z4 : s0.sscript = s.sscript := by rw [← hs0]
  have z5 : s0.sink = s.sink := by rw [← hs0]
  have z6 : s0.buf = s.buf := by rw [← hs0]
  by_cases hc : bs.length > s0.avail ∧ s0.buf.length > 0
  · rw [if_pos hc]
    have F := flush_spec s0
    cases hfl : flush s0 with
    | mk s1 oe =>
      rw [hfl] at F
      obtain ⟨evs, hg, hn⟩ := F.frame.grows
      cases oe with
      | some e =>
        refine ⟨F.frame.size.trans z1, F.frame.init.trans z2, F.frame.stopped.trans z3, F.frame.sscript.trans z4,
          ⟨evs, by rw [← z5]; exact hg, hn⟩, ?_, F.err_eq, Nat.zero_le _, ?_, by simp⟩
        · have := F.shrink; rw [z6] at this; exact Nat.le_trans this hb
        · have := F.content; simp [this, f0]
      | none =>
        have hb1 : s1.buf.length ≤ s1.size := by
          have h1 := F.frame.size; have h2 := F.shrink
          simp only at h1 h2; rw [h1]; exact Nat.le_trans h2 hb0
        obtain ⟨fr, b, ee, nl, ct, se⟩ := bufioWrite_spec s1 bs hb1
        have fr' := F.frame.trans fr
        obtain ⟨evs', hg', hn'⟩ := fr'.grows
        refine ⟨fr'.size.trans z1, fr'.init.trans z2, fr'.stopped.trans z3, fr'.sscript.trans z4,
          ⟨evs', by rw [← z5]; exact hg', hn'⟩, ?_, ee, nl, ?_, se⟩
        · have := F.frame.size; simp only at this; rw [← z1, ← this]; exact b
        · have := F.content; simp only at this; rw [ct, this, f0]
  · rw [if_neg hc]
    obtain ⟨fr, b, ee, nl, ct, se⟩ := bufioWrite_spec s0 bs hb0
    obtain ⟨evs, hg, hn⟩ := fr.grows
    exact ⟨fr.size.trans z1, fr.init.trans z2, fr.stopped.trans z3, fr.sscript.trans z4,
      ⟨evs, by rw [← z5]; exact hg, hn⟩, by rw [← z1]; exact b, ee, nl, by rw [ct, f0], se⟩

/-! ## Sync, tick, Stop -/

structure SyncSpec (s : St) (r : St × Option EK × Bool) : Prop where
  size : r.1.size = s.size
  init : r.1.init = s.init
  stopped : r.1.stopped = s.stopped
  shrink : r.1.buf.length ≤ s.buf.length
  content : content r.1 = content s
  synced : ∃ evs, r.1.sink = s.sink ++ evs ++ [.sync] ∧ ∀ e ∈ evs, e ≠ .sync
  flushed : (s.init = false → s.buf = []) → r.2.1 = none → r.1.buf = []
  err_keep : s.init = false → r.1.err = s.err ∧ r.1.buf = s.buf
  err_eq : s.init = true → r.2.1 = r.1.err

theorem sync_spec (s : St) : SyncSpec s (sync s) := by
  unfold sync wsSync
  cases hi : s.init with
  | false =>
    simp only [Bool.false_eq_true, if_false]
    exact ⟨rfl, rfl, rfl, Nat.le_refl _, by simp [content], ⟨[], by simp, by simp⟩, fun h _ => h hi, fun _ => ⟨rfl, rfl⟩,
      fun h => (by rw [hi] at h; cases h)⟩
  | true =>
    simp only [if_true]
    have F := flush_spec s
    obtain ⟨evs, hg, hn⟩ := F.frame.grows
    refine ⟨F.frame.size, F.frame.init, F.frame.stopped, F.shrink, ?_, ⟨evs, by simp [hg], hn⟩,
      fun _ h => F.ok_empty h, fun h => (by rw [hi] at h; cases h), fun _ => F.err_eq⟩
    have := F.content
    simp only [Bws.content, taken_append, taken_sync, List.append_nil] at this ⊢
    exact this

/-! ## well-formed states: everything reachable from `mk` -/

structure Wf (s : St) : Prop where
  bound : s.buf.length ≤ s.size
  fresh : s.init = false → s.buf = [] ∧ s.stopped = false ∧ s.err = none

theorem wf_mk (size : Int) (ws : List WOut) (ss : List Bool) : Wf (mk size ws ss) :=
  ⟨Nat.zero_le _, fun _ => ⟨rfl, rfl, rfl⟩⟩

theorem wf_write (s : St) (bs : Bytes) (h : Wf s) : Wf (write s bs).1 := by
  have W := write_spec s bs h.bound
  exact ⟨by rw [W.size]; exact W.bound, fun hi => by rw [W.init] at hi; cases hi⟩

theorem wf_sync (s : St) (h : Wf s) : Wf (sync s).1 := by
  have S := sync_spec s
  refine ⟨by rw [S.size]; exact Nat.le_trans S.shrink h.bound, fun hi => ?_⟩
  rw [S.init] at hi
  obtain ⟨h1, h2, h3⟩ := h.fresh hi
  obtain ⟨k1, k2⟩ := S.err_keep hi
  exact ⟨by rw [k2]; exact h1, by rw [S.stopped]; exact h2, by rw [k1]; exact h3⟩

theorem wf_tick (s : St) (h : Wf s) : Wf (tick s) := by
  unfold tick; split
  · exact wf_sync s h
  · exact h

theorem wf_stop (s : St) (h : Wf s) : Wf (stop s).1 := by
  unfold stop; split
  · exact h
  · rename_i hc
    have hi : s.init = true := by
      cases hs : s.init <;> simp [hs] at hc ⊢
    apply wf_sync
    exact ⟨h.bound, fun hi' => by rw [hi] at hi'; cases hi'⟩

theorem wf_step (s : St) (o : Op) (h : Wf s) : Wf (step s o).1 := by
  cases o with
  | write bs => exact wf_write s bs h
  | sync => exact wf_sync s h
  | tick => exact wf_tick s h
  | stop => exact wf_stop s h

theorem wf_run (ops : List Op) : ∀ s, Wf s → Wf (run s ops) := by
  induction ops with
  | nil => intro s h; exact h
  | cons o os ih => intro s h; exact ih _ (wf_step s o h)

theorem tick_content (s : St) : content (tick s) = content s := by
  unfold tick; split
  · exact (sync_spec s).content
  · rfl

theorem stop_content (s : St) : content (stop s).1 = content s := by
  unfold stop; split
  · rfl
  · exact (sync_spec _).content

/-- the accounting identity behind `stream_inv`, from any well-formed state -/
theorem content_run (ops : List Op) : ∀ s, Wf s → content (run s ops) = content s ++ accepted s ops := by
  induction ops with
  | nil => intro s _; simp [run, accepted]
  | cons o os ih =>
    intro s h
    cases o with
    | write bs =>
      have W := write_spec s bs h.bound
      simp only [run, step, accepted]
      rw [ih _ (wf_write s bs h), W.content, List.append_assoc]
    | sync =>
      simp only [run, step, accepted]
      rw [ih _ (wf_sync s h), (sync_spec s).content]
    | tick =>
      simp only [run, step, accepted]
      rw [ih _ (wf_tick s h), tick_content]
    | stop =>
      simp only [run, step, accepted]
      rw [ih _ (wf_stop s h), stop_content]

/-! ## the reliable sink: closed forms -/

/-- every `WS.Write` from here on takes everything and returns nil, and no error has stuck so far -/
def Reliable (s : St) : Prop := s.wscript = [] ∧ s.err = none

theorem sinkWrite_reliable (s : St) (p : Bytes) (h : s.wscript = []) :
    (sinkWrite s p).2.1 = p.length ∧ (sinkWrite s p).2.2 = false ∧ (sinkWrite s p).1.wscript = [] ∧
    (sinkWrite s p).1.sink = s.sink ++ [.write p p.length] := by
  cases p <;> simp [sinkWrite, h]

/-- what a flush appends to the sink's event list -/
def flushEv (buf : Bytes) : List Ev := if buf = [] then [] else [.write buf buf.length]

theorem flush_reliable (s : St) (h : Reliable s) :
    (flush s).2 = none ∧ Reliable (flush s).1 ∧ (flush s).1.buf = [] ∧ (flush s).1.sink = s.sink ++ flushEv s.buf := by
  rw [flush_eq, h.2]
  cases hb : s.buf.isEmpty with
  | true =>
    have hnil : s.buf = [] := by simpa using hb
    simp [h, hnil, flushEv]
  | false =>
    have hne : s.buf ≠ [] := by simpa using hb
    obtain ⟨h1, h2, h3, h4⟩ := sinkWrite_reliable s s.buf h.1
    simp only [Bool.false_eq_true, if_false, h1, h2, flushErr, Nat.lt_irrefl]
    simp [Reliable, h3, h4, flushEv, hne, h.2]

/-- `bufio.Writer.Write` on a reliable sink when the write fits or the buffer is empty (which is all
    `BufferedWriteSyncer.Write` ever asks of it) -/
theorem bwrite_reliable (fuel : Nat) (s : St) (p : Bytes) (nn : Nat) (h : Reliable s) (hpre : p.length ≤ s.avail ∨ s.buf = []) :
    (bwrite (fuel + 2) s p nn).2.1 = nn + p.length ∧ (bwrite (fuel + 2) s p nn).2.2 = none ∧
    Reliable (bwrite (fuel + 2) s p nn).1 ∧
    ((p.length ≤ s.avail ∧ (bwrite (fuel + 2) s p nn).1.sink = s.sink ∧ (bwrite (fuel + 2) s p nn).1.buf = s.buf ++ p) ∨
     (p.length > s.avail ∧ (bwrite (fuel + 2) s p nn).1.sink = s.sink ++ [.write p p.length] ∧
      (bwrite (fuel + 2) s p nn).1.buf = [])) := by
  by_cases hfit : p.length ≤ s.avail
  · have hc : ¬(p.length > s.avail ∧ s.err = none) := by omega
    rw [bwrite, if_neg hc]
    simp only [h.2]
    simp [Reliable, h.1, hfit]
  · have hnil : s.buf = [] := by rcases hpre with h' | h'; exact absurd h' hfit; exact h'
    have hc : p.length > s.avail ∧ s.err = none := ⟨by omega, h.2⟩
    obtain ⟨h1, h2, h3, h4⟩ := sinkWrite_reliable s p h.1
    rw [bwrite, if_pos hc]
    have hbe : s.buf.isEmpty = true := by simp [hnil]
    have hlb1 : (loopBody s p).2 = p.length := by simp only [loopBody, hbe, if_true, h1]
    have hlb2 : (loopBody s p).1.err = none := by simp [loopBody, hbe, h2]
    have hlb3 : (loopBody s p).1.buf = [] := by simp [loopBody, hnil]
    have hlb4 : (loopBody s p).1.sink = s.sink ++ [.write p p.length] := by simp [loopBody, hbe, h4]
    have hlb5 : (loopBody s p).1.wscript = [] := by simp [loopBody, hbe, h3]
    rw [hlb1, List.drop_length]
    have hc2 : ¬(([] : Bytes).length > (loopBody s p).1.avail ∧ (loopBody s p).1.err = none) := by simp
    rw [bwrite, if_neg hc2]
    simp only [hlb2, List.append_nil, List.length_nil, Nat.add_zero]
    have hgt : p.length > s.avail := by omega
    simp [Reliable, hlb5, hlb4, hlb3, hgt]

/-- `BufferedWriteSyncer.Write` on a reliable sink: the three cases (fits; flush then buffer; flush then direct) -/
structure RelWrite (s : St) (bs : Bytes) (r : St × Nat × Option EK) : Prop where
  n : r.2.1 = bs.length
  err : r.2.2 = none
  rel : Reliable r.1
  cases : (bs.length ≤ s.avail ∧ r.1.sink = s.sink ∧ r.1.buf = s.buf ++ bs) ∨
    (bs.length > s.avail ∧ bs.length ≤ s.size ∧ r.1.sink = s.sink ++ flushEv s.buf ∧ r.1.buf = bs) ∨
    (bs.length > s.size ∧ r.1.sink = s.sink ++ flushEv s.buf ++ [.write bs bs.length] ∧ r.1.buf = [])

theorem fuelFor_eq (p : Bytes) : fuelFor p = (p.length + 1) + 2 := rfl

theorem write_reliable (s : St) (bs : Bytes) (h : Reliable s) : RelWrite s bs (write s bs) := by
  unfold write
  generalize hs0 : ({ s with init := true } : St) = s0
  have r0 : Reliable s0 := by rw [← hs0]; exact h
  have z1 : s0.size = s.size := by rw [← hs0]
  have z5 : s0.sink = s.sink := by rw [← hs0]
  have z6 : s0.buf = s.buf := by rw [← hs0]
  have zav : s0.avail = s.avail := by rw [← hs0]; rfl
  have hav : s.avail = s.size - s.buf.length := rfl
  by_cases hc : bs.length > s0.avail ∧ s0.buf.length > 0
  · rw [if_pos hc]
    obtain ⟨f1, f2, f3, f4⟩ := flush_reliable s0 r0
    cases hfl : flush s0 with
    | mk s1 oe =>
      rw [hfl] at f1 f2 f3 f4
      simp only at f1 f2 f3 f4
      subst f1
      simp only
      have hs1 : s1.size = s.size := by
        have := (flush_spec s0).frame.size; rw [hfl] at this; exact this.trans z1
      have hav1 : s1.avail = s.size := by simp [St.avail, f3, hs1]
      rw [bufioWrite, fuelFor_eq]
      obtain ⟨b1, b2, b3, b4⟩ := bwrite_reliable (bs.length + 1) s1 bs 0 f2 (Or.inr f3)
      refine ⟨by rw [b1]; omega, b2, b3, ?_⟩
      rcases b4 with ⟨c1, c2, c3⟩ | ⟨c1, c2, c3⟩
      · right; left
        exact ⟨by omega, by omega, by rw [c2, f4, z5, z6], by rw [c3, f3]; rfl⟩
      · right; right
        exact ⟨by omega, by rw [c2, f4, z5, z6], c3⟩
  · rw [if_neg hc]
    rw [bufioWrite, fuelFor_eq]
    have hpre : bs.length ≤ s0.avail ∨ s0.buf = [] := by
      by_cases h1 : bs.length ≤ s0.avail
      · exact Or.inl h1
      · right; apply List.length_eq_zero_iff.mp; omega
    obtain ⟨b1, b2, b3, b4⟩ := bwrite_reliable (bs.length + 1) s0 bs 0 r0 hpre
    refine ⟨by rw [b1]; omega, b2, b3, ?_⟩
    rcases b4 with ⟨c1, c2, c3⟩ | ⟨c1, c2, c3⟩
    · left; exact ⟨by omega, by rw [c2, z5], by rw [c3, z6]⟩
    · have hnil : s.buf = [] := by
        rcases hpre with h1 | h1
        · omega
        · rw [← z6]; exact h1
      have : s.avail = s.size := by simp [St.avail, hnil]
      right; right
      exact ⟨by omega, by rw [c2, z5]; simp [flushEv, hnil], c3⟩

/-- `BufferedWriteSyncer.Sync` on a reliable sink -/
theorem sync_reliable (s : St) (h : Reliable s) (hw : s.init = false → s.buf = []) :
    (sync s).2.1 = none ∧ Reliable (sync s).1 ∧ (sync s).1.buf = [] ∧ (sync s).1.sink = s.sink ++ flushEv s.buf ++ [.sync] := by
  unfold sync wsSync
  cases hi : s.init with
  | false =>
    have := hw hi
    simp only [Bool.false_eq_true, if_false]
    refine ⟨by trivial, h, this, ?_⟩
    simp [flushEv, this]
  | true =>
    obtain ⟨f1, f2, f3, f4⟩ := flush_reliable s h
    simp only [if_true]
    exact ⟨f1, f2, f3, by rw [f4]⟩

/-! ## whole writes -/

/-- the caller writes `ws` are cut into contiguous groups: every sink write is the concatenation of one group and the
    buffer holds the concatenation of the writes after the last group -/
def Aligned (ws : List Bytes) (sink : List Ev) (buf : Bytes) : Prop :=
  ∃ (groups : List (List Bytes)) (pending : List Bytes),
    ws = groups.flatten ++ pending ∧ sinkWrites sink = groups.map List.flatten ∧ buf = pending.flatten

/-- every sink write so far took all it was handed -/
def Full (sink : List Ev) : Prop := ∀ e ∈ sink, e = .sync ∨ ∃ p, e = .write p p.length

theorem aligned_buffer {ws sink buf} (bs : Bytes) (h : Aligned ws sink buf) : Aligned (ws ++ [bs]) sink (buf ++ bs) := by
  obtain ⟨g, p, h1, h2, h3⟩ := h
  exact ⟨g, p ++ [bs], by rw [h1, List.append_assoc], h2, by simp [h3]⟩

theorem aligned_flush {ws sink buf} (h : Aligned ws sink buf) : Aligned ws (sink ++ flushEv buf) [] := by
  obtain ⟨g, p, h1, h2, h3⟩ := h
  unfold flushEv
  by_cases hb : buf = []
  · rw [if_pos hb]
    exact ⟨g, p, h1, by simpa using h2, by rw [← h3, hb]⟩
  · rw [if_neg hb]
    exact ⟨g ++ [p], [], by simp [h1], by simp [h2, h3], rfl⟩

theorem aligned_direct {ws sink} (bs : Bytes) (k : Nat) (h : Aligned ws sink []) :
    Aligned (ws ++ [bs]) (sink ++ [.write bs k]) [] := by
  obtain ⟨g, p, h1, h2, h3⟩ := h
  exact ⟨g ++ [p ++ [bs]], [], by simp [h1], by simp [h2, ← h3], rfl⟩

theorem aligned_sync {ws sink buf} (h : Aligned ws sink buf) : Aligned ws (sink ++ [.sync]) buf := by
  obtain ⟨g, p, h1, h2, h3⟩ := h
  exact ⟨g, p, h1, by simpa using h2, h3⟩

theorem full_append {a b : List Ev} (ha : Full a) (hb : Full b) : Full (a ++ b) := by
  intro e he
  rcases List.mem_append.mp he with h | h
  · exact ha e h
  · exact hb e h

theorem full_flushEv (buf : Bytes) : Full (flushEv buf) := by
  unfold flushEv; split
  · intro e he; cases he
  · intro e he; simp at he; exact Or.inr ⟨buf, he⟩

theorem full_taken : ∀ {sink : List Ev}, Full sink → taken sink = (sinkWrites sink).flatten
  | [], _ => rfl
  | e :: r, h => by
    have hr : Full r := fun x hx => h x (List.mem_cons_of_mem _ hx)
    rcases h e (by simp) with he | ⟨p, he⟩
    · subst he; simp [taken, sinkWrites, full_taken hr]
    · subst he; simp [taken, sinkWrites, full_taken hr]

/-- the invariant of every run over a reliable sink; `ws` = the caller writes so far -/
structure RInv (ws : List Bytes) (s : St) : Prop where
  wf : Wf s
  rel : Reliable s
  aligned : Aligned ws s.sink s.buf
  full : Full s.sink

theorem rinv_mk (size : Int) (ss : List Bool) : RInv [] (mk size [] ss) :=
  ⟨wf_mk _ _ _, ⟨rfl, rfl⟩, ⟨[], [], rfl, rfl, rfl⟩, fun _ h => by cases h⟩

theorem rinv_write {ws s} (bs : Bytes) (h : RInv ws s) : RInv (ws ++ [bs]) (write s bs).1 := by
  have R := write_reliable s bs h.rel
  refine ⟨wf_write s bs h.wf, R.rel, ?_, ?_⟩
  · rcases R.cases with ⟨_, c2, c3⟩ | ⟨_, _, c2, c3⟩ | ⟨_, c2, c3⟩
    · rw [c2, c3]; exact aligned_buffer bs h.aligned
    · rw [c2, c3]
      have := aligned_buffer bs (aligned_flush h.aligned)
      simpa using this
    · rw [c2, c3]; exact aligned_direct bs _ (aligned_flush h.aligned)
  · rcases R.cases with ⟨_, c2, _⟩ | ⟨_, _, c2, _⟩ | ⟨_, c2, _⟩
    · rw [c2]; exact h.full
    · rw [c2]; exact full_append h.full (full_flushEv _)
    · rw [c2]
      refine full_append (full_append h.full (full_flushEv _)) ?_
      intro e he; simp at he; exact Or.inr ⟨bs, he⟩

theorem rinv_sync {ws s} (h : RInv ws s) : RInv ws (sync s).1 := by
  obtain ⟨_, r2, r3, r4⟩ := sync_reliable s h.rel (fun hi => (h.wf.fresh hi).1)
  refine ⟨wf_sync s h.wf, r2, ?_, ?_⟩
  · rw [r3, r4]; exact aligned_sync (aligned_flush h.aligned)
  · rw [r4]
    refine full_append (full_append h.full (full_flushEv _)) ?_
    intro e he; simp at he; exact Or.inl he

theorem rinv_tick {ws s} (h : RInv ws s) : RInv ws (tick s) := by
  unfold tick; split
  · exact rinv_sync h
  · exact h

theorem rinv_stop {ws s} (h : RInv ws s) : RInv ws (stop s).1 := by
  unfold stop; split
  · exact h
  · rename_i hc
    have hi : s.init = true := by
      cases hs : s.init <;> simp [hs] at hc ⊢
    apply rinv_sync
    exact ⟨⟨h.wf.bound, fun hi' => by rw [hi] at hi'; cases hi'⟩, h.rel, h.aligned, h.full⟩

theorem rinv_step {ws s} (o : Op) (h : RInv ws s) : RInv (ws ++ writesOf [o]) (step s o).1 := by
  cases o with
  | write bs => exact rinv_write bs h
  | sync => simpa [writesOf, step] using rinv_sync h
  | tick => simpa [writesOf, step] using rinv_tick h
  | stop => simpa [writesOf, step] using rinv_stop h

theorem writesOf_cons (o : Op) (os : List Op) : writesOf (o :: os) = writesOf [o] ++ writesOf os := by
  cases o <;> simp [writesOf]

theorem writesOf_append (a b : List Op) : writesOf (a ++ b) = writesOf a ++ writesOf b := by
  induction a with
  | nil => rfl
  | cons o os ih => rw [List.cons_append, writesOf_cons, ih, writesOf_cons o os, List.append_assoc]

theorem rinv_run (ops : List Op) : ∀ ws s, RInv ws s → RInv (ws ++ writesOf ops) (run s ops) := by
  induction ops with
  | nil => intro ws s h; simpa [writesOf, run] using h
  | cons o os ih =>
    intro ws s h
    have := ih _ _ (rinv_step o h)
    rw [writesOf_cons, ← List.append_assoc]
    exact this

/-- on a reliable sink every write is accepted in full -/
theorem accepted_reliable (ops : List Op) : ∀ ws s, RInv ws s → accepted s ops = (writesOf ops).flatten := by
  induction ops with
  | nil => intro _ _ _; rfl
  | cons o os ih =>
    intro ws s h
    cases o with
    | write bs =>
      have R := write_reliable s bs h.rel
      simp only [accepted, writesOf, List.flatten_cons]
      rw [ih _ _ (rinv_write bs h), R.n, List.take_length]
    | sync => simp only [accepted, writesOf]; exact ih _ _ (rinv_sync h)
    | tick => simp only [accepted, writesOf]; exact ih _ _ (rinv_tick h)
    | stop => simp only [accepted, writesOf]; exact ih _ _ (rinv_stop h)

/-- what a crash can leave behind: the bytes of any prefix of the sink's event list are whole caller writes -/
theorem aligned_prefix {ws : List Bytes} {sink : List Ev} {buf : Bytes} (ha : Aligned ws sink buf) (hf : Full sink)
    (pre : List Ev) (hp : pre <+: sink) : ∃ k, taken pre = (ws.take k).flatten := by
  obtain ⟨g, p, h1, h2, _⟩ := ha
  obtain ⟨rest, hr⟩ := hp
  have hfp : Full pre := fun e he => hf e (by rw [← hr]; exact List.mem_append_left _ he)
  have hsw : sinkWrites pre ++ sinkWrites rest = g.map List.flatten := by rw [← h2, ← hr, sinkWrites_append]
  have hpre : sinkWrites pre = (g.take (sinkWrites pre).length).map List.flatten := by
    have : sinkWrites pre = (sinkWrites pre ++ sinkWrites rest).take (sinkWrites pre).length := by simp
    rw [hsw, ← List.map_take] at this
    exact this
  obtain ⟨j, hj⟩ : ∃ j, sinkWrites pre = (g.take j).map List.flatten := ⟨_, hpre⟩
  refine ⟨(g.take j).flatten.length, ?_⟩
  have hg : g.flatten = (g.take j).flatten ++ (g.drop j).flatten := by
    rw [← List.flatten_append, List.take_append_drop]
  rw [full_taken hfp, hj, h1, hg, List.append_assoc, List.take_left' rfl, List.flatten_flatten]

/-! ## more facts used by the property theorems -/

theorem run_append (a b : List Op) : ∀ s, run s (a ++ b) = run (run s a) b := by
  induction a with
  | nil => intro s; rfl
  | cons o os ih => intro s; simp only [List.cons_append, run]; exact ih _

theorem accepted_append (a b : List Op) : ∀ s, accepted s (a ++ b) = accepted s a ++ accepted (run s a) b := by
  induction a with
  | nil => intro s; simp [accepted, run]
  | cons o os ih =>
    intro s
    cases o <;> simp only [List.cons_append, accepted, run, step, ih, List.append_assoc]

theorem step_sink_prefix (s : St) (o : Op) : s.sink <+: (step s o).1.sink := by
  cases o with
  | write bs =>
    by_cases hb : s.buf.length ≤ s.size
    · obtain ⟨evs, h, _⟩ := (write_spec s bs hb).grows
      exact ⟨evs, h.symm⟩
    · -- outside the well-formed states nothing is claimed about the bound, but the sink still only grows
      have key : ∀ (fuel : Nat) (s : St) (p : Bytes) (nn : Nat), s.sink <+: (bwrite fuel s p nn).1.sink := by
        intro fuel
        induction fuel with
        | zero => intro s p nn; exact List.prefix_refl _
        | succ f ih =>
          intro s p nn
          rw [bwrite]
          split
          · refine List.IsPrefix.trans ?_ (ih _ _ _)
            unfold loopBody
            split
            · exact ⟨_, (sinkWrite_sink s p).symm⟩
            · obtain ⟨evs, h, _⟩ := (flush_spec { s with buf := s.buf ++ p.take s.avail }).frame.grows
              exact ⟨evs, h.symm⟩
          · split <;> exact List.prefix_refl _
      simp only [step, write]
      split
      · obtain ⟨evs, h, _⟩ := (flush_spec { s with init := true }).frame.grows
        have hp : s.sink <+: (flush { s with init := true }).1.sink := ⟨evs, h.symm⟩
        cases hfl : flush { s with init := true } with
        | mk s1 oe =>
          rw [hfl] at hp
          cases oe with
          | some e => exact hp
          | none => exact hp.trans (key _ _ _ _)
      · exact key _ { s with init := true } _ _
  | sync =>
    obtain ⟨evs, h, _⟩ := (sync_spec s).synced
    exact ⟨evs ++ [.sync], by simp only [step]; rw [h, List.append_assoc]⟩
  | tick =>
    simp only [step, tick]; split
    · obtain ⟨evs, h, _⟩ := (sync_spec s).synced
      exact ⟨evs ++ [.sync], by rw [h, List.append_assoc]⟩
    · exact List.prefix_refl _
  | stop =>
    simp only [step, stop]; split
    · exact List.prefix_refl _
    · obtain ⟨evs, h, _⟩ := (sync_spec { s with stopped := true }).synced
      exact ⟨evs ++ [.sync], by rw [h, List.append_assoc]⟩

theorem run_sink_prefix (ops : List Op) : ∀ s, s.sink <+: (run s ops).sink := by
  induction ops with
  | nil => intro s; exact List.prefix_refl _
  | cons o os ih => intro s; exact (step_sink_prefix s o).trans (ih _)

theorem taken_prefix {a b : List Ev} (h : a <+: b) : taken a <+: taken b := by
  obtain ⟨r, hr⟩ := h
  exact ⟨taken r, by rw [← hr, taken_append]⟩

/-- once an error has stuck in the `bufio.Writer`, `Write` accepts nothing, touches nothing and reports it -/
theorem write_sticky (s : St) (bs : Bytes) (e : EK) (he : s.err = some e) :
    write s bs = ({ s with init := true }, 0, some e) := by
  unfold write
  have hf : flush { s with init := true } = ({ s with init := true }, some e) := (flush_spec _).sticky e he
  have hb : bufioWrite { s with init := true } bs = ({ s with init := true }, 0, some e) := by
    unfold bufioWrite fuelFor
    rw [bwrite, if_neg (by simp [he])]
    simp only [he]
  simp only [hf, hb, ite_self]

/-- an operation that flushes: `Sync`; a tick or `Stop` while the syncer has not been stopped -/
def FlushOp (s : St) (o : Op) : Prop := o = .sync ∨ ((o = .tick ∨ o = .stop) ∧ s.stopped = false)

/-- after a flushing operation that left no error behind, nothing is held back -/
theorem flushop_empty (s : St) (o : Op) (hw : Wf s) (hf : FlushOp s o) (he : (step s o).1.err = none) :
    (step s o).1.buf = [] := by
  have key : ∀ t : St, Wf t → (sync t).1.err = none → (sync t).1.buf = [] := by
    intro t ht h
    have S := sync_spec t
    cases hi : t.init with
    | false => rw [(S.err_keep hi).2]; exact (ht.fresh hi).1
    | true => exact S.flushed (fun h' => by rw [hi] at h'; cases h') (by rw [S.err_eq hi]; exact h)
  rcases hf with rfl | ⟨rfl | rfl, hs⟩
  · exact key s hw he
  · simp only [step, tick] at he ⊢
    cases hi : s.init with
    | false => simp; exact (hw.fresh hi).1
    | true =>
      simp only [hi, hs, Bool.not_false, Bool.and_self, if_true] at he ⊢
      exact key s hw he
  · simp only [step, stop] at he ⊢
    cases hi : s.init with
    | false => simp; exact (hw.fresh hi).1
    | true =>
      simp only [hi, hs, Bool.not_true, Bool.or_self, Bool.false_eq_true, if_false] at he ⊢
      exact key _ ⟨hw.bound, fun h' => by simp at h'⟩ he

theorem flushop_accepts_nothing (s : St) (o : Op) (hf : FlushOp s o) : accepted s [o] = [] := by
  rcases hf with rfl | ⟨rfl | rfl, _⟩ <;> rfl

theorem flushop_synced (s : St) (o : Op) (hf : FlushOp s o) (hi : s.init = true) :
    (step s o).1.sink.getLast? = some .sync := by
  have key : ∀ t : St, (sync t).1.sink.getLast? = some .sync := by
    intro t
    obtain ⟨evs, h, _⟩ := (sync_spec t).synced
    rw [h]; simp
  rcases hf with rfl | ⟨rfl | rfl, hs⟩
  · exact key s
  · simp only [step, tick, hi, hs, Bool.not_false, Bool.and_self, if_true]; exact key s
  · simp only [step, stop, hi, hs, Bool.not_true, Bool.or_self, Bool.false_eq_true, if_false]; exact key _

theorem stop_twice (s : St) : stop (stop s).1 = ((stop s).1, none, false) := by
  unfold stop
  by_cases hc : (!s.init || s.stopped) = true
  · simp only [hc, if_true]
  · have hi : s.init = true := by cases h : s.init <;> simp [h] at hc ⊢
    simp only [hc]
    have S := sync_spec { s with stopped := true }
    have : (sync { s with stopped := true }).1.stopped = true := S.stopped
    simp [this]

end ZapVerif.Bws
