import ZapVerif.Model.BwsConc
/-! Invariants of the BufferedWriteSyncer thread machine. -/
namespace ZapVerif.BwsConc

@[simp] theorem upd_same (f : Nat → CPc) (i : Nat) (v : CPc) : upd f i v i = v := by simp [upd]
theorem upd_other (f : Nat → CPc) {i j : Nat} (v : CPc) (h : j ≠ i) : upd f i v j = f j := by simp [upd, h]

@[simp] theorem inCS_idle : inCS .idle = false := rfl
@[simp] theorem shutting_idle : shutting .idle = false := rfl
@[simp] theorem inCS_wantW : inCS .wantW = false := rfl
@[simp] theorem shutting_wantW : shutting .wantW = false := rfl
@[simp] theorem inCS_inW : inCS .inW = true := rfl
@[simp] theorem shutting_inW : shutting .inW = false := rfl
@[simp] theorem inCS_wantS : inCS .wantS = false := rfl
@[simp] theorem shutting_wantS : shutting .wantS = false := rfl
@[simp] theorem inCS_inS : inCS .inS = true := rfl
@[simp] theorem shutting_inS : shutting .inS = false := rfl
@[simp] theorem inCS_wantT : inCS .wantT = false := rfl
@[simp] theorem shutting_wantT : shutting .wantT = false := rfl
@[simp] theorem inCS_inT : inCS .inT = true := rfl
@[simp] theorem shutting_inT : shutting .inT = false := rfl
@[simp] theorem inCS_waitFlushed : inCS .waitFlushed = false := rfl
@[simp] theorem shutting_waitFlushed : shutting .waitFlushed = false := rfl
@[simp] theorem inCS_waitDone : inCS .waitDone = false := rfl
@[simp] theorem shutting_waitDone : shutting .waitDone = true := rfl
@[simp] theorem inCS_inTwait : inCS .inTwait = true := rfl
@[simp] theorem shutting_inTwait : shutting .inTwait = true := rfl
@[simp] theorem inCS_wantF : inCS .wantF = false := rfl
@[simp] theorem shutting_wantF : shutting .wantF = true := rfl
@[simp] theorem inCS_inF : inCS .inF = true := rfl
@[simp] theorem shutting_inF : shutting .inF = true := rfl
@[simp] theorem inCS_closeF : inCS .closeF = false := rfl
@[simp] theorem shutting_closeF : shutting .closeF = true := rfl
@[simp] theorem inCS_retT : inCS .retT = false := rfl
@[simp] theorem shutting_retT : shutting .retT = false := rfl

/-! ### how a change of one client's pc acts on the quantified clauses -/

theorem forall_upd {P : Nat → CPc → Prop} {f : Nat → CPc} {i : Nat} {v : CPc}
    (h : ∀ k, P k (f k)) (hv : P i v) : ∀ k, P k (upd f i v k) := by
  intro k
  by_cases hk : k = i
  · subst hk; simpa using hv
  · rw [upd_other f v hk]; exact h k

theorem exists_upd {Q : CPc → Prop} {f : Nat → CPc} {i : Nat} {v : CPc}
    (h : ∃ j, Q (f j)) (hv : Q (f i) → Q v) : ∃ j, Q (upd f i v j) := by
  obtain ⟨j, hj⟩ := h
  by_cases hk : j = i
  · subst hk; exact ⟨j, by simpa using hv hj⟩
  · exact ⟨j, by rw [upd_other f v hk]; exact hj⟩

theorem exists_self {Q : CPc → Prop} {f : Nat → CPc} {i : Nat} {v : CPc} (hv : Q v) : ∃ j, Q (upd f i v j) :=
  ⟨i, by simpa using hv⟩

/-- a lock whose holder is recorded as `c k`: acquiring -/
theorem lock_acq {α : Type} {c : Nat → α} (hinj : ∀ a b, c a = c b → a = b) {m free : α} (hfr : ∀ k, free ≠ c k)
    {inL : CPc → Bool} {f : Nat → CPc} {i : Nat} {v : CPc}
    (h1 : ∀ k, m = c k ↔ inL (f k) = true) (hfree : m = free) (hv : inL v = true) :
    ∀ k, c i = c k ↔ inL (upd f i v k) = true := by
  intro k
  by_cases hk : k = i
  · subst hk; simp [hv]
  · rw [upd_other f v hk]
    constructor
    · intro h; exact absurd (hinj _ _ h).symm hk
    · intro h; have := (h1 k).2 h; rw [hfree] at this; exact absurd this (hfr k)

/-- releasing -/
theorem lock_rel {α : Type} {c : Nat → α} (hinj : ∀ a b, c a = c b → a = b) {m free : α} (hfr : ∀ k, free ≠ c k)
    {inL : CPc → Bool} {f : Nat → CPc} {i : Nat} {v : CPc}
    (h1 : ∀ k, m = c k ↔ inL (f k) = true) (hin : inL (f i) = true) (hv : inL v = false) :
    ∀ k, free = c k ↔ inL (upd f i v k) = true := by
  intro k
  by_cases hk : k = i
  · subst hk; simp [hv]; exact hfr k
  · rw [upd_other f v hk]
    constructor
    · intro h; exact absurd h (hfr k)
    · intro h
      have a := (h1 k).2 h
      have b := (h1 i).2 hin
      rw [a] at b
      exact absurd (hinj _ _ b) hk

/-- a step that neither takes nor gives back the lock -/
theorem lock_keep {α : Type} {c : Nat → α} {m : α} {inL : CPc → Bool} {f : Nat → CPc} {i : Nat} {v : CPc}
    (h1 : ∀ k, m = c k ↔ inL (f k) = true) (hv : inL v = inL (f i)) :
    ∀ k, m = c k ↔ inL (upd f i v k) = true := by
  intro k
  by_cases hk : k = i
  · subst hk; simp [hv]; exact h1 k
  · rw [upd_other f v hk]; exact h1 k

theorem client_inj : ∀ a b, Holder.client a = Holder.client b → a = b := fun _ _ h => by injection h
theorem free_ne_client : ∀ k, Holder.free ≠ Holder.client k := fun _ h => by cases h

/-- at most one client satisfies `S`: preserved when the moved client satisfied it before, or nobody did -/
theorem unique_upd {S : CPc → Bool} {f : Nat → CPc} {i : Nat} {v : CPc}
    (hu : ∀ a b, S (f a) = true → S (f b) = true → a = b)
    (hv : S v = true → S (f i) = true ∨ ∀ k, S (f k) = false) :
    ∀ a b, S (upd f i v a) = true → S (upd f i v b) = true → a = b := by
  have key : ∀ k, k ≠ i → S (f k) = true → S v = true → False := by
    intro k hk hfk hsv
    rcases hv hsv with h | h
    · exact hk (hu k i hfk h)
    · rw [h k] at hfk; cases hfk
  intro a b ha hb
  by_cases hai : a = i <;> by_cases hbi : b = i
  · rw [hai, hbi]
  · subst hai; rw [upd_other f v hbi] at hb; simp only [upd_same] at ha; exact absurd ha (fun h => key b hbi hb h)
  · subst hbi; rw [upd_other f v hai] at ha; simp only [upd_same] at hb; exact absurd hb (fun h => key a hai ha h)
  · rw [upd_other f v hai] at ha; rw [upd_other f v hbi] at hb; exact hu a b ha hb

/-- `pc` is one of the places of the shutting-down `Stop` before its final flush has completed -/
def W (pc : CPc) : Prop := pc = .waitDone ∨ pc = .wantF ∨ pc = .inF

/-- the places whose occupant knows the syncer is stopped -/
def R (pc : CPc) : Prop := shutting pc = true ∨ pc = .waitFlushed

/-- the invariant of the repaired protocol (`lockedWait = false`; either value of `waitFlushed`) -/
structure Inv (cfg : Cfg) (s : St) : Prop where
  mu_cl : ∀ i, s.mu = .client i ↔ inCS (s.cl i) = true
  mu_loop : s.mu = .loop ↔ s.loop = .inS
  no_bug : ∀ i, s.cl i ≠ .inTwait
  loop_init : s.loop = .none_ ↔ s.init = false
  stopped_init : s.stopped = true → s.init = true
  closed_eq : s.stopClosed = s.stopped
  no_panic : s.panicked = false
  waiting : ∀ i, R (s.cl i) → s.stopped = true
  unique : ∀ i j, shutting (s.cl i) = true → shutting (s.cl j) = true → i = j
  ends : s.stopped = true → s.loop = .finished ∨ ∃ j, s.cl j = .waitDone
  flush : s.stopped = true → s.accAtStop ≤ s.flushed ∨ ∃ j, W (s.cl j)
  fclosed : s.flushedClosed = true → s.stopped = true ∧ ∀ k, shutting (s.cl k) = false
  pending : s.stopped = true → s.flushedClosed = true ∨ ∃ j, shutting (s.cl j) = true
  acc_le : s.accAtStop ≤ s.acc
  bound : ∀ i, cfg.n ≤ i → s.cl i = .idle

theorem inv_init (cfg : Cfg) : Inv cfg init := by
  refine ⟨?_, ?_, ?_, ?_, ?_, ?_, ?_, ?_, ?_, ?_, ?_, ?_, ?_, ?_, ?_⟩ <;> simp [init, W, R]

theorem waiting_upd {R : CPc → Prop} {f : Nat → CPc} {i : Nat} {v : CPc} {st st' : Bool}
    (h8 : ∀ k, R (f k) → st = true) (hmono : st = true → st' = true) (hv : R v → st' = true) :
    ∀ k, R (upd f i v k) → st' = true := by
  intro k
  by_cases hk : k = i
  · subst hk; simpa using hv
  · rw [upd_other f v hk]; exact fun h => hmono (h8 k h)

theorem inv_cstep (cfg : Cfg) (hc : cfg.lockedWait = false) (s s' : St) (i : Nat) (hI : Inv cfg s)
    (h : cstep cfg s i = some s') : Inv cfg s' := by
  obtain ⟨h1, h2, h3, h4, h5, h6, h7, h8, hU, hE, hF, hC, hP, h9, h10⟩ := hI
  have hloop : inCS (s.cl i) = true → s.loop ≠ .inS := by
    intro hin hl
    have a := (h1 i).2 hin
    have b := h2.2 hl
    rw [a] at b; cases b
  unfold cstep at h
  split at h
  all_goals (try split at h)
  all_goals (try split at h)
  all_goals (try split at h)
  all_goals (first | (cases h; done) | skip)
  all_goals (injection h with h; subst h)
  all_goals (first | (exfalso; rename_i hlw; rw [hc] at hlw; cases hlw; done) | skip)
  all_goals exact ⟨
    by first
      | (apply lock_acq client_inj free_ne_client h1 <;> (first | assumption | (simp [*]; done)))
      | (apply lock_rel client_inj free_ne_client h1 <;> (first | assumption | (simp [*]; done)))
      | (apply lock_keep h1; simp [*]; done)
      | (apply lock_rel client_inj free_ne_client h1 <;> (first | assumption | (simp [*]; done) | (split <;> simp; done))),
    by clear hU hC hP hE hF; simp_all,
    by apply forall_upd (P := fun _ pc => pc ≠ .inTwait) h3; first | (simp; done) | (split <;> simp; done),
    by clear hU hC hP hE hF; simp_all,
    by clear hU hC hP hE hF; simp_all,
    by clear hU hC hP hE hF; simp_all,
    by
      first
      | (clear hU hC hP hE hF; simp_all; done)
      | (have hfc : s.flushedClosed = false := by
           cases hk : s.flushedClosed with
           | false => rfl
           | true => have := (hC hk).2 i; simp_all
         clear hU hC hP hE hF; simp_all),
    by
      apply waiting_upd (R := R) (st := s.stopped) h8
      · first | exact id | (intro _; rfl)
      · first
        | (intro hv; simp [R] at hv; done)
        | (intro _; first | rfl | (apply h8 i; simp [R, *]; done) | assumption | (clear hU hC hP hE hF; simp_all; done)),
    by
      apply unique_upd hU
      first
      | (intro hv; simp at hv; done)
      | (intro _; left; simp [*]; done)
      | (intro hv; split at hv <;> simp at hv; done)
      | (intro _; right; intro k
         cases hk : shutting (s.cl k) with
         | false => rfl
         | true => (exfalso; have := h8 k (Or.inl hk); clear hU hC hP hE hF; simp_all)),
    by
      clear hU hC hP hF
      intro hs
      first
      | (left; simp_all; done)
      | (right; apply exists_self (Q := fun pc => pc = .waitDone); rfl)
      | (rcases hE (by simp_all) with hl | hx
         · left; simp_all; done
         · right; apply exists_upd (Q := fun pc => pc = .waitDone) hx; simp [*]; done),
    by
      clear hU hC hP hE
      intro hs
      first
      | (left; simp_all; done)
      | (left; simp_all; omega)
      | (right; apply exists_self (Q := W); simp [W]; done)
      | (rcases hF (by simp_all) with hl | hx
         · left; simp_all; done
         · right; apply exists_upd (Q := W) hx; simp [W, *]; done),
    by
      intro hk
      first
      | (-- `flushed` is not closed by this step
         have hk' : s.flushedClosed = true := hk
         obtain ⟨hst, hns⟩ := hC hk'
         have hni := hns i
         clear hU hC hP hE hF
         refine ⟨?_, ?_⟩
         · first | exact hst | rfl
         · apply forall_upd (P := fun _ pc => shutting pc = false) hns
           first | (simp; done) | (split <;> simp; done) | (exfalso; simp_all; done))
      | (-- the deferred close(s.flushed)
         refine ⟨?_, ?_⟩
         · apply h8 i; left; simp [*]; done
         · intro k
           by_cases hki : k = i
           · subst hki; show shutting (upd s.cl k .retT k) = false; simp
           · show shutting (upd s.cl i .retT k) = false
             rw [upd_other _ _ hki]
             cases hsk : shutting (s.cl k) with
             | false => rfl
             | true => exact absurd (hU k i hsk (by simp [*])) hki),
    by
      clear hU hC hE hF
      intro hs
      first
      | (left; simp_all; done)
      | (right; apply exists_self (Q := fun pc => shutting pc = true); rfl)
      | (rcases hP (by simp_all) with hl | hx
         · left; simp_all; done
         · right; apply exists_upd (Q := fun pc => shutting pc = true) hx; first | (simp [*]; done) | (intro hq; simp [*] at hq)),
    by clear hU hC hP hE hF; simp_all <;> omega,
    by
      apply forall_upd (P := fun k pc => cfg.n ≤ k → pc = .idle) h10
      first | (intro _; rfl) | (intro hle; have := h10 i hle; clear hU hC hP hE hF; simp_all; done)⟩

theorem inv_lstep (cfg : Cfg) (s s' : St) (hI : Inv cfg s) (h : lstep s = some s') : Inv cfg s' := by
  obtain ⟨h1, h2, h3, h4, h5, h6, h7, h8, hU, hE, hF, hC, hP, h9, h10⟩ := hI
  have hcl : s.loop = .inS → ∀ k, inCS (s.cl k) = false := by
    intro hl k
    cases hk : inCS (s.cl k) with
    | false => rfl
    | true =>
      have a := (h1 k).2 hk
      have b := h2.2 hl
      rw [a] at b; cases b
  unfold lstep at h
  split at h
  all_goals (try split at h)
  all_goals (first | (cases h; done) | skip)
  all_goals (injection h with h; subst h)
  · -- select, stop closed: return (deferred close(done))
    exact ⟨h1, by simp_all, h3, by simp_all, h5, h6, h7, h8, hU, fun _ => Or.inl rfl, hF, hC, hP, h9, h10⟩
  · -- wantS, mu free: Lock
    refine ⟨?_, by simp_all, h3, by simp_all, h5, h6, h7, h8, hU, ?_, hF, hC, hP, h9, h10⟩
    · intro k
      have := h1 k
      simp_all
    · intro hs; rcases hE hs with hl | hx
      · simp_all
      · exact Or.inr hx
  · -- inS: flush, Unlock, back to the select
    refine ⟨?_, by simp_all, h3, by simp_all, h5, h6, h7, h8, hU, ?_, ?_, hC, hP, h9, h10⟩
    · intro k
      have := hcl (by assumption) k
      simp_all
    · intro hs; rcases hE hs with hl | hx
      · simp_all
      · exact Or.inr hx
    · intro _; left; exact h9

theorem inv_tick (cfg : Cfg) (s : St) (hI : Inv cfg s) (hl : s.loop = .select) : Inv cfg { s with loop := .wantS } := by
  obtain ⟨h1, h2, h3, h4, h5, h6, h7, h8, hU, hE, hF, hC, hP, h9, h10⟩ := hI
  refine ⟨h1, by simp_all, h3, by simp_all, h5, h6, h7, h8, hU, ?_, hF, hC, hP, h9, h10⟩
  intro hs; rcases hE hs with hl' | hx
  · simp_all
  · exact Or.inr hx

theorem inv_start (cfg : Cfg) (s s' : St) (i : Nat) (pc : CPc) (hI : Inv cfg s)
    (hpc : pc = .wantW ∨ pc = .wantS ∨ pc = .wantT) (h : start cfg s i pc = some s') : Inv cfg s' := by
  obtain ⟨h1, h2, h3, h4, h5, h6, h7, h8, hU, hE, hF, hC, hP, h9, h10⟩ := hI
  unfold start at h
  split at h
  · rename_i hc
    injection h with h; subst h
    have hcs : inCS pc = false := by rcases hpc with rfl | rfl | rfl <;> rfl
    have hsh : shutting pc = false := by rcases hpc with rfl | rfl | rfl <;> rfl
    have hnb : pc ≠ .inTwait := by rcases hpc with rfl | rfl | rfl <;> simp
    have hnw : ¬ W pc := by rcases hpc with rfl | rfl | rfl <;> simp [W]
    have hnr : ¬ R pc := by rcases hpc with rfl | rfl | rfl <;> simp [R]
    refine ⟨lock_keep h1 (by simp [hc.1, hcs]), h2, forall_upd (P := fun _ pc => pc ≠ .inTwait) h3 hnb,
      h4, h5, h6, h7,
      waiting_upd (R := R) (st := s.stopped) h8 id (fun hv => absurd hv hnr),
      unique_upd hU (fun hv => by rw [hsh] at hv; cases hv), ?_, ?_, ?_, ?_, h9, ?_⟩
    · intro hs; rcases hE hs with hl | hx
      · exact Or.inl hl
      · exact Or.inr (exists_upd (Q := fun pc => pc = .waitDone) hx (by simp [hc.1]))
    · intro hs; rcases hF hs with hl | hx
      · exact Or.inl hl
      · exact Or.inr (exists_upd (Q := W) hx (by simp [hc.1, W]))
    · intro hk
      exact ⟨(hC hk).1, forall_upd (P := fun _ pc => shutting pc = false) (hC hk).2 hsh⟩
    · intro hs; rcases hP hs with hl | hx
      · exact Or.inl hl
      · exact Or.inr (exists_upd (Q := fun pc => shutting pc = true) hx (by simp [hc.1]))
    · apply forall_upd (P := fun k pc => cfg.n ≤ k → pc = .idle) h10
      intro hle; exact absurd hc.2 (Nat.not_lt.mpr hle)
  · cases h

theorem inv_step (cfg : Cfg) (hc : cfg.lockedWait = false) (s s' : St) (a : Act) (hI : Inv cfg s)
    (h : step cfg s a = some s') : Inv cfg s' := by
  cases a with
  | write i => exact inv_start cfg s s' i _ hI (Or.inl rfl) h
  | sync i => exact inv_start cfg s s' i _ hI (Or.inr (Or.inl rfl)) h
  | stop i => exact inv_start cfg s s' i _ hI (Or.inr (Or.inr rfl)) h
  | client i => exact inv_cstep cfg hc s s' i hI h
  | tick =>
    simp only [step] at h
    split at h
    · injection h with h; subst h; exact inv_tick cfg s hI (by assumption)
    · cases h
  | loop => exact inv_lstep cfg s s' hI h

theorem inv_run (cfg : Cfg) (hc : cfg.lockedWait = false) (acts : List Act) :
    ∀ s s', Inv cfg s → runActs cfg s acts = some s' → Inv cfg s' := by
  induction acts with
  | nil => intro s s' hI h; simp only [runActs] at h; injection h with h; subst h; exact hI
  | cons a as ih =>
    intro s s' hI h
    simp only [runActs] at h
    cases hs : step cfg s a with
    | none => rw [hs] at h; cases h
    | some t => rw [hs] at h; exact ih t s' (inv_step cfg hc s t a hI hs) h

theorem inv_reach (cfg : Cfg) (hc : cfg.lockedWait = false) (s : St) (h : Reach cfg s) : Inv cfg s := by
  obtain ⟨acts, ha⟩ := h
  exact inv_run cfg hc acts _ _ (inv_init cfg) ha

/-! ### what a returning `Stop` can rely on -/

/-- once `flushed` is closed the shutdown is complete: the flush goroutine has returned and everything accepted
    before the shutdown was signalled has been flushed -/
theorem flushedClosed_done (cfg : Cfg) (s : St) (hI : Inv cfg s) (hk : s.flushedClosed = true) :
    s.stopped = true ∧ s.accAtStop ≤ s.flushed ∧ s.loop = .finished := by
  obtain ⟨hst, hns⟩ := hI.fclosed hk
  refine ⟨hst, ?_, ?_⟩
  · rcases hI.flush hst with h | ⟨j, hj⟩
    · exact h
    · have := hns j
      rcases hj with hj | hj | hj <;> simp [hj] at this
  · rcases hI.ends hst with h | ⟨j, hj⟩
    · exact h
    · have := hns j
      simp [hj] at this

/-- in the repaired protocol a `Stop` call reaches its return on a stopped syncer only after `flushed` was closed -/
theorem ret_flushedClosed (cfg : Cfg) (hw : cfg.waitFlushed = true) (s s' : St) (i : Nat) (hI : Inv cfg s)
    (h : cstep cfg s i = some s') (hret : s'.cl i = .retT) (hst : s'.stopped = true) : s'.flushedClosed = true := by
  have h5 := hI.stopped_init
  unfold cstep at h
  split at h
  all_goals (try split at h)
  all_goals (try split at h)
  all_goals (try split at h)
  all_goals (first | (cases h; done) | skip)
  all_goals (injection h with h; subst h)
  all_goals (first | (simp at hret; done) | skip)
  all_goals (first | rfl | assumption | skip)
  -- left: inT on a syncer that is not initialised (then not stopped either) / already stopped (the repaired code waits)
  all_goals (have := h5 hst; simp_all)

/-! ### reachability is closed under steps; clients beyond `cfg.n` never start (any variant) -/

theorem runActs_append (cfg : Cfg) (a b : List Act) : ∀ s, runActs cfg s (a ++ b) =
    match runActs cfg s a with
    | some t => runActs cfg t b
    | none => none := by
  induction a with
  | nil => intro s; rfl
  | cons x xs ih =>
    intro s
    simp only [List.cons_append, runActs]
    cases step cfg s x with
    | none => rfl
    | some t => exact ih t

theorem reach_run (cfg : Cfg) (s s' : St) (acts : List Act) (h : Reach cfg s) (hr : runActs cfg s acts = some s') :
    Reach cfg s' := by
  obtain ⟨a0, h0⟩ := h
  exact ⟨a0 ++ acts, by rw [runActs_append, h0]; exact hr⟩

theorem reach_step (cfg : Cfg) (s s' : St) (a : Act) (h : Reach cfg s) (hs : step cfg s a = some s') : Reach cfg s' :=
  reach_run cfg s s' [a] h (by simp [runActs, hs])

theorem cstep_idle (cfg : Cfg) (s : St) (i : Nat) (h : s.cl i = .idle) : cstep cfg s i = none := by
  simp [cstep, h]

/-- a client step changes only that client's pc -/
theorem cstep_cl (cfg : Cfg) (s s' : St) (i : Nat) (h : cstep cfg s i = some s') :
    ∃ v, s'.cl = upd s.cl i v := by
  unfold cstep at h
  split at h
  all_goals (try split at h)
  all_goals (try split at h)
  all_goals (try split at h)
  all_goals (first | (cases h; done) | skip)
  all_goals (injection h with h; subst h; exact ⟨_, rfl⟩)

theorem bound_step (cfg : Cfg) (s s' : St) (a : Act) (hb : ∀ i, cfg.n ≤ i → s.cl i = .idle)
    (h : step cfg s a = some s') : ∀ i, cfg.n ≤ i → s'.cl i = .idle := by
  have hstart : ∀ i pc, start cfg s i pc = some s' → ∀ k, cfg.n ≤ k → s'.cl k = .idle := by
    intro i pc h k hk
    unfold start at h
    split at h
    · rename_i hc
      injection h with h; subst h
      have : k ≠ i := by omega
      simp only [upd_other _ _ this]; exact hb k hk
    · cases h
  cases a with
  | write i => exact hstart i _ h
  | sync i => exact hstart i _ h
  | stop i => exact hstart i _ h
  | client i =>
    intro k hk
    obtain ⟨v, hv⟩ := cstep_cl cfg s s' i h
    by_cases hki : k = i
    · subst hki
      have := cstep_idle cfg s k (hb k hk)
      simp only [step] at h; rw [this] at h; cases h
    · rw [hv, upd_other _ _ hki]; exact hb k hk
  | tick =>
    simp only [step] at h
    split at h
    · injection h with h; subst h; exact hb
    · cases h
  | loop =>
    simp only [step, lstep] at h
    split at h
    all_goals (try split at h)
    all_goals (first | (cases h; done) | skip)
    all_goals (injection h with h; subst h; exact hb)

theorem bound_reach (cfg : Cfg) (s : St) (h : Reach cfg s) : ∀ i, cfg.n ≤ i → s.cl i = .idle := by
  obtain ⟨acts, ha⟩ := h
  have key : ∀ (acts : List Act) (s s' : St), (∀ i, cfg.n ≤ i → s.cl i = .idle) → runActs cfg s acts = some s' →
      ∀ i, cfg.n ≤ i → s'.cl i = .idle := by
    intro acts
    induction acts with
    | nil => intro s s' hb h; simp only [runActs] at h; injection h with h; subst h; exact hb
    | cons a as ih =>
      intro s s' hb h
      simp only [runActs] at h
      cases hs : step cfg s a with
      | none => rw [hs] at h; cases h
      | some t => rw [hs] at h; exact ih t s' (bound_step cfg s t a hb hs) h
  exact key acts _ _ (fun _ _ => rfl) ha

/-! ### progress: the repaired protocol cannot get stuck -/

theorem cstep_some_cs (cfg : Cfg) (s : St) (i : Nat) (h : inCS (s.cl i) = true) (hn : s.cl i ≠ .inTwait) :
    (cstep cfg s i).isSome = true := by
  cases hpc : s.cl i <;> simp [hpc] at h hn <;> simp only [cstep, hpc]
  all_goals (try rfl)
  split
  · rfl
  · split
    · rfl
    · split <;> rfl

theorem cstep_some_want (cfg : Cfg) (s : St) (i : Nat) (hf : s.mu = .free)
    (h : s.cl i = .wantW ∨ s.cl i = .wantS ∨ s.cl i = .wantT ∨ s.cl i = .wantF) : (cstep cfg s i).isSome = true := by
  rcases h with h | h | h | h <;> simp [cstep, h, hf]

theorem cstep_some_ret (cfg : Cfg) (s : St) (i : Nat) (h : s.cl i = .closeF ∨ s.cl i = .retT) :
    (cstep cfg s i).isSome = true := by
  rcases h with h | h <;> simp [cstep, h]

theorem cstep_some_waitDone (cfg : Cfg) (s : St) (i : Nat) (h : s.cl i = .waitDone) (hl : s.loop = .finished) :
    (cstep cfg s i).isSome = true := by
  simp [cstep, h, hl]

theorem cstep_some_waitFlushed (cfg : Cfg) (s : St) (i : Nat) (h : s.cl i = .waitFlushed) (hl : s.flushedClosed = true) :
    (cstep cfg s i).isSome = true := by
  simp [cstep, h, hl]

/-- **progress**: in every reachable state of the repaired protocol that is not quiescent, some goroutine can take a
    step without any new call or tick arriving -/
theorem progress (cfg : Cfg) (hc : cfg.lockedWait = false) (s : St) (hI : Inv cfg s) (hq : ¬ Quiescent s) :
    ∃ a, a.internal = true ∧ (step cfg s a).isSome = true := by
  obtain ⟨h1, h2, h3, h4, h5, h6, h7, h8, hU, hE, hF, hC, hP, h9, h10⟩ := hI
  cases hmu : s.mu with
  | client i =>
    exact ⟨.client i, rfl, cstep_some_cs cfg s i ((h1 i).1 hmu) (h3 i)⟩
  | loop =>
    have hl := h2.1 hmu
    exact ⟨.loop, rfl, by simp [step, lstep, hl]⟩
  | free =>
    by_cases hlw : s.loop = .wantS
    · exact ⟨.loop, rfl, by simp [step, lstep, hlw, hmu]⟩
    by_cases hls : s.loop = .select ∧ s.stopClosed = true
    · exact ⟨.loop, rfl, by simp [step, lstep, hls.1, hls.2]⟩
    have hli : s.loop ≠ .inS := by
      intro hl; have := h2.2 hl; rw [hmu] at this; cases this
    -- the flush goroutine is at rest, so some client is mid-call
    have hne : ∃ i, s.cl i ≠ .idle := by
      apply Classical.byContradiction
      intro hall
      apply hq
      refine ⟨fun i => Classical.byContradiction fun hi => hall ⟨i, hi⟩, ?_⟩
      cases hl : s.loop with
      | none_ => exact Or.inl rfl
      | select =>
        refine Or.inr (Or.inl ⟨rfl, ?_⟩)
        cases hsc : s.stopClosed with
        | false => rfl
        | true => exact absurd ⟨hl, hsc⟩ hls
      | wantS => exact absurd hl hlw
      | inS => exact absurd hl hli
      | finished => exact Or.inr (Or.inr rfl)
    by_cases hw : ∃ k, s.cl k = .wantW ∨ s.cl k = .wantS ∨ s.cl k = .wantT ∨ s.cl k = .wantF
    · obtain ⟨k, hk⟩ := hw
      exact ⟨.client k, rfl, cstep_some_want cfg s k hmu hk⟩
    by_cases hr : ∃ k, s.cl k = .closeF ∨ s.cl k = .retT
    · obtain ⟨k, hk⟩ := hr
      exact ⟨.client k, rfl, cstep_some_ret cfg s k hk⟩
    have hnocs : ∀ k, inCS (s.cl k) = false := by
      intro k
      cases hk : inCS (s.cl k) with
      | false => rfl
      | true => have := (h1 k).2 hk; rw [hmu] at this; cases this
    by_cases hwd : ∃ k, s.cl k = .waitDone
    · obtain ⟨k, hk⟩ := hwd
      have hst := h8 k (Or.inl (by simp [hk]))
      have hcl : s.stopClosed = true := by rw [h6]; exact hst
      have hin := h5 hst
      have hlf : s.loop = .finished := by
        cases hl : s.loop with
        | none_ => have := h4.1 hl; rw [hin] at this; cases this
        | select => exact absurd ⟨hl, hcl⟩ hls
        | wantS => exact absurd hl hlw
        | inS => exact absurd hl hli
        | finished => rfl
      exact ⟨.client k, rfl, cstep_some_waitDone cfg s k hk hlf⟩
    -- every client in a call is waiting for `flushed`, and the shutting-down Stop has closed it
    obtain ⟨i, hi⟩ := hne
    have hwm : ∀ k, s.cl k = .idle ∨ s.cl k = .waitFlushed := by
      intro k
      have a := hnocs k
      have b := h3 k
      cases hk : s.cl k <;> simp [hk] at a b ⊢
      · exact hw ⟨k, Or.inl hk⟩
      · exact hw ⟨k, Or.inr (Or.inl hk)⟩
      · exact hw ⟨k, Or.inr (Or.inr (Or.inl hk))⟩
      · exact hwd ⟨k, hk⟩
      · exact hw ⟨k, Or.inr (Or.inr (Or.inr hk))⟩
      · exact hr ⟨k, Or.inl hk⟩
      · exact hr ⟨k, Or.inr hk⟩
    have him : s.cl i = .waitFlushed := by
      rcases hwm i with h | h
      · exact absurd h hi
      · exact h
    have hst := h8 i (Or.inr him)
    have hfc : s.flushedClosed = true := by
      rcases hP hst with h | ⟨j, hj⟩
      · exact h
      · rcases hwm j with h | h <;> simp [h] at hj
    exact ⟨.client i, rfl, cstep_some_waitFlushed cfg s i him hfc⟩

/-! ### termination: steps that need nothing from outside cannot go on for ever -/

/-- an upper bound on the number of steps a client still needs to finish its call -/
def wc : CPc → Nat
  | .idle => 0
  | .inS => 1 | .wantS => 2
  | .inW => 2 | .wantW => 3
  | .retT => 1 | .closeF => 2 | .waitFlushed => 2 | .inF => 3 | .wantF => 4 | .waitDone => 5 | .inTwait => 5
  | .inT => 6 | .wantT => 7

/-- … and of the flush goroutine until it is back in its `select` (plus one for leaving it) -/
def wl : LPc → Nat
  | .none_ => 0 | .finished => 0 | .select => 1 | .inS => 2 | .wantS => 3

def sumW (f : Nat → CPc) : Nat → Nat
  | 0 => 0
  | n + 1 => sumW f n + wc (f n)

def measure (n : Nat) (s : St) : Nat := sumW s.cl n + wl s.loop

theorem sumW_upd_ge (f : Nat → CPc) (i : Nat) (v : CPc) : ∀ n, n ≤ i → sumW (upd f i v) n = sumW f n := by
  intro n
  induction n with
  | zero => intro _; rfl
  | succ n ih =>
    intro h
    have hne : n ≠ i := by omega
    simp only [sumW, ih (by omega), upd_other f v hne]

theorem sumW_upd (f : Nat → CPc) (i : Nat) (v : CPc) : ∀ n, i < n → sumW (upd f i v) n + wc (f i) = sumW f n + wc v := by
  intro n
  induction n with
  | zero => intro h; omega
  | succ n ih =>
    intro h
    by_cases hi : i = n
    · subst hi
      simp only [sumW, sumW_upd_ge f i v i (Nat.le_refl _), upd_same]; omega
    · have hne : n ≠ i := fun h => hi h.symm
      have := ih (by omega)
      simp only [sumW, upd_other f v hne]; omega

theorem wc_le_sumW (f : Nat → CPc) (i : Nat) : ∀ n, i < n → wc (f i) ≤ sumW f n := by
  intro n
  induction n with
  | zero => intro h; omega
  | succ n ih =>
    intro h
    by_cases hi : i = n
    · subst hi; simp only [sumW]; omega
    · have := ih (by omega); simp only [sumW]; omega

theorem sumW_upd' (f : Nat → CPc) (i : Nat) (v : CPc) (n : Nat) (h : i < n) :
    sumW (upd f i v) n = sumW f n + wc v - wc (f i) := by
  have := sumW_upd f i v n h
  omega

theorem cstep_decreases (cfg : Cfg) (s s' : St) (i : Nat) (hI : Inv cfg s) (h : cstep cfg s i = some s') :
    measure cfg.n s' < measure cfg.n s := by
  have hlt : i < cfg.n := by
    apply Nat.lt_of_not_le
    intro hle
    have := cstep_idle cfg s i (hI.bound i hle)
    rw [this] at h; cases h
  have h4 := hI.loop_init
  have hle := wc_le_sumW s.cl i cfg.n hlt
  unfold cstep at h
  split at h
  all_goals (try split at h)
  all_goals (try split at h)
  all_goals (try split at h)
  all_goals (first | (cases h; done) | skip)
  all_goals (injection h with h; subst h)
  all_goals (
    have heq := ‹s.cl i = _›
    rw [heq] at hle
    simp only [measure, sumW_upd' _ _ _ _ hlt, heq, wc] at hle ⊢
    first
    | omega
    | (have hl : s.loop = .none_ := h4.2 (by simp_all)
       simp only [hl, wl]; omega))

theorem lstep_decreases (n : Nat) (s s' : St) (h : lstep s = some s') : measure n s' < measure n s := by
  unfold lstep at h
  split at h
  all_goals (try split at h)
  all_goals (first | (cases h; done) | skip)
  all_goals (injection h with h; subst h; simp_all [measure, wl])

theorem internal_decreases (cfg : Cfg) (s s' : St) (a : Act) (hI : Inv cfg s) (ha : a.internal = true)
    (h : step cfg s a = some s') : measure cfg.n s' < measure cfg.n s := by
  cases a with
  | client i => exact cstep_decreases cfg s s' i hI h
  | loop => exact lstep_decreases cfg.n s s' h
  | write i => cases ha
  | sync i => cases ha
  | stop i => cases ha
  | tick => cases ha

/-- **every call completes**: from every reachable state of the repaired protocol, finitely many steps that need
    no new call and no tick lead to a quiescent state -/
theorem quiesces (cfg : Cfg) (hc : cfg.lockedWait = false) : ∀ (m : Nat) (s : St), Reach cfg s → measure cfg.n s ≤ m →
    ∃ acts s', (∀ a ∈ acts, a.internal = true) ∧ runActs cfg s acts = some s' ∧ Quiescent s' := by
  intro m
  induction m with
  | zero =>
    intro s hr hm
    have hI := inv_reach cfg hc s hr
    by_cases hq : Quiescent s
    · exact ⟨[], s, by simp, rfl, hq⟩
    · obtain ⟨a, ha, hs⟩ := progress cfg hc s hI hq
      cases hst : step cfg s a with
      | none => rw [hst] at hs; cases hs
      | some t => have := internal_decreases cfg s t a hI ha hst; omega
  | succ m ih =>
    intro s hr hm
    have hI := inv_reach cfg hc s hr
    by_cases hq : Quiescent s
    · exact ⟨[], s, by simp, rfl, hq⟩
    · obtain ⟨a, ha, hs⟩ := progress cfg hc s hI hq
      cases hst : step cfg s a with
      | none => rw [hst] at hs; cases hs
      | some t =>
        have hd := internal_decreases cfg s t a hI ha hst
        obtain ⟨acts, s', h1, h2, h3⟩ := ih t (reach_step cfg s t a hr hst) (by omega)
        refine ⟨a :: acts, s', ?_, by simp only [runActs, hst]; exact h2, h3⟩
        intro x hx
        rcases List.mem_cons.mp hx with rfl | hx
        · exact ha
        · exact h1 x hx

end ZapVerif.BwsConc
