import ZapVerif.Model.BwsConc
/-! Invariants of the BufferedWriteSyncer thread machine. -/
namespace ZapVerif.BwsConc

@[simp] theorem upd_same (f : Nat → CPc) (i : Nat) (v : CPc) : upd f i v i = v := by simp [upd]
theorem upd_other (f : Nat → CPc) {i j : Nat} (v : CPc) (h : j ≠ i) : upd f i v j = f j := by simp [upd, h]

@[simp] theorem inCS_idle : inCS .idle = false := rfl
@[simp] theorem holdsM_idle : holdsM .idle = false := rfl
@[simp] theorem inCS_wantW : inCS .wantW = false := rfl
@[simp] theorem holdsM_wantW : holdsM .wantW = false := rfl
@[simp] theorem inCS_inW : inCS .inW = true := rfl
@[simp] theorem holdsM_inW : holdsM .inW = false := rfl
@[simp] theorem inCS_wantS : inCS .wantS = false := rfl
@[simp] theorem holdsM_wantS : holdsM .wantS = false := rfl
@[simp] theorem inCS_inS : inCS .inS = true := rfl
@[simp] theorem holdsM_inS : holdsM .inS = false := rfl
@[simp] theorem inCS_wantM : inCS .wantM = false := rfl
@[simp] theorem holdsM_wantM : holdsM .wantM = false := rfl
@[simp] theorem inCS_wantT : inCS .wantT = false := rfl
@[simp] theorem holdsM_wantT : holdsM .wantT = true := rfl
@[simp] theorem inCS_inT : inCS .inT = true := rfl
@[simp] theorem holdsM_inT : holdsM .inT = true := rfl
@[simp] theorem inCS_waitDone : inCS .waitDone = false := rfl
@[simp] theorem holdsM_waitDone : holdsM .waitDone = true := rfl
@[simp] theorem inCS_inTwait : inCS .inTwait = true := rfl
@[simp] theorem holdsM_inTwait : holdsM .inTwait = true := rfl
@[simp] theorem inCS_wantF : inCS .wantF = false := rfl
@[simp] theorem holdsM_wantF : holdsM .wantF = true := rfl
@[simp] theorem inCS_inF : inCS .inF = true := rfl
@[simp] theorem holdsM_inF : holdsM .inF = true := rfl
@[simp] theorem inCS_relM : inCS .relM = false := rfl
@[simp] theorem holdsM_relM : holdsM .relM = true := rfl

/-! ### how a change of one client's pc acts on the quantified clauses -/

theorem forall_upd {P : Nat → CPc → Prop} {f : Nat → CPc} {i : Nat} {v : CPc}
    (h : ∀ k, P k (f k)) (hv : P i v) : ∀ k, P k (upd f i v k) := by
  intro k
  by_cases hk : k = i
  · subst hk; simpa using hv
  · rw [upd_other f v hk]; exact h k

theorem exists_upd {Q : CPc → Prop} {f : Nat → CPc} {i : Nat} {v : CPc}
    (h : ∃ j, Q (f j)) (hv : Q (f i) → Q v) : ∃ j, Q (upd f i v j) := by
  obtain ⟨j, hj⟩ := h
  by_cases hk : j = i
  · subst hk; exact ⟨j, by simpa using hv hj⟩
  · exact ⟨j, by rw [upd_other f v hk]; exact hj⟩

theorem exists_self {Q : CPc → Prop} {f : Nat → CPc} {i : Nat} {v : CPc} (hv : Q v) : ∃ j, Q (upd f i v j) :=
  ⟨i, by simpa using hv⟩

/-- a lock whose holder is recorded as `c k`: acquiring -/
theorem lock_acq {α : Type} {c : Nat → α} (hinj : ∀ a b, c a = c b → a = b) {m free : α} (hfr : ∀ k, free ≠ c k)
    {inL : CPc → Bool} {f : Nat → CPc} {i : Nat} {v : CPc}
    (h1 : ∀ k, m = c k ↔ inL (f k) = true) (hfree : m = free) (hv : inL v = true) :
    ∀ k, c i = c k ↔ inL (upd f i v k) = true := by
  intro k
  by_cases hk : k = i
  · subst hk; simp [hv]
  · rw [upd_other f v hk]
    constructor
    · intro h; exact absurd (hinj _ _ h).symm hk
    · intro h; have := (h1 k).2 h; rw [hfree] at this; exact absurd this (hfr k)

/-- releasing -/
theorem lock_rel {α : Type} {c : Nat → α} (hinj : ∀ a b, c a = c b → a = b) {m free : α} (hfr : ∀ k, free ≠ c k)
    {inL : CPc → Bool} {f : Nat → CPc} {i : Nat} {v : CPc}
    (h1 : ∀ k, m = c k ↔ inL (f k) = true) (hin : inL (f i) = true) (hv : inL v = false) :
    ∀ k, free = c k ↔ inL (upd f i v k) = true := by
  intro k
  by_cases hk : k = i
  · subst hk; simp [hv]; exact hfr k
  · rw [upd_other f v hk]
    constructor
    · intro h; exact absurd h (hfr k)
    · intro h
      have a := (h1 k).2 h
      have b := (h1 i).2 hin
      rw [a] at b
      exact absurd (hinj _ _ b) hk

/-- a step that neither takes nor gives back the lock -/
theorem lock_keep {α : Type} {c : Nat → α} {m : α} {inL : CPc → Bool} {f : Nat → CPc} {i : Nat} {v : CPc}
    (h1 : ∀ k, m = c k ↔ inL (f k) = true) (hv : inL v = inL (f i)) :
    ∀ k, m = c k ↔ inL (upd f i v k) = true := by
  intro k
  by_cases hk : k = i
  · subst hk; simp [hv]; exact h1 k
  · rw [upd_other f v hk]; exact h1 k

theorem client_inj : ∀ a b, Holder.client a = Holder.client b → a = b := fun _ _ h => by injection h
theorem free_ne_client : ∀ k, Holder.free ≠ Holder.client k := fun _ h => by cases h
theorem some_inj : ∀ a b : Nat, some a = some b → a = b := fun _ _ h => by injection h
theorem none_ne_some : ∀ k : Nat, (none : Option Nat) ≠ some k := fun _ h => by cases h

/-- `pc` is one of the places of the shutting-down `Stop` after its critical section -/
def W (pc : CPc) : Prop := pc = .waitDone ∨ pc = .wantF ∨ pc = .inF

/-- the invariant of the repaired protocol (`lockedWait = false`) -/
structure Inv (cfg : Cfg) (s : St) : Prop where
  mu_cl : ∀ i, s.mu = .client i ↔ inCS (s.cl i) = true
  mu_loop : s.mu = .loop ↔ s.loop = .inS
  no_bug : ∀ i, s.cl i ≠ .inTwait
  smu_cl : cfg.serialStop = true → ∀ i, s.smu = some i ↔ holdsM (s.cl i) = true
  loop_init : s.loop = .none_ ↔ s.init = false
  stopped_init : s.stopped = true → s.init = true
  closed_eq : s.stopClosed = s.stopped
  no_panic : s.panicked = false
  waiting : ∀ i, W (s.cl i) → s.stopped = true
  ends : s.stopped = true → s.loop = .finished ∨ ∃ j, s.cl j = .waitDone
  flush : s.stopped = true → s.accAtStop ≤ s.flushed ∨ ∃ j, W (s.cl j)
  acc_le : s.accAtStop ≤ s.acc
  bound : ∀ i, cfg.n ≤ i → s.cl i = .idle

theorem inv_init (cfg : Cfg) : Inv cfg init := by
  refine ⟨?_, ?_, ?_, ?_, ?_, ?_, ?_, ?_, ?_, ?_, ?_, ?_, ?_⟩ <;> simp [init, W]

theorem waiting_upd {f : Nat → CPc} {i : Nat} {v : CPc} {st st' : Bool}
    (h8 : ∀ k, W (f k) → st = true) (hmono : st = true → st' = true) (hv : W v → st' = true) :
    ∀ k, W (upd f i v k) → st' = true := by
  intro k
  by_cases hk : k = i
  · subst hk; simpa using hv
  · rw [upd_other f v hk]; exact fun h => hmono (h8 k h)

theorem inv_cstep (cfg : Cfg) (hc : cfg.lockedWait = false) (s s' : St) (i : Nat) (hI : Inv cfg s)
    (h : cstep cfg s i = some s') : Inv cfg s' := by
  obtain ⟨h1, h2, h3, hsm, h4, h5, h6, h7, h8, hE, hF, h9, h10⟩ := hI
  have hloop : inCS (s.cl i) = true → s.loop ≠ .inS := by
    intro hin hl
    have a := (h1 i).2 hin
    have b := h2.2 hl
    rw [a] at b; cases b
  unfold cstep at h
  split at h
  all_goals (try split at h)
  all_goals (try split at h)
  all_goals (first | (cases h; done) | skip)
  all_goals (injection h with h; subst h)
  all_goals (first | (exfalso; simp_all; done) | skip)
  all_goals exact ⟨
    by first
      | (apply lock_acq client_inj free_ne_client h1 <;> (first | assumption | (simp [*]; done)))
      | (apply lock_rel client_inj free_ne_client h1 <;> (first | assumption | (simp [*]; done)))
      | (apply lock_keep h1; simp [*]; done),
    by simp_all,
    by apply forall_upd (P := fun _ pc => pc ≠ .inTwait) h3; simp,
    fun hs => by
      (try simp only [hs, if_true])
      first
      | (exfalso; simp_all; done)
      | (apply lock_acq some_inj none_ne_some (hsm hs) <;> (first | assumption | (simp [*]; done)))
      | (apply lock_rel some_inj none_ne_some (hsm hs) <;> (first | assumption | (simp [*]; done)))
      | (apply lock_keep (hsm hs); simp [*]; done),
    by simp_all,
    by simp_all,
    by simp_all,
    by simp_all,
    by
      apply waiting_upd (st := s.stopped) h8
      · first | exact id | (intro _; rfl)
      · first
        | (intro hv; simp [W] at hv; done)
        | (intro _; first | rfl | (apply h8 i; simp [W, *]; done)),
    by
      intro hs
      first
      | (left; simp_all; done)
      | (right; apply exists_self (Q := fun pc => pc = .waitDone); rfl)
      | (rcases hE (by simp_all) with hl | hx
         · left; simp_all; done
         · right; apply exists_upd (Q := fun pc => pc = .waitDone) hx; simp [*]; done),
    by
      intro hs
      first
      | (left; simp_all; done)
      | (left; simp_all; omega)
      | (right; apply exists_self (Q := W); simp [W]; done)
      | (rcases hF (by simp_all) with hl | hx
         · left; simp_all; done
         · right; apply exists_upd (Q := W) hx; simp [W, *]; done),
    by simp_all <;> omega,
    by
      apply forall_upd (P := fun k pc => cfg.n ≤ k → pc = .idle) h10
      first | (intro _; rfl) | (intro hle; have := h10 i hle; simp_all; done)⟩

end ZapVerif.BwsConc
