import ZapVerif.Model.BwsConcBytes
import ZapVerif.Proofs.Bws
import ZapVerif.Proofs.BwsConc
/-! The thread machine with bytes refines the sequential model: lemmas. -/
namespace ZapVerif.BwsCB
open ZapVerif ZapVerif.Bws

/-! ## linearized histories: the sequential facts of `Proofs/Bws.lean` once more, per critical section -/

theorem mark_sink (s : Bws.St) : (mark s).sink = s.sink := by unfold mark; split <;> rfl
theorem mark_buf (s : Bws.St) : (mark s).buf = s.buf := by unfold mark; split <;> rfl
theorem mark_err (s : Bws.St) : (mark s).err = s.err := by unfold mark; split <;> rfl
theorem mark_size (s : Bws.St) : (mark s).size = s.size := by unfold mark; split <;> rfl
theorem mark_init (s : Bws.St) : (mark s).init = s.init := by unfold mark; split <;> rfl
theorem mark_wscript (s : Bws.St) : (mark s).wscript = s.wscript := by unfold mark; split <;> rfl
theorem mark_content (s : Bws.St) : content (mark s) = content s := by simp [content, mark_sink, mark_buf]

theorem mark_stopped (s : Bws.St) : (mark s).stopped = (s.stopped || s.init) := by
  unfold mark
  cases hi : s.init <;> cases hs : s.stopped <;> simp [hs]

theorem wf_mark (s : Bws.St) (h : Wf s) : Wf (mark s) := by
  refine ⟨by rw [mark_buf, mark_size]; exact h.bound, fun hi => ?_⟩
  rw [mark_init] at hi
  obtain ⟨h1, h2, h3⟩ := h.fresh hi
  exact ⟨by rw [mark_buf]; exact h1, by rw [mark_stopped, h2, hi]; rfl, by rw [mark_err]; exact h3⟩

theorem rinv_mark {ws : List Bytes} {s : Bws.St} (h : RInv ws s) : RInv ws (mark s) :=
  ⟨wf_mark s h.wf, ⟨by rw [mark_wscript]; exact h.rel.1, by rw [mark_err]; exact h.rel.2⟩,
   by rw [mark_sink, mark_buf]; exact h.aligned, by rw [mark_sink]; exact h.full⟩

theorem wf_lstep (s : Bws.St) (o : LOp) (h : Wf s) : Wf (lstep s o).1 := by
  cases o with
  | write bs => exact wf_write s bs h
  | sync => exact wf_sync s h
  | mark => exact wf_mark s h

theorem wf_lrun (os : List LOp) : ∀ s, Wf s → Wf (lrun s os) := by
  induction os with
  | nil => intro s h; exact h
  | cons o os ih => intro s h; exact ih _ (wf_lstep s o h)

theorem lrun_append (a b : List LOp) : ∀ s, lrun s (a ++ b) = lrun (lrun s a) b := by
  induction a with
  | nil => intro s; rfl
  | cons o os ih => intro s; simp only [List.cons_append, lrun]; exact ih _

theorem lrets_append (a b : List LOp) : ∀ s, lrets s (a ++ b) = lrets s a ++ lrets (lrun s a) b := by
  induction a with
  | nil => intro s; rfl
  | cons o os ih => intro s; simp only [List.cons_append, lrets, lrun, ih, List.cons_append]

theorem laccepted_append (a b : List LOp) : ∀ s, laccepted s (a ++ b) = laccepted s a ++ laccepted (lrun s a) b := by
  induction a with
  | nil => intro s; simp [laccepted, lrun]
  | cons o os ih =>
    intro s
    cases o <;> simp only [List.cons_append, laccepted, lrun, lstep, ih, List.append_assoc]

theorem lwritesOf_append (a b : List LOp) : lwritesOf (a ++ b) = lwritesOf a ++ lwritesOf b := by
  induction a with
  | nil => rfl
  | cons o os ih => cases o <;> simp [lwritesOf, ih]

/-- the accounting identity, per linearized history -/
theorem content_lrun (os : List LOp) : ∀ s, Wf s → content (lrun s os) = content s ++ laccepted s os := by
  induction os with
  | nil => intro s _; simp [lrun, laccepted]
  | cons o os ih =>
    intro s h
    cases o with
    | write bs =>
      have W := write_spec s bs h.bound
      simp only [lrun, lstep, laccepted]
      rw [ih _ (wf_write s bs h), W.content, List.append_assoc]
    | sync =>
      simp only [lrun, lstep, laccepted]
      rw [ih _ (wf_sync s h), (sync_spec s).content]
    | mark =>
      simp only [lrun, lstep, laccepted]
      rw [ih _ (wf_mark s h), mark_content]

theorem lstep_sink_prefix (s : Bws.St) (o : LOp) : s.sink <+: (lstep s o).1.sink := by
  cases o with
  | write bs => exact step_sink_prefix s (.write bs)
  | sync => exact step_sink_prefix s .sync
  | mark => simp only [lstep, mark_sink]; exact List.prefix_refl _

theorem lrun_sink_prefix (os : List LOp) : ∀ s, s.sink <+: (lrun s os).sink := by
  induction os with
  | nil => intro s; exact List.prefix_refl _
  | cons o os ih => intro s; exact (lstep_sink_prefix s o).trans (ih _)

theorem lstep_size (s : Bws.St) (o : LOp) (h : Wf s) : (lstep s o).1.size = s.size := by
  cases o with
  | write bs => exact (write_spec s bs h.bound).size
  | sync => exact (sync_spec s).size
  | mark => exact mark_size s

theorem lrun_size (os : List LOp) : ∀ s, Wf s → (lrun s os).size = s.size := by
  induction os with
  | nil => intro s _; rfl
  | cons o os ih => intro s h; simp only [lrun]; rw [ih _ (wf_lstep s o h), lstep_size s o h]

theorem rinv_lstep {ws : List Bytes} {s : Bws.St} (o : LOp) (h : RInv ws s) : RInv (ws ++ lwritesOf [o]) (lstep s o).1 := by
  cases o with
  | write bs => exact rinv_write bs h
  | sync => simpa [lwritesOf, lstep] using rinv_sync h
  | mark => simpa [lwritesOf, lstep] using rinv_mark h

theorem rinv_lrun (os : List LOp) : ∀ ws s, RInv ws s → RInv (ws ++ lwritesOf os) (lrun s os) := by
  induction os with
  | nil => intro ws s h; simpa [lwritesOf, lrun] using h
  | cons o os ih =>
    intro ws s h
    have := ih _ _ (rinv_lstep o h)
    have e : lwritesOf (o :: os) = lwritesOf [o] ++ lwritesOf os := lwritesOf_append [o] os
    rw [e, ← List.append_assoc]
    exact this

theorem laccepted_reliable (os : List LOp) : ∀ ws s, RInv ws s → laccepted s os = (lwritesOf os).flatten := by
  induction os with
  | nil => intro _ _ _; rfl
  | cons o os ih =>
    intro ws s h
    cases o with
    | write bs =>
      have R := write_reliable s bs h.rel
      simp only [laccepted, lwritesOf, List.flatten_cons]
      rw [ih _ _ (rinv_write bs h), R.n, List.take_length]
    | sync => simp only [laccepted, lwritesOf]; exact ih _ _ (rinv_sync h)
    | mark => simp only [laccepted, lwritesOf]; exact ih _ _ (rinv_mark h)

/-- after a `Sync` section that left no sticky error, nothing is held back and the sink's last call was its `Sync` -/
theorem sync_section_flushes (s : Bws.St) (hw : Wf s) (he : (Bws.sync s).1.err = none) :
    (Bws.sync s).1.buf = [] ∧ (s.init = true → (Bws.sync s).1.sink.getLast? = some .sync) :=
  ⟨flushop_empty s .sync hw (Or.inl rfl) he, fun hi => flushop_synced s .sync (Or.inl rfl) hi⟩

/-- sequential histories of `Model/Bws.lean` are linearized histories -/
theorem lrun_expand (os : List Bws.Op) : ∀ s, lrun s (expand s os) = Bws.run s os := by
  induction os with
  | nil => intro s; rfl
  | cons o os ih =>
    intro s
    cases o with
    | write bs => simp only [expand, lrun, lstep, Bws.run, Bws.step]; exact ih _
    | sync => simp only [expand, lrun, lstep, Bws.run, Bws.step]; exact ih _
    | tick =>
      simp only [expand, Bws.run, Bws.step, lrun_append]
      rw [← ih]
      congr 1
      unfold Bws.tick
      split <;> simp [lrun, lstep]
    | stop =>
      simp only [expand, Bws.run, Bws.step, lrun_append]
      rw [← ih]
      congr 1
      unfold Bws.stop
      split
      · rename_i hc; simp [lrun, lstep, mark, hc]
      · rename_i hc; simp [lrun, lstep, mark, hc]

/-! ## the machine: its invariant -/

theorem ops_snoc (h : List (Who × LOp)) (w : Who) (o : LOp) : ops (h ++ [(w, o)]) = ops h ++ [o] := by
  simp [ops]

theorem lrun_snoc (s : Bws.St) (a : List LOp) (o : LOp) : lrun s (a ++ [o]) = (lstep (lrun s a) o).1 := by
  rw [lrun_append]; rfl

theorem lrets_snoc (s : Bws.St) (a : List LOp) (o : LOp) : lrets s (a ++ [o]) = lrets s a ++ [(lstep (lrun s a) o).2] := by
  rw [lrets_append]; rfl

/-- the invariant that makes the thread machine a refinement of the sequential model -/
structure J (cfg : BwsConc.Cfg) (d0 : Bws.St) (s : St) : Prop where
  ctl : BwsConc.Inv cfg s.c
  wf : Wf s.d
  data : s.d = lrun d0 (ops s.hist)
  rets : s.rets = lrets d0 (ops s.hist)
  lin : s.acqs = s.hist ++ inflight s
  init_eq : s.c.init = s.d.init
  stopped_eq : s.c.stopped = s.d.stopped
  mlen : s.markLen ≤ s.hist.length
  fin_some : ∀ sF, s.finalSt = some sF → s.d.stopped = true ∧ s.finalLen ≤ s.hist.length ∧ s.markLen < s.finalLen ∧
      sF = lrun d0 (ops (s.hist.take s.finalLen)) ∧ (ops (s.hist.take s.finalLen)).getLast? = some .sync
  fin_none : s.finalSt = none → s.c.flushedClosed = false ∧ ∀ k, s.c.cl k ≠ .closeF

/-- a syncer nobody has used yet -/
def Fresh (d0 : Bws.St) : Prop := Wf d0 ∧ d0.init = false ∧ d0.stopped = false

theorem fresh_mk (size : Int) (wo : List WOut) (so : List Bool) : Fresh (Bws.mk size wo so) :=
  ⟨wf_mk size wo so, rfl, rfl⟩

theorem J_init (cfg : BwsConc.Cfg) (d0 : Bws.St) (h0 : Fresh d0) : J cfg d0 (init d0) := by
  refine ⟨BwsConc.inv_init cfg, h0.1, rfl, rfl, rfl, h0.2.1.symm, h0.2.2.symm, Nat.le_refl _, ?_, ?_⟩
  · intro sF h; cases h
  · intro _; exact ⟨rfl, fun k => by simp [init, BwsConc.init]⟩

theorem holder_ne {cfg : BwsConc.Cfg} {c : BwsConc.St} {i j : Nat} (I : BwsConc.Inv cfg c) (hj : c.mu = .client j)
    (hi : BwsConc.inCS (c.cl i) = false) : j ≠ i := by
  intro h; subst h
  have := (I.mu_cl j).1 hj
  rw [hi] at this; cases this

/-- a step outside every critical section -/
theorem J_keep {cfg : BwsConc.Cfg} {d0 : Bws.St} {s : St} (hJ : J cfg d0 s) (c' : BwsConc.St) (arg' : Nat → Bytes)
    (hI : BwsConc.Inv cfg c') (hmu : c'.mu = s.c.mu)
    (hcl : ∀ j, s.c.mu = .client j → c'.cl j = s.c.cl j ∧ arg' j = s.arg j)
    (hi : c'.init = s.c.init) (hs : c'.stopped = s.c.stopped)
    (hf : s.finalSt = none → c'.flushedClosed = false ∧ ∀ k, c'.cl k ≠ .closeF) :
    J cfg d0 { s with c := c', arg := arg' } := by
  refine ⟨hI, hJ.wf, hJ.data, hJ.rets, ?_, by rw [hi]; exact hJ.init_eq, by rw [hs]; exact hJ.stopped_eq, hJ.mlen, hJ.fin_some, hf⟩
  have : inflight { s with c := c', arg := arg' } = inflight s := by
    unfold inflight
    simp only [hmu]
    cases hm : s.c.mu with
    | free => rfl
    | loop => rfl
    | client j =>
      obtain ⟨a, b⟩ := hcl j hm
      simp only [a, b]
  rw [this]; exact hJ.lin

/-- a critical section begins -/
theorem J_acq {cfg : BwsConc.Cfg} {d0 : Bws.St} {s : St} (hJ : J cfg d0 s) (c' : BwsConc.St) (w : Who) (o : LOp)
    (hI : BwsConc.Inv cfg c') (hfree : s.c.mu = .free) (hin : inflight (acq s c' w o) = [(w, o)])
    (hi : c'.init = s.c.init) (hs : c'.stopped = s.c.stopped)
    (hf : s.finalSt = none → c'.flushedClosed = false ∧ ∀ k, c'.cl k ≠ .closeF) :
    J cfg d0 (acq s c' w o) := by
  have h0 : inflight s = [] := by simp [inflight, hfree]
  refine ⟨hI, hJ.wf, hJ.data, hJ.rets, ?_, by show c'.init = _; rw [hi]; exact hJ.init_eq,
    by show c'.stopped = _; rw [hs]; exact hJ.stopped_eq, hJ.mlen, hJ.fin_some, hf⟩
  rw [hin]
  show s.acqs ++ [(w, o)] = s.hist ++ [(w, o)]
  rw [hJ.lin, h0, List.append_nil]

/-- a critical section ends: the byte-level effect of its operation -/
theorem J_fin {cfg : BwsConc.Cfg} {d0 : Bws.St} {s : St} (hJ : J cfg d0 s) (c' : BwsConc.St) (w : Who) (o : LOp)
    (ml : Nat) (fs : Option Bws.St) (fl : Nat)
    (hI : BwsConc.Inv cfg c') (hin : inflight s = [(w, o)]) (hfree : c'.mu = .free)
    (hi : c'.init = (lstep s.d o).1.init) (hs : c'.stopped = (lstep s.d o).1.stopped)
    (hml : ml ≤ s.hist.length + 1)
    (hfs : ∀ sF, fs = some sF → (lstep s.d o).1.stopped = true ∧ fl ≤ s.hist.length + 1 ∧ ml < fl ∧
        sF = lrun d0 (ops ((s.hist ++ [(w, o)]).take fl)) ∧ (ops ((s.hist ++ [(w, o)]).take fl)).getLast? = some .sync)
    (hf : fs = none → c'.flushedClosed = false ∧ ∀ k, c'.cl k ≠ .closeF) :
    J cfg d0 { fin s c' w o with markLen := ml, finalSt := fs, finalLen := fl } := by
  refine ⟨hI, wf_lstep s.d o hJ.wf, ?_, ?_, ?_, hi, hs, by simpa [fin] using hml, ?_, hf⟩
  · show (lstep s.d o).1 = lrun d0 (ops (s.hist ++ [(w, o)]))
    rw [ops_snoc, lrun_snoc, ← hJ.data]
  · show s.rets ++ [(lstep s.d o).2] = lrets d0 (ops (s.hist ++ [(w, o)]))
    rw [ops_snoc, lrets_snoc, ← hJ.data, ← hJ.rets]
  · have : inflight { fin s c' w o with markLen := ml, finalSt := fs, finalLen := fl } = [] := by
      simp [inflight, fin, hfree]
    rw [this, List.append_nil]
    show s.acqs = s.hist ++ [(w, o)]
    rw [hJ.lin, hin]
  · intro sF h
    obtain ⟨a, b, c, d, e⟩ := hfs sF h
    exact ⟨a, by simpa [fin] using b, c, d, e⟩

/-- the ghost record of the final flush is stable under later sections -/
theorem fin_some_grow {cfg : BwsConc.Cfg} {d0 : Bws.St} {s : St} (hJ : J cfg d0 s) (w : Who) (o : LOp) (sF : Bws.St)
    (h : s.finalSt = some sF) : (lstep s.d o).1.stopped = true ∧ s.finalLen ≤ s.hist.length + 1 ∧ s.markLen < s.finalLen ∧
      sF = lrun d0 (ops ((s.hist ++ [(w, o)]).take s.finalLen)) ∧
      (ops ((s.hist ++ [(w, o)]).take s.finalLen)).getLast? = some .sync := by
  obtain ⟨a, b, c, d, e⟩ := hJ.fin_some sF h
  have ht : (s.hist ++ [(w, o)]).take s.finalLen = s.hist.take s.finalLen := by
    rw [List.take_append_of_le_length b]
  refine ⟨?_, by omega, c, by rw [ht]; exact d, by rw [ht]; exact e⟩
  cases o with
  | write bs =>
    simp only [lstep]; rw [(write_spec s.d bs hJ.wf.bound).stopped]; exact a
  | sync => simp only [lstep]; rw [(sync_spec s.d).stopped]; exact a
  | mark => simp only [lstep, mark_stopped, a, Bool.true_or]

theorem not_closeF_upd {f : Nat → BwsConc.CPc} {i : Nat} {v : BwsConc.CPc} (h : ∀ k, f k ≠ .closeF) (hv : v ≠ .closeF) :
    ∀ k, BwsConc.upd f i v k ≠ .closeF :=
  BwsConc.forall_upd (P := fun _ pc => pc ≠ .closeF) h hv

/-- a client step outside every critical section (its pc is not inside one and the step leaves the mutex alone) -/
theorem J_client_keep {cfg : BwsConc.Cfg} {d0 : Bws.St} {s : St} (hJ : J cfg d0 s) (i : Nat) (c' : BwsConc.St)
    (hI : BwsConc.Inv cfg c') (hnc : BwsConc.inCS (s.c.cl i) = false) (v : BwsConc.CPc)
    (hcl : c'.cl = BwsConc.upd s.c.cl i v) (hmu : c'.mu = s.c.mu) (hi : c'.init = s.c.init) (hs : c'.stopped = s.c.stopped)
    (hf : s.finalSt = none → c'.flushedClosed = false ∧ ∀ k, c'.cl k ≠ .closeF) :
    J cfg d0 { s with c := c' } := by
  have := J_keep hJ c' s.arg hI hmu (fun j hj => ⟨by rw [hcl, BwsConc.upd_other _ _ (holder_ne hJ.ctl hj hnc)], rfl⟩) hi hs hf
  exact this

theorem J_step (cfg : BwsConc.Cfg) (hlw : cfg.lockedWait = false) (d0 : Bws.St) (s s' : St) (a : Act) (hJ : J cfg d0 s)
    (h : step cfg s a = some s') : J cfg d0 s' := by
  unfold step at h
  cases hc' : BwsConc.step cfg s.c a.ctl with
  | none => rw [hc'] at h; cases h
  | some c' =>
    rw [hc'] at h; injection h with h; subst h
    have Ic' := BwsConc.inv_step cfg hlw s.c c' a.ctl hJ.ctl hc'
    have hstart : ∀ (i : Nat) (pc : BwsConc.CPc) (arg' : Nat → Bytes), BwsConc.start cfg s.c i pc = some c' →
        pc ≠ .closeF → (∀ j, j ≠ i → arg' j = s.arg j) → J cfg d0 { s with c := c', arg := arg' } := by
      intro i pc arg' hst hpc harg
      unfold BwsConc.start at hst
      split at hst
      · rename_i hcond
        injection hst with hst; subst hst
        have hnc : BwsConc.inCS (s.c.cl i) = false := by rw [hcond.1]; rfl
        refine J_keep hJ _ arg' Ic' rfl (fun j hj => ?_) rfl rfl (fun hn => ?_)
        · have hne := holder_ne hJ.ctl hj hnc
          exact ⟨BwsConc.upd_other _ _ hne, harg j hne⟩
        · obtain ⟨a, b⟩ := hJ.fin_none hn
          exact ⟨a, not_closeF_upd b hpc⟩
      · cases hst
    cases a with
    | write i bs =>
      exact hstart i _ _ hc' (by simp) (fun j hj => by simp [hj])
    | sync i => exact hstart i _ s.arg hc' (by simp) (fun _ _ => rfl)
    | stop i => exact hstart i _ s.arg hc' (by simp) (fun _ _ => rfl)
    | tick =>
      simp only [Act.ctl, BwsConc.step] at hc'
      split at hc'
      · injection hc' with hc'; subst hc'
        exact J_keep hJ _ s.arg Ic' rfl (fun j _ => ⟨rfl, rfl⟩) rfl rfl hJ.fin_none
      · cases hc'
    | loop =>
      simp only [Act.ctl, BwsConc.step] at hc'
      simp only [effect]
      cases hl : s.c.loop <;> simp only [BwsConc.lstep, hl] at hc' ⊢
      · cases hc'
      · split at hc'
        · injection hc' with hc'; subst hc'
          exact J_keep hJ _ s.arg Ic' rfl (fun j _ => ⟨rfl, rfl⟩) rfl rfl hJ.fin_none
        · cases hc'
      · split at hc'
        · rename_i hfree
          injection hc' with hc'; subst hc'
          exact J_acq hJ _ .loop .sync Ic' hfree (by simp [inflight, acq]) rfl rfl hJ.fin_none
        · cases hc'
      · injection hc' with hc'; subst hc'
        have hmu : s.c.mu = .loop := hJ.ctl.mu_loop.2 hl
        have S := sync_spec s.d
        exact J_fin hJ _ .loop .sync s.markLen s.finalSt s.finalLen Ic' (by simp [inflight, hmu]) rfl
          (by show s.c.init = _; rw [hJ.init_eq]; exact S.init.symm)
          (by show s.c.stopped = _; rw [hJ.stopped_eq]; exact S.stopped.symm)
          (Nat.le_succ_of_le hJ.mlen) (fun sF hs => fin_some_grow hJ .loop .sync sF hs) hJ.fin_none
      · cases hc'
    | client i =>
      simp only [Act.ctl, BwsConc.step] at hc'
      simp only [effect]
      have hfn := hJ.fin_none
      have fn : ∀ (c'' : BwsConc.St) (v : BwsConc.CPc), c''.flushedClosed = s.c.flushedClosed →
          c''.cl = BwsConc.upd s.c.cl i v → v ≠ .closeF →
          s.finalSt = none → c''.flushedClosed = false ∧ ∀ k, c''.cl k ≠ .closeF := by
        intro c'' v h1 h2 hv hn
        exact ⟨by rw [h1]; exact (hfn hn).1, by rw [h2]; exact not_closeF_upd (hfn hn).2 hv⟩
      have hmuI : BwsConc.inCS (s.c.cl i) = true → s.c.mu = .client i := (hJ.ctl.mu_cl i).2
      cases hpc : s.c.cl i <;> simp only [BwsConc.cstep, hpc] at hc' ⊢
      · -- idle
        cases hc'
      · -- wantW: Lock
        split at hc'
        · rename_i hfree
          injection hc' with hc'; subst hc'
          exact J_acq hJ _ (.client i) (.write (s.arg i)) Ic' hfree (by simp [inflight, acq, opOf]) rfl rfl
            (fn _ .inW rfl rfl (by simp))
        · cases hc'
      · -- inW: the Write, Unlock
        injection hc' with hc'; subst hc'
        have hmu := hmuI (by rw [hpc]; rfl)
        have W := write_spec s.d (s.arg i) hJ.wf.bound
        exact J_fin hJ _ (.client i) (.write (s.arg i)) s.markLen s.finalSt s.finalLen Ic'
          (by simp [inflight, hmu, hpc, opOf]) rfl
          (by show true = _; exact W.init.symm)
          (by show s.c.stopped = _; rw [hJ.stopped_eq]; exact W.stopped.symm)
          (Nat.le_succ_of_le hJ.mlen) (fun sF hs => fin_some_grow hJ _ _ sF hs) (fn _ .idle rfl rfl (by simp))
      · -- wantS
        split at hc'
        · rename_i hfree
          injection hc' with hc'; subst hc'
          exact J_acq hJ _ (.client i) .sync Ic' hfree (by simp [inflight, acq, opOf]) rfl rfl
            (fn _ .inS rfl rfl (by simp))
        · cases hc'
      · -- inS: the Sync, Unlock
        injection hc' with hc'; subst hc'
        have hmu := hmuI (by rw [hpc]; rfl)
        have S := sync_spec s.d
        exact J_fin hJ _ (.client i) .sync s.markLen s.finalSt s.finalLen Ic'
          (by simp [inflight, hmu, hpc, opOf]) rfl
          (by show s.c.init = _; rw [hJ.init_eq]; exact S.init.symm)
          (by show s.c.stopped = _; rw [hJ.stopped_eq]; exact S.stopped.symm)
          (Nat.le_succ_of_le hJ.mlen) (fun sF hs => fin_some_grow hJ _ _ sF hs) (fn _ .idle rfl rfl (by simp))
      · -- wantT
        split at hc'
        · rename_i hfree
          injection hc' with hc'; subst hc'
          exact J_acq hJ _ (.client i) .mark Ic' hfree (by simp [inflight, acq, opOf]) rfl rfl
            (fn _ .inT rfl rfl (by simp))
        · cases hc'
      · -- inT: Stop's first section
        have hmu := hmuI (by rw [hpc]; rfl)
        have hin : inflight s = [(.client i, .mark)] := by simp [inflight, hmu, hpc, opOf]
        have hml : (if (!s.d.init || s.d.stopped) = true then s.markLen else s.hist.length + 1) ≤ s.hist.length + 1 := by
          split
          · exact Nat.le_succ_of_le hJ.mlen
          · exact Nat.le_refl _
        have hfs : ∀ sF, s.finalSt = some sF → (lstep s.d .mark).1.stopped = true ∧ s.finalLen ≤ s.hist.length + 1 ∧
            (if (!s.d.init || s.d.stopped) = true then s.markLen else s.hist.length + 1) < s.finalLen ∧
            sF = lrun d0 (ops ((s.hist ++ [(Who.client i, LOp.mark)]).take s.finalLen)) ∧
            (ops ((s.hist ++ [(Who.client i, LOp.mark)]).take s.finalLen)).getLast? = some .sync := by
          intro sF hs
          obtain ⟨a, b, c, d, e⟩ := fin_some_grow hJ (.client i) .mark sF hs
          have hst := (hJ.fin_some sF hs).1
          exact ⟨a, b, by simp [hst]; exact c, d, e⟩
        split at hc'
        · -- not initialised
          rename_i hni
          have hdi : s.d.init = false := by rw [← hJ.init_eq]; simpa using hni
          injection hc' with hc'; subst hc'
          exact J_fin hJ _ (.client i) .mark _ s.finalSt s.finalLen Ic' hin rfl
            (by show s.c.init = _; rw [hJ.init_eq]; simp [lstep, mark_init])
            (by show s.c.stopped = _; rw [hJ.stopped_eq]; simp [lstep, mark_stopped, hdi])
            hml hfs (fn _ .retT rfl rfl (by simp))
        · split at hc'
          · -- already stopped
            rename_i hni hst
            have hds : s.d.stopped = true := by rw [← hJ.stopped_eq]; exact hst
            injection hc' with hc'; subst hc'
            exact J_fin hJ _ (.client i) .mark _ s.finalSt s.finalLen Ic' hin rfl
              (by show s.c.init = _; rw [hJ.init_eq]; simp [lstep, mark_init])
              (by show s.c.stopped = _; rw [hJ.stopped_eq]; simp [lstep, mark_stopped, hds])
              hml hfs (fn _ _ rfl rfl (by split <;> simp))
          · split at hc'
            · rename_i hl; rw [hlw] at hl; cases hl
            · -- the shutdown
              rename_i hni hst _
              have hdi : s.d.init = true := by rw [← hJ.init_eq]; simpa using hni
              have hds : s.d.stopped = false := by rw [← hJ.stopped_eq]; simpa using hst
              injection hc' with hc'; subst hc'
              exact J_fin hJ _ (.client i) .mark _ s.finalSt s.finalLen Ic' hin rfl
                (by show s.c.init = _; rw [hJ.init_eq]; simp [lstep, mark_init])
                (by show true = _; simp [lstep, mark_stopped, hdi])
                hml hfs (fn _ .waitDone rfl rfl (by simp))
      · -- waitFlushed
        split at hc'
        · injection hc' with hc'; subst hc'
          exact J_client_keep hJ i _ Ic' (by rw [hpc]; rfl) .retT rfl rfl rfl rfl (fn _ .retT rfl rfl (by simp))
        · cases hc'
      · -- waitDone
        split at hc'
        · injection hc' with hc'; subst hc'
          exact J_client_keep hJ i _ Ic' (by rw [hpc]; rfl) .wantF rfl rfl rfl rfl (fn _ .wantF rfl rfl (by simp))
        · cases hc'
      · -- inTwait: not in the repaired protocol
        exact absurd hpc (hJ.ctl.no_bug i)
      · -- wantF
        split at hc'
        · rename_i hfree
          injection hc' with hc'; subst hc'
          exact J_acq hJ _ (.client i) .sync Ic' hfree (by simp [inflight, acq, opOf]) rfl rfl
            (fn _ .inF rfl rfl (by simp))
        · cases hc'
      · -- inF: the final Sync of the shutting-down Stop
        injection hc' with hc'; subst hc'
        have hmu := hmuI (by rw [hpc]; rfl)
        have S := sync_spec s.d
        have hst : s.c.stopped = true := hJ.ctl.waiting i (Or.inl (by rw [hpc]; rfl))
        refine J_fin hJ _ (.client i) .sync s.markLen (some (Bws.sync s.d).1) (s.hist.length + 1) Ic'
          (by simp [inflight, hmu, hpc, opOf]) rfl
          (by show s.c.init = _; rw [hJ.init_eq]; exact S.init.symm)
          (by show s.c.stopped = _; rw [hJ.stopped_eq]; exact S.stopped.symm)
          (Nat.le_succ_of_le hJ.mlen) ?_ (fun h => by cases h)
        intro sF hs
        injection hs with hs; subst hs
        have ht : (s.hist ++ [(Who.client i, LOp.sync)]).take (s.hist.length + 1) = s.hist ++ [(Who.client i, LOp.sync)] := by
          apply List.take_of_length_le; simp
        refine ⟨?_, Nat.le_refl _, Nat.lt_succ_of_le hJ.mlen, ?_, ?_⟩
        · show (Bws.sync s.d).1.stopped = true
          rw [S.stopped, ← hJ.stopped_eq]; exact hst
        · rw [ht, ops_snoc, lrun_snoc, ← hJ.data]; rfl
        · rw [ht, ops_snoc]; simp
      · -- closeF
        injection hc' with hc'; subst hc'
        refine J_client_keep hJ i _ Ic' (by rw [hpc]; rfl) .retT rfl rfl rfl rfl (fun hn => ?_)
        exact absurd hpc ((hfn hn).2 i)
      · -- retT
        injection hc' with hc'; subst hc'
        exact J_client_keep hJ i _ Ic' (by rw [hpc]; rfl) .idle rfl rfl rfl rfl (fn _ .idle rfl rfl (by simp))

theorem J_run (cfg : BwsConc.Cfg) (hlw : cfg.lockedWait = false) (d0 : Bws.St) (acts : List Act) :
    ∀ s s', J cfg d0 s → runActs cfg s acts = some s' → J cfg d0 s' := by
  induction acts with
  | nil => intro s s' hJ h; simp only [runActs] at h; injection h with h; subst h; exact hJ
  | cons a as ih =>
    intro s s' hJ h
    simp only [runActs] at h
    cases hs : step cfg s a with
    | none => rw [hs] at h; cases h
    | some t => rw [hs] at h; exact ih t s' (J_step cfg hlw d0 s t a hJ hs) h

theorem J_reach (cfg : BwsConc.Cfg) (hlw : cfg.lockedWait = false) (d0 : Bws.St) (h0 : Fresh d0) (s : St)
    (h : Reach cfg d0 s) : J cfg d0 s := by
  obtain ⟨acts, ha⟩ := h
  exact J_run cfg hlw d0 acts _ _ (J_init cfg d0 h0) ha

/-! ## the control part is exactly the machine of Part 2 -/

theorem step_ctl (cfg : BwsConc.Cfg) (s s' : St) (a : Act) (h : step cfg s a = some s') :
    BwsConc.step cfg s.c a.ctl = some s'.c := by
  unfold step at h
  cases hc : BwsConc.step cfg s.c a.ctl with
  | none => rw [hc] at h; cases h
  | some c' =>
    rw [hc] at h; injection h with h; subst h
    congr 1
    cases a with
    | write i bs => rfl
    | sync i => rfl
    | stop i => rfl
    | tick => rfl
    | client i => simp only [effect]; split <;> rfl
    | loop => simp only [effect]; split <;> rfl

theorem runActs_ctl (cfg : BwsConc.Cfg) (acts : List Act) : ∀ s s', runActs cfg s acts = some s' →
    BwsConc.runActs cfg s.c (acts.map Act.ctl) = some s'.c := by
  induction acts with
  | nil => intro s s' h; simp only [runActs] at h; injection h with h; subst h; rfl
  | cons a as ih =>
    intro s s' h
    simp only [runActs] at h
    cases hs : step cfg s a with
    | none => rw [hs] at h; cases h
    | some t =>
      rw [hs] at h
      simp only [List.map_cons, BwsConc.runActs, step_ctl cfg s t a hs]
      exact ih t s' h

theorem reach_ctl (cfg : BwsConc.Cfg) (d0 : Bws.St) (s : St) (h : Reach cfg d0 s) : BwsConc.Reach cfg s.c := by
  obtain ⟨acts, ha⟩ := h
  exact ⟨acts.map Act.ctl, runActs_ctl cfg acts _ _ ha⟩

/-- the bytes never block a step: a step is enabled exactly when its control part is -/
theorem step_isSome (cfg : BwsConc.Cfg) (s : St) (a : Act) :
    (step cfg s a).isSome = (BwsConc.step cfg s.c a.ctl).isSome := by
  unfold step; cases BwsConc.step cfg s.c a.ctl <;> rfl

theorem reach_step (cfg : BwsConc.Cfg) (d0 : Bws.St) (s s' : St) (a : Act) (h : Reach cfg d0 s)
    (hs : step cfg s a = some s') : Reach cfg d0 s' := by
  obtain ⟨acts, ha⟩ := h
  refine ⟨acts ++ [a], ?_⟩
  have key : ∀ (l : List Act) (t : St), runActs cfg t l = some s → runActs cfg t (l ++ [a]) = some s' := by
    intro l
    induction l with
    | nil => intro t h; simp only [runActs] at h; injection h with h; subst h; simp [runActs, hs]
    | cons x xs ih =>
      intro t h
      simp only [runActs, List.cons_append] at h ⊢
      cases hx : step cfg t x with
      | none => rw [hx] at h; cases h
      | some u => rw [hx] at h; exact ih u h
  exact key acts _ ha

end ZapVerif.BwsCB
