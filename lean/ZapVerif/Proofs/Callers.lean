import ZapVerif.Model.Callers
/-! helper lemmas for C15 (caller skip arithmetic, the Capture doubling loop) -/
namespace ZapVerif.Callers
open ZapVerif.Gen.Callers

variable {F : Type}

theorem callers_length (st : List F) (s cap : Nat) : (callers st s cap).length = min cap (st.length - s) := by
  simp [callers, List.length_take, List.length_drop]

theorem callers_all (st : List F) (s cap : Nat) (h : st.length - s ≤ cap) : callers st s cap = st.drop s := by
  simp only [callers]
  exact List.take_of_length_le (by simp [List.length_drop]; omega)

/-- the growth factor read from stack.go really grows the slab -/
theorem growFactor_ge : 2 ≤ growFactor := by decide

theorem captureLoop_complete (st : List F) (s : Nat) : ∀ (fuel cap : Nat), 0 < cap →
    st.length - s < cap * growFactor ^ fuel → captureLoop st s fuel cap = some (st.drop s) := by
  intro fuel
  induction fuel with
  | zero =>
    intro cap hc h
    simp only [Nat.pow_zero, Nat.mul_one] at h
    have hl := callers_length st s cap
    have hne : (callers st s cap).length ≠ cap := by omega
    simp only [captureLoop, hne, ↓reduceIte]
    rw [callers_all st s cap (by omega)]
  | succ f ih =>
    intro cap hc h
    simp only [captureLoop]
    have hl := callers_length st s cap
    by_cases he : (callers st s cap).length = cap
    · simp only [he, ↓reduceIte]
      have hg := growFactor_ge
      apply ih (growFactor * cap) (Nat.mul_pos (by omega) hc)
      calc st.length - s < cap * growFactor ^ (f + 1) := h
        _ = growFactor * cap * growFactor ^ f := by
            rw [Nat.pow_succ, Nat.mul_comm (growFactor ^ f) growFactor, ← Nat.mul_assoc, Nat.mul_comm cap growFactor]
    · simp only [he, ↓reduceIte]
      rw [callers_all st s cap (by omega)]

theorem pow_len_bound (n s slab : Nat) (h : 0 < slab) : n - s < slab * growFactor ^ n := by
  have h1 : n < 2 ^ n := Nat.lt_two_pow_self
  have h2 : 2 ^ n ≤ growFactor ^ n := Nat.pow_le_pow_left growFactor_ge n
  have h3 : growFactor ^ n ≤ slab * growFactor ^ n := Nat.le_mul_of_pos_left _ h
  omega

/-- Capture(…, Full) returns every frame from the requested one outward, for every depth and every pooled slab -/
theorem capture_full (st : List F) (skip slab : Nat) (h : 0 < slab) :
    capture st skip true slab = some (st.drop (skip + captureCallersOffset)) := by
  simp only [capture, ↓reduceIte]
  exact captureLoop_complete st _ st.length slab h (pow_len_bound _ _ _ h)

theorem capture_first (st : List F) (skip slab : Nat) :
    capture st skip false slab = some ((st.drop (skip + captureCallersOffset)).take 1) := by
  simp [capture, callers]

/-! ### the skip carried by a derived logger -/

theorem sugar_desugar_eq : sugarDelta = desugarDelta := by decide

/-- callerSkip minus the sugar offset -/
def Logger.norm (l : Logger) : Int := l.callerSkip - (if l.sugared then (sugarDelta : Int) else 0)

theorem apply_norm (l l' : Logger) (d : Deriv) (h : d.apply l = some l') : l'.norm = l.norm + d.skips := by
  have hsd : (sugarDelta : Int) = (desugarDelta : Int) := by rw [sugar_desugar_eq]
  cases d <;> cases hs : l.sugared <;> simp [Deriv.apply, hs] at h <;> subst h <;>
    simp [Logger.norm, Deriv.skips, hs] <;> omega

theorem run_norm (ds : List Deriv) : ∀ (l l' : Logger), run ds l = some l' → l'.norm = l.norm + sumSkips ds := by
  induction ds with
  | nil => intro l l' h; simp [run] at h; subst h; simp [sumSkips]
  | cons d r ih =>
    intro l l' h
    simp only [run] at h
    cases hd : d.apply l with
    | none => simp [hd] at h
    | some l1 =>
      simp only [hd, Option.bind_some] at h
      have h1 := apply_norm l l1 d hd
      have h2 := ih l1 l' h
      simp only [sumSkips, List.map_cons, List.sum_cons] at h2 ⊢
      omega

theorem run_skip (ds : List Deriv) (l : Logger) (h : run ds {} = some l) :
    l.callerSkip = sumSkips ds + (if l.sugared then (sugarDelta : Int) else 0) := by
  have := run_norm ds {} l h
  simp [Logger.norm] at this
  omega

/-! ### selecting a frame of a structured stack -/

theorem drop_structured (pre zap ws : List F) (user : F) (outer : List F) (n : Nat)
    (h : n = pre.length + zap.length + ws.length) :
    (stackOf pre zap (ws ++ user :: outer)).drop n = user :: outer := by
  subst h
  simp only [stackOf, ← List.append_assoc]
  rw [List.drop_left' (by simp; omega)]

end ZapVerif.Callers
