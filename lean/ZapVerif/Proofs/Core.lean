import ZapVerif.Model.Core
/-! helper lemmas about the core algebra (M7): framing, disabled cores, path products, level scans -/
namespace ZapVerif.Cores

/-- `omega` does not look through the `Level` abbreviation -/
macro "lomega" : tactic => `(tactic| ((try simp only [Level] at *); omega))

/-! ### framing -/

mutual
/-- a (repaired) `Check` only appends, and what it appends does not depend on the accumulator -/
theorem check_frame (σ : Store) (sn : Snap) (l : Level) : ∀ (c : Core) (pend : List FldP) (ce : List Item),
    check σ sn l c pend ce = ce ++ check σ sn l c pend []
  | .leaf i en io ctx, pend, ce => by simp only [check]; split <;> simp
  | .nop, pend, ce => by simp [check]
  | .tee cs, pend, ce => by simp only [check]; exact checkAll_frame σ sn l cs pend ce
  | .incr c en, pend, ce => by
      simp only [check]; split
      · exact check_frame σ sn l c pend ce
      · simp
  | .hooked c h, pend, ce => by
      have ih := check_frame σ sn l c pend ce
      simp only [check]
      rw [ih]
      cases hc : check σ sn l c pend [] with
      | nil => simp
      | cons a r => simp
  | .sampler c s p, pend, ce => by
      simp only [check]; split
      · simp
      · split
        · simp
        · exact check_frame σ sn l c pend ce
  | .lazy cell c pfs, pend, ce => by
      simp only [check]; split
      · simp
      · exact check_frame σ sn l c _ ce
theorem checkAll_frame (σ : Store) (sn : Snap) (l : Level) : ∀ (cs : List Core) (pend : List FldP) (ce : List Item),
    checkAll σ sn l cs pend ce = ce ++ checkAll σ sn l cs pend []
  | [], pend, ce => by simp [checkAll]
  | c :: cs, pend, ce => by
      simp only [checkAll]
      rw [checkAll_frame σ sn l cs pend (check σ sn l c pend ce),
          checkAll_frame σ sn l cs pend (check σ sn l c pend []), check_frame σ sn l c pend ce]
      simp
end

theorem checkAll_cons (σ : Store) (sn : Snap) (l : Level) (c : Core) (cs : List Core) (pend : List FldP) :
    checkAll σ sn l (c :: cs) pend [] = check σ sn l c pend [] ++ checkAll σ sn l cs pend [] := by
  simp only [checkAll]; rw [checkAll_frame]

/-! ### a disabled core does nothing -/

mutual
theorem check_disabled (σ : Store) (sn : Snap) (l : Level) : ∀ (c : Core) (pend : List FldP) (ce : List Item),
    enabled σ c l = false → check σ sn l c pend ce = ce
  | .leaf i en io ctx, pend, ce, h => by simp only [enabled] at h; simp [check, h]
  | .nop, pend, ce, _ => by simp [check]
  | .tee cs, pend, ce, h => by
      simp only [enabled] at h; simp only [check]; exact checkAll_disabled σ sn l cs pend ce h
  | .incr c en, pend, ce, h => by simp only [enabled] at h; simp [check, h]
  | .hooked c hk, pend, ce, h => by
      simp only [enabled] at h
      simp [check, check_disabled σ sn l c pend ce h]
  | .sampler c s p, pend, ce, h => by simp only [enabled] at h; simp [check, h]
  | .lazy cell c pfs, pend, ce, h => by simp only [enabled] at h; simp [check, h]
theorem checkAll_disabled (σ : Store) (sn : Snap) (l : Level) : ∀ (cs : List Core) (pend : List FldP) (ce : List Item),
    enabledAny σ cs l = false → checkAll σ sn l cs pend ce = ce
  | [], pend, ce, _ => by simp [checkAll]
  | c :: cs, pend, ce, h => by
      simp only [enabledAny, Bool.or_eq_false_iff] at h
      simp only [checkAll]
      rw [check_disabled σ sn l c pend ce h.1]
      exact checkAll_disabled σ sn l cs pend ce h.2
end

mutual
theorem checkEv_disabled (σ : Store) (μ : Val) (l : Level) : ∀ (c : Core) (w : W),
    enabled σ c l = false → checkEv σ μ l c w = w
  | .leaf i en io ctx, w, _ => by simp [checkEv]
  | .nop, w, _ => by simp [checkEv]
  | .tee cs, w, h => by simp only [enabled] at h; simp only [checkEv]; exact checkEvAll_disabled σ μ l cs w h
  | .incr c en, w, h => by simp only [enabled] at h; simp [checkEv, h]
  | .hooked c hk, w, h => by simp only [enabled] at h; simp only [checkEv]; exact checkEv_disabled σ μ l c w h
  | .sampler c s p, w, h => by simp only [enabled] at h; simp [checkEv, h]
  | .lazy cell c pfs, w, h => by simp only [enabled] at h; simp [checkEv, h]
theorem checkEvAll_disabled (σ : Store) (μ : Val) (l : Level) : ∀ (cs : List Core) (w : W),
    enabledAny σ cs l = false → checkEvAll σ μ l cs w = w
  | [], w, _ => by simp [checkEvAll]
  | c :: cs, w, h => by
      simp only [enabledAny, Bool.or_eq_false_iff] at h
      simp only [checkEvAll]
      rw [checkEv_disabled σ μ l c w h.1]
      exact checkEvAll_disabled σ μ l cs w h.2
end

/-! ### path products -/

/-- a level filter met on the way from the root to a leaf -/
inductive Filt where
  | en (e : Enab)
  | samp (pass : Bool)

def Filt.ok (σ : Store) (l : Level) : Filt → Bool
  | .en e => e.on σ l
  | .samp p => !inRange l || p

mutual
/-- every leaf of the tree (left to right) with the filters on its path, outermost first -/
def paths : Core → List (Nat × List Filt)
  | .leaf i en _ _ => [(i, [.en en])]
  | .nop => []
  | .tee cs => pathsAll cs
  | .incr c en => (paths c).map fun p => (p.1, .en en :: p.2)
  | .hooked c _ => paths c
  | .sampler c _ p => (paths c).map fun q => (q.1, .samp p :: q.2)
  | .lazy _ c _ => paths c
def pathsAll : List Core → List (Nat × List Filt)
  | [] => []
  | c :: cs => paths c ++ pathsAll cs
end

def open_ (σ : Store) (l : Level) (p : Nat × List Filt) : Bool := p.2.all (Filt.ok σ l)

def leafIds : List Item → List Nat
  | [] => []
  | .leaf i _ _ :: r => i :: leafIds r
  | .hook _ :: r => leafIds r

theorem leafIds_append (a b : List Item) : leafIds (a ++ b) = leafIds a ++ leafIds b := by
  induction a with
  | nil => rfl
  | cons x r ih => cases x <;> simp [leafIds, ih]

theorem open_cons (σ : Store) (l : Level) (f : Filt) (ps : List (Nat × List Filt)) :
    ((ps.map fun p => (p.1, f :: p.2)).filter (open_ σ l)).map (·.1) =
      if f.ok σ l then (ps.filter (open_ σ l)).map (·.1) else [] := by
  induction ps with
  | nil => simp
  | cons p r ih =>
    by_cases hf : f.ok σ l = true
    · simp only [hf, if_true] at ih ⊢
      by_cases hp : p.2.all (Filt.ok σ l) = true
      · simp [open_, hf, hp]; simpa [open_] using ih
      · simp [open_, hf, hp]; simpa [open_] using ih
    · simp only [hf] at ih ⊢
      simp [open_, hf]; simpa [open_] using ih

mutual
/-- the delivered leaves are exactly the leaves whose whole path is open, in tree order, with multiplicity -/
theorem leafIds_check (σ : Store) (sn : Snap) (l : Level) : ∀ (c : Core) (pend : List FldP),
    leafIds (check σ sn l c pend []) = ((paths c).filter (open_ σ l)).map (·.1)
  | .leaf i en io ctx, pend => by
      simp only [check, paths]
      by_cases h : en.on σ l = true <;> simp [h, leafIds, open_, Filt.ok]
  | .nop, pend => by simp [check, paths, leafIds]
  | .tee cs, pend => by simp only [check, paths]; exact leafIds_checkAll σ sn l cs pend
  | .incr c en, pend => by
      simp only [check, paths]
      rw [open_cons]
      by_cases h : en.on σ l = true
      · simp only [h, if_true, Filt.ok]; exact leafIds_check σ sn l c pend
      · simp [h, Filt.ok, leafIds]
  | .hooked c h, pend => by
      simp only [check, paths]
      have ih := leafIds_check σ sn l c pend
      split
      · rw [leafIds_append, ih]; simp [leafIds]
      · exact ih
  | .sampler c s p, pend => by
      simp only [check, paths]
      rw [open_cons]
      have ih := leafIds_check σ sn l c pend
      by_cases he : enabled σ c l = true
      · simp only [he, Bool.not_true, Bool.false_eq_true, if_false]
        by_cases hp : (inRange l && !p) = true
        · have : Filt.ok σ l (.samp p) = false := by
            simp only [Bool.and_eq_true, Bool.not_eq_true'] at hp
            simp [Filt.ok, hp.1, hp.2]
          simp [hp, this, leafIds]
        · have : Filt.ok σ l (.samp p) = true := by
            simp only [Bool.and_eq_true, Bool.not_eq_true', not_and, Bool.not_eq_false] at hp
            simp only [Filt.ok, Bool.or_eq_true, Bool.not_eq_true']
            by_cases hr : inRange l = true
            · right; exact hp hr
            · left; simpa using hr
          simp only [hp, this, if_true]; exact ih
      · have he' : enabled σ c l = false := by simpa using he
        have h0 := check_disabled σ sn l c pend [] he'
        rw [h0] at ih
        simp only [he', Bool.not_false, if_true, leafIds]
        simp only [leafIds] at ih
        split <;> simp [← ih]
  | .lazy cell c pfs, pend => by
      simp only [check, paths]
      by_cases he : enabled σ c l = true
      · simp only [he, Bool.not_true, Bool.false_eq_true, if_false]
        exact leafIds_check σ sn l c _
      · have he' : enabled σ c l = false := by simpa using he
        have ih := leafIds_check σ sn l c pend
        rw [check_disabled σ sn l c pend [] he'] at ih
        simp only [he', Bool.not_false, if_true]
        exact ih
theorem leafIds_checkAll (σ : Store) (sn : Snap) (l : Level) : ∀ (cs : List Core) (pend : List FldP),
    leafIds (checkAll σ sn l cs pend []) = ((pathsAll cs).filter (open_ σ l)).map (·.1)
  | [], pend => by simp [checkAll, pathsAll, leafIds]
  | c :: cs, pend => by
      rw [checkAll_cons, leafIds_append, leafIds_check σ sn l c pend, leafIds_checkAll σ sn l cs pend]
      simp [pathsAll]
end

/-! ### level scans -/

/-- the valid level a reported level stands for: anything above Fatal is "nothing enabled", anything below Debug
    means Debug (an out-of-range AtomicLevel reports its own value) -/
def clampValid (L : Level) : Level := if L > 5 then invalidL else max L (-1)

theorem find_ge (q : Level → Bool) (a d : Level) : ∀ (r : List Level), (∀ x ∈ r, a ≤ x) → a ≤ d →
    a ≤ (r.find? q).getD d
  | [], _, hd => by simpa using hd
  | x :: r, hr, hd => by
      simp only [List.find?]
      split
      · simpa using hr x (by simp)
      · exact find_ge q a d r (fun y hy => hr y (by simp [hy])) hd

theorem scan_or (p q : Level → Bool) (d : Level) : ∀ (L : List Level), L.Pairwise (· < ·) → (∀ x ∈ L, x < d) →
    (L.find? (fun l => p l || q l)).getD d = min ((L.find? p).getD d) ((L.find? q).getD d)
  | [], _, _ => by simp
  | a :: r, hs, hd => by
      have hr : ∀ x ∈ r, a ≤ x := fun x hx => Int.le_of_lt ((List.pairwise_cons.mp hs).1 x hx)
      have had : a ≤ d := Int.le_of_lt (hd a (by simp))
      have ih := scan_or p q d r (List.pairwise_cons.mp hs).2 (fun x hx => hd x (by simp [hx]))
      have gp := find_ge p a d r hr had
      have gq := find_ge q a d r hr had
      cases hp : p a <;> cases hq : q a <;> simp only [List.find?, hp, hq, Bool.or_self, Bool.or_true, Bool.or_false, Option.getD_some]
      · exact ih
      · lomega
      · lomega
      · lomega

theorem validLevels_sorted : validLevels.Pairwise (· < ·) := by decide
theorem validLevels_lt : ∀ x ∈ validLevels, x < invalidL := by decide

theorem leastValid_or (p q : Level → Bool) :
    leastValid (fun l => p l || q l) = min (leastValid p) (leastValid q) :=
  scan_or p q invalidL validLevels validLevels_sorted validLevels_lt

theorem leastValid_range (p : Level → Bool) : -1 ≤ leastValid p ∧ leastValid p ≤ 6 := by
  unfold leastValid
  cases h : validLevels.find? p with
  | none => simp [invalidL]
  | some x =>
    have hm := List.mem_of_find?_eq_some h
    simp only [validLevels, List.mem_cons, List.not_mem_nil, or_false] at hm
    simp only [Option.getD_some]
    lomega

theorem leastValid_spec (p : Level → Bool) :
    (leastValid p = invalidL ∧ ∀ x ∈ validLevels, p x = false) ∨
    (leastValid p ∈ validLevels ∧ p (leastValid p) = true ∧ ∀ x ∈ validLevels, x < leastValid p → p x = false) := by
  unfold leastValid
  cases h : validLevels.find? p with
  | none =>
    left; refine ⟨rfl, ?_⟩
    intro x hx
    have := List.find?_eq_none.mp h x hx
    simpa using this
  | some y =>
    right
    simp only [Option.getD_some]
    refine ⟨List.mem_of_find?_eq_some h, List.find?_some h, ?_⟩
    intro x hx hlt
    -- everything before the first hit is rejected
    obtain ⟨as, bs, hab, hno⟩ := List.find?_eq_some_iff_append.mp h |>.2
    have hsorted := validLevels_sorted
    rw [hab] at hx hsorted
    rcases List.mem_append.mp hx with hxa | hxb
    · simpa using hno x hxa
    · exfalso
      rcases List.mem_cons.mp hxb with rfl | hxb
      · lomega
      · have := (List.pairwise_cons.mp (List.pairwise_append.mp hsorted).2.1).1 x hxb
        lomega

theorem clampValid_leastValid (p : Level → Bool) : clampValid (leastValid p) = leastValid p := by
  have := leastValid_range p
  unfold clampValid invalidL
  split <;> lomega

theorem clampValid_min (a b : Level) : clampValid (min a b) = min (clampValid a) (clampValid b) := by
  unfold clampValid invalidL
  split <;> split <;> split <;> lomega

theorem clampValid_atomic (t : Level) : clampValid t = leastValid (fun l => decide (t ≤ l)) := by
  unfold clampValid leastValid validLevels invalidL
  simp only [List.find?]
  repeat' split
  all_goals first | lomega | (simp at *; lomega) | simp at *

theorem enab_levelOf (σ : Store) (e : Enab) : clampValid (e.levelOf σ) = leastValid (e.on σ) := by
  cases e with
  | fn f => exact clampValid_leastValid f
  | atomic i => exact clampValid_atomic (σ i)

mutual
/-- the reported level is the least valid level that is enabled (Invalid when none is) -/
theorem levelOf_clamp (σ : Store) : ∀ (c : Core), clampValid (levelOf σ c) = leastValid (enabled σ c)
  | .leaf i en io ctx => by simpa [levelOf, enabled] using enab_levelOf σ en
  | .nop => by
      have : leastValid (enabled σ .nop) = invalidL := by
        unfold leastValid validLevels; simp [enabled]
      rw [this]; simp [levelOf, clampValid, invalidL]
  | .tee cs => by simpa [levelOf, enabled] using levelOfAll_clamp σ cs
  | .incr c en => by simpa [levelOf, enabled] using enab_levelOf σ en
  | .hooked c h => by simpa [levelOf, enabled] using levelOf_clamp σ c
  | .sampler c s p => by simpa [levelOf, enabled] using levelOf_clamp σ c
  | .lazy cell c pfs => by
      simp only [levelOf]
      have : enabled σ (.lazy cell c pfs) = enabled σ c := by funext l; simp [enabled]
      rw [this]; exact clampValid_leastValid _
theorem levelOfAll_clamp (σ : Store) : ∀ (cs : List Core), clampValid (levelOfAll σ cs) = leastValid (enabledAny σ cs)
  | [] => by
      have : leastValid (enabledAny σ []) = invalidL := by
        unfold leastValid validLevels; simp [enabledAny]
      rw [this]; simp [levelOfAll, clampValid, invalidL]
  | c :: cs => by
      simp only [levelOfAll]
      rw [clampValid_min, levelOf_clamp σ c, levelOfAll_clamp σ cs, ← leastValid_or]
      congr 1
end

mutual
/-- a core that enables no level at all reports exactly `InvalidLevel` -/
theorem levelOf_none (σ : Store) : ∀ (c : Core), (∀ l, enabled σ c l = false) → levelOf σ c = invalidL
  | .leaf i en io ctx, h => by
      cases en with
      | fn f =>
        simp only [levelOf, Enab.levelOf]
        rcases leastValid_spec f with ⟨h1, _⟩ | ⟨_, h2, _⟩
        · exact h1
        · have := h (leastValid f); simp [enabled, Enab.on, h2] at this
      | atomic j => have := h (σ j); simp [enabled, Enab.on] at this
  | .nop, _ => rfl
  | .tee cs, h => by
      simp only [levelOf]; exact levelOfAll_none σ cs (fun l => by simpa [enabled] using h l)
  | .incr c en, h => by
      cases en with
      | fn f =>
        simp only [levelOf, Enab.levelOf]
        rcases leastValid_spec f with ⟨h1, _⟩ | ⟨_, h2, _⟩
        · exact h1
        · have := h (leastValid f); simp [enabled, Enab.on, h2] at this
      | atomic j => have := h (σ j); simp [enabled, Enab.on] at this
  | .hooked c hk, h => by simp only [levelOf]; exact levelOf_none σ c (fun l => by simpa [enabled] using h l)
  | .sampler c s p, h => by simp only [levelOf]; exact levelOf_none σ c (fun l => by simpa [enabled] using h l)
  | .lazy cell c pfs, h => by
      simp only [levelOf]
      rcases leastValid_spec (enabled σ c) with ⟨h1, _⟩ | ⟨_, h2, _⟩
      · exact h1
      · have := h (leastValid (enabled σ c)); simp [enabled, h2] at this
theorem levelOfAll_none (σ : Store) : ∀ (cs : List Core), (∀ l, enabledAny σ cs l = false) → levelOfAll σ cs = invalidL
  | [], _ => rfl
  | c :: cs, h => by
      have h1 : ∀ l, enabled σ c l = false := fun l => by
        have := h l; simp only [enabledAny, Bool.or_eq_false_iff] at this; exact this.1
      have h2 : ∀ l, enabledAny σ cs l = false := fun l => by
        have := h l; simp only [enabledAny, Bool.or_eq_false_iff] at this; exact this.2
      simp [levelOfAll, levelOf_none σ c h1, levelOfAll_none σ cs h2]
end

/-! ### With preserves the filter structure -/

mutual
theorem paths_pushF (sn : Snap) : ∀ (c : Core) (fs : List FldP), paths (pushF sn c fs) = paths c
  | .leaf i en io ctx, fs => by simp [pushF, paths]
  | .nop, fs => by simp [pushF, paths]
  | .tee cs, fs => by simp only [pushF, paths]; exact pathsAll_pushF sn cs fs
  | .incr c en, fs => by simp only [pushF, paths]; rw [paths_pushF sn c fs]
  | .hooked c h, fs => by simp only [pushF, paths]; exact paths_pushF sn c fs
  | .sampler c s p, fs => by simp only [pushF, paths]; rw [paths_pushF sn c fs]
  | .lazy cell c pfs, fs => by simp only [pushF, paths]; exact paths_pushF sn c _
theorem pathsAll_pushF (sn : Snap) : ∀ (cs : List Core) (fs : List FldP), pathsAll (pushFAll sn cs fs) = pathsAll cs
  | [], fs => by simp [pushFAll, pathsAll]
  | c :: cs, fs => by simp only [pushFAll, pathsAll]; rw [paths_pushF sn c fs, pathsAll_pushF sn cs fs]
end

mutual
theorem enabled_pushF (σ : Store) (sn : Snap) (l : Level) : ∀ (c : Core) (fs : List FldP),
    enabled σ (pushF sn c fs) l = enabled σ c l
  | .leaf i en io ctx, fs => by simp [pushF, enabled]
  | .nop, fs => by simp [pushF, enabled]
  | .tee cs, fs => by simp only [pushF, enabled]; exact enabledAny_pushF σ sn l cs fs
  | .incr c en, fs => by simp [pushF, enabled]
  | .hooked c h, fs => by simp only [pushF, enabled]; exact enabled_pushF σ sn l c fs
  | .sampler c s p, fs => by simp only [pushF, enabled]; exact enabled_pushF σ sn l c fs
  | .lazy cell c pfs, fs => by simp only [pushF, enabled]; exact enabled_pushF σ sn l c _
theorem enabledAny_pushF (σ : Store) (sn : Snap) (l : Level) : ∀ (cs : List Core) (fs : List FldP),
    enabledAny σ (pushFAll sn cs fs) l = enabledAny σ cs l
  | [], fs => by simp [pushFAll, enabledAny]
  | c :: cs, fs => by simp only [pushFAll, enabledAny]; rw [enabled_pushF σ sn l c fs, enabledAny_pushF σ sn l cs fs]
end

/-! ### completeness of Enabled, where it holds -/

mutual
/-- every IncreaseLevel wrapper passes the validation of `NewIncreaseLevelCore` under the store `σ` -/
def wellBuilt (σ : Store) : Core → Bool
  | .leaf _ _ _ _ => true
  | .nop => true
  | .tee cs => wellBuiltAll σ cs
  | .incr c en => incrValid σ c en && wellBuilt σ c
  | .hooked c _ => wellBuilt σ c
  | .sampler c _ _ => wellBuilt σ c
  | .lazy _ c _ => wellBuilt σ c
def wellBuiltAll (σ : Store) : List Core → Bool
  | [] => true
  | c :: cs => wellBuilt σ c && wellBuiltAll σ cs
end

mutual
/-- no sampler on the tree drops at level `l` -/
def noDrop (l : Level) : Core → Bool
  | .leaf _ _ _ _ => true
  | .nop => true
  | .tee cs => noDropAll l cs
  | .incr c _ => noDrop l c
  | .hooked c _ => noDrop l c
  | .sampler c _ p => (!inRange l || p) && noDrop l c
  | .lazy _ c _ => noDrop l c
def noDropAll (l : Level) : List Core → Bool
  | [] => true
  | c :: cs => noDrop l c && noDropAll l cs
end

mutual
theorem enabled_delivers (σ : Store) (sn : Snap) (l : Level) (hl : l ∈ validLevels) : ∀ (c : Core) (pend : List FldP),
    wellBuilt σ c = true → noDrop l c = true → enabled σ c l = true → check σ sn l c pend [] ≠ []
  | .leaf i en io ctx, pend, _, _, he => by simp only [enabled] at he; simp [check, he]
  | .nop, pend, _, _, he => by simp [enabled] at he
  | .tee cs, pend, hw, hn, he => by
      simp only [wellBuilt] at hw; simp only [noDrop] at hn; simp only [enabled] at he
      simp only [check]; exact enabledAny_delivers σ sn l hl cs pend hw hn he
  | .incr c en, pend, hw, hn, he => by
      simp only [wellBuilt, incrValid, Bool.and_eq_true, List.all_eq_true] at hw
      simp only [noDrop] at hn; simp only [enabled] at he
      have hc : enabled σ c l = true := by
        have := hw.1 l hl; simpa [he] using this
      simp only [check, he, if_true]
      exact enabled_delivers σ sn l hl c pend hw.2 hn hc
  | .hooked c h, pend, hw, hn, he => by
      simp only [wellBuilt] at hw; simp only [noDrop] at hn; simp only [enabled] at he
      have := enabled_delivers σ sn l hl c pend hw hn he
      simp only [check]
      split
      · simp
      · exact this
  | .sampler c s p, pend, hw, hn, he => by
      simp only [wellBuilt] at hw; simp only [noDrop, Bool.and_eq_true] at hn; simp only [enabled] at he
      have hp : (inRange l && !p) = false := by
        have := hn.1; revert this; cases inRange l <;> cases p <;> simp
      simp only [check, he, hp, Bool.not_true, Bool.false_eq_true, if_false]
      exact enabled_delivers σ sn l hl c pend hw hn.2 he
  | .lazy cell c pfs, pend, hw, hn, he => by
      simp only [wellBuilt] at hw; simp only [noDrop] at hn; simp only [enabled] at he
      simp only [check, he, Bool.not_true, Bool.false_eq_true, if_false]
      exact enabled_delivers σ sn l hl c _ hw hn he
theorem enabledAny_delivers (σ : Store) (sn : Snap) (l : Level) (hl : l ∈ validLevels) : ∀ (cs : List Core) (pend : List FldP),
    wellBuiltAll σ cs = true → noDropAll l cs = true → enabledAny σ cs l = true → checkAll σ sn l cs pend [] ≠ []
  | [], pend, _, _, he => by simp [enabledAny] at he
  | c :: cs, pend, hw, hn, he => by
      simp only [wellBuiltAll, Bool.and_eq_true] at hw
      simp only [noDropAll, Bool.and_eq_true] at hn
      simp only [enabledAny, Bool.or_eq_true] at he
      rw [checkAll_cons]
      rcases he with he | he
      · have := enabled_delivers σ sn l hl c pend hw.1 hn.1 he
        simp [this]
      · have := enabledAny_delivers σ sn l hl cs pend hw.2 hn.2 he
        simp [this]
end

/-! ### Logger.log = guard + checked -/

theorem W.emit_nil (w : W) : w.emit [] = w := by simp [W.emit]

theorem log_eq_checked (σ : Store) (μ : Val) (lg : Logger) (l : Level) (fs : List Fld) (w : W) :
    lg.log σ μ l fs w =
      if (decide (l < dpanicL) && !enabled σ lg.core l) = true then w else lg.checked σ μ l fs w := by
  by_cases hg : (decide (l < dpanicL) && !enabled σ lg.core l) = true
  · simp [Logger.log, Logger.check, hg]
  · by_cases h0 : check σ (checkEv σ μ l lg.core w).snap l lg.core [] [] = [] ∧ lg.terminal l = none
    · simp only [Logger.log, Logger.check, Logger.checked, hg, h0, and_self, if_true, Bool.false_eq_true, if_false]
      simp [CE.write, W.emit, termEvs]
    · simp only [Logger.log, Logger.check, Logger.checked, hg, h0, Bool.false_eq_true, if_false]

/-! ### front-end guards (facts decided on the generated table) -/

def FrontEnd.lts (fe : FrontEnd) : List Bool :=
  match fe.level with
  | some k => [decide (k < dpanicL)]
  | none => [true, false]

/-- the guards on the chain, taken together, say exactly "skip iff below DPanic and disabled" -/
def FrontEnd.exact (fe : FrontEnd) : Bool :=
  fe.lts.all fun lt => [true, false].all fun en => fe.guards.all (Guard.pass lt en) == !(lt && !en)

/-- the same, except that nothing is said about disabled entries from DPanic upwards -/
def FrontEnd.sound (fe : FrontEnd) : Bool :=
  fe.lts.all fun lt => [true, false].all fun en => !(lt || en) || (fe.guards.all (Guard.pass lt en) == !(lt && !en))

theorem FrontEnd.lt_mem (fe : FrontEnd) (l : Level) (ha : fe.takes l = true) : decide (l < dpanicL) ∈ fe.lts := by
  unfold FrontEnd.takes at ha
  unfold FrontEnd.lts
  cases hlv : fe.level with
  | none => cases decide (l < dpanicL) <;> simp
  | some k =>
    simp only [hlv] at ha
    have hk : k = l := by simpa using ha
    subst hk; simp

theorem guards_of_exact (fe : FrontEnd) (hx : fe.exact = true) (l : Level) (ha : fe.takes l = true) (en : Bool) :
    fe.guards.all (Guard.pass (decide (l < dpanicL)) en) = !(decide (l < dpanicL) && !en) := by
  unfold FrontEnd.exact at hx
  have h1 := List.all_eq_true.mp hx _ (fe.lt_mem l ha)
  have h2 := List.all_eq_true.mp h1 en (by cases en <;> simp)
  simpa using h2

theorem guards_of_sound (fe : FrontEnd) (hx : fe.sound = true) (l : Level) (ha : fe.takes l = true) (en : Bool)
    (h : l < dpanicL ∨ en = true) :
    fe.guards.all (Guard.pass (decide (l < dpanicL)) en) = !(decide (l < dpanicL) && !en) := by
  unfold FrontEnd.sound at hx
  have h1 := List.all_eq_true.mp hx _ (fe.lt_mem l ha)
  have h2 := List.all_eq_true.mp h1 en (by cases en <;> simp)
  have h3 : (decide (l < dpanicL) || en) = true := by
    rcases h with h | h
    · simp [h]
    · simp [h]
  simp only [h3, Bool.not_true, Bool.false_or] at h2
  simpa using h2

end ZapVerif.Cores
