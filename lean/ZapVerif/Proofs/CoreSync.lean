import ZapVerif.Model.Core
/-! `Core.Sync` reaches every io leaf through every wrapper. -/
namespace ZapVerif.Cores
open ZapVerif

/-- the leaves whose sink was synced, in order -/
def syncIds (evs : List Ev) : List Nat := evs.filterMap fun | .sync id => some id | _ => none

theorem syncIds_append (a b : List Ev) : syncIds (a ++ b) = syncIds a ++ syncIds b := by
  simp [syncIds, List.filterMap_append]

theorem syncIds_marshal (id : Nat) (fs : List Fld) : syncIds (fs.map (Ev.marshal id)) = [] := by
  induction fs with
  | nil => rfl
  | cons f r ih => simpa [syncIds, List.filterMap_cons] using ih

mutual
theorem withEv_syncIds (μ : Val) : ∀ (c : Core) (fs : List Fld) (w : W), syncIds (withEv μ c fs w).evs = syncIds w.evs
  | .leaf id _ io _, fs, w => by
      cases io <;> simp [withEv, W.emit, syncIds_append, syncIds_marshal]
  | .nop, _, w => by simp [withEv]
  | .tee cs, fs, w => by simpa [withEv] using withEvAll_syncIds μ cs fs w
  | .incr c _, fs, w => by simpa [withEv] using withEv_syncIds μ c fs w
  | .hooked c _, fs, w => by simpa [withEv] using withEv_syncIds μ c fs w
  | .sampler c _ _, fs, w => by simpa [withEv] using withEv_syncIds μ c fs w
  | .lazy cell c pfs, fs, w => by
      simp only [withEv]
      rw [withEv_syncIds μ c fs]
      cases h : w.snap cell with
      | some _ => rfl
      | none => simpa using withEv_syncIds μ c (pfs.map (Fld.resolve μ)) w
theorem withEvAll_syncIds (μ : Val) : ∀ (cs : List Core) (fs : List Fld) (w : W), syncIds (withEvAll μ cs fs w).evs = syncIds w.evs
  | [], _, w => by simp [withEvAll]
  | c :: cs, fs, w => by
      simp only [withEvAll]
      rw [withEvAll_syncIds μ cs fs, withEv_syncIds μ c fs]
end

theorem forceCell_syncIds (μ : Val) (cell : Nat) (c : Core) (pfs : List Fld) (w : W) :
    syncIds (forceCell μ cell c pfs w).evs = syncIds w.evs := by
  unfold forceCell
  cases h : w.snap cell with
  | some _ => rfl
  | none => simpa using withEv_syncIds μ c (pfs.map (Fld.resolve μ)) w

mutual
theorem syncEv_syncIds (μ : Val) : ∀ (c : Core) (w : W), syncIds (syncEv μ c w).evs = syncIds w.evs ++ ioLeaves c
  | .leaf id _ io _, w => by
      cases io <;> simp [syncEv, ioLeaves, W.emit, syncIds_append, syncIds]
  | .nop, w => by simp [syncEv, ioLeaves]
  | .tee cs, w => by simpa [syncEv, ioLeaves] using syncEvAll_syncIds μ cs w
  | .incr c _, w => by simpa [syncEv, ioLeaves] using syncEv_syncIds μ c w
  | .hooked c _, w => by simpa [syncEv, ioLeaves] using syncEv_syncIds μ c w
  | .sampler c _ _, w => by simpa [syncEv, ioLeaves] using syncEv_syncIds μ c w
  | .lazy cell c pfs, w => by
      simp only [syncEv, ioLeaves]
      rw [syncEv_syncIds μ c, forceCell_syncIds]
theorem syncEvAll_syncIds (μ : Val) : ∀ (cs : List Core) (w : W), syncIds (syncEvAll μ cs w).evs = syncIds w.evs ++ ioLeavesAll cs
  | [], w => by simp [syncEvAll, ioLeavesAll]
  | c :: cs, w => by
      simp only [syncEvAll, ioLeavesAll]
      rw [syncEvAll_syncIds μ cs, syncEv_syncIds μ c, List.append_assoc]
end

end ZapVerif.Cores
