import ZapVerif.Model.Core
import ZapVerif.Proofs.Core
/-! event-trace lemmas: `Check` and `With` only append marshal / sampler-decision events -/
namespace ZapVerif.Cores

def Ev.checkTime : Ev → Bool
  | .marshal _ _ => true
  | .samp _ _ => true
  | _ => false

def Ev.isTerm : Ev → Bool
  | .term _ => true
  | _ => false

/-- `w'` extends `w` by check-time events only -/
def Ext (w w' : W) : Prop := ∃ new, w'.evs = w.evs ++ new ∧ ∀ e ∈ new, e.checkTime = true

theorem Ext.refl (w : W) : Ext w w := ⟨[], by simp, by simp⟩

theorem Ext.trans {a b c : W} (h1 : Ext a b) (h2 : Ext b c) : Ext a c := by
  obtain ⟨n1, e1, p1⟩ := h1
  obtain ⟨n2, e2, p2⟩ := h2
  refine ⟨n1 ++ n2, by rw [e2, e1, List.append_assoc], ?_⟩
  intro e he
  rcases List.mem_append.mp he with h | h
  · exact p1 e h
  · exact p2 e h

theorem Ext.emit (w : W) (es : List Ev) (h : ∀ e ∈ es, e.checkTime = true) : Ext w (w.emit es) :=
  ⟨es, by simp [W.emit], h⟩

theorem Ext.setSnap (w : W) (s : Snap) : Ext w { w with snap := s } := ⟨[], by simp, by simp⟩

mutual
theorem withEv_ext (μ : Val) : ∀ (c : Core) (fs : List Fld) (w : W), Ext w (withEv μ c fs w)
  | .leaf id en io ctx, fs, w => by
      simp only [withEv]; split
      · apply Ext.emit; intro e he
        obtain ⟨f, _, rfl⟩ := List.mem_map.mp he; rfl
      · exact Ext.refl w
  | .nop, fs, w => by simp only [withEv]; exact Ext.refl w
  | .tee cs, fs, w => by simp only [withEv]; exact withEvAll_ext μ cs fs w
  | .incr c en, fs, w => by simp only [withEv]; exact withEv_ext μ c fs w
  | .hooked c h, fs, w => by simp only [withEv]; exact withEv_ext μ c fs w
  | .sampler c s p, fs, w => by simp only [withEv]; exact withEv_ext μ c fs w
  | .lazy cell c pfs, fs, w => by
      simp only [withEv]
      cases hs : w.snap cell with
      | some r => simp only []; exact withEv_ext μ c fs w
      | none =>
        simp only []
        exact ((withEv_ext μ c _ w).trans (Ext.setSnap _ _)).trans (withEv_ext μ c fs _)
theorem withEvAll_ext (μ : Val) : ∀ (cs : List Core) (fs : List Fld) (w : W), Ext w (withEvAll μ cs fs w)
  | [], fs, w => by simp only [withEvAll]; exact Ext.refl w
  | c :: cs, fs, w => by
      simp only [withEvAll]; exact (withEv_ext μ c fs w).trans (withEvAll_ext μ cs fs _)
end

theorem forceCell_ext (μ : Val) (cell : Nat) (c : Core) (pfs : List Fld) (w : W) : Ext w (forceCell μ cell c pfs w) := by
  unfold forceCell
  cases hs : w.snap cell with
  | some r => exact Ext.refl w
  | none => exact (withEv_ext μ c _ w).trans (Ext.setSnap _ _)

mutual
theorem checkEv_ext (σ : Store) (μ : Val) (l : Level) : ∀ (c : Core) (w : W), Ext w (checkEv σ μ l c w)
  | .leaf id en io ctx, w => by simp only [checkEv]; exact Ext.refl w
  | .nop, w => by simp only [checkEv]; exact Ext.refl w
  | .tee cs, w => by simp only [checkEv]; exact checkEvAll_ext σ μ l cs w
  | .incr c en, w => by
      simp only [checkEv]; split
      · exact checkEv_ext σ μ l c w
      · exact Ext.refl w
  | .hooked c h, w => by simp only [checkEv]; exact checkEv_ext σ μ l c w
  | .sampler c s p, w => by
      simp only [checkEv]; split
      · exact Ext.refl w
      · split
        · split
          · exact (Ext.emit w [.samp s true] (by simp [Ev.checkTime])).trans (checkEv_ext σ μ l c _)
          · exact Ext.emit w [.samp s false] (by simp [Ev.checkTime])
        · exact checkEv_ext σ μ l c w
  | .lazy cell c pfs, w => by
      simp only [checkEv]; split
      · exact Ext.refl w
      · exact (forceCell_ext μ cell c pfs w).trans (checkEv_ext σ μ l c _)
theorem checkEvAll_ext (σ : Store) (μ : Val) (l : Level) : ∀ (cs : List Core) (w : W), Ext w (checkEvAll σ μ l cs w)
  | [], w => by simp only [checkEvAll]; exact Ext.refl w
  | c :: cs, w => by
      simp only [checkEvAll]; exact (checkEv_ext σ μ l c w).trans (checkEvAll_ext σ μ l cs _)
end

theorem writeItem_noterm (μ : Val) (l : Level) (fs : List Fld) (it : Item) : ∀ e ∈ writeItem μ l fs it, e.isTerm = false := by
  intro e he
  cases it with
  | hook h => simp [writeItem] at he; subst he; rfl
  | leaf id io ctx =>
    simp only [writeItem] at he
    split at he
    · simp only [List.mem_append, List.mem_map, List.mem_singleton] at he
      rcases he with (⟨f, _, rfl⟩ | rfl) | he
      · rfl
      · rfl
      · split at he
        · simp at he; subst he; rfl
        · simp at he
    · simp at he; subst he; rfl

theorem checkTime_noterm (e : Ev) (h : e.checkTime = true) : e.isTerm = false := by
  cases e <;> simp_all [Ev.checkTime, Ev.isTerm]

/-- the trace of `Logger.checked`: what was there, check-time events, one block per accepting core in CheckedEntry
    order, then the terminal action (if any) -/
theorem checked_trace (σ : Store) (μ : Val) (lg : Logger) (l : Level) (fs : List Fld) (w : W) :
    (lg.checked σ μ l fs w).evs =
      (checkEv σ μ l lg.core w).evs ++
      (check σ (checkEv σ μ l lg.core w).snap l lg.core [] []).flatMap (writeItem μ l fs) ++
      termEvs (lg.terminal l) := by
  simp [Logger.checked, CE.write, W.emit, List.append_assoc]

end ZapVerif.Cores
