import ZapVerif.Model.Deadlock
namespace ZapVerif.Deadlock

theorem inv_step (ts : List Nat) (s : St) (t : Nat) (h : Inv ts s) : Inv ts (step s t) := by
  intro u hu
  have hu' := h u hu
  unfold step
  cases hp : s.prog t with
  | nil => simpa using hu'
  | cons op r =>
    by_cases hut : u = t
    · subst hut
      rw [hp] at hu'
      cases op with
      | acq m => simp [okProg] at hu'; simp [upd, hu'.2]
      | rel m => simp [okProg] at hu'; simp [upd, hu'.2]
      | other => simp [okProg] at hu'; simp [upd, hu']
      | wait => simp [okProg] at hu'; simp [upd, hu'.2]
    · cases op <;> simpa [upd, hut] using hu'

theorem inv_run (ts : List Nat) (sched : List Nat) : ∀ s, Inv ts s → Inv ts (run s sched) := by
  induction sched with
  | nil => intro s h; exact h
  | cons t r ih => intro s h; exact ih _ (inv_step ts s t h)

theorem exists_max : ∀ l : List Nat, l ≠ [] → ∃ M ∈ l, ∀ h ∈ l, h ≤ M
  | [], h => absurd rfl h
  | [a], _ => ⟨a, by simp, by simp⟩
  | a :: b :: l, _ => by
    obtain ⟨M, hM, hmax⟩ := exists_max (b :: l) (by simp)
    by_cases hle : a ≤ M
    · exact ⟨M, List.mem_cons_of_mem _ hM, by
        intro h hh; rcases List.mem_cons.mp hh with rfl | hh
        · exact hle
        · exact hmax h hh⟩
    · exact ⟨a, by simp, by
        intro h hh; rcases List.mem_cons.mp hh with rfl | hh
        · exact Nat.le_refl _
        · have := hmax h hh; omega⟩

/-- **no_deadlock** (state form): under the lock-order discipline, in every state
    either some goroutine can step, or every unfinished goroutine sits at a non-lock blocking operation
    *outside* every critical section (so no lock is involved in the standstill). -/
theorem progress (ts : List Nat) (ready : Nat → Bool) (s : St) (hinv : Inv ts s) :
    (∃ t ∈ ts, enabled ts ready s t = true) ∨
    (∀ t ∈ ts, s.prog t ≠ [] → ∃ r, s.prog t = .wait :: r ∧ s.held t = []) := by
  by_cases hen : ∃ t ∈ ts, enabled ts ready s t = true
  · exact Or.inl hen
  · right
    have hno : ∀ t ∈ ts, enabled ts ready s t = false := by
      intro t ht
      cases h : enabled ts ready s t with
      | false => rfl
      | true => exact absurd ⟨t, ht, h⟩ hen
    -- every unfinished goroutine is at a blocked acquire or at a wait
    have hshape : ∀ t ∈ ts, s.prog t ≠ [] →
        (∃ m r, s.prog t = .acq m :: r ∧ isHeld ts s m = true) ∨ (∃ r, s.prog t = .wait :: r) := by
      intro t ht hne
      have h := hno t ht
      unfold enabled at h
      cases hp : s.prog t with
      | nil => exact absurd hp hne
      | cons op r =>
        rw [hp] at h
        cases op with
        | acq m => left; exact ⟨m, r, rfl, by simpa using h⟩
        | wait => right; exact ⟨r, rfl⟩
        | rel m => simp at h
        | other => simp at h
    -- a goroutine at a wait holds nothing
    have hwaitfree : ∀ t ∈ ts, ∀ r, s.prog t = .wait :: r → s.held t = [] := by
      intro t ht r hp
      have := hinv t ht
      rw [hp] at this
      simp [okProg] at this
      exact this.1
    -- no goroutine is at a blocked acquire: otherwise take the largest held lock
    have hnoacq : ∀ t ∈ ts, ∀ m r, s.prog t = .acq m :: r → isHeld ts s m = true → False := by
      intro t0 ht0 m0 r0 hp0 hh0
      let H := ts.flatMap fun u => s.held u
      have hm0 : m0 ∈ H := by
        simp only [isHeld, List.any_eq_true, List.contains_iff_mem] at hh0
        obtain ⟨u, hu, hmu⟩ := hh0
        exact List.mem_flatMap.mpr ⟨u, hu, by simpa using hmu⟩
      obtain ⟨M, hM, hmax⟩ := exists_max H (List.ne_nil_of_mem hm0)
      obtain ⟨u, hu, hMu⟩ := List.mem_flatMap.mp hM
      have hune : s.prog u ≠ [] := by
        intro hnil
        have := hinv u hu
        rw [hnil] at this
        simp [okProg] at this
        rw [this] at hMu; simp at hMu
      rcases hshape u hu hune with ⟨m', r', hp', hh'⟩ | ⟨r', hp'⟩
      · have hi := hinv u hu
        rw [hp'] at hi
        simp [okProg] at hi
        have hlt := hi.1 M hMu
        have hm' : m' ∈ H := by
          simp only [isHeld, List.any_eq_true, List.contains_iff_mem] at hh'
          obtain ⟨v, hv, hmv⟩ := hh'
          exact List.mem_flatMap.mpr ⟨v, hv, by simpa using hmv⟩
        have := hmax m' hm'
        omega
      · have := hwaitfree u hu r' hp'
        rw [this] at hMu; simp at hMu
    intro t ht hne
    rcases hshape t ht hne with ⟨m, r, hp, hh⟩ | ⟨r, hp⟩
    · exact absurd (hnoacq t ht m r hp hh) id
    · exact ⟨r, hp, hwaitfree t ht r hp⟩

/-- initial states: nobody holds anything and every program follows the discipline -/
def Init (ts : List Nat) (s : St) : Prop := ∀ t ∈ ts, s.held t = [] ∧ okProg [] (s.prog t) = true

theorem init_inv (ts : List Nat) (s : St) (h : Init ts s) : Inv ts s := by
  intro t ht; rw [(h t ht).1]; exact (h t ht).2

end ZapVerif.Deadlock
